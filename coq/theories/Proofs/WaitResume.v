(** C07 -- the foreground wait RESUMED after kernel actions: the invariant tying
    the settled set of a Waiting state to the process states of Term.v's kernel
    model, through every action of the session machine.

    [okp pr]: the process is not "plainly running": it is reaped, a zombie (ended,
    not yet reaped), stopped, or running with its continuation NOT YET REPORTED
    ([pnote = NCont]: the one unreported change the round-2 note speaks of).
    [WI pids w ps]: the settled set [w] is duplicate-free, within [pids], and every
    pid in it has a process with [okp]. *)
From Coq Require Import ZArith List Bool Arith Lia.
From Cicada Require Import Model.Jobs Model.Term Model.WaitTerm Proofs.JobsInv Proofs.WaitTermProofs.
Import ListNotations.
Local Open Scope Z_scope.

Definition okp (pr : proc) : bool :=
  match pst pr with
  | PRun => match pnote pr with NCont => true | _ => false end
  | _ => true
  end.

Definition has_okp (ps : list proc) (p : Z) : Prop :=
  exists pr, In pr ps /\ ppid pr = p /\ okp pr = true.

Definition WI (pids w : list Z) (ps : list proc) : Prop :=
  NoDup w /\ incl w pids /\ forall p, In p w -> has_okp ps p.

Definition WIst (s : st) : Prop :=
  match md s with
  | Waiting _ pids w _ _ => WI pids w (procs (k s))
  | _ => True
  end.

Lemma truthful_okp : forall e pr, is_cont e = false -> truthful e pr -> okp pr = true.
Proof. intros e pr C T. unfold okp. destruct e; cbn in *; try discriminate C; rewrite T; reflexivity. Qed.

Lemma WI_step : forall pids w ps e ps', next_status ps = Some (e, ps') ->
  WI pids w ps -> WI pids (settled_step pids w e) ps'.
Proof.
  intros pids w ps e ps' H (ND & IN & OK).
  destruct (next_status_shape ps e ps' H) as (a & pr & pr' & b & -> & -> & P1 & P2 & TR & G).
  assert (KEEP : forall p, p <> ev_pid e -> has_okp (a ++ pr :: b) p -> has_okp (a ++ pr' :: b) p).
  { intros p N (x & I & Px & Ox). exists x. split; [|auto].
    apply (in_swap a b pr pr' x I). intros ->. congruence. }
  unfold settled_step. destruct (memZ (ev_pid e) pids) eqn:F.
  - apply memZ_in in F. destruct (is_cont e) eqn:C.
    + split; [apply NoDup_filter; exact ND|]. split.
      * intros p Hp. apply in_hs_remove in Hp. apply IN. tauto.
      * intros p Hp. apply in_hs_remove in Hp. destruct Hp as [Hp N]. apply KEEP; auto.
    + split.
      * unfold hs_add. destruct (memZ (ev_pid e) w) eqn:M; [exact ND|].
        constructor; [apply memZ_false; exact M|exact ND].
      * split.
        -- intros p Hp. apply in_hs_add in Hp. destruct Hp as [->|Hp]; auto.
        -- intros p Hp. destruct (Z.eq_dec p (ev_pid e)) as [->|N].
           ++ exists pr'. split; [apply in_or_app; right; left; reflexivity|]. split; [exact P2|].
              apply (truthful_okp e); assumption.
           ++ apply in_hs_add in Hp. destruct Hp as [Hp|Hp]; [contradiction|]. apply KEEP; auto.
  - apply memZ_false in F. split; [exact ND|]. split; [exact IN|].
    intros p Hp. apply KEEP; [|auto]. intros ->. apply F. apply IN. exact Hp.
Qed.

(** the loop: the invariant survives, and when it comes back out of the loop every
    member has an [okp] process -- or the loop broke on ECHILD and every process of
    the shell is reaped *)
Lemma settle_WI : forall c gid pids v rest ow m g fuel kt w we,
  WI pids w (procs kt) ->
  let s1 := settle c fuel (waiting_st kt gid pids w v rest ow m g we) in
  WIst s1 /\
  (md s1 = Between rest ->
   owner s1 = (if back v then c_sh c else ow) /\
   ((forall p, In p pids -> has_okp (procs (k s1)) p) \/ all_gone (procs (k s1)) = true)).
Proof.
  intros c gid pids v rest ow m g. induction fuel as [|f IH]; intros kt w we W.
  - cbn. split; [exact W|]. intros H. discriminate H.
  - cbn [settle waiting_st md k owner smask gh wevs].
    destruct (next_status (procs kt)) as [[e ps]|] eqn:N.
    + pose proof (wait_body_procs (set_procs kt ps) gid pids w e) as P.
      pose proof (wait_body_snd (set_procs kt ps) gid pids w e) as Q.
      destruct (wait_body (set_procs kt ps) gid pids w e) as [k2 w2].
      cbn [fst snd set_procs procs] in P, Q. subst w2.
      assert (W2 : WI pids (settled_step pids w e) (procs k2)) by (rewrite P; apply (WI_step _ _ _ _ _ N W)).
      destruct (negb (is_cont e) && (length pids <=? length (settled_step pids w e))%nat) eqn:C.
      * destruct (finish_facts c k2 v ow m (g ++ [Wait gid pids (we ++ [e])]) rest) as (F1 & F2 & _ & _ & F5).
        unfold WIst. rewrite F2, F5. split; [exact I|]. intros _. split; [exact F1|]. left.
        apply andb_true_iff in C. destruct C as [_ C]. apply Nat.leb_le in C.
        destruct W2 as (ND & IN & OK). intros p Hp. apply OK.
        apply (NoDup_length_incl ND C IN). exact Hp.
      * apply (IH k2 _ (we ++ [e]) W2).
    + destruct (all_gone (procs kt)) eqn:A.
      * destruct (finish_facts c kt v ow m (g ++ [Wait gid pids we]) rest) as (F1 & F2 & _ & _ & F5).
        unfold WIst. rewrite F2, F5. split; [exact I|]. intros _. split; [exact F1|]. right. exact A.
      * split; [exact W|]. intros H. discriminate H.
Qed.

Lemma WI_nil : forall pids ps, WI pids [] ps.
Proof. intros. split; [constructor|]. split; intros p []. Qed.

Lemma finish_WI : forall c kk v ow m g rest, WIst (finish c kk v ow m g rest).
Proof.
  intros. unfold WIst. destruct (finish_facts c kk v ow m g rest) as (_ & F2 & _). rewrite F2. exact I.
Qed.

Lemma enter_wait_WI : forall c kk gid pids v ow m g rest, WIst (enter_wait c kk gid pids v ow m g rest).
Proof.
  intros. unfold enter_wait. destruct pids as [|p0 ps]; [apply finish_WI|].
  unfold settle_all. cbn [k md].
  apply (settle_WI c gid (p0 :: ps) v rest ow m g _ kk [] []). apply WI_nil.
Qed.

Lemma next_WI : forall kk ow m g rest, WIst (next kk ow m g rest).
Proof. intros. exact I. Qed.

(** a command of a line leaves the machine between two commands or in a wait it
    has just entered: whatever the state before *)
Lemma exec_WI : forall c s x r, WIst (exec c s x r).
Proof.
  intros c s x r. destruct x as [pids bg|arg pick|arg pick| |]; cbn [exec].
  - unfold launch. destruct pids as [|p0 ps]; [apply next_WI|].
    destruct (if c_hasterm c && c_isatty c && negb bg
              then give_terminal_to (group_exists p0 (procs (k s) ++ stages p0 (smask s) (p0 :: ps))) p0 (owner s) (smask s)
              else (false, owner s, smask s)) as [[tg ow] m].
    destruct bg; [apply next_WI|apply enter_wait_WI].
  - unfold do_fg. destruct (ctab (k s)); [apply next_WI|].
    destruct (find_job _ arg pick); [|apply next_WI].
    match goal with |- context [give_terminal_to ?a ?b ?c0 ?d] => destruct (give_terminal_to a b c0 d) as [[given ow] m] end.
    destruct given; [apply enter_wait_WI|apply next_WI].
  - unfold do_bg. destruct (ctab (k s)); [apply next_WI|].
    destruct (find_job _ arg pick) as [jj|]; [|apply next_WI].
    destruct (jst jj); apply next_WI.
  - unfold do_jobs. destruct (ctab (k s)); apply next_WI.
  - apply next_WI.
Qed.

Lemma drive_WI : forall c fuel s, WIst s -> WIst (drive c fuel s).
Proof.
  intros c. induction fuel as [|f IH]; intros s W; [exact W|]. cbn [drive].
  destruct (md s) as [|[|x r]|] eqn:M; try exact W.
  - exact I.
  - apply IH. apply exec_WI.
Qed.

(** what a kernel action does to the processes: pids are kept, [okp] is kept *)
Definition kchange (F : proc -> proc) : Prop :=
  forall pr, ppid (F pr) = ppid pr /\ (okp pr = true -> okp (F pr) = true).

Lemma kchange_has_okp : forall F ps p, kchange F -> has_okp ps p -> has_okp (map F ps) p.
Proof.
  intros F ps p K (x & I & P & O). exists (F x). destruct (K x) as [K1 K2].
  split; [apply in_map; exact I|]. split; [congruence|auto].
Qed.

Lemma WI_map : forall F pids w ps, kchange F -> WI pids w ps -> WI pids w (map F ps).
Proof. intros F pids w ps K (A & B & C). repeat split; auto. intros p Hp. apply kchange_has_okp; auto. Qed.

Lemma deliver_kchange : forall sig, kchange (deliver sig).
Proof.
  intros sig pr. unfold deliver, okp.
  destruct (pblk pr && (sig =? SIGTSTP)); [auto|].
  destruct (pst pr) eqn:S.
  - destruct (is_stop_sig sig); [cbn; auto|]. destruct (sig =? SIGCONT); [rewrite S; auto|cbn; auto].
  - destruct (sig =? SIGKILL); [cbn; auto|]. destruct (sig =? SIGCONT).
    + destruct (ppend pr) as [d|]; [destruct d; cbn; auto|cbn; auto].
    + destruct (is_stop_sig sig); [rewrite S; auto|]. destruct (ppend pr); [rewrite S; auto|cbn; auto].
  - rewrite S. auto.
  - rewrite S. auto.
Qed.

Lemma do_exit_kchange : forall code, kchange (do_exit code).
Proof.
  intros code pr. unfold do_exit, okp. destruct (pst pr) eqn:S; [cbn; auto| |rewrite S; auto|rewrite S; auto].
  destruct (ppend pr); [rewrite S; auto|cbn; auto].
Qed.

Lemma cond_kchange : forall (t : proc -> bool) F, kchange F -> kchange (fun p => if t p then F p else p).
Proof. intros t F K pr. destruct (t pr); [apply K|auto]. Qed.

Lemma kernel_WI : forall c s F, kchange F -> WIst s -> WIst (kernel c s (map F)).
Proof.
  intros c s F K W. unfold kernel, drive_all. apply drive_WI.
  unfold settle_all. cbn [k md procs].
  destruct (md s) as [| |gid pids w v rest] eqn:M.
  - cbn. exact I.
  - cbn. exact I.
  - unfold WIst in W. rewrite M in W.
    apply (settle_WI c gid pids v rest (owner s) (smask s) (gh s) _
             (mkcore (map F (procs (k s))) (shl (k s)) []) w (wevs s)).
    cbn [procs]. apply WI_map; assumption.
Qed.

Lemma step_WI : forall c s a, WIst s -> WIst (Term.step c s a).
Proof.
  intros c s a W. unfold Term.step.
  assert (TL : forall l, WIst (typed_line c s l)).
  { intros l. unfold typed_line. destruct (md s) eqn:M.
    - unfold drive_all. apply drive_WI. exact I.
    - unfold clear, WIst. cbn. rewrite M. exact I.
    - unfold clear, WIst in *. cbn. rewrite M in *. exact W. }
  assert (KY : forall sig, WIst (key c s sig)).
  { intros sig. unfold key. destruct (md s) eqn:M.
    - unfold clear, WIst. cbn. rewrite M. exact I.
    - apply (kernel_WI c s (fun p => if ppgid p =? owner s then deliver sig p else p));
        [apply cond_kchange; apply deliver_kchange|exact W].
    - apply (kernel_WI c s (fun p => if ppgid p =? owner s then deliver sig p else p));
        [apply cond_kchange; apply deliver_kchange|exact W]. }
  destruct a; cbn [cmds_of]; try apply TL; try apply KY.
  - apply (kernel_WI c s (fun p => if ppid p =? pid then do_exit code p else p));
      [apply cond_kchange; apply do_exit_kchange|exact W].
  - apply (kernel_WI c s (fun p => if ppid p =? pid then deliver sig p else p));
      [apply cond_kchange; apply deliver_kchange|exact W].
Qed.

(** in every reachable state *)
Lemma run_WI : forall c acts, WIst (Term.run c acts).
Proof.
  intros c acts. unfold Term.run.
  assert (G : forall s, WIst s -> WIst (fold_left (Term.step c) acts s)).
  { induction acts as [|a acts IH]; intros s W; [exact W|]. cbn. apply IH. apply step_WI. exact W. }
  apply G. exact I.
Qed.

(** the wait of a reachable state, resumed after any kernel change *)
Lemma resumed_wait_returns_settled : forall c acts gid pids w v rest F fuel,
  md (Term.run c acts) = Waiting gid pids w v rest -> kchange F ->
  let s0 := Term.run c acts in
  let s1 := settle c fuel (mkst (mkcore (map F (procs (k s0))) (shl (k s0)) []) (md s0) (owner s0) (smask s0) (gh s0) (wevs s0)) in
  md s1 = Between rest ->
  owner s1 = (if back v then c_sh c else owner s0) /\
  ((forall p, In p pids -> has_okp (procs (k s1)) p) \/ all_gone (procs (k s1)) = true).
Proof.
  intros c acts gid pids w v rest F fuel M K s0 s1 B.
  pose proof (run_WI c acts) as W. unfold WIst in W. fold s0 in W, M. rewrite M in W.
  subst s1. rewrite M in *.
  apply (settle_WI c gid pids v rest (owner s0) (smask s0) (gh s0) fuel
           (mkcore (map F (procs (k s0))) (shl (k s0)) []) w (wevs s0)); [|exact B].
  cbn [procs]. apply WI_map; assumption.
Qed.
