(** The two-bangs tests of the models ([History.has_bb], C18; [Rerender.has_bangbang]) ARE the regex of
    tools::extend_bangbang (its three occurrences are checked equal by the generator). Round 9 (regexgen). *)
From Coq Require Import List NArith Bool Lia.
From Cicada Require Import Base.Chars Base.Regex Gen.ToolsRegexes Proofs.RegexCalc Proofs.RegexSearch.
From Cicada Require Model.History Model.Rerender.
Import ListNotations.
Local Open Scope N_scope.

Fixpoint two_bangs (s : str) : bool :=
  match s with
  | a :: ((b :: _) as r) => ((a =? 33) && (b =? 33)) || two_bangs r
  | _ => false
  end.

Lemma two_bangs_is_source_regex s : two_bangs s = rx_search rx_bangbang s.
Proof.
  unfold rx_bangbang. induction s as [|c t IH]; [reflexivity|].
  rewrite rc_search_unfold, <- IH, rc_Cat_assoc, rc_Cat_Chr, rc_Cat_Chr, in_cs_one.
  destruct t as [|d t']; [cbn; rewrite andb_false_r; reflexivity|].
  rewrite in_cs_one, rc_Star_any, andb_true_r. reflexivity.
Qed.

Theorem has_bb_is_source_regex s : History.has_bb s = rx_search rx_bangbang s.
Proof.
  rewrite <- two_bangs_is_source_regex. induction s as [|c t IH]; [reflexivity|].
  destruct t as [|d t']; [reflexivity|]. cbn [History.has_bb two_bangs]. cbn [History.has_bb two_bangs] in IH.
  rewrite IH. reflexivity.
Qed.

Theorem has_bangbang_is_source_regex s : Rerender.has_bangbang s = rx_search rx_bangbang s.
Proof.
  rewrite <- two_bangs_is_source_regex. induction s as [|c t IH]; [reflexivity|].
  destruct t as [|d t']; [reflexivity|]. cbn [Rerender.has_bangbang two_bangs]. cbn [Rerender.has_bangbang two_bangs] in IH.
  rewrite IH. reflexivity.
Qed.
