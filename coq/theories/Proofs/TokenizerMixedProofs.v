(** The tokenizer on a command word followed by ANY list of arguments, each in
    any of the quoting styles of C01: single-quoted, double-quoted (plain, or
    with the double quotes of the text written as backslash + quote), or
    backslash-escaped (items = (character, escaped?), any escaped characters,
    ordinary unescaped ones); one or more blanks before each argument, any
    number of blanks at the end. One token per argument, holding exactly its
    text.
    The TAG of an escaped word is what the code does, including its stale
    separator: a word that starts with an escaped bar / dollar is tagged with a
    backslash and the tokenizer does not reset its separator afterwards, so an
    escaped word that FOLLOWS such a token and itself starts with an escaped
    character is tagged with a backslash too (e.g. the second word of
    [\$a \>b] is tagged backslash, not single quote). [mtoks] states exactly
    that; the texts ([parse_line_mixed_texts]) do not depend on it.
    New file; extends TokenizerProofs / TokenizerEscProofs without editing them. *)
From Cicada Require Import Base.Chars Base.Tag Model.Tokenizer Proofs.TokenizerProofs Proofs.TokenizerEscProofs.
From Coq Require Import Lia.
Local Open Scope N_scope.

(** * Arguments *)
Inductive marg :=
| MSq (t : str)            (* 'text' *)
| MDq (t : str)            (* "text", no double quote and no backslash in text *)
| MDqE (t : str)           (* "text" with every double quote of text written as backslash + quote; no backslash in text *)
| MEsc (l : list eitem).   (* backslash-escaped word *)

Definition wf_marg (a : marg) : bool :=
  match a with
  | MSq t => negb (has_cls KSq t)
  | MDq t => negb (has_cls KDq t) && negb (has_cls KBs t)
  | MDqE t => negb (has_cls KBs t)
  | MEsc l => negb (is_empty l) && forallb wf_eitem l
  end.

Definition render_marg (a : marg) : str :=
  match a with
  | MSq t => c_sq :: t ++ [c_sq]
  | MDq t => c_dq :: t ++ [c_dq]
  | MDqE t => c_dq :: dq_esc t ++ [c_dq]
  | MEsc l => render_eitems l
  end.

Definition marg_text (a : marg) : str :=
  match a with MSq t | MDq t | MDqE t => t | MEsc l => eitem_text l end.

Definition first_escaped (l : list eitem) : bool := match l with i :: _ => snd i | [] => false end.

(** [stale] = the previous token was tagged with a backslash (the separator was not reset) *)
Definition marg_tag (stale : bool) (a : marg) : tag :=
  match a with
  | MSq _ => TSq
  | MDq _ | MDqE _ => TDq
  | MEsc l => if stale && first_escaped l then TBs else eitems_tag l
  end.
Definition marg_tok (stale : bool) (a : marg) : tag * str := (marg_tag stale a, marg_text a).
Definition stale_after (stale : bool) (a : marg) : bool := tag_eqb (marg_tag stale a) TBs.

Fixpoint mtoks (stale : bool) (l : list (nat * marg)) : list (tag * str) :=
  match l with
  | [] => []
  | (_, a) :: r => marg_tok stale a :: mtoks (stale_after stale a) r
  end.

(** each argument is preceded by one or more blanks *)
Fixpoint render_margs (l : list (nat * marg)) : str :=
  match l with
  | [] => []
  | (n, a) :: r => c_space :: spaces n ++ render_marg a ++ render_margs r
  end.

(** * States between tokens *)
Definition rstate (stale : bool) (r : list (tag * str)) (hd : bool) : st :=
  if stale then st_round_bs r hd TNone else st_round r hd.
(** after a stale round, a pending backslash *)
Definition st_rbs_bs (r : list (tag * str)) (hd : bool) : st :=
  mk r TBs TNone [] true false true false hd false TNone false.

Lemma step_rstate_space b r hd nxt : step (rstate b r hd) c_space nxt = Cont (rstate b r hd).
Proof. destruct b; [apply step_round_bs_space|apply step_round_space]. Qed.

Lemma rstate_spaces b n r hd rest : loop (rstate b r hd) (spaces n ++ rest) = loop (rstate b r hd) rest.
Proof.
  induction n as [|n IH]; [reflexivity|]. cbn [spaces repeat app].
  rewrite loop_cons, step_rstate_space. exact IH.
Qed.

Lemma rstate_trailing b n r hd : finish (loop (rstate b r hd) (spaces n)) = rev r.
Proof. destruct b; [apply loop_trailing_spaces_round_bs|apply loop_trailing_spaces_round]. Qed.

Lemma step_rstate_open b r hd q c nxt :
  is_sd q -> classify c = qcls q -> step (rstate b r hd) c nxt = Cont (st_quote r q [] hd).
Proof.
  intros Hq Hc. destruct b; [|now apply step_round_open].
  cbv beta delta [step rstate]. cbv iota. cbv beta delta [step]. rewrite Hc.
  destruct Hq as [-> | ->]; destruct hd; reflexivity.
Qed.

Lemma step_rstate_plain b r hd c nxt :
  classify c = KOther -> step (rstate b r hd) c nxt = Cont (st_word r [c] hd).
Proof.
  intros Hc. destruct b; [|now apply step_round_plain].
  cbv beta delta [step rstate]. cbv iota. cbv beta delta [step]. rewrite Hc. destruct hd; reflexivity.
Qed.

Lemma step_round_bs_bs r hd nxt : step (st_round_bs r hd TNone) c_bs nxt = Cont (st_rbs_bs r hd).
Proof. destruct hd; reflexivity. Qed.

Lemma step_rbs_bs r hd c nxt : step (st_rbs_bs r hd) c nxt = Cont (st_ew r TBs [c] false hd TNone).
Proof. cbv beta delta [step]. destruct (classify c) eqn:K; destruct hd; reflexivity. Qed.

(** * A finished-but-not-yet-emitted token *)
Inductive pend : st -> list (tag * str) -> tag * str -> bool -> Prop :=
| pend_q r q tk hd : is_sd q -> pend (st_closed r q tk hd) r (q, rev tk) false
| pend_w r tk hd sm : tk <> [] -> (sm = TNone \/ sm = TSq) -> pend (st_ew r TNone tk false hd sm) r (sm, rev tk) false
| pend_b r tk hd : tk <> [] -> pend (st_ew r TBs tk false hd TNone) r (TBs, rev tk) true.

Lemma pend_space s r t b nxt : pend s r t b -> exists hd, step s c_space nxt = Cont (rstate b (t :: r) hd).
Proof.
  intros [r0 q tk hd Hq|r0 tk hd sm Htk Hsm|r0 tk hd Htk]; exists hd.
  - apply step_closed_space. exact Hq.
  - apply step_ew_space_none. exact Hsm.
  - apply step_ew_space_bs.
Qed.

Lemma pend_finish s r t b : pend s r t b -> finish s = rev r ++ [t].
Proof.
  intros [r0 q tk hd Hq|r0 tk hd sm Htk Hsm|r0 tk hd Htk].
  - unfold finish, st_closed. cbn [tok semi_ok]. rewrite orb_true_r.
    destruct Hq as [-> | ->]; destruct hd; reflexivity.
  - rewrite finish_ew; [reflexivity|exact Htk|now left|intros _; exact Hsm].
  - rewrite finish_ew; [reflexivity|exact Htk|now right|discriminate].
Qed.

(** * One argument, from a round state to its pending state *)
Lemma rev_nonempty {A} (l : list A) : l <> [] -> rev l <> [].
Proof. destruct l as [|x l]; [congruence|]. intros _. cbn [rev]. destruct (rev l); discriminate. Qed.

Lemma esc_angle_cons (i : eitem) l : has_esc_angle (i :: l) = (snd i && is_angle (fst i)) || has_esc_angle l.
Proof. reflexivity. Qed.

Ltac close_pend P :=
  let H := fresh in pose proof P as H; rewrite rev_app_distr, rev_involutive in H; exact H.

Lemma loop_esc_word b l : l <> [] -> forallb wf_eitem l = true -> forall r hd rest,
  exists s', loop (rstate b r hd) (render_eitems l ++ rest) = loop s' rest /\
             pend s' r (marg_tok b (MEsc l)) (stale_after b (MEsc l)).
Proof.
  destruct l as [|[c e] l]; [congruence|]. intros _ Hwf r hd rest.
  cbn [forallb] in Hwf. apply andb_true_iff in Hwf as [Hi Hl].
  assert (Htk : rev (eitem_text ((c, e) :: l)) <> []) by (apply rev_nonempty; discriminate).
  unfold render_eitems. cbn [flat_map]. fold (render_eitems l). rewrite <- app_assoc.
  unfold render_eitem at 1. cbn [fst snd]. unfold marg_tok, stale_after. cbn [marg_tag marg_text first_escaped snd].
  destruct e.
  - (* the word starts with an escaped character *)
    cbn [app]. rewrite loop_cons. destruct b; cbn [andb rstate].
    + (* stale separator: backslash tag whatever the character *)
      rewrite step_round_bs_bs, loop_cons, step_rbs_bs. rewrite (loop_eitems l Hl) by now right.
      rewrite sm_after_bs. exists (st_ew r TBs (rev (eitem_text l) ++ [c]) false hd TNone). split; [reflexivity|].
      cbn [tag_eqb]. close_pend (pend_b r (rev (eitem_text l) ++ [c]) hd Htk).
    + rewrite step_round_bs, loop_cons, step_rbs.
      unfold eitems_tag, starts_bar_dollar. cbn [fst snd andb].
      destruct (is_bar_dollar c) eqn:Hbd.
      * rewrite (loop_eitems l Hl) by now right. rewrite sm_after_bs.
        exists (st_ew r TBs (rev (eitem_text l) ++ [c]) false hd TNone). split; [reflexivity|].
        cbn [tag_eqb]. close_pend (pend_b r (rev (eitem_text l) ++ [c]) hd Htk).
      * rewrite (loop_eitems l Hl) by now left.
        assert (E : sm_after TNone (sm_upd TNone TNone c) l = sm_after TNone TNone (((c, true) : eitem) :: l)) by reflexivity.
        rewrite E, sm_after_none.
        match goal with |- context [has_esc_angle ?X] => destruct (has_esc_angle X) end; cbn [tag_eqb];
          eexists; (split; [reflexivity|]).
        -- close_pend (pend_w r (rev (eitem_text l) ++ [c]) hd TSq Htk (or_intror eq_refl)).
        -- close_pend (pend_w r (rev (eitem_text l) ++ [c]) hd TNone Htk (or_introl eq_refl)).
  - (* the word starts with an ordinary character: the separator is reset *)
    unfold wf_eitem in Hi. cbn [fst snd orb] in Hi. apply cls_eqb_eq in Hi.
    cbn [app]. rewrite loop_cons, (step_rstate_plain b r hd c _ Hi), st_word_ew.
    rewrite (loop_eitems l Hl) by now left. rewrite sm_after_none. rewrite andb_false_r.
    unfold eitems_tag, starts_bar_dollar. cbn [fst snd andb]. rewrite esc_angle_cons. cbn [fst snd andb orb].
    destruct (has_esc_angle l); cbn [tag_eqb]; eexists; (split; [reflexivity|]).
    + close_pend (pend_w r (rev (eitem_text l) ++ [c]) hd TSq Htk (or_intror eq_refl)).
    + close_pend (pend_w r (rev (eitem_text l) ++ [c]) hd TNone Htk (or_introl eq_refl)).
Qed.

Lemma loop_marg a : wf_marg a = true -> forall b r hd rest,
  exists s', loop (rstate b r hd) (render_marg a ++ rest) = loop s' rest /\
             pend s' r (marg_tok b a) (stale_after b a).
Proof.
  intros Hwf b r hd rest. destruct a as [t|t|t|l]; cbn [wf_marg render_marg] in *.
  - (* single quotes *)
    apply negb_true_false in Hwf.
    exists (st_closed r TSq (rev t) (hd_after hd t)). split.
    + cbn [app]. rewrite loop_cons, (step_rstate_open b r hd TSq c_sq _ (or_introl eq_refl) eq_refl).
      rewrite <- app_assoc. rewrite (loop_quote_body TSq t (or_introl eq_refl)); [|exact Hwf|now left].
      cbn [app]. rewrite loop_cons, (step_quote_close _ TSq _ _ c_sq _ (or_introl eq_refl) eq_refl).
      now rewrite app_nil_r.
    + unfold marg_tok, stale_after. cbn [marg_tag marg_text tag_eqb].
      pose proof (pend_q r TSq (rev t) (hd_after hd t) (or_introl eq_refl)) as H. rewrite rev_involutive in H. exact H.
  - (* double quotes *)
    apply andb_true_iff in Hwf as [H1 H2]. apply negb_true_false in H1, H2.
    exists (st_closed r TDq (rev t) (hd_after hd t)). split.
    + cbn [app]. rewrite loop_cons, (step_rstate_open b r hd TDq c_dq _ (or_intror eq_refl) eq_refl).
      rewrite <- app_assoc. rewrite (loop_quote_body TDq t (or_intror eq_refl)); [|exact H1|now right].
      cbn [app]. rewrite loop_cons, (step_quote_close _ TDq _ _ c_dq _ (or_intror eq_refl) eq_refl).
      now rewrite app_nil_r.
    + unfold marg_tok, stale_after. cbn [marg_tag marg_text tag_eqb].
      pose proof (pend_q r TDq (rev t) (hd_after hd t) (or_intror eq_refl)) as H. rewrite rev_involutive in H. exact H.
  - (* double quotes with escaped double quotes *)
    apply negb_true_false in Hwf.
    exists (st_closed r TDq (rev t) (hd_after hd t)). split.
    + cbn [app]. rewrite loop_cons, (step_rstate_open b r hd TDq c_dq _ (or_intror eq_refl) eq_refl).
      rewrite <- app_assoc. rewrite (loop_dq_esc t Hwf).
      cbn [app]. rewrite loop_cons, (step_quote_close _ TDq _ _ c_dq _ (or_intror eq_refl) eq_refl).
      now rewrite app_nil_r.
    + unfold marg_tok, stale_after. cbn [marg_tag marg_text tag_eqb].
      pose proof (pend_q r TDq (rev t) (hd_after hd t) (or_intror eq_refl)) as H. rewrite rev_involutive in H. exact H.
  - apply andb_true_iff in Hwf as [Hne Hall].
    apply loop_esc_word; [destruct l; [discriminate|congruence]|exact Hall].
Qed.

(** * The whole argument list *)
Lemma loop_margs l : forallb (fun '(_, a) => wf_marg a) l = true ->
  forall s r t b m, pend s r t b ->
  finish (loop s (render_margs l ++ spaces m)) = rev r ++ t :: mtoks b l.
Proof.
  induction l as [|[n a] l IH]; intros Hwf s r t b m Hp.
  - cbn [render_margs app mtoks]. destruct m as [|m].
    + cbn [spaces repeat loop]. now apply (pend_finish s r t b).
    + cbn [spaces repeat]. rewrite loop_cons.
      destruct (pend_space s r t b (peek (repeat c_space m)) Hp) as (hd & E). rewrite E.
      change (repeat c_space m) with (spaces m). rewrite rstate_trailing. reflexivity.
  - cbn [forallb] in Hwf. apply andb_true_iff in Hwf as [Ha Hl].
    cbn [render_margs app mtoks]. rewrite loop_cons.
    destruct (pend_space s r t b (peek ((spaces n ++ render_marg a ++ render_margs l) ++ spaces m)) Hp) as (hd & E).
    rewrite E. rewrite <- !app_assoc. rewrite rstate_spaces.
    destruct (loop_marg a Ha b (t :: r) hd (render_margs l ++ spaces m)) as (s' & E' & Hp'). rewrite E'.
    rewrite (IH Hl s' (t :: r) (marg_tok b a) (stale_after b a) m Hp'). cbn [rev]. now rewrite <- app_assoc.
Qed.

Theorem parse_line_mixed cmd (args : list (nat * marg)) m :
  plain_word cmd = true -> forallb arith_body cmd = false ->
  forallb (fun '(_, a) => wf_marg a) args = true ->
  parse_line (cmd ++ render_margs args ++ spaces m) = (TNone, cmd) :: mtoks false args.
Proof.
  intros Hw Hna Hargs. unfold parse_line. rewrite (not_arith _ _ Hna).
  apply andb_true_iff in Hw as [Hne Hall]. destruct cmd as [|c cmd]; [discriminate|].
  cbn [forallb] in Hall. apply andb_true_iff in Hall as [Hc Hall]. apply cls_eqb_eq in Hc.
  change st0 with (st_round [] false). cbn [app]. rewrite loop_cons, (step_round_plain [] false c _ Hc).
  assert (E : forall rest, loop (st_word [] [c] false) (cmd ++ rest) =
              loop (st_word [] (rev cmd ++ [c]) false) rest).
  { intros rest. destruct cmd as [|c' cmd']; [reflexivity|].
    apply loop_word; [|exact Hall]. cbn. cbn in Hall. apply andb_true_iff in Hall as [H1 _]. now rewrite H1. }
  rewrite E, st_word_ew.
  rewrite (loop_margs args Hargs _ [] (TNone, rev (rev cmd ++ [c])) false m).
  - cbn [rev app]. rewrite rev_app_distr, rev_involutive. reflexivity.
  - apply pend_w; [destruct (rev cmd); discriminate|now left].
Qed.

(** the TEXTS do not depend on the tags *)
Lemma mtoks_texts b l : map snd (mtoks b l) = map (fun '(_, a) => marg_text a) l.
Proof.
  revert b; induction l as [|[n a] l IH]; intros b; [reflexivity|]. cbn [mtoks map marg_tok snd]. now rewrite IH.
Qed.

Corollary parse_line_mixed_texts cmd (args : list (nat * marg)) m :
  plain_word cmd = true -> forallb arith_body cmd = false ->
  forallb (fun '(_, a) => wf_marg a) args = true ->
  map snd (parse_line (cmd ++ render_margs args ++ spaces m)) = cmd :: map (fun '(_, a) => marg_text a) args.
Proof. intros. rewrite parse_line_mixed by assumption. cbn [map snd]. now rewrite mtoks_texts. Qed.

(** when no escaped word starts with an escaped bar or dollar, the tags are those of each word on its own *)
Definition no_bs_word (a : marg) : bool :=
  match a with MEsc l => negb (starts_bar_dollar l) | _ => true end.

Lemma mtoks_plain l : forallb (fun '(_, a) => no_bs_word a) l = true ->
  mtoks false l = map (fun '(_, a) => marg_tok false a) l.
Proof.
  induction l as [|[n a] l IH]; [reflexivity|]. cbn [forallb mtoks map]. intros H.
  apply andb_true_iff in H as [Ha Hl].
  assert (E : stale_after false a = false).
  { unfold stale_after. destruct a as [t|t|t|el]; try reflexivity. cbn [marg_tag andb no_bs_word] in *.
    unfold eitems_tag. apply negb_true_false in Ha. rewrite Ha. destruct (has_esc_angle el); reflexivity. }
  rewrite E, (IH Hl). reflexivity.
Qed.

(** the stale separator, concretely:  p \$a \>b  -- the second word is tagged backslash *)
Example stale_sep_witness :
  parse_line [112; 32; 92; 36; 97; 32; 92; 62; 98] = [(TNone, [112]); (TBs, [36; 97]); (TBs, [62; 98])] /\
  parse_line [112; 32; 92; 62; 98] = [(TNone, [112]); (TSq, [62; 98])].
Proof. split; vm_compute; reflexivity. Qed.

(** inside double quotes a backslash is kept unless a double quote follows:  p "a\\b"  holds TWO backslashes,
    so writing a backslash as two backslashes is not a way to quote it *)
Example dq_double_backslash_witness :
  parse_line [112; 32; 34; 97; 92; 92; 98; 34] = [(TNone, [112]); (TDq, [97; 92; 92; 98])] /\
  parse_line [112; 32; 34; 97; 92; 98; 34] = [(TNone, [112]); (TDq, [97; 92; 98])].
Proof. split; vm_compute; reflexivity. Qed.

Print Assumptions parse_line_mixed.
Print Assumptions parse_line_mixed_texts.
