(** Instance of the generic fuel-adequacy theorem (Proofs/PegFuel.v) on the calculator grammar
    regenerated from /repo's src/calculator/grammar.pest. [wf_grammar k_grammar = true] is computed:
    a grammar edit introducing left recursion / a nullable repetition makes it fail. *)
From Cicada Require Import Base.Chars Base.Peg Gen.CalcGrammar Proofs.PegFuel.
From Coq Require Import Arith List Lia.

Lemma k_grammar_wf : wf_grammar k_grammar = true.
Proof. vm_compute. reflexivity. Qed.

Theorem k_peg_fuel_adequate : forall start a pos s fuel,
  peg_bound k_grammar (length s) <= fuel -> ev k_grammar fuel (PRef start) a pos s <> PFuel.
Proof. intros. apply ev_fuel_adequate; auto using k_grammar_wf, pexp_ok_ref. Qed.

(** the check refuses: direct left recursion, indirect left recursion through a nullable prefix,
    a repetition with a nullable body, a nullable WHITESPACE; and the calculator grammar with
    term = { expr ~ "x" | num } (left recursion expr -> term -> expr) *)
Local Open Scope N_scope.
Example wf_rejects_left_rec :
  wf_grammar (mkGrammar [(1, (MNormal, PAlt (PSeq (PRef 1) (PStr [97])) (PStr [98])))] None 0) = false.
Proof. vm_compute. reflexivity. Qed.
Example wf_rejects_indirect_left_rec :
  wf_grammar (mkGrammar [(1, (MNormal, PSeq (POpt (PStr [97])) (PRef 2))); (2, (MSilent, PSeq (PNot PAny) (PRef 1)))] None 0) = false.
Proof. vm_compute. reflexivity. Qed.
Example wf_rejects_nullable_rep :
  wf_grammar (mkGrammar [(1, (MNormal, PRep (POpt (PStr [97]))))] None 0) = false.
Proof. vm_compute. reflexivity. Qed.
Example wf_rejects_nullable_ws :
  wf_grammar (mkGrammar [(1, (MNormal, PSeq (PStr [97]) (PStr [98]))); (2, (MSilent, PRep (PStr [32])))] (Some 2) 0) = false.
Proof. vm_compute. reflexivity. Qed.
Example wf_accepts_right_rec :
  wf_grammar (mkGrammar [(1, (MNormal, PAlt (PSeq (PStr [97]) (PRef 1)) (PStr [98])))] None 0) = true.
Proof. vm_compute. reflexivity. Qed.
(** the interpreter really answers PFuel on the refused grammars, whatever the fuel tried *)
Example left_rec_runs_out :
  ev (mkGrammar [(1, (MNormal, PAlt (PSeq (PRef 1) (PStr [97])) (PStr [98])))] None 0) 5000 (PRef 1) AtNon 0 [98] = PFuel.
Proof. vm_compute. reflexivity. Qed.
Example nullable_rep_runs_out :
  ev (mkGrammar [(1, (MNormal, PRep (POpt (PStr [97]))))] None 0) 5000 (PRef 1) AtNon 0 [98] = PFuel.
Proof. vm_compute. reflexivity. Qed.

(** peg_fuel lies above the bound of the regenerated calculator grammar too *)
Lemma k_peg_fuel_above_bound : forall s, (peg_bound k_grammar (length s) <= peg_fuel s)%nat.
Proof.
  intro s. unfold peg_bound, peg_fuel.
  assert (HA : (g_A k_grammar <= 96)%nat) by (apply Nat.leb_le; vm_compute; reflexivity).
  assert (HB : (g_K k_grammar * g_W k_grammar + g_W k_grammar <= 128)%nat) by (apply Nat.leb_le; vm_compute; reflexivity).
  rewrite <- Nat.add_assoc. revert HA HB.
  generalize (g_A k_grammar) (g_K k_grammar * g_W k_grammar + g_W k_grammar)%nat. intros A B HA HB.
  pose proof (Nat.mul_le_mono_r _ _ (length s) HA). Lia.lia.
Qed.

Theorem k_parse_never_fuel : forall start s, parse_from k_grammar start s <> PFuel.
Proof. intros start s. exact (k_peg_fuel_adequate start AtNon 0%nat s (peg_fuel s) (k_peg_fuel_above_bound s)). Qed.
