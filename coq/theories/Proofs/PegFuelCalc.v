(** Instance of the generic fuel-adequacy theorem (Proofs/PegFuel.v) on the calculator grammar
    regenerated from /repo's src/calculator/grammar.pest. [wf_grammar k_grammar = true] is computed:
    a grammar edit introducing left recursion / a nullable repetition makes it fail. *)
From Cicada Require Import Base.Chars Base.Peg Gen.CalcGrammar Proofs.PegFuel.
From Coq Require Import Arith List.

Lemma k_grammar_wf : wf_grammar k_grammar = true.
Proof. vm_compute. reflexivity. Qed.

Theorem k_peg_fuel_adequate : forall start a pos s fuel,
  peg_bound k_grammar (length s) <= fuel -> ev k_grammar fuel (PRef start) a pos s <> PFuel.
Proof. intros. apply ev_fuel_adequate; auto using k_grammar_wf, pexp_ok_ref. Qed.
