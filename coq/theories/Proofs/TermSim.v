(** C07 on top of C06: the job table of Model/Term.v is the job table of C06's
    model run on the projected history [gh] (for sessions without fg / bg,
    which are not operations of C06's model). *)
From Coq Require Import ZArith List Bool Arith Lia.
From Cicada Require Import Model.Jobs Model.Term Proofs.JobsSpec Proofs.JobsProofs Proofs.JobsInv.
Import ListNotations.
Local Open Scope Z_scope.

Definition wl (q : list ev) (s : shell) (gid : Z) (pids settled : list Z) (status : Z) : wres :=
  wait_loop q s gid pids (last pids 0) (length pids) settled status.

(** [Term.wait_one] is the body of [Jobs.wait_loop] *)
Lemma wait_loop_cons e q s gid pids pl n settled status :
  wait_loop (e :: q) s gid pids pl n settled status =
  let '(s', settled') := wait_one s gid pids settled e in
  if is_cont e then wait_loop q s' gid pids pl n settled' status
  else
    let status' := if memZ (ev_pid e) pids && (ev_pid e =? pl) then ev_status e else status in
    if (n <=? length settled')%nat then mkwres s' status' false q
    else wait_loop q s' gid pids pl n settled' status'.
Proof.
  destruct e; cbn [wait_loop wait_one is_cont ev_pid]; destruct (memZ _ pids); reflexivity.
Qed.

Definition cmd_ok (x : cmd) : bool := match x with CFg _ _ | CBg _ _ => false | _ => true end.

(** a session action without fg / bg *)
Definition no_fgbg (a : action) : bool :=
  match cmds_of a with Some l => forallb cmd_ok l | None => true end.

Definition Sim (s : st) : Prop :=
  r_pend (Jobs.run (gh s)) = [] /\ forallb cmd_ok (rest_of (md s)) = true /\
  match md s with
  | AtPrompt | Between _ => shl (k s) = r_sh (Jobs.run (gh s))
  | Waiting gid pids settled v _ =>
      pids <> [] /\ exists status, forall q,
        wl (wevs s ++ q) (r_sh (Jobs.run (gh s))) gid pids [] 0 = wl q (shl (k s)) gid pids settled status
  end.

Lemma run_snoc g o : Jobs.run (g ++ [o]) = Jobs.step (Jobs.run g) o.
Proof. unfold Jobs.run. rewrite fold_left_app. reflexivity. Qed.

Lemma poll_sim r k0 g :
  shl k0 = r_sh (Jobs.run g) -> r_pend (Jobs.run g) = [] ->
  shl (poll r k0) = r_sh (Jobs.run (g ++ [Poll (fst (poll_evs k0))])) /\
  r_pend (Jobs.run (g ++ [Poll (fst (poll_evs k0))])) = [].
Proof.
  intros E P. rewrite run_snoc. cbn [Jobs.step]. rewrite P, <- E. cbn [app].
  unfold poll, poll_evs, ctab. unfold try_wait_bg_jobs.
  destruct (tab (shl k0)) eqn:T.
  - cbn. auto.
  - destruct (drain (S (length (procs k0))) (procs k0)) as [q ps]. cbn. auto.
Qed.

Lemma eol_sim k0 ow m g :
  shl k0 = r_sh (Jobs.run g) -> r_pend (Jobs.run g) = [] -> Sim (end_of_line k0 ow m g).
Proof.
  intros E P. destruct (poll_sim true k0 g E P) as [A B].
  unfold Sim, end_of_line; cbn. auto.
Qed.

Lemma next_sim k0 ow m g rest :
  shl k0 = r_sh (Jobs.run g) -> r_pend (Jobs.run g) = [] -> forallb cmd_ok rest = true -> Sim (next k0 ow m g rest).
Proof. intros. unfold Sim, next; cbn. auto. Qed.

Lemma finish_sim c k0 v ow m g rest :
  shl k0 = r_sh (Jobs.run g) -> r_pend (Jobs.run g) = [] -> forallb cmd_ok rest = true -> Sim (finish c k0 v ow m g rest).
Proof.
  intros. unfold finish. destruct (match v with VFg => true | VLaunch tg => tg end); cbn; apply next_sim; auto.
Qed.

Lemma wait_body_shl k0 gid pids w e :
  shl (fst (wait_body k0 gid pids w e)) = fst (wait_one (shl k0) gid pids w e) /\
  snd (wait_body k0 gid pids w e) = snd (wait_one (shl k0) gid pids w e).
Proof. unfold wait_body. destruct (wait_one (shl k0) gid pids w e). cbn. auto. Qed.

Lemma wait_fg_nonempty s gid pids q : pids <> [] -> wait_fg_job s gid pids q = wl q s gid pids [] 0.
Proof. intro N. unfold wait_fg_job, wl. destruct pids; [contradiction | reflexivity]. Qed.

Lemma settle_sim c fuel : forall s, Sim s -> Sim (settle c fuel s).
Proof.
  induction fuel as [|f IH]; intros s H; cbn [settle]; auto.
  destruct (md s) as [| |gid pids w v rest] eqn:M; auto.
  destruct H as [P [R H]]. rewrite M in H, R. cbn [rest_of] in R. destruct H as [NE [status H]].
  destruct (next_status (procs (k s))) as [[e ps]|].
  - pose proof (wait_body_shl (set_procs (k s) ps) gid pids w e) as [WB1 WB2].
    destruct (wait_body (set_procs (k s) ps) gid pids w e) as [k' w']. cbn [fst snd set_procs shl] in WB1, WB2.
    pose proof (wait_loop_cons e) as WC.
    destruct (wait_one (shl (k s)) gid pids w e) as [s' w''] eqn:W1. cbn [fst snd] in WB1, WB2. subst w''.
    destruct (negb (is_cont e) && (length pids <=? length w')%nat) eqn:FIN.
    + apply andb_true_iff in FIN as [F1 F2]. apply negb_true_iff in F1.
      apply finish_sim; auto.
      * rewrite run_snoc. cbn [Jobs.step]. rewrite P. cbn [app].
        rewrite wait_fg_nonempty by exact NE. rewrite (H [e]).
        unfold wl. rewrite WC, W1. cbv beta iota zeta. rewrite F1, F2. cbn. exact WB1.
      * rewrite run_snoc. cbn [Jobs.step]. rewrite P. cbn [app].
        rewrite wait_fg_nonempty by exact NE. rewrite (H [e]).
        unfold wl. rewrite WC, W1. cbv beta iota zeta. rewrite F1, F2. reflexivity.
    + apply IH. split; [exact P|]. cbn [md k gh wevs rest_of]. split; [exact R|]. split; [exact NE|].
      destruct (is_cont e) eqn:IC.
      * exists status. intro q. rewrite <- app_assoc. cbn [app]. rewrite (H (e :: q)).
        unfold wl. rewrite WC, W1. cbv beta iota zeta. rewrite WB1. reflexivity.
      * cbn in FIN.
        exists (if memZ (ev_pid e) pids && (ev_pid e =? last pids 0) then ev_status e else status).
        intro q. rewrite <- app_assoc. cbn [app]. rewrite (H (e :: q)).
        unfold wl. rewrite WC, W1. cbv beta iota zeta. rewrite FIN. rewrite WB1. reflexivity.
  - destruct (all_gone (procs (k s))).
    + apply finish_sim; auto.
      * rewrite run_snoc. cbn [Jobs.step]. rewrite P. cbn [app].
        rewrite wait_fg_nonempty by exact NE. specialize (H []). rewrite app_nil_r in H. rewrite H. reflexivity.
      * rewrite run_snoc. cbn [Jobs.step]. rewrite P. cbn [app].
        rewrite wait_fg_nonempty by exact NE. specialize (H []). rewrite app_nil_r in H. rewrite H. reflexivity.
    + split; [exact P|]. rewrite M. cbn [rest_of]. split; [exact R|]. split; [exact NE|]. exists status. exact H.
Qed.

(** a command starts from a state whose shell value is C06's *)
Definition PreS (s : st) : Prop := shl (k s) = r_sh (Jobs.run (gh s)) /\ r_pend (Jobs.run (gh s)) = [].

Lemma launch_sim c s pids bg rest : PreS s -> forallb cmd_ok rest = true -> Sim (launch c s pids bg rest).
Proof.
  intros [H P] R. unfold launch. destruct pids as [|p0 r]; [apply next_sim; auto|].
  destruct (if c_hasterm c && c_isatty c && negb bg then _ else _) as [[tg ow] m].
  set (sh' := if c_isatty c then mksh (Jobs.launch (ctab (k s)) p0 (p0 :: r) bg) (mp (shl (k s))) else shl (k s)).
  set (g := if c_isatty c then gh s ++ [Launch p0 (p0 :: r) bg] else gh s).
  assert (E : sh' = r_sh (Jobs.run g) /\ r_pend (Jobs.run g) = []).
  { unfold sh', g. destruct (c_isatty c); [|auto].
    rewrite run_snoc. cbn [Jobs.step r_sh r_pend]. unfold ctab. rewrite H. auto. }
  destruct E as [E1 E2].
  destruct bg.
  - apply next_sim; auto.
  - unfold enter_wait. unfold settle_all. apply settle_sim.
    split; [exact E2|]. cbn [md k gh wevs shl rest_of]. split; [exact R|]. split; [discriminate|].
    exists 0. intro q. cbn [app]. rewrite <- E1. reflexivity.
Qed.

Lemma exec_sim c s x rest : cmd_ok x = true -> PreS s -> forallb cmd_ok rest = true -> Sim (exec c s x rest).
Proof.
  intros A [H P] R. destruct x; try discriminate A; cbn [exec].
  - apply launch_sim; auto. split; auto.
  - unfold do_jobs. destruct (ctab (k s)).
    + apply next_sim; auto.
    + destruct (poll_sim false (k s) (gh s) H P) as [A1 A2]. apply next_sim; auto.
  - apply next_sim; auto.
Qed.

Lemma drive_sim c fuel : forall s, Sim s -> Sim (drive c fuel s).
Proof.
  induction fuel as [|f IH]; intros s H; cbn [drive]; auto.
  destruct (md s) as [|[|x r]| ] eqn:M; auto.
  - destruct H as [P [R H]]. rewrite M in H. apply eol_sim; auto.
  - destruct H as [P [R H]]. rewrite M in H, R. cbn in R. apply andb_true_iff in R as [R1 R2].
    apply IH. apply exec_sim; auto. split; auto.
Qed.

Lemma kernel_sim c s f : Sim s -> Sim (kernel c s f).
Proof. intro H. unfold kernel, drive_all, settle_all. apply drive_sim, settle_sim. exact H. Qed.

Lemma step_sim c s a : no_fgbg a = true -> Sim s -> Sim (step c s a).
Proof.
  intros A H. unfold step. unfold no_fgbg in A. destruct (cmds_of a) as [l|] eqn:CM.
  - unfold typed_line. destruct (md s) eqn:M; try exact H.
    unfold drive_all. apply drive_sim. destruct H as [P [R H]]. rewrite M in H.
    split; [exact P|]. cbn [md rest_of k shl gh quiet]. auto.
  - destruct a; try discriminate CM; auto; try (unfold key; destruct (md s); try exact H); apply kernel_sim; exact H.
Qed.

Lemma fold_sim c acts : forallb no_fgbg acts = true -> forall s, Sim s -> Sim (fold_left (step c) acts s).
Proof.
  induction acts as [|a r IH]; intros A s H; cbn; auto.
  cbn in A. apply andb_true_iff in A as [A1 A2]. apply IH; auto. apply step_sim; auto.
Qed.

(** the shell value of the session is C06's model run on the projected history *)
Theorem sim c acts : forallb no_fgbg acts = true -> Sim (Term.run c acts).
Proof. intro A. apply fold_sim; auto. repeat split; reflexivity. Qed.

(** ---------- prefixes of valid histories are valid *)
Lemma valid_from_app a : forall v b, valid_from v (a ++ b) = valid_from v a && valid_from (fold_left vnext a v) b.
Proof.
  induction a as [|o r IH]; intros v b; cbn; auto.
  rewrite IH. rewrite andb_assoc. reflexivity.
Qed.

Lemma valid_prefix a b : valid (a ++ b) = true -> valid a = true.
Proof. unfold valid. rewrite valid_from_app. intro H. apply andb_true_iff in H as [H _]. exact H. Qed.

(** ---------- what [jobs] prints *)
Definition is_line (o : out) : bool := match o with OJobLine _ _ _ _ => true | _ => false end.

Lemma done_report_nl t g p r : filter is_line (done_report t g p r) = [].
Proof.
  unfold done_report. destruct (remove_drops t g p); auto.
  destruct (get_job_by_gid t g) as [j|]; auto. destruct (jbg j); auto.
Qed.

Lemma stop_report_nl b t p g : filter is_line (stop_report b t p g) = [].
Proof.
  unfold stop_report. destruct b; auto.
  destruct (sh_mark_job_member_stopped t p g) as [t' [j|]]; auto.
  destruct (all_members_stopped j); auto.
  destruct (get_job_by_gid (sh_mark_job_as_stopped t' g) g); auto.
Qed.

Lemma pid_report_nl b g s p : filter is_line (pid_report b g s p) = [].
Proof.
  unfold pid_report. destruct (map_get p (m_reap (mp s))); [apply done_report_nl|].
  destruct (map_get p (m_kill (mp s))); [apply done_report_nl|].
  destruct (memZ p (m_stop (mp s))); [apply stop_report_nl | reflexivity].
Qed.

Lemma filter_app_nil {A} (f : A -> bool) a b : filter f a = [] -> filter f b = [] -> filter f (a ++ b) = [].
Proof. intros Ha Hb. rewrite filter_app, Ha, Hb. reflexivity. Qed.

Lemma fold_pid_o_nl b g l : forall so, filter is_line (snd so) = [] ->
  filter is_line (snd (fold_left (poll_pid_o b g) l so)) = [].
Proof.
  induction l as [|p l IH]; intros so H; cbn [fold_left]; auto.
  apply IH. cbn. apply filter_app_nil; auto. apply pid_report_nl.
Qed.

Lemma fold_job_o_nl b t : forall so, filter is_line (snd so) = [] ->
  filter is_line (snd (fold_left (poll_job_o b) t so)) = [].
Proof.
  induction t as [|j l IH]; intros so H; cbn [fold_left]; auto.
  apply IH. unfold poll_job_o. apply fold_pid_o_nl. exact H.
Qed.

Lemma poll_reports_nl b s1 : filter is_line (poll_reports b s1) = [].
Proof. unfold poll_reports. apply fold_job_o_nl. reflexivity. Qed.

Lemma poll_outs_nl b k0 : filter is_line (outs k0) = [] -> filter is_line (outs (poll b k0)) = [].
Proof.
  intro H. unfold poll. destruct (poll_evs k0) as [q ps]. destruct (ctab k0); auto.
  cbn. apply filter_app_nil; auto. apply poll_reports_nl.
Qed.

Lemma filter_lines t : filter is_line (map job_line t) = map job_line t.
Proof. induction t as [|j l IH]; cbn; auto. rewrite IH. reflexivity. Qed.

(** [jobs] typed at the prompt of a session without fg / bg prints, as job
    lines, exactly the table of C06's model after the history [hj] = what was
    done so far plus the poll inside [jobs] *)
Theorem jobs_prints c pre :
  forallb no_fgbg pre = true -> md (Term.run c pre) = AtPrompt -> ctab (k (Term.run c pre)) <> [] ->
  let s := Term.run c pre in
  let hj := gh s ++ [Poll (fst (poll_evs (quiet (k s))))] in
  filter is_line (outs (k (Term.step c s AJobs))) = map job_line (tab (r_sh (Jobs.run hj))) /\
  r_pend (Jobs.run hj) = [].
Proof.
  intros A M NE s hj. destruct (sim c pre A) as [P [_ H]]. rewrite M in H. fold s in P, H. fold s in M.
  destruct (poll_sim false (quiet (k s)) (gh s) H P) as [E1 E2]. fold hj in E1, E2.
  split; [|exact E2].
  unfold Term.step. cbn [cmds_of]. unfold typed_line. rewrite M. unfold drive_all.
  cbn [md rest_of length drive exec]. unfold do_jobs. cbn [k owner smask gh].
  destruct (ctab (quiet (k s))) eqn:T; [exact (False_ind _ (NE T))|].
  unfold next. cbn [drive md]. unfold end_of_line. cbn [k outs owner smask gh].
  set (k1 := poll false (quiet (k s))) in *.
  assert (O1 : filter is_line (outs k1) = []) by (apply poll_outs_nl; reflexivity).
  unfold poll. destruct (poll_evs (say k1 (map job_line (ctab k1)))) as [q ps].
  assert (L : filter is_line (outs (say k1 (map job_line (ctab k1)))) = map job_line (tab (r_sh (Jobs.run hj)))).
  { unfold say; cbn [outs]. rewrite filter_app, O1, filter_lines. cbn. unfold ctab. rewrite E1. reflexivity. }
  destruct (ctab (say k1 (map job_line (ctab k1)))); [exact L|].
  cbn [outs]. rewrite filter_app, L, poll_reports_nl, app_nil_r. reflexivity.
Qed.
