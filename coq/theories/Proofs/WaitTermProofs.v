(** C07 -- the foreground wait returns only when every member of the job is
    settled, and the terminal goes back to the shell exactly then.
    About [Model.WaitTerm.wait_o] / [wait_fg_o]: the loop of jobc::wait_fg_job
    as Model/Term.v has it ([wait_body], [finish]) run against an ORACLE list
    of answers of waitpid(-1). The ground truth about a member is read off the
    statuses delivered: its state is what its LAST delivered status says
    (kernel hypothesis H1: a wait status is a truthful report, and the state of
    a child does not change without the shell being told; the still unreported
    changes are exactly the statuses not yet delivered). *)
From Coq Require Import ZArith List Bool Arith Lia.
From Cicada Require Import Model.Jobs Model.Term Model.WaitTerm Proofs.JobsInv Proofs.TermSim.
Import ListNotations.
Local Open Scope Z_scope.

(** ---------- ground truth from the delivered statuses *)
Definition last_of (p : Z) (evs : list ev) : option ev :=
  find (fun e => ev_pid e =? p) (rev evs).
(** the last status of [p] that is not a continue *)
Definition last_nc (p : Z) (evs : list ev) : option ev :=
  find (fun e => (ev_pid e =? p) && negb (is_cont e)) (rev evs).
Definition is_end (e : ev) : bool :=
  match e with Exited _ _ | Signaled _ _ => true | _ => false end.

(** [p] has exited / been killed, or is currently stopped: its last status
    is not a continue (stopped and then continued does NOT count) *)
Definition settled_in (evs : list ev) (p : Z) : Prop :=
  exists e, last_of p evs = Some e /\ is_cont e = false.
(** [p] has exited or been killed (and was reaped by that status) *)
Definition ended_in (evs : list ev) (p : Z) : Prop :=
  exists e, last_of p evs = Some e /\ is_end e = true.

Definition cur_status (pl : Z) (evs : list ev) : Z :=
  match last_nc pl evs with Some e => ev_status e | None => 0 end.

Definition back (v : via) : bool := match v with VFg => true | VLaunch tg => tg end.

(** K4 for an oracle: waitpid answers ECHILD only when the shell has no child
    left, so every member of the job has been reaped -- its exit / kill status
    was delivered before (inside this wait: true for a job just launched). *)
Definition K4_oracle (pids : list Z) (q : list reply) : Prop :=
  forall evs1 post, q = map RStatus evs1 ++ REchild :: post ->
  forall p, In p pids -> ended_in evs1 p.

Lemma last_of_snoc : forall p evs e,
  last_of p (evs ++ [e]) = if ev_pid e =? p then Some e else last_of p evs.
Proof. intros. unfold last_of. rewrite rev_app_distr. reflexivity. Qed.

Lemma last_nc_snoc : forall p evs e,
  last_nc p (evs ++ [e]) = if (ev_pid e =? p) && negb (is_cont e) then Some e else last_nc p evs.
Proof. intros. unfold last_nc. rewrite rev_app_distr. reflexivity. Qed.

Lemma last_nc_of : forall p evs e,
  last_of p evs = Some e -> is_cont e = false -> last_nc p evs = Some e.
Proof.
  intros p evs e. unfold last_of, last_nc. induction (rev evs) as [|a l IH]; cbn [find]; intros H C.
  - discriminate.
  - destruct (ev_pid a =? p).
    + injection H as ->. rewrite C. reflexivity.
    + cbn [andb]. auto.
Qed.

Lemma settled_in_snoc : forall evs e p,
  settled_in (evs ++ [e]) p <->
  (ev_pid e = p /\ is_cont e = false) \/ (ev_pid e <> p /\ settled_in evs p).
Proof.
  intros evs e p. unfold settled_in. rewrite last_of_snoc.
  destruct (Z.eqb_spec (ev_pid e) p) as [E|E].
  - split.
    + intros (x & H & C). injection H as <-. left. auto.
    + intros [[_ C]|[N _]]; [exists e; auto|contradiction].
  - split.
    + intros H. right. auto.
    + intros [[E' _]|[_ H]]; [contradiction|exact H].
Qed.

Lemma ended_settled : forall evs p, ended_in evs p -> settled_in evs p.
Proof. intros evs p (e & H & E). exists e. split; [exact H|]. destruct e; cbn in *; congruence. Qed.

Lemma statuses_app : forall a b, statuses (a ++ b) = statuses a ++ statuses b.
Proof. induction a as [|[e|] a IH]; intros; cbn; rewrite ?IH; reflexivity. Qed.

Lemma statuses_map : forall l, statuses (map RStatus l) = l.
Proof. induction l; cbn; congruence. Qed.

(** ---------- one iteration *)
Definition settled_step (pids w : list Z) (e : ev) : list Z :=
  if memZ (ev_pid e) pids then (if is_cont e then hs_remove (ev_pid e) w else hs_add (ev_pid e) w) else w.

Lemma wait_body_snd : forall kk gid pids w e, snd (wait_body kk gid pids w e) = settled_step pids w e.
Proof. intros. reflexivity. Qed.

(** the invariant 1687e77 was made for: the set [settled] of the loop is the
    set of members whose last delivered status is not a continue *)
Definition Inv (pids : list Z) (we : list ev) (w : list Z) : Prop :=
  NoDup w /\ forall p, In p w <-> (In p pids /\ settled_in we p).

Lemma Inv_init : forall pids, Inv pids [] [].
Proof.
  intros. split; [constructor|]. intros p. split; [intros []|].
  intros (_ & e & H & _). discriminate H.
Qed.

Lemma Inv_step : forall pids we w e, Inv pids we w -> Inv pids (we ++ [e]) (settled_step pids w e).
Proof.
  intros pids we w e [ND M]. unfold settled_step.
  destruct (memZ (ev_pid e) pids) eqn:F.
  - apply memZ_in in F. destruct (is_cont e) eqn:C.
    + split; [apply NoDup_filter; exact ND|].
      intros p. rewrite in_hs_remove, settled_in_snoc, M. split.
      * intros [[I S] N]. split; [exact I|]. right. split; [congruence|exact S].
      * intros [I [[_ X]|[N S]]]; [congruence|]. repeat split; auto.
    + split.
      * unfold hs_add. destruct (memZ (ev_pid e) w) eqn:G; [exact ND|].
        constructor; [apply memZ_false; exact G|exact ND].
      * intros p. rewrite in_hs_add, settled_in_snoc, M. split.
        -- intros [->|[I S]]; [split; [exact F|left; auto]|].
           split; [exact I|]. destruct (Z.eq_dec (ev_pid e) p); [left; auto|right; auto].
        -- intros [I [[E _]|[N S]]]; [left; auto|right; auto].
  - apply memZ_false in F. split; [exact ND|].
    intros p. rewrite settled_in_snoc, M. split.
    + intros [I S]. split; [exact I|]. right. split; [|exact S]. intros E. subst p. contradiction.
    + intros [I [[E _]|[N S]]]; [subst; contradiction|auto].
Qed.

Lemma Inv_full : forall pids we w, Inv pids we w -> (length pids <=? length w)%nat = true ->
  forall p, In p pids -> settled_in we p.
Proof.
  intros pids we w [ND M] L p I. apply Nat.leb_le in L.
  assert (X : incl pids w).
  { apply (NoDup_length_incl ND L). intros x Hx. apply M in Hx. tauto. }
  apply X in I. apply M in I. tauto.
Qed.

Lemma finish_facts : forall c kk v ow m g rest,
  owner (finish c kk v ow m g rest) = (if back v then c_sh c else ow) /\
  md (finish c kk v ow m g rest) = Between rest /\
  smask (finish c kk v ow m g rest) = m /\
  gh (finish c kk v ow m g rest) = g /\
  k (finish c kk v ow m g rest) = kk.
Proof. intros. destruct v as [[]|]; cbn; repeat split. Qed.

Definition status_step (pids : list Z) (status : Z) (e : ev) : Z :=
  if is_cont e then status
  else if memZ (ev_pid e) pids && (ev_pid e =? last pids 0) then ev_status e else status.

Lemma last_in : forall (l : list Z) d, l <> [] -> In (last l d) l.
Proof.
  induction l as [|a l IH]; intros d H; [congruence|].
  destruct l as [|b l]; [left; reflexivity|]. right. apply IH. discriminate.
Qed.

Lemma status_step_cur : forall pids we e, pids <> [] ->
  status_step pids (cur_status (last pids 0) we) e = cur_status (last pids 0) (we ++ [e]).
Proof.
  intros pids we e NE. unfold status_step, cur_status. rewrite last_nc_snoc.
  destruct (is_cont e); [rewrite andb_false_r; reflexivity|].
  destruct (Z.eqb_spec (ev_pid e) (last pids 0)) as [E|E]; cbn [andb negb].
  - rewrite E. replace (memZ (last pids 0) pids) with true; [reflexivity|].
    symmetry. apply memZ_in. apply last_in. exact NE.
  - rewrite andb_false_r. reflexivity.
Qed.

(** ---------- the loop *)
Section Loop.
Variables (c : cfg) (gid : Z) (pids : list Z) (v : via) (rest : list cmd) (ow : Z) (m : bool) (g : list op).
Hypothesis NE : pids <> [].
Let pl := last pids 0.

Lemma snoc_app : forall (we : list ev) e x, (we ++ [e]) ++ x = we ++ e :: x.
Proof. intros. rewrite <- app_assoc. reflexivity. Qed.

Lemma wait_o_returned : forall q fuel kk w we status s' st' left,
  Inv pids we w -> status = cur_status pl we ->
  wait_o c fuel q kk gid pids w v rest ow m g we status = WReturned s' st' left ->
  exists used,
    q = used ++ left /\
    ((exists evs1, used = map RStatus evs1 /\ forall p, In p pids -> settled_in (we ++ evs1) p) \/
     (exists evs1, used = map RStatus evs1 ++ [REchild])) /\
    st' = cur_status pl (we ++ statuses used) /\
    owner s' = (if back v then c_sh c else ow) /\ md s' = Between rest /\ smask s' = m /\
    gh s' = g ++ [Wait gid pids (we ++ statuses used)] /\
    (forall q1 q2, used = q1 ++ q2 -> q2 <> [] ->
       exists kk1 w1 st1,
         wait_o c fuel q1 kk gid pids w v rest ow m g we status =
         WBlocked (waiting_st kk1 gid pids w1 v rest ow m g (we ++ statuses q1)) st1).
Proof.
  induction q as [|r q IH]; intros fuel kk w we status s' st' left I S H;
    (destruct fuel as [|f]; [discriminate H|]); cbn [wait_o] in H.
  - discriminate H.
  - destruct r as [e|].
    + destruct (wait_body kk gid pids w e) as [k' w'] eqn:WB.
      assert (W' : w' = settled_step pids w e) by (rewrite <- wait_body_snd with (kk := kk) (gid := gid), WB; reflexivity).
      fold (status_step pids status e) in H.
      assert (I' : Inv pids (we ++ [e]) w') by (rewrite W'; apply Inv_step; exact I).
      assert (S' : status_step pids status e = cur_status pl (we ++ [e]))
        by (rewrite S; apply status_step_cur; exact NE).
      destruct (negb (is_cont e) && (length pids <=? length w')%nat) eqn:C.
      * (* the loop returns on this status *)
        injection H as <- <- <-.
        apply andb_true_iff in C. destruct C as [_ C].
        destruct (finish_facts c k' v ow m (g ++ [Wait gid pids (we ++ [e])]) rest) as (F1 & F2 & F3 & F4 & _).
        exists [RStatus e]. cbn [statuses]. repeat split; auto.
        -- left. exists [e]. split; [reflexivity|]. apply (Inv_full _ _ _ I' C).
        -- intros q1 q2 E N. destruct q1 as [|r1 q1].
           ++ exists kk, w, status. cbn [statuses]. rewrite app_nil_r. reflexivity.
           ++ cbn in E. injection E as _ E. symmetry in E. apply app_eq_nil in E. destruct E as [_ E]. contradiction.
      * (* the loop goes on *)
        destruct (IH f k' w' (we ++ [e]) (status_step pids status e) s' st' left I' S' H)
          as (used & Q & D & T & O1 & O2 & O3 & O4 & P).
        exists (RStatus e :: used). cbn [statuses]. rewrite snoc_app in T, O4.
        split; [cbn; congruence|]. split; [|repeat split; auto].
        -- destruct D as [(evs1 & U & A)|(evs1 & U)].
           ++ left. exists (e :: evs1). split; [cbn; congruence|]. intros p Hp. rewrite <- snoc_app. auto.
           ++ right. exists (e :: evs1). cbn; congruence.
        -- intros q1 q2 E N. destruct q1 as [|r1 q1].
           ++ exists kk, w, status. cbn [statuses]. rewrite app_nil_r. reflexivity.
           ++ cbn in E. injection E as <- E. destruct (P q1 q2 E N) as (kk1 & w1 & st1 & R).
              exists kk1, w1, st1. cbn [wait_o statuses]. rewrite WB.
              fold (status_step pids status e). rewrite C, R, snoc_app. reflexivity.
    + (* ECHILD *)
      injection H as <- <- <-.
      destruct (finish_facts c kk v ow m (g ++ [Wait gid pids we]) rest) as (F1 & F2 & F3 & F4 & _).
      exists [REchild]. cbn [statuses]. rewrite app_nil_r. repeat split; auto.
      * right. exists []. reflexivity.
      * intros q1 q2 E N. destruct q1 as [|r1 q1].
        -- exists kk, w, status. cbn [statuses]. rewrite app_nil_r. reflexivity.
        -- cbn in E. injection E as _ E. symmetry in E. apply app_eq_nil in E. destruct E as [_ E]. contradiction.
Qed.

(** fuel: one unit per answer of the oracle, plus one *)
Lemma wait_o_fuel : forall q fuel kk w we status,
  (length q < fuel)%nat -> wait_o c fuel q kk gid pids w v rest ow m g we status <> WOutOfFuel.
Proof.
  induction q as [|r q IH]; intros fuel kk w we status L; (destruct fuel as [|f]; [inversion L|]); cbn [wait_o].
  - discriminate.
  - destruct r as [e|]; [|discriminate].
    destruct (wait_body kk gid pids w e) as [k' w'].
    destruct (negb (is_cont e) && (length pids <=? length w')%nat); [discriminate|].
    apply IH. cbn [length] in L. lia.
Qed.
End Loop.

(** ---------- wait_fg_job *)
Lemma wait_returns_settled : forall c fuel q kk gid pids v rest ow m g s' st left,
  K4_oracle pids q ->
  wait_fg_o c fuel q kk gid pids v rest ow m g = WReturned s' st left ->
  exists used, q = used ++ left /\
    gh s' = g ++ [Wait gid pids (statuses used)] /\
    (forall p, In p pids -> settled_in (statuses used) p) /\
    (pids = [] -> st = 0) /\
    (pids <> [] -> exists e, last_of (last pids 0) (statuses used) = Some e /\ is_cont e = false /\
                             st = ev_status e).
Proof.
  intros c fuel q kk gid pids v rest ow m g s' st left K H.
  destruct pids as [|p0 ps] eqn:EP.
  - cbn [wait_fg_o] in H. injection H as <- <- <-.
    exists []. cbn [statuses app].
    destruct (finish_facts c kk v ow m (g ++ [Wait gid [] []]) rest) as (_ & _ & _ & F4 & _).
    repeat split; auto. intros p []. congruence.
  - rewrite <- EP in *. assert (NE : pids <> []) by (rewrite EP; discriminate).
    assert (H' : wait_o c fuel q kk gid pids [] v rest ow m g [] 0 = WReturned s' st left).
    { rewrite <- H. rewrite EP. reflexivity. }
    destruct (wait_o_returned c gid pids v rest ow m g NE q fuel kk [] [] 0 s' st left
                (Inv_init pids) eq_refl H') as (used & Q & D & T & _ & _ & _ & O4 & _).
    cbn [app] in *.
    assert (A : forall p, In p pids -> settled_in (statuses used) p).
    { destruct D as [(evs1 & U & A)|(evs1 & U)].
      - rewrite U, statuses_map. exact A.
      - intros p Hp. rewrite U, statuses_app, statuses_map. cbn [statuses]. rewrite app_nil_r.
        apply ended_settled. apply (K evs1 left); [|exact Hp].
        rewrite Q, U, <- app_assoc. reflexivity. }
    exists used. repeat split; auto; [congruence|]. intros _.
    destruct (A (last pids 0) (last_in pids 0 NE)) as (e & L & C).
    exists e. repeat split; auto. rewrite T. unfold cur_status. rewrite (last_nc_of _ _ _ L C). reflexivity.
Qed.

Lemma wait_gives_back_terminal : forall c fuel q kk gid pids v rest ow m g s' st left,
  wait_fg_o c fuel q kk gid pids v rest ow m g = WReturned s' st left ->
  owner s' = (if back v then c_sh c else ow) /\ md s' = Between rest /\ smask s' = m /\
  exists used, q = used ++ left /\
    forall q1 q2, used = q1 ++ q2 -> q2 <> [] ->
      exists s1 st1 w1,
        wait_fg_o c fuel q1 kk gid pids v rest ow m g = WBlocked s1 st1 /\
        owner s1 = ow /\ md s1 = Waiting gid pids w1 v rest /\ wevs s1 = statuses q1.
Proof.
  intros c fuel q kk gid pids v rest ow m g s' st left H.
  destruct pids as [|p0 ps] eqn:EP.
  - cbn [wait_fg_o] in H. injection H as <- <- <-.
    destruct (finish_facts c kk v ow m (g ++ [Wait gid [] []]) rest) as (F1 & F2 & F3 & _).
    repeat split; auto. exists []. split; [reflexivity|].
    intros q1 q2 E N. symmetry in E. apply app_eq_nil in E. destruct E as [_ E]. contradiction.
  - rewrite <- EP in *. assert (NE : pids <> []) by (rewrite EP; discriminate).
    assert (U : forall q0, wait_fg_o c fuel q0 kk gid pids v rest ow m g =
                           wait_o c fuel q0 kk gid pids [] v rest ow m g [] 0).
    { intros. rewrite EP. reflexivity. }
    rewrite U in H.
    destruct (wait_o_returned c gid pids v rest ow m g NE q fuel kk [] [] 0 s' st left
                (Inv_init pids) eq_refl H) as (used & Q & _ & _ & O1 & O2 & O3 & _ & P).
    repeat split; auto. exists used. split; [exact Q|].
    intros q1 q2 E N. destruct (P q1 q2 E N) as (kk1 & w1 & st1 & R).
    exists (waiting_st kk1 gid pids w1 v rest ow m g ([] ++ statuses q1)), st1, w1.
    rewrite U, R. repeat split.
Qed.

Lemma wait_fuel_suffices : forall c fuel q kk gid pids v rest ow m g,
  (length q < fuel)%nat -> wait_fg_o c fuel q kk gid pids v rest ow m g <> WOutOfFuel.
Proof.
  intros. destruct pids as [|p0 ps] eqn:EP; [discriminate|].
  cbn [wait_fg_o]. apply wait_o_fuel. exact H.
Qed.

(** ---------- [Term.settle] is [wait_o] on the answers of Term.v's own kernel
    model: same session state (everything but [procs], which the oracle loop
    does not touch). So the theorems above speak about the loop the sessions
    of Model/Term.v run. *)
Definition core_eq (a b : core) : Prop := shl a = shl b /\ outs a = outs b.
Definition st_eq (a b : st) : Prop :=
  core_eq (k a) (k b) /\ md a = md b /\ owner a = owner b /\ smask a = smask b /\
  gh a = gh b /\ wevs a = wevs b.

Lemma wait_body_core_eq : forall ka kb gid pids w e, core_eq ka kb ->
  core_eq (fst (wait_body ka gid pids w e)) (fst (wait_body kb gid pids w e)) /\
  snd (wait_body ka gid pids w e) = snd (wait_body kb gid pids w e).
Proof.
  intros ka kb gid pids w e [A B]. unfold wait_body, core_eq.
  rewrite A, B. destruct (wait_one (shl kb) gid pids w e). cbn. auto.
Qed.

Lemma wait_body_procs : forall kk gid pids w e, procs (fst (wait_body kk gid pids w e)) = procs kk.
Proof. intros. unfold wait_body. destruct (wait_one (shl kk) gid pids w e). reflexivity. Qed.

Lemma finish_st_eq : forall c ka kb v ow m g rest, core_eq ka kb ->
  st_eq (finish c ka v ow m g rest) (finish c kb v ow m g rest).
Proof. intros. destruct v as [[]|]; cbn; repeat split; apply H. Qed.

Lemma settle_is_wait_o : forall c gid pids v rest ow m g fuel kk kt w we status,
  core_eq kk kt ->
  match wait_o c fuel (kreplies fuel (procs kt)) kk gid pids w v rest ow m g we status with
  | WReturned s' _ _ => st_eq s' (settle c fuel (waiting_st kt gid pids w v rest ow m g we))
  | WBlocked s1 _ => st_eq s1 (settle c fuel (waiting_st kt gid pids w v rest ow m g we))
  | WOutOfFuel => exists k1 w1 we1,
      settle c fuel (waiting_st kt gid pids w v rest ow m g we) = waiting_st k1 gid pids w1 v rest ow m g we1
  end.
Proof.
  intros c gid pids v rest ow m g. induction fuel as [|f IH]; intros kk kt w we status E.
  - cbn. eauto.
  - cbn [kreplies settle waiting_st md k owner smask gh wevs].
    destruct (next_status (procs kt)) as [[e ps]|] eqn:N.
    + cbn [wait_o].
      destruct (wait_body_core_eq kk (set_procs kt ps) gid pids w e) as [E1 E2]; [exact E|].
      pose proof (wait_body_procs (set_procs kt ps) gid pids w e) as P.
      destruct (wait_body kk gid pids w e) as [k1 w1] eqn:WB1.
      destruct (wait_body (set_procs kt ps) gid pids w e) as [k2 w2] eqn:WB2.
      cbn [fst snd set_procs procs] in E1, E2, P. subst w2.
      destruct (negb (is_cont e) && (length pids <=? length w1)%nat).
      * apply finish_st_eq. exact E1.
      * specialize (IH k1 k2 w1 (we ++ [e])
          (if is_cont e then status
           else if memZ (ev_pid e) pids && (ev_pid e =? last pids 0) then ev_status e else status) E1).
        rewrite P in IH. exact IH.
    + destruct (all_gone (procs kt)); cbn [wait_o].
      * apply finish_st_eq. exact E.
      * repeat split; apply E.
Qed.

(** ====================================================================
    Round 9, second part.
    (3) K4 with a set of members reaped BEFORE this wait ([gone0]): fg on a job
        one of whose members was reaped earlier on the same line. *)
Definition K4_oracle_g (gone0 : Z -> Prop) (pids : list Z) (q : list reply) : Prop :=
  forall evs1 post, q = map RStatus evs1 ++ REchild :: post ->
  forall p, In p pids -> ended_in evs1 p \/ gone0 p.

Lemma wait_returns_settled_g : forall (gone0 : Z -> Prop) c fuel q kk gid pids v rest ow m g s' st left,
  K4_oracle_g gone0 pids q ->
  wait_fg_o c fuel q kk gid pids v rest ow m g = WReturned s' st left ->
  exists used, q = used ++ left /\
    gh s' = g ++ [Wait gid pids (statuses used)] /\
    (forall p, In p pids -> settled_in (statuses used) p \/ gone0 p) /\
    (pids = [] -> st = 0) /\
    (forall e, last_of (last pids 0) (statuses used) = Some e -> is_cont e = false -> st = ev_status e).
Proof.
  intros gone0 c fuel q kk gid pids v rest ow m g s' st left K H.
  destruct pids as [|p0 ps] eqn:EP.
  - cbn [wait_fg_o] in H. injection H as <- <- <-.
    exists []. cbn [statuses app].
    destruct (finish_facts c kk v ow m (g ++ [Wait gid [] []]) rest) as (_ & _ & _ & F4 & _).
    repeat split; auto. intros p []. intros e X. discriminate X.
  - rewrite <- EP in *. assert (NE : pids <> []) by (rewrite EP; discriminate).
    assert (H' : wait_o c fuel q kk gid pids [] v rest ow m g [] 0 = WReturned s' st left).
    { rewrite <- H. rewrite EP. reflexivity. }
    destruct (wait_o_returned c gid pids v rest ow m g NE q fuel kk [] [] 0 s' st left
                (Inv_init pids) eq_refl H') as (used & Q & D & T & _ & _ & _ & O4 & _).
    cbn [app] in *.
    exists used. repeat split; auto; [|congruence|].
    + destruct D as [(evs1 & U & A)|(evs1 & U)].
      * rewrite U, statuses_map. intros p Hp. left. auto.
      * intros p Hp. rewrite U, statuses_app, statuses_map. cbn [statuses]. rewrite app_nil_r.
        destruct (K evs1 left) with (p := p) as [E|G]; auto.
        -- rewrite Q, U, <- app_assoc. reflexivity.
        -- left. apply ended_settled. exact E.
    + intros e L C. rewrite T. unfold cur_status. rewrite (last_nc_of _ _ _ L C). reflexivity.
Qed.

(** (1) Term.v's own kernel model satisfies K4 and H1: the statuses [next_status]
    hands out are truthful about [procs], and ECHILD ([all_gone]) comes only when
    every process is reaped. *)
Definition truthful (e : ev) (pr : proc) : Prop :=
  match e with
  | Exited _ _ | Signaled _ _ => pst pr = PGone
  | StoppedE _ _ => pst pr = PStop
  | Continued _ => pst pr = PRun
  end.

(** every process with pid [p] (if any) has been reaped *)
Definition gone0 (ps : list proc) (p : Z) : Prop := forall pr, In pr ps -> ppid pr = p -> gone pr = true.

Lemma next_status_shape : forall ps e ps', next_status ps = Some (e, ps') ->
  exists a pr pr' b, ps = a ++ pr :: b /\ ps' = a ++ pr' :: b /\
    ppid pr = ev_pid e /\ ppid pr' = ev_pid e /\ truthful e pr' /\ gone pr = false.
Proof.
  induction ps as [|p r IH]; intros e ps' H; [discriminate H|].
  cbn [next_status] in H.
  assert (SK : match next_status r with Some (e0, r') => Some (e0, p :: r') | None => None end = Some (e, ps') ->
    exists a pr pr' b, p :: r = a ++ pr :: b /\ ps' = a ++ pr' :: b /\
      ppid pr = ev_pid e /\ ppid pr' = ev_pid e /\ truthful e pr' /\ gone pr = false).
  { destruct (next_status r) as [[e0 r0]|]; [|discriminate]. intros X. injection X as <- <-.
    destruct (IH e0 r0 eq_refl) as (a & pr & pr' & b & A & B & C).
    exists (p :: a), pr, pr', b. split; [cbn; f_equal; exact A|]. split; [cbn; f_equal; exact B|exact C]. }
  destruct (pst p) eqn:S.
  - destruct (pnote p) eqn:N; try (apply SK; exact H).
    injection H as <- <-. exists [], p, (mkproc (ppid p) (ppgid p) PRun NNone (ppend p) (pblk p)), r.
    cbn. unfold gone. rewrite S. repeat split.
  - destruct (pnote p) eqn:N; try (apply SK; exact H).
    injection H as <- <-. exists [], p, (mkproc (ppid p) (ppgid p) PStop NNone (ppend p) (pblk p)), r.
    cbn. unfold gone. rewrite S. repeat split.
  - injection H as <- <-. exists [], p, (mkproc (ppid p) (ppgid p) PGone NNone None (pblk p)), r.
    unfold gone. rewrite S. destruct signaled; cbn; repeat split.
  - apply SK; exact H.
Qed.

Definition TInv (ps0 : list proc) (evs : list ev) (ps : list proc) : Prop :=
  (forall p e, last_of p evs = Some e -> exists pr, In pr ps /\ ppid pr = p /\ truthful e pr) /\
  (forall p, gone0 ps p -> ended_in evs p \/ gone0 ps0 p).

Lemma TInv_init : forall ps0, TInv ps0 [] ps0.
Proof. intros. split; [intros p e H; discriminate H|]. intros p G. right. exact G. Qed.

Lemma in_swap : forall (a b : list proc) x y z, In z (a ++ x :: b) -> z <> x -> In z (a ++ y :: b).
Proof.
  intros a b x y z H N. apply in_app_or in H. apply in_or_app.
  destruct H as [H|[H|H]]; [left; exact H|congruence|right; right; exact H].
Qed.

Lemma ended_in_snoc_other : forall evs e p, ev_pid e <> p -> ended_in evs p -> ended_in (evs ++ [e]) p.
Proof.
  intros evs e p N (x & L & E). exists x. rewrite last_of_snoc.
  destruct (Z.eqb_spec (ev_pid e) p); [contradiction|auto].
Qed.

Lemma TInv_step : forall ps0 evs ps e ps', next_status ps = Some (e, ps') ->
  TInv ps0 evs ps -> TInv ps0 (evs ++ [e]) ps'.
Proof.
  intros ps0 evs ps e ps' H [T1 T2].
  destruct (next_status_shape ps e ps' H) as (a & pr & pr' & b & -> & -> & P1 & P2 & TR & G).
  split.
  - intros p e1 L. rewrite last_of_snoc in L. destruct (Z.eqb_spec (ev_pid e) p) as [E|E].
    + injection L as <-. exists pr'. split; [apply in_or_app; right; left; reflexivity|]. split; [congruence|exact TR].
    + destruct (T1 p e1 L) as (x & I & Px & Tx). exists x. split; [|auto].
      apply (in_swap a b pr pr' x I). intros ->. congruence.
  - intros p G'. destruct (Z.eq_dec (ev_pid e) p) as [E|E].
    + left. exists e. rewrite last_of_snoc. rewrite <- E, Z.eqb_refl. split; [reflexivity|].
      assert (X : gone pr' = true).
      { apply G'; [apply in_or_app; right; left; reflexivity|congruence]. }
      unfold gone in X. destruct e; cbn in TR; rewrite TR in X; try discriminate X; reflexivity.
    + assert (G0 : gone0 (a ++ pr :: b) p).
      { intros x I Px. apply G'; [|exact Px]. apply (in_swap a b pr pr' x I). intros ->. congruence. }
      destruct (T2 p G0) as [X|X]; [left; apply ended_in_snoc_other; assumption|right; exact X].
Qed.

(** the processes after [n] statuses have been handed out *)
Fixpoint kafter (n : nat) (ps : list proc) : list proc :=
  match n with
  | O => ps
  | S n' => match next_status ps with Some (_, ps') => kafter n' ps' | None => ps end
  end.

Lemma kreplies_truth : forall evs1 fuel ps post ps0 evs0,
  kreplies fuel ps = map RStatus evs1 ++ post -> TInv ps0 evs0 ps ->
  TInv ps0 (evs0 ++ evs1) (kafter (length evs1) ps) /\
  exists f1, kreplies f1 (kafter (length evs1) ps) = post.
Proof.
  induction evs1 as [|e evs1 IH]; intros fuel ps post ps0 evs0 H T.
  - cbn. rewrite app_nil_r. split; [exact T|]. exists fuel. exact H.
  - destruct fuel as [|f]; [discriminate H|]. cbn [kreplies map app] in H. cbn [length kafter].
    destruct (next_status ps) as [[e0 ps']|] eqn:N.
    + injection H as -> H.
      destruct (IH f ps' post ps0 (evs0 ++ [e]) H (TInv_step _ _ _ _ _ N T)) as [A B].
      rewrite snoc_app in A. split; assumption.
    + destruct (all_gone ps); discriminate H.
Qed.

Lemma kreplies_echild : forall f ps post, kreplies f ps = REchild :: post -> forall p, gone0 ps p.
Proof.
  intros f ps post H p pr I _. destruct f as [|f]; [discriminate H|]. cbn [kreplies] in H.
  destruct (next_status ps) as [[e0 ps']|]; [discriminate H|].
  destruct (all_gone ps) eqn:A; [|discriminate H].
  unfold all_gone in A. rewrite forallb_forall in A. auto.
Qed.

Lemma kreplies_K4 : forall fuel ps0 pids, K4_oracle_g (gone0 ps0) pids (kreplies fuel ps0).
Proof.
  intros fuel ps0 pids evs1 post H p _.
  destruct (kreplies_truth evs1 fuel ps0 (REchild :: post) ps0 [] H (TInv_init ps0)) as [[_ T2] [f1 E]].
  cbn [app] in T2. apply T2. apply (kreplies_echild f1 _ post E).
Qed.

(** what a blocked oracle loop hands back is a Waiting state *)
Lemma wait_o_blocked : forall c gid pids v rest ow m g q fuel kk w we status s1 st1,
  wait_o c fuel q kk gid pids w v rest ow m g we status = WBlocked s1 st1 ->
  exists kk1 w1 we1, s1 = waiting_st kk1 gid pids w1 v rest ow m g we1.
Proof.
  intros c gid pids v rest ow m g. induction q as [|r q IH]; intros fuel kk w we status s1 st1 H;
    (destruct fuel as [|f]; [discriminate H|]); cbn [wait_o] in H.
  - injection H as <- _. eauto.
  - destruct r as [e|]; [|discriminate H].
    destruct (wait_body kk gid pids w e) as [k' w'].
    destruct (negb (is_cont e) && (length pids <=? length w')%nat); [discriminate H|].
    eapply IH. exact H.
Qed.

(** [Term.settle] that returned: the statuses it consumed are a prefix of the
    kernel's answers, they are in the ghost Wait, and [procs] afterwards are the
    kernel's processes after exactly those statuses *)
Lemma settle_returned : forall c gid pids v rest ow m g fuel kt w we,
  md (settle c fuel (waiting_st kt gid pids w v rest ow m g we)) = Between rest ->
  exists evs1 post,
    kreplies fuel (procs kt) = map RStatus evs1 ++ post /\
    gh (settle c fuel (waiting_st kt gid pids w v rest ow m g we)) = g ++ [Wait gid pids (we ++ evs1)] /\
    procs (k (settle c fuel (waiting_st kt gid pids w v rest ow m g we))) = kafter (length evs1) (procs kt).
Proof.
  intros c gid pids v rest ow m g. induction fuel as [|f IH]; intros kt w we H.
  - discriminate H.
  - revert H. cbn [kreplies settle waiting_st md k owner smask gh wevs].
    destruct (next_status (procs kt)) as [[e ps]|] eqn:N.
    + pose proof (wait_body_procs (set_procs kt ps) gid pids w e) as P.
      destruct (wait_body (set_procs kt ps) gid pids w e) as [k2 w2].
      cbn [fst set_procs procs] in P.
      destruct (negb (is_cont e) && (length pids <=? length w2)%nat).
      * intros _. destruct (finish_facts c k2 v ow m (g ++ [Wait gid pids (we ++ [e])]) rest) as (_ & _ & _ & F4 & F5).
        exists [e], (kreplies f ps). cbn [map app length kafter]. rewrite N, F4, F5. auto.
      * intros H. destruct (IH k2 w2 (we ++ [e]) H) as (evs1 & post & A & B & C).
        exists (e :: evs1), post. cbn [map app length kafter]. rewrite N. rewrite P in A, C.
        rewrite snoc_app in B. rewrite A. auto.
    + destruct (all_gone (procs kt)).
      * intros _. destruct (finish_facts c kt v ow m (g ++ [Wait gid pids we]) rest) as (_ & _ & _ & F4 & F5).
        exists [], [REchild]. cbn [map app length kafter]. rewrite app_nil_r, F4, F5. auto.
      * intros H. discriminate H.
Qed.

(** the hypothesis-free corollary about [Term.settle] on a wait just entered:
    [C07_wait_returns_settled] (with [K4_oracle_g]) composed with
    [settle_is_wait_o], K4 and H1 being PROVED for Term.v's kernel. *)
Lemma settle_returns_settled : forall c gid pids v rest ow m g fuel kt,
  pids <> [] ->
  let s' := settle c fuel (waiting_st kt gid pids [] v rest ow m g []) in
  md s' = Between rest ->
  owner s' = (if back v then c_sh c else ow) /\
  exists evs, gh s' = g ++ [Wait gid pids evs] /\
    forall p, In p pids ->
      (settled_in evs p \/ gone0 (procs kt) p) /\
      (gone0 (procs kt) p \/
       exists pr, In pr (procs (k s')) /\ ppid pr = p /\ (pst pr = PGone \/ pst pr = PStop)).
Proof.
  intros c gid pids v rest ow m g fuel kt NE s' M.
  pose proof (settle_is_wait_o c gid pids v rest ow m g fuel kt kt [] [] 0 (conj eq_refl eq_refl)) as L.
  fold s' in L.
  destruct (wait_o c fuel (kreplies fuel (procs kt)) kt gid pids [] v rest ow m g [] 0) as [s1 st left|s1 st|] eqn:W.
  - destruct L as (_ & L2 & L3 & _ & L5 & _).
    assert (W' : wait_fg_o c fuel (kreplies fuel (procs kt)) kt gid pids v rest ow m g = WReturned s1 st left).
    { rewrite <- W. destruct pids; [congruence|reflexivity]. }
    destruct (wait_returns_settled_g (gone0 (procs kt)) _ _ _ _ _ _ _ _ _ _ _ _ _ _
                (kreplies_K4 fuel (procs kt) pids) W') as (used & Q & G & A & _).
    destruct (wait_gives_back_terminal _ _ _ _ _ _ _ _ _ _ _ _ _ _ W') as (O & _).
    split; [congruence|].
    destruct (settle_returned c gid pids v rest ow m g fuel kt [] [] M) as (evs1 & post & KR & GH & PR).
    fold s' in GH, PR. cbn [app] in GH.
    assert (EV : statuses used = evs1).
    { rewrite <- L5, G in GH. apply app_inv_head in GH. injection GH as GH. exact GH. }
    rewrite EV in A. exists evs1. split; [exact GH|].
    intros p Hp. split; [apply A; exact Hp|].
    destruct (A p Hp) as [(e & LO & C)|G0]; [|left; exact G0]. right.
    destruct (kreplies_truth evs1 fuel (procs kt) post (procs kt) [] KR (TInv_init _)) as [[T1 _] _].
    cbn [app] in T1. destruct (T1 p e LO) as (pr & I & Pp & TR).
    exists pr. rewrite PR. split; [exact I|]. split; [exact Pp|].
    destruct e; cbn in TR, C; auto. discriminate C.
  - destruct (wait_o_blocked _ _ _ _ _ _ _ _ _ _ _ _ _ _ _ _ W) as (kk1 & w1 & we1 & ->).
    destruct L as (_ & L2 & _). cbn in L2. rewrite M in L2. discriminate L2.
  - destruct L as (k1 & w1 & we1 & L). rewrite L in M. discriminate M.
Qed.

(** (2) the oracle loop and C06's [Jobs.wait_loop] are one function: on the same
    statuses, from the same shell value, settled set and status, they return at
    the same status with the same shell (job table + parked maps), the same
    [cmd_result.status], the same statuses left; an exhausted list is
    [w_blocked = true] there and [WBlocked] here. *)
Definition same_result (r : wres) (o : wout) : Prop :=
  match o with
  | WReturned s' st lft =>
      w_sh r = shl (k s') /\ w_status r = st /\ w_blocked r = false /\ lft = map RStatus (w_left r)
  | WBlocked s1 st =>
      w_sh r = shl (k s1) /\ w_status r = st /\ w_blocked r = true /\ w_left r = []
  | WOutOfFuel => False
  end.

Lemma wait_o_is_wait_loop : forall c gid pids v rest ow m g evs fuel kk w we status,
  (length evs < fuel)%nat ->
  same_result (Jobs.wait_loop evs (shl kk) gid pids (last pids 0) (length pids) w status)
              (wait_o c fuel (map RStatus evs) kk gid pids w v rest ow m g we status).
Proof.
  intros c gid pids v rest ow m g. induction evs as [|e evs IH]; intros fuel kk w we status L;
    (destruct fuel as [|f]; [inversion L|]).
  - cbn. repeat split.
  - rewrite wait_loop_cons. cbn [map wait_o]. unfold wait_body.
    destruct (wait_one (shl kk) gid pids w e) as [s1 w1].
    cbn [length] in L.
    destruct (is_cont e); cbn [negb andb].
    + apply (IH f (mkcore (procs kk) s1 (outs kk ++ wait_report (shl kk) gid pids e))). lia.
    + destruct (length pids <=? length w1)%nat.
      * destruct (finish_facts c (mkcore (procs kk) s1 (outs kk ++ wait_report (shl kk) gid pids e)) v ow m
                   (g ++ [Wait gid pids (we ++ [e])]) rest) as (_ & _ & _ & _ & F5).
        cbn. rewrite F5. repeat split.
      * apply (IH f (mkcore (procs kk) s1 (outs kk ++ wait_report (shl kk) gid pids e))). lia.
Qed.

Lemma wait_fg_o_is_wait_fg_job : forall c gid pids v rest ow m g evs fuel kk,
  (length evs < fuel)%nat ->
  same_result (Jobs.wait_fg_job (shl kk) gid pids evs)
              (wait_fg_o c fuel (map RStatus evs) kk gid pids v rest ow m g).
Proof.
  intros. destruct pids as [|p0 ps] eqn:EP.
  - cbn [Jobs.wait_fg_job wait_fg_o].
    destruct (finish_facts c kk v ow m (g ++ [Wait gid [] []]) rest) as (_ & _ & _ & _ & F5).
    cbn. rewrite F5. repeat split.
  - unfold Jobs.wait_fg_job, wait_fg_o. rewrite <- EP. apply wait_o_is_wait_loop. assumption.
Qed.

(** C06's model has no ECHILD answer: running out of statuses there
    ([w_blocked = true]) is what the injection hook turns into ECHILD. So: where
    [Jobs.wait_loop] ends blocked, the oracle loop followed by ECHILD returns
    with that shell and that status. *)
Lemma wait_o_echild_is_blocked : forall c gid pids v rest ow m g evs fuel kk w we status post,
  (length evs < fuel)%nat ->
  w_blocked (Jobs.wait_loop evs (shl kk) gid pids (last pids 0) (length pids) w status) = true ->
  exists s',
    wait_o c fuel (map RStatus evs ++ REchild :: post) kk gid pids w v rest ow m g we status =
      WReturned s' (w_status (Jobs.wait_loop evs (shl kk) gid pids (last pids 0) (length pids) w status)) post /\
    shl (k s') = w_sh (Jobs.wait_loop evs (shl kk) gid pids (last pids 0) (length pids) w status).
Proof.
  intros c gid pids v rest ow m g. induction evs as [|e evs IH]; intros fuel kk w we status post L;
    (destruct fuel as [|f]; [inversion L|]).
  - intros _. cbn [map app wait_o Jobs.wait_loop w_status w_sh].
    eexists. split; [reflexivity|].
    destruct (finish_facts c kk v ow m (g ++ [Wait gid pids we]) rest) as (_ & _ & _ & _ & F5). rewrite F5. reflexivity.
  - rewrite wait_loop_cons. cbn [map app wait_o]. unfold wait_body.
    destruct (wait_one (shl kk) gid pids w e) as [s1 w1].
    cbn [length] in L.
    destruct (is_cont e); cbn [negb andb].
    + apply (IH f (mkcore (procs kk) s1 (outs kk ++ wait_report (shl kk) gid pids e))). lia.
    + destruct (length pids <=? length w1)%nat.
      * intros B. discriminate B.
      * apply (IH f (mkcore (procs kk) s1 (outs kk ++ wait_report (shl kk) gid pids e))). lia.
Qed.
