(** C15, round 9c: the two references agree -- from the flag on, the flag-state reference [refl] executes
    exactly [upto_fail] of the inlined sequence [unfold]. *)
From Cicada Require Import Base.Chars Model.Script Model.Args Model.ShellScript Proofs.ShellCallsProofs Proofs.ShellFlagProofs.
From Coq Require Import ZArith Lia.
Local Open Scope N_scope.

Section Eq.
Variable ext : str -> Z.
Variable rt : list (str * list str).

Definition stf (ls : list str) (last : Z) (cmds : list str) : Z :=
  if Z.eqb (fail_status ext cmds) 0 then match ls with [] => last | _ => 0%Z end else fail_status ext cmds.

Lemma stf_cons l r last cmds : stf (l :: r) last cmds = stf r 0%Z cmds.
Proof. unfold stf. destruct (Z.eqb (fail_status ext cmds) 0); [destruct r; reflexivity | reflexivity]. Qed.

Lemma stf_zero ls cmds : stf ls 0%Z cmds = fail_status ext cmds.
Proof.
  unfold stf. destruct (Z.eqb (fail_status ext cmds) 0) eqn:E; [|reflexivity].
  apply Z.eqb_eq in E. rewrite E. destruct ls; reflexivity.
Qed.

Lemma refl_unfold : forall fuel ls last cmds, unfold rt fuel ls = Some cmds ->
  refl ext rt fuel ls true last = Some (true, upto_fail ext cmds, stf ls last cmds).
Proof.
  induction fuel as [|f IHf]; [discriminate|].
  induction ls as [|l r IHr]; intros last cmds H.
  - cbn in H. injection H as <-. reflexivity.
  - change (unfold rt (S f) (l :: r)) with (unfold_lines rt (unfold rt f) (l :: r)) in H. cbn [unfold_lines] in H.
    change (unfold_lines rt (unfold rt f) r) with (unfold rt (S f) r) in H.
    change (refl ext rt (S f) (l :: r) true last) with (ref_lines ext rt (fun b e => refl ext rt f b e 0%Z) (l :: r) true last).
    cbn [ref_lines]. change (ref_lines ext rt (fun b e => refl ext rt f b e 0%Z) r) with (refl ext rt (S f) r).
    rewrite stf_cons. unfold classify in H. unfold classify2.
    destruct (cmd_words l) as [|cmd args]; [exact (IHr _ _ H)|].
    destruct (str_eqb cmd [115; 101; 116] && match args with [a] => str_eqb a [45; 101] | _ => false end);
      [exact (IHr _ _ H)|].
    destruct (str_eqb cmd s_source); [discriminate H|].
    destruct (get_body cmd rt) as [body|].
    + destruct (unfold rt f body) as [a|] eqn:Ua; [|discriminate H].
      destruct (unfold rt (S f) r) as [b|] eqn:Ub; [|discriminate H]. injection H as <-.
      rewrite (IHf body 0%Z a Ua), stf_zero. cbn [andb].
      destruct (Z.eqb (fail_status ext a) 0) eqn:Ez; cbn [negb].
      * destruct (fail_app_go ext a b Ez) as [G0 [G1 G2]]. apply Z.eqb_eq in Ez.
        rewrite Ez, (IHr 0%Z b eq_refl), G1, G0. unfold stf. rewrite G2. reflexivity.
      * destruct (fail_app_stop ext a b Ez) as [G1 G2]. rewrite G1. unfold stf. rewrite G2, Ez. reflexivity.
    + destruct (unfold rt (S f) r) as [b|] eqn:Ub; [|discriminate H]. injection H as <-.
      cbn [andb upto_fail]. unfold stf. cbn [fail_status].
      destruct (Z.eqb (ext l) 0) eqn:Ez; cbn [negb].
      * rewrite (IHr (ext l) b eq_refl). unfold stf. apply Z.eqb_eq in Ez. rewrite Ez.
        destruct (Z.eqb (fail_status ext b) 0); [destruct r; reflexivity | reflexivity].
      * rewrite Ez. reflexivity.
Qed.

(** with [last] = 0 (a script, a body): the status is that of the first failing command, 0 if none *)
Theorem refl_is_upto_fail : forall fuel ls cmds, unfold rt fuel ls = Some cmds ->
  refl ext rt fuel ls true 0%Z = Some (true, upto_fail ext cmds, fail_status ext cmds).
Proof. intros fuel ls cmds H. rewrite (refl_unfold fuel ls 0%Z cmds H), stf_zero. reflexivity. Qed.
End Eq.
