(** The passes after tokenizing leave quoted tokens alone: a command word
    followed by tokens that carry a single- or double-quote tag is planned as
    one foreground command whose words are exactly those tokens -- no pipe,
    no background marker, no input or output redirection, no assignment --
    whatever text the quoted tokens hold. *)
From Cicada Require Import Proofs.SplitLtProofs.
From Cicada Require Import Base.Chars Base.Tag Model.Tokenizer Model.Redirect Proofs.TokenizerProofs.
From Coq Require Import Lia.
Local Open Scope N_scope.

Definition quoted_tok (t : token) : bool := tag_eqb (fst t) TSq || tag_eqb (fst t) TDq.

Lemma quoted_not_none t : quoted_tok t = true -> tag_eqb (fst t) TNone = false.
Proof. destruct t as [[] w]; cbn; congruence. Qed.

(** the command word: not an assignment, no [>], not one of the operator words *)
Definition cmd_ok (w : str) : bool :=
  negb (has_char c_gt w) && negb (str_eqb w s_lt) && negb (str_eqb w s_lt3) &&
  negb (str_eqb w [c_pipe]) && negb (starts_with_c c_lt w) &&   (* /repo 543507e: an untagged <file is split *)
  match split_env w with None => true | Some _ => false end.

Lemma drain_cmd w l : cmd_ok w = true -> drain_envs ((TNone, w) :: l) [] = ([], (TNone, w) :: l).
Proof.
  intros H. unfold cmd_ok in H. repeat (apply andb_true_iff in H as [H ?]).
  cbn [drain_envs]. destruct (split_env w); [discriminate|reflexivity].
Qed.

Lemma split_pipes_none l : forallb quoted_tok l = true -> forall cur acc,
  is_empty (cur ++ l) = false -> split_pipes l cur acc = acc ++ [cur ++ l].
Proof.
  induction l as [|[tg w] l IH]; intros Hq cur acc Hne.
  - cbn [split_pipes]. rewrite app_nil_r in *. now rewrite Hne.
  - cbn [forallb] in Hq. apply andb_true_iff in Hq as [Ht Hq].
    cbn [split_pipes]. pose proof (quoted_not_none _ Ht) as Hn. cbn [fst] in Hn. rewrite Hn. cbn [andb].
    rewrite IH; [now rewrite <- app_assoc|exact Hq|]. rewrite <- app_assoc. cbn.
    destruct cur; reflexivity.
Qed.

Lemma has_from_quoted l : forallb quoted_tok l = true -> has_from l = false.
Proof.
  induction l as [|t l IH]; [reflexivity|]. cbn [forallb has_from existsb]. intros H.
  apply andb_true_iff in H as [Ht Hq]. rewrite (quoted_not_none _ Ht). cbn [andb orb]. now apply IH.
Qed.

Lemma redir_loop_quoted l : forallb quoted_tok l = true -> forall nw rd s1 s2,
  redir_loop (mkr nw rd false s1 s2) l = inl (mkr (nw ++ l) rd false s1 s2).
Proof.
  induction l as [|t l IH]; intros Hq nw rd s1 s2.
  - now rewrite app_nil_r.
  - cbn [forallb] in Hq. apply andb_true_iff in Hq as [Ht Hq]. cbn [redir_loop].
    unfold redir_step. destruct t as [tg w]. cbn [r_tbc r_new r_red r_s1 r_s2].
    pose proof (quoted_not_none _ Ht) as Hn. cbn [fst] in Hn. rewrite Hn. cbn [negb andb].
    rewrite IH by assumption. now rewrite <- app_assoc.
Qed.

Theorem plan_quoted cmd l :
  cmd_ok cmd = true -> forallb quoted_tok l = true ->
  plan_tokens ((TNone, cmd) :: l) =
  inl (mkcl [mkc ((TNone, cmd) :: l) [] None] [] false).
Proof.
  intros Hc Hq. unfold plan_tokens. rewrite (drain_cmd _ _ Hc).
  pose proof Hc as Hc'. unfold cmd_ok in Hc'. repeat (apply andb_true_iff in Hc' as [Hc' ?]).
  repeat match goal with H : negb _ = true |- _ => apply negb_true_false in H end.
  (* background test *)
  match goal with |- context [if ?b then removelast _ else _] => assert (Hbg : b = false) end.
  { destruct l as [|t l']; [reflexivity|].
    assert (Hlast : exists t' pre, (TNone, cmd) :: t :: l' = pre ++ [t'] /\ quoted_tok t' = true).
    { destruct (exists_last (l := t :: l')) as (pre & t' & E); [discriminate|].
      exists t', ((TNone, cmd) :: pre). split; [now rewrite E|].
      rewrite forallb_forall in Hq. apply Hq. rewrite E. apply in_or_app. right. now left. }
    destruct Hlast as (t' & pre & E & Ht'). rewrite E, rev_app_distr. cbn [rev app].
    destruct t' as [tg w]. pose proof (quoted_not_none _ Ht') as Hn. cbn [fst] in Hn. rewrite Hn.
    cbn [andb]. apply andb_false_r. }
  rewrite Hbg.
  (* pipes *)
  assert (Hsp : split_pipes ((TNone, cmd) :: l) [] [] = [(TNone, cmd) :: l]).
  { cbn [split_pipes]. cbn [tag_eqb andb].
    match goal with H : str_eqb cmd [c_pipe] = false |- _ => rewrite H end.
    rewrite split_pipes_none; [reflexivity|exact Hq|reflexivity]. }
  rewrite Hsp. cbn [map_cmds].
  rewrite from_tokens_nosplit.
  2:{ cbn [existsb]. apply orb_false_iff. split.
      - destruct cmd as [|c r]; [reflexivity|]. apply att_lt_first.
        match goal with H : starts_with_c c_lt (c :: r) = false |- _ => exact H end.
      - clear -Hq. induction l as [|t l IH]; [reflexivity|]. cbn [forallb existsb] in *. apply andb_true_iff in Hq as [Ht Hl].
        destruct t as [tg w]. rewrite (att_lt_tagged tg w (quoted_not_none _ Ht)). now apply IH. }
  unfold from_tokens_core.
  assert (Hhf : has_from ((TNone, cmd) :: l) = false).
  { cbn [has_from existsb fst snd tag_eqb andb].
    repeat match goal with H : str_eqb cmd _ = false |- _ => rewrite H end.
    cbn [orb]. now apply has_from_quoted. }
  cbn [from_loop length]. rewrite Hhf.
  unfold tokens_to_redirections. cbn [redir_loop]. unfold redir_step at 1.
  cbn [r_tbc r_new r_red r_s1 r_s2 tag_eqb negb andb].
  match goal with H : has_char c_gt cmd = false |- _ => rewrite H end. cbn [negb].
  rewrite redir_loop_quoted by assumption. cbn [r_tbc r_new r_red app is_empty]. reflexivity.
Qed.

(** a plain word that is not an assignment is an admissible command word *)
Lemma plain_word_cmd_ok w :
  plain_word w = true -> split_env w = None -> cmd_ok w = true.
Proof.
  intros Hp He. unfold cmd_ok. rewrite He. apply andb_true_iff in Hp as [Hne Hall].
  assert (Hno : forall c k, In c w -> classify k <> KOther -> c <> k).
  { intros c k Hin Hk ->. rewrite forallb_forall in Hall. apply Hall in Hin.
    apply cls_eqb_eq in Hin. contradiction. }
  assert (Hgt : has_char c_gt w = false).
  { clear Hne He. induction w as [|c w IH]; [reflexivity|]. cbn [has_char].
    destruct (N.eqb_spec c c_gt) as [->|_].
    - exfalso. apply (Hno c_gt c_gt); [now left|discriminate|reflexivity].
    - cbn [orb]. apply IH.
      + cbn [forallb] in Hall. now apply andb_true_iff in Hall as [_ ?].
      + intros c' k Hin. apply Hno. now right. }
  rewrite Hgt. cbn [negb andb].
  assert (Hfirst : forall k r, w = k :: r -> classify k = KOther).
  { intros k r ->. cbn [forallb] in Hall. apply andb_true_iff in Hall as [H _]. now apply cls_eqb_eq. }
  destruct w as [|c w']; [discriminate|]. specialize (Hfirst c w' eq_refl).
  assert (c <> c_lt) by (intros ->; discriminate).
  assert (c <> c_pipe) by (intros ->; discriminate).
  unfold s_lt, s_lt3. cbn [str_eqb starts_with_c].
  destruct (N.eqb_spec c c_lt); [contradiction|]. destruct (N.eqb_spec c c_pipe); [contradiction|].
  reflexivity.
Qed.

(** * From text to plan, with the expansion passes as a parameter *)
Definition inert (expand : list token -> list token) (cmd : str) : Prop :=
  forall l, forallb quoted_tok l = true -> expand ((TNone, cmd) :: l) = (TNone, cmd) :: l.

Lemma quoted_tok_of_qarg (args : list (nat * qarg)) :
  forallb quoted_tok (map (fun '(_, a) => tok_of_qarg a) args) = true.
Proof.
  induction args as [|[n a] args IH]; [reflexivity|]. cbn [map forallb]. rewrite IH.
  destruct a; reflexivity.
Qed.

Theorem plan_line_quoted (expand : list token -> list token) cmd args :
  plain_word cmd = true -> forallb arith_body cmd = false -> split_env cmd = None ->
  forallb (fun '(_, a) => wf_qarg a) args = true -> inert expand cmd ->
  plan_tokens (expand (parse_line (render_cmd cmd args))) =
  inl (mkcl [mkc ((TNone, cmd) :: map (fun '(_, a) => tok_of_qarg a) args) [] None] [] false).
Proof.
  intros Hp Ha He Hw Hin. rewrite parse_line_quoted by assumption.
  rewrite Hin by apply quoted_tok_of_qarg.
  apply plan_quoted; [now apply plain_word_cmd_ok|apply quoted_tok_of_qarg].
Qed.
