(** The three matchers of [Calc.is_arithmetic] (C19's classify) ARE the three regexes of tools::is_arithmetic:
    each equals [rx_search] of the AST regenerated from tools.rs on every run (Gen/ToolsRegexes.v). Round 9 (regexgen). *)
From Coq Require Import List NArith Bool Lia.
From Cicada Require Import Base.Chars Base.Regex Gen.ToolsRegexes Model.Calc Proofs.RegexCalc Proofs.RegexClasses.
Import ListNotations.
Local Open Scope N_scope.

Theorem re1_is_source_regex l : re1_search l = rx_search rx_arith_digit l.
Proof.
  unfold rx_arith_digit. rewrite rc_search_plus_Chr.
  induction l as [|c r IH]; [reflexivity|]. cbn [re1_search existsb]. rewrite <- IH, cls_digit.
  destruct (is_digit c); reflexivity.
Qed.

Theorem re2_is_source_regex l : re2_search l = rx_search rx_arith_op l.
Proof.
  unfold rx_arith_op. rewrite !rc_search_Alt, !rc_search_Chr.
  induction l as [|c r IH]; [reflexivity|]. cbn [re2_search existsb]. rewrite IH, !in_cs_one.
  unfold is_op_char.
  destruct (c =? 43), (c =? 45), (c =? 42), (c =? 47), (c =? 94); cbn [orb]; rewrite ?orb_true_r; reflexivity.
Qed.

Lemma cls_set_a c :
  in_cs false [(32, 32); (48, 57); (46, 46); (40, 40); (41, 41); (43, 43); (45, 45); (42, 42); (47, 47); (94, 94)] c = in_set_a c.
Proof.
  rewrite in_cs_pos. cbn [existsb fst snd]. rewrite !leb_leb_eq, orb_false_r.
  unfold in_set_a, is_op_char, is_digit. rewrite !orb_assoc. reflexivity.
Qed.
Lemma cls_set_b c : in_cs false [(46, 46); (48, 57); (32, 32); (41, 41)] c = in_set_b c.
Proof.
  rewrite in_cs_pos. cbn [existsb fst snd]. rewrite !leb_leb_eq, orb_false_r.
  unfold in_set_b, is_digit. rewrite !orb_assoc. reflexivity.
Qed.

Lemma re3_tail_is_regex l :
  re3_tail l =
  matchb (Cat (Star (Chr false [(32, 32); (48, 57); (46, 46); (40, 40); (41, 41); (43, 43); (45, 45); (42, 42); (47, 47); (94, 94)]))
              (Chr false [(46, 46); (48, 57); (32, 32); (41, 41)])) l.
Proof.
  induction l as [|c r IH]; [reflexivity|].
  rewrite rc_Cat_Star_Chr, rc_Chr, <- IH, cls_set_a. cbn [re3_tail].
  destruct r as [|d r']; [rewrite cls_set_b; cbn [is_empty]; rewrite andb_true_r; reflexivity|]. cbn [is_empty]. rewrite andb_false_r. reflexivity.
Qed.

Theorem re3_is_source_regex l : re3_match l = rx_search rx_arith_shape l.
Proof.
  unfold rx_arith_shape. rewrite rc_anchored, rc_Cat_assoc, rc_Cat_Chr.
  destruct l as [|c r]; [reflexivity|]. cbn [re3_match]. rewrite re3_tail_is_regex, cls_set_a. reflexivity.
Qed.

(** the whole of tools::is_arithmetic as the source writes it *)
Theorem is_arithmetic_is_source_regex l :
  is_arithmetic l =
  if negb (rx_search rx_arith_digit l) then false
  else if negb (rx_search rx_arith_op l) then false
  else rx_search rx_arith_shape l.
Proof. unfold is_arithmetic. rewrite re1_is_source_regex, re2_is_source_regex, re3_is_source_regex. reflexivity. Qed.
