(** The rule [num] of the GENERATED calculator grammar (Gen/CalcGrammar.v), run
    through the generic pest interpreter (Base/Peg.v), computes exactly the hand
    parser [p_num] of Model/Calc.v, for every input and every sufficient fuel. *)
From Coq Require Import Lia Arith.
From Cicada Require Import Base.Chars Base.Peg Gen.CalcGrammar Model.Calc
  Proofs.PegProofs Proofs.CalcFuel.
Local Open Scope N_scope.

Notation DG := (PRange 48 57).
Notation kev := (ev k_grammar).
Notation sign_e := (POpt (PAlt (PStr [43]) (PStr [45]))).
Notation digits1_e := (PSeq DG (PRep DG)).
Notation frac_e := (POpt (PSeq (PStr [46]) (PRep DG))).
Notation expo_e := (POpt (PSeq (PIns [101]) (PRef 2))).

(* ------------------------------------------------------------------ *)
(** * One-step equations of the interpreter *)

Lemma ev_S_alt f a b at_ pos rest :
  kev (S f) (PAlt a b) at_ pos rest =
  match kev f a at_ pos rest with
  | Peg.PFail => kev f b at_ pos rest
  | x => x
  end.
Proof. reflexivity. Qed.

Lemma ev_S_opt f a at_ pos rest :
  kev (S f) (POpt a) at_ pos rest =
  match kev f a at_ pos rest with
  | Peg.PFail => Peg.POk pos rest []
  | x => x
  end.
Proof. reflexivity. Qed.

Lemma ev_S_str f s at_ pos rest :
  kev (S f) (PStr s) at_ pos rest =
  match strip_prefix s rest with
  | Some r' => Peg.POk (pos + length s) r' []
  | None => Peg.PFail
  end.
Proof. reflexivity. Qed.

Lemma ev_S_ins f s at_ pos rest :
  kev (S f) (PIns s) at_ pos rest =
  match strip_prefix_ci s rest with
  | Some r' => Peg.POk (pos + length s) r' []
  | None => Peg.PFail
  end.
Proof. reflexivity. Qed.

Lemma ev_S_digit f at_ pos s :
  kev (S f) DG at_ pos s =
  match s with
  | c :: r => if is_digit c then Peg.POk (S pos) r [] else Peg.PFail
  | [] => Peg.PFail
  end.
Proof. reflexivity. Qed.

Lemma ev_S_rep f a at_ pos rest :
  kev (S f) (PRep a) at_ pos rest =
  match kev f a at_ pos rest with
  | Peg.POk p1 r1 k1 =>
      match kev f (PRepTail a) at_ p1 r1 with
      | Peg.POk p2 r2 k2 => Peg.POk p2 r2 (k1 ++ k2)
      | x => x
      end
  | Peg.PFail => Peg.POk pos rest []
  | Peg.PFuel => Peg.PFuel
  end.
Proof. reflexivity. Qed.

(** under Atomic the implicit skip is the identity *)
Lemma ev_SS_reptail_at f a pos rest :
  kev (S (S f)) (PRepTail a) AtAtomic pos rest =
  match kev (S f) a AtAtomic pos rest with
  | Peg.POk p2 r2 k2 =>
      if Nat.eqb p2 pos then Peg.PFuel
      else match kev (S f) (PRepTail a) AtAtomic p2 r2 with
           | Peg.POk p3 r3 k3 => Peg.POk p3 r3 (k2 ++ k3)
           | x => x
           end
  | Peg.PFail => Peg.POk pos rest []
  | Peg.PFuel => Peg.PFuel
  end.
Proof. reflexivity. Qed.

Lemma ev_SS_seq_at f a b pos rest :
  kev (S (S f)) (PSeq a b) AtAtomic pos rest =
  match kev (S f) a AtAtomic pos rest with
  | Peg.POk p1 r1 k1 =>
      match kev (S f) b AtAtomic p1 r1 with
      | Peg.POk p3 r3 k3 => Peg.POk p3 r3 (k1 ++ k3)
      | x => x
      end
  | x => x
  end.
Proof. reflexivity. Qed.

Lemma ev_S_ref2_at f pos s :
  kev (S f) (PRef 2) AtAtomic pos s =
  match kev f (PSeq sign_e digits1_e) AtAtomic pos s with
  | Peg.POk p r' _ => Peg.POk p r' []
  | x => x
  end.
Proof. reflexivity. Qed.

Lemma ev_S_ref1_non f pos s :
  kev (S f) (PRef 1) AtNon pos s =
  match kev f (PSeq (PRef 2) (PSeq frac_e expo_e)) AtAtomic pos s with
  | Peg.POk p r' _ => Peg.POk p r' [Peg.Node 1 pos p []]
  | x => x
  end.
Proof. reflexivity. Qed.

(* ------------------------------------------------------------------ *)
(** * ASCII_DIGIT* *)

Lemma reptail_digits : forall (s : str) (pos f : nat), (length s + 2 <= f)%nat ->
  kev f (PRepTail DG) AtAtomic pos s =
  let '(d, r) := take_digits s in Peg.POk (pos + length d) r [].
Proof.
  induction s as [|c s IH]; intros pos f H;
    (destruct f as [|[|f]]; [exfalso; cbn [length] in H; lia ..|]);
    rewrite ev_SS_reptail_at, ev_S_digit.
  - cbn. f_equal. lia.
  - cbn [take_digits]. destruct (is_digit c).
    + replace (Nat.eqb (S pos) pos) with false by (symmetry; apply Nat.eqb_neq; lia).
      rewrite IH by (cbn [length] in H; lia).
      destruct (take_digits s) as [d r]. cbn [app length]. f_equal. lia.
    + cbn. f_equal. lia.
Qed.

Lemma rep_digits : forall (s : str) (pos f : nat), (length s + 2 <= f)%nat ->
  kev f (PRep DG) AtAtomic pos s =
  let '(d, r) := take_digits s in Peg.POk (pos + length d) r [].
Proof.
  intros s pos f H. destruct f as [|[|f]]; [exfalso; lia ..|].
  rewrite ev_S_rep, ev_S_digit. destruct s as [|c s].
  - cbn. f_equal. lia.
  - cbn [take_digits]. destruct (is_digit c).
    + rewrite reptail_digits by (cbn [length] in H; lia).
      destruct (take_digits s) as [d r]. cbn [app length]. f_equal. lia.
    + cbn. f_equal. lia.
Qed.

(** ASCII_DIGIT+ *)
Lemma digits1_sim : forall (s : str) (pos f : nat), (length s + 1 <= f)%nat ->
  kev (S (S f)) digits1_e AtAtomic pos s =
  let '(d, r) := take_digits s in
  match d with
  | [] => Peg.PFail
  | _ => Peg.POk (pos + length d) r []
  end.
Proof.
  intros s pos f H. rewrite ev_SS_seq_at, ev_S_digit. destruct s as [|c s]; [reflexivity|].
  cbn [take_digits]. destruct (is_digit c); [|reflexivity].
  rewrite rep_digits by (cbn [length] in H; lia).
  destruct (take_digits s) as [d r]. cbn [app length]. f_equal. lia.
Qed.

(* ------------------------------------------------------------------ *)
(** * int *)

Lemma sign_sim f pos s :
  kev (S (S (S f))) sign_e AtAtomic pos s =
  match s with
  | c :: r => if (c =? 43) || (c =? 45) then Peg.POk (pos + 1) r [] else Peg.POk pos s []
  | [] => Peg.POk pos s []
  end.
Proof.
  rewrite ev_S_opt, ev_S_alt, !ev_S_str. destruct s as [|c r]; [reflexivity|].
  cbn [strip_prefix length]. rewrite (N.eqb_sym 43 c), (N.eqb_sym 45 c).
  destruct (c =? 43); [reflexivity|]. destruct (c =? 45); reflexivity.
Qed.

Lemma int_sim : forall (s : str) (pos f : nat), (length s + 10 <= f)%nat ->
  kev f (PRef 2) AtAtomic pos s =
  match p_int s with
  | Some (t, r) => Peg.POk (pos + length t) r []
  | None => Peg.PFail
  end.
Proof.
  intros s pos f H.
  assert (E : exists f', f = (6 + f')%nat /\ (length s + 4 <= f')%nat) by (exists (f - 6)%nat; lia).
  destruct E as (f' & -> & H'). cbn [Nat.add].
  rewrite ev_S_ref2_at, ev_SS_seq_at, sign_sim. unfold p_int.
  destruct s as [|c s0].
  - reflexivity.
  - destruct ((c =? 43) || (c =? 45)).
    + rewrite digits1_sim by (cbn [length] in H'; lia).
      destruct (take_digits s0) as [ds r]. destruct ds as [|d0 ds]; [reflexivity|].
      cbn [app length]. f_equal. lia.
    + rewrite digits1_sim by (cbn [length] in H'; lia).
      destruct (take_digits (c :: s0)) as [ds r]. destruct ds as [|d0 ds]; [reflexivity|].
      cbn [app length]. f_equal.
Qed.

(* ------------------------------------------------------------------ *)
(** * num *)

Lemma frac_sim : forall (s : str) (pos f : nat), (length s + 2 <= f)%nat ->
  kev (S (S (S f))) frac_e AtAtomic pos s =
  let '(t2, s2) := match s with
                   | c :: r => if c =? 46 then let '(ds, r') := take_digits r in (c :: ds, r')
                               else ([], s)
                   | [] => ([], s)
                   end in
  Peg.POk (pos + length t2) s2 [].
Proof.
  intros s pos f H. rewrite ev_S_opt, ev_SS_seq_at, ev_S_str. destruct s as [|c r].
  - cbn. f_equal. lia.
  - cbn [strip_prefix]. rewrite (N.eqb_sym 46 c). destruct (c =? 46).
    + rewrite rep_digits by (cbn [length] in H; lia).
      destruct (take_digits r) as [ds r']. cbn [app length]. f_equal. lia.
    + cbn. f_equal. lia.
Qed.

Lemma lower_e (y : char) : (ascii_lower 101 =? ascii_lower y) = (y =? 101) || (y =? 69).
Proof.
  change (ascii_lower 101) with 101. unfold ascii_lower.
  destruct (N.leb_spec 65 y), (N.leb_spec y 90); cbn [andb];
    destruct (N.eqb_spec y 101), (N.eqb_spec y 69); cbn [orb];
    try (apply N.eqb_eq; lia); apply N.eqb_neq; lia.
Qed.

Lemma expo_sim : forall (s : str) (pos f : nat), (length s + 10 <= f)%nat ->
  kev (S (S (S f))) expo_e AtAtomic pos s =
  let '(t3, s3) := match s with
                   | c :: r => if (c =? 101) || (c =? 69) then
                                 match p_int r with
                                 | Some (ti, r') => (c :: ti, r')
                                 | None => ([], s)
                                 end
                               else ([], s)
                   | [] => ([], s)
                   end in
  Peg.POk (pos + length t3) s3 [].
Proof.
  intros s pos f H. rewrite ev_S_opt, ev_SS_seq_at, ev_S_ins. destruct s as [|c r].
  - cbn. f_equal. lia.
  - cbn [strip_prefix_ci]. rewrite lower_e. destruct ((c =? 101) || (c =? 69)).
    + rewrite int_sim by (cbn [length] in H; lia).
      destruct (p_int r) as [[ti r']|].
      * cbn [app length]. f_equal. lia.
      * cbn. f_equal. lia.
    + cbn. f_equal. lia.
Qed.

Lemma num_sim : forall (s : str) (pos f : nat), (length s + 24 <= f)%nat ->
  ev k_grammar f (PRef 1) AtNon pos s =
  match p_num s with
  | Some (t, r) => Peg.POk (pos + length t) r [Peg.Node 1 pos (pos + length t) []]
  | None => Peg.PFail
  end.
Proof.
  intros s pos f H.
  assert (E : exists f', f = (6 + f')%nat /\ (length s + 18 <= f')%nat) by (exists (f - 6)%nat; lia).
  destruct E as (f' & -> & H'). cbn [Nat.add].
  rewrite ev_S_ref1_non, ev_SS_seq_at, int_sim by lia. unfold p_num.
  destruct (p_int s) as [[t1 s1]|] eqn:E1; [|reflexivity].
  apply p_int_len in E1.
  rewrite ev_SS_seq_at, frac_sim by lia.
  set (fr := match s1 with
             | c :: r => if c =? 46 then let '(ds, r') := take_digits r in (c :: ds, r')
                         else ([], s1)
             | [] => ([], s1)
             end).
  assert (Hfr : (length (snd fr) <= length s1)%nat).
  { subst fr. destruct s1 as [|c r]; [apply le_n|]. destruct (c =? 46); [|apply le_n].
    destruct (take_digits r) as [ds r'] eqn:Et. apply take_digits_len2 in Et.
    cbn [snd length]. lia. }
  destruct fr as [t2 s2]. cbn [snd] in Hfr.
  rewrite expo_sim by lia.
  match goal with |- context [let '(t3, s3) := ?x in _] => destruct x as [t3 s3] end.
  cbn [app]. rewrite !app_length.
  replace (pos + length t1 + length t2 + length t3)%nat
    with (pos + (length t1 + (length t2 + length t3)))%nat by lia.
  reflexivity.
Qed.

(* ------------------------------------------------------------------ *)
(** * the hand parser splits its input *)

Lemma take_digits_app : forall s d r, take_digits s = (d, r) -> s = d ++ r.
Proof.
  induction s as [|c s IH]; intros d r; cbn [take_digits].
  - intros H. injection H as <- <-. reflexivity.
  - destruct (is_digit c).
    + destruct (take_digits s) as [d' r'] eqn:E. intros H. injection H as <- <-.
      cbn [app]. f_equal. apply IH. reflexivity.
    + intros H. injection H as <- <-. reflexivity.
Qed.

Lemma p_int_app : forall s t r, p_int s = Some (t, r) -> s = t ++ r.
Proof.
  intros s t r. unfold p_int. destruct s as [|c s0].
  - cbn. discriminate.
  - destruct ((c =? 43) || (c =? 45)).
    + destruct (take_digits s0) as [ds s2] eqn:E. apply take_digits_app in E.
      destruct ds as [|d0 ds]; [discriminate|]. intros H. injection H as <- <-.
      cbn [app]. f_equal. exact E.
    + destruct (take_digits (c :: s0)) as [ds s2] eqn:E. apply take_digits_app in E.
      destruct ds as [|d0 ds]; [discriminate|]. intros H. injection H as <- <-. exact E.
Qed.

Lemma p_num_app : forall s t r, p_num s = Some (t, r) -> s = t ++ r.
Proof.
  intros s t r. unfold p_num. destruct (p_int s) as [[t1 s1]|] eqn:E1; [|discriminate].
  apply p_int_app in E1. subst s.
  set (fr := match s1 with
             | c :: r => if c =? 46 then let '(ds, r') := take_digits r in (c :: ds, r')
                         else ([], s1)
             | [] => ([], s1)
             end).
  assert (Hfr : s1 = fst fr ++ snd fr).
  { subst fr. destruct s1 as [|c r1]; [reflexivity|]. destruct (c =? 46); [|reflexivity].
    destruct (take_digits r1) as [ds r'] eqn:Et. apply take_digits_app in Et.
    cbn [fst snd app]. f_equal. exact Et. }
  destruct fr as [t2 s2]. cbn [fst snd] in Hfr. subst s1.
  set (ex := match s2 with
             | c :: r => if (c =? 101) || (c =? 69) then
                           match p_int r with
                           | Some (ti, r') => (c :: ti, r')
                           | None => ([], s2)
                           end
                         else ([], s2)
             | [] => ([], s2)
             end).
  assert (Hex : s2 = fst ex ++ snd ex).
  { subst ex. destruct s2 as [|c r2]; [reflexivity|]. destruct ((c =? 101) || (c =? 69)); [|reflexivity].
    destruct (p_int r2) as [[ti r']|] eqn:Ei; [|reflexivity]. apply p_int_app in Ei.
    cbn [fst snd app]. f_equal. exact Ei. }
  destruct ex as [t3 s3]. cbn [fst snd] in Hex. subst s2.
  intros H. injection H as <- <-. rewrite <- !app_assoc. reflexivity.
Qed.
