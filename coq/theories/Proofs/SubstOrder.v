(** The pass ORDER of do_expansion: expand_glob runs BEFORE command substitution, so the output of
    a [$(cmd)] is never glob-expanded.  For EVERY world -- in particular every [glob] oracle -- the
    untagged word [$(c)] becomes exactly the trimmed output of [c], even when that output contains
    a star: the glob pass saw the word before the substitution (no star in it: Skip), and the only
    pass after the substitution, expand_brace_range, needs an open brace. *)
From Coq Require Import List NArith ZArith Bool Lia.
From Cicada Require Import Base.Chars Base.Tag Base.Regex Gen.ShellRegexes Model.Expand Model.ExpandRef Proofs.ExpandBasics Proofs.EnvProofs
  Proofs.ExpandOnceProofs Proofs.SubstProofs Proofs.ExpandInert.
From Cicada Require Model.Tokenizer.
Import ListNotations.
From Coq Require String.
Import String.StringSyntax.
Local Open Scope N_scope.

(** the word: dollar, open paren, c, close paren *)
Definition dword (c : str) : str := 36 :: 40 :: c ++ [41].

Lemma dword_eq (c : str) : [36; 40] ++ c ++ [41] = dword c.
Proof. reflexivity. Qed.

Lemma dword_notin (x : N) (c : str) : x <> 36 -> x <> 40 -> x <> 41 -> ~ In x c -> ~ In x (dword c).
Proof.
  intros H36 H40 H41 Hc [X|[X|X]]; [congruence | congruence |].
  apply in_app_or in X as [X|[X|[]]]; [tauto | congruence].
Qed.

(* ------------------------------------------------------------------ 1: expand_alias *)
Lemma expand_alias_dword tokenize W cmd0 (c : str) :
  cmd_ok W cmd0 ->
  expand_alias tokenize W [(TNone, cmd0); (TNone, dword c)] = [(TNone, cmd0); (TNone, dword c)].
Proof.
  intros [Ha (Hx & _ & Hp) _ _]. unfold expand_alias.
  cbn [alias_collect tag_is_empty tag_eqb andb].
  rewrite (proj2 (str_eqb_neq _ _) Hp), (proj2 (str_eqb_neq _ _) Hx), Ha.
  assert (E : str_eqb (dword c) [124] = false).
  { apply str_eqb_neq. unfold dword. discriminate. }
  rewrite E. reflexivity.
Qed.

(* ------------------------------------------------------------------ 2: expand_home *)
Lemma expand_home_dword W (cmd0 c : str) :
  ~ In 126 cmd0 ->
  expand_home W [(TNone, cmd0); (TNone, dword c)] = [(TNone, cmd0); (TNone, dword c)].
Proof.
  intros Hc. rewrite expand_home_map. cbn [map]. unfold expand_home_tok.
  cbn [fst snd tag_is_empty tag_eqb]. rewrite (strip_prefix_absent 126 cmd0 Hc). reflexivity.
Qed.

(* ------------------------------------------------------------------ 3: expand_env *)
Lemma once_go_clean W (s : str) : ~ In 36 s -> once_go W 0 s = s.
Proof.
  induction s as [|x s IH]; intros H; [reflexivity|].
  rewrite once_go_lit.
  - rewrite IH by (intros X; apply H; right; exact X). reflexivity.
  - apply N.eqb_neq. intros X. apply H. left. exact X.
Qed.

Lemma env_ref_at_paren (r : str) : env_ref_at (40 :: r) = None.
Proof. reflexivity. Qed.

(** the only dollar of the word is followed by an open paren: it is no reference *)
Lemma expand_env_once_dword W (c : str) : ~ In 36 c -> expand_env_once W (dword c) = dword c.
Proof.
  intros H. unfold expand_env_once, dword. rewrite once_go_dollar, env_ref_at_paren.
  rewrite once_go_clean; [reflexivity|].
  intros [X|X]; [discriminate|]. apply in_app_or in X as [X|[X|[]]]; [tauto | discriminate].
Qed.

Lemma expand_env_tok_dword W (c : str) : ~ In 36 c -> expand_env_tok W (TNone, dword c) = (TNone, dword c).
Proof.
  intros H. unfold expand_env_tok. cbn [fst snd]. rewrite (expand_env_once_dword W c H).
  destruct (env_in_tagged_token (dword c) _); reflexivity.
Qed.

Lemma expand_env_dword W (cmd0 c : str) :
  ~ In 36 cmd0 -> ~ In 36 c ->
  expand_env W [(TNone, cmd0); (TNone, dword c)] = [(TNone, cmd0); (TNone, dword c)].
Proof.
  intros H0 Hc. rewrite expand_env_map. cbn [map]. rewrite (expand_env_tok_dword W c Hc).
  unfold expand_env_tok. cbn [fst snd]. rewrite (tagged_gate_no_dollar cmd0 _ H0). reflexivity.
Qed.

(* ------------------------------------------------------------------ 4: brace and glob see the word BEFORE the substitution *)
Lemma dword_still (c : str) : ~ In 42 c -> ~ In 123 c -> still (TNone, dword c).
Proof.
  intros H42 H123. right. cbn [snd]. split; apply dword_notin; try assumption; discriminate.
Qed.

(* ------------------------------------------------------------------ 5: command substitution *)
Lemma subst_dot_dword W (cmd0 c : str) :
  ~ In 96 cmd0 -> ~ In 96 c ->
  subst_dot W [(TNone, cmd0); (TNone, dword c)] [] = Ok ([(TNone, cmd0); (TNone, dword c)], []).
Proof.
  intros H0 Hc. unfold subst_dot. cbn [dot_collect].
  rewrite (dot_split_none cmd0 H0).
  rewrite (dot_split_none (dword c)) by (apply dword_notin; try assumption; discriminate).
  reflexivity.
Qed.

Lemma should_do_dword (c : str) :
  c <> [] -> ~ In 41 c -> (~ In 61 c \/ ~ In 39 c) -> should_do_dollar (dword c) = true.
Proof.
  intros Hne H41 Hx.
  apply (should_do_true [] c [] Hne H41).
  cbn [app]. fold (dword c).
  destruct Hx as [Hx|Hx]; [left | right]; apply dword_notin; try assumption; discriminate.
Qed.

Lemma dollar_loop_dword W (c : str) f :
  c <> [] -> ~ In 41 c -> ~ In 10 c -> (~ In 61 c \/ ~ In 39 c) ->
  has_dollar_paren (trim (oracle_out W c)) = false ->
  dollar_loop (S (S f)) W (dword c) [] = Ok (Some (trim (oracle_out W c)), [c]).
Proof.
  intros Hne H41 H10 Hx Ho.
  assert (G : dollar_loop (S (S f)) W ([] ++ [36; 40] ++ c ++ [41] ++ []) []
              = Ok (Some ([] ++ trim (oracle_out W c) ++ []), [c])).
  { apply dollar_loop_splices; try assumption; try (intros []).
    - cbn [app]. fold (dword c).
      destruct Hx as [Hx|Hx]; [left | right]; apply dword_notin; try assumption; discriminate.
    - cbn [app]. rewrite app_nil_r. exact Ho. }
  cbn [app] in G. rewrite app_nil_r in G. exact G.
Qed.

Lemma subst_dollar_dword W (cmd0 c : str) f :
  ~ In 36 cmd0 ->
  c <> [] -> ~ In 41 c -> ~ In 10 c -> (~ In 61 c \/ ~ In 39 c) ->
  has_dollar_paren (trim (oracle_out W c)) = false ->
  subst_dollar (S (S f)) W [(TNone, cmd0); (TNone, dword c)] []
  = Ok ([(TNone, cmd0); (TNone, trim (oracle_out W c))], [c]).
Proof.
  intros H0 Hne H41 H10 Hx Ho. rewrite subst_dollar_eq.
  cbn [dollar_pass tag_eqb orb].
  rewrite (should_do_dollar_false cmd0 H0). cbn [negb].
  rewrite (should_do_dword c Hne H41 Hx). cbn [negb].
  rewrite (dollar_loop_dword W c f Hne H41 H10 Hx Ho).
  reflexivity.
Qed.

(* ------------------------------------------------------------------ 6: expand_brace_range on the result *)
Lemma range_sel_no_brace (t : token) : ~ In 123 (snd t) -> range_sel t = Ok Skip.
Proof.
  intros H123. unfold range_sel.
  destruct (rx_search rx_brace_range (snd t)) eqn:E.
  - exfalso. apply H123. apply (rx_search_requires 123 rx_brace_range); [reflexivity | exact E].
  - cbn [negb]. rewrite orb_true_r. reflexivity.
Qed.

Lemma expand_brace_range_no_brace toks :
  Forall (fun t : token => ~ In 123 (snd t)) toks -> expand_brace_range toks = Ok toks.
Proof.
  intros H. apply run_pass_skip. intros t Ht. apply range_sel_no_brace.
  rewrite Forall_forall in H. apply H. exact Ht.
Qed.

(* ------------------------------------------------------------------ assembly *)
Theorem output_not_globbed : forall W f cmd0 c,
  cmd_ok W cmd0 ->
  c <> [] -> ~ In 36 c -> ~ In 123 c -> ~ In 42 c -> ~ In 96 c -> ~ In 41 c -> ~ In 10 c -> ~ In 126 c ->
  (~ In 61 c \/ ~ In 39 c) ->
  has_dollar_paren (trim (oracle_out W c)) = false -> ~ In 123 (trim (oracle_out W c)) ->
  do_expansion Tokenizer.parse_line W (S (S f)) [(TNone, cmd0); (TNone, [36; 40] ++ c ++ [41])]
  = Ok [(TNone, cmd0); (TNone, trim (oracle_out W c))].
Proof.
  intros W f cmd0 c Hc Hne H36 H123 H42 H96 H41 H10 H126 Hx Hdp Ho123.
  rewrite dword_eq.
  assert (Hstill : Forall still [(TNone, cmd0); (TNone, dword c)]).
  { constructor; [eapply cmd_still; eassumption|]. constructor; [|constructor].
    apply dword_still; assumption. }
  destruct Hc as [Ha Hn (C36 & C96 & C126 & C42 & C123) Hw] eqn:EHc. clear EHc.
  unfold do_expansion, do_expansion_log.
  rewrite (not_arithmetic W cmd0 _ Hc), (not_export_prompt W cmd0 _ Hc).
  cbn zeta.
  rewrite (expand_alias_dword _ W cmd0 c Hc).
  rewrite (expand_home_dword W cmd0 c C126).
  rewrite (expand_env_dword W cmd0 c C36 H36).
  rewrite (expand_brace_still _ Hstill). cbn [bind].
  rewrite (expand_glob_still W _ Hstill). cbn [bind].
  unfold do_command_substitution.
  rewrite (subst_dot_dword W cmd0 c C96 H96). cbn [bind fst snd].
  rewrite (subst_dollar_dword W cmd0 c f C36 Hne H41 H10 Hx Hdp). cbn [bind fst snd].
  rewrite expand_brace_range_no_brace; [reflexivity|].
  constructor; [exact C123|]. constructor; [exact Ho123 | constructor].
Qed.

(* ------------------------------------------------------------------ regression *)
(** the glob oracle would match everything and the runner prints a star pattern for every line:
    the output of [$(x)] stays the text it is *)
Definition W_star : World :=
  mkWorld (fun _ => None) (fun _ => None) 0%Z 1%Z (s2l "/h")
          (fun _ => Some [s2l "a.txt"; s2l "b.txt"]) (fun _ => Some (s2l "*.txt")) (fun _ => None).

Example output_star_stays :
  do_expansion Tokenizer.parse_line W_star 4 [(TNone, s2l "echo"); (TNone, s2l "$(x)")]
  = Ok [(TNone, s2l "echo"); (TNone, s2l "*.txt")].
Proof. vm_compute. reflexivity. Qed.

(** the same through the theorem: its hypotheses are satisfiable with a starred output *)
Lemma notin_dec (x : N) (s : str) : negb (existsb (N.eqb x) s) = true -> ~ In x s.
Proof.
  intros H X. apply negb_true_iff in H.
  assert (T : existsb (N.eqb x) s = true) by (apply existsb_exists; exists x; split; [exact X | apply N.eqb_refl]).
  congruence.
Qed.

Lemma cmd_ok_echo : cmd_ok W_star (s2l "echo").
Proof.
  constructor.
  - reflexivity.
  - repeat split; discriminate.
  - repeat split; apply notin_dec; reflexivity.
  - exists 101. split; [left; reflexivity | reflexivity].
Qed.

Example output_star_by_theorem : forall f,
  do_expansion Tokenizer.parse_line W_star (S (S f)) [(TNone, s2l "echo"); (TNone, s2l "$(x)")]
  = Ok [(TNone, s2l "echo"); (TNone, s2l "*.txt")].
Proof.
  intros f.
  change (s2l "$(x)") with ([36; 40] ++ [120] ++ [41]).
  change (s2l "*.txt") with (trim (oracle_out W_star [120])).
  apply output_not_globbed; try (apply notin_dec; reflexivity).
  - exact cmd_ok_echo.
  - discriminate.
  - left. apply notin_dec. reflexivity.
  - reflexivity.
Qed.

Print Assumptions output_not_globbed.
Print Assumptions output_star_by_theorem.
Print Assumptions output_star_stays.

(* ================================================================== the assignment word NAME=$(c) *)
(** [X=$(cmd)] alone on a command line is ONE untagged token; it is expanded with exactly one
    consultation of the runner *)
Definition aword (name c : str) : str := name ++ 61 :: 36 :: 40 :: c ++ [41].

Lemma name_chars (name : str) (c0 : N) : is_name name = true -> is_alnum_us c0 = false -> ~ In c0 name.
Proof.
  intros Hn Hc Hin. pose proof (name_all_alnum name Hn) as H.
  rewrite forallb_forall in H. apply H in Hin. congruence.
Qed.

Lemma aword_split (name c : str) : aword name c = (name ++ [61]) ++ dword c.
Proof. unfold aword, dword. rewrite <- app_assoc. reflexivity. Qed.

Lemma aword_notin (x : N) (name c : str) :
  is_name name = true -> is_alnum_us x = false ->
  x <> 61 -> x <> 36 -> x <> 40 -> x <> 41 -> ~ In x c -> ~ In x (aword name c).
Proof.
  intros Hn Hx H61 H36 H40 H41 Hc. rewrite aword_split. intros X.
  apply in_app_or in X as [X|X].
  - apply in_app_or in X as [X|[X|[]]]; [exact (name_chars name x Hn Hx X) | congruence].
  - revert X. apply dword_notin; assumption.
Qed.

Lemma in61_aword (name c : str) : In 61 (aword name c).
Proof. unfold aword. apply in_or_app. right. left. reflexivity. Qed.

Lemma name_start_not_arith (n0 : N) : is_name_start n0 = true -> arith_char n0 = false.
Proof.
  intros H. destruct (arith_char n0) eqn:E; [exfalso | reflexivity].
  unfold is_name_start, is_alpha in H. unfold arith_char, is_digit in E.
  rewrite !orb_true_iff, !andb_true_iff, !N.leb_le, !N.eqb_eq in H.
  rewrite !orb_true_iff, !andb_true_iff, !N.leb_le, !N.eqb_eq in E. lia.
Qed.

(* ---- 0: the early returns *)
Lemma aword_not_arithmetic (name c : str) :
  is_name name = true -> is_arithmetic (tokens_to_line [(TNone, aword name c)]) = false.
Proof.
  intros Hn. destruct name as [|n0 nr]; [discriminate|].
  cbn [is_name] in Hn. apply andb_true_iff in Hn as [Hs _].
  apply (is_arithmetic_false _ n0); [|apply name_start_not_arith; exact Hs].
  apply line_has_cmd.
  - intros ->. vm_compute in Hs. discriminate.
  - left. reflexivity.
Qed.

(* ---- 1: expand_alias *)
Lemma expand_alias_aword tokenize W (name c : str) :
  aliases W (aword name c) = None ->
  expand_alias tokenize W [(TNone, aword name c)] = [(TNone, aword name c)].
Proof.
  intros Ha. unfold expand_alias. cbn [alias_collect tag_is_empty tag_eqb andb].
  assert (E1 : str_eqb (aword name c) [124] = false).
  { apply str_eqb_neq. intros E. pose proof (in61_aword name c) as X. rewrite E in X.
    destruct X as [X|[]]. discriminate. }
  assert (E2 : str_eqb (aword name c) (s2l "xargs") = false).
  { apply str_eqb_neq. intros E. pose proof (in61_aword name c) as X. rewrite E in X.
    revert X. apply notin_dec. reflexivity. }
  rewrite E1, E2, Ha. reflexivity.
Qed.

(* ---- 2: expand_home *)
Lemma expand_home_aword W (name c : str) :
  is_name name = true -> ~ In 126 c ->
  expand_home W [(TNone, aword name c)] = [(TNone, aword name c)].
Proof.
  intros Hn Hc. rewrite expand_home_map. cbn [map]. unfold expand_home_tok.
  cbn [fst snd tag_is_empty tag_eqb].
  rewrite (strip_prefix_absent 126 (aword name c)); [reflexivity|].
  apply aword_notin; try assumption; try discriminate. reflexivity.
Qed.

(* ---- 3: expand_env: the only dollar of the word is followed by an open paren *)
Lemma expand_env_once_pre_dword W (p c : str) :
  ~ In 36 p -> ~ In 36 c -> expand_env_once W (p ++ dword c) = p ++ dword c.
Proof.
  intros Hp Hc. induction p as [|x p IH].
  - apply expand_env_once_dword. exact Hc.
  - unfold expand_env_once in *. cbn [app]. rewrite once_go_lit.
    + rewrite IH by (intros X; apply Hp; right; exact X). reflexivity.
    + apply N.eqb_neq. intros X. apply Hp. left. exact X.
Qed.

Lemma expand_env_aword W (name c : str) :
  is_name name = true -> ~ In 36 c ->
  expand_env W [(TNone, aword name c)] = [(TNone, aword name c)].
Proof.
  intros Hn Hc. rewrite expand_env_map. cbn [map]. unfold expand_env_tok. cbn [fst snd].
  assert (E : expand_env_once W (aword name c) = aword name c).
  { rewrite aword_split. apply expand_env_once_pre_dword; [|exact Hc].
    intros X. apply in_app_or in X as [X|[X|[]]]; [|discriminate].
    revert X. apply name_chars; [exact Hn | reflexivity]. }
  rewrite E. destruct (env_in_tagged_token (aword name c) _); reflexivity.
Qed.

(* ---- 4: brace and glob *)
Lemma aword_still (name c : str) :
  is_name name = true -> ~ In 42 c -> ~ In 123 c -> still (TNone, aword name c).
Proof.
  intros Hn H42 H123. right. cbn [snd].
  split; apply aword_notin; try assumption; try discriminate; reflexivity.
Qed.

(* ---- 5: command substitution *)
Lemma subst_dot_aword W (name c : str) :
  is_name name = true -> ~ In 96 c ->
  subst_dot W [(TNone, aword name c)] [] = Ok ([(TNone, aword name c)], []).
Proof.
  intros Hn Hc. unfold subst_dot. cbn [dot_collect].
  rewrite (dot_split_none (aword name c)); [reflexivity|].
  apply aword_notin; try assumption; try discriminate. reflexivity.
Qed.

Lemma has_dollar_paren_pre (a b : str) : ~ In 36 a -> has_dollar_paren (a ++ b) = has_dollar_paren b.
Proof.
  induction a as [|x a IH]; intros Ha; [reflexivity|].
  cbn [app]. assert (Ha' : ~ In 36 a) by (intros X; apply Ha; right; exact X).
  specialize (IH Ha'). destruct (a ++ b) as [|y l] eqn:E.
  - apply app_eq_nil in E as [_ ->]. reflexivity.
  - rewrite has_dollar_paren_cons2.
    assert (Ex : (x =? 36) = false) by (apply N.eqb_neq; intros X; apply Ha; left; exact X).
    rewrite Ex. cbn [andb orb]. exact IH.
Qed.

Lemma name_eq_no36 (name : str) : is_name name = true -> ~ In 36 (name ++ [61]).
Proof.
  intros Hn X. apply in_app_or in X as [X|[X|[]]]; [|discriminate].
  revert X. apply name_chars; [exact Hn | reflexivity].
Qed.

Lemma aword_line (name c : str) : aword name c = (name ++ [61]) ++ [36; 40] ++ c ++ [41] ++ [] ++ [].
Proof. unfold aword. rewrite <- app_assoc. reflexivity. Qed.

Lemma aword_no39 (name c : str) : is_name name = true -> ~ In 39 c -> ~ In 39 (aword name c).
Proof. intros Hn Hc. apply aword_notin; try assumption; try discriminate. reflexivity. Qed.

Lemma aword_line3 (name c : str) : aword name c = (name ++ [61]) ++ [36; 40] ++ c ++ [41] ++ [].
Proof. unfold aword. rewrite <- app_assoc. reflexivity. Qed.

Lemma should_do_aword (name c : str) :
  is_name name = true -> c <> [] -> ~ In 41 c -> ~ In 39 c -> should_do_dollar (aword name c) = true.
Proof.
  intros Hn Hne H41 H39. rewrite (aword_line3 name c).
  apply should_do_true; [exact Hne | exact H41 |].
  right. intros X. apply (aword_no39 name c Hn H39). rewrite (aword_line3 name c). exact X.
Qed.

Lemma dollar_loop_aword W (name c : str) f :
  is_name name = true -> c <> [] -> ~ In 41 c -> ~ In 10 c -> ~ In 39 c ->
  has_dollar_paren (trim (oracle_out W c)) = false ->
  dollar_loop (S (S f)) W (aword name c) [] = Ok (Some (name ++ 61 :: trim (oracle_out W c)), [c]).
Proof.
  intros Hn Hne H41 H10 H39 Ho. rewrite (aword_line name c).
  etransitivity.
  - apply dollar_loop_splices_gen; try assumption; try (intros []).
    + apply has_dollar_paren_no_dollar. apply name_eq_no36. exact Hn.
    + left. reflexivity.
    + right. intros X. apply (aword_no39 name c Hn H39). rewrite (aword_line name c). exact X.
    + cbn [app]. rewrite app_nil_r.
      rewrite has_dollar_paren_pre; [exact Ho | apply name_eq_no36; exact Hn].
  - rewrite <- app_assoc. cbn [app]. rewrite app_nil_r. reflexivity.
Qed.

Lemma subst_dollar_aword W (name c : str) f :
  is_name name = true -> c <> [] -> ~ In 41 c -> ~ In 10 c -> ~ In 39 c ->
  has_dollar_paren (trim (oracle_out W c)) = false ->
  subst_dollar (S (S f)) W [(TNone, aword name c)] []
  = Ok ([(TNone, name ++ 61 :: trim (oracle_out W c))], [c]).
Proof.
  intros Hn Hne H41 H10 H39 Ho. rewrite subst_dollar_eq.
  cbn [dollar_pass tag_eqb orb].
  rewrite (should_do_aword name c Hn Hne H41 H39). cbn [negb].
  rewrite (dollar_loop_aword W name c f Hn Hne H41 H10 H39 Ho).
  reflexivity.
Qed.

(* ---- assembly *)
Theorem assignment_substituted_once : forall W f name c,
  is_name name = true ->
  aliases W (aword name c) = None ->
  c <> [] -> ~ In 36 c -> ~ In 123 c -> ~ In 42 c -> ~ In 96 c -> ~ In 41 c -> ~ In 10 c -> ~ In 126 c -> ~ In 39 c ->
  has_dollar_paren (trim (oracle_out W c)) = false -> ~ In 123 (trim (oracle_out W c)) ->
  do_expansion_log Tokenizer.parse_line W (S (S f)) [(TNone, aword name c)]
  = Ok ([(TNone, name ++ 61 :: trim (oracle_out W c))], [c]).
Proof.
  intros W f name c Hn Ha Hne H36 H123 H42 H96 H41 H10 H126 H39 Hdp Ho123.
  assert (Hstill : Forall still [(TNone, aword name c)]).
  { constructor; [|constructor]. apply aword_still; assumption. }
  unfold do_expansion_log.
  rewrite (aword_not_arithmetic name c Hn).
  change (is_export_prompt [(TNone, aword name c)]) with false.
  cbn zeta.
  rewrite (expand_alias_aword _ W name c Ha).
  rewrite (expand_home_aword W name c Hn H126).
  rewrite (expand_env_aword W name c Hn H36).
  rewrite (expand_brace_still _ Hstill). cbn [bind].
  rewrite (expand_glob_still W _ Hstill). cbn [bind].
  unfold do_command_substitution.
  rewrite (subst_dot_aword W name c Hn H96). cbn [bind fst snd].
  rewrite (subst_dollar_aword W name c f Hn Hne H41 H10 H39 Hdp). cbn [bind fst snd].
  rewrite expand_brace_range_no_brace; [reflexivity|].
  constructor; [|constructor]. cbn [snd].
  intros X. apply in_app_or in X as [X|[X|X]]; [|discriminate|exact (Ho123 X)].
  revert X. apply name_chars; [exact Hn | reflexivity].
Qed.

(** non-vacuity: [X=$(x)] alone, and after another assignment; the runner is consulted once, with [x] *)
Definition W_out : World :=
  mkWorld (fun _ => None) (fun _ => None) 0%Z 1%Z (s2l "/h") (fun _ => Some [])
          (fun l => if str_eqb l (s2l "x") then Some (s2l "out") else None) (fun _ => None).

Example assignment_examples :
  do_expansion_log Tokenizer.parse_line W_out 4 [(TNone, s2l "X=$(x)")] = Ok ([(TNone, s2l "X=out")], [s2l "x"])
  /\ do_expansion_log Tokenizer.parse_line W_out 4 [(TNone, s2l "Y=7"); (TNone, s2l "X=$(x)")]
     = Ok ([(TNone, s2l "Y=7"); (TNone, s2l "X=out")], [s2l "x"]).
Proof. split; vm_compute; reflexivity. Qed.

(** the same through the theorem: its hypotheses are satisfiable *)
Example assignment_by_theorem : forall f,
  do_expansion_log Tokenizer.parse_line W_out (S (S f)) [(TNone, s2l "X=$(x)")]
  = Ok ([(TNone, s2l "X=out")], [s2l "x"]).
Proof.
  intros f.
  change (s2l "X=$(x)") with (aword [88] [120]).
  change (s2l "X=out") with ([88] ++ 61 :: trim (oracle_out W_out [120])).
  apply assignment_substituted_once; try (apply notin_dec; reflexivity); try reflexivity.
  discriminate.
Qed.

Print Assumptions assignment_substituted_once.
Print Assumptions assignment_examples.
Print Assumptions assignment_by_theorem.
