(** The pass ORDER of do_expansion: expand_glob runs BEFORE command substitution, so the output of
    a [$(cmd)] is never glob-expanded.  For EVERY world -- in particular every [glob] oracle -- the
    untagged word [$(c)] becomes exactly the trimmed output of [c], even when that output contains
    a star: the glob pass saw the word before the substitution (no star in it: Skip), and the only
    pass after the substitution, expand_brace_range, needs an open brace. *)
From Coq Require Import List NArith ZArith Bool Lia.
From Cicada Require Import Base.Chars Base.Tag Base.Regex Gen.ShellRegexes Model.Expand Model.ExpandRef Proofs.ExpandBasics Proofs.EnvProofs
  Proofs.ExpandOnceProofs Proofs.SubstProofs Proofs.ExpandInert.
From Cicada Require Model.Tokenizer.
Import ListNotations.
From Coq Require String.
Import String.StringSyntax.
Local Open Scope N_scope.

(** the word: dollar, open paren, c, close paren *)
Definition dword (c : str) : str := 36 :: 40 :: c ++ [41].

Lemma dword_eq (c : str) : [36; 40] ++ c ++ [41] = dword c.
Proof. reflexivity. Qed.

Lemma dword_notin (x : N) (c : str) : x <> 36 -> x <> 40 -> x <> 41 -> ~ In x c -> ~ In x (dword c).
Proof.
  intros H36 H40 H41 Hc [X|[X|X]]; [congruence | congruence |].
  apply in_app_or in X as [X|[X|[]]]; [tauto | congruence].
Qed.

(* ------------------------------------------------------------------ 1: expand_alias *)
Lemma expand_alias_dword tokenize W cmd0 (c : str) :
  cmd_ok W cmd0 ->
  expand_alias tokenize W [(TNone, cmd0); (TNone, dword c)] = [(TNone, cmd0); (TNone, dword c)].
Proof.
  intros [Ha (Hx & _ & Hp) _ _]. unfold expand_alias.
  cbn [alias_collect tag_is_empty tag_eqb andb].
  rewrite (proj2 (str_eqb_neq _ _) Hp), (proj2 (str_eqb_neq _ _) Hx), Ha.
  assert (E : str_eqb (dword c) [124] = false).
  { apply str_eqb_neq. unfold dword. discriminate. }
  rewrite E. reflexivity.
Qed.

(* ------------------------------------------------------------------ 2: expand_home *)
Lemma expand_home_dword W (cmd0 c : str) :
  ~ In 126 cmd0 ->
  expand_home W [(TNone, cmd0); (TNone, dword c)] = [(TNone, cmd0); (TNone, dword c)].
Proof.
  intros Hc. rewrite expand_home_map. cbn [map]. unfold expand_home_tok.
  cbn [fst snd tag_is_empty tag_eqb]. rewrite (strip_prefix_absent 126 cmd0 Hc). reflexivity.
Qed.

(* ------------------------------------------------------------------ 3: expand_env *)
Lemma once_go_clean W (s : str) : ~ In 36 s -> once_go W 0 s = s.
Proof.
  induction s as [|x s IH]; intros H; [reflexivity|].
  rewrite once_go_lit.
  - rewrite IH by (intros X; apply H; right; exact X). reflexivity.
  - apply N.eqb_neq. intros X. apply H. left. exact X.
Qed.

Lemma env_ref_at_paren (r : str) : env_ref_at (40 :: r) = None.
Proof. reflexivity. Qed.

(** the only dollar of the word is followed by an open paren: it is no reference *)
Lemma expand_env_once_dword W (c : str) : ~ In 36 c -> expand_env_once W (dword c) = dword c.
Proof.
  intros H. unfold expand_env_once, dword. rewrite once_go_dollar, env_ref_at_paren.
  rewrite once_go_clean; [reflexivity|].
  intros [X|X]; [discriminate|]. apply in_app_or in X as [X|[X|[]]]; [tauto | discriminate].
Qed.

Lemma expand_env_tok_dword W (c : str) : ~ In 36 c -> expand_env_tok W (TNone, dword c) = (TNone, dword c).
Proof.
  intros H. unfold expand_env_tok. cbn [fst snd]. rewrite (expand_env_once_dword W c H).
  destruct (env_in_tagged_token (dword c) _); reflexivity.
Qed.

Lemma expand_env_dword W (cmd0 c : str) :
  ~ In 36 cmd0 -> ~ In 36 c ->
  expand_env W [(TNone, cmd0); (TNone, dword c)] = [(TNone, cmd0); (TNone, dword c)].
Proof.
  intros H0 Hc. rewrite expand_env_map. cbn [map]. rewrite (expand_env_tok_dword W c Hc).
  unfold expand_env_tok. cbn [fst snd]. rewrite (tagged_gate_no_dollar cmd0 _ H0). reflexivity.
Qed.

(* ------------------------------------------------------------------ 4: brace and glob see the word BEFORE the substitution *)
Lemma dword_still (c : str) : ~ In 42 c -> ~ In 123 c -> still (TNone, dword c).
Proof.
  intros H42 H123. right. cbn [snd]. split; apply dword_notin; try assumption; discriminate.
Qed.

(* ------------------------------------------------------------------ 5: command substitution *)
Lemma subst_dot_dword W (cmd0 c : str) :
  ~ In 96 cmd0 -> ~ In 96 c ->
  subst_dot W [(TNone, cmd0); (TNone, dword c)] [] = Ok ([(TNone, cmd0); (TNone, dword c)], []).
Proof.
  intros H0 Hc. unfold subst_dot. cbn [dot_collect].
  rewrite (dot_split_none cmd0 H0).
  rewrite (dot_split_none (dword c)) by (apply dword_notin; try assumption; discriminate).
  reflexivity.
Qed.

Lemma should_do_dword (c : str) :
  c <> [] -> ~ In 41 c -> (~ In 61 c \/ ~ In 39 c) -> should_do_dollar (dword c) = true.
Proof.
  intros Hne H41 Hx.
  apply (should_do_true [] c [] Hne H41).
  cbn [app]. fold (dword c).
  destruct Hx as [Hx|Hx]; [left | right]; apply dword_notin; try assumption; discriminate.
Qed.

Lemma dollar_loop_dword W (c : str) f :
  c <> [] -> ~ In 41 c -> ~ In 10 c -> (~ In 61 c \/ ~ In 39 c) ->
  has_dollar_paren (trim (oracle_out W c)) = false ->
  dollar_loop (S (S f)) W (dword c) [] = Ok (Some (trim (oracle_out W c)), [c]).
Proof.
  intros Hne H41 H10 Hx Ho.
  assert (G : dollar_loop (S (S f)) W ([] ++ [36; 40] ++ c ++ [41] ++ []) []
              = Ok (Some ([] ++ trim (oracle_out W c) ++ []), [c])).
  { apply dollar_loop_splices; try assumption; try (intros []).
    - cbn [app]. fold (dword c).
      destruct Hx as [Hx|Hx]; [left | right]; apply dword_notin; try assumption; discriminate.
    - cbn [app]. rewrite app_nil_r. exact Ho. }
  cbn [app] in G. rewrite app_nil_r in G. exact G.
Qed.

Lemma subst_dollar_dword W (cmd0 c : str) f :
  ~ In 36 cmd0 ->
  c <> [] -> ~ In 41 c -> ~ In 10 c -> (~ In 61 c \/ ~ In 39 c) ->
  has_dollar_paren (trim (oracle_out W c)) = false ->
  subst_dollar (S (S f)) W [(TNone, cmd0); (TNone, dword c)] []
  = Ok ([(TNone, cmd0); (TNone, trim (oracle_out W c))], [c]).
Proof.
  intros H0 Hne H41 H10 Hx Ho. rewrite subst_dollar_eq.
  cbn [dollar_pass tag_eqb orb].
  rewrite (should_do_dollar_false cmd0 H0). cbn [negb].
  rewrite (should_do_dword c Hne H41 Hx). cbn [negb].
  rewrite (dollar_loop_dword W c f Hne H41 H10 Hx Ho).
  reflexivity.
Qed.

(* ------------------------------------------------------------------ 6: expand_brace_range on the result *)
Lemma range_sel_no_brace (t : token) : ~ In 123 (snd t) -> range_sel t = Ok Skip.
Proof.
  intros H123. unfold range_sel.
  destruct (rx_search rx_brace_range (snd t)) eqn:E.
  - exfalso. apply H123. apply (rx_search_requires 123 rx_brace_range); [reflexivity | exact E].
  - cbn [negb]. rewrite orb_true_r. reflexivity.
Qed.

Lemma expand_brace_range_no_brace toks :
  Forall (fun t : token => ~ In 123 (snd t)) toks -> expand_brace_range toks = Ok toks.
Proof.
  intros H. apply run_pass_skip. intros t Ht. apply range_sel_no_brace.
  rewrite Forall_forall in H. apply H. exact Ht.
Qed.

(* ------------------------------------------------------------------ assembly *)
Theorem output_not_globbed : forall W f cmd0 c,
  cmd_ok W cmd0 ->
  c <> [] -> ~ In 36 c -> ~ In 123 c -> ~ In 42 c -> ~ In 96 c -> ~ In 41 c -> ~ In 10 c -> ~ In 126 c ->
  (~ In 61 c \/ ~ In 39 c) ->
  has_dollar_paren (trim (oracle_out W c)) = false -> ~ In 123 (trim (oracle_out W c)) ->
  do_expansion Tokenizer.parse_line W (S (S f)) [(TNone, cmd0); (TNone, [36; 40] ++ c ++ [41])]
  = Ok [(TNone, cmd0); (TNone, trim (oracle_out W c))].
Proof.
  intros W f cmd0 c Hc Hne H36 H123 H42 H96 H41 H10 H126 Hx Hdp Ho123.
  rewrite dword_eq.
  assert (Hstill : Forall still [(TNone, cmd0); (TNone, dword c)]).
  { constructor; [eapply cmd_still; eassumption|]. constructor; [|constructor].
    apply dword_still; assumption. }
  destruct Hc as [Ha Hn (C36 & C96 & C126 & C42 & C123) Hw] eqn:EHc. clear EHc.
  unfold do_expansion, do_expansion_log.
  rewrite (not_arithmetic W cmd0 _ Hc), (not_export_prompt W cmd0 _ Hc).
  cbn zeta.
  rewrite (expand_alias_dword _ W cmd0 c Hc).
  rewrite (expand_home_dword W cmd0 c C126).
  rewrite (expand_env_dword W cmd0 c C36 H36).
  rewrite (expand_brace_still _ Hstill). cbn [bind].
  rewrite (expand_glob_still W _ Hstill). cbn [bind].
  unfold do_command_substitution.
  rewrite (subst_dot_dword W cmd0 c C96 H96). cbn [bind fst snd].
  rewrite (subst_dollar_dword W cmd0 c f C36 Hne H41 H10 Hx Hdp). cbn [bind fst snd].
  rewrite expand_brace_range_no_brace; [reflexivity|].
  constructor; [exact C123|]. constructor; [exact Ho123 | constructor].
Qed.

(* ------------------------------------------------------------------ regression *)
(** the glob oracle would match everything and the runner prints a star pattern for every line:
    the output of [$(x)] stays the text it is *)
Definition W_star : World :=
  mkWorld (fun _ => None) (fun _ => None) 0%Z 1%Z (s2l "/h")
          (fun _ => Some [s2l "a.txt"; s2l "b.txt"]) (fun _ => Some (s2l "*.txt")) (fun _ => None).

Example output_star_stays :
  do_expansion Tokenizer.parse_line W_star 4 [(TNone, s2l "echo"); (TNone, s2l "$(x)")]
  = Ok [(TNone, s2l "echo"); (TNone, s2l "*.txt")].
Proof. vm_compute. reflexivity. Qed.

(** the same through the theorem: its hypotheses are satisfiable with a starred output *)
Lemma notin_dec (x : N) (s : str) : negb (existsb (N.eqb x) s) = true -> ~ In x s.
Proof.
  intros H X. apply negb_true_iff in H.
  assert (T : existsb (N.eqb x) s = true) by (apply existsb_exists; exists x; split; [exact X | apply N.eqb_refl]).
  congruence.
Qed.

Lemma cmd_ok_echo : cmd_ok W_star (s2l "echo").
Proof.
  constructor.
  - reflexivity.
  - repeat split; discriminate.
  - repeat split; apply notin_dec; reflexivity.
  - exists 101. split; [left; reflexivity | reflexivity].
Qed.

Example output_star_by_theorem : forall f,
  do_expansion Tokenizer.parse_line W_star (S (S f)) [(TNone, s2l "echo"); (TNone, s2l "$(x)")]
  = Ok [(TNone, s2l "echo"); (TNone, s2l "*.txt")].
Proof.
  intros f.
  change (s2l "$(x)") with ([36; 40] ++ [120] ++ [41]).
  change (s2l "*.txt") with (trim (oracle_out W_star [120])).
  apply output_not_globbed; try (apply notin_dec; reflexivity).
  - exact cmd_ok_echo.
  - discriminate.
  - left. apply notin_dec. reflexivity.
  - reflexivity.
Qed.

Print Assumptions output_not_globbed.
Print Assumptions output_star_by_theorem.
Print Assumptions output_star_stays.
