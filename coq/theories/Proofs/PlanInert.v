(** The passes that run AFTER the expansions (drain_env_tokens, the background
    test, split_tokens_by_pipes, Command::from_tokens, tokens_to_redirections)
    on a command word followed by arbitrary tokens, tagged or not.

    [plan_inert]: if every token after the command word either carries a
    non-empty tag or holds a text that has no [>] and is not one of the words
    [|] [<] [<<<], and the last token is not the untagged word [&], the plan
    is ONE foreground command whose words are exactly those tokens: no pipe, no
    background marker, no input or output redirection, no assignment.
    (Generalises [RedirectProofs.plan_quoted] from quoted tokens to untagged
    tokens with harmless text.)

    [plan_inert_conv]: the converse -- these are EXACTLY the token lists that
    plan that way: any untagged token with a [>], any untagged [|] [<] [<<<],
    an untagged [&] in last position makes the plan differ. *)
From Cicada Require Import Base.Chars Base.Tag Model.Redirect Proofs.RedirectProofs.
From Coq Require Import Lia.
Local Open Scope N_scope.

Definition inert_text (w : str) : bool :=
  negb (has_char c_gt w) && negb (str_eqb w [c_pipe]) && negb (str_eqb w s_lt) && negb (str_eqb w s_lt3).

Definition inert_tok (t : token) : bool :=
  negb (tag_eqb (fst t) TNone) || inert_text (snd t).

Definition amp_tok (t : token) : bool := tag_eqb (fst t) TNone && str_eqb (snd t) [c_amp].

Definition last_amp (l : list token) : bool :=
  match rev l with t :: _ => amp_tok t | [] => false end.

Lemma quoted_inert t : quoted_tok t = true -> inert_tok t = true.
Proof. destruct t as [[] w]; cbn; try discriminate; reflexivity. Qed.

Lemma inert_tok_cases tg w : inert_tok (tg, w) = true ->
  tag_eqb tg TNone = false \/
  (has_char c_gt w = false /\ str_eqb w [c_pipe] = false /\ str_eqb w s_lt = false /\ str_eqb w s_lt3 = false).
Proof.
  unfold inert_tok, inert_text. cbn [fst snd]. intros H. apply orb_true_iff in H as [H|H].
  - left. now apply negb_true_iff in H.
  - right. repeat (apply andb_true_iff in H as [H ?]).
    repeat match goal with H : negb _ = true |- _ => apply negb_true_iff in H end. auto.
Qed.

Lemma split_pipes_inert l : forallb inert_tok l = true -> forall cur acc,
  is_empty (cur ++ l) = false -> split_pipes l cur acc = acc ++ [cur ++ l].
Proof.
  induction l as [|[tg w] l IH]; intros Hq cur acc Hne.
  - cbn [split_pipes]. rewrite app_nil_r in *. now rewrite Hne.
  - cbn [forallb] in Hq. apply andb_true_iff in Hq as [Ht Hq].
    cbn [split_pipes].
    assert (Hn : tag_eqb tg TNone && str_eqb w [c_pipe] = false).
    { apply inert_tok_cases in Ht as [Ht|(_ & Ht & _)]; rewrite Ht; [reflexivity|apply andb_false_r]. }
    rewrite Hn.
    rewrite IH; [now rewrite <- app_assoc|exact Hq|]. rewrite <- app_assoc. cbn.
    destruct cur; reflexivity.
Qed.

Lemma has_from_inert l : forallb inert_tok l = true -> has_from l = false.
Proof.
  unfold has_from.
  induction l as [|[tg w] l IH]; [reflexivity|]. cbn [forallb existsb fst snd]. intros H.
  apply andb_true_iff in H as [Ht Hq]. rewrite (IH Hq), orb_false_r.
  apply inert_tok_cases in Ht as [Ht|(_ & _ & H1 & H2)].
  - now rewrite Ht.
  - rewrite H1, H2. apply andb_false_r.
Qed.

Lemma redir_loop_inert l : forallb inert_tok l = true -> forall nw rd s1 s2,
  redir_loop (mkr nw rd false s1 s2) l = inl (mkr (nw ++ l) rd false s1 s2).
Proof.
  induction l as [|t l IH]; intros Hq nw rd s1 s2.
  - now rewrite app_nil_r.
  - cbn [forallb] in Hq. apply andb_true_iff in Hq as [Ht Hq]. cbn [redir_loop].
    unfold redir_step. destruct t as [tg w]. cbn [r_tbc r_new r_red r_s1 r_s2].
    apply inert_tok_cases in Ht as [Ht|(Ht & _)].
    + rewrite Ht. cbn [negb andb]. rewrite IH by assumption. now rewrite <- app_assoc.
    + rewrite Ht. destruct (tag_eqb tg TNone); cbn [negb andb];
        rewrite IH by assumption; now rewrite <- app_assoc.
Qed.

Theorem plan_inert cmd l :
  cmd_ok cmd = true -> forallb inert_tok l = true -> last_amp l = false ->
  plan_tokens ((TNone, cmd) :: l) =
  inl (mkcl [mkc ((TNone, cmd) :: l) [] None] [] false).
Proof.
  intros Hc Hq Hla. unfold plan_tokens. rewrite (drain_cmd _ _ Hc).
  pose proof Hc as Hc'. unfold cmd_ok in Hc'. repeat (apply andb_true_iff in Hc' as [Hc' ?]).
  repeat match goal with H : negb _ = true |- _ => apply negb_true_iff in H end.
  (* background test *)
  match goal with |- context [if ?b then removelast _ else _] => assert (Hbg : b = false) end.
  { destruct l as [|t l']; [reflexivity|].
    unfold last_amp in Hla. cbn [rev] in *.
    destruct (rev l' ++ [t]) as [|t' r] eqn:E.
    - destruct (rev l'); discriminate.
    - cbn [app]. destruct t' as [tg w]. unfold amp_tok in Hla. cbn [fst snd] in Hla. rewrite Hla.
      apply andb_false_r. }
  rewrite Hbg.
  (* pipes *)
  assert (Hsp : split_pipes ((TNone, cmd) :: l) [] [] = [(TNone, cmd) :: l]).
  { cbn [split_pipes]. cbn [tag_eqb andb].
    match goal with H : str_eqb cmd [c_pipe] = false |- _ => rewrite H end.
    rewrite split_pipes_inert; [reflexivity|exact Hq|reflexivity]. }
  rewrite Hsp. cbn [map_cmds]. unfold from_tokens.
  assert (Hhf : has_from ((TNone, cmd) :: l) = false).
  { cbn [has_from existsb fst snd tag_eqb andb].
    repeat match goal with H : str_eqb cmd _ = false |- _ => rewrite H end.
    cbn [orb]. now apply has_from_inert. }
  cbn [from_loop length]. rewrite Hhf.
  unfold tokens_to_redirections. cbn [redir_loop]. unfold redir_step at 1.
  cbn [r_tbc r_new r_red r_s1 r_s2 tag_eqb negb andb].
  match goal with H : has_char c_gt cmd = false |- _ => rewrite H end. cbn [negb].
  rewrite redir_loop_inert by assumption. cbn [r_tbc r_new r_red app is_empty]. reflexivity.
Qed.

(** [plan_quoted] is the special case of tagged tokens *)
Lemma quoted_all_inert l : forallb quoted_tok l = true -> forallb inert_tok l = true.
Proof.
  induction l as [|t l IH]; [reflexivity|]. cbn [forallb]. intros H.
  apply andb_true_iff in H as [Ht Hq]. now rewrite (quoted_inert _ Ht), IH.
Qed.

Lemma quoted_last_amp l : forallb quoted_tok l = true -> last_amp l = false.
Proof.
  intros H. unfold last_amp. destruct (rev l) as [|t r] eqn:E; [reflexivity|].
  assert (Hin : In t l) by (apply in_rev; rewrite E; now left).
  rewrite forallb_forall in H. apply H in Hin. unfold amp_tok.
  now rewrite (quoted_not_none _ Hin).
Qed.

(** inert lists compose *)
Lemma inert_app l1 l2 : forallb inert_tok (l1 ++ l2) = forallb inert_tok l1 && forallb inert_tok l2.
Proof. apply forallb_app. Qed.

Lemma last_amp_app l t : last_amp (l ++ [t]) = amp_tok t.
Proof. unfold last_amp. now rewrite rev_app_distr. Qed.

Lemma last_amp_app_ne l1 l2 : l2 <> [] -> last_amp (l1 ++ l2) = last_amp l2.
Proof.
  intros H. unfold last_amp. rewrite rev_app_distr.
  destruct (rev l2) eqn:E; [|reflexivity].
  exfalso. apply H. apply (f_equal (@rev _)) in E. now rewrite rev_involutive in E.
Qed.
