(** The passes that run AFTER the expansions (drain_env_tokens, the background
    test, split_tokens_by_pipes, Command::from_tokens, tokens_to_redirections)
    on a command word followed by arbitrary tokens, tagged or not.

    [plan_inert]: if every token after the command word either carries a
    non-empty tag or holds a text that has no [>] and is not one of the words
    [|] [<] [<<<], and the last token is not the untagged word [&], the plan
    is ONE foreground command whose words are exactly those tokens: no pipe, no
    background marker, no input or output redirection, no assignment.
    (Generalises [RedirectProofs.plan_quoted] from quoted tokens to untagged
    tokens with harmless text.)

    [plan_inert_conv]: the converse -- these are EXACTLY the token lists that
    plan that way: any untagged token with a [>], any untagged [|] [<] [<<<],
    an untagged [&] in last position makes the plan differ. *)
From Cicada Require Import Proofs.SplitLtProofs.
From Cicada Require Import Base.Chars Base.Tag Model.Redirect Proofs.RedirectProofs.
From Coq Require Import Lia.
Local Open Scope N_scope.

Definition inert_text (w : str) : bool :=
  negb (has_char c_gt w) && negb (str_eqb w [c_pipe]) && negb (str_eqb w s_lt) && negb (str_eqb w s_lt3) &&
  negb (att_lt (TNone, w)).   (* /repo 543507e: an untagged word <file (one <, then more) is split into < and a file name *)

Definition inert_tok (t : token) : bool :=
  negb (tag_eqb (fst t) TNone) || inert_text (snd t).

Definition amp_tok (t : token) : bool := tag_eqb (fst t) TNone && str_eqb (snd t) [c_amp].

Definition last_amp (l : list token) : bool :=
  match rev l with t :: _ => amp_tok t | [] => false end.

Lemma quoted_inert t : quoted_tok t = true -> inert_tok t = true.
Proof. destruct t as [[] w]; cbn; try discriminate; reflexivity. Qed.

Lemma inert_tok_cases tg w : inert_tok (tg, w) = true ->
  tag_eqb tg TNone = false \/
  (has_char c_gt w = false /\ str_eqb w [c_pipe] = false /\ str_eqb w s_lt = false /\ str_eqb w s_lt3 = false).
Proof.
  unfold inert_tok, inert_text. cbn [fst snd]. intros H. apply orb_true_iff in H as [H|H].
  - left. now apply negb_true_iff in H.
  - right. repeat (apply andb_true_iff in H as [H ?]).
    repeat match goal with H : negb _ = true |- _ => apply negb_true_iff in H end. auto.
Qed.

Lemma att_lt_inert l : forallb inert_tok l = true -> existsb att_lt l = false.
Proof.
  induction l as [|[tg w] l IH]; [reflexivity|]. cbn [forallb existsb]. intros H.
  apply andb_true_iff in H as [Ht Hq]. rewrite (IH Hq), orb_false_r.
  unfold inert_tok, inert_text in Ht. cbn [fst snd] in Ht. apply orb_true_iff in Ht as [Ht|Ht].
  - apply att_lt_tagged. now apply negb_true_iff in Ht.
  - apply andb_true_iff in Ht as [_ Ht]. apply negb_true_iff in Ht. destruct tg; try reflexivity. exact Ht.
Qed.

Lemma split_pipes_inert l : forallb inert_tok l = true -> forall cur acc,
  is_empty (cur ++ l) = false -> split_pipes l cur acc = acc ++ [cur ++ l].
Proof.
  induction l as [|[tg w] l IH]; intros Hq cur acc Hne.
  - cbn [split_pipes]. rewrite app_nil_r in *. now rewrite Hne.
  - cbn [forallb] in Hq. apply andb_true_iff in Hq as [Ht Hq].
    cbn [split_pipes].
    assert (Hn : tag_eqb tg TNone && str_eqb w [c_pipe] = false).
    { apply inert_tok_cases in Ht as [Ht|(_ & Ht & _)]; rewrite Ht; [reflexivity|apply andb_false_r]. }
    rewrite Hn.
    rewrite IH; [now rewrite <- app_assoc|exact Hq|]. rewrite <- app_assoc. cbn.
    destruct cur; reflexivity.
Qed.

Lemma has_from_inert l : forallb inert_tok l = true -> has_from l = false.
Proof.
  unfold has_from.
  induction l as [|[tg w] l IH]; [reflexivity|]. cbn [forallb existsb fst snd]. intros H.
  apply andb_true_iff in H as [Ht Hq]. rewrite (IH Hq), orb_false_r.
  apply inert_tok_cases in Ht as [Ht|(_ & _ & H1 & H2)].
  - now rewrite Ht.
  - rewrite H1, H2. apply andb_false_r.
Qed.

Lemma redir_loop_inert l : forallb inert_tok l = true -> forall nw rd s1 s2,
  redir_loop (mkr nw rd false s1 s2) l = inl (mkr (nw ++ l) rd false s1 s2).
Proof.
  induction l as [|t l IH]; intros Hq nw rd s1 s2.
  - now rewrite app_nil_r.
  - cbn [forallb] in Hq. apply andb_true_iff in Hq as [Ht Hq]. cbn [redir_loop].
    unfold redir_step. destruct t as [tg w]. cbn [r_tbc r_new r_red r_s1 r_s2].
    apply inert_tok_cases in Ht as [Ht|(Ht & _)].
    + rewrite Ht. cbn [negb andb]. rewrite IH by assumption. now rewrite <- app_assoc.
    + rewrite Ht. destruct (tag_eqb tg TNone); cbn [negb andb];
        rewrite IH by assumption; now rewrite <- app_assoc.
Qed.

Theorem plan_inert cmd l :
  cmd_ok cmd = true -> forallb inert_tok l = true -> last_amp l = false ->
  plan_tokens ((TNone, cmd) :: l) =
  inl (mkcl [mkc ((TNone, cmd) :: l) [] None] [] false).
Proof.
  intros Hc Hq Hla. unfold plan_tokens. rewrite (drain_cmd _ _ Hc).
  pose proof Hc as Hc'. unfold cmd_ok in Hc'. repeat (apply andb_true_iff in Hc' as [Hc' ?]).
  repeat match goal with H : negb _ = true |- _ => apply negb_true_iff in H end.
  (* background test *)
  match goal with |- context [if ?b then removelast _ else _] => assert (Hbg : b = false) end.
  { destruct l as [|t l']; [reflexivity|].
    unfold last_amp in Hla. cbn [rev] in *.
    destruct (rev l' ++ [t]) as [|t' r] eqn:E.
    - destruct (rev l'); discriminate.
    - cbn [app]. destruct t' as [tg w]. unfold amp_tok in Hla. cbn [fst snd] in Hla. rewrite Hla.
      apply andb_false_r. }
  rewrite Hbg.
  (* pipes *)
  assert (Hsp : split_pipes ((TNone, cmd) :: l) [] [] = [(TNone, cmd) :: l]).
  { cbn [split_pipes]. cbn [tag_eqb andb].
    match goal with H : str_eqb cmd [c_pipe] = false |- _ => rewrite H end.
    rewrite split_pipes_inert; [reflexivity|exact Hq|reflexivity]. }
  rewrite Hsp. cbn [map_cmds]. rewrite from_tokens_nosplit.
  2:{ cbn [existsb]. rewrite att_lt_sw by assumption. now apply att_lt_inert. }
  unfold from_tokens_core.
  assert (Hhf : has_from ((TNone, cmd) :: l) = false).
  { cbn [has_from existsb fst snd tag_eqb andb].
    repeat match goal with H : str_eqb cmd _ = false |- _ => rewrite H end.
    cbn [orb]. now apply has_from_inert. }
  cbn [from_loop length]. rewrite Hhf.
  unfold tokens_to_redirections. cbn [redir_loop]. unfold redir_step at 1.
  cbn [r_tbc r_new r_red r_s1 r_s2 tag_eqb negb andb].
  match goal with H : has_char c_gt cmd = false |- _ => rewrite H end. cbn [negb].
  rewrite redir_loop_inert by assumption. cbn [r_tbc r_new r_red app is_empty]. reflexivity.
Qed.

(** [plan_quoted] is the special case of tagged tokens *)
Lemma quoted_all_inert l : forallb quoted_tok l = true -> forallb inert_tok l = true.
Proof.
  induction l as [|t l IH]; [reflexivity|]. cbn [forallb]. intros H.
  apply andb_true_iff in H as [Ht Hq]. now rewrite (quoted_inert _ Ht), IH.
Qed.

Lemma quoted_last_amp l : forallb quoted_tok l = true -> last_amp l = false.
Proof.
  intros H. unfold last_amp. destruct (rev l) as [|t r] eqn:E; [reflexivity|].
  assert (Hin : In t l) by (apply in_rev; rewrite E; now left).
  rewrite forallb_forall in H. apply H in Hin. unfold amp_tok.
  now rewrite (quoted_not_none _ Hin).
Qed.

(** inert lists compose *)
Lemma inert_app l1 l2 : forallb inert_tok (l1 ++ l2) = forallb inert_tok l1 && forallb inert_tok l2.
Proof. apply forallb_app. Qed.

Lemma last_amp_app l t : last_amp (l ++ [t]) = amp_tok t.
Proof. unfold last_amp. now rewrite rev_app_distr. Qed.

Lemma last_amp_app_ne l1 l2 : l2 <> [] -> last_amp (l1 ++ l2) = last_amp l2.
Proof.
  intros H. unfold last_amp. rewrite rev_app_distr.
  destruct (rev l2) eqn:E; [|reflexivity].
  exfalso. apply H. apply (f_equal (@rev _)) in E. now rewrite rev_involutive in E.
Qed.

(** * The converse: exactly these token lists plan as one plain command *)

(** redirections only accumulate *)
Lemma redir_step_red_mono s t s' : redir_step s t = inl s' -> (length (r_red s) <= length (r_red s'))%nat.
Proof.
  unfold redir_step. destruct t as [sep word].
  destruct (negb (tag_eqb sep TNone) && negb (r_tbc s)).
  { intros E; injection E as <-. cbn. lia. }
  destruct (r_tbc s).
  { destruct (tag_eqb sep TNone && starts_with_c c_amp word); [discriminate|].
    destruct (all_nd (r_s1 s)).
    - destruct (negb (str_eqb (r_s1 s) s_one) && negb (str_eqb (r_s1 s) s_two)); [discriminate|].
      intros E; injection E as <-. cbn. rewrite app_length. lia.
    - intros E; injection E as <-. cbn. rewrite app_length. lia. }
  destruct (negb (has_char c_gt word)).
  { intros E; injection E as <-. cbn. lia. }
  destruct (match_gt word) as [s1 s2 s3|s1 s2|].
  - destruct (starts_with_c c_amp s3 && negb (str_eqb s3 s_amp1) && negb (str_eqb s3 s_amp2)); [discriminate|].
    destruct (all_nd s1).
    + destruct (negb (str_eqb s1 s_one) && negb (str_eqb s1 s_two)); [discriminate|].
      intros E; injection E as <-. cbn. rewrite app_length. lia.
    + intros E; injection E as <-. cbn. rewrite app_length. lia.
  - intros E; injection E as <-. cbn. lia.
  - intros E; injection E as <-. lia.
Qed.

Lemma redir_loop_red_mono l : forall s s', redir_loop s l = inl s' -> (length (r_red s) <= length (r_red s'))%nat.
Proof.
  induction l as [|t l IH]; intros s s' E; cbn [redir_loop] in E.
  - injection E as <-. lia.
  - destruct (redir_step s t) as [s1|] eqn:E1; [|discriminate].
    apply redir_step_red_mono in E1. apply IH in E. lia.
Qed.

(** a token that [tokens_to_redirections] passes through *)
Definition gt_ok (t : token) : bool := negb (tag_eqb (fst t) TNone) || negb (has_char c_gt (snd t)).

(** one step that adds no redirection: either the token is passed through unchanged (and the
    state was not waiting for a target), or strictly fewer words come out than went in *)
Lemma redir_step_no_red s t s' :
  redir_step s t = inl s' -> length (r_red s') = length (r_red s) ->
  (r_tbc s = false /\ gt_ok t = true /\ r_new s' = r_new s ++ [t] /\ r_tbc s' = false) \/
  (r_tbc s = false /\ length (r_new s') = length (r_new s)).
Proof.
  unfold redir_step, gt_ok. destruct t as [sep word]. cbn [fst snd].
  destruct (r_tbc s) eqn:Etbc.
  { rewrite andb_false_r. 
    destruct (tag_eqb sep TNone && starts_with_c c_amp word); [discriminate|].
    destruct (all_nd (r_s1 s)).
    - destruct (negb (str_eqb (r_s1 s) s_one) && negb (str_eqb (r_s1 s) s_two)); [discriminate|].
      intros E; injection E as <-. cbn. rewrite app_length. cbn. lia.
    - intros E; injection E as <-. cbn. rewrite app_length. cbn. lia. }
  rewrite andb_true_r.
  destruct (negb (tag_eqb sep TNone)) eqn:Etag.
  { intros E; injection E as <-. cbn. intros _. left. repeat split; reflexivity. }
  cbn [orb].
  destruct (negb (has_char c_gt word)) eqn:Egt.
  { intros E; injection E as <-. cbn. intros _. left. repeat split; reflexivity. }
  destruct (match_gt word) as [s1 s2 s3|s1 s2|].
  - destruct (starts_with_c c_amp s3 && negb (str_eqb s3 s_amp1) && negb (str_eqb s3 s_amp2)); [discriminate|].
    destruct (all_nd s1).
    + destruct (negb (str_eqb s1 s_one) && negb (str_eqb s1 s_two)); [discriminate|].
      intros E; injection E as <-. cbn. rewrite app_length. cbn. lia.
    + intros E; injection E as <-. cbn. rewrite app_length. cbn. lia.
  - intros E; injection E as <-. cbn. intros _. right. auto.
  - intros E; injection E as <-. intros _. right. auto.
Qed.

Lemma redir_loop_exact l : forall s s',
  redir_loop s l = inl s' -> length (r_red s') = length (r_red s) -> r_tbc s' = false ->
  (length (r_new s') <= length (r_new s) + length l)%nat /\
  (length (r_new s') = (length (r_new s) + length l)%nat -> forallb gt_ok l = true).
Proof.
  induction l as [|t l IH]; intros s s' E Hred Htbc; cbn [redir_loop] in E.
  - injection E as <-. cbn. split; [lia|reflexivity].
  - destruct (redir_step s t) as [s1|] eqn:E1; [|discriminate].
    pose proof (redir_step_red_mono _ _ _ E1) as M1. pose proof (redir_loop_red_mono _ _ _ E) as M2.
    assert (R1 : length (r_red s1) = length (r_red s)) by lia.
    assert (R2 : length (r_red s') = length (r_red s1)) by lia.
    destruct (IH _ _ E R2 Htbc) as [Hle Heq].
    destruct (redir_step_no_red _ _ _ E1 R1) as [(_ & Hok & Hnew & _)|(_ & Hlen)].
    + rewrite Hnew, app_length in Hle, Heq. cbn [length] in *. split; [lia|].
      intros H. cbn [forallb]. rewrite Hok. apply Heq. lia.
    + rewrite Hlen in Hle, Heq. cbn [length]. split; [lia|]. intros H. lia.
Qed.

Lemma tokens_to_redirections_exact l :
  tokens_to_redirections l = inl (l, []) -> forallb gt_ok l = true.
Proof.
  unfold tokens_to_redirections. destruct (redir_loop (mkr [] [] false [] []) l) as [s|] eqn:E; [|discriminate].
  destruct (r_tbc s) eqn:T; [discriminate|]. intros H. injection H as Hn Hr.
  destruct (redir_loop_exact _ _ _ E) as [_ Heq]; [now rewrite Hr|exact T|].
  apply Heq. now rewrite Hn.
Qed.

(** input redirections: once an operator word was seen the type is set for good *)
Lemma take_from_ty w l ty va : w <> [] ->
  let '(l', ty', va') := take_from w (l, ty, va) in (ty <> [] -> ty' <> []) /\ (position w l <> None -> ty' <> []).
Proof.
  intros Hw. unfold take_from. destruct (position w l) as [idx|] eqn:P.
  - destruct (nth_error (remove_at idx l) idx) as [[tg v]|]; split; intros _; exact Hw.
  - split; [auto|congruence].
Qed.

Lemma has_from_position l : has_from l = true -> position s_lt l <> None \/ position s_lt3 l <> None.
Proof.
  unfold has_from. induction l as [|[tg w] l IH]; [discriminate|]. cbn [existsb fst snd position]. intros H.
  apply orb_true_iff in H as [H|H].
  - apply andb_true_iff in H as [Ht Hw]. rewrite Ht. cbn [andb].
    apply orb_true_iff in Hw as [Hw|Hw]; rewrite Hw; [left|right]; try discriminate.
  - destruct (IH H) as [G|G]; [left|right].
    + destruct (tag_eqb tg TNone && str_eqb w s_lt); [discriminate|].
      destruct (position s_lt l); [discriminate|exact G].
    + destruct (tag_eqb tg TNone && str_eqb w s_lt3); [discriminate|].
      destruct (position s_lt3 l); [discriminate|exact G].
Qed.

Lemma from_loop_ty fuel : forall l ty va l' ty' va',
  from_loop fuel (l, ty, va) = Some (l', ty', va') -> (has_from l = true \/ ty <> []) -> ty' <> [].
Proof.
  induction fuel as [|f IH]; intros l ty va l' ty' va' E H; cbn [from_loop] in E.
  - destruct (has_from l) eqn:Hf; [discriminate|]. injection E as <- <- <-.
    destruct H as [H|H]; [discriminate|exact H].
  - destruct (has_from l) eqn:Hf.
    + (* after one round of the body the type is non-empty *)
      assert (Hne : forall st, st = take_from s_lt3 (take_from s_lt (l, ty, va)) -> snd (fst st) <> []).
      { intros st ->.
        pose proof (take_from_ty s_lt l ty va ltac:(discriminate)) as T1.
        destruct (take_from s_lt (l, ty, va)) as [[l1 ty1] va1] eqn:E1.
        pose proof (take_from_ty s_lt3 l1 ty1 va1 ltac:(discriminate)) as T3.
        destruct (take_from s_lt3 (l1, ty1, va1)) as [[l3 ty3] va3] eqn:E3. cbn [fst snd].
        destruct T1 as [T1a T1b]. destruct T3 as [T3a T3b].
        destruct (position s_lt l) as [i|] eqn:P1.
        - apply T3a. apply T1b. discriminate.
        - (* no < : the list is unchanged by the first call, so <<< is there *)
          unfold take_from in E1. rewrite P1 in E1. injection E1 as <- <- <-.
          apply T3b. destruct (has_from_position _ Hf) as [G|G]; [congruence|exact G]. }
      destruct (take_from s_lt3 (take_from s_lt (l, ty, va))) as [[l3 ty3] va3] eqn:E3.
      specialize (Hne _ eq_refl). cbn [fst snd] in Hne.
      eapply IH; [exact E|]. right. exact Hne.
    + injection E as <- <- <-. destruct H as [H|H]; [discriminate|exact H].
Qed.

Lemma from_tokens_core_none l0 tk rd : from_tokens_core l0 = inl (mkc tk rd None) -> has_from l0 = false.
Proof.
  unfold from_tokens_core. destruct (from_loop (S (length l0)) (l0, [], [])) as [[[l' ty] va]|] eqn:E; [|discriminate].
  destruct (has_from l0) eqn:Hf; [|reflexivity].
  pose proof (from_loop_ty _ _ _ _ _ _ _ E (or_introl Hf)) as Hty.
  destruct (tokens_to_redirections l') as [[tk' rd']|]; [|discriminate].
  destruct ty; [congruence|]. discriminate.
Qed.

Lemma from_tokens_core_exact l : from_tokens_core l = inl (mkc l [] None) ->
  has_from l = false /\ forallb gt_ok l = true.
Proof.
  intro H. pose proof (from_tokens_core_none _ _ _ H) as Hf. split; [exact Hf|].
  unfold from_tokens_core in H. cbn [from_loop] in H. rewrite Hf in H.
  destruct (tokens_to_redirections l) as [[tk rd]|] eqn:R; [|discriminate].
  injection H as -> ->. now apply tokens_to_redirections_exact.
Qed.

(** with the split of attached [<file] words in front (/repo 543507e): a list that comes out unchanged, without
    input redirection, contained no such word *)
Lemma from_tokens_exact l : from_tokens l = inl (mkc l [] None) ->
  has_from l = false /\ forallb gt_ok l = true /\ existsb att_lt l = false.
Proof.
  intro H. destruct (existsb att_lt l) eqn:A.
  - exfalso. unfold from_tokens in H. apply from_tokens_core_none in H.
    rewrite (split_lts_has_from l A) in H. discriminate.
  - rewrite (from_tokens_nosplit l A) in H. destruct (from_tokens_core_exact l H). auto.
Qed.

(** pipes *)
Definition pipe_tok (t : token) : bool := tag_eqb (fst t) TNone && str_eqb (snd t) [c_pipe].

Lemma split_pipes_length l : forall cur acc,
  split_pipes l cur acc = [] \/
  length (split_pipes l cur acc) = (length acc + 1 + length (filter pipe_tok l))%nat.
Proof.
  induction l as [|[sep v] l IH]; intros cur acc; cbn [split_pipes filter].
  - destruct (is_empty cur); [now left|right]. rewrite app_length. cbn. lia.
  - unfold pipe_tok at 1. cbn [fst snd]. destruct (tag_eqb sep TNone && str_eqb v [c_pipe]).
    + destruct (is_empty cur); [now left|].
      destruct (IH [] (acc ++ [cur])) as [H|H]; [now left|right].
      rewrite H, app_length. cbn. lia.
    + apply IH.
Qed.

Lemma split_pipes_no_pipe l : filter pipe_tok l = [] -> forall cur acc,
  split_pipes l cur acc = (if is_empty (cur ++ l) then [] else acc ++ [cur ++ l]).
Proof.
  induction l as [|[sep v] l IH]; intros Hf cur acc; cbn [split_pipes].
  - now rewrite app_nil_r.
  - cbn [filter] in Hf. unfold pipe_tok at 1 in Hf. cbn [fst snd] in Hf.
    destruct (tag_eqb sep TNone && str_eqb v [c_pipe]); [discriminate|].
    rewrite (IH Hf), <- app_assoc. reflexivity.
Qed.

Lemma map_cmds_length l cs : map_cmds l = inl cs -> length cs = length l.
Proof.
  revert cs. induction l as [|t l IH]; intros cs; cbn [map_cmds].
  - intros H; now injection H as <-.
  - destruct (from_tokens t) as [c|]; [|discriminate]. destruct (is_empty (c_tokens c)); [discriminate|].
    destruct (map_cmds l) as [cs'|]; [|discriminate].
    intros H; injection H as <-. cbn. now rewrite (IH _ eq_refl).
Qed.

Definition bg_test (toks : list token) : bool :=
  Nat.ltb 1 (length toks) &&
  match rev toks with (tg, w) :: _ => tag_eqb tg TNone && str_eqb w [c_amp] | [] => false end.

Lemma bg_test_last cmd (l : list token) : bg_test ((TNone, cmd) :: l) = last_amp l.
Proof.
  unfold bg_test, last_amp, amp_tok. destruct l as [|t l']; [reflexivity|].
  cbn [length Nat.ltb Nat.leb andb rev].
  destruct (rev l' ++ [t]) as [|[tg w] r] eqn:E.
  - destruct (rev l'); discriminate.
  - reflexivity.
Qed.

Lemma plan_tokens_cmd cmd (l : list token) : cmd_ok cmd = true ->
  plan_tokens ((TNone, cmd) :: l) =
  match map_cmds (split_pipes (if bg_test ((TNone, cmd) :: l) then removelast ((TNone, cmd) :: l) else (TNone, cmd) :: l) [] []) with
  | inl cs => inl (mkcl cs [] (bg_test ((TNone, cmd) :: l)))
  | inr e => inr e
  end.
Proof. intros Hc. unfold plan_tokens. rewrite (drain_cmd _ _ Hc). reflexivity. Qed.

Theorem plan_inert_conv cmd (l : list token) :
  cmd_ok cmd = true ->
  plan_tokens ((TNone, cmd) :: l) = inl (mkcl [mkc ((TNone, cmd) :: l) [] None] [] false) ->
  forallb inert_tok l = true /\ last_amp l = false.
Proof.
  intros Hc. rewrite (plan_tokens_cmd _ _ Hc).
  set (toks := (TNone, cmd) :: l). set (is_bg := bg_test toks).
  destruct (map_cmds (split_pipes (if is_bg then removelast toks else toks) [] [])) as [cs|] eqn:M; [|intros; discriminate].
  intros H. injection H as Hcs Hbg. rewrite Hbg in M.
  (* not background *)
  assert (Hla : last_amp l = false).
  { subst is_bg toks. now rewrite bg_test_last in Hbg. }
  split; [|exact Hla].
  (* one command: no pipe token *)
  pose proof (map_cmds_length _ _ M) as Hlen. rewrite Hcs in Hlen. cbn [length] in Hlen.
  assert (Hnp : filter pipe_tok toks = []).
  { destruct (split_pipes_length toks [] []) as [E|E]; rewrite E in Hlen; [discriminate|].
    cbn [length] in Hlen. destruct (filter pipe_tok toks); [reflexivity|cbn in Hlen; lia]. }
  rewrite (split_pipes_no_pipe _ Hnp) in M. cbn [app is_empty] in M. subst toks. cbn [is_empty app map_cmds] in M.
  destruct (from_tokens ((TNone, cmd) :: l)) as [c|] eqn:F; [|discriminate].
  destruct (is_empty (c_tokens c)); [discriminate|].
  injection M as <-. injection Hcs as ->.
  apply from_tokens_exact in F as (Hhf & Hgt & Hatt).
  cbn [existsb] in Hatt. apply orb_false_iff in Hatt as [_ Hatt].
  (* assemble *)
  cbn [filter] in Hnp. unfold pipe_tok at 1 in Hnp. cbn [fst snd tag_eqb andb] in Hnp.
  assert (Hcp : str_eqb cmd [c_pipe] = false).
  { unfold cmd_ok in Hc. repeat (apply andb_true_iff in Hc as [Hc ?]).
    repeat match goal with H : negb _ = true |- _ => apply negb_true_iff in H end. assumption. }
  rewrite Hcp in Hnp.
  cbn [has_from existsb] in Hhf. apply orb_false_iff in Hhf as [_ Hhf].
  cbn [forallb] in Hgt. apply andb_true_iff in Hgt as [_ Hgt].
  clear - Hnp Hhf Hgt Hatt. induction l as [|[tg w] l IH]; [reflexivity|].
  cbn [forallb existsb filter] in *. apply andb_true_iff in Hgt as [G1 G2].
  apply orb_false_iff in Hhf as [F1 F2]. apply orb_false_iff in Hatt as [A1 A2].
  unfold pipe_tok at 1 in Hnp. cbn [fst snd] in *.
  destruct (tag_eqb tg TNone && str_eqb w [c_pipe]) eqn:P; [discriminate|].
  rewrite (IH F2 G2 A2 Hnp), andb_true_r.
  unfold inert_tok, inert_text, gt_ok in *. cbn [fst snd] in *.
  destruct tg; cbn [tag_eqb negb orb andb] in *; try reflexivity.
  rewrite G1, P, A1. cbn [negb andb]. apply orb_false_iff in F1 as [-> ->]. reflexivity.
Qed.

(** both directions together *)
Corollary plan_inert_iff cmd (l : list token) : cmd_ok cmd = true ->
  (plan_tokens ((TNone, cmd) :: l) = inl (mkcl [mkc ((TNone, cmd) :: l) [] None] [] false)
   <-> forallb inert_tok l = true /\ last_amp l = false).
Proof.
  intros Hc. split; [now apply plan_inert_conv|]. intros [H1 H2]. now apply plan_inert.
Qed.

(** * One GENUINE input redirection among harmless tokens *)
(** [cmd a.. OP target b..] with OP the untagged word [<] or [<<<]: the operator and its target are
    taken out, nothing else is: a tagged token whose text is [<] (a produced value) stays a word. *)
Lemma ttr_inert cmd l : cmd_ok cmd = true -> forallb inert_tok l = true ->
  tokens_to_redirections ((TNone, cmd) :: l) = inl ((TNone, cmd) :: l, []).
Proof.
  intros Hc Hq. unfold cmd_ok in Hc. repeat (apply andb_true_iff in Hc as [Hc ?]).
  repeat match goal with H : negb _ = true |- _ => apply negb_true_iff in H end.
  unfold tokens_to_redirections. cbn [redir_loop]. unfold redir_step at 1.
  cbn [r_tbc r_new r_red r_s1 r_s2 tag_eqb negb andb].
  match goal with H : has_char c_gt cmd = false |- _ => rewrite H end. cbn [negb].
  rewrite redir_loop_inert by assumption. reflexivity.
Qed.

Lemma position_inert w l : (w = s_lt \/ w = s_lt3) -> forallb inert_tok l = true -> position w l = None.
Proof.
  intros Hw. induction l as [|[tg x] l IH]; [reflexivity|]. cbn [forallb position]. intros H.
  apply andb_true_iff in H as [Ht Hl]. rewrite (IH Hl).
  apply inert_tok_cases in Ht as [Ht|(_ & _ & H1 & H2)].
  - now rewrite Ht.
  - destruct Hw as [-> | ->]; [rewrite H1|rewrite H2]; now rewrite andb_false_r.
Qed.

Lemma position_none w (l : list token) :
  (forall t, In t l -> tag_eqb (fst t) TNone && str_eqb (snd t) w = false) -> position w l = None.
Proof.
  induction l as [|[tg x] l IH]; [reflexivity|]. intros H. cbn [position].
  pose proof (H (tg, x) (or_introl eq_refl)) as H0. cbn [fst snd] in H0. rewrite H0.
  rewrite IH; [reflexivity|]. intros t Ht. apply H. now right.
Qed.

Lemma position_found w (l1 : list token) r : position w l1 = None -> position w (l1 ++ (TNone, w) :: r) = Some (length l1).
Proof.
  induction l1 as [|[tg x] l1 IH]; intros H.
  - cbn [app position length tag_eqb andb]. now rewrite str_eqb_refl.
  - cbn [app position length] in *. destruct (tag_eqb tg TNone && str_eqb x w); [discriminate|].
    destruct (position w l1); [discriminate|]. now rewrite IH.
Qed.

Lemma remove_at_mid {A} (l1 : list A) x r : remove_at (length l1) (l1 ++ x :: r) = l1 ++ r.
Proof. induction l1 as [|y l1 IH]; [reflexivity|]. cbn [length app remove_at]. now rewrite IH. Qed.

Lemma nth_error_mid {A} (l1 : list A) x r : nth_error (l1 ++ x :: r) (length l1) = Some x.
Proof. induction l1 as [|y l1 IH]; [reflexivity|]. exact IH. Qed.

Lemma take_from_found w (l1 : list token) tgt r ty va : position w l1 = None ->
  take_from w (l1 ++ (TNone, w) :: tgt :: r, ty, va) = (l1 ++ r, w, snd tgt).
Proof.
  intros H. unfold take_from. rewrite (position_found w l1 (tgt :: r) H).
  rewrite remove_at_mid, nth_error_mid, remove_at_mid. destruct tgt. reflexivity.
Qed.

Lemma take_from_absent w (l : list token) ty va : position w l = None -> take_from w (l, ty, va) = (l, ty, va).
Proof. intros H. unfold take_from. now rewrite H. Qed.

Lemma cmd_position w cmd l : cmd_ok cmd = true -> (w = s_lt \/ w = s_lt3) ->
  position w ((TNone, cmd) :: l) = match position w l with Some n => Some (S n) | None => None end.
Proof.
  intros Hc Hw. unfold cmd_ok in Hc. repeat (apply andb_true_iff in Hc as [Hc ?]).
  repeat match goal with H : negb _ = true |- _ => apply negb_true_iff in H end.
  cbn [position tag_eqb andb]. destruct Hw as [-> | ->];
    repeat match goal with H : str_eqb cmd _ = false |- _ => rewrite H end; reflexivity.
Qed.

Lemma from_loop_one fuel (L L' : list token) (ty va : str) :
  has_from L = true -> take_from s_lt3 (take_from s_lt (L, [], [])) = (L', ty, va) -> has_from L' = false ->
  from_loop (S (S fuel)) (L, [], []) = Some (L', ty, va).
Proof.
  intros H1 H2 H3. cbn [from_loop]. rewrite H1, H2. cbn [from_loop]. now rewrite H3.
Qed.

Theorem plan_inert_from cmd (a b : list token) op tgt :
  cmd_ok cmd = true -> forallb inert_tok a = true -> forallb inert_tok b = true -> inert_tok tgt = true ->
  last_amp (tgt :: b) = false -> (op = s_lt \/ op = s_lt3) ->
  plan_tokens ((TNone, cmd) :: a ++ (TNone, op) :: tgt :: b) =
  inl (mkcl [mkc ((TNone, cmd) :: a ++ b) [] (Some (op, snd tgt))] [] false).
Proof.
  intros Hc Ha Hb Ht Hla Hop.
  assert (Hopne : str_eqb op [c_pipe] = false) by (destruct Hop as [-> | ->]; reflexivity).
  rewrite (plan_tokens_cmd _ _ Hc), bg_test_last.
  rewrite last_amp_app_ne by discriminate.
  change ((TNone, op) :: tgt :: b) with ([(TNone, op)] ++ tgt :: b). rewrite last_amp_app_ne by discriminate.
  rewrite Hla. cbn [app].
  (* no pipe word *)
  assert (Hnp : forall l : list token, (forall t, In t l -> pipe_tok t = false) -> filter pipe_tok l = []).
  { induction l as [|t l IH]; [reflexivity|]. intros H. cbn [filter]. rewrite (H t (or_introl eq_refl)).
    apply IH. intros x Hx. apply H. now right. }
  assert (Hip : forall t, inert_tok t = true -> pipe_tok t = false).
  { intros [tg x] H. unfold pipe_tok. cbn [fst snd].
    apply inert_tok_cases in H as [H|(_ & H & _)]; rewrite H; [reflexivity|apply andb_false_r]. }
  assert (Hcp : str_eqb cmd [c_pipe] = false).
  { pose proof Hc as Hc'. unfold cmd_ok in Hc'. repeat (apply andb_true_iff in Hc' as [Hc' ?]).
    repeat match goal with H : negb _ = true |- _ => apply negb_true_iff in H end. assumption. }
  rewrite split_pipes_no_pipe.
  2:{ apply Hnp. intros t [<-|Hin].
      - unfold pipe_tok. cbn [fst snd tag_eqb andb]. exact Hcp.
      - apply in_app_or in Hin as [Hin|[<-|[<-|Hin]]].
        + apply Hip. rewrite forallb_forall in Ha. now apply Ha.
        + unfold pipe_tok. cbn [fst snd tag_eqb andb]. exact Hopne.
        + now apply Hip.
        + apply Hip. rewrite forallb_forall in Hb. now apply Hb. }
  cbn [app is_empty map_cmds].
  (* the input redirection *)
  assert (Hfrom : from_tokens ((TNone, cmd) :: a ++ (TNone, op) :: tgt :: b) = inl (mkc ((TNone, cmd) :: a ++ b) [] (Some (op, snd tgt)))).
  { rewrite from_tokens_nosplit.
    2:{ cbn [existsb]. rewrite existsb_app. cbn [existsb].
        assert (Hcs : starts_with_c c_lt cmd = false).
        { pose proof Hc as Hc'. unfold cmd_ok in Hc'. repeat (apply andb_true_iff in Hc' as [Hc' ?]).
          repeat match goal with H : negb _ = true |- _ => apply negb_true_iff in H end. assumption. }
        rewrite (att_lt_sw _ _ Hcs), (att_lt_inert a Ha), (att_lt_inert b Hb).
        assert (Ht' : existsb att_lt [tgt] = false) by (apply att_lt_inert; cbn [forallb]; now rewrite Ht).
        cbn [existsb] in Ht'. rewrite orb_false_r in Ht'. rewrite Ht'.
        destruct Hop as [-> | ->]; reflexivity. }
    unfold from_tokens_core.
    assert (Hhf : has_from ((TNone, cmd) :: a ++ (TNone, op) :: tgt :: b) = true).
    { unfold has_from. change ((TNone, cmd) :: a ++ (TNone, op) :: tgt :: b) with (((TNone, cmd) :: a) ++ (TNone, op) :: tgt :: b).
      rewrite existsb_app. cbn [existsb fst snd tag_eqb andb]. destruct Hop as [-> | ->]; cbn; now rewrite ?orb_true_r. }
    assert (Hab : forallb inert_tok (a ++ b) = true) by (rewrite forallb_app; now rewrite Ha, Hb).
    assert (Hnf : has_from ((TNone, cmd) :: a ++ b) = false).
    { pose proof Hc as Hc'. unfold cmd_ok in Hc'. repeat (apply andb_true_iff in Hc' as [Hc' ?]).
      repeat match goal with H : negb _ = true |- _ => apply negb_true_iff in H end.
      cbn [has_from existsb fst snd tag_eqb andb].
      repeat match goal with H : str_eqb cmd _ = false |- _ => rewrite H end. cbn [orb]. now apply has_from_inert. }
    assert (Hstep : take_from s_lt3 (take_from s_lt ((TNone, cmd) :: a ++ (TNone, op) :: tgt :: b, [], []))
                    = ((TNone, cmd) :: a ++ b, op, snd tgt)).
    { assert (Pa : forall w, w = s_lt \/ w = s_lt3 -> position w ((TNone, cmd) :: a) = None).
      { intros w Hw. rewrite (cmd_position w cmd a Hc Hw), (position_inert w a Hw Ha). reflexivity. }
      assert (Pab : forall w, w = s_lt \/ w = s_lt3 -> position w ((TNone, cmd) :: a ++ b) = None).
      { intros w Hw. rewrite (cmd_position w cmd (a ++ b) Hc Hw), (position_inert w (a ++ b) Hw Hab). reflexivity. }
      change ((TNone, cmd) :: a ++ (TNone, op) :: tgt :: b) with (((TNone, cmd) :: a) ++ (TNone, op) :: tgt :: b).
      destruct Hop as [-> | ->].
      - assert (E1 : take_from s_lt (((TNone, cmd) :: a) ++ (TNone, s_lt) :: tgt :: b, [], []) = (((TNone, cmd) :: a) ++ b, s_lt, snd tgt))
          by (apply take_from_found; apply Pa; now left).
        etransitivity; [exact (f_equal (take_from s_lt3) E1)|].
        apply take_from_absent. apply Pab. now right.
      - assert (E1 : take_from s_lt (((TNone, cmd) :: a) ++ (TNone, s_lt3) :: tgt :: b, [], []) = (((TNone, cmd) :: a) ++ (TNone, s_lt3) :: tgt :: b, [], [])).
        { apply take_from_absent.
          change (((TNone, cmd) :: a) ++ (TNone, s_lt3) :: tgt :: b) with ((TNone, cmd) :: a ++ (TNone, s_lt3) :: tgt :: b).
          rewrite (cmd_position s_lt cmd _ Hc (or_introl eq_refl)).
          rewrite (position_none s_lt (a ++ (TNone, s_lt3) :: tgt :: b)); [reflexivity|].
          assert (Hi : forall t, inert_tok t = true -> tag_eqb (fst t) TNone && str_eqb (snd t) s_lt = false).
          { intros [tg x] H. cbn [fst snd]. apply inert_tok_cases in H as [H|(_ & _ & H & _)]; rewrite H; [reflexivity|apply andb_false_r]. }
          intros t Hin. apply in_app_or in Hin as [Hin|[<-|[<-|Hin]]].
          - apply Hi. rewrite forallb_forall in Ha. now apply Ha.
          - reflexivity.
          - now apply Hi.
          - apply Hi. rewrite forallb_forall in Hb. now apply Hb. }
        etransitivity; [exact (f_equal (take_from s_lt3) E1)|].
        apply (take_from_found s_lt3 ((TNone, cmd) :: a) tgt b [] []). apply Pa. now right. }
    assert (Hfl : from_loop (S (length ((TNone, cmd) :: a ++ (TNone, op) :: tgt :: b))) ((TNone, cmd) :: a ++ (TNone, op) :: tgt :: b, [], [])
                  = Some ((TNone, cmd) :: a ++ b, op, snd tgt)).
    { cbn [length]. apply from_loop_one; assumption. }
    match goal with |- context [from_loop ?f ?x] =>
      replace (from_loop f x) with (Some ((TNone, cmd) :: a ++ b, op, snd tgt)) by (symmetry; exact Hfl) end.
    match goal with |- context [tokens_to_redirections ?x] =>
      replace (tokens_to_redirections x) with (@inl (list token * list redirection) rerr ((TNone, cmd) :: a ++ b, []))
        by (symmetry; exact (ttr_inert cmd (a ++ b) Hc Hab)) end.
    destruct Hop as [-> | ->]; reflexivity. }
  match goal with |- context [from_tokens ?x] =>
    replace (from_tokens x) with (@inl command perr (mkc ((TNone, cmd) :: a ++ b) [] (Some (op, snd tgt)))) by (symmetry; exact Hfrom) end.
  reflexivity.
Qed.
