(** C15, round 9: set -e through function calls to any depth, UNBOUNDED, with the executed-command
    trace stated explicitly. Model: Model/ShellScript.v (run_script / run_lines / try_run_func with
    exit_on_error and the function table as shell state). Level: the already-parsed representation --
    a text enters through [flat_parsed text lines] (the generated grammar parses it to one EXP pair whose
    children are the CMD pairs of [lines] followed by pairs with empty text, i.e. EOI); the text -> lines
    step is computed in the instances (Properties/C15.v) and is C14_parse_flat for the fragment.
    Reference: [unfold] inlines every call (call depth bounded by the fuel, None = out of fuel or a
    `source` line), [upto_fail] cuts the inlined command sequence after the first failing command,
    [fail_status] is that command's status (0 if none fails). *)
From Cicada Require Import Base.Chars Base.Peg Gen.LocustGrammar Model.Script Model.ScriptAst Model.Args Model.ShellScript Model.Cmds Model.ListExec Model.CondLine
  Proofs.ScriptProofs Proofs.SetEProofs Proofs.ShellProofs.
From Coq Require Import ZArith Lia.
Local Open Scope N_scope.

(** ---- statuses ---- *)
Lemma last_or_zero_cons0 l : last_or_zero (0%Z :: l) = last_or_zero l.
Proof. destruct l; reflexivity. Qed.

Lemma last_status_or_zero l : last_or_zero l = match last_status l with Some z => z | None => 0%Z end.
Proof.
  induction l as [|x l IH]; [reflexivity|]. destruct l as [|y l]; [reflexivity|].
  change (last_or_zero (x :: y :: l)) with (last_or_zero (y :: l)).
  change (last_status (x :: y :: l)) with (last_status (y :: l)). exact IH.
Qed.

Lemma last_nz_or_zero l : last_is_nonzero l = negb (Z.eqb (last_or_zero l) 0).
Proof. unfold last_is_nonzero. rewrite last_status_or_zero. destruct (last_status l); reflexivity. Qed.

Lemma last_or_zero_app acc sts : last_is_nonzero acc = false ->
  last_or_zero (acc ++ sts) = last_or_zero sts.
Proof.
  intro H. destruct sts as [|s sts].
  - rewrite app_nil_r. rewrite last_nz_or_zero in H. apply negb_false_iff, Z.eqb_eq in H. exact H.
  - induction acc as [|a acc IH]; [reflexivity|].
    assert (Ha : last_is_nonzero acc = false).
    { destruct acc as [|b acc]; [reflexivity|]. exact H. }
    specialize (IH Ha). cbn [app]. destruct (acc ++ s :: sts)%list as [|y r] eqn:E.
    + destruct acc; discriminate E.
    + exact IH.
Qed.

(** ---- one pipeline per line ---- *)
Definition single_pipe (l : str) : bool :=
  match line_to_cmds l with
  | [t] => str_eqb t l && match op_of t with OpNone => true | _ => false end
  | _ => false
  end.

Lemma run_line_single (W : Type) (run : W -> str -> W * Z) w l : single_pipe l = true ->
  run_line_of W run w l = (fst (run w l), [snd (run w l)]).
Proof.
  unfold single_pipe, run_line_of, run_command_line, run_tokens. intro H.
  destruct (line_to_cmds l) as [|t [|t2 r]]; try discriminate H.
  apply andb_prop in H as [H1 H2]. apply str_eqb_eq in H1. subst t.
  cbn [fold_left]. unfold exec_token. destruct (op_of l); try discriminate H2.
  cbn [e_sep e_w e_ran]. destruct (run w l) as [w1 st]. reflexivity.
Qed.

(** a script / body line of the theorem: non-empty, not break / continue, one pipeline *)
Definition ok_line (l : str) : bool := wf_line l && single_pipe l.

(** ---- first failure in a command sequence ---- *)
Section Spec.
Variable ext : str -> Z.

Fixpoint upto_fail (cmds : list str) : list str :=
  match cmds with
  | [] => []
  | c :: r => if Z.eqb (ext c) 0 then c :: upto_fail r else [c]
  end.

Fixpoint fail_status (cmds : list str) : Z :=
  match cmds with
  | [] => 0%Z
  | c :: r => if Z.eqb (ext c) 0 then fail_status r else ext c
  end.

Lemma fail_app_stop a b : Z.eqb (fail_status a) 0 = false ->
  upto_fail (a ++ b) = upto_fail a /\ fail_status (a ++ b) = fail_status a.
Proof.
  induction a as [|c a IH]; intro H; [discriminate H|]. cbn [app upto_fail fail_status] in *.
  destruct (Z.eqb (ext c) 0); [|split; reflexivity].
  destruct (IH H) as [I1 I2]. rewrite I1, I2. split; reflexivity.
Qed.

Lemma fail_app_go a b : Z.eqb (fail_status a) 0 = true ->
  upto_fail a = a /\ upto_fail (a ++ b) = (a ++ upto_fail b)%list /\ fail_status (a ++ b) = fail_status b.
Proof.
  induction a as [|c a IH]; intro H; [repeat split|]. cbn [app upto_fail fail_status] in *.
  destruct (Z.eqb (ext c) 0) eqn:E; [|rewrite E in H; discriminate H].
  destruct (IH H) as [I0 [I1 I2]]. rewrite I0, I1, I2. repeat split.
Qed.

(** what the two functions say, in words: *)
Theorem upto_fail_first pre c post :
  (forall x, In x pre -> ext x = 0%Z) -> ext c <> 0%Z ->
  upto_fail (pre ++ c :: post) = (pre ++ [c])%list /\ fail_status (pre ++ c :: post) = ext c.
Proof.
  intros Hp Hc. induction pre as [|x pre IH]; cbn [app upto_fail fail_status].
  - apply Z.eqb_neq in Hc. rewrite Hc. split; reflexivity.
  - rewrite (Hp x (or_introl eq_refl)). cbn [Z.eqb].
    destruct IH as [I1 I2]; [intros y Hy; apply Hp; right; exact Hy|]. rewrite I1, I2. split; reflexivity.
Qed.

Theorem upto_fail_none cmds : (forall x, In x cmds -> ext x = 0%Z) ->
  upto_fail cmds = cmds /\ fail_status cmds = 0%Z.
Proof.
  intro H. induction cmds as [|x r IH]; [split; reflexivity|]. cbn [upto_fail fail_status].
  rewrite (H x (or_introl eq_refl)). cbn [Z.eqb].
  destruct IH as [I1 I2]; [intros y Hy; apply H; right; exact Hy|]. rewrite I1, I2. split; reflexivity.
Qed.
End Spec.

(** ---- parsed texts ---- *)
Definition empty_node (t : ttree) : bool := is_empty (t_txt t).

(** the lines of a flat pair list: EOI pairs are skipped by every consumer, and so are CMD pairs with empty
    text (blank lines); any other CMD pair contributes its (trimmed) text; anything else is not flat *)
Fixpoint skel (ks : list ttree) : option (list str) :=
  match ks with
  | [] => Some []
  | k :: r =>
      if t_rule k =? L_EOI then skel r
      else if t_rule k =? L_CMD then
        (if is_empty (t_txt k) then skel r else option_map (cons (t_txt k)) (skel r))
      else None
  end.

Definition flat_parsed (text : str) (lines : list str) : Prop :=
  exists p r pairs rule txt kids0,
    parse_from l_grammar L_EXP text = POk p r pairs /\
    map (annotate text) pairs = [TNode rule txt kids0] /\
    skel kids0 = Some lines.

Lemma exp_loop_skel (W : Type) rl (eoe : W -> bool) rif rfor rwh il : forall ks lines, skel ks = Some lines ->
  forall w acc, exp_loop W rl eoe rif rfor rwh il ks w acc =
                exp_loop W rl eoe rif rfor rwh il (map cmd_node lines ++ []) w acc.
Proof.
  induction ks as [|k ks IH]; intros lines H w acc.
  - injection H as <-. reflexivity.
  - destruct k as [r x kk]. cbn [skel t_rule t_txt] in H.
    destruct (r =? L_EOI) eqn:E.
    + apply N.eqb_eq in E. subst r. cbn [exp_loop t_txt t_rule].
      destruct (is_empty x); [apply IH, H|].
      change (L_EOI =? L_CMD) with false. change (L_EOI =? L_EXP_IF) with false.
      change (L_EOI =? L_EXP_FOR) with false. change (L_EOI =? L_EXP_WHILE) with false.
      apply IH, H.
    + destruct (r =? L_CMD) eqn:E2; [|discriminate H]. apply N.eqb_eq in E2. subst r.
      destruct (is_empty x) eqn:Ex.
      { cbn [exp_loop t_txt]. rewrite Ex. apply IH, H. }
      destruct (skel ks) as [ls|] eqn:S; [|discriminate H]. injection H as <-.
      cbn [map app exp_loop cmd_node t_txt t_rule]. rewrite Ex, N.eqb_refl.
      destruct (str_eqb x kw_continue); [destruct il; [reflexivity | apply IH; reflexivity]|].
      destruct (str_eqb x kw_break); [destruct il; [reflexivity | apply IH; reflexivity]|].
      destruct (rl w x) as [w1 crs].
      destruct (last_is_nonzero (acc ++ crs) && eoe w1); [reflexivity | apply IH; reflexivity].
Qed.

Lemma run_pairs_one (W : Type) rl fw sv (eoe : W -> bool) n d rule txt kids w :
  run_pairs W rl fw sv eoe n (S d) [TNode rule txt kids] w [] =
  match exp_loop W rl eoe (run_exp_if W rl fw sv eoe n d) (run_exp_for W rl fw sv eoe n d)
          (run_exp_while W rl fw sv eoe n d) false kids w [] with
  | Done w1 crs _ _ => Done w1 crs false false
  | x => x
  end.
Proof. reflexivity. Qed.

(** the function table of the state (name, body text) against the reference table (name, body lines) *)
Inductive tab_ok : list (str * str) -> list (str * list str) -> Prop :=
| tab_nil : tab_ok [] []
| tab_cons k text lines ft rt :
    flat_parsed text lines -> forallb ok_line lines = true -> tab_ok ft rt ->
    tab_ok ((k, text) :: ft) ((k, lines) :: rt).

Fixpoint get_body (name : str) (rt : list (str * list str)) : option (list str) :=
  match rt with
  | [] => None
  | (k, v) :: r => if str_eqb k name then Some v else get_body name r
  end.

Lemma tab_lookup ft rt : tab_ok ft rt -> forall name,
  match get_func name ft with
  | Some text => exists lines, get_body name rt = Some lines /\ flat_parsed text lines /\ forallb ok_line lines = true
  | None => get_body name rt = None
  end.
Proof.
  induction 1 as [|k text lines ft rt Hp Hok Ht IH]; intro name; [reflexivity|].
  cbn [get_func get_body]. destruct (str_eqb k name); [|apply IH].
  exists lines. repeat split; assumption.
Qed.

(** ---- the reference: calls inlined ---- *)
Inductive kind := KNop | KSource | KCall (body : list str) | KExt.

Section Ref.
Variable rt : list (str * list str).

Definition classify (l : str) : kind :=
  match cmd_words l with
  | [] => KNop
  | cmd :: args =>
      if str_eqb cmd [115; 101; 116] && match args with [a] => str_eqb a [45; 101] | _ => false end then KNop
      else if str_eqb cmd s_source then KSource
      else match get_body cmd rt with Some b => KCall b | None => KExt end
  end.

Section U.
Variable rec : list str -> option (list str).
Fixpoint unfold_lines (ls : list str) : option (list str) :=
  match ls with
  | [] => Some []
  | l :: r =>
      match classify l with
      | KNop => unfold_lines r
      | KSource => None
      | KCall body =>
          match rec body, unfold_lines r with
          | Some a, Some b => Some (a ++ b)%list
          | _, _ => None
          end
      | KExt => match unfold_lines r with Some b => Some (l :: b) | None => None end
      end
  end.
End U.

(** the external commands of [lines] in execution order, every call replaced by the commands of the
    body (recursively); `set -e` lines and lines without words contribute nothing; None when the call
    depth exceeds the fuel (the model's out-of-fuel case) or a `source` line is met *)
Fixpoint unfold (fuel : nat) : list str -> option (list str) :=
  match fuel with
  | O => fun _ => None
  | S f => unfold_lines (unfold f)
  end.
End Ref.

(** ---- the model against the reference ---- *)
Section Calls.
Variable ext : str -> Z.
Variable file_text : str -> option str.
Variable n : nat.
Variable ft : list (str * str).
Variable rt : list (str * list str).
Hypothesis Htab : tab_ok ft rt.

Notation XL f := (exec_line ext file_text n f).

Lemma tail_loop rif rfor rwh tail : forallb empty_node tail = true -> forall fuel w acc,
  exp_loop shs (XL fuel) s_eoe rif rfor rwh false tail w acc = Done w acc false false.
Proof.
  induction tail as [|t tail IH]; intros H fuel w acc; [reflexivity|].
  cbn [forallb] in H. apply andb_prop in H as [H1 H2]. unfold empty_node in H1.
  cbn [exp_loop]. rewrite H1. apply IH, H2.
Qed.

Lemma loop_step rif rfor rwh fuel l rest w acc :
  ok_line l = true -> last_is_nonzero acc = false ->
  s_eoe (fst (exec_pipe ext file_text n fuel w l)) = true ->
  exp_loop shs (XL fuel) s_eoe rif rfor rwh false (cmd_node l :: rest) w acc =
  if Z.eqb (snd (exec_pipe ext file_text n fuel w l)) 0
  then exp_loop shs (XL fuel) s_eoe rif rfor rwh false rest (fst (exec_pipe ext file_text n fuel w l))
         (acc ++ [snd (exec_pipe ext file_text n fuel w l)])
  else Done (fst (exec_pipe ext file_text n fuel w l)) (acc ++ [snd (exec_pipe ext file_text n fuel w l)]) false false.
Proof.
  intros Hok Hacc He. unfold ok_line in Hok. apply andb_prop in Hok as [Hl Hs].
  unfold wf_line in Hl. apply andb_prop in Hl as [Hl H3]. apply andb_prop in Hl as [H1 H2].
  apply negb_true_iff in H1, H2, H3.
  cbn [exp_loop cmd_node t_txt t_rule]. rewrite H1, H2, H3, N.eqb_refl.
  unfold exec_line at 1. rewrite (run_line_single shs _ w l Hs).
  rewrite He, andb_true_r, (last_nz_app acc _ Hacc).
  unfold last_is_nonzero. cbn [last_status].
  destruct (Z.eqb (snd (exec_pipe ext file_text n fuel w l)) 0); reflexivity.
Qed.

Definition main_at (fuel : nat) : Prop :=
  forall lines cmds, forallb ok_line lines = true -> unfold rt fuel lines = Some cmds ->
  forall rif rfor rwh tail w acc, forallb empty_node tail = true ->
    s_eoe w = true -> s_funcs w = ft -> last_is_nonzero acc = false ->
  exists sts,
    exp_loop shs (XL fuel) s_eoe rif rfor rwh false (map cmd_node lines ++ tail) w acc =
      Done (mk_shs true ft (s_log w ++ upto_fail ext cmds)) (acc ++ sts) false false
    /\ last_or_zero sts = fail_status ext cmds.

Lemma body_call f : main_at f -> forall text body cmds w,
  flat_parsed text body -> forallb ok_line body = true -> unfold rt f body = Some cmds ->
  s_eoe w = true -> s_funcs w = ft ->
  exists sts,
    run_lines shs (XL f) no_words no_setvar s_eoe n text w =
      Some (Done (mk_shs true ft (s_log w ++ upto_fail ext cmds)) sts false false)
    /\ last_or_zero sts = fail_status ext cmds.
Proof.
  intros IH text body cmds w [p [r [pairs [rule [txt [tail [Hp [Hm Ht]]]]]]]] Hok Hu He Hf.
  unfold run_lines. rewrite Hp, Hm, run_pairs_one. erewrite exp_loop_skel by exact Ht.
  destruct (IH body cmds Hok Hu
              (run_exp_if shs (XL f) no_words no_setvar s_eoe n (length text))
              (run_exp_for shs (XL f) no_words no_setvar s_eoe n (length text))
              (run_exp_while shs (XL f) no_words no_setvar s_eoe n (length text))
              [] w [] eq_refl He Hf eq_refl) as [sts [H1 H2]].
  rewrite H1. cbn [app]. exists sts. split; [reflexivity | exact H2].
Qed.

Lemma main_all : forall fuel, main_at fuel.
Proof.
  induction fuel as [|f IHf]; [intros lines cmds _ H; discriminate H|].
  intros lines. induction lines as [|l r IHr]; intros cmds Hok Hu rif rfor rwh tail w acc Ht He Hf Hacc.
  - cbn [unfold unfold_lines] in Hu. injection Hu as <-. cbn [map app upto_fail fail_status].
    rewrite (tail_loop rif rfor rwh tail Ht). exists []. rewrite !app_nil_r.
    destruct w as [e fs lg]. cbn [s_eoe s_funcs s_log] in *. subst. split; reflexivity.
  - cbn [forallb] in Hok. apply andb_prop in Hok as [Hl Hr].
    change (unfold rt (S f) (l :: r)) with (unfold_lines rt (unfold rt f) (l :: r)) in Hu.
    cbn [unfold_lines] in Hu.
    change (unfold_lines rt (unfold rt f) r) with (unfold rt (S f) r) in Hu.
    cbn [map app].
    (* what the line is, on the model side and on the reference side *)
    assert (Hnop : forall w1, s_eoe w1 = true -> s_funcs w1 = ft -> s_log w1 = s_log w ->
              exec_pipe ext file_text n (S f) w l = (w1, 0%Z) -> unfold rt (S f) r = Some cmds ->
              exists sts, exp_loop shs (XL (S f)) s_eoe rif rfor rwh false (cmd_node l :: map cmd_node r ++ tail) w acc =
                Done (mk_shs true ft (s_log w ++ upto_fail ext cmds)) (acc ++ sts) false false
                /\ last_or_zero sts = fail_status ext cmds).
    { intros w1 He1 Hf1 Hl1 Hx Hu1.
      rewrite (loop_step rif rfor rwh (S f) l _ w acc Hl Hacc) by (rewrite Hx; exact He1).
      rewrite Hx. cbn [fst snd Z.eqb].
      destruct (IHr cmds Hr Hu1 rif rfor rwh tail w1 (acc ++ [0%Z]) Ht He1 Hf1) as [sts [I1 I2]].
      { rewrite (last_nz_app acc _ Hacc). reflexivity. }
      rewrite I1, Hl1. exists (0%Z :: sts). rewrite <- app_assoc. cbn [app].
      split; [reflexivity|]. rewrite last_or_zero_cons0. exact I2. }
    unfold classify in Hu.
    pose proof (exec_pipe_S ext file_text n f w l) as Hx.
    destruct (cmd_words l) as [|cmd args].
    { apply (Hnop w He Hf eq_refl Hx Hu). }
    destruct (str_eqb cmd [115; 101; 116] && match args with [a] => str_eqb a [45; 101] | _ => false end).
    { apply (Hnop (mk_shs true (s_funcs w) (s_log w)) eq_refl Hf eq_refl Hx Hu). }
    destruct (str_eqb cmd s_source); [discriminate Hu|].
    pose proof (tab_lookup ft rt Htab cmd) as Hlk. rewrite Hf in Hx.
    destruct (get_func cmd ft) as [text|].
    + destruct Hlk as [body [Hb [Hpar Hbok]]]. rewrite Hb in Hu.
      destruct (unfold rt f body) as [a|] eqn:Ua; [|discriminate Hu].
      destruct (unfold rt (S f) r) as [b|] eqn:Ub; [|discriminate Hu]. injection Hu as <-.
      destruct (body_call f IHf text body a w Hpar Hbok Ua He Hf) as [bs [R1 R2]].
      change (run_line_of shs (exec_pipe ext file_text n f)) with (XL f) in Hx.
      rewrite R1 in Hx. unfold func_call_status in Hx. rewrite R2 in Hx.
      rewrite (loop_step rif rfor rwh (S f) l _ w acc Hl Hacc) by (rewrite Hx; reflexivity).
      rewrite Hx. cbn [fst snd].
      destruct (Z.eqb (fail_status ext a) 0) eqn:Ez.
      * destruct (fail_app_go ext a b Ez) as [G0 [G1 G2]].
        destruct (IHr b Hr eq_refl rif rfor rwh tail (mk_shs true ft (s_log w ++ upto_fail ext a))
                    (acc ++ [fail_status ext a]) Ht eq_refl eq_refl) as [sts [I1 I2]].
        { rewrite (last_nz_app acc _ Hacc). unfold last_is_nonzero. cbn [last_status]. rewrite Ez. reflexivity. }
        rewrite I1. cbn [s_log]. exists (fail_status ext a :: sts).
        rewrite G1, G2, G0, <- !app_assoc. cbn [app]. split; [reflexivity|].
        apply Z.eqb_eq in Ez. rewrite Ez, last_or_zero_cons0. exact I2.
      * destruct (fail_app_stop ext a b Ez) as [G1 G2]. exists [fail_status ext a].
        rewrite G1, G2. split; reflexivity.
    + rewrite Hlk in Hu.
      destruct (unfold rt (S f) r) as [b|] eqn:Ub; [|discriminate Hu]. injection Hu as <-.
      rewrite (loop_step rif rfor rwh (S f) l _ w acc Hl Hacc) by (rewrite Hx; exact He).
      rewrite Hx. cbn [fst snd upto_fail fail_status].
      destruct (Z.eqb (ext l) 0) eqn:Ez.
      * destruct (IHr b Hr eq_refl rif rfor rwh tail (mk_shs (s_eoe w) ft (s_log w ++ [l]))
                    (acc ++ [ext l]) Ht He eq_refl) as [sts [I1 I2]].
        { rewrite (last_nz_app acc _ Hacc). unfold last_is_nonzero. cbn [last_status]. rewrite Ez. reflexivity. }
        rewrite I1. cbn [s_log]. exists (ext l :: sts). rewrite <- !app_assoc. cbn [app].
        split; [reflexivity|]. apply Z.eqb_eq in Ez. rewrite Ez, last_or_zero_cons0. exact I2.
      * exists [ext l]. rewrite He. split; reflexivity.
Qed.

(** A body / script text that is already under set -e: the whole run_lines. *)
Theorem sete_calls_lines : forall fuel text lines cmds w,
  flat_parsed text lines -> forallb ok_line lines = true -> unfold rt fuel lines = Some cmds ->
  s_eoe w = true -> s_funcs w = ft ->
  exists sts,
    run_lines shs (XL fuel) no_words no_setvar s_eoe n text w =
      Some (Done (mk_shs true ft (s_log w ++ upto_fail ext cmds)) sts false false)
    /\ script_status sts = fail_status ext cmds.
Proof. intros fuel text lines cmds w. apply (body_call fuel (main_all fuel)). Qed.

End Calls.

(** The script: run_script on a file whose text, after the function definitions have been taken out
    by function_table, is `set -e` followed by [lines]. *)
Theorem sete_calls_script : forall ext file_text n fuel path text defs text_new rt sete lines cmds w,
  file_text path = Some text -> function_table text = (defs, text_new) ->
  tab_ok (set_funcs defs (s_funcs w)) rt ->
  flat_parsed text_new (sete :: lines) ->
  cmd_words sete = [[115; 101; 116]; [45; 101]] ->
  forallb ok_line (sete :: lines) = true ->
  unfold rt (S fuel) lines = Some cmds ->
  run_script ext file_text n (S (S fuel)) w path =
    (mk_shs (s_eoe w) (set_funcs defs (s_funcs w)) (s_log w ++ upto_fail ext cmds), fail_status ext cmds).
Proof.
  intros ext file_text n fuel path text defs text_new rt sete lines cmds w Hfile Hft Htab Hpar Hse Hok Hu.
  rewrite run_script_S, Hfile, Hft. cbv zeta.
  change (run_line_of shs (exec_pipe ext file_text n (S fuel))) with (exec_line ext file_text n (S fuel)).
  destruct Hpar as [p [r [pairs [rule [txt [tail [Hp [Hm Ht]]]]]]]].
  unfold run_lines. rewrite Hp, Hm, run_pairs_one. erewrite exp_loop_skel by exact Ht. cbn [map app].
  cbn [forallb] in Hok. apply andb_prop in Hok as [Hl Hr].
  set (w0 := mk_shs (s_eoe w) (set_funcs defs (s_funcs w)) (s_log w)).
  assert (Hx : exec_pipe ext file_text n (S fuel) w0 sete = (mk_shs true (s_funcs w0) (s_log w0), 0%Z)).
  { rewrite exec_pipe_S, Hse. reflexivity. }
  rewrite (loop_step ext file_text n _ _ _ (S fuel) sete _ w0 [] Hl eq_refl) by (rewrite Hx; reflexivity).
  rewrite Hx. cbn [fst snd Z.eqb app].
  destruct (main_all ext file_text n (set_funcs defs (s_funcs w)) rt Htab (S fuel) lines cmds Hr Hu
              (run_exp_if shs (exec_line ext file_text n (S fuel)) no_words no_setvar s_eoe n (length text_new))
              (run_exp_for shs (exec_line ext file_text n (S fuel)) no_words no_setvar s_eoe n (length text_new))
              (run_exp_while shs (exec_line ext file_text n (S fuel)) no_words no_setvar s_eoe n (length text_new))
              [] (mk_shs true (s_funcs w0) (s_log w0)) [0%Z] eq_refl eq_refl eq_refl eq_refl) as [sts [H1 H2]].
  rewrite H1. cbn [app s_funcs s_log]. unfold w0. cbn [s_log s_funcs]. f_equal.
  unfold script_status. rewrite last_or_zero_cons0. exact H2.
Qed.

(** ---- `set -e` at any top-level position, after external commands run without the flag ---- *)
Definition is_ext_line (rt : list (str * list str)) (l : str) : bool :=
  match classify rt l with KExt => true | _ => false end.

Section Prefix.
Variable ext : str -> Z.
Variable file_text : str -> option str.
Variable n : nat.
Variable ft : list (str * str).
Variable rt : list (str * list str).
Hypothesis Htab : tab_ok ft rt.

Lemma prefix_ext rif rfor rwh f : forall pre, forallb ok_line pre = true -> forallb (is_ext_line rt) pre = true ->
  forall rest w acc, s_eoe w = false -> s_funcs w = ft ->
  exp_loop shs (exec_line ext file_text n (S f)) s_eoe rif rfor rwh false (map cmd_node pre ++ rest) w acc =
  exp_loop shs (exec_line ext file_text n (S f)) s_eoe rif rfor rwh false rest
    (mk_shs false ft (s_log w ++ pre)) (acc ++ map ext pre).
Proof.
  induction pre as [|l r IH]; intros Hok Hx rest w acc He Hf.
  - cbn [map app]. rewrite !app_nil_r. destruct w as [e fs lg]. cbn [s_eoe s_funcs s_log] in *. subst. reflexivity.
  - cbn [forallb] in Hok, Hx. apply andb_prop in Hok as [Hl Hr]. apply andb_prop in Hx as [Hxl Hxr].
    unfold ok_line in Hl. apply andb_prop in Hl as [Hl Hs].
    unfold wf_line in Hl. apply andb_prop in Hl as [Hl H3]. apply andb_prop in Hl as [H1 H2].
    apply negb_true_iff in H1, H2, H3.
    assert (Hp : exec_pipe ext file_text n (S f) w l = (mk_shs (s_eoe w) (s_funcs w) (s_log w ++ [l]), ext l)).
    { rewrite exec_pipe_S. unfold is_ext_line, classify in Hxl.
      destruct (cmd_words l) as [|cmd args]; [discriminate Hxl|].
      destruct (str_eqb cmd [115; 101; 116] && match args with [a] => str_eqb a [45; 101] | _ => false end); [discriminate Hxl|].
      destruct (str_eqb cmd s_source); [discriminate Hxl|].
      pose proof (tab_lookup ft rt Htab cmd) as Hlk. rewrite Hf.
      destruct (get_func cmd ft) as [text|]; [|reflexivity].
      destruct Hlk as [body [Hb _]]. rewrite Hb in Hxl. discriminate Hxl. }
    cbn [map app exp_loop cmd_node t_txt t_rule]. rewrite H1, H2, H3, N.eqb_refl.
    unfold exec_line at 1. rewrite (run_line_single shs _ w l Hs), Hp. cbn [fst snd s_eoe].
    rewrite He, andb_false_r.
    rewrite (IH Hr Hxr rest (mk_shs false (s_funcs w) (s_log w ++ [l])) (acc ++ [ext l]) eq_refl Hf).
    cbn [s_log map]. rewrite <- !app_assoc. reflexivity.
Qed.
End Prefix.

Theorem sete_calls_script_at : forall ext file_text n fuel path text defs text_new rt pre sete lines cmds w,
  file_text path = Some text -> function_table text = (defs, text_new) ->
  tab_ok (set_funcs defs (s_funcs w)) rt ->
  flat_parsed text_new (pre ++ sete :: lines) ->
  s_eoe w = false ->
  forallb ok_line pre = true -> forallb (is_ext_line rt) pre = true ->
  cmd_words sete = [[115; 101; 116]; [45; 101]] ->
  forallb ok_line (sete :: lines) = true ->
  unfold rt (S fuel) lines = Some cmds ->
  run_script ext file_text n (S (S fuel)) w path =
    (mk_shs false (set_funcs defs (s_funcs w)) (s_log w ++ pre ++ upto_fail ext cmds), fail_status ext cmds).
Proof.
  intros ext file_text n fuel path text defs text_new rt pre sete lines cmds w Hfile Hft Htab Hpar He Hpok Hpx Hse Hok Hu.
  rewrite run_script_S, Hfile, Hft. cbv zeta.
  change (run_line_of shs (exec_pipe ext file_text n (S fuel))) with (exec_line ext file_text n (S fuel)).
  destruct Hpar as [p [r [pairs [rule [txt [tail [Hp [Hm Ht]]]]]]]].
  unfold run_lines. rewrite Hp, Hm, run_pairs_one. erewrite exp_loop_skel by exact Ht. rewrite map_app, <- app_assoc.
  cbn [forallb] in Hok. apply andb_prop in Hok as [Hl Hr].
  set (w0 := mk_shs (s_eoe w) (set_funcs defs (s_funcs w)) (s_log w)).
  rewrite (prefix_ext ext file_text n (set_funcs defs (s_funcs w)) rt Htab _ _ _ fuel pre Hpok Hpx _ w0 [] He eq_refl).
  cbn [map app].
  set (w1 := mk_shs false (set_funcs defs (s_funcs w)) (s_log w0 ++ pre)).
  assert (Hx : exec_pipe ext file_text n (S fuel) w1 sete = (mk_shs true (s_funcs w1) (s_log w1), 0%Z)).
  { rewrite exec_pipe_S, Hse. reflexivity. }
  (* the statuses of the prefix may fail: the flag was off; the step for set -e is done by hand *)
  unfold ok_line in Hl. apply andb_prop in Hl as [Hl Hs].
  unfold wf_line in Hl. apply andb_prop in Hl as [Hl H3]. apply andb_prop in Hl as [H1 H2].
  apply negb_true_iff in H1, H2, H3.
  cbn [exp_loop cmd_node t_txt t_rule]. rewrite H1, H2, H3, N.eqb_refl.
  unfold exec_line at 1. rewrite (run_line_single shs _ w1 sete Hs), Hx. cbn [fst snd s_eoe].
  assert (Hz : last_is_nonzero (map ext pre ++ [0%Z]) = false).
  { clear. induction (map ext pre) as [|a l IH]; [reflexivity|]. cbn [app].
    destruct l as [|b l]; [reflexivity|]. exact IH. }
  rewrite Hz. cbn [andb].
  destruct (main_all ext file_text n (set_funcs defs (s_funcs w)) rt Htab (S fuel) lines cmds Hr Hu
              (run_exp_if shs (exec_line ext file_text n (S fuel)) no_words no_setvar s_eoe n (length text_new))
              (run_exp_for shs (exec_line ext file_text n (S fuel)) no_words no_setvar s_eoe n (length text_new))
              (run_exp_while shs (exec_line ext file_text n (S fuel)) no_words no_setvar s_eoe n (length text_new))
              [] (mk_shs true (s_funcs w1) (s_log w1)) (map ext pre ++ [0%Z]) eq_refl eq_refl eq_refl Hz) as [sts [G1 G2]].
  rewrite G1. cbn [s_funcs s_log]. unfold w1, w0. cbn [s_log s_funcs]. rewrite He, <- app_assoc. f_equal.
  unfold script_status. rewrite (last_or_zero_app _ sts Hz). exact G2.
Qed.
