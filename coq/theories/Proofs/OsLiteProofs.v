(* Facts about OsLite tables, and the representation predicate used by the pipeline proofs:
   Rep B live T  =  table T is the base function B plus the live entries (number, entry),
   whose numbers are pairwise distinct and free in B. *)
From Coq Require Import List Arith Bool Lia Permutation.
From Cicada Require Import Model.OsLite.
Import ListNotations.

Lemma lookup_nil : forall fd, lookup [] fd = None.
Proof. destruct fd; reflexivity. Qed.

Lemma lookup_set_eq : forall t fd v, lookup (set t fd v) fd = v.
Proof.
  induction t as [|x r IH]; intros fd v.
  - induction fd as [|n IHn]; cbn; auto.
  - destruct fd; cbn; auto.
Qed.

Lemma lookup_set_nil_neq : forall fd x v, x <> fd -> lookup (set [] fd v) x = None.
Proof.
  induction fd as [|n IH]; intros x v H; destruct x; cbn; try congruence; auto using lookup_nil.
Qed.

Lemma lookup_set_neq : forall t fd x v, x <> fd -> lookup (set t fd v) x = lookup t x.
Proof.
  induction t as [|y r IH]; intros fd x v H.
  - rewrite lookup_nil. apply lookup_set_nil_neq; auto.
  - destruct fd, x; cbn; try congruence; auto.
Qed.

Lemma lowest_free_free : forall t, lookup t (lowest_free t) = None.
Proof. induction t as [|[e|] r IH]; cbn; auto. Qed.

Lemma lookup_close : forall t fd x,
  lookup (close t fd) x = if Nat.eqb x fd then None else lookup t x.
Proof.
  intros t fd x. unfold close, held.
  destruct (Nat.eqb_spec x fd) as [->|N].
  - destruct (lookup t fd) eqn:E; [apply lookup_set_eq | exact E].
  - destruct (lookup t fd); [apply lookup_set_neq; auto | reflexivity].
Qed.

Lemma close_free : forall t fd, lookup t fd = None -> close t fd = t.
Proof. intros t fd H. unfold close, held. rewrite H. reflexivity. Qed.

Lemma lookup_dup2 : forall t s d x o c, lookup t s = Some (o, c) -> s <> d ->
  lookup (dup2 t s d) x = if Nat.eqb x d then Some (o, false) else lookup t x.
Proof.
  intros t s d x o c H N. unfold dup2. rewrite H.
  destruct (Nat.eqb_spec s d); [congruence|].
  destruct (Nat.eqb_spec x d) as [->|N2]; [apply lookup_set_eq | apply lookup_set_neq; auto].
Qed.

Lemma dup2_ebadf : forall t s d, lookup t s = None -> dup2 t s d = t.
Proof. intros t s d H. unfold dup2. rewrite H. reflexivity. Qed.

Lemma lookup_alloc : forall t e x,
  lookup (fst (alloc t e)) x = if Nat.eqb x (lowest_free t) then Some e else lookup t x.
Proof.
  intros t e x. unfold alloc. cbn [fst].
  destruct (Nat.eqb_spec x (lowest_free t)) as [->|N]; [apply lookup_set_eq | apply lookup_set_neq; auto].
Qed.

Lemma lookup_exec_drop : forall t x, lookup (exec_drop t) x = drop_cx (lookup t x).
Proof.
  induction t as [|y r IH]; intros x.
  - rewrite !lookup_nil. reflexivity.
  - destruct x; cbn; auto.
Qed.

(* ------------------------------------------------------------------ Rep *)
Definition keys (l : list (nat * entry)) : list nat := map fst l.
Definition teq (a b : table) : Prop := forall x, lookup a x = lookup b x.

Definition Rep (B : nat -> option entry) (live : list (nat * entry)) (T : table) : Prop :=
  NoDup (keys live) /\
  (forall fd e, In (fd, e) live -> lookup T fd = Some e /\ B fd = None) /\
  (forall x, ~ In x (keys live) -> lookup T x = B x).

Lemma rep_nil : forall B T, Rep B [] T <-> (forall x, lookup T x = B x).
Proof.
  intros B T. split.
  - intros (_ & _ & H) x. apply H. cbn. tauto.
  - intros H. split; [constructor|]. split; [intros fd e []|]. intros x _. apply H.
Qed.

Lemma rep_init : forall T, Rep (lookup T) [] T.
Proof. intros T. apply rep_nil. reflexivity. Qed.

Lemma rep_perm : forall B l l' T, Permutation l l' -> Rep B l T -> Rep B l' T.
Proof.
  intros B l l' T P (N & H1 & H2).
  assert (PK : Permutation (keys l) (keys l')) by (apply Permutation_map; exact P).
  split; [|split].
  - eapply Permutation_NoDup; eauto.
  - intros fd e H. apply H1. eapply Permutation_in; [apply Permutation_sym; exact P | exact H].
  - intros x Hx. apply H2. intro Hin. apply Hx. eapply Permutation_in; eauto.
Qed.

Lemma rep_key_free : forall B l T fd, Rep B l T -> lookup T fd = None -> ~ In fd (keys l).
Proof.
  intros B l T fd (N & H1 & H2) HN Hin. unfold keys in Hin. apply in_map_iff in Hin.
  destruct Hin as ([k e] & Hk & Hin). cbn in Hk. subst k.
  destruct (H1 _ _ Hin) as (HS & _). congruence.
Qed.

Lemma rep_alloc : forall B l T e,
  Rep B l T -> Rep B ((lowest_free T, e) :: l) (fst (alloc T e)).
Proof.
  intros B l T e R.
  pose proof (lowest_free_free T) as F.
  pose proof (rep_key_free _ _ _ _ R F) as NK.
  destruct R as (N & H1 & H2).
  split; [|split; [intros fd e0 H; split|]].
  - cbn. constructor; auto.
  - destruct H as [H|H].
    + inversion H; subst. rewrite lookup_alloc, Nat.eqb_refl. reflexivity.
    + rewrite lookup_alloc. destruct (Nat.eqb_spec fd (lowest_free T)) as [->|].
      * exfalso. apply NK. unfold keys. apply in_map_iff. exists (lowest_free T, e0). auto.
      * apply H1; auto.
  - destruct H as [H|H].
    + inversion H; subst. rewrite <- (H2 _ NK). exact F.
    + apply (H1 _ _ H).
  - intros x Hx. cbn in Hx. rewrite lookup_alloc.
    destruct (Nat.eqb_spec x (lowest_free T)) as [->|]; [tauto|].
    apply H2. tauto.
Qed.

Lemma nodup_app_mid : forall (A : Type) (l1 l2 : list A) a, NoDup (l1 ++ a :: l2) -> NoDup (l1 ++ l2) /\ ~ In a (l1 ++ l2).
Proof. intros. split; [eapply NoDup_remove_1; eauto | eapply NoDup_remove_2; eauto]. Qed.

Lemma rep_close_in : forall B l1 fd e l2 T,
  Rep B (l1 ++ (fd, e) :: l2) T -> Rep B (l1 ++ l2) (close T fd).
Proof.
  intros B l1 fd e l2 T (N & H1 & H2).
  unfold keys in N. rewrite map_app in N. cbn in N.
  destruct (nodup_app_mid _ _ _ _ N) as (N' & NI).
  rewrite <- map_app in N', NI.
  assert (Bfd : B fd = None) by (apply (H1 fd e); apply in_or_app; right; left; reflexivity).
  split; [|split; [intros fd0 e0 H; split|]].
  - exact N'.
  - rewrite lookup_close. destruct (Nat.eqb_spec fd0 fd) as [->|].
    + exfalso. apply NI. apply in_map_iff. exists (fd, e0). auto.
    + apply (H1 fd0 e0). apply in_app_or in H. apply in_or_app. destruct H; [left|right; right]; auto.
  - apply (H1 fd0 e0). apply in_app_or in H. apply in_or_app. destruct H; [left|right; right]; auto.
  - intros x Hx. rewrite lookup_close. destruct (Nat.eqb_spec x fd) as [->|]; [auto|].
    apply H2. unfold keys. rewrite map_app. cbn. intro Hin. apply Hx. unfold keys. rewrite map_app.
    apply in_app_or in Hin. apply in_or_app. destruct Hin as [|[|]]; [left; auto | congruence | right; auto].
Qed.

Lemma rep_close_head : forall B fd e l T, Rep B ((fd, e) :: l) T -> Rep B l (close T fd).
Proof. intros. apply (rep_close_in B [] fd e l T). exact H. Qed.

Lemma rep_close_out : forall B l T fd, Rep B l T -> ~ In fd (keys l) -> B fd = None -> close T fd = T.
Proof. intros B l T fd (N & H1 & H2) NI HB. apply close_free. rewrite H2; auto. Qed.

Lemma rep_lookup : forall B l T x, Rep B l T -> ~ In x (keys l) -> lookup T x = B x.
Proof. intros B l T x (_ & _ & H). apply H. Qed.

Lemma rep_lookup_in : forall B l T fd e, Rep B l T -> In (fd, e) l -> lookup T fd = Some e.
Proof. intros B l T fd e (_ & H & _) Hin. apply (H _ _ Hin). Qed.

Definition upd (B : nat -> option entry) (d : nat) (v : option entry) : nat -> option entry :=
  fun x => if Nat.eqb x d then v else B x.

Lemma rep_dup2_live : forall B l T s o c d,
  Rep B l T -> In (s, (o, c)) l -> ~ In d (keys l) ->
  Rep (upd B d (Some (o, false))) l (dup2 T s d).
Proof.
  intros B l T s o c d R Hin ND.
  pose proof (rep_lookup_in _ _ _ _ _ R Hin) as LS.
  assert (SD : s <> d). { intro E. subst. apply ND. unfold keys. apply in_map_iff. exists (d, (o, c)). auto. }
  destruct R as (N & H1 & H2).
  split; [auto|split; [intros fd e H; split|]].
  - rewrite (lookup_dup2 _ _ _ _ _ _ LS SD). destruct (Nat.eqb_spec fd d) as [->|].
    + exfalso. apply ND. unfold keys. apply in_map_iff. exists (d, e). auto.
    + apply (H1 _ _ H).
  - unfold upd. destruct (Nat.eqb_spec fd d) as [->|].
    + exfalso. apply ND. unfold keys. apply in_map_iff. exists (d, e). auto.
    + apply (H1 _ _ H).
  - intros x Hx. rewrite (lookup_dup2 _ _ _ _ _ _ LS SD). unfold upd.
    destruct (Nat.eqb x d); auto.
Qed.

Lemma rep_dup2_base : forall B l T s o c d,
  Rep B l T -> B s = Some (o, c) -> s <> d -> ~ In d (keys l) ->
  Rep (upd B d (Some (o, false))) l (dup2 T s d).
Proof.
  intros B l T s o c d R HB SD ND.
  assert (NS : ~ In s (keys l)).
  { intro Hin. unfold keys in Hin. apply in_map_iff in Hin. destruct Hin as ([k e] & Hk & Hin). cbn in Hk. subst k.
    destruct R as (_ & H1 & _). destruct (H1 _ _ Hin). congruence. }
  assert (LS : lookup T s = Some (o, c)) by (rewrite (rep_lookup _ _ _ _ R NS); exact HB).
  destruct R as (N & H1 & H2).
  split; [auto|split; [intros fd e H; split|]].
  - rewrite (lookup_dup2 _ _ _ _ _ _ LS SD). destruct (Nat.eqb_spec fd d) as [->|].
    + exfalso. apply ND. unfold keys. apply in_map_iff. exists (d, e). auto.
    + apply (H1 _ _ H).
  - unfold upd. destruct (Nat.eqb_spec fd d) as [->|].
    + exfalso. apply ND. unfold keys. apply in_map_iff. exists (d, e). auto.
    + apply (H1 _ _ H).
  - intros x Hx. rewrite (lookup_dup2 _ _ _ _ _ _ LS SD). unfold upd.
    destruct (Nat.eqb x d); auto.
Qed.

Definition noncx (p : nat * entry) : bool := negb (snd (snd p)).

Lemma rep_exec : forall B l T, Rep B l T ->
  Rep (fun x => drop_cx (B x)) (filter noncx l) (exec_drop T).
Proof.
  intros B l T (N & H1 & H2).
  split; [|split; [intros fd e H; split|]].
  - unfold keys. clear H1 H2. induction l as [|[k [o c]] r IH]; cbn; [constructor|].
    inversion N; subst. destruct c; cbn; auto.
    constructor; auto. intro Hin. apply H1. apply in_map_iff in Hin. destruct Hin as (p & Hp & Hin).
    apply filter_In in Hin. apply in_map_iff. exists p. tauto.
  - apply filter_In in H. destruct H as (Hin & Hc). rewrite lookup_exec_drop.
    destruct (H1 _ _ Hin) as (L & _). rewrite L. destruct e as [o c]. unfold noncx in Hc. cbn in Hc.
    destruct c; cbn in *; congruence.
  - apply filter_In in H. destruct H as (Hin & _). destruct (H1 _ _ Hin) as (_ & HB). rewrite HB. reflexivity.
  - intros x Hx. rewrite lookup_exec_drop.
    destruct (in_dec Nat.eq_dec x (keys l)) as [Hin|Hn].
    + unfold keys in Hin. apply in_map_iff in Hin. destruct Hin as ([k [o c]] & Hk & Hin). cbn in Hk. subst k.
      destruct (H1 _ _ Hin) as (L & HB). rewrite L, HB. destruct c; cbn; auto.
      exfalso. apply Hx. unfold keys. apply in_map_iff. exists (x, (o, false)). split; auto.
      apply filter_In. split; auto.
    + rewrite (H2 _ Hn). reflexivity.
Qed.
