(* The signal dispositions every pipeline stage starts with. *)
From Coq Require Import List Bool Arith.
From Cicada Require Import Model.OsLite Model.Pipeline.
Import ListNotations.

Lemma sig_set_same : forall s b D, sig_set s b D s = b.
Proof. intros. unfold sig_set. destruct s; cbn; try reflexivity. now rewrite Nat.eqb_refl. Qed.

Lemma parent_keeps_pipe_default : forall st D, D SgPipe = false -> parent_disp_after st D SgPipe = false.
Proof. intros st D H. unfold parent_disp_after. destruct (stage_is_here st); [apply sig_set_same | exact H]. Qed.

Lemma parent_other : forall st D s, s <> SgPipe -> parent_disp_after st D s = D s.
Proof.
  intros st D s N. unfold parent_disp_after. destruct (stage_is_here st); [|reflexivity].
  unfold sig_set. destruct s; cbn; try reflexivity. congruence.
Qed.

(* every stage, whatever its position, with or without a here-string on it or on ANY earlier stage: SIGPIPE, SIGTSTP, SIGQUIT and
   SIGINT are at their default when the program starts; every other signal is as the shell had it when the line started *)
Theorem stages_disp_spec : forall sts D cs D',
  D SgPipe = false ->
  stages_disp sts D = (cs, D') ->
  length cs = length sts /\ D' SgPipe = false /\
  Forall (fun c => c SgPipe = false /\ c SgTstp = false /\ c SgQuit = false /\ c SgInt = false /\
                   forall n, c (SgOther n) = D (SgOther n)) cs.
Proof.
  induction sts as [|st rest IH]; intros D cs D' HP H; cbn in H.
  - injection H as <- <-. repeat split; auto.
  - destruct (stages_disp rest (parent_disp_after st D)) as [cs1 D1] eqn:E. injection H as <- <-.
    destruct (IH _ _ _ (parent_keeps_pipe_default st D HP) E) as (L & P & F).
    split; [cbn; f_equal; exact L|]. split; [exact P|]. constructor.
    + unfold child_disp, sig_set. cbn. repeat split; auto.
    + eapply Forall_impl; [|exact F]. cbn. intros c (A & B & C & E1 & O). repeat split; auto.
      intro n. rewrite O. apply parent_other. discriminate.
Qed.
