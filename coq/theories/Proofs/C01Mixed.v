(** C01 on its whole domain: a command word followed by ANY number of arguments,
    each in any quoting style (TokenizerMixedProofs.marg), through the real
    tokenizer, the real expansion passes (Model/Expand.v do_expansion under a
    world W) and the planner (Model/Redirect.v plan_tokens) = Model/FullPlan.plan.

    [quiet t] is the conjunction of the ENTRY GUARDS of the expansion passes for
    the tag of [t], written with the model's own predicates (env_in_token, env_in_tagged_token,
    need_expand_brace, needs_globbing, rx_brace_range, dot_split,
    should_do_dollar, the leading tilde, the pipe word for the alias pass): a
    quiet token is skipped by every pass. [do_expansion_quiet] proves that.

    [Known_C01 args]: some ESCAPED argument's token is not quiet (class
    esc-expanded: its text holds an expansion trigger -- the tokenizer dropped
    the backslashes and left no protecting tag), or the LAST argument is an
    escaped word whose token is the untagged text & (class esc-amp-last).
    Outside it -- and with double-quoted texts free of expansion syntax, which is
    the domain of the property for that style -- the plan is ONE foreground
    command whose words are the command word and the written texts: no pipe, no
    background, no redirection, no assignment. Nothing else was needed: every
    other hazard (an untagged text holding > or being < <<< |) is excluded by the
    tokenizer's own tagging of escaped words, which the proof uses. *)
From Coq Require Import List NArith ZArith Bool Lia.
From Cicada Require Import Base.Chars Base.Tag Base.Regex Gen.ShellRegexes Model.Tokenizer Model.Expand Model.Redirect Model.FullPlan.
From Cicada Require Import Proofs.TokenizerProofs Proofs.TokenizerEscProofs Proofs.TokenizerMixedProofs Proofs.ExpandBasics.
From Cicada Require Proofs.RedirectProofs Proofs.PlanInert Proofs.ExpandInert Proofs.ExpandUntagged Proofs.C13Proofs.
Import ListNotations.
Local Open Scope N_scope.

Module RP := Cicada.Proofs.RedirectProofs.
Module PI := Cicada.Proofs.PlanInert.
Module EI := Cicada.Proofs.ExpandInert.
Module EU := Cicada.Proofs.ExpandUntagged.
Module C13 := Cicada.Proofs.C13Proofs.

Definition is_none {A} (o : option A) : bool := match o with None => true | Some _ => false end.

(** * Tokens every expansion pass skips *)
Definition quiet (t : Expand.token) : bool :=
  let s := snd t in
  match fst t with
  | TSq => true
  | TDq => negb (env_in_tagged_token s true) && is_none (dot_split s) && negb (should_do_dollar s)
  | TBs => negb (env_in_token s)
  | TNone => negb (str_eqb s [124]) && is_none (strip_prefix [126] s) && negb (env_in_token s)
             && negb (need_expand_brace s) && negb (needs_globbing s) && negb (rx_search rx_brace_range s)
             && is_none (dot_split s) && negb (should_do_dollar s)
  | TBq => false
  end.

Definition dot_ok (t : Expand.token) : Prop :=
  match fst t with TBq => False | TDq | TNone => dot_split (snd t) = None | _ => True end.
Definition dollar_ok (t : Expand.token) : Prop :=
  tag_eqb (fst t) TSq || tag_eqb (fst t) TBs || negb (should_do_dollar (snd t)) = true.

Record skips (W : World) (t : Expand.token) : Prop := {
  sk_alias : EU.quiet_alias t;
  sk_home : expand_home_tok W t = t;
  sk_env : expand_env_tok W t = t;
  sk_brace : brace_sel t = Ok Skip;
  sk_glob : glob_sel W t = Ok Skip;
  sk_range : range_sel t = Ok Skip;
  sk_dot : dot_ok t;
  sk_dollar : dollar_ok t }.

Lemma is_none_eq {A} (o : option A) : is_none o = true -> o = None.
Proof. destruct o; [discriminate|reflexivity]. Qed.

Lemma quiet_skips W t : quiet t = true -> skips W t.
Proof.
  destruct t as [tg s]. unfold quiet. cbn [fst snd]. intros H. destruct tg; try discriminate H.
  - (* untagged *)
    repeat (apply andb_true_iff in H as [H ?]).
    repeat match goal with X : negb _ = true |- _ => apply negb_true_iff in X end.
    repeat match goal with X : is_none _ = true |- _ => apply is_none_eq in X end.
    constructor; unfold EU.quiet_alias, expand_home_tok, expand_env_tok, brace_sel, glob_sel, range_sel, dot_ok, dollar_ok;
      cbn [fst snd tag_is_empty tag_eqb negb andb orb]; rewrite ?tagged_gate_unquoted;
      repeat match goal with X : _ = _ |- _ => rewrite X end; reflexivity.
  - constructor; unfold EU.quiet_alias, expand_home_tok, expand_env_tok, brace_sel, glob_sel, range_sel, dot_ok, dollar_ok;
      cbn [fst snd tag_is_empty tag_eqb negb andb orb]; try reflexivity; exact I.
  - (* double-quoted *)
    repeat (apply andb_true_iff in H as [H ?]).
    repeat match goal with X : negb _ = true |- _ => apply negb_true_iff in X end.
    repeat match goal with X : is_none _ = true |- _ => apply is_none_eq in X end.
    constructor; unfold EU.quiet_alias, expand_home_tok, expand_env_tok, brace_sel, glob_sel, range_sel, dot_ok, dollar_ok;
      cbn [fst snd tag_is_empty tag_eqb negb andb orb]; rewrite ?tagged_gate_unquoted;
      repeat match goal with X : _ = _ |- _ => rewrite X end; reflexivity.
  - (* backslash tag *)
    apply negb_true_iff in H.
    constructor; unfold EU.quiet_alias, expand_home_tok, expand_env_tok, brace_sel, glob_sel, range_sel, dot_ok, dollar_ok;
      cbn [fst snd tag_is_empty tag_eqb negb andb orb]; rewrite ?tagged_gate_unquoted; try rewrite H; try reflexivity; exact I.
Qed.

Lemma cmd_skips W cmd : EI.cmd_ok W cmd -> skips W (TNone, cmd).
Proof.
  intros Hc. pose proof (EI.cmd_calm W cmd Hc) as Hcalm. pose proof (EI.cmd_still W cmd Hc) as Hstill.
  destruct Hc as [Ha (Hx & He & Hp) (H36 & H96 & H126 & H42 & H123) Hw].
  constructor.
  - unfold EU.quiet_alias. cbn [fst snd tag_is_empty tag_eqb andb]. now apply str_eqb_neq.
  - unfold expand_home_tok. cbn [fst snd tag_is_empty tag_eqb]. now rewrite (EI.strip_prefix_absent 126 cmd H126).
  - unfold expand_env_tok. cbn [fst snd]. now rewrite (Proofs.ExpandOnceProofs.tagged_gate_no_dollar cmd _ H36).
  - now apply EI.brace_sel_still.
  - now apply EI.glob_sel_still.
  - now apply EI.range_sel_still.
  - unfold dot_ok. cbn [fst snd]. now apply EI.dot_split_none.
  - unfold dollar_ok. cbn [fst snd tag_eqb orb]. rewrite (EI.should_do_dollar_false cmd H36). reflexivity.
Qed.

(* ------------------------------------------------------------------ the passes on skipped tokens *)
Lemma map_id_on {A} (f : A -> A) l : Forall (fun x => f x = x) l -> map f l = l.
Proof. induction 1 as [|x l Hx _ IH]; [reflexivity|]. cbn [map]. now rewrite Hx, IH. Qed.

Lemma dot_collect_ok W toks : Forall dot_ok toks -> forall i log, dot_collect W toks i log = Ok ([], log).
Proof.
  induction 1 as [|[tg s] r Ht _ IH]; intros i log; [reflexivity|].
  cbn [dot_collect]. unfold dot_ok in Ht. cbn [fst snd] in Ht.
  destruct tg; try contradiction; try rewrite Ht; apply IH.
Qed.

Lemma dollar_pass_ok fuel W toks : Forall dollar_ok toks -> forall log, dollar_pass fuel W toks log = Ok (Some toks, log).
Proof.
  induction 1 as [|[tg s] r Ht _ IH]; intros log; [reflexivity|].
  cbn [dollar_pass]. unfold dollar_ok in Ht. cbn [fst snd] in Ht. rewrite Ht, IH. reflexivity.
Qed.

Lemma forall_skips W l (P : Expand.token -> Prop) :
  (forall t, skips W t -> P t) -> Forall (skips W) l -> Forall P l.
Proof. intros H. induction 1; constructor; auto. Qed.

Theorem do_expansion_skips W fuel cmd l :
  EI.cmd_ok W cmd -> Forall (skips W) l ->
  do_expansion Tokenizer.parse_line W fuel ((TNone, cmd) :: l) = Ok ((TNone, cmd) :: l).
Proof.
  intros Hc Hl. pose proof (cmd_skips W cmd Hc) as Hcs.
  assert (Hall : Forall (skips W) ((TNone, cmd) :: l)) by (constructor; assumption).
  unfold do_expansion, do_expansion_log.
  rewrite (EI.not_arithmetic W cmd l Hc), (EI.not_export_prompt W cmd l Hc). cbn zeta.
  rewrite (EU.expand_alias_quiet _ W cmd l Hc (forall_skips W l _ (sk_alias W) Hl)).
  rewrite expand_home_map, (map_id_on _ _ (forall_skips W _ _ (sk_home W) Hall)).
  rewrite expand_env_map, (map_id_on _ _ (forall_skips W _ _ (sk_env W) Hall)).
  assert (Eb : expand_brace ((TNone, cmd) :: l) = Ok ((TNone, cmd) :: l)).
  { apply EI.run_pass_skip. intros t Ht. apply sk_brace with (W := W). rewrite Forall_forall in Hall. now apply Hall. }
  rewrite Eb. cbn [bind].
  assert (Eg : expand_glob W ((TNone, cmd) :: l) = Ok ((TNone, cmd) :: l)).
  { apply EI.run_pass_skip. intros t Ht. apply sk_glob. rewrite Forall_forall in Hall. now apply Hall. }
  rewrite Eg. cbn [bind].
  assert (Es : do_command_substitution fuel W ((TNone, cmd) :: l) = Ok ((TNone, cmd) :: l, [])).
  { unfold do_command_substitution, subst_dot.
    rewrite (dot_collect_ok W _ (forall_skips W _ _ (sk_dot W) Hall)). cbn [res_map bind fst snd fold_left].
    rewrite Proofs.SubstProofs.subst_dollar_eq. rewrite (dollar_pass_ok fuel W _ (forall_skips W _ _ (sk_dollar W) Hall)). reflexivity. }
  rewrite Es. cbn [bind fst snd].
  assert (Er : expand_brace_range ((TNone, cmd) :: l) = Ok ((TNone, cmd) :: l)).
  { apply EI.run_pass_skip. intros t Ht. apply sk_range with (W := W). rewrite Forall_forall in Hall. now apply Hall. }
  rewrite Er. reflexivity.
Qed.

Corollary do_expansion_quiet W fuel cmd l :
  EI.cmd_ok W cmd -> forallb quiet l = true ->
  do_expansion Tokenizer.parse_line W fuel ((TNone, cmd) :: l) = Ok ((TNone, cmd) :: l).
Proof.
  intros Hc Hq. apply do_expansion_skips; [exact Hc|].
  rewrite forallb_forall in Hq. apply Forall_forall. intros t Ht. apply quiet_skips. now apply Hq.
Qed.

(* ------------------------------------------------------------------ escaped words and the planner *)
(** an escaped word whose token is untagged holds no angle bracket and is not the bar *)
Lemma classify_gt c : classify c = KGt <-> c = c_gt.
Proof.
  split; [|intros ->; reflexivity]. unfold classify.
  repeat match goal with |- context [if ?x =? ?k then _ else _] =>
    destruct (N.eqb_spec x k) as [->|_] end; intros H; try discriminate H; reflexivity.
Qed.
Lemma classify_lt c : classify c = KLt <-> c = c_lt.
Proof.
  split; [|intros ->; reflexivity]. unfold classify.
  repeat match goal with |- context [if ?x =? ?k then _ else _] =>
    destruct (N.eqb_spec x k) as [->|_] end; intros H; try discriminate H; reflexivity.
Qed.

Lemma no_angle_text l : forallb wf_eitem l = true -> has_esc_angle l = false ->
  has_char c_gt (eitem_text l) = false /\ has_char c_lt (eitem_text l) = false.
Proof.
  induction l as [|[c e] l IH]; [now split|]. cbn [forallb]. intros Hwf Ha.
  apply andb_true_iff in Hwf as [Hi Hl]. rewrite esc_angle_cons in Ha. apply orb_false_iff in Ha as [Hc Ha].
  destruct (IH Hl Ha) as [I1 I2]. cbn [eitem_text map fst has_char]. fold (eitem_text l). rewrite I1, I2, !orb_false_r.
  cbn [fst snd] in Hc.
  assert (Hng : classify c <> KGt /\ classify c <> KLt).
  { destruct e.
    - cbn [andb] in Hc. unfold is_angle in Hc. apply orb_false_iff in Hc as [H1 H2].
      split; intros E; rewrite E in *; discriminate.
    - unfold wf_eitem in Hi. cbn [fst snd orb] in Hi. apply cls_eqb_eq in Hi. rewrite Hi. split; discriminate. }
  destruct Hng as [Hg Hlt]. split.
  - destruct (N.eqb_spec c c_gt) as [->|_]; [exfalso; apply Hg; reflexivity|reflexivity].
  - destruct (N.eqb_spec c c_lt) as [->|_]; [exfalso; apply Hlt; reflexivity|reflexivity].
Qed.

Lemma esc_untagged_inert b l : forallb wf_eitem l = true -> marg_tag b (MEsc l) = TNone ->
  PI.inert_text (eitem_text l) = true.
Proof.
  intros Hwf Ht. cbn [marg_tag] in Ht.
  destruct (b && first_escaped l); [discriminate|]. unfold eitems_tag in Ht.
  destruct (starts_bar_dollar l) eqn:Es; [discriminate|]. destruct (has_esc_angle l) eqn:Ea; [discriminate|].
  destruct (no_angle_text l Hwf Ea) as [Hg Hl]. unfold PI.inert_text. rewrite Hg. cbn [negb andb].
  assert (A : str_eqb (eitem_text l) s_lt = false).
  { apply str_eqb_neq. intros E. rewrite E in Hl. discriminate. }
  assert (B : str_eqb (eitem_text l) s_lt3 = false).
  { apply str_eqb_neq. intros E. rewrite E in Hl. discriminate. }
  assert (D : str_eqb (eitem_text l) [c_pipe] = false).
  { apply str_eqb_neq. intros E. destruct l as [|[c e] [|? ?]]; try discriminate E.
    cbn [eitem_text map fst] in E. injection E as ->. cbn [forallb] in Hwf. rewrite andb_true_r in Hwf.
    destruct e; [discriminate Es|discriminate Hwf]. }
  now rewrite A, B, D.
Qed.

(* ------------------------------------------------------------------ the statement *)
(** the domain of the double-quoted style: the text holds no expansion syntax *)
Definition dq_domain (a : marg) : bool :=
  match a with MDq t | MDqE t => quiet (TDq, t) | _ => true end.

(** the failing classes: an escaped argument whose token is not quiet (esc-expanded),
    an escaped argument in last position whose token is the untagged ampersand (esc-amp-last) *)
Fixpoint known_mixed (stale : bool) (l : list (nat * marg)) : bool :=
  match l with
  | [] => false
  | (_, a) :: r =>
      (match a with
       | MEsc _ => negb (quiet (marg_tok stale a)) || (is_empty r && PI.amp_tok (marg_tok stale a))
       | _ => false
       end) || known_mixed (stale_after stale a) r
  end.
Definition Known_C01 (args : list (nat * marg)) : bool := known_mixed false args.

Lemma mixed_tokens_ok b l :
  forallb (fun '(_, a) => wf_marg a) l = true -> forallb (fun '(_, a) => dq_domain a) l = true ->
  known_mixed b l = false ->
  forallb quiet (mtoks b l) = true /\ forallb PI.inert_tok (mtoks b l) = true /\ PI.last_amp (mtoks b l) = false.
Proof.
  revert b; induction l as [|[n a] l IH]; intros b Hwf Hdq Hk; [repeat split|].
  cbn [forallb] in Hwf, Hdq. apply andb_true_iff in Hwf as [Ha Hwf]. apply andb_true_iff in Hdq as [Hd Hdq].
  cbn [known_mixed] in Hk. apply orb_false_iff in Hk as [Hka Hk].
  destruct (IH (stale_after b a) Hwf Hdq Hk) as (Q & I & L). cbn [mtoks forallb]. rewrite Q, I, !andb_true_r.
  assert (Hq : quiet (marg_tok b a) = true).
  { destruct a as [t|t|t|el]; try reflexivity; try exact Hd.
    apply orb_false_iff in Hka as [Hka _]. now apply negb_false_iff in Hka. }
  assert (Hi : PI.inert_tok (marg_tok b a) = true).
  { unfold PI.inert_tok, marg_tok. cbn [fst snd]. destruct (marg_tag b a) eqn:Et; try reflexivity.
    cbn [tag_eqb negb orb]. destruct a as [t|t|t|el]; try discriminate Et.
    cbn [wf_marg] in Ha. apply andb_true_iff in Ha as [_ Ha]. cbn [marg_text]. now apply (esc_untagged_inert b el). }
  repeat split; try assumption.
  (* last token *)
  destruct l as [|[n' a'] l'].
  - cbn [mtoks]. unfold PI.last_amp. cbn [rev app]. destruct a as [t|t|t|el]; try reflexivity.
    apply orb_false_iff in Hka as [_ Hka]. cbn [is_empty andb] in Hka. exact Hka.
  - cbn [mtoks] in *. change (marg_tok b a :: marg_tok (stale_after b a) a' :: mtoks (stale_after (stale_after b a) a') l')
      with ([marg_tok b a] ++ (marg_tok (stale_after b a) a' :: mtoks (stale_after (stale_after b a) a') l')).
    rewrite PI.last_amp_app_ne by discriminate. exact L.
Qed.

(** C01, tokenizer + real expansion passes + planner, any number of arguments, every style *)
Theorem plan_mixed_partial : forall W fuel cmd (args : list (nat * marg)) m,
  plain_word cmd = true -> forallb arith_body cmd = false -> split_env cmd = None -> EI.cmd_ok W cmd ->
  forallb (fun '(_, a) => wf_marg a) args = true ->
  forallb (fun '(_, a) => dq_domain a) args = true ->
  Known_C01 args = false ->
  plan W fuel (cmd ++ render_margs args ++ spaces m) = Ok (C13.one_cmd ((TNone, cmd) :: mtoks false args)).
Proof.
  intros W fuel cmd args m Hp Ha He Hc Hw Hd Hk. unfold plan.
  rewrite parse_line_mixed by assumption.
  destruct (mixed_tokens_ok false args Hw Hd Hk) as (Q & I & L).
  match goal with |- bind ?x ?f = _ => assert (E : x = Ok ((TNone, cmd) :: mtoks false args)) end.
  { now apply do_expansion_quiet. }
  rewrite E. cbn [bind]. f_equal. unfold C13.one_cmd.
  apply PI.plan_inert; [now apply RP.plain_word_cmd_ok|exact I|exact L].
Qed.

(** ... whose words are the command word and exactly the written texts *)
Corollary plan_mixed_words : forall W fuel cmd (args : list (nat * marg)) m,
  plain_word cmd = true -> forallb arith_body cmd = false -> split_env cmd = None -> EI.cmd_ok W cmd ->
  forallb (fun '(_, a) => wf_marg a) args = true ->
  forallb (fun '(_, a) => dq_domain a) args = true ->
  Known_C01 args = false ->
  exists words, plan W fuel (cmd ++ render_margs args ++ spaces m) = Ok (C13.one_cmd words) /\
                map snd words = cmd :: map (fun '(_, a) => marg_text a) args.
Proof.
  intros. exists ((TNone, cmd) :: mtoks false args). split; [now apply plan_mixed_partial|].
  cbn [map snd]. now rewrite mtoks_texts.
Qed.

(** the two classes are real: witnesses on the model (the tokens after expansion / the plan) *)
Example known_esc_amp_last :
  Known_C01 [(0%nat, MEsc [(120, false)]); (0%nat, MEsc [(38, true)])] = true /\
  plan_tokens (parse_line [112; 32; 120; 32; 92; 38]) = inl (mkcl [mkc [(TNone, [112]); (TNone, [120])] [] None] [] true).
Proof. split; vm_compute; reflexivity. Qed.

Example known_esc_expanded :
  Known_C01 [(0%nat, MEsc [(126, false); (120, false)])] = true /\      (* leading tilde *)
  Known_C01 [(0%nat, MEsc [(97, false); (42, true)])] = true /\         (* a\* *)
  Known_C01 [(0%nat, MEsc [(36, true); (72, false)])] = true /\         (* \$H : backslash tag, still expanded *)
  Known_C01 [(0%nat, MEsc [(97, false); (62, true); (36, true); (72, false)])] = false.   (* a\>\$H : tagged ', protected *)
Proof. repeat split; vm_compute; reflexivity. Qed.

Print Assumptions do_expansion_quiet.
Print Assumptions plan_mixed_partial.
Print Assumptions plan_mixed_words.
