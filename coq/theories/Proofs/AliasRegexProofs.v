(** The two matchers of Model/Alias.v (builtin alias) against the two regexes of alias.rs, as regenerated from the
    source on every run (Gen/BuiltinRegexes.v). [split_def] also returns the captured groups; its yes/no decision is
    what is tied. Round 9 (regexgen). *)
From Coq Require Import List NArith Bool Lia.
From Cicada Require Import Base.Chars Base.Regex Gen.BuiltinRegexes Model.Alias Proofs.RegexCalc Proofs.RegexClasses.
Import ListNotations.
Local Open Scope N_scope.

Lemma cls_name_char c :
  in_cs false [(97, 122); (65, 90); (48, 57); (95, 95); (46, 46); (45, 45)] c = is_name_char c.
Proof.
  rewrite in_cs_pos. cbn [existsb fst snd]. rewrite !leb_leb_eq, orb_false_r.
  unfold is_name_char, is_alpha, is_digit. cbv [c_us c_dot c_minus].
  destruct ((97 <=? c) && (c <=? 122)), ((65 <=? c) && (c <=? 90)), ((48 <=? c) && (c <=? 57)),
    (c =? 95), (c =? 46), (c =? 45); reflexivity.
Qed.
Lemma name_char_not_equals c : is_name_char c = true -> (c =? 61) = false.
Proof.
  intros H. destruct (N.eqb_spec c 61) as [->|]; [vm_compute in H; discriminate | reflexivity].
Qed.

Lemma forallb_name_char s :
  forallb (in_cs false [(97, 122); (65, 90); (48, 57); (95, 95); (46, 46); (45, 45)]) s = forallb is_name_char s.
Proof. induction s as [|c t IH]; [reflexivity|]. cbn [forallb]. rewrite IH, cls_name_char. reflexivity. Qed.

Theorem is_name_is_source_regex s : is_name s = rx_search rx_alias_read s.
Proof.
  unfold rx_alias_read. rewrite rc_anchored, rc_Cat_Chr. unfold is_name. destruct s as [|c t]; [reflexivity|].
  rewrite rc_Star_Chr, forallb_name_char, cls_name_char. reflexivity.
Qed.

Lemma no_nl_existsb s : forallb (in_cs true [(10, 10)]) s = negb (existsb (fun x => x =? c_nl) s).
Proof.
  induction s as [|c t IH]; [reflexivity|]. cbn [forallb existsb]. rewrite IH, in_cs_not_one, negb_orb. reflexivity.
Qed.

Definition split_def_ok (s acc : str) : bool := match split_def s acc with Some _ => true | None => false end.

Lemma split_def_seen s : forall acc, is_empty acc = false ->
  matchb (Cat (Star (Chr false [(97, 122); (65, 90); (48, 57); (95, 95); (46, 46); (45, 45)]))
              (Cat (Chr false [(61, 61)]) (Star (Chr true [(10, 10)])))) s = split_def_ok s acc.
Proof.
  unfold split_def_ok. induction s as [|c t IH]; intros acc Hacc; [reflexivity|].
  assert (Hacc' : is_empty (acc ++ [c]) = false) by (destruct acc; reflexivity).
  rewrite rc_Cat_Star_Chr, rc_Cat_Chr, rc_Star_Chr, (IH _ Hacc'), cls_name_char, in_cs_one, no_nl_existsb.
  cbn [split_def]. rewrite Hacc. change c_eq with 61. cbn [negb].
  destruct (is_name_char c) eqn:A.
  - rewrite (name_char_not_equals c A). reflexivity.
  - rewrite andb_true_r. destruct (c =? 61); [|reflexivity]. cbn [andb orb]. rewrite orb_false_r.
    destruct (existsb (fun x => x =? c_nl) t); reflexivity.
Qed.

Theorem split_def_is_source_regex s : split_def_ok s [] = rx_search rx_alias_add s.
Proof.
  unfold rx_alias_add. rewrite rc_anchored, rc_Cat_assoc, rc_Cat_Chr. destruct s as [|c t]; [reflexivity|].
  rewrite (split_def_seen t ([] ++ [c]) eq_refl), cls_name_char. unfold split_def_ok. cbn [split_def].
  destruct (is_name_char c); [reflexivity|]. cbn [is_empty negb]. rewrite andb_false_r. reflexivity.
Qed.
