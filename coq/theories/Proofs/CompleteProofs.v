(** Round trip of the text TAB inserts for a file name: list splitting
    (line_to_cmds), tokenizing (parse_line), the expansion passes (a parameter
    constrained by their entry guards) and planning give back the name, in the
    three quoting contexts, for every name outside the known classes. *)
From Cicada Require Import Proofs.SplitLtProofs.
From Cicada Require Import Base.Chars Base.Tag Gen.EscapeClass Model.Tokenizer Model.Redirect Model.Cmds
  Model.Complete Proofs.TokenizerProofs Proofs.TokenizerEscProofs Proofs.RedirectProofs
  Proofs.ListExecProofs Proofs.CmdsProofs.
From Coq Require Import Lia PeanoNat Sorting.Permutation Sorting.Sorted.
Local Open Scope N_scope.

(** * The escape class covers every character that is special for the tokenizer and for the list splitter *)
Lemma escape_class_covers c : in_escape_class c = false -> classify c = KOther.
Proof.
  intros H. unfold classify.
  repeat match goal with |- context [if ?x =? ?k then _ else _] =>
    destruct (N.eqb_spec x k) as [->|_]; [vm_compute in H; discriminate|] end.
  reflexivity.
Qed.

Lemma escape_class_covers_l c : in_escape_class c = false -> lclassify c = LOther.
Proof.
  intros H. unfold lclassify.
  repeat match goal with |- context [if ?x =? ?k then _ else _] =>
    destruct (N.eqb_spec x k) as [->|_]; [vm_compute in H; discriminate|] end.
  reflexivity.
Qed.

Lemma escape_path_text s : escape_path s = escape_text in_escape_class s.
Proof. reflexivity. Qed.

Definition name_tag (s : str) : tag := text_tag in_escape_class s.

(** tokens of  cmd, blank, escaped text, blanks *)
Theorem parse_line_escape_path cmd name n :
  plain_word cmd = true -> forallb arith_body cmd = false -> name <> [] ->
  parse_line (cmd ++ c_space :: escape_path name ++ spaces n) = [(TNone, cmd); (name_tag name, name)].
Proof. intros. rewrite escape_path_text. now apply (parse_line_escaped in_escape_class escape_class_covers). Qed.

(** * Planning a command word and one argument token *)
Definition arg_ok (t : token) : bool :=
  negb (tag_eqb (fst t) TNone) ||
  (negb (has_char c_gt (snd t)) && negb (str_eqb (snd t) s_lt) && negb (str_eqb (snd t) s_lt3) &&
   negb (str_eqb (snd t) [c_pipe]) && negb (str_eqb (snd t) [c_amp]) &&
   negb (starts_with_c c_lt (snd t))).   (* /repo 543507e: an untagged <file is split *)

Theorem plan_two cmd t :
  cmd_ok cmd = true -> arg_ok t = true ->
  plan_tokens [(TNone, cmd); t] = inl (mkcl [mkc [(TNone, cmd); t] [] None] [] false).
Proof.
  intros Hc Ha. unfold plan_tokens. rewrite (drain_cmd _ _ Hc).
  unfold cmd_ok in Hc. repeat (apply andb_true_iff in Hc as [Hc ?]).
  repeat match goal with H : negb _ = true |- _ => apply negb_true_false in H end.
  destruct t as [tg w]. unfold arg_ok in Ha. cbn [fst snd] in Ha.
  cbn [length rev app Nat.ltb Nat.leb andb].
  destruct (tag_eqb tg TNone) eqn:Etg.
  - cbn [negb orb] in Ha. repeat (apply andb_true_iff in Ha as [Ha ?]).
    repeat match goal with H : negb _ = true |- _ => apply negb_true_false in H end.
    match goal with H : str_eqb w [c_amp] = false |- _ => rewrite H end. cbn [andb].
    cbn [split_pipes tag_eqb andb is_empty app]. rewrite Etg.
    match goal with H : str_eqb cmd [c_pipe] = false |- _ => rewrite H end.
    match goal with H : str_eqb w [c_pipe] = false |- _ => rewrite H end. cbn [andb is_empty app].
    cbn [map_cmds]. rewrite from_tokens_nosplit.
    2:{ cbn [existsb]. rewrite !att_lt_sw by assumption. reflexivity. }
    unfold from_tokens_core. cbn [length from_loop has_from existsb fst snd tag_eqb andb]. rewrite Etg.
    repeat match goal with H : str_eqb _ _ = false |- _ => rewrite H end. cbn [orb andb].
    unfold tokens_to_redirections. cbn [redir_loop]. unfold redir_step.
    cbn [r_tbc r_new r_red r_s1 r_s2 tag_eqb negb andb app]. rewrite Etg.
    repeat match goal with H : has_char c_gt _ = false |- _ => rewrite H end. cbn [negb andb app is_empty]. reflexivity.
  - cbn [andb]. cbn [split_pipes tag_eqb andb is_empty app]. rewrite Etg.
    match goal with H : str_eqb cmd [c_pipe] = false |- _ => rewrite H end. cbn [andb is_empty app].
    cbn [map_cmds]. rewrite from_tokens_nosplit.
    2:{ cbn [existsb]. rewrite att_lt_sw by assumption. rewrite (att_lt_tagged tg w Etg). reflexivity. }
    unfold from_tokens_core. cbn [length from_loop has_from existsb fst snd tag_eqb andb]. rewrite Etg.
    repeat match goal with H : str_eqb _ _ = false |- _ => rewrite H end. cbn [orb andb].
    unfold tokens_to_redirections. cbn [redir_loop]. unfold redir_step.
    cbn [r_tbc r_new r_red r_s1 r_s2 tag_eqb negb andb app]. rewrite Etg.
    repeat match goal with H : has_char c_gt _ = false |- _ => rewrite H end. cbn [negb andb app is_empty]. reflexivity.
Qed.

(** an escaped word whose token stays untagged holds no angle bracket and does not start with a bar *)
Lemma has_esc_angle_false s : has_esc_angle (eitems_of in_escape_class s) = false ->
  has_char c_gt s = false /\ has_char c_lt s = false.
Proof.
  induction s as [|c s IH]; [now split|]. cbn [eitems_of map has_esc_angle existsb fst snd].
  intros H. apply orb_false_iff in H as [H1 H2]. destruct (IH H2) as [I1 I2]. cbn [has_char].
  rewrite I1, I2, !orb_false_r.
  split.
  - destruct (N.eqb_spec c c_gt) as [->|_]; [vm_compute in H1; discriminate|reflexivity].
  - destruct (N.eqb_spec c c_lt) as [->|_]; [vm_compute in H1; discriminate|reflexivity].
Qed.

Lemma name_tag_none s : name_tag s = TNone ->
  has_char c_gt s = false /\ has_char c_lt s = false /\ starts_with_c c_pipe s = false.
Proof.
  unfold name_tag, text_tag, eitems_tag. intros H.
  destruct (starts_bar_dollar (eitems_of in_escape_class s)) eqn:Es; [discriminate|].
  destruct (has_esc_angle (eitems_of in_escape_class s)) eqn:Ea; [discriminate|].
  destruct (has_esc_angle_false _ Ea) as [H1 H2]. repeat split; try assumption.
  destruct s as [|c s]; [reflexivity|]. cbn [starts_with_c]. cbn [eitems_of map starts_bar_dollar fst snd] in Es.
  destruct (N.eqb_spec c c_pipe) as [->|_]; [vm_compute in Es; discriminate|reflexivity].
Qed.

Lemma has_char_false_neq c s : has_char c s = false -> forall r, s <> c :: r.
Proof. intros H r ->. cbn in H. now rewrite N.eqb_refl in H. Qed.

Lemma arg_ok_escaped s : s <> [] -> str_eqb s [c_amp] = false -> arg_ok (name_tag s, s) = true.
Proof.
  intros Hne Hamp. unfold arg_ok. cbn [fst snd]. destruct (name_tag s) eqn:E; try reflexivity.
  destruct (name_tag_none s E) as (Hgt & Hlt & Hp). cbn [tag_eqb negb orb]. rewrite Hgt, Hamp. cbn [negb andb].
  assert (A : str_eqb s s_lt = false).
  { apply str_eqb_neq. apply (has_char_false_neq _ _ Hlt). }
  assert (B : str_eqb s s_lt3 = false).
  { apply str_eqb_neq. apply (has_char_false_neq _ _ Hlt). }
  assert (D : str_eqb s [c_pipe] = false).
  { apply str_eqb_neq. intros ->. discriminate. }
  assert (S0 : starts_with_c c_lt s = false).
  { destruct s as [|c r]; [reflexivity|]. cbn [has_char] in Hlt. cbn [starts_with_c].
    apply orb_false_iff in Hlt. destruct Hlt as [Hc _]. exact Hc. }
  now rewrite A, B, D, S0.
Qed.

(** * The list splitter on the completed lines *)
Definition plain_atoms (s : str) : list atom := map APlain s.
Definition esc_atoms (s : str) : list atom := map (fun c => if in_escape_class c then AEsc c else APlain c) s.

Lemma render_plain_atoms s : render_seg (plain_atoms s) = s.
Proof. induction s as [|c s IH]; [reflexivity|]. unfold render_seg, plain_atoms in *. cbn. now rewrite IH. Qed.
Lemma render_esc_atoms s : render_seg (esc_atoms s) = escape_path s.
Proof.
  induction s as [|c s IH]; [reflexivity|]. unfold render_seg, esc_atoms, escape_path in *. cbn [map flat_map].
  rewrite IH. unfold escape_char. destruct (in_escape_class c); reflexivity.
Qed.
Lemma render_seg_app a b : render_seg (a ++ b) = render_seg a ++ render_seg b.
Proof. unfold render_seg. apply flat_map_app. Qed.

Definition l_plain (s : str) : bool := forallb (fun c => lcls_eqb (lclassify c) LOther) s.

Lemma wf_plain_atoms s : l_plain s = true -> forallb wf_atom (plain_atoms s) = true.
Proof.
  induction s as [|c s IH]; [reflexivity|]. cbn [l_plain plain_atoms map forallb wf_atom].
  intros H. apply andb_true_iff in H as [H1 H2]. rewrite H1. exact (IH H2).
Qed.
Lemma wf_esc_atoms s : forallb wf_atom (esc_atoms s) = true.
Proof.
  induction s as [|c s IH]; [reflexivity|]. cbn [esc_atoms map forallb]. fold (esc_atoms s). rewrite IH, andb_true_r.
  destruct (in_escape_class c) eqn:E; [reflexivity|]. cbn [wf_atom]. now rewrite (escape_class_covers_l _ E).
Qed.

Lemma solid_ends s z : first_nonws s = true -> is_ws z = false -> solid (s ++ [z]) = true.
Proof.
  intros H1 H2. unfold solid. rewrite rev_app_distr. cbn [rev app first_nonws]. rewrite H2.
  destruct s as [|c s]; [discriminate|]. cbn [app first_nonws] in *. now rewrite H1.
Qed.

Lemma l2c_one seg ws_end : wf_seg seg = true -> forallb is_ws ws_end = true ->
  line_to_cmds (render_seg seg ++ ws_end) = [render_seg seg].
Proof. intros Hs He. exact (line_to_cmds_render [] seg [] ws_end eq_refl Hs eq_refl He). Qed.

Lemma escape_path_app a b : escape_path (a ++ b) = escape_path a ++ escape_path b.
Proof. unfold escape_path. apply flat_map_app. Qed.

Lemma escape_char_last z : exists pre, escape_char z = pre ++ [z].
Proof. unfold escape_char. destruct (in_escape_class z); [now exists [c_bs]|now exists []]. Qed.

(** the command word *)
Definition no_env (cmd : str) : bool := match split_env cmd with None => true | Some _ => false end.
Definition cmd_word (cmd : str) : bool :=
  plain_word cmd && negb (forallb arith_body cmd) && no_env cmd && l_plain cmd && first_nonws cmd &&
  literal_token (TNone, cmd).

(** * Statement pieces *)
Inductive qctx := Unq | InSq | InDq.
Definition ctx_tag (q : qctx) : tag := match q with Unq => TNone | InSq => TSq | InDq => TDq end.

(** names the file system permits (as far as complete_path sees them: valid UTF-8) *)
Definition valid_filename (n : str) : bool :=
  negb (is_empty n) && lacks c_slash n && lacks 0 n && negb (str_eqb n [c_dot]) && negb (str_eqb n [c_dot; c_dot]).

(** what the program must receive: the name, or name/ for a directory *)
Definition arg_of (name : str) (d : bool) : str := if d then name ++ [c_slash] else name.

(** the line after TAB substituted the single candidate for an entry of the
    current directory ([comp_of] of the model, suffix blank or slash) and, for
    a directory completed inside a quote, the user typed the closing quote *)
Definition completed_line (q : qctx) (cmd name : str) (d : bool) : str :=
  cmd ++ c_space :: cp_text (comp_of [] (ctx_tag q) false (name, d)) ++
  (if d then c_slash :: tag_str (ctx_tag q) else [c_space]).

Definition honours_guards (expand : list token -> list token) : Prop :=
  forall cmd t, cmd_word cmd = true -> literal_token t = true ->
    expand [(TNone, cmd); t] = [(TNone, cmd); t].

Definition ends_ws (s : str) : bool := match rev s with z :: _ => is_ws z | [] => false end.

(** the failing classes (known_findings.txt: unq-expanded, unq-amp-last, sq-quote,
    dq-expanded, dq-backslash). Names ending in white space are no longer among
    them (repaired by 675add7: trim_cmd keeps an escaped trailing blank, escape_path
    escapes every white-space character). *)
Definition Known_C20 (q : qctx) (name : str) (d : bool) : bool :=
  match q with
  | Unq => negb (literal_token (name_tag (arg_of name d), arg_of name d))
           || (negb d && str_eqb name [c_amp])
  | InSq => has_char c_sq name
  | InDq => has_char c_dollar name || has_char c_bq name || has_char c_bs name
  end.

(** * Small facts *)
Lemma has_char_app c a b : has_char c (a ++ b) = has_char c a || has_char c b.
Proof. induction a as [|x a IH]; [reflexivity|]. cbn [app has_char]. now rewrite IH, orb_assoc. Qed.

Lemma squeeze_no_slash s : has_char c_slash s = false -> squeeze_slashes s = s.
Proof.
  induction s as [|a s IH]; [reflexivity|]. cbn [has_char]. intros H. apply orb_false_iff in H as [Ha Hs].
  cbn [squeeze_slashes]. destruct s as [|b r]; [reflexivity|]. rewrite Ha. cbn [andb]. now rewrite (IH Hs).
Qed.

Lemma wrap_loop_id sep s : sep <> TNone -> (forall c, is_tag_char sep c = true -> has_char c s = false) ->
  forall met prev, wrap_loop sep met prev s = s.
Proof.
  intros Hsep. induction s as [|c s IH]; intros Hno met prev; [reflexivity|]. cbn [wrap_loop].
  assert (E : tag_eqb sep TNone = false) by (destruct sep; congruence || reflexivity).
  rewrite E. cbn [andb].
  destruct (is_tag_char sep c) eqn:Et.
  - specialize (Hno c Et). cbn [has_char] in Hno. now rewrite N.eqb_refl in Hno.
  - rewrite andb_false_r. cbn [app]. rewrite IH; [reflexivity|].
    intros c' Hc'. specialize (Hno c' Hc'). cbn [has_char] in Hno. now apply orb_false_iff in Hno as [_ ?].
Qed.

Lemma lcls_char k q s : (forall c, lclassify c = k -> c = q) -> has_char q s = false -> has_lcls k s = false.
Proof.
  intros Hk. induction s as [|c s IH]; [reflexivity|]. cbn [has_char has_lcls]. intros H.
  apply orb_false_iff in H as [H1 H2]. rewrite (IH H2), orb_false_r.
  destruct (lcls_eqb (lclassify c) k) eqn:E; [|reflexivity].
  apply lcls_eqb_eq in E. apply Hk in E. subst. now rewrite N.eqb_refl in H1.
Qed.
Lemma cls_char k q s : (forall c, classify c = k -> c = q) -> has_char q s = false -> has_cls k s = false.
Proof.
  intros Hk. induction s as [|c s IH]; [reflexivity|]. cbn [has_char has_cls]. intros H.
  apply orb_false_iff in H as [H1 H2]. rewrite (IH H2), orb_false_r.
  destruct (cls_eqb (classify c) k) eqn:E; [|reflexivity].
  apply cls_eqb_eq in E. apply Hk in E. subst. now rewrite N.eqb_refl in H1.
Qed.

Ltac class_inv f :=
  intros c; unfold f;
  repeat match goal with |- context [if ?x =? ?k then _ else _] =>
    destruct (N.eqb_spec x k) as [->|_] end; intros H; try discriminate H; reflexivity.

Lemma l_sq c : lclassify c = LSq -> c = c_sq. Proof. revert c. class_inv lclassify. Qed.
Lemma l_dq c : lclassify c = LDq -> c = c_dq. Proof. revert c. class_inv lclassify. Qed.
Lemma l_bs c : lclassify c = LBs -> c = c_bs. Proof. revert c. class_inv lclassify. Qed.
Lemma k_sq c : classify c = KSq -> c = c_sq. Proof. revert c. class_inv classify. Qed.
Lemma k_dq c : classify c = KDq -> c = c_dq. Proof. revert c. class_inv classify. Qed.
Lemma k_bs c : classify c = KBs -> c = c_bs. Proof. revert c. class_inv classify. Qed.

Lemma first_nonws_app a b : a <> [] -> first_nonws (a ++ b) = first_nonws a.
Proof. destruct a; [congruence|reflexivity]. Qed.

Lemma cmd_word_facts cmd : cmd_word cmd = true ->
  plain_word cmd = true /\ forallb arith_body cmd = false /\ split_env cmd = None /\ l_plain cmd = true /\
  first_nonws cmd = true /\ cmd <> [] /\ literal_token (TNone, cmd) = true.
Proof.
  unfold cmd_word, no_env. intros H. do 5 (apply andb_true_iff in H as [H ?]).
  repeat split; try assumption.
  - now apply negb_true_false.
  - destruct (split_env cmd); [discriminate|reflexivity].
  - destruct cmd; [discriminate|congruence].
Qed.

(** * Quoted contexts *)
Lemma quoted_round_trip expand cmd (a : qarg) ws_end :
  honours_guards expand -> cmd_word cmd = true -> wf_qarg a = true ->
  wf_atom (match a with QSq t => ASq t | QDq t => ADq t end) = true ->
  literal_token (tok_of_qarg a) = true -> forallb is_ws ws_end = true ->
  run_line expand (cmd ++ c_space :: render_qarg a ++ ws_end) = Some [cmd; qarg_text a].
Proof.
  intros Hg Hcmd Hwf Hat Hlit Hws.
  destruct (cmd_word_facts _ Hcmd) as (Hp & Hna & Hne & Hl & Hf & Hnn & _).
  set (at_ := match a with QSq t => ASq t | QDq t => ADq t end) in *.
  set (seg := plain_atoms cmd ++ [APlain c_space; at_]).
  assert (Er : render_seg seg = cmd ++ c_space :: render_qarg a).
  { unfold seg. rewrite render_seg_app, render_plain_atoms. unfold render_seg. cbn [flat_map render_atom].
    rewrite app_nil_r. unfold at_. destruct a; reflexivity. }
  assert (Hseg : wf_seg seg = true).
  { unfold wf_seg. apply andb_true_iff. split.
    - unfold seg. rewrite forallb_app, (wf_plain_atoms _ Hl). cbn [forallb andb]. rewrite Hat. reflexivity.
    - rewrite Er. unfold render_qarg.
      replace (cmd ++ c_space :: qarg_char a :: qarg_text a ++ [qarg_char a])
        with ((cmd ++ c_space :: qarg_char a :: qarg_text a) ++ [qarg_char a])
        by (rewrite <- app_assoc; reflexivity).
      apply solid_ends; [now rewrite first_nonws_app|destruct a; reflexivity]. }
  unfold run_line.
  replace (cmd ++ c_space :: render_qarg a ++ ws_end) with (render_seg seg ++ ws_end)
    by (rewrite Er, <- app_assoc; reflexivity).
  rewrite (l2c_one seg ws_end Hseg Hws), Er.
  assert (Hpl : parse_line (cmd ++ c_space :: render_qarg a) = [(TNone, cmd); tok_of_qarg a]).
  { pose proof (parse_line_quoted cmd [(0%nat, a)] Hp Hna) as H0. unfold render_cmd in H0.
    cbn [render_args spaces repeat app] in H0. rewrite app_nil_r in H0. apply H0.
    cbn [forallb]. now rewrite Hwf. }
  rewrite Hpl.
  match goal with |- context [expand ?l] =>
    replace (expand l) with [(TNone, cmd); tok_of_qarg a] by (symmetry; exact (Hg cmd _ Hcmd Hlit)) end.
  rewrite plan_two; [reflexivity|now apply plain_word_cmd_ok|destruct a; reflexivity].
Qed.

(** * Escaped context *)
Lemma ws_in_class c : is_ws c = true -> in_escape_class c = true.
Proof.
  intros H. unfold is_ws in H.
  repeat (apply orb_true_iff in H as [H|H]); try (apply N.eqb_eq in H; subst; reflexivity);
    apply andb_true_iff in H as [H1 H2]; apply N.leb_le in H1, H2.
  - assert (E : c = 9 \/ c = 10 \/ c = 11 \/ c = 12 \/ c = 13) by lia.
    repeat destruct E as [E|E]; subst; reflexivity.
  - assert (E : c = 8192 \/ c = 8193 \/ c = 8194 \/ c = 8195 \/ c = 8196 \/ c = 8197 \/ c = 8198 \/
                c = 8199 \/ c = 8200 \/ c = 8201 \/ c = 8202) by lia.
    repeat destruct E as [E|E]; subst; reflexivity.
Qed.

Lemma skipn_length_app {A} (a b : list A) : skipn (length a) (a ++ b) = b.
Proof. induction a as [|x a IH]; [reflexivity|exact IH]. Qed.

Lemma ws_not_bs z : is_ws z = true -> (z =? 92) = false.
Proof. intros H. destruct (N.eqb_spec z 92) as [->|_]; [discriminate H|reflexivity]. Qed.

(** trim_cmd on a text that ends in an escaped white-space character followed by white space *)
Lemma trim_cmd_esc_ws R z ws_end :
  first_nonws R = true -> Nat.even (tb R) = true -> is_ws z = true -> forallb is_ws ws_end = true ->
  trim_cmd (R ++ [c_bs; z] ++ ws_end) = R ++ [c_bs; z].
Proof.
  intros Hf He Hz Hw. unfold trim_cmd.
  assert (Ets : trim_start (R ++ [c_bs; z] ++ ws_end) = R ++ [c_bs; z] ++ ws_end).
  { destruct R as [|c r]; [discriminate|]. cbn in *. now rewrite (negb_true_false _ Hf). }
  rewrite Ets.
  assert (Ete : trim_end (R ++ [c_bs; z] ++ ws_end) = R ++ [c_bs]).
  { unfold trim_end. rewrite !rev_app_distr. cbn [rev app]. rewrite <- app_assoc.
    rewrite trim_start_ws by now rewrite forallb_rev. cbn [app trim_start]. rewrite Hz.
    cbn [trim_start]. change (is_ws c_bs) with false. cbn iota.
    change (c_bs :: rev R) with ([c_bs] ++ rev R). rewrite <- (rev_involutive [c_bs]), <- rev_app_distr.
    now rewrite rev_involutive. }
  rewrite Ete.
  assert (Elt : Nat.ltb (length (R ++ [c_bs])) (length (R ++ [c_bs; z] ++ ws_end)) = true).
  { apply Nat.ltb_lt. rewrite !app_length. cbn [length]. lia. }
  rewrite Elt. fold (tb (R ++ [c_bs])). rewrite tb_snoc. change (c_bs =? 92) with true. cbn iota.
  rewrite Nat.odd_succ, He.
  replace (R ++ [c_bs; z] ++ ws_end) with ((R ++ [c_bs]) ++ z :: ws_end) by (rewrite <- app_assoc; reflexivity).
  rewrite skipn_length_app. rewrite <- app_assoc. reflexivity.
Qed.

Lemma l2c_esc_ws seg z ws_end :
  forallb wf_atom seg = true -> first_nonws (render_seg seg) = true -> is_ws z = true ->
  forallb is_ws ws_end = true ->
  line_to_cmds (render_seg seg ++ [c_bs; z] ++ ws_end) = [render_seg seg ++ [c_bs; z]].
Proof.
  intros Hwf Hf Hz Hw. unfold line_to_cmds, lst0.
  rewrite (loop_seg _ Hwf). cbn [app].
  change (c_bs :: z :: ws_end) with (render_atom (AEsc z) ++ ws_end).
  rewrite (loop_atom (AEsc z) eq_refl).
  rewrite <- (app_nil_r ws_end), (loop_ws _ Hw). cbn [l2c_loop]. unfold l2c_finish, push_trimmed. cbn [l_res l_tok render_atom].
  match goal with |- context [trim_cmd ?x] =>
    assert (E : trim_cmd x = render_seg seg ++ [c_bs; z]) end.
  { rewrite <- app_assoc. apply trim_cmd_esc_ws; try assumption. now apply even_bs_seg. }
  rewrite E. destruct (render_seg seg); [discriminate|reflexivity].
Qed.

Ltac lnorm := repeat (rewrite <- app_assoc || (progress (cbn [app]))).  

Lemma escaped_round_trip expand cmd arg ws_end :
  honours_guards expand -> cmd_word cmd = true -> arg <> [] ->
  str_eqb arg [c_amp] = false -> literal_token (name_tag arg, arg) = true ->
  forallb is_ws ws_end = true ->
  run_line expand (cmd ++ c_space :: escape_path arg ++ ws_end) = Some [cmd; arg].
Proof.
  intros Hg Hcmd Hnn Hamp Hlit Hws.
  destruct (cmd_word_facts _ Hcmd) as (Hp & Hna & Hne & Hl & Hf & Hcn & _).
  assert (Hl2c : line_to_cmds (cmd ++ c_space :: escape_path arg ++ ws_end) = [cmd ++ c_space :: escape_path arg]).
  { destruct (exists_last Hnn) as (pre & z & ->). rewrite escape_path_app.
    assert (Ez : escape_path [z] = escape_char z) by (unfold escape_path; cbn [flat_map]; apply app_nil_r).
    rewrite Ez.
    destruct (is_ws z) eqn:Hz.
    - (* the name ends in white space: it is escaped, trim_cmd keeps it *)
      unfold escape_char. rewrite (ws_in_class _ Hz).
      set (seg := plain_atoms cmd ++ APlain c_space :: esc_atoms pre).
      assert (Er : render_seg seg = cmd ++ c_space :: escape_path pre).
      { unfold seg. rewrite render_seg_app, render_plain_atoms.
        change (APlain c_space :: esc_atoms pre) with ([APlain c_space] ++ esc_atoms pre).
        rewrite render_seg_app, render_esc_atoms. reflexivity. }
      replace (cmd ++ c_space :: (escape_path pre ++ [c_bs; z]) ++ ws_end)
        with (render_seg seg ++ [c_bs; z] ++ ws_end)
        by (rewrite Er; lnorm; reflexivity).
      replace (cmd ++ c_space :: escape_path pre ++ [c_bs; z]) with (render_seg seg ++ [c_bs; z])
        by (rewrite Er; lnorm; reflexivity).
      apply l2c_esc_ws; try assumption.
      + unfold seg. rewrite forallb_app, (wf_plain_atoms _ Hl). cbn [forallb andb wf_atom]. apply wf_esc_atoms.
      + rewrite Er. now rewrite first_nonws_app.
    - set (seg := plain_atoms cmd ++ APlain c_space :: esc_atoms (pre ++ [z])).
      assert (Er : render_seg seg = cmd ++ c_space :: escape_path pre ++ escape_char z).
      { unfold seg. rewrite render_seg_app, render_plain_atoms.
        change (APlain c_space :: esc_atoms (pre ++ [z])) with ([APlain c_space] ++ esc_atoms (pre ++ [z])).
        rewrite render_seg_app, render_esc_atoms, escape_path_app. unfold escape_path at 2. cbn [flat_map].
        rewrite app_nil_r. reflexivity. }
      assert (Hseg : wf_seg seg = true).
      { unfold wf_seg. apply andb_true_iff. split.
        - unfold seg. rewrite forallb_app, (wf_plain_atoms _ Hl). cbn [forallb andb wf_atom]. apply wf_esc_atoms.
        - rewrite Er. destruct (escape_char_last z) as (p' & ->).
          replace (cmd ++ c_space :: escape_path pre ++ p' ++ [z])
            with ((cmd ++ c_space :: escape_path pre ++ p') ++ [z])
            by (rewrite <- !app_assoc; cbn [app]; rewrite <- app_assoc; reflexivity).
          apply solid_ends; [now rewrite first_nonws_app|exact Hz]. }
      replace (cmd ++ c_space :: (escape_path pre ++ escape_char z) ++ ws_end) with (render_seg seg ++ ws_end)
        by (rewrite Er; lnorm; reflexivity).
      rewrite (l2c_one seg ws_end Hseg Hws), Er. reflexivity. }
  unfold run_line. rewrite Hl2c.
  pose proof (parse_line_escape_path cmd arg 0 Hp Hna Hnn) as Hpl.
  cbn [spaces repeat] in Hpl. rewrite app_nil_r in Hpl. rewrite Hpl.
  match goal with |- context [expand ?l] =>
    replace (expand l) with [(TNone, cmd); (name_tag arg, arg)] by (symmetry; exact (Hg cmd _ Hcmd Hlit)) end.
  rewrite plan_two; [reflexivity|now apply plain_word_cmd_ok|now apply arg_ok_escaped].
Qed.

(** * Inside double quotes, with the quotes of the name escaped *)
Lemma wrap_loop_dq t : forall met prev, wrap_loop TDq met prev t = dq_esc t.
Proof.
  induction t as [|c t IH]; intros met prev; [reflexivity|]. cbn [wrap_loop tag_eqb andb]. rewrite andb_false_r.
  unfold is_tag_char. cbn [tag_char]. unfold dq_esc. cbn [flat_map]. fold (dq_esc t). rewrite IH.
  destruct (N.eqb_spec c c_dq) as [->|_]; reflexivity.
Qed.

Lemma l2c_cons s c r : l2c_loop s (c :: r) =
  match l2c_step s c (Cmds.peek r) with LCont s' => l2c_loop s' r | LBreak s' => s' end.
Proof. reflexivity. Qed.

Lemma step_bs_in_dq res tok nxt : l2c_step (mkl res LDq tok false) c_bs nxt = LCont (mkl res LDq tok true).
Proof. reflexivity. Qed.

Lemma l2c_loop_dq_esc t : has_lcls LBs t = false -> forall res tok rest,
  l2c_loop (mkl res LDq tok false) (dq_esc t ++ rest) = l2c_loop (mkl res LDq (tok ++ dq_esc t) false) rest.
Proof.
  induction t as [|c t IH]; intros Hb res tok rest; [now rewrite app_nil_r|].
  apply has_lcls_cons in Hb as [Hc Hb]. unfold dq_esc. cbn [flat_map]. fold (dq_esc t). rewrite <- app_assoc.
  destruct (N.eqb_spec c c_dq) as [->|Hne].
  - cbn [app]. rewrite l2c_cons, step_bs_in_dq, l2c_cons, step_after_bs, (IH Hb).
    now rewrite <- app_assoc.
  - cbn [app]. rewrite l2c_cons, step_in_quote; [|right; now left| |now right].
    + rewrite (IH Hb). now rewrite <- app_assoc.
    + intros E. apply l_dq in E. contradiction.
Qed.

Lemma tb_app_last s c : (c =? 92) = false -> tb (s ++ [c]) = O.
Proof. intros H. now rewrite tb_snoc, H. Qed.

Lemma l2c_dq_line cmd t ws_end :
  l_plain cmd = true -> first_nonws cmd = true -> has_lcls LBs t = false -> forallb is_ws ws_end = true ->
  line_to_cmds (cmd ++ c_space :: c_dq :: dq_esc t ++ [c_dq] ++ ws_end) = [cmd ++ c_space :: c_dq :: dq_esc t ++ [c_dq]].
Proof.
  intros Hl Hf Hb Hw. unfold line_to_cmds, lst0.
  set (seg := plain_atoms cmd ++ [APlain c_space]).
  assert (Er : render_seg seg = cmd ++ [c_space]).
  { unfold seg. rewrite render_seg_app, render_plain_atoms. reflexivity. }
  assert (Hwf : forallb wf_atom seg = true).
  { unfold seg. rewrite forallb_app, (wf_plain_atoms _ Hl). reflexivity. }
  replace (cmd ++ c_space :: c_dq :: dq_esc t ++ [c_dq] ++ ws_end)
    with (render_seg seg ++ c_dq :: dq_esc t ++ [c_dq] ++ ws_end)
    by (rewrite Er, <- app_assoc; reflexivity).
  rewrite (loop_seg _ Hwf). cbn [app].
  rewrite l2c_cons, (step_open _ _ c_dq _ LDq); [|right; now left|reflexivity].
  rewrite (l2c_loop_dq_esc t Hb). cbn [app]. rewrite l2c_cons, (step_close _ _ c_dq _ LDq); [|right; now left|reflexivity].
  rewrite <- (app_nil_r ws_end), (loop_ws _ Hw). cbn [l2c_loop]. unfold l2c_finish. cbn [l_res l_tok].
  rewrite Er. set (S := cmd ++ c_space :: c_dq :: dq_esc t ++ [c_dq]).
  match goal with |- push_trimmed [] ?T = _ =>
    assert (ET : T = [] ++ S ++ ws_end) by (unfold S; lnorm; reflexivity); rewrite ET end.
  assert (ES : S = (cmd ++ c_space :: c_dq :: dq_esc t) ++ [c_dq]) by (unfold S; lnorm; reflexivity).
  rewrite push_trimmed_pad; try assumption; try reflexivity.
  - rewrite ES. apply solid_ends; [|reflexivity]. rewrite first_nonws_app; [exact Hf|]. destruct cmd; [discriminate|congruence].
  - rewrite ES. now rewrite tb_app_last.
Qed.

Lemma dq_round_trip expand cmd t ws_end :
  honours_guards expand -> cmd_word cmd = true ->
  has_char c_bs t = false -> has_char c_dollar t = false -> has_char c_bq t = false ->
  forallb is_ws ws_end = true ->
  run_line expand (cmd ++ c_space :: c_dq :: dq_esc t ++ [c_dq] ++ ws_end) = Some [cmd; t].
Proof.
  intros Hg Hcmd Hbs Hdol Hbq Hws.
  destruct (cmd_word_facts _ Hcmd) as (Hp & Hna & Hne & Hl & Hf & Hcn & _).
  unfold run_line. rewrite (l2c_dq_line cmd t ws_end Hl Hf (lcls_char LBs c_bs _ l_bs Hbs) Hws).
  rewrite (parse_line_dq_escaped cmd t Hp Hna (cls_char KBs c_bs _ k_bs Hbs)).
  assert (Hlit : literal_token (TDq, t) = true).
  { cbn [literal_token]. unfold lacks. now rewrite Hdol, Hbq. }
  match goal with |- context [expand ?l] =>
    replace (expand l) with [(TNone, cmd); (TDq, t)] by (symmetry; exact (Hg cmd _ Hcmd Hlit)) end.
  rewrite plan_two; [reflexivity|now apply plain_word_cmd_ok|reflexivity].
Qed.

(** * The partial theorem *)
Lemma valid_filename_facts n : valid_filename n = true -> n <> [] /\ has_char c_slash n = false.
Proof.
  unfold valid_filename, lacks. intros H. repeat (apply andb_true_iff in H as [H ?]).
  split; [destruct n; [discriminate|congruence]|now apply negb_true_false].
Qed.

Lemma ends_ws_slash name : ends_ws (name ++ [c_slash]) = false.
Proof. unfold ends_ws. rewrite rev_app_distr. reflexivity. Qed.

Lemma not_amp_slash name : str_eqb (name ++ [c_slash]) [c_amp] = false.
Proof.
  apply str_eqb_neq. intros E. apply (f_equal (@rev char)) in E. rewrite rev_app_distr in E.
  cbn [rev app] in E. injection E as E _. discriminate E.
Qed.

Lemma removelast_wrap (c : char) (s : str) : removelast (c :: s ++ [c]) = c :: s.
Proof. change (c :: s ++ [c]) with ((c :: s) ++ [c]). apply removelast_last. Qed.

Theorem round_trip_partial expand q cmd name d :
  honours_guards expand -> cmd_word cmd = true -> valid_filename name = true ->
  Known_C20 q name d = false ->
  run_line expand (completed_line q cmd name d) = Some [cmd; arg_of name d].
Proof.
  intros Hg Hcmd Hv Hk. destruct (valid_filename_facts _ Hv) as [Hnn Hsl].
  unfold completed_line, comp_of. cbn [is_empty]. rewrite (squeeze_no_slash _ Hsl).
  assert (Harg : arg_of name d <> []) by (destruct d; cbn [arg_of]; [destruct name; discriminate|exact Hnn]).
  destruct q; cbn [ctx_tag tag_eqb negb andb orb cp_text]; rewrite ?andb_false_r, ?andb_true_r.
  - (* escaped *)
    cbn [Known_C20] in Hk. apply orb_false_iff in Hk as [Hlit Hrest].
    apply negb_false_iff in Hlit.
    replace (escape_path name ++ (if d then c_slash :: tag_str TNone else [c_space]))
      with (escape_path (arg_of name d) ++ (if d then [] else [c_space])).
    2:{ destruct d; cbn [arg_of tag_str tag_char]; [|reflexivity]. rewrite escape_path_app, app_nil_r. reflexivity. }
    apply escaped_round_trip; try assumption.
    + destruct d; cbn [arg_of]; [apply not_amp_slash|]. exact Hrest.
    + destruct d; reflexivity.
  - (* inside single quotes *)
    cbn [Known_C20] in Hk.
    unfold wrap_sep_string. cbn [tag_str tag_char]. rewrite wrap_loop_id; [|discriminate|].
    2:{ intros c Hc. unfold is_tag_char in Hc. cbn [tag_char] in Hc. apply N.eqb_eq in Hc. now subst. }
    assert (Hq : has_char c_sq (arg_of name d) = false).
    { destruct d; cbn [arg_of]; [|exact Hk]. rewrite has_char_app, Hk. reflexivity. }
    match goal with |- run_line expand ?L = _ =>
      assert (El : L = cmd ++ c_space :: render_qarg (QSq (arg_of name d)) ++ (if d then [] else [c_space])) end.
    { f_equal. f_equal. unfold render_qarg. cbn [qarg_char qarg_text app]. destruct d; cbn [arg_of]; [|reflexivity].
      rewrite removelast_wrap, app_nil_r. cbn [app]. now rewrite <- app_assoc. }
    rewrite El.
    apply (quoted_round_trip expand cmd (QSq (arg_of name d))); try assumption.
    + cbn [wf_qarg]. now rewrite (cls_char KSq c_sq _ k_sq Hq).
    + cbn [wf_atom]. now rewrite (lcls_char LSq c_sq _ l_sq Hq).
    + reflexivity.
    + destruct d; reflexivity.
  - (* inside double quotes: a double quote of the name is written as backslash + quote *)
    cbn [Known_C20] in Hk.
    apply orb_false_iff in Hk as [Hk Hbs]. apply orb_false_iff in Hk as [Hdol Hbq].
    unfold wrap_sep_string. cbn [tag_str tag_char]. rewrite wrap_loop_dq.
    assert (Hall : forall c, has_char c name = false -> (c =? c_slash) = false -> has_char c (arg_of name d) = false).
    { intros c H1 H2. destruct d; cbn [arg_of]; [|exact H1]. rewrite has_char_app, H1. cbn [has_char orb].
      rewrite N.eqb_sym, H2. reflexivity. }
    match goal with |- run_line expand ?L = _ =>
      assert (El : L = cmd ++ c_space :: c_dq :: dq_esc (arg_of name d) ++ [c_dq] ++ (if d then [] else [c_space])) end.
    { f_equal. f_equal. cbn [app]. destruct d; cbn [arg_of].
      - rewrite removelast_wrap. unfold dq_esc. rewrite flat_map_app. cbn [flat_map app].
        change (c_slash =? c_dq) with false. cbn iota. lnorm. reflexivity.
      - lnorm. reflexivity. }
    rewrite El.
    apply dq_round_trip; try assumption.
    + now apply Hall.
    + now apply Hall.
    + now apply Hall.
    + destruct d; reflexivity.
Qed.
