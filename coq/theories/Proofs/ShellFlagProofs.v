(** C15, round 9b: the reference semantics with exit_on_error as STATE. The flag is threaded through
    the lines and through calls (a callee may switch it on while it is off in the caller; calls may
    come before `set -e`); nothing switches it off. Same level and same line classes as
    Proofs/ShellCallsProofs.v (already-parsed texts, one pipeline per line, `source` excluded). *)
From Cicada Require Import Base.Chars Base.Peg Gen.LocustGrammar Model.Script Model.ScriptAst Model.Args Model.ShellScript Model.Cmds Model.ListExec Model.CondLine
  Proofs.ScriptProofs Proofs.SetEProofs Proofs.ShellProofs Proofs.ShellCallsProofs.
From Coq Require Import ZArith Lia.
Local Open Scope N_scope.

Lemma last_status_snoc acc x : last_status (acc ++ [x]) = Some x.
Proof.
  induction acc as [|a acc IH]; [reflexivity|]. cbn [app].
  destruct (acc ++ [x])%list as [|y r] eqn:E; [destruct acc; discriminate E|]. exact IH.
Qed.

Lemma last_nz_snoc acc x : last_is_nonzero (acc ++ [x]) = negb (Z.eqb x 0).
Proof. unfold last_is_nonzero. rewrite last_status_snoc. reflexivity. Qed.

Lemma last_or_zero_snoc acc x : last_or_zero (acc ++ [x]) = x.
Proof. rewrite last_status_or_zero, last_status_snoc. reflexivity. Qed.

Inductive kind2 := QNop | QSetE | QSource | QCall (body : list str) | QExt.

Section Ref2.
Variable ext : str -> Z.
Variable rt : list (str * list str).

Definition classify2 (l : str) : kind2 :=
  match cmd_words l with
  | [] => QNop
  | cmd :: args =>
      if str_eqb cmd [115; 101; 116] && match args with [a] => str_eqb a [45; 101] | _ => false end then QSetE
      else if str_eqb cmd s_source then QSource
      else match get_body cmd rt with Some b => QCall b | None => QExt end
  end.

(** result: the flag afterwards, the commands executed (in order), the status of the last line executed *)
Definition rres : Type := bool * list str * Z.

Section R.
Variable rec : list str -> bool -> option rres.      (* a body, from a flag *)
Fixpoint ref_lines (ls : list str) (e : bool) (last : Z) : option rres :=
  match ls with
  | [] => Some (e, [], last)
  | l :: r =>
      match classify2 l with
      | QNop => ref_lines r e 0%Z
      | QSetE => ref_lines r true 0%Z
      | QSource => None
      | QCall body =>
          match rec body e with
          | Some (e1, tr1, st1) =>
              if e1 && negb (Z.eqb st1 0) then Some (e1, tr1, st1)      (* the failure ends the caller too *)
              else match ref_lines r e1 st1 with
                   | Some (e2, tr2, st2) => Some (e2, (tr1 ++ tr2)%list, st2)
                   | None => None
                   end
          | None => None
          end
      | QExt =>
          if e && negb (Z.eqb (ext l) 0) then Some (e, [l], ext l)
          else match ref_lines r e (ext l) with
               | Some (e2, tr2, st2) => Some (e2, l :: tr2, st2)
               | None => None
               end
      end
  end.
End R.

(** call depth bounded by the fuel; None = out of fuel (or a `source` line) *)
Fixpoint refl (fuel : nat) : list str -> bool -> Z -> option rres :=
  match fuel with
  | O => fun _ _ _ => None
  | S f => ref_lines (fun b e => refl f b e 0%Z)
  end.

(** the reference never switches the flag off: not a line, not a call, not a return *)
Lemma refl_flag : forall fuel ls last e' tr st, refl fuel ls true last = Some (e', tr, st) -> e' = true.
Proof.
  induction fuel as [|f IHf]; [discriminate|].
  induction ls as [|l r IHr]; intros last e' tr st H.
  - cbn in H. injection H as <- _ _. reflexivity.
  - change (refl (S f) (l :: r) true last) with (ref_lines (fun b e => refl f b e 0%Z) (l :: r) true last) in H.
    cbn [ref_lines] in H.
    change (ref_lines (fun b e => refl f b e 0%Z) r) with (refl (S f) r) in H.
    destruct (classify2 l) as [| | |body|].
    + exact (IHr _ _ _ _ H).
    + exact (IHr _ _ _ _ H).
    + discriminate H.
    + destruct (refl f body true 0%Z) as [[[e1 tr1] st1]|] eqn:B; [|discriminate H].
      pose proof (IHf _ _ _ _ _ B) as E1. subst e1.
      destruct (true && negb (Z.eqb st1 0)); [injection H as <- _ _; reflexivity|].
      destruct (refl (S f) r true st1) as [[[e2 tr2] st2]|] eqn:R; [|discriminate H].
      injection H as <- _ _. exact (IHr _ _ _ _ R).
    + destruct (true && negb (Z.eqb (ext l) 0)); [injection H as <- _ _; reflexivity|].
      destruct (refl (S f) r true (ext l)) as [[[e2 tr2] st2]|] eqn:R; [|discriminate H].
      injection H as <- _ _. exact (IHr _ _ _ _ R).
Qed.
End Ref2.

Section Flag.
Variable ext : str -> Z.
Variable file_text : str -> option str.
Variable n : nat.
Variable ft : list (str * str).
Variable rt : list (str * list str).
Hypothesis Htab : tab_ok ft rt.

Notation XL f := (exec_line ext file_text n f).
Notation RL := (refl ext rt).

Lemma loop_step2 rif rfor rwh fuel l rest w acc : ok_line l = true ->
  exp_loop shs (XL fuel) s_eoe rif rfor rwh false (cmd_node l :: rest) w acc =
  if negb (Z.eqb (snd (exec_pipe ext file_text n fuel w l)) 0) && s_eoe (fst (exec_pipe ext file_text n fuel w l))
  then Done (fst (exec_pipe ext file_text n fuel w l)) (acc ++ [snd (exec_pipe ext file_text n fuel w l)]) false false
  else exp_loop shs (XL fuel) s_eoe rif rfor rwh false rest (fst (exec_pipe ext file_text n fuel w l))
         (acc ++ [snd (exec_pipe ext file_text n fuel w l)]).
Proof.
  intros Hok. unfold ok_line in Hok. apply andb_prop in Hok as [Hl Hs].
  unfold wf_line in Hl. apply andb_prop in Hl as [Hl H3]. apply andb_prop in Hl as [H1 H2].
  apply negb_true_iff in H1, H2, H3.
  cbn [exp_loop cmd_node t_txt t_rule]. rewrite H1, H2, H3, N.eqb_refl.
  unfold exec_line at 1. rewrite (run_line_single shs _ w l Hs), last_nz_snoc. reflexivity.
Qed.

Definition main2_at (fuel : nat) : Prop :=
  forall lines, forallb ok_line lines = true ->
  forall rif rfor rwh tail w acc e' tr st, forallb empty_node tail = true -> s_funcs w = ft ->
  RL fuel lines (s_eoe w) (last_or_zero acc) = Some (e', tr, st) ->
  exists sts,
    exp_loop shs (XL fuel) s_eoe rif rfor rwh false (map cmd_node lines ++ tail) w acc =
      Done (mk_shs e' ft (s_log w ++ tr)) (acc ++ sts) false false
    /\ last_or_zero (acc ++ sts) = st.

Lemma body_call2 f : main2_at f -> forall text body w e' tr st,
  flat_parsed text body -> forallb ok_line body = true -> s_funcs w = ft ->
  RL f body (s_eoe w) 0%Z = Some (e', tr, st) ->
  exists sts,
    run_lines shs (XL f) no_words no_setvar s_eoe n text w =
      Some (Done (mk_shs e' ft (s_log w ++ tr)) sts false false)
    /\ last_or_zero sts = st.
Proof.
  intros IH text body w e' tr st [p [r [pairs [rule [txt [tail [Hp [Hm Ht]]]]]]]] Hok Hf Hr.
  unfold run_lines. rewrite Hp, Hm, run_pairs_one. erewrite exp_loop_skel by exact Ht.
  destruct (IH body Hok
              (run_exp_if shs (XL f) no_words no_setvar s_eoe n (length text))
              (run_exp_for shs (XL f) no_words no_setvar s_eoe n (length text))
              (run_exp_while shs (XL f) no_words no_setvar s_eoe n (length text))
              [] w [] e' tr st eq_refl Hf Hr) as [sts [H1 H2]].
  rewrite H1. cbn [app] in *. exists sts. split; [reflexivity | exact H2].
Qed.

Lemma main2_all : forall fuel, main2_at fuel.
Proof.
  induction fuel as [|f IHf]; [intros lines _ rif rfor rwh tail w acc e' tr st _ _ H; discriminate H|].
  intros lines. induction lines as [|l r IHr]; intros Hok rif rfor rwh tail w acc e' tr st Ht Hf Href.
  - cbn in Href. injection Href as <- <- <-. cbn [map app].
    rewrite (tail_loop ext file_text n rif rfor rwh tail Ht). exists []. rewrite !app_nil_r.
    destruct w as [e fs lg]. cbn [s_eoe s_funcs s_log] in *. subst. split; reflexivity.
  - cbn [forallb] in Hok. apply andb_prop in Hok as [Hl Hr].
    change (RL (S f) (l :: r) (s_eoe w) (last_or_zero acc))
      with (ref_lines ext rt (fun b e => RL f b e 0%Z) (l :: r) (s_eoe w) (last_or_zero acc)) in Href.
    cbn [ref_lines] in Href.
    change (ref_lines ext rt (fun b e => RL f b e 0%Z) r) with (RL (S f) r) in Href.
    cbn [map app].
    assert (Hgo : forall w1 st1 tr1 e2 tr2 st2,
              exec_pipe ext file_text n (S f) w l = (w1, st1) -> s_funcs w1 = ft -> s_log w1 = (s_log w ++ tr1)%list ->
              negb (Z.eqb st1 0) && s_eoe w1 = false ->
              RL (S f) r (s_eoe w1) st1 = Some (e2, tr2, st2) ->
              exists sts, exp_loop shs (XL (S f)) s_eoe rif rfor rwh false (cmd_node l :: map cmd_node r ++ tail) w acc =
                Done (mk_shs e2 ft (s_log w ++ tr1 ++ tr2)) (acc ++ sts) false false
                /\ last_or_zero (acc ++ sts) = st2).
    { intros w1 st1 tr1 e2 tr2 st2 Hx Hf1 Hl1 Hns Hr2.
      rewrite (loop_step2 rif rfor rwh (S f) l _ w acc Hl), Hx. cbn [fst snd]. rewrite Hns.
      destruct (IHr Hr rif rfor rwh tail w1 (acc ++ [st1]) e2 tr2 st2 Ht Hf1) as [sts [I1 I2]].
      { rewrite last_or_zero_snoc. exact Hr2. }
      rewrite I1, Hl1. exists (st1 :: sts). rewrite <- !app_assoc in *. cbn [app] in *.
      split; [reflexivity | exact I2]. }
    unfold classify2 in Href.
    pose proof (exec_pipe_S ext file_text n f w l) as Hx.
    destruct (cmd_words l) as [|cmd args].
    { destruct (Hgo w 0%Z [] e' tr st Hx Hf (eq_sym (app_nil_r _)) eq_refl Href) as [sts Hs]. exists sts. exact Hs. }
    destruct (str_eqb cmd [115; 101; 116] && match args with [a] => str_eqb a [45; 101] | _ => false end).
    { destruct (Hgo (mk_shs true (s_funcs w) (s_log w)) 0%Z [] e' tr st Hx Hf (eq_sym (app_nil_r _)) eq_refl Href)
        as [sts Hs]. exists sts. exact Hs. }
    destruct (str_eqb cmd s_source); [discriminate Href|].
    pose proof (tab_lookup ft rt Htab cmd) as Hlk. rewrite Hf in Hx.
    destruct (get_func cmd ft) as [text|].
    + destruct Hlk as [body [Hb [Hpar Hbok]]]. rewrite Hb in Href.
      destruct (RL f body (s_eoe w) 0%Z) as [[[e1 tr1] st1]|] eqn:B; [|discriminate Href].
      destruct (body_call2 f IHf text body w e1 tr1 st1 Hpar Hbok Hf B) as [bs [R1 R2]].
      change (run_line_of shs (exec_pipe ext file_text n f)) with (XL f) in Hx.
      rewrite R1 in Hx. unfold func_call_status in Hx. rewrite R2 in Hx.
      destruct (e1 && negb (Z.eqb st1 0)) eqn:C.
      * injection Href as <- <- <-.
        rewrite (loop_step2 rif rfor rwh (S f) l _ w acc Hl), Hx. cbn [fst snd s_eoe].
        rewrite andb_comm, C. exists [st1]. split; [reflexivity | apply last_or_zero_snoc].
      * destruct (RL (S f) r e1 st1) as [[[e2 tr2] st2]|] eqn:R; [|discriminate Href].
        injection Href as <- <- <-.
        apply (Hgo (mk_shs e1 ft (s_log w ++ tr1)) st1 tr1 e2 tr2 st2 Hx eq_refl eq_refl).
        { cbn [s_eoe]. rewrite andb_comm. exact C. }
        exact R.
    + rewrite Hlk in Href. destruct (s_eoe w && negb (Z.eqb (ext l) 0)) eqn:C.
      * injection Href as <- <- <-.
        rewrite (loop_step2 rif rfor rwh (S f) l _ w acc Hl), Hx. cbn [fst snd s_eoe].
        rewrite andb_comm, C. exists [ext l].
        split; [reflexivity | apply last_or_zero_snoc].
      * destruct (RL (S f) r (s_eoe w) (ext l)) as [[[e2 tr2] st2]|] eqn:R; [|discriminate Href].
        injection Href as <- <- <-.
        apply (Hgo (mk_shs (s_eoe w) ft (s_log w ++ [l])) (ext l) [l] e2 tr2 st2 Hx eq_refl eq_refl).
        { cbn [s_eoe]. rewrite andb_comm. exact C. }
        exact R.
Qed.

(** a text (a body, or a script's main text) from ANY flag *)
Theorem flag_state_lines : forall fuel text lines w e' tr st,
  flat_parsed text lines -> forallb ok_line lines = true -> s_funcs w = ft ->
  RL fuel lines (s_eoe w) 0%Z = Some (e', tr, st) ->
  exists sts,
    run_lines shs (XL fuel) no_words no_setvar s_eoe n text w =
      Some (Done (mk_shs e' ft (s_log w ++ tr)) sts false false)
    /\ script_status sts = st.
Proof. intros fuel text lines w e' tr st. apply (body_call2 fuel (main2_all fuel)). Qed.

End Flag.

(** the script: run_script restores the caller's flag *)
Theorem flag_state_script : forall ext file_text n fuel path text defs text_new rt lines w e' tr st,
  file_text path = Some text -> function_table text = (defs, text_new) ->
  tab_ok (set_funcs defs (s_funcs w)) rt ->
  flat_parsed text_new lines -> forallb ok_line lines = true ->
  refl ext rt fuel lines (s_eoe w) 0%Z = Some (e', tr, st) ->
  run_script ext file_text n (S fuel) w path =
    (mk_shs (s_eoe w) (set_funcs defs (s_funcs w)) (s_log w ++ tr), st).
Proof.
  intros ext file_text n fuel path text defs text_new rt lines w e' tr st Hfile Hft Htab Hpar Hok Hr.
  rewrite run_script_S, Hfile, Hft. cbv zeta.
  change (run_line_of shs (exec_pipe ext file_text n fuel)) with (exec_line ext file_text n fuel).
  destruct (flag_state_lines ext file_text n (set_funcs defs (s_funcs w)) rt Htab fuel text_new lines
              (mk_shs (s_eoe w) (set_funcs defs (s_funcs w)) (s_log w)) e' tr st Hpar Hok eq_refl Hr) as [sts [H1 H2]].
  rewrite H1. cbn [s_funcs s_log]. rewrite H2. reflexivity.
Qed.
