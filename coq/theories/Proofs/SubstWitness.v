(** C11: the reference trimming, the partial theorem in the property's words, and the
    concrete witnesses against the full statement. *)
From Coq Require Import List NArith ZArith Bool Lia.
From Cicada Require Import Base.Chars Base.Tag Base.Regex Gen.ShellRegexes Model.Expand Model.ExpandRef Model.SubstVariant
  Proofs.ExpandBasics Proofs.SubstProofs.
Import ListNotations.
From Coq Require String.
Import String.StringSyntax.
Local Open Scope N_scope.

(** what the property asks for -- trailing newlines removed, nothing else -- is [strip_nl] of Model/SubstVariant.v *)

(** the words the statements speak about: head $( cmd ) tail with unambiguous boundaries *)
Definition word_ok (head cmd tail : str) : Prop :=
  ~ In 36 head /\ ~ In 36 tail /\ ~ In 10 tail /\ ~ In 41 tail /\ cmd <> [] /\ ~ In 41 cmd /\ ~ In 10 cmd /\
  (~ In 61 (head ++ [36; 40] ++ cmd ++ [41] ++ tail) \/ ~ In 39 (head ++ [36; 40] ++ cmd ++ [41] ++ tail)).

Definition C11_full : Prop :=
  forall W head cmd tail, word_ok head cmd tail ->
  (forall out, run_capture W cmd = Some out ->
     exists f, dollar_loop f W (head ++ [36; 40] ++ cmd ++ [41] ++ tail) []
               = Ok (Some (head ++ strip_nl out ++ tail), [cmd]))
  /\ (run_capture W cmd = None ->
     exists f, dollar_loop f W (head ++ [36; 40] ++ cmd ++ [41] ++ tail) [] = Ok (Some (head ++ tail), [cmd])).

Lemma splice_partial W head cmd tail out f :
  word_ok head cmd tail -> run_capture W cmd = Some out ->
  has_dollar_paren (head ++ trim out ++ tail) = false -> trim out = strip_nl out ->
  dollar_loop (S (S f)) W (head ++ [36; 40] ++ cmd ++ [41] ++ tail) [] = Ok (Some (head ++ strip_nl out ++ tail), [cmd]).
Proof.
  intros (H1 & H2 & H3 & H4 & H5 & H6 & H7 & H8) Hr Hd Ht. rewrite <- Ht.
  assert (E : oracle_out W cmd = out) by (unfold oracle_out; rewrite Hr; reflexivity).
  rewrite <- E in *.
  apply dollar_loop_splices; assumption.
Qed.

(** since 85ca576: an inner line that does not plan gives the empty replacement, after one call *)
Lemma unplannable_empty W head cmd tail f :
  word_ok head cmd tail -> run_capture W cmd = None ->
  dollar_loop (S (S f)) W (head ++ [36; 40] ++ cmd ++ [41] ++ tail) [] = Ok (Some (head ++ tail), [cmd]).
Proof.
  intros (H1 & H2 & H3 & H4 & H5 & H6 & H7 & H8) Hr. apply dollar_loop_unplannable; assumption.
Qed.

Lemma word_ok_x : word_ok [] [120] [].
Proof.
  unfold word_ok. cbn. repeat split; try (intros H; exact H); try discriminate.
  - intros [H|H]; [discriminate | exact H].
  - intros [H|H]; [discriminate | exact H].
  - left. intros H. repeat (destruct H as [H|H]; [discriminate|]). exact H.
Qed.

(** regression (since 5e2d7b7): $(x) where x prints a$1b : the output is text, $1b stays (it used to be
    read as a reference to a group that does not exist) *)
Definition W_tpl := world_of [] [([120], Some (s2l "a$1b"))].
Lemma template_kept : forall f, (2 <= f)%nat ->
  dollar_loop f W_tpl (s2l "$(x)") [] = Ok (Some (s2l "a$1b"), [[120]]).
Proof.
  intros f Hf. destruct f as [|[|f]]; try lia.
  rewrite !dollar_loop_S. vm_compute. reflexivity.
Qed.

(** $(x) where x prints <blank>v<blank><newline> : all surrounding white space goes, not only the newline *)
Definition W_ws := world_of [] [([120], Some [32; 118; 32; 10])].
Lemma whitespace_witness : forall f, (2 <= f)%nat ->
  dollar_loop f W_ws (s2l "p$(x)q") [] = Ok (Some (s2l "pvq"), [[120]]) /\ strip_nl [32; 118; 32; 10] = [32; 118; 32].
Proof.
  intros f Hf. destruct f as [|[|f]]; try lia.
  rewrite !dollar_loop_S. vm_compute. split; reflexivity.
Qed.

Lemma word_ok_pxq : word_ok [112] [120] [113].
Proof.
  unfold word_ok. cbn. repeat split; try discriminate;
    try (intros H; repeat (destruct H as [H|H]; [discriminate|]); exact H).
  left. intros H. repeat (destruct H as [H|H]; [discriminate|]). exact H.
Qed.

(** the full statement asks for p<blank>v<blank>q; the loop gives pvq *)
Theorem full_refuted : ~ C11_full.
Proof.
  intros H. destruct (H W_ws [112] [120] [113] word_ok_pxq) as [H1 _].
  destruct (H1 [32; 118; 32; 10] eq_refl) as [f Hf].
  change ([112] ++ [36; 40] ++ [120] ++ [41] ++ [113]) with (s2l "p$(x)q") in Hf.
  destruct f as [|[|f]].
  - discriminate.
  - vm_compute in Hf. discriminate.
  - rewrite (proj1 (whitespace_witness (S (S f)) ltac:(lia))) in Hf. vm_compute in Hf. discriminate.
Qed.

(** $(x)$(y) : the greedy group takes everything up to the LAST closing paren as one command *)
Lemma greedy_merge_witness :
  find_dollar (s2l "$(x)$(y)") = Some ([], s2l "x)$(y", [], []).
Proof. vm_compute. reflexivity. Qed.

(** regression for 8a189aa: a backquote command that does not plan yields the empty string, in its own place *)
Example dot_example :
  let W := world_of [] [([120], Some (s2l "abc")); (s2l "ls >", None)] in
  dot_loop 5 W (s2l "a`x`b`ls >`c") [] [] = Ok (s2l "aabcbc", [[120]; s2l "ls >"])
  /\ dot_collect W [(TBq, s2l "ls >"); (TBq, [120]); (TNone, s2l "z")] 0 []
     = Ok ([(0%nat, []); (1%nat, s2l "abc")], [s2l "ls >"; [120]]).
Proof. split; vm_compute; reflexivity. Qed.

Print Assumptions splice_partial.
Print Assumptions unplannable_empty.
Print Assumptions template_kept.
Print Assumptions whitespace_witness.
Print Assumptions full_refuted.
Print Assumptions greedy_merge_witness.
Print Assumptions dot_example.
