(** The hand-written matchers of Model/Tokenizer.v (is_an_env) and Model/Redirect.v
    (all_nd, has_char gt, match_gt, split_env) ARE the regexes of the source:
    each equals [rx_search] of the AST regenerated from parser_line.rs / types.rs on
    every run (Gen/ParserLineRegexes.v), for every text. Round 9 (regexgen). *)
From Coq Require Import List NArith Bool Lia.
From Cicada Require Import Base.Chars Base.Tag Base.Regex Gen.UnicodeNd Gen.ParserLineRegexes
  Model.Tokenizer Model.Redirect Proofs.RegexCalc.
Import ListNotations.
Local Open Scope N_scope.

Ltac cls_solve :=
  unfold in_cs, is_alnum_us, is_alpha, is_digit; cbn [existsb fst snd];
  repeat match goal with |- context [?a <=? ?b] => destruct (N.leb_spec a b) end;
  repeat match goal with |- context [?a =? ?b] => destruct (N.eqb_spec a b) end;
  cbn; try reflexivity; lia.

Lemma cls_alnum_us c : in_cs false [(97, 122); (65, 90); (48, 57); (95, 95)] c = is_alnum_us c.
Proof. cls_solve. Qed.

Lemma alnum_us_not_eq c : is_alnum_us c = true -> (c =? 61) = false.
Proof.
  unfold is_alnum_us, is_alpha, is_digit.
  repeat match goal with |- context [?a <=? ?b] => destruct (N.leb_spec a b) end;
  repeat match goal with |- context [?a =? ?b] => destruct (N.eqb_spec a b) end;
  cbn; try reflexivity; try discriminate; lia.
Qed.

Lemma no_nl_forallb s : forallb (in_cs true [(10, 10)]) s = no_nl s.
Proof.
  induction s as [|c t IH]; [reflexivity|]. cbn [forallb no_nl]. rewrite IH, in_cs_not_one. reflexivity.
Qed.

(** ** parse_line: is_an_env *)
Lemma is_an_env_seen s :
  matchb (Cat (Star (Chr false [(97, 122); (65, 90); (48, 57); (95, 95)]))
              (Cat (Chr false [(61, 61)]) (Star (Chr true [(10, 10)])))) s = is_an_env_aux true s.
Proof.
  induction s as [|c t IH]; [reflexivity|].
  rewrite rc_Cat_Star_Chr, rc_Cat_Chr, rc_Star_Chr, IH, cls_alnum_us, in_cs_one, no_nl_forallb.
  cbn [is_an_env_aux]. change c_eq with 61.
  destruct (is_alnum_us c) eqn:A.
  - rewrite (alnum_us_not_eq c A). reflexivity.
  - destruct (c =? 61); cbn [andb orb]; [rewrite orb_false_r|]; reflexivity.
Qed.

Theorem is_an_env_is_source_regex s : is_an_env s = rx_search rx_is_an_env s.
Proof.
  unfold rx_is_an_env. rewrite rc_anchored, rc_Cat_assoc, rc_Cat_Chr.
  unfold is_an_env. destruct s as [|c t]; [reflexivity|].
  rewrite is_an_env_seen, cls_alnum_us. cbn [is_an_env_aux]. change c_eq with 61.
  destruct (is_alnum_us c) eqn:A; [reflexivity|].
  destruct (c =? 61); reflexivity.
Qed.

(** ** types::drain_env_tokens: yes/no of split_env (the captured name / value are
    what the model returns; only the decision is tied to the AST) *)
Definition split_env_ok (s : str) : bool := match split_env s with Some _ => true | None => false end.

Lemma split_env_seen name s :
  matchb (Cat (Star (Chr false [(97, 122); (65, 90); (48, 57); (95, 95)]))
              (Cat (Chr false [(61, 61)]) (Star (Chr true [])))) s =
  match split_env_aux true name s with Some _ => true | None => false end.
Proof.
  revert name. induction s as [|c t IH]; intros name; [reflexivity|].
  rewrite rc_Cat_Star_Chr, rc_Cat_Chr, rc_Star_Chr, (IH (name ++ [c])), cls_alnum_us, in_cs_one, forallb_any.
  cbn [split_env_aux]. change c_eq with 61.
  destruct (is_alnum_us c) eqn:A.
  - rewrite (alnum_us_not_eq c A). reflexivity.
  - destruct (c =? 61); reflexivity.
Qed.

Theorem split_env_is_source_regex s : split_env_ok s = rx_search rx_drain_env s.
Proof.
  unfold rx_drain_env. rewrite rc_anchored, rc_Cat_assoc, rc_Cat_Chr.
  unfold split_env_ok, split_env. destruct s as [|c t]; [reflexivity|].
  rewrite (split_env_seen ([] ++ [c])), cls_alnum_us. cbn [split_env_aux]. change c_eq with 61.
  destruct (is_alnum_us c) eqn:A; [reflexivity|].
  destruct (c =? 61); reflexivity.
Qed.

(** ** tokens_to_redirections: the two number tests (Unicode Nd) and the gt test *)
Lemma plus_cls n rs s :
  matchb (Cat (Chr n rs) (Star (Chr n rs))) s = negb (is_empty s) && forallb (in_cs n rs) s.
Proof.
  rewrite rc_Cat_Chr. destruct s as [|c t]; [reflexivity|]. rewrite rc_Star_Chr. reflexivity.
Qed.

Lemma forallb_nd s : forallb (in_cs false nd_ranges) s = forallb is_nd s.
Proof. induction s as [|c t IH]; [reflexivity|]. cbn [forallb]. rewrite IH, in_cs_nd. reflexivity. Qed.

Theorem all_nd_is_source_regex s : all_nd s = rx_search rx_redir_fd s.
Proof. unfold rx_redir_fd. rewrite rc_anchored, plus_cls, forallb_nd. reflexivity. Qed.
Theorem all_nd_is_source_regex2 s : all_nd s = rx_search rx_redir_fd2 s.
Proof. unfold rx_redir_fd2. rewrite rc_anchored, plus_cls, forallb_nd. reflexivity. Qed.

Theorem has_gt_is_source_regex s : has_char c_gt s = rx_search rx_redir_gt s.
Proof.
  unfold rx_redir_gt. rewrite rc_search_Chr. change c_gt with 62.
  induction s as [|c t IH]; [reflexivity|]. cbn [has_char existsb]. rewrite IH, in_cs_one. reflexivity.
Qed.
