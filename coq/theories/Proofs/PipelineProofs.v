(* Proofs about Model/Pipeline.v: the shell's descriptor table after run_pipeline. *)
From Coq Require Import List Arith Bool Lia Permutation.
From Cicada Require Import Model.OsLite Model.Pipeline Proofs.OsLiteProofs.
Import ListNotations.

Arguments p_pipe : simpl never.
Arguments p_close : simpl never.
Arguments p_dup2 : simpl never.
Arguments p_dup : simpl never.
Arguments p_open : simpl never.
Arguments p_ev : simpl never.
Arguments p_exec : simpl never.
Arguments p_pipefail : simpl never.
Arguments child_run : simpl never.
Arguments close_pairs : simpl never.
Arguments close_pair : simpl never.

Definition eR (id : pipeid) : entry := (OPipeR id, false).
Definition eW (id : pipeid) : entry := (OPipeW id, false).

Fixpoint plive (k : nat) (pipes : list (nat * nat)) : list (nat * entry) :=
  match pipes with
  | [] => []
  | fds :: rest => (fst fds, eR (PStage k)) :: (snd fds, eW (PStage k)) :: plive (S k) rest
  end.

Lemma tab_p_close : forall fd p, tab (p_close fd p) = close (tab p) fd.
Proof. reflexivity. Qed.
Lemma tab_p_ev : forall e p, tab (p_ev e p) = tab p.
Proof. reflexivity. Qed.

Lemma p_pipe_rep : forall B L p id q r w,
  Rep B L (tab p) -> p_pipe id p = (q, (r, w)) ->
  Rep B ((r, eR id) :: (w, eW id) :: L) (tab q).
Proof.
  intros B L p id q r w R H. unfold p_pipe, alloc in H. injection H as <- <- <-. cbn [tab].
  eapply rep_perm; [apply perm_swap|].
  apply (rep_alloc B ((lowest_free (tab p), eR id) :: L) (fst (alloc (tab p) (eR id))) (eW id)).
  apply rep_alloc. exact R.
Qed.

Lemma close_pair_rep : forall B fds e1 e2 L p,
  Rep B ((fst fds, e1) :: (snd fds, e2) :: L) (tab p) -> Rep B L (tab (close_pair fds p)).
Proof.
  intros B fds e1 e2 L p R. unfold close_pair. rewrite !tab_p_close.
  eapply rep_close_head. eapply rep_close_head. exact R.
Qed.

Lemma close_pairs_rep : forall B ps k L p,
  Rep B (plive k ps ++ L) (tab p) -> Rep B L (tab (close_pairs ps p)).
Proof.
  induction ps as [|fds rest IH]; intros k L p R; [exact R|].
  unfold close_pairs. cbn [fold_left]. apply (IH (S k)). eapply close_pair_rep. exact R.
Qed.

Section WithOracles.
Variable v : variant.
Variable fail_at : nat -> bool.
Variable openable : nat -> bool.

Lemma mk_pipes_rep : forall m k p B L p' pipes e,
  Rep B L (tab p) -> mk_pipes fail_at m k p = (p', pipes, e) ->
  Rep B (plive k pipes ++ L) (tab p') /\ (e = false -> length pipes = m).
Proof.
  induction m as [|m IH]; intros k p B L p' pipes e R H; cbn in H.
  - injection H as <- <- <-. split; auto.
  - destruct (fail_at k).
    + injection H as <- <- <-. split; [exact R | discriminate].
    + destruct (p_pipe (PStage k) p) as [p1 [r w]] eqn:EP.
      destruct (mk_pipes fail_at m (S k) p1) as [[p2 rest] e2] eqn:EM.
      cbv beta iota zeta in H. injection H as <- <- <-.
      pose proof (p_pipe_rep _ _ _ _ _ _ _ R EP) as R1.
      destruct (IH _ _ _ _ _ _ _ R1 EM) as (R2 & HL).
      split.
      * cbn [plive fst snd app]. eapply rep_perm; [|exact R2].
        apply Permutation_sym. eapply perm_trans; [apply perm_skip; apply Permutation_middle|].
        apply Permutation_middle.
      * intro E. cbn. f_equal. auto.
Qed.

(* the live entries of the shell when it is about to run stage idx *)
Definition prevlive (pipes : list (nat * nat)) (idx : nat) : list (nat * entry) :=
  match idx with 0 => [] | S j => [(fst (nth j pipes (0, 0)), eR (PStage j))] end.

Definition caplive (capo cape : option (nat * nat)) : list (nat * entry) :=
  match capo, cape with
  | Some o, Some e => [(fst o, eR PCapOut); (snd o, eW PCapOut); (fst e, eR PCapErr); (snd e, eW PCapErr)]
  | _, _ => []
  end.

Definition Lpar (pipes : list (nat * nat)) (capo cape : option (nat * nat)) (idx : nat) : list (nat * entry) :=
  if idx <=? length pipes then prevlive pipes idx ++ plive idx (skipn idx pipes) ++ caplive capo cape else [].

Definition cap_ok (capture : bool) (capo cape : option (nat * nat)) : Prop :=
  if capture then capo <> None /\ cape <> None else capo = None /\ cape = None.

Lemma skipn_nth_cons : forall (A : Type) (l : list A) n d, n < length l -> skipn n l = nth n l d :: skipn (S n) l.
Proof.
  induction l as [|x r IH]; intros n d H; cbn in H; [lia|].
  destruct n; cbn; auto. apply IH. lia.
Qed.

Lemma run_stage_shell : forall pipes capo cape capture idx st sh sh1 k T0,
  cap_ok capture capo cape -> idx <= length pipes ->
  Rep T0 (Lpar pipes capo cape idx) (tab sh) ->
  run_stage v openable pipes capo cape capture idx st sh = (sh1, k) ->
  Rep T0 (Lpar pipes capo cape (S idx)) (tab sh1).
Proof.
  intros pipes capo cape capture idx st sh sh1 k T0 CO LE R H.
  unfold run_stage in H.
  (* the here-string pipe is created and both ends are closed again by the parent *)
  assert (exists sha, Rep T0 (Lpar pipes capo cape idx) (tab sha) /\
          sh1 = (let sh := sha in
                 let sh := if idx <? length pipes then p_close (snd (nth idx pipes (0, 0))) sh else sh in
                 let sh := if 0 <? idx then p_close (fst (nth (idx - 1) pipes (0, 0))) sh else sh in
                 if (idx =? length pipes) && capture then
                   let sh := match capo with
                             | Some fds => p_close (fst fds) (p_ev (ERead (fst fds)) (p_close (snd fds) sh))
                             | None => sh end in
                   match cape with
                   | Some fds => p_close (fst fds) (p_ev (ERead (fst fds)) (p_close (snd fds) sh))
                   | None => sh end
                 else sh)) as (sha & Ra & ->).
  { destruct (s_from st).
    - injection H as <- _. exists (p_ev (EFork idx) sh). split; [exact R | reflexivity].
    - injection H as <- _. exists (p_ev (EFork idx) sh). split; [exact R | reflexivity].
    - destruct (p_pipe (PHere idx) sh) as [q [hr hw]] eqn:EP. injection H as <- _.
      exists (p_close hw (p_ev (EWrite hw) (p_close hr (p_ev (EFork idx) q)))).
      split; [|reflexivity].
      rewrite tab_p_close, tab_p_ev, tab_p_close, tab_p_ev.
      eapply rep_close_head. eapply rep_close_head. eapply p_pipe_rep; eauto. }
  clear H R. cbv zeta.
  unfold Lpar in *. 
  assert (LE' : (idx <=? length pipes) = true) by (apply Nat.leb_le; lia). rewrite LE' in Ra.
  destruct (Nat.ltb_spec idx (length pipes)) as [LT|GE].
  - (* not the last stage *)
    assert (E1 : (S idx <=? length pipes) = true) by (apply Nat.leb_le; lia). rewrite E1.
    assert (E2 : (idx =? length pipes) = false) by (apply Nat.eqb_neq; lia). rewrite E2. cbn [andb].
    rewrite (skipn_nth_cons _ pipes idx (0, 0) LT) in Ra. cbn [plive] in Ra.
    cbn [prevlive]. 
    set (fds := nth idx pipes (0, 0)) in *.
    assert (Rw : Rep T0 (prevlive pipes idx ++ (fst fds, eR (PStage idx)) :: plive (S idx) (skipn (S idx) pipes) ++ caplive capo cape)
                     (tab (p_close (snd fds) sha))).
    { rewrite tab_p_close.
      replace (prevlive pipes idx ++ (fst fds, eR (PStage idx)) :: plive (S idx) (skipn (S idx) pipes) ++ caplive capo cape)
        with ((prevlive pipes idx ++ [(fst fds, eR (PStage idx))]) ++ (plive (S idx) (skipn (S idx) pipes) ++ caplive capo cape))
        by (rewrite <- app_assoc; reflexivity).
      apply (rep_close_in T0 (prevlive pipes idx ++ [(fst fds, eR (PStage idx))]) (snd fds) (eW (PStage idx))
                          (plive (S idx) (skipn (S idx) pipes) ++ caplive capo cape)).
      rewrite <- app_assoc. exact Ra. }
    destruct idx as [|j].
    + cbn [Nat.ltb Nat.leb]. exact Rw.
    + replace (0 <? S j) with true by reflexivity. rewrite tab_p_close.
      replace (S j - 1) with j by lia. cbn [prevlive app] in Rw.
      eapply rep_close_head. exact Rw.
  - (* the last stage *)
    assert (idx = length pipes) by lia. subst idx.
    assert (E1 : (S (length pipes) <=? length pipes) = false) by (apply Nat.leb_gt; lia). rewrite E1.
    rewrite Nat.eqb_refl. cbn [andb].
    rewrite skipn_all in Ra. cbn [plive app] in Ra.
    assert (Rp : Rep T0 (caplive capo cape)
                     (tab (if 0 <? length pipes then p_close (fst (nth (length pipes - 1) pipes (0, 0))) sha else sha))).
    { destruct (length pipes) as [|j] eqn:EL.
      - cbn. exact Ra.
      - replace (0 <? S j) with true by reflexivity. rewrite tab_p_close.
        replace (S j - 1) with j by lia. cbn [prevlive app] in Ra. eapply rep_close_head. exact Ra. }
    set (shb := if 0 <? length pipes then _ else sha) in *.
    unfold cap_ok in CO. destruct capture.
    + destruct CO as (C1 & C2). destruct capo as [o|]; [|congruence]. destruct cape as [e|]; [|congruence].
      cbn [caplive] in Rp. rewrite !tab_p_close, !tab_p_ev, !tab_p_close, !tab_p_ev, !tab_p_close.
      eapply rep_close_head.
      apply (rep_close_in T0 [(fst e, eR PCapErr)] (snd e) (eW PCapErr) []).
      eapply rep_close_head.
      apply (rep_close_in T0 [(fst o, eR PCapOut)] (snd o) (eW PCapOut) _).
      exact Rp.
    + destruct CO as (-> & ->). cbn [caplive] in Rp. exact Rp.
Qed.

Lemma run_stages_shell : forall pipes capo cape capture T0 sts idx sh sh1 ks,
  cap_ok capture capo cape -> idx + length sts = S (length pipes) ->
  Rep T0 (Lpar pipes capo cape idx) (tab sh) ->
  run_stages v openable pipes capo cape capture idx sts sh = (sh1, ks) ->
  Rep T0 [] (tab sh1) /\ length ks = length sts.
Proof.
  intros pipes capo cape capture T0. induction sts as [|st rest IH]; intros idx sh sh1 ks CO HL R H; cbn in H.
  - injection H as <- <-. cbn in HL. unfold Lpar in R.
    assert (E : (idx <=? length pipes) = false) by (apply Nat.leb_gt; lia). rewrite E in R. auto.
  - destruct (run_stage v openable pipes capo cape capture idx st sh) as [sh2 k] eqn:ES.
    destruct (run_stages v openable pipes capo cape capture (S idx) rest sh2) as [sh3 ks3] eqn:ER.
    injection H as <- <-. cbn in HL.
    assert (LE : idx <= length pipes) by lia.
    pose proof (run_stage_shell _ _ _ _ _ _ _ _ _ _ CO LE R ES) as R2.
    assert (HL2 : S idx + length rest = S (length pipes)) by lia.
    destruct (IH (S idx) sh2 sh3 ks3 CO HL2 R2 ER) as (R3 & L3).
    split; [exact R3 | cbn; f_equal; exact L3].
Qed.

(* ---- the whole of run_pipeline, shell side ---- *)
Definition teq_tab (p : proc) (T0 : table) : Prop := forall x, lookup (tab p) x = lookup T0 x.

(* plans whose shell table is restored: everything except a captured single builtin (whose capture
   pipes are never closed), a single builtin with redirections (see the builtin theorems), and a
   capture-pipe failure when there are stage pipes (they are not released) *)
Definition capture_fails (pl : plan) : bool :=
  p_capture pl && (fail_at (length (p_stages pl) - 1) || fail_at (length (p_stages pl))).

Lemma rep_nil_teq : forall p T0, Rep (lookup T0) [] (tab p) -> teq_tab p T0.
Proof. intros p T0 R x. apply (proj1 (rep_nil _ _) R). Qed.

Theorem shell_restored : forall pl sh,
  runs_in_shell pl = false ->
  (capture_fails pl = true -> length (p_stages pl) = 1 \/ v_capfail v = true) ->
  let r := run_pipeline v fail_at openable pl sh in
  teq_tab (res_shell r) (tab sh) /\
  (res_error r = false -> length (res_kids r) = length (p_stages pl)).
Proof.
  intros pl sh NB CF. unfold run_pipeline. rewrite NB.
  destruct (p_stages pl) as [|st0 more] eqn:ES.
  - cbn. split; [intro x; reflexivity | discriminate].
  - cbn zeta.
    destruct (mk_pipes fail_at (length more) 0 sh) as [[sh1 pipes] errored] eqn:EM.
    destruct (mk_pipes_rep _ _ _ _ [] _ _ _ (rep_init (tab sh)) EM) as (R1 & HL).
    destruct errored.
    + cbn [res_shell res_error]. split; [|discriminate].
      apply rep_nil_teq. apply (close_pairs_rep _ pipes 0 []). exact R1.
    + specialize (HL eq_refl).
      unfold mk_capture. unfold capture_fails in CF. rewrite ES in CF. cbn [length] in CF.
      replace (S (length more) - 1) with (length more) in CF by lia.
      destruct (p_capture pl) eqn:EC.
      * destruct (fail_at (length more)) eqn:F1.
        { cbn [res_shell res_error]. split; [|discriminate].
          assert (length (st0 :: more) = 1 \/ v_capfail v = true) as CF1.
          { apply CF. rewrite ?F1. reflexivity. } clear CF. cbn [length] in CF1.
          apply rep_nil_teq. unfold cap_release. destruct (v_capfail v) eqn:VC.
          - apply (close_pairs_rep _ pipes 0 []). exact R1.
          - destruct CF1 as [CF1|CF1]; [|discriminate]. assert (length more = 0) by lia.
            destruct pipes; [|cbn in HL; lia]. cbn in R1. exact R1. }
        destruct (p_pipe PCapOut sh1) as [sh2 o] eqn:EO. destruct o as [cor cow].
        destruct (fail_at (S (length more))) eqn:F2.
        { cbn [res_shell res_error]. split; [|discriminate].
          assert (length (st0 :: more) = 1 \/ v_capfail v = true) as CF1.
          { apply CF. rewrite ?F1, ?F2. reflexivity. } clear CF. cbn [length] in CF1.
          apply rep_nil_teq.
          pose proof (p_pipe_rep _ _ _ _ _ _ _ R1 EO) as R2.
          assert (R3 : Rep (lookup (tab sh)) (plive 0 pipes ++ []) (tab (close_pair (cor, cow) (p_pipefail sh2)))).
          { apply (close_pair_rep _ (cor, cow) (eR PCapOut) (eW PCapOut) _ (p_pipefail sh2)). exact R2. }
          unfold cap_release. destruct (v_capfail v) eqn:VC.
          - apply (close_pairs_rep _ pipes 0 []). exact R3.
          - destruct CF1 as [CF1|CF1]; [|discriminate]. assert (length more = 0) by lia.
            destruct pipes; [|cbn in HL; lia]. cbn in R3. exact R3. }
        destruct (p_pipe PCapErr sh2) as [sh3 e] eqn:EE. destruct e as [cer cew].
        destruct (run_stages v openable pipes (Some (cor, cow)) (Some (cer, cew)) true 0 (st0 :: more) sh3) as [sh4 ks] eqn:ER.
        cbn [res_shell res_error res_kids].
        pose proof (p_pipe_rep _ _ _ _ _ _ _ R1 EO) as R2.
        pose proof (p_pipe_rep _ _ _ _ _ _ _ R2 EE) as R3.
        assert (R4 : Rep (lookup (tab sh)) (Lpar pipes (Some (cor, cow)) (Some (cer, cew)) 0) (tab sh3)).
        { unfold Lpar. cbn [Nat.leb prevlive skipn app caplive fst snd].
          rewrite app_nil_r in R3.
          assert (P : Permutation ([(cer, eR PCapErr); (cew, eW PCapErr); (cor, eR PCapOut); (cow, eW PCapOut)] ++ plive 0 pipes)
                                  (plive 0 pipes ++ [(cor, eR PCapOut); (cow, eW PCapOut); (cer, eR PCapErr); (cew, eW PCapErr)])).
          { eapply perm_trans; [apply Permutation_app_comm|]. apply Permutation_app_head.
            apply (Permutation_app_comm [(cer, eR PCapErr); (cew, eW PCapErr)] [(cor, eR PCapOut); (cow, eW PCapOut)]). }
          apply (rep_perm _ _ _ _ P). exact R3. }
        assert (CO : cap_ok true (Some (cor, cow)) (Some (cer, cew))) by (cbn; split; congruence).
        assert (HLen : 0 + length (st0 :: more) = S (length pipes)) by (cbn; lia).
        destruct (run_stages_shell _ _ _ _ _ _ _ _ _ _ CO HLen R4 ER) as (R5 & L5).
        split; [apply rep_nil_teq; exact R5 | intros _; exact L5].
      * destruct (run_stages v openable pipes None None false 0 (st0 :: more) sh1) as [sh4 ks] eqn:ER.
        cbn [res_shell res_error res_kids].
        assert (R4 : Rep (lookup (tab sh)) (Lpar pipes None None 0) (tab sh1)).
        { unfold Lpar. cbn [Nat.leb prevlive skipn app caplive]. exact R1. }
        assert (CO : cap_ok false None None) by (cbn; auto).
        assert (HLen : 0 + length (st0 :: more) = S (length pipes)) by (cbn; lia).
        destruct (run_stages_shell _ _ _ _ _ _ _ _ _ _ CO HLen R4 ER) as (R5 & L5).
        split; [apply rep_nil_teq; exact R5 | intros _; exact L5].
Qed.

(* the up-front loop: whichever pipe() fails, everything created is released and the result is an error *)
Theorem emfile_upfront : forall pl sh k,
  k < length (p_stages pl) - 1 -> fail_at k = true ->
  let r := run_pipeline v fail_at openable pl sh in
  res_error r = true /\ res_kids r = [] /\ teq_tab (res_shell r) (tab sh).
Proof.
  intros pl sh k HK HF. unfold run_pipeline.
  destruct (p_stages pl) as [|st0 more] eqn:ES; [cbn in HK; lia|]. cbn [length] in HK. cbn zeta.
  destruct (mk_pipes fail_at (length more) 0 sh) as [[sh1 pipes] errored] eqn:EM.
  destruct (mk_pipes_rep _ _ _ _ [] _ _ _ (rep_init (tab sh)) EM) as (R1 & HL).
  assert (errored = true).
  { clear R1 HL. assert (G : forall m j p p' ps e, mk_pipes fail_at m j p = (p', ps, e) -> j <= k < j + m -> e = true).
    { induction m as [|m IH]; intros j p p' ps e H HR; [lia|]. cbn in H.
      destruct (fail_at j) eqn:FJ.
      - injection H as _ _ <-. reflexivity.
      - destruct (p_pipe (PStage j) p) as [p1 fds]. destruct (mk_pipes fail_at m (S j) p1) as [[p2 rest] e2] eqn:EM2.
        injection H as _ _ <-. apply (IH _ _ _ _ _ EM2).
        assert (j <> k) by (intro; subst; congruence). lia. }
    apply (G _ _ _ _ _ _ EM). lia. }
  subst errored. cbn [res_shell res_error res_kids]. repeat split.
  apply rep_nil_teq. apply (close_pairs_rep _ pipes 0 []). exact R1.
Qed.

(* a capture pipe() that fails (the first or the second one): error, nothing is forked *)
Theorem capture_fail_error : forall pl sh,
  capture_fails pl = true ->
  let r := run_pipeline v fail_at openable pl sh in
  res_error r = true /\ res_kids r = [].
Proof.
  intros pl sh CF. unfold capture_fails in CF. apply andb_true_iff in CF. destruct CF as (EC & FF).
  unfold run_pipeline.
  destruct (p_stages pl) as [|st0 more] eqn:ES; [cbn; auto|]. cbn [length] in FF.
  replace (S (length more) - 1) with (length more) in FF by lia. cbn zeta.
  destruct (mk_pipes fail_at (length more) 0 sh) as [[sh1 pipes] errored].
  destruct errored; [cbn; auto|].
  unfold mk_capture. rewrite EC.
  destruct (fail_at (length more)) eqn:F1; [cbn; auto|].
  destruct (p_pipe PCapOut sh1) as [sh2 o].
  cbn [orb] in FF. rewrite FF. cbn. auto.
Qed.

End WithOracles.
