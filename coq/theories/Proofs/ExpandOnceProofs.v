(** The one-pass parameter expansion (Model/Expand.v: expand_env_once, behind the gate
    env_in_token) computes exactly the reference semantics [den_pieces], for EVERY world: the
    inserted values are never looked at again, so no condition on them is needed.  The only
    condition left is the gate's: the literals of the word keep clear of the exemption shapes. *)
From Coq Require Import List NArith ZArith Bool Lia.
From Cicada Require Import Base.Chars Base.Tag Base.Regex Gen.ShellRegexes Model.Expand Model.ExpandRef Proofs.ExpandBasics Proofs.EnvProofs.
Import ListNotations.
Local Open Scope N_scope.


(* ================================================================== characters *)
Lemma name_start_not c :
  is_name_start c = true -> (c =? 63) = false /\ (c =? 36) = false /\ (c =? 123) = false.
Proof.
  intros H. repeat split.
  - destruct (c =? 63) eqn:E; [apply N.eqb_eq in E; subst; vm_compute in H; discriminate|reflexivity].
  - destruct (c =? 36) eqn:E; [apply N.eqb_eq in E; subst; vm_compute in H; discriminate|reflexivity].
  - destruct (c =? 123) eqn:E; [apply N.eqb_eq in E; subst; vm_compute in H; discriminate|reflexivity].
Qed.

(* ================================================================== the skip counter *)
Lemma once_go_skip W (a : str) : forall (n : nat) (r : str),
  n = length a -> once_go W n (a ++ r) = once_go W 0 r.
Proof.
  induction a as [|c a IH]; intros n r Hn; cbn [length] in Hn; subst n.
  - reflexivity.
  - cbn [app length once_go]. apply IH. reflexivity.
Qed.

Lemma once_go_lit W (c : char) (r : str) :
  (c =? 36) = false -> once_go W 0 (c :: r) = c :: once_go W 0 r.
Proof. intros H. cbn [once_go]. rewrite H. reflexivity. Qed.

Lemma once_go_dollar W (r : str) :
  once_go W 0 (36 :: r) =
  match env_ref_at r with
  | Some (key, n) => key_value W key ++ once_go W n r
  | None => 36 :: once_go W 0 r
  end.
Proof. reflexivity. Qed.

(* ================================================================== env_ref_at on renderings *)
Lemma env_ref_at_ub (k rest : str) :
  wf_key k = true -> (is_name k = true -> nhd rest = true) ->
  env_ref_at (k ++ rest) = Some (k, length k).
Proof.
  intros Hk Hn. destruct (wf_key_cases k Hk) as [H|[-> | ->]].
  - pose proof (name_all_alnum k H) as Ha. specialize (Hn H).
    destruct k as [|c r]; [cbn in H; discriminate|].
    pose proof H as H'. cbn [is_name] in H'. apply andb_true_iff in H' as [Hc _].
    destruct (name_start_not c Hc) as (E63 & E36 & _).
    cbn [app]. unfold env_ref_at. rewrite E63, E36, Hc. cbn [orb].
    change (c :: r ++ rest) with ((c :: r) ++ rest).
    rewrite (span_name _ _ Ha Hn). reflexivity.
  - reflexivity.
  - reflexivity.
Qed.

Lemma env_ref_at_br (k rest : str) :
  wf_key k = true ->
  env_ref_at (123 :: k ++ 125 :: rest) = Some (k, (length k + 2)%nat).
Proof.
  intros Hk. destruct (wf_key_cases k Hk) as [H|[-> | ->]].
  - pose proof (name_all_alnum k H) as Ha.
    destruct k as [|c r]; [cbn in H; discriminate|].
    pose proof H as H'. cbn [is_name] in H'. apply andb_true_iff in H' as [Hc _].
    destruct (name_start_not c Hc) as (E63 & E36 & _).
    cbn [app]. unfold env_ref_at.
    change (123 =? 63) with false. change (123 =? 36) with false.
    change (is_name_start 123) with false. change (123 =? 123) with true. cbn [orb].
    rewrite E63, E36, Hc. cbn [orb andb].
    change (c :: r ++ 125 :: rest) with ((c :: r) ++ 125 :: rest).
    rewrite (span_name (c :: r) (125 :: rest) Ha eq_refl). reflexivity.
  - reflexivity.
  - reflexivity.
Qed.

(* ================================================================== 1: the one-pass function is the reference *)
Lemma den_lit W c r : den_pieces W (PLit c :: r) = c :: den_pieces W r.
Proof. reflexivity. Qed.
Lemma den_ref W b k r : den_pieces W (PRef b k :: r) = key_value W k ++ den_pieces W r.
Proof. reflexivity. Qed.

Lemma once_go_is_den W : forall ps,
  wf_pieces ps = true -> once_go W 0 (render_pieces ps) = den_pieces W ps.
Proof.
  induction ps as [|p r IH]; intros Hwf; [reflexivity|].
  pose proof (wf_tail _ _ Hwf) as Hr. specialize (IH Hr).
  destruct p as [c|[|] k].
  - rewrite render_lit, den_lit, once_go_lit by (eapply wf_lit_36; eauto).
    rewrite IH. reflexivity.
  - pose proof (wf_ref_key _ _ _ Hwf) as Hk.
    rewrite render_br, den_ref, once_go_dollar, (env_ref_at_br _ _ Hk).
    f_equal. rewrite <- IH.
    change (123 :: k ++ 125 :: render_pieces r) with ((123 :: k) ++ [125] ++ render_pieces r).
    rewrite app_assoc. apply once_go_skip.
    rewrite app_length. cbn [length].
    rewrite !Nat.add_succ_r, !Nat.add_0_r. reflexivity.
  - pose proof (wf_ref_key _ _ _ Hwf) as Hk.
    rewrite render_ub, den_ref, once_go_dollar.
    rewrite (env_ref_at_ub _ _ Hk (wf_ref_nhd _ _ Hwf)).
    f_equal. rewrite <- IH. apply once_go_skip. reflexivity.
Qed.

Theorem once_is_den : forall W ps,
  wf_pieces ps = true -> expand_env_once W (render_pieces ps) = den_pieces W ps.
Proof. intros W ps H. unfold expand_env_once. apply once_go_is_den. exact H. Qed.


(* ================================================================== 2: token level, behind the gate *)
(** the gate is open on every word that holds a reference *)
Theorem gate_true : forall noeq ps,
  wf_pieces ps = true -> lits_okg noeq ps = true -> count_refs ps <> 0%nat ->
  env_in_token (render_pieces ps) = true.
Proof.
  intros noeq ps Hwf Hl Hc.
  destruct (count_pos_split ps Hc) as (a & br & k & b & ->).
  exact (env_in_render_ref noeq _ _ _ _ Hwf Hl).
Qed.

Lemma expand_env_tok_den_noeq W noeq ps tg :
  wf_pieces ps = true -> lits_okg noeq ps = true -> tg <> TSq -> tg <> TBq ->
  expand_env_tok W (tg, render_pieces ps) = (tg, den_pieces W ps).
Proof.
  intros Hwf Hl Hsq Hbq.
  assert (E : forall q, (if env_in_tagged_token (render_pieces ps) q
               then (tg, expand_env_once W (render_pieces ps))
               else (tg, render_pieces ps)) = (tg, den_pieces W ps)).
  { intros q. destruct (Nat.eq_dec (count_refs ps) 0) as [Hc|Hc].
    - destruct (render_no_refs W ps Hwf Hc) as [_ Hden].
      destruct (env_in_tagged_token (render_pieces ps) q).
      + rewrite (once_is_den W ps Hwf). reflexivity.
      + rewrite Hden. reflexivity.
    - pose proof (gate_true noeq ps Hwf Hl Hc) as Hg.
      assert (Hq : env_in_tagged_token (render_pieces ps) q = true).
      { destruct q; [apply tagged_gate_mono; exact Hg | exact Hg]. }
      rewrite Hq, (once_is_den W _ Hwf). reflexivity. }
  unfold expand_env_tok. cbn [fst snd].
  destruct tg; try contradiction; apply E.
Qed.

Theorem expand_env_tok_den : forall W ps tg,
  wf_pieces ps = true -> gate_ok ps = true -> tg <> TSq -> tg <> TBq ->
  expand_env_tok W (tg, render_pieces ps) = (tg, den_pieces W ps).
Proof.
  intros W ps tg Hwf Hg Hsq Hbq. unfold gate_ok in Hg.
  apply orb_true_iff in Hg as [Hg|Hg]; eapply expand_env_tok_den_noeq; eauto.
Qed.

(* ================================================================== 2b: double-quoted words (since 8dc686a) *)
(** inside double quotes the alias-definition exemption is skipped: the expansion is the reference denotation on a
    larger domain than [gate_ok] (a single quote among the literals is harmless: [gate_ok_dq]); the
    command-substitution exemptions still apply there. *)
Lemma sub_exempt_off t :
  ~ In 40 t -> (~ In 61 t \/ ~ In 96 t) ->
  rx_search rx_env_sub1 t || rx_search rx_env_sub2 t || rx_search rx_env_sub3 t = false.
Proof.
  intros H40 H.
  assert (S1 : rx_search rx_env_sub1 t = false).
  { destruct (rx_search rx_env_sub1 t) eqn:E; [exfalso|reflexivity].
    pose proof (rx_search_requires 61 rx_env_sub1 t eq_refl E).
    pose proof (rx_search_requires 96 rx_env_sub1 t eq_refl E). tauto. }
  assert (S2 : rx_search rx_env_sub2 t = false).
  { destruct (rx_search rx_env_sub2 t) eqn:E; [exfalso|reflexivity].
    pose proof (rx_search_requires 40 rx_env_sub2 t eq_refl E). tauto. }
  assert (S3 : rx_search rx_env_sub3 t = false).
  { destruct (rx_search rx_env_sub3 t) eqn:E; [exfalso|reflexivity].
    pose proof (rx_search_requires 40 rx_env_sub3 t eq_refl E). tauto. }
  rewrite S1, S2, S3. reflexivity.
Qed.

Lemma tagged_gate_true_q t :
  rx_search rx_env_special t = true \/ rx_search rx_env_name t = true ->
  ~ In 40 t -> (~ In 61 t \/ ~ In 96 t) ->
  env_in_tagged_token t true = true.
Proof.
  intros H H40 Hx. pose proof (sub_exempt_off t H40 Hx) as E1.
  unfold env_in_tagged_token. rewrite E1.
  destruct (rx_search rx_env_special t); [reflexivity|].
  destruct H as [H|H]; [discriminate|]. rewrite H. reflexivity.
Qed.

(** the old domain is inside the new one *)
Lemma okg_okq noeq c : okg noeq c = true -> okq noeq c = true.
Proof.
  unfold okg, okq. destruct noeq; [auto|].
  destruct (negb (c =? 40)), (negb (c =? 96)); cbn; auto.
Qed.

Lemma lits_okg_okq noeq ps : lits_okg noeq ps = true -> lits_okq noeq ps = true.
Proof.
  unfold lits_okg, lits_okq. rewrite !forallb_forall. intros H p Hp. specialize (H p Hp).
  destruct p; [apply okg_okq; exact H | reflexivity].
Qed.

Lemma gate_ok_dq_of_gate_ok ps : gate_ok ps = true -> gate_ok_dq ps = true.
Proof.
  unfold gate_ok, gate_ok_dq. rewrite !orb_true_iff.
  intros [H|H]; [left|right]; apply lits_okg_okq; exact H.
Qed.

Lemma notin_render_q noeq (c : char) ps :
  wf_pieces ps = true -> lits_okq noeq ps = true ->
  okq noeq c = false -> is_alnum_us c = false ->
  c <> 36 -> c <> 63 -> c <> 123 -> c <> 125 ->
  ~ In c (render_pieces ps).
Proof.
  intros Hwf Hl Hok Ha H1 H2 H3 H4 Hin.
  destruct (in_render c ps Hwf Hin) as [H|[H|[H|[H|[H|H]]]]]; try congruence.
  unfold lits_okq in Hl. rewrite forallb_forall in Hl. apply Hl in H. congruence.
Qed.

Lemma render_clean_q noeq ps :
  wf_pieces ps = true -> lits_okq noeq ps = true ->
  ~ In 40 (render_pieces ps) /\
  (~ In 61 (render_pieces ps) \/ ~ In 96 (render_pieces ps)).
Proof.
  intros Hwf Hl. split.
  - apply (notin_render_q noeq); auto; try discriminate; destruct noeq; reflexivity.
  - destruct noeq.
    + left. apply (notin_render_q true); auto; try discriminate; reflexivity.
    + right. apply (notin_render_q false); auto; try discriminate; reflexivity.
Qed.

(** a rendering that holds a reference matches the special or the name pattern *)
Lemma ref_search a br k b :
  wf_pieces (a ++ PRef br k :: b) = true ->
  rx_search rx_env_special (render_pieces (a ++ PRef br k :: b)) = true \/
  rx_search rx_env_name (render_pieces (a ++ PRef br k :: b)) = true.
Proof.
  intros Hwf.
  pose proof (wf_ref_key _ _ _ (wf_app_r _ _ Hwf)) as Hk.
  rewrite render_app.
  destruct (wf_key_cases k Hk) as [H|[-> | ->]].
  - right. destruct k as [|n r]; [cbn in H; discriminate|].
    cbn [is_name] in H. apply andb_true_iff in H as [H _].
    destruct br.
    + rewrite render_br. cbn [app]. apply name_search_br. exact H.
    + rewrite render_ub. cbn [app]. apply name_search_ub. exact H.
  - left. destruct br.
    + rewrite render_br. cbn [app]. apply special_search_br. auto.
    + rewrite render_ub. cbn [app]. apply special_search_ub. auto.
  - left. destruct br.
    + rewrite render_br. cbn [app]. apply special_search_br. auto.
    + rewrite render_ub. cbn [app]. apply special_search_ub. auto.
Qed.

Theorem tagged_gate_true_dq : forall noeq ps,
  wf_pieces ps = true -> lits_okq noeq ps = true -> count_refs ps <> 0%nat ->
  env_in_tagged_token (render_pieces ps) true = true.
Proof.
  intros noeq ps Hwf Hl Hc.
  destruct (render_clean_q noeq ps Hwf Hl) as [H40 Hx].
  apply tagged_gate_true_q; [|exact H40|exact Hx].
  destruct (count_pos_split ps Hc) as (a & br & k & b & ->).
  apply ref_search. exact Hwf.
Qed.

Lemma tagged_gate_no_dollar t q : ~ In 36 t -> env_in_tagged_token t q = false.
Proof.
  intros H. unfold env_in_tagged_token.
  destruct (rx_search rx_env_special t) eqn:E1.
  { exfalso. apply H. apply (rx_search_requires 36 rx_env_special t); [reflexivity | exact E1]. }
  destruct (rx_search rx_env_name t) eqn:E2.
  { exfalso. apply H. apply (rx_search_requires 36 rx_env_name t); [reflexivity | exact E2]. }
  reflexivity.
Qed.

Lemma expand_env_tok_den_dq_noeq W noeq ps :
  wf_pieces ps = true -> lits_okq noeq ps = true ->
  expand_env_tok W (TDq, render_pieces ps) = (TDq, den_pieces W ps).
Proof.
  intros Hwf Hl. unfold expand_env_tok. cbn [fst snd tag_eqb].
  destruct (Nat.eq_dec (count_refs ps) 0) as [Hc|Hc].
  - destruct (render_no_refs W ps Hwf Hc) as [Hnd Hden].
    rewrite (tagged_gate_no_dollar _ true Hnd). rewrite Hden. reflexivity.
  - rewrite (tagged_gate_true_dq noeq ps Hwf Hl Hc).
    rewrite (once_is_den W ps Hwf). reflexivity.
Qed.

Theorem expand_env_tok_den_dq : forall W ps,
  wf_pieces ps = true -> gate_ok_dq ps = true ->
  expand_env_tok W (TDq, render_pieces ps) = (TDq, den_pieces W ps).
Proof.
  intros W ps Hwf Hg. unfold gate_ok_dq in Hg.
  apply orb_true_iff in Hg as [Hg|Hg]; eapply expand_env_tok_den_dq_noeq; eauto.
Qed.

(* ================================================================== 3: a whole line *)
(** a whole line: words given as (tag, segment list) *)
Definition word_in (w : tag * list piece) : Prop :=
  fst w = TSq \/ fst w = TBq \/ (wf_pieces (snd w) = true /\ gate_ok (snd w) = true).
Definition word_text (w : tag * list piece) : token := (fst w, render_pieces (snd w)).
Definition word_den (W : World) (w : tag * list piece) : token :=
  (fst w, match fst w with TSq | TBq => render_pieces (snd w) | _ => den_pieces W (snd w) end).

Lemma expand_env_word W w : word_in w -> expand_env_tok W (word_text w) = word_den W w.
Proof.
  destruct w as [tg ps]. unfold word_in, word_text, word_den. cbn [fst snd].
  intros [H|[H|[Hwf Hg]]].
  - subst tg. reflexivity.
  - subst tg. reflexivity.
  - destruct tg; try reflexivity; apply expand_env_tok_den; auto; discriminate.
Qed.

Theorem expand_env_line : forall W ws,
  Forall word_in ws -> expand_env W (map word_text ws) = map (word_den W) ws.
Proof.
  intros W ws H. rewrite expand_env_map. rewrite map_map.
  induction H as [|w ws Hw _ IH]; [reflexivity|].
  cbn [map]. rewrite (expand_env_word W w Hw), IH. reflexivity.
Qed.

(* ================================================================== 4: examples *)
(** the remaining exemption, for every world: the UNTAGGED token x='$A' is left as it is *)
Example gate_exempts_untagged : forall W,
  expand_env_tok W (TNone, [120; 61; 39; 36; 65; 39]) = (TNone, [120; 61; 39; 36; 65; 39]).
Proof.
  intros W. unfold expand_env_tok; cbn [fst snd tag_eqb].
  replace (env_in_tagged_token [120; 61; 39; 36; 65; 39] false) with false by (vm_compute; reflexivity).
  reflexivity.
Qed.

(** since 8dc686a the same text inside double quotes is expanded *)
Example gate_dq_expands :
  expand_env_tok (world_of [([65], [118])] []) (TDq, [120; 61; 39; 36; 65; 39]) = (TDq, [120; 61; 39; 118; 39]).
Proof. vm_compute. reflexivity. Qed.

(** the command-substitution exemptions still apply inside double quotes: "$(echo $A)" *)
Example gate_dq_subst_kept : forall W,
  expand_env_tok W (TDq, [36; 40; 101; 99; 104; 111; 32; 36; 65; 41]) = (TDq, [36; 40; 101; 99; 104; 111; 32; 36; 65; 41]).
Proof.
  intros W. unfold expand_env_tok; cbn [fst snd tag_eqb].
  replace (env_in_tagged_token [36; 40; 101; 99; 104; 111; 32; 36; 65; 41] true) with false by (vm_compute; reflexivity).
  reflexivity.
Qed.

(** A = "x$B", B = "y": the inserted dollar is not rescanned *)
Example once_no_rescan :
  expand_env_once (world_of [([65], [120; 36; 66]); ([66], [121])] []) [36; 65] = [120; 36; 66].
Proof. vm_compute. reflexivity. Qed.

(** A = "$A": terminates, one substitution *)
Example once_self_ref :
  expand_env_once (world_of [([65], [36; 65])] []) [36; 65] = [36; 65].
Proof. vm_compute. reflexivity. Qed.

(** a newline before the reference is no obstacle *)
Example once_newline :
  expand_env_once (world_of [([65], [118])] []) [97; 10; 36; 65] = [97; 10; 118].
Proof. vm_compute. reflexivity. Qed.

(** an unclosed brace is left as it is *)
Example once_unclosed :
  expand_env_once (world_of [([65], [118])] []) [36; 123; 65] = [36; 123; 65].
Proof. vm_compute. reflexivity. Qed.

(** a dollar before a digit starts no reference; the later reference is expanded *)
Example once_digit :
  expand_env_once (world_of [([65], [118])] []) [36; 57; 120; 36; 65] = [36; 57; 120; 118].
Proof. vm_compute. reflexivity. Qed.

Print Assumptions once_is_den.
Print Assumptions gate_true.
Print Assumptions expand_env_tok_den.
Print Assumptions expand_env_line.
Print Assumptions sub_exempt_off.
Print Assumptions tagged_gate_no_dollar.
Print Assumptions gate_ok_dq_of_gate_ok.
Print Assumptions tagged_gate_true_dq.
Print Assumptions expand_env_tok_den_dq.
Print Assumptions gate_exempts_untagged.
Print Assumptions gate_dq_expands.
Print Assumptions gate_dq_subst_kept.
