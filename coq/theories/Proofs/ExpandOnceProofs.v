(** The one-pass parameter expansion (Model/Expand.v: expand_env_once, behind the gate
    env_in_token) computes exactly the reference semantics [den_pieces], for EVERY world: the
    inserted values are never looked at again, so no condition on them is needed.  The only
    condition left is the gate's: the literals of the word keep clear of the exemption shapes. *)
From Coq Require Import List NArith ZArith Bool Lia.
From Cicada Require Import Base.Chars Base.Tag Base.Regex Gen.ShellRegexes Model.Expand Model.ExpandRef Proofs.ExpandBasics Proofs.EnvProofs.
Import ListNotations.
Local Open Scope N_scope.


(* ================================================================== characters *)
Lemma name_start_not c :
  is_name_start c = true -> (c =? 63) = false /\ (c =? 36) = false /\ (c =? 123) = false.
Proof.
  intros H. repeat split.
  - destruct (c =? 63) eqn:E; [apply N.eqb_eq in E; subst; vm_compute in H; discriminate|reflexivity].
  - destruct (c =? 36) eqn:E; [apply N.eqb_eq in E; subst; vm_compute in H; discriminate|reflexivity].
  - destruct (c =? 123) eqn:E; [apply N.eqb_eq in E; subst; vm_compute in H; discriminate|reflexivity].
Qed.

(* ================================================================== the skip counter *)
Lemma once_go_skip W (a : str) : forall (n : nat) (r : str),
  n = length a -> once_go W n (a ++ r) = once_go W 0 r.
Proof.
  induction a as [|c a IH]; intros n r Hn; cbn [length] in Hn; subst n.
  - reflexivity.
  - cbn [app length once_go]. apply IH. reflexivity.
Qed.

Lemma once_go_lit W (c : char) (r : str) :
  (c =? 36) = false -> once_go W 0 (c :: r) = c :: once_go W 0 r.
Proof. intros H. cbn [once_go]. rewrite H. reflexivity. Qed.

Lemma once_go_dollar W (r : str) :
  once_go W 0 (36 :: r) =
  match env_ref_at r with
  | Some (key, n) => key_value W key ++ once_go W n r
  | None => 36 :: once_go W 0 r
  end.
Proof. reflexivity. Qed.

(* ================================================================== env_ref_at on renderings *)
Lemma env_ref_at_ub (k rest : str) :
  wf_key k = true -> (is_name k = true -> nhd rest = true) ->
  env_ref_at (k ++ rest) = Some (k, length k).
Proof.
  intros Hk Hn. destruct (wf_key_cases k Hk) as [H|[-> | ->]].
  - pose proof (name_all_alnum k H) as Ha. specialize (Hn H).
    destruct k as [|c r]; [cbn in H; discriminate|].
    pose proof H as H'. cbn [is_name] in H'. apply andb_true_iff in H' as [Hc _].
    destruct (name_start_not c Hc) as (E63 & E36 & _).
    cbn [app]. unfold env_ref_at. rewrite E63, E36, Hc. cbn [orb].
    change (c :: r ++ rest) with ((c :: r) ++ rest).
    rewrite (span_name _ _ Ha Hn). reflexivity.
  - reflexivity.
  - reflexivity.
Qed.

Lemma env_ref_at_br (k rest : str) :
  wf_key k = true ->
  env_ref_at (123 :: k ++ 125 :: rest) = Some (k, (length k + 2)%nat).
Proof.
  intros Hk. destruct (wf_key_cases k Hk) as [H|[-> | ->]].
  - pose proof (name_all_alnum k H) as Ha.
    destruct k as [|c r]; [cbn in H; discriminate|].
    pose proof H as H'. cbn [is_name] in H'. apply andb_true_iff in H' as [Hc _].
    destruct (name_start_not c Hc) as (E63 & E36 & _).
    cbn [app]. unfold env_ref_at.
    change (123 =? 63) with false. change (123 =? 36) with false.
    change (is_name_start 123) with false. change (123 =? 123) with true. cbn [orb].
    rewrite E63, E36, Hc. cbn [orb andb].
    change (c :: r ++ 125 :: rest) with ((c :: r) ++ 125 :: rest).
    rewrite (span_name (c :: r) (125 :: rest) Ha eq_refl). reflexivity.
  - reflexivity.
  - reflexivity.
Qed.

(* ================================================================== 1: the one-pass function is the reference *)
Lemma den_lit W c r : den_pieces W (PLit c :: r) = c :: den_pieces W r.
Proof. reflexivity. Qed.
Lemma den_ref W b k r : den_pieces W (PRef b k :: r) = key_value W k ++ den_pieces W r.
Proof. reflexivity. Qed.

Lemma once_go_is_den W : forall ps,
  wf_pieces ps = true -> once_go W 0 (render_pieces ps) = den_pieces W ps.
Proof.
  induction ps as [|p r IH]; intros Hwf; [reflexivity|].
  pose proof (wf_tail _ _ Hwf) as Hr. specialize (IH Hr).
  destruct p as [c|[|] k].
  - rewrite render_lit, den_lit, once_go_lit by (eapply wf_lit_36; eauto).
    rewrite IH. reflexivity.
  - pose proof (wf_ref_key _ _ _ Hwf) as Hk.
    rewrite render_br, den_ref, once_go_dollar, (env_ref_at_br _ _ Hk).
    f_equal. rewrite <- IH.
    change (123 :: k ++ 125 :: render_pieces r) with ((123 :: k) ++ [125] ++ render_pieces r).
    rewrite app_assoc. apply once_go_skip.
    rewrite app_length. cbn [length].
    rewrite !Nat.add_succ_r, !Nat.add_0_r. reflexivity.
  - pose proof (wf_ref_key _ _ _ Hwf) as Hk.
    rewrite render_ub, den_ref, once_go_dollar.
    rewrite (env_ref_at_ub _ _ Hk (wf_ref_nhd _ _ Hwf)).
    f_equal. rewrite <- IH. apply once_go_skip. reflexivity.
Qed.

Theorem once_is_den : forall W ps,
  wf_pieces ps = true -> expand_env_once W (render_pieces ps) = den_pieces W ps.
Proof. intros W ps H. unfold expand_env_once. apply once_go_is_den. exact H. Qed.


(* ================================================================== 2: token level, behind the gate *)
(** the gate is open on every word that holds a reference *)
Theorem gate_true : forall noeq ps,
  wf_pieces ps = true -> lits_okg noeq ps = true -> count_refs ps <> 0%nat ->
  env_in_token (render_pieces ps) = true.
Proof.
  intros noeq ps Hwf Hl Hc.
  destruct (count_pos_split ps Hc) as (a & br & k & b & ->).
  exact (env_in_render_ref noeq _ _ _ _ Hwf Hl).
Qed.

Lemma expand_env_tok_den_noeq W noeq ps tg :
  wf_pieces ps = true -> lits_okg noeq ps = true -> tg <> TSq -> tg <> TBq ->
  expand_env_tok W (tg, render_pieces ps) = (tg, den_pieces W ps).
Proof.
  intros Hwf Hl Hsq Hbq.
  assert (E : (if env_in_token (render_pieces ps)
               then (tg, expand_env_once W (render_pieces ps))
               else (tg, render_pieces ps)) = (tg, den_pieces W ps)).
  { destruct (Nat.eq_dec (count_refs ps) 0) as [Hc|Hc].
    - destruct (render_no_refs W ps Hwf Hc) as [_ Hden].
      destruct (env_in_token (render_pieces ps)).
      + rewrite (once_is_den W ps Hwf). reflexivity.
      + rewrite Hden. reflexivity.
    - rewrite (gate_true noeq ps Hwf Hl Hc).
      rewrite (once_is_den W _ Hwf). reflexivity. }
  unfold expand_env_tok. cbn [fst snd].
  destruct tg; try contradiction; exact E.
Qed.

Theorem expand_env_tok_den : forall W ps tg,
  wf_pieces ps = true -> gate_ok ps = true -> tg <> TSq -> tg <> TBq ->
  expand_env_tok W (tg, render_pieces ps) = (tg, den_pieces W ps).
Proof.
  intros W ps tg Hwf Hg Hsq Hbq. unfold gate_ok in Hg.
  apply orb_true_iff in Hg as [Hg|Hg]; eapply expand_env_tok_den_noeq; eauto.
Qed.

(* ================================================================== 3: a whole line *)
(** a whole line: words given as (tag, segment list) *)
Definition word_in (w : tag * list piece) : Prop :=
  fst w = TSq \/ fst w = TBq \/ (wf_pieces (snd w) = true /\ gate_ok (snd w) = true).
Definition word_text (w : tag * list piece) : token := (fst w, render_pieces (snd w)).
Definition word_den (W : World) (w : tag * list piece) : token :=
  (fst w, match fst w with TSq | TBq => render_pieces (snd w) | _ => den_pieces W (snd w) end).

Lemma expand_env_word W w : word_in w -> expand_env_tok W (word_text w) = word_den W w.
Proof.
  destruct w as [tg ps]. unfold word_in, word_text, word_den. cbn [fst snd].
  intros [H|[H|[Hwf Hg]]].
  - subst tg. reflexivity.
  - subst tg. reflexivity.
  - destruct tg; try reflexivity; apply expand_env_tok_den; auto; discriminate.
Qed.

Theorem expand_env_line : forall W ws,
  Forall word_in ws -> expand_env W (map word_text ws) = map (word_den W) ws.
Proof.
  intros W ws H. rewrite expand_env_map. rewrite map_map.
  induction H as [|w ws Hw _ IH]; [reflexivity|].
  cbn [map]. rewrite (expand_env_word W w Hw), IH. reflexivity.
Qed.

(* ================================================================== 4: examples *)
(** the remaining exemption, for every world: the double-quoted token x='$A' is left as it is *)
Example gate_exempts_dq : forall W,
  expand_env_tok W (TDq, [120; 61; 39; 36; 65; 39]) = (TDq, [120; 61; 39; 36; 65; 39]).
Proof.
  intros W. unfold expand_env_tok; cbn [fst snd].
  replace (env_in_token [120; 61; 39; 36; 65; 39]) with false by (vm_compute; reflexivity).
  reflexivity.
Qed.

(** A = "x$B", B = "y": the inserted dollar is not rescanned *)
Example once_no_rescan :
  expand_env_once (world_of [([65], [120; 36; 66]); ([66], [121])] []) [36; 65] = [120; 36; 66].
Proof. vm_compute. reflexivity. Qed.

(** A = "$A": terminates, one substitution *)
Example once_self_ref :
  expand_env_once (world_of [([65], [36; 65])] []) [36; 65] = [36; 65].
Proof. vm_compute. reflexivity. Qed.

(** a newline before the reference is no obstacle *)
Example once_newline :
  expand_env_once (world_of [([65], [118])] []) [97; 10; 36; 65] = [97; 10; 118].
Proof. vm_compute. reflexivity. Qed.

(** an unclosed brace is left as it is *)
Example once_unclosed :
  expand_env_once (world_of [([65], [118])] []) [36; 123; 65] = [36; 123; 65].
Proof. vm_compute. reflexivity. Qed.

(** a dollar before a digit starts no reference; the later reference is expanded *)
Example once_digit :
  expand_env_once (world_of [([65], [118])] []) [36; 57; 120; 36; 65] = [36; 57; 120; 118].
Proof. vm_compute. reflexivity. Qed.

Print Assumptions once_is_den.
Print Assumptions gate_true.
Print Assumptions expand_env_tok_den.
Print Assumptions expand_env_line.
Print Assumptions gate_exempts_dq.
