(** The anchors of the command-substitution exemptions of the gate [env_in_tagged_token]:
    the third exemption ([rx_env_sub3]) fires only on a word that IS one dollar-paren ... close-paren
    from its first to its last character, the second ([rx_env_sub2]) only on NAME= dollar-paren ...;
    so a word made of references FOLLOWED by a command substitution is let through and its
    references are expanded.  These theorems are true of the generated ASTs and stop being
    provable when one of those anchors is dropped. *)
From Coq Require Import List NArith ZArith Bool Lia.
From Cicada Require Import Base.Chars Base.Tag Base.Regex Gen.ShellRegexes Model.Expand Model.ExpandRef Proofs.ExpandBasics Proofs.EnvProofs Proofs.ExpandOnceProofs Proofs.SubstProofs.
Import ListNotations.
From Coq Require String. Import String.StringSyntax.
Local Open Scope N_scope.

(* ================================================================== 1: the third exemption is the whole word *)
Theorem sub3_whole_word : forall t,
  rx_search rx_env_sub3 t = true -> exists mid, t = 36 :: 40 :: mid ++ [41].
Proof.
  intros t H. unfold rx_search in H. apply matchb_spec in H.
  unfold rx_full in H.
  change (rx_ab rx_env_sub3) with true in H. change (rx_ae rx_env_sub3) with true in H.
  cbn iota in H.
  apply cat_inv in H as (s1 & s2 & -> & H1 & H).
  apply cat_inv in H as (s3 & s4 & -> & H & H4).
  apply eps_inv in H1. apply eps_inv in H4. subst s1 s4.
  unfold rx_env_sub3 in H; cbn [rx_re] in H.
  apply cat_inv in H as (d & r & -> & Hd & H).
  apply cat_inv in H as (p & r' & -> & Hp & H).
  apply cat_inv in H as (mid & cl & -> & _ & Hc).
  apply chr_single_inv in Hd. apply chr_single_inv in Hp. apply chr_single_inv in Hc.
  subst d p cl. exists mid. cbn [app]. rewrite app_nil_r. reflexivity.
Qed.

(* ================================================================== 2: the second exemption starts with NAME= *)
Lemma name_start_cs_not36 (x : N) :
  in_cs false [(97, 122); (65, 90); (95, 95)] x = true -> x <> 36.
Proof.
  unfold in_cs. rewrite xorb_false_l. cbn [existsb fst snd]. rewrite orb_false_r.
  rewrite !orb_true_iff, !andb_true_iff, !N.leb_le. lia.
Qed.

Lemma name_char_cs_not36 (x : N) :
  in_cs false [(97, 122); (65, 90); (48, 57); (95, 95)] x = true -> x <> 36.
Proof.
  unfold in_cs. rewrite xorb_false_l. cbn [existsb fst snd]. rewrite orb_false_r.
  rewrite !orb_true_iff, !andb_true_iff, !N.leb_le. lia.
Qed.

Lemma star_chr_all n rs (m : str) :
  Matches (Star (Chr n rs)) m -> forall x, In x m -> in_cs n rs x = true.
Proof.
  induction m as [|c m IH]; intros H x Hin; [destruct Hin|].
  apply star_cons in H as (s1 & s2 & -> & H1 & H2).
  inversion H1; subst.
  cbn [app] in *. destruct Hin as [<-|Hin]; [assumption|]. apply IH; assumption.
Qed.

Theorem sub2_starts_with_assignment : forall t,
  rx_search rx_env_sub2 t = true ->
  exists name rest, t = name ++ 61 :: 36 :: 40 :: rest /\ ~ In 36 name.
Proof.
  intros t H. unfold rx_search in H. apply matchb_spec in H.
  unfold rx_full in H.
  change (rx_ab rx_env_sub2) with true in H. change (rx_ae rx_env_sub2) with true in H.
  cbn iota in H.
  apply cat_inv in H as (s1 & s2 & -> & H1 & H).
  apply cat_inv in H as (s3 & s4 & -> & H & H4).
  apply eps_inv in H1. apply eps_inv in H4. subst s1 s4.
  unfold rx_env_sub2 in H; cbn [rx_re] in H.
  apply cat_inv in H as (n0 & r & -> & Hn0 & H).
  apply cat_inv in H as (ns & r' & -> & Hns & H).
  apply cat_inv in H as (e & r'' & -> & He & H).
  apply cat_inv in H as (d & r3 & -> & Hd & H).
  apply cat_inv in H as (p & r4 & -> & Hp & _).
  apply chr_single_inv in He. apply chr_single_inv in Hd. apply chr_single_inv in Hp.
  subst e d p.
  exists (n0 ++ ns), r4. split.
  - cbn [app]. rewrite app_nil_r, <- app_assoc. reflexivity.
  - intros Hin. apply in_app_or in Hin as [Hin|Hin].
    + inversion Hn0; subst. destruct Hin as [E|[]]. subst.
      eapply name_start_cs_not36; eauto.
    + eapply name_char_cs_not36; [|reflexivity]. eapply star_chr_all; eauto.
Qed.

(* ================================================================== 3: references before a command substitution *)
(** the first dollar of a rendering that holds a reference starts a reference: what follows it is an
    open brace or the first character of a key, never an open paren *)
Lemma key_head_not40 (k : str) :
  wf_key k = true -> exists y k', k = y :: k' /\ y <> 40.
Proof.
  intros Hk. destruct (wf_key_cases k Hk) as [H|[-> | ->]].
  - destruct k as [|y k']; [cbn in H; discriminate|]. exists y, k'. split; [reflexivity|].
    cbn [is_name] in H. apply andb_true_iff in H as [H _].
    intros ->. vm_compute in H. discriminate.
  - exists 36, []. split; [reflexivity | discriminate].
  - exists 63, []. split; [reflexivity | discriminate].
Qed.

Lemma first_ref_shape ps :
  wf_pieces ps = true -> count_refs ps <> 0%nat ->
  exists (pre : str) (y : N) (post : str),
    render_pieces ps = pre ++ 36 :: y :: post /\ ~ In 36 pre /\ y <> 40.
Proof.
  induction ps as [|p r IH]; intros Hwf Hc; [exfalso; apply Hc; reflexivity|].
  destruct p as [c|[|] k].
  - rewrite count_lit in Hc.
    destruct (IH (wf_tail _ _ Hwf) Hc) as (pre & y & post & E & Hpre & Hy).
    exists (c :: pre), y, post. rewrite render_lit, E. split; [reflexivity|]. split; [|exact Hy].
    intros [X|X]; [|exact (Hpre X)].
    apply wf_lit_36 in Hwf. apply N.eqb_neq in Hwf. congruence.
  - exists [], 123, (k ++ 125 :: render_pieces r). rewrite render_br.
    split; [reflexivity|]. split; [intros [] | discriminate].
  - destruct (key_head_not40 k (wf_ref_key _ _ _ Hwf)) as (y & k' & -> & Hy).
    exists [], y, (k' ++ render_pieces r). rewrite render_ub.
    split; [reflexivity|]. split; [intros [] | exact Hy].
Qed.

Lemma first_split_unique (x : N) (a1 b1 a2 b2 : list N) :
  ~ In x a1 -> ~ In x a2 -> a1 ++ x :: b1 = a2 ++ x :: b2 -> a1 = a2 /\ b1 = b2.
Proof.
  revert a2. induction a1 as [|h a1 IH]; intros a2 H1 H2 E; destruct a2 as [|h2 a2]; cbn [app] in E.
  - injection E as E. auto.
  - injection E as E1 E2. exfalso. apply H2. left. auto.
  - injection E as E1 E2. exfalso. apply H1. left. auto.
  - injection E as E1 E2. subst h2.
    destruct (IH a2) as [-> ->]; auto.
    + intros X; apply H1; right; exact X.
    + intros X; apply H2; right; exact X.
Qed.

(** the positive tests, with anything appended to the rendering *)
Lemma ref_search_suffix a br k b (suf : str) :
  wf_pieces (a ++ PRef br k :: b) = true ->
  rx_search rx_env_special (render_pieces (a ++ PRef br k :: b) ++ suf) = true \/
  rx_search rx_env_name (render_pieces (a ++ PRef br k :: b) ++ suf) = true.
Proof.
  intros Hwf.
  pose proof (wf_ref_key _ _ _ (wf_app_r _ _ Hwf)) as Hk.
  rewrite render_app, <- app_assoc.
  destruct (wf_key_cases k Hk) as [H|[-> | ->]].
  - right. destruct k as [|n r]; [cbn in H; discriminate|].
    cbn [is_name] in H. apply andb_true_iff in H as [H _].
    destruct br.
    + rewrite render_br. cbn [app]. apply name_search_br. exact H.
    + rewrite render_ub. cbn [app]. apply name_search_ub. exact H.
  - left. destruct br.
    + rewrite render_br. cbn [app]. apply special_search_br. auto.
    + rewrite render_ub. cbn [app]. apply special_search_ub. auto.
  - left. destruct br.
    + rewrite render_br. cbn [app]. apply special_search_br. auto.
    + rewrite render_ub. cbn [app]. apply special_search_ub. auto.
Qed.

(** the three command-substitution exemptions are off: the word has no backquote, does not START with
    dollar-paren (third pattern, anchored at the beginning), and its first dollar is not the one of
    NAME= dollar-paren (second pattern, anchored at the beginning) *)
Lemma sub3_off_refs_first ps (suf : str) :
  wf_pieces ps = true -> count_refs ps <> 0%nat ->
  rx_search rx_env_sub3 (render_pieces ps ++ suf) = false.
Proof.
  intros Hwf Hc. destruct (rx_search rx_env_sub3 (render_pieces ps ++ suf)) eqn:E; [exfalso|reflexivity].
  apply sub3_whole_word in E as (mid & E).
  destruct (first_ref_shape ps Hwf Hc) as (pre & y & post & Er & Hpre & Hy).
  rewrite Er in E. destruct pre as [|x pre]; cbn [app] in E.
  - injection E as E1 E2. congruence.
  - injection E as E1 E2. apply Hpre. left. exact E1.
Qed.

Lemma sub2_off_refs_first ps (suf : str) :
  wf_pieces ps = true -> count_refs ps <> 0%nat ->
  rx_search rx_env_sub2 (render_pieces ps ++ suf) = false.
Proof.
  intros Hwf Hc. destruct (rx_search rx_env_sub2 (render_pieces ps ++ suf)) eqn:E; [exfalso|reflexivity].
  apply sub2_starts_with_assignment in E as (name & rest & E & Hname).
  destruct (first_ref_shape ps Hwf Hc) as (pre & y & post & Er & Hpre & Hy).
  rewrite Er, <- app_assoc in E. cbn [app] in E.
  change (name ++ 61 :: 36 :: 40 :: rest) with (name ++ [61] ++ 36 :: 40 :: rest) in E.
  rewrite app_assoc in E.
  apply first_split_unique in E as [_ E]; [| exact Hpre |].
  - injection E as E1 E2. congruence.
  - intros X. apply in_app_or in X as [X|[X|[]]]; [exact (Hname X) | discriminate].
Qed.

(** the statement without the (unneeded) hypothesis on the rendering and for any suffix *)
Lemma gate_accepts_refs_first : forall q ps (suf : str),
  wf_pieces ps = true -> count_refs ps <> 0%nat ->
  ~ In 96 (render_pieces ps ++ suf) ->
  (q = true \/ ~ In 39 (render_pieces ps ++ suf)) ->
  env_in_tagged_token (render_pieces ps ++ suf) q = true.
Proof.
  intros q ps suf Hwf Hc H96 Hq.
  pose proof (sub3_off_refs_first ps suf Hwf Hc) as S3.
  pose proof (sub2_off_refs_first ps suf Hwf Hc) as S2.
  assert (S1 : rx_search rx_env_sub1 (render_pieces ps ++ suf) = false).
  { destruct (rx_search rx_env_sub1 (render_pieces ps ++ suf)) eqn:E; [exfalso|reflexivity].
    exact (H96 (rx_search_requires 96 rx_env_sub1 _ eq_refl E)). }
  assert (Hpos : rx_search rx_env_special (render_pieces ps ++ suf) = true \/
                 rx_search rx_env_name (render_pieces ps ++ suf) = true).
  { destruct (count_pos_split ps Hc) as (a & br & k & b & ->). apply ref_search_suffix. exact Hwf. }
  unfold env_in_tagged_token. rewrite S1, S2, S3. cbn [orb].
  destruct (rx_search rx_env_special (render_pieces ps ++ suf)); [reflexivity|].
  destruct Hpos as [Hpos|Hpos]; [discriminate|]. rewrite Hpos. cbn [negb].
  destruct q; [reflexivity|].
  destruct Hq as [Hq|Hq]; [discriminate|].
  destruct (rx_search rx_env_alias (render_pieces ps ++ suf)) eqn:E; [exfalso|reflexivity].
  exact (Hq (rx_search_requires 39 rx_env_alias _ eq_refl E)).
Qed.

Theorem gate_accepts_refs_before_cmdsub : forall q ps c,
  wf_pieces ps = true -> count_refs ps <> 0%nat ->
  has_dollar_paren (render_pieces ps) = false ->
  ~ In 96 (render_pieces ps ++ 36 :: 40 :: c ++ [41]) ->
  (q = true \/ ~ In 39 (render_pieces ps ++ 36 :: 40 :: c ++ [41])) ->
  env_in_tagged_token (render_pieces ps ++ 36 :: 40 :: c ++ [41]) q = true.
Proof.
  intros q ps c Hwf Hc _ H96 Hq. apply gate_accepts_refs_first; assumption.
Qed.

(* ================================================================== 4: what the token becomes *)
Lemma nhd_app (a b : str) : nhd a = true -> nhd b = true -> nhd (a ++ b) = true.
Proof. destruct a; cbn [app nhd]; auto. Qed.

(** [once_go_is_den] with a suffix that does not continue a name *)
Lemma once_go_den_suffix W (rest : str) : forall ps,
  wf_pieces ps = true -> nhd rest = true ->
  once_go W 0 (render_pieces ps ++ rest) = den_pieces W ps ++ once_go W 0 rest.
Proof.
  induction ps as [|p r IH]; intros Hwf Hrest; [reflexivity|].
  pose proof (wf_tail _ _ Hwf) as Hr. specialize (IH Hr Hrest).
  destruct p as [c|[|] k].
  - rewrite render_lit, den_lit. cbn [app]. rewrite once_go_lit by (eapply wf_lit_36; eauto).
    rewrite IH. reflexivity.
  - pose proof (wf_ref_key _ _ _ Hwf) as Hk.
    rewrite render_br, den_ref. cbn [app]. rewrite <- !app_assoc. cbn [app].
    rewrite once_go_dollar, (env_ref_at_br _ _ Hk).
    f_equal. rewrite <- IH.
    change (123 :: k ++ 125 :: render_pieces r ++ rest) with ((123 :: k) ++ [125] ++ render_pieces r ++ rest).
    rewrite app_assoc. apply once_go_skip.
    rewrite app_length. cbn [length].
    rewrite !Nat.add_succ_r, !Nat.add_0_r. reflexivity.
  - pose proof (wf_ref_key _ _ _ Hwf) as Hk.
    rewrite render_ub, den_ref. cbn [app]. rewrite <- !app_assoc.
    rewrite once_go_dollar.
    rewrite (env_ref_at_ub k (render_pieces r ++ rest) Hk)
      by (intros Hn; apply nhd_app; [exact (wf_ref_nhd _ _ Hwf Hn) | exact Hrest]).
    f_equal. rewrite <- IH. apply once_go_skip. reflexivity.
Qed.

Lemma once_go_no_dollar W (s : str) : ~ In 36 s -> once_go W 0 s = s.
Proof.
  induction s as [|c s IH]; intros H; [reflexivity|].
  rewrite once_go_lit by (apply N.eqb_neq; intros X; apply H; left; auto).
  rewrite IH by (intros X; apply H; right; exact X). reflexivity.
Qed.

Lemma env_ref_at_paren (s : str) : env_ref_at (40 :: s) = None.
Proof. reflexivity. Qed.

Lemma once_go_cmdsub W (c : str) :
  ~ In 36 c -> once_go W 0 (36 :: 40 :: c ++ [41]) = 36 :: 40 :: c ++ [41].
Proof.
  intros H. rewrite once_go_dollar, env_ref_at_paren. f_equal.
  apply once_go_no_dollar. intros [X|X]; [discriminate|].
  apply in_app_or in X as [X|[X|[]]]; [exact (H X) | discriminate].
Qed.

Theorem expand_env_tok_refs_before_cmdsub : forall W tg ps c,
  (tg = TNone \/ tg = TDq) -> wf_pieces ps = true -> count_refs ps <> 0%nat ->
  has_dollar_paren (render_pieces ps) = false -> ~ In 36 c ->
  ~ In 96 (render_pieces ps ++ 36 :: 40 :: c ++ [41]) ->
  (tg = TDq \/ ~ In 39 (render_pieces ps ++ 36 :: 40 :: c ++ [41])) ->
  expand_env_tok W (tg, render_pieces ps ++ 36 :: 40 :: c ++ [41]) = (tg, den_pieces W ps ++ 36 :: 40 :: c ++ [41]).
Proof.
  intros W tg ps c Htg Hwf Hc Hdp H36 H96 H39.
  assert (Hg : env_in_tagged_token (render_pieces ps ++ 36 :: 40 :: c ++ [41]) (tag_eqb tg TDq) = true).
  { apply gate_accepts_refs_before_cmdsub; try assumption.
    destruct H39 as [-> | H39]; [left; reflexivity | right; exact H39]. }
  assert (Hs : expand_env_once W (render_pieces ps ++ 36 :: 40 :: c ++ [41]) = den_pieces W ps ++ 36 :: 40 :: c ++ [41]).
  { unfold expand_env_once. rewrite once_go_den_suffix by (assumption || reflexivity).
    rewrite once_go_cmdsub by exact H36. reflexivity. }
  unfold expand_env_tok. cbn [fst snd].
  destruct Htg as [-> | ->]; cbn [tag_eqb] in *; rewrite Hg, Hs; reflexivity.
Qed.

(* ================================================================== 5: examples *)
Definition W_A : World := world_of [([65], [118; 97])] [].

Example gate_anchor_examples :
  expand_env_tok W_A (TNone, s2l "$A/$(echo sub)") = (TNone, s2l "va/$(echo sub)") /\
  expand_env_tok W_A (TDq, s2l "$A and $(echo sub)") = (TDq, s2l "va and $(echo sub)") /\
  expand_env_tok W_A (TNone, s2l "${A}$(echo sub)") = (TNone, s2l "va$(echo sub)") /\
  expand_env_tok W_A (TNone, s2l "$(echo $A)") = (TNone, s2l "$(echo $A)").
Proof. repeat split; vm_compute; reflexivity. Qed.

Print Assumptions sub3_whole_word.
Print Assumptions sub2_starts_with_assignment.
Print Assumptions gate_accepts_refs_first.
Print Assumptions gate_accepts_refs_before_cmdsub.
Print Assumptions expand_env_tok_refs_before_cmdsub.
Print Assumptions gate_anchor_examples.
