(** Generic facts about the PEG interpreter. *)
From Cicada Require Import Base.Chars Base.Peg.
From Coq Require Import Lia.

Section G.
Variable g : grammar.

Lemma ev_ends_eoi : forall e, ends_with_eoi e = true ->
  forall f at_ pos rest p r k, ev g f e at_ pos rest = POk p r k -> r = [].
Proof.
  induction e as [s|s|lo hi| | | |rr|e1 IHe1 e2 IHe2|e1 IHe1 e2 IHe2|e1 IHe1|e1 IHe1|e1 IHe1|e1 IHe1|e1 IHe1| |e1 IHe1]; intros He f at_ pos rest p r k H; try discriminate He.
  - (* PEoi *) destruct f as [|f]; [discriminate H|]. cbn [ev] in H.
    destruct rest; [|discriminate H]. injection H as _ <- _. reflexivity.
  - (* PSeq *) cbn [ends_with_eoi] in He. destruct f as [|f]; [discriminate H|]. cbn [ev] in H.
    destruct (ev g f e1 at_ pos rest) as [| |p1 r1 k1]; try discriminate H.
    destruct (ev g f PSkip at_ p1 r1) as [| |p2 r2 k2]; try discriminate H.
    destruct (ev g f e2 at_ p2 r2) as [| |p3 r3 k3] eqn:E; try discriminate H.
    injection H as _ <- _. eapply IHe2; eassumption.
Qed.

Lemma ev_S_ref f r at_ pos rest :
  ev g (S f) (PRef r) at_ pos rest =
  match lookup r (g_rules g) with
  | None => PFail
  | Some (m, body) =>
      let inner :=
        match m with
        | MAtomic => AtAtomic
        | MCompound => AtCompound
        | MNonAtomic => AtNon
        | _ => if opt_eqb (g_ws g) r then AtAtomic else at_
        end in
      match ev g f body inner pos rest with
      | POk p r' kids =>
          match m with
          | MSilent => POk p r' kids
          | MNormal | MAtomic =>
              POk p r' (if is_atomic at_ then [] else [Node r pos p (if is_atomic inner then [] else kids)])
          | MCompound | MNonAtomic => POk p r' [Node r pos p kids]
          end
      | x => x
      end
  end.
Proof. reflexivity. Qed.

Lemma ev_ref_anchored : forall start, top_anchored g start = true ->
  forall f at_ pos rest p r k, ev g f (PRef start) at_ pos rest = POk p r k -> r = [].
Proof.
  intros start Ha f at_ pos rest p r k H. unfold top_anchored in Ha.
  destruct f as [|f]; [discriminate H|]. rewrite ev_S_ref in H.
  destruct (lookup start (g_rules g)) as [[m body]|]; [|discriminate H].
  cbv zeta in H.
  match type of H with context [ev g f body ?a pos rest] =>
    destruct (ev g f body a pos rest) as [| |p1 r1 k1] eqn:E; try discriminate H end.
  assert (r1 = []) by (eapply ev_ends_eoi; eassumption). subst r1.
  destruct m; injection H as _ <- _; reflexivity.
Qed.

Strategy 1000 [ev].
(** If the start rule is anchored at end of input, a successful parse has consumed everything. *)
Theorem anchored_consumes_all : forall start, top_anchored g start = true ->
  forall input p r k, parse_from g start input = POk p r k -> r = [].
Proof.
  intros start Ha input p r k H.
  exact (ev_ref_anchored start Ha (peg_fuel input) AtNon 0 input p r k H).
Qed.
End G.
