(** Generic facts about the PEG interpreter. *)
From Cicada Require Import Base.Chars Base.Peg.
From Coq Require Import Lia Arith.

Section G.
Variable g : grammar.

Ltac step IH H :=
  match type of H with
  | context [match ev g ?f ?x ?a ?p ?r with _ => _ end] =>
     let E := fresh "E" in destruct (ev g f x a p r) eqn:E;
     [ rewrite (IH _ _ _ _ _ E) by discriminate
     | exfalso; congruence
     | rewrite (IH _ _ _ _ _ E) by discriminate ]; cbn beta iota in H |- *
  end.

Lemma ev_mono : forall f e at_ pos r res,
  ev g f e at_ pos r = res -> res <> PFuel -> ev g (S f) e at_ pos r = res.
Proof.
  induction f as [|f IH]; intros e at_ pos r res H Hn; [cbn in H; congruence|].
  destruct e; cbn [ev] in H; set (f1 := S f); cbn [ev]; subst f1.
  1-6: exact H.
  - (* PRef *) destruct (lookup r0 (g_rules g)) as [[m body]|]; [|exact H].
    cbv zeta in H |- *. step IH H; try exact H.
  - step IH H; try exact H. step IH H; try exact H. step IH H; exact H.
  - step IH H; try exact H. apply IH; assumption.
  - step IH H; exact H.
  - step IH H; try exact H. step IH H; exact H.
  - step IH H; try exact H. step IH H; exact H.
  - step IH H; exact H.
  - step IH H; exact H.
  - (* PSkip *) destruct (is_non at_); [|exact H]. destruct (g_ws g); [|exact H].
    step IH H; try exact H. destruct (Nat.eqb pos0 pos); [exfalso; congruence|]. step IH H; exact H.
  - (* PRepTail *) step IH H; try exact H. step IH H; try exact H.
    destruct (Nat.eqb pos1 pos); [exfalso; congruence|]. step IH H; exact H.
Qed.

Lemma ev_mono_le : forall f f' e at_ pos r res,
  ev g f e at_ pos r = res -> res <> PFuel -> (f <= f')%nat -> ev g f' e at_ pos r = res.
Proof.
  intros f f' e at_ pos r res H Hn Hle. induction Hle; [exact H|]. apply ev_mono; assumption.
Qed.

(** [evals e at pos r res]: with enough fuel, always this result. *)
Definition evals (e : pexp) (at_ : atomicity) (pos : nat) (r : str) (res : pres) : Prop :=
  exists f0, forall f, (f0 <= f)%nat -> ev g f e at_ pos r = res.

Lemma evals_of_ev f0 e at_ pos r res :
  ev g f0 e at_ pos r = res -> res <> PFuel -> evals e at_ pos r res.
Proof. intros H Hn. exists f0. intros f Hf. eapply ev_mono_le; eassumption. Qed.

Lemma evals_det e at_ pos r r1 r2 : evals e at_ pos r r1 -> evals e at_ pos r r2 -> r1 = r2.
Proof.
  intros [f1 H1] [f2 H2]. rewrite <- (H1 (Nat.max f1 f2)) by lia. apply H2. lia.
Qed.

Ltac ev_S f Hf := destruct f as [|f]; [exfalso; lia|]; cbn [ev].

Lemma evals_str_ok s at_ pos r r' : strip_prefix s r = Some r' ->
  evals (PStr s) at_ pos r (POk (pos + length s) r' []).
Proof. intro H. exists 1%nat. intros f Hf. ev_S f Hf. rewrite H. reflexivity. Qed.

Lemma evals_str_fail s at_ pos r : strip_prefix s r = None -> evals (PStr s) at_ pos r PFail.
Proof. intro H. exists 1%nat. intros f Hf. ev_S f Hf. rewrite H. reflexivity. Qed.

Lemma evals_any at_ pos c r : evals PAny at_ pos (c :: r) (POk (S pos) r []).
Proof. exists 1%nat. intros f Hf. ev_S f Hf. reflexivity. Qed.

Lemma evals_seq a b at_ pos r p1 r1 k1 p2 r2 k2 resb :
  evals a at_ pos r (POk p1 r1 k1) -> evals PSkip at_ p1 r1 (POk p2 r2 k2) -> evals b at_ p2 r2 resb ->
  evals (PSeq a b) at_ pos r (match resb with POk p3 r3 k3 => POk p3 r3 (k1 ++ k2 ++ k3) | x => x end).
Proof.
  intros [fa Ha] [fs Hs] [fb Hb]. exists (S (Nat.max fa (Nat.max fs fb))). intros f Hf. ev_S f Hf.
  rewrite Ha, Hs, Hb by lia. destruct resb; reflexivity.
Qed.

Lemma evals_seq_ok a b at_ pos r p1 r1 k1 p2 r2 k2 p3 r3 k3 :
  evals a at_ pos r (POk p1 r1 k1) -> evals PSkip at_ p1 r1 (POk p2 r2 k2) -> evals b at_ p2 r2 (POk p3 r3 k3) ->
  evals (PSeq a b) at_ pos r (POk p3 r3 (k1 ++ k2 ++ k3)).
Proof. intros Ha Hs Hb. exact (evals_seq a b at_ pos r p1 r1 k1 p2 r2 k2 _ Ha Hs Hb). Qed.

Lemma evals_seq_fail_b a b at_ pos r p1 r1 k1 p2 r2 k2 :
  evals a at_ pos r (POk p1 r1 k1) -> evals PSkip at_ p1 r1 (POk p2 r2 k2) -> evals b at_ p2 r2 PFail ->
  evals (PSeq a b) at_ pos r PFail.
Proof. intros Ha Hs Hb. exact (evals_seq a b at_ pos r p1 r1 k1 p2 r2 k2 _ Ha Hs Hb). Qed.

Lemma evals_seq_fail a b at_ pos r : evals a at_ pos r PFail -> evals (PSeq a b) at_ pos r PFail.
Proof. intros [fa Ha]. exists (S fa). intros f Hf. ev_S f Hf. rewrite Ha by lia. reflexivity. Qed.

Lemma evals_alt_l a b at_ pos r p1 r1 k1 : evals a at_ pos r (POk p1 r1 k1) -> evals (PAlt a b) at_ pos r (POk p1 r1 k1).
Proof. intros [fa Ha]. exists (S fa). intros f Hf. ev_S f Hf. rewrite Ha by lia. reflexivity. Qed.

Lemma evals_alt_r a b at_ pos r res : evals a at_ pos r PFail -> evals b at_ pos r res -> evals (PAlt a b) at_ pos r res.
Proof.
  intros [fa Ha] [fb Hb]. exists (S (Nat.max fa fb)). intros f Hf. ev_S f Hf.
  rewrite Ha by lia. apply Hb. lia.
Qed.

Lemma evals_opt_some a at_ pos r p1 r1 k1 : evals a at_ pos r (POk p1 r1 k1) -> evals (POpt a) at_ pos r (POk p1 r1 k1).
Proof. intros [fa Ha]. exists (S fa). intros f Hf. ev_S f Hf. rewrite Ha by lia. reflexivity. Qed.

Lemma evals_opt_none a at_ pos r : evals a at_ pos r PFail -> evals (POpt a) at_ pos r (POk pos r []).
Proof. intros [fa Ha]. exists (S fa). intros f Hf. ev_S f Hf. rewrite Ha by lia. reflexivity. Qed.

Lemma evals_not_ok a at_ pos r : evals a at_ pos r PFail -> evals (PNot a) at_ pos r (POk pos r []).
Proof. intros [fa Ha]. exists (S fa). intros f Hf. ev_S f Hf. rewrite Ha by lia. reflexivity. Qed.

Lemma evals_not_fail a at_ pos r p1 r1 k1 : evals a at_ pos r (POk p1 r1 k1) -> evals (PNot a) at_ pos r PFail.
Proof. intros [fa Ha]. exists (S fa). intros f Hf. ev_S f Hf. rewrite Ha by lia. reflexivity. Qed.

Lemma evals_rep_none a at_ pos r : evals a at_ pos r PFail -> evals (PRep a) at_ pos r (POk pos r []).
Proof. intros [fa Ha]. exists (S fa). intros f Hf. ev_S f Hf. rewrite Ha by lia. reflexivity. Qed.

Lemma evals_rep_some a at_ pos r p1 r1 k1 p2 r2 k2 :
  evals a at_ pos r (POk p1 r1 k1) -> evals (PRepTail a) at_ p1 r1 (POk p2 r2 k2) ->
  evals (PRep a) at_ pos r (POk p2 r2 (k1 ++ k2)).
Proof.
  intros [fa Ha] [ft Ht]. exists (S (Nat.max fa ft)). intros f Hf. ev_S f Hf.
  rewrite Ha, Ht by lia. reflexivity.
Qed.

Lemma evals_reptail_stop a at_ pos r p1 r1 k1 :
  evals PSkip at_ pos r (POk p1 r1 k1) -> evals a at_ p1 r1 PFail -> evals (PRepTail a) at_ pos r (POk pos r []).
Proof.
  intros [fs Hs] [fa Ha]. exists (S (Nat.max fs fa)). intros f Hf. ev_S f Hf.
  rewrite Hs, Ha by lia. reflexivity.
Qed.

Lemma evals_reptail_step a at_ pos r p1 r1 k1 p2 r2 k2 p3 r3 k3 :
  evals PSkip at_ pos r (POk p1 r1 k1) -> evals a at_ p1 r1 (POk p2 r2 k2) -> p2 <> pos ->
  evals (PRepTail a) at_ p2 r2 (POk p3 r3 k3) ->
  evals (PRepTail a) at_ pos r (POk p3 r3 (k1 ++ k2 ++ k3)).
Proof.
  intros [fs Hs] [fa Ha] Hne [ft Ht]. exists (S (Nat.max fs (Nat.max fa ft))). intros f Hf. ev_S f Hf.
  rewrite Hs, Ha, Ht by lia. apply Nat.eqb_neq in Hne. rewrite Hne. reflexivity.
Qed.

Lemma evals_skip_stop w pos r : g_ws g = Some w ->
  evals (PRef w) AtNon pos r PFail -> evals PSkip AtNon pos r (POk pos r []).
Proof.
  intros Hw [f0 H0]. exists (S f0). intros f Hf. ev_S f Hf. cbn [is_non]. rewrite Hw, H0 by lia. reflexivity.
Qed.

Lemma evals_skip_step w pos r p1 r1 k1 p2 r2 k2 : g_ws g = Some w ->
  evals (PRef w) AtNon pos r (POk p1 r1 k1) -> p1 <> pos -> evals PSkip AtNon p1 r1 (POk p2 r2 k2) ->
  evals PSkip AtNon pos r (POk p2 r2 (k1 ++ k2)).
Proof.
  intros Hw [f1 H1] Hne [f2 H2]. exists (S (Nat.max f1 f2)). intros f Hf. ev_S f Hf. cbn [is_non].
  rewrite Hw, H1 by lia. apply Nat.eqb_neq in Hne. rewrite Hne, H2 by lia. reflexivity.
Qed.

(** rule calls (the caller is NonAtomic, the rule is not WHITESPACE) *)
Lemma evals_ref_silent r body pos rest res :
  lookup r (g_rules g) = Some (MSilent, body) -> opt_eqb (g_ws g) r = false ->
  evals body AtNon pos rest res -> evals (PRef r) AtNon pos rest res.
Proof.
  intros Hl Hw [fb Hb]. exists (S fb). intros f Hf. ev_S f Hf. rewrite Hl, Hw. rewrite Hb by lia.
  destruct res; reflexivity.
Qed.

Lemma evals_ref_normal r body pos rest res :
  lookup r (g_rules g) = Some (MNormal, body) -> opt_eqb (g_ws g) r = false ->
  evals body AtNon pos rest res ->
  evals (PRef r) AtNon pos rest (match res with POk p r' kids => POk p r' [Node r pos p kids] | x => x end).
Proof.
  intros Hl Hw [fb Hb]. exists (S fb). intros f Hf. ev_S f Hf. rewrite Hl, Hw. rewrite Hb by lia.
  destruct res; reflexivity.
Qed.

Lemma evals_ref_normal_ok r body pos rest p r' kids :
  lookup r (g_rules g) = Some (MNormal, body) -> opt_eqb (g_ws g) r = false ->
  evals body AtNon pos rest (POk p r' kids) -> evals (PRef r) AtNon pos rest (POk p r' [Node r pos p kids]).
Proof. intros Hl Hw Hb. exact (evals_ref_normal r body pos rest _ Hl Hw Hb). Qed.

Lemma evals_ref_normal_fail r body pos rest :
  lookup r (g_rules g) = Some (MNormal, body) -> opt_eqb (g_ws g) r = false ->
  evals body AtNon pos rest PFail -> evals (PRef r) AtNon pos rest PFail.
Proof. intros Hl Hw Hb. exact (evals_ref_normal r body pos rest _ Hl Hw Hb). Qed.

Lemma evals_range_ok lo hi at_ pos c r : (lo <=? c)%N && (c <=? hi)%N = true ->
  evals (PRange lo hi) at_ pos (c :: r) (POk (S pos) r []).
Proof. intro H. exists 1%nat. intros f Hf. ev_S f Hf. rewrite H. reflexivity. Qed.

Lemma evals_range_fail lo hi at_ pos c r : (lo <=? c)%N && (c <=? hi)%N = false ->
  evals (PRange lo hi) at_ pos (c :: r) PFail.
Proof. intro H. exists 1%nat. intros f Hf. ev_S f Hf. rewrite H. reflexivity. Qed.

(** no implicit skip outside NonAtomic *)
Lemma evals_skip_atomic pos r : evals PSkip AtAtomic pos r (POk pos r []).
Proof. exists 1%nat. intros f Hf. ev_S f Hf. reflexivity. Qed.

(** an atomic rule called from a NonAtomic one: one pair, no inner pairs *)
Lemma evals_ref_atomic_ok r body pos rest p r' kids :
  lookup r (g_rules g) = Some (MAtomic, body) ->
  evals body AtAtomic pos rest (POk p r' kids) -> evals (PRef r) AtNon pos rest (POk p r' [Node r pos p []]).
Proof.
  intros Hl [fb Hb]. exists (S fb). intros f Hf. ev_S f Hf. rewrite Hl. rewrite Hb by lia. reflexivity.
Qed.

Lemma ev_ends_eoi : forall e, ends_with_eoi e = true ->
  forall f at_ pos rest p r k, ev g f e at_ pos rest = POk p r k -> r = [].
Proof.
  induction e as [s|s|lo hi| | | |rr|e1 IHe1 e2 IHe2|e1 IHe1 e2 IHe2|e1 IHe1|e1 IHe1|e1 IHe1|e1 IHe1|e1 IHe1| |e1 IHe1]; intros He f at_ pos rest p r k H; try discriminate He.
  - (* PEoi *) destruct f as [|f]; [discriminate H|]. cbn [ev] in H.
    destruct rest; [|discriminate H]. injection H as _ <- _. reflexivity.
  - (* PSeq *) cbn [ends_with_eoi] in He. destruct f as [|f]; [discriminate H|]. cbn [ev] in H.
    destruct (ev g f e1 at_ pos rest) as [| |p1 r1 k1]; try discriminate H.
    destruct (ev g f PSkip at_ p1 r1) as [| |p2 r2 k2]; try discriminate H.
    destruct (ev g f e2 at_ p2 r2) as [| |p3 r3 k3] eqn:E; try discriminate H.
    injection H as _ <- _. eapply IHe2; eassumption.
Qed.

Lemma ev_S_ref f r at_ pos rest :
  ev g (S f) (PRef r) at_ pos rest =
  match lookup r (g_rules g) with
  | None => PFail
  | Some (m, body) =>
      let inner :=
        match m with
        | MAtomic => AtAtomic
        | MCompound => AtCompound
        | MNonAtomic => AtNon
        | _ => if opt_eqb (g_ws g) r then AtAtomic else at_
        end in
      match ev g f body inner pos rest with
      | POk p r' kids =>
          match m with
          | MSilent => POk p r' kids
          | MNormal | MAtomic =>
              POk p r' (if is_atomic at_ then [] else [Node r pos p (if is_atomic inner then [] else kids)])
          | MCompound | MNonAtomic => POk p r' [Node r pos p kids]
          end
      | x => x
      end
  end.
Proof. reflexivity. Qed.

Lemma ev_ref_anchored : forall start, top_anchored g start = true ->
  forall f at_ pos rest p r k, ev g f (PRef start) at_ pos rest = POk p r k -> r = [].
Proof.
  intros start Ha f at_ pos rest p r k H. unfold top_anchored in Ha.
  destruct f as [|f]; [discriminate H|]. rewrite ev_S_ref in H.
  destruct (lookup start (g_rules g)) as [[m body]|]; [|discriminate H].
  cbv zeta in H.
  match type of H with context [ev g f body ?a pos rest] =>
    destruct (ev g f body a pos rest) as [| |p1 r1 k1] eqn:E; try discriminate H end.
  assert (r1 = []) by (eapply ev_ends_eoi; eassumption). subst r1.
  destruct m; injection H as _ <- _; reflexivity.
Qed.

Strategy 1000 [ev].
(** If the start rule is anchored at end of input, a successful parse has consumed everything. *)
Theorem anchored_consumes_all : forall start, top_anchored g start = true ->
  forall input p r k, parse_from g start input = POk p r k -> r = [].
Proof.
  intros start Ha input p r k H.
  exact (ev_ref_anchored start Ha (peg_fuel input) AtNon 0 input p r k H).
Qed.
End G.
