(** The VARIANT gate of Model/GateVariant.v (proposed repair notes/C10-fix-2.patch, not applied): inside
    double quotes the alias-definition exemption is skipped.  For the other tags the variant IS the main
    function; for a double-quoted word the expansion is the reference denotation on a larger domain than
    [gate_ok] (a single quote among the literals is harmless: [gate_ok_dq]); the command-substitution
    exemptions still apply inside double quotes. *)
From Coq Require Import List NArith ZArith Bool Lia.
From Cicada Require Import Base.Chars Base.Tag Base.Regex Gen.ShellRegexes Model.Expand Model.ExpandRef
  Model.GateVariant Proofs.ExpandBasics Proofs.EnvProofs Proofs.ExpandOnceProofs.
Import ListNotations.
From Coq Require String. Import String.StringSyntax.
Local Open Scope N_scope.

(* ================================================================== 1: the variant gate against the gate *)
Lemma tagged_gate_unquoted t : env_in_tagged_token t false = env_in_token t.
Proof. reflexivity. Qed.

Lemma tagged_gate_mono t : env_in_token t = true -> env_in_tagged_token t true = true.
Proof.
  unfold env_in_token, env_in_tagged_token.
  destruct (rx_search rx_env_special t); [reflexivity|].
  destruct (negb (rx_search rx_env_name t)); [auto|].
  destruct (rx_search rx_env_sub1 t || rx_search rx_env_sub2 t || rx_search rx_env_sub3 t); auto.
Qed.

(* ================================================================== 2: the command-substitution exemptions *)
Lemma sub_exempt_off t :
  ~ In 40 t -> (~ In 61 t \/ ~ In 96 t) ->
  rx_search rx_env_sub1 t || rx_search rx_env_sub2 t || rx_search rx_env_sub3 t = false.
Proof.
  intros H40 H.
  assert (S1 : rx_search rx_env_sub1 t = false).
  { destruct (rx_search rx_env_sub1 t) eqn:E; [exfalso|reflexivity].
    pose proof (rx_search_requires 61 rx_env_sub1 t eq_refl E).
    pose proof (rx_search_requires 96 rx_env_sub1 t eq_refl E). tauto. }
  assert (S2 : rx_search rx_env_sub2 t = false).
  { destruct (rx_search rx_env_sub2 t) eqn:E; [exfalso|reflexivity].
    pose proof (rx_search_requires 40 rx_env_sub2 t eq_refl E). tauto. }
  assert (S3 : rx_search rx_env_sub3 t = false).
  { destruct (rx_search rx_env_sub3 t) eqn:E; [exfalso|reflexivity].
    pose proof (rx_search_requires 40 rx_env_sub3 t eq_refl E). tauto. }
  rewrite S1, S2, S3. reflexivity.
Qed.

Lemma tagged_gate_true_q t :
  rx_search rx_env_special t = true \/ rx_search rx_env_name t = true ->
  ~ In 40 t -> (~ In 61 t \/ ~ In 96 t) ->
  env_in_tagged_token t true = true.
Proof.
  intros H H40 Hx. pose proof (sub_exempt_off t H40 Hx) as E1.
  unfold env_in_tagged_token. rewrite E1.
  destruct (rx_search rx_env_special t); [reflexivity|].
  destruct H as [H|H]; [discriminate|]. rewrite H. reflexivity.
Qed.

(* ================================================================== 3: double-quoted words *)
(** the literal predicate for double-quoted words: a single quote is harmless *)
Definition okq (noeq : bool) (c : char) : bool :=
  negb (c =? 40) && (if noeq then negb (c =? 61) else negb (c =? 96)).
Definition lits_okq (noeq : bool) (ps : list piece) : bool :=
  forallb (fun p => match p with PLit c => okq noeq c | PRef _ _ => true end) ps.
Definition gate_ok_dq (ps : list piece) : bool := lits_okq true ps || lits_okq false ps.

(** the old domain is inside the new one *)
Lemma okg_okq noeq c : okg noeq c = true -> okq noeq c = true.
Proof.
  unfold okg, okq. destruct noeq; [auto|].
  destruct (negb (c =? 40)), (negb (c =? 96)); cbn; auto.
Qed.

Lemma lits_okg_okq noeq ps : lits_okg noeq ps = true -> lits_okq noeq ps = true.
Proof.
  unfold lits_okg, lits_okq. rewrite !forallb_forall. intros H p Hp. specialize (H p Hp).
  destruct p; [apply okg_okq; exact H | reflexivity].
Qed.

Lemma gate_ok_dq_of_gate_ok ps : gate_ok ps = true -> gate_ok_dq ps = true.
Proof.
  unfold gate_ok, gate_ok_dq. rewrite !orb_true_iff.
  intros [H|H]; [left|right]; apply lits_okg_okq; exact H.
Qed.

Lemma notin_render_q noeq (c : char) ps :
  wf_pieces ps = true -> lits_okq noeq ps = true ->
  okq noeq c = false -> is_alnum_us c = false ->
  c <> 36 -> c <> 63 -> c <> 123 -> c <> 125 ->
  ~ In c (render_pieces ps).
Proof.
  intros Hwf Hl Hok Ha H1 H2 H3 H4 Hin.
  destruct (in_render c ps Hwf Hin) as [H|[H|[H|[H|[H|H]]]]]; try congruence.
  unfold lits_okq in Hl. rewrite forallb_forall in Hl. apply Hl in H. congruence.
Qed.

Lemma render_clean_q noeq ps :
  wf_pieces ps = true -> lits_okq noeq ps = true ->
  ~ In 40 (render_pieces ps) /\
  (~ In 61 (render_pieces ps) \/ ~ In 96 (render_pieces ps)).
Proof.
  intros Hwf Hl. split.
  - apply (notin_render_q noeq); auto; try discriminate; destruct noeq; reflexivity.
  - destruct noeq.
    + left. apply (notin_render_q true); auto; try discriminate; reflexivity.
    + right. apply (notin_render_q false); auto; try discriminate; reflexivity.
Qed.

(** a rendering that holds a reference matches the special or the name pattern *)
Lemma ref_search a br k b :
  wf_pieces (a ++ PRef br k :: b) = true ->
  rx_search rx_env_special (render_pieces (a ++ PRef br k :: b)) = true \/
  rx_search rx_env_name (render_pieces (a ++ PRef br k :: b)) = true.
Proof.
  intros Hwf.
  pose proof (wf_ref_key _ _ _ (wf_app_r _ _ Hwf)) as Hk.
  rewrite render_app.
  destruct (wf_key_cases k Hk) as [H|[-> | ->]].
  - right. destruct k as [|n r]; [cbn in H; discriminate|].
    cbn [is_name] in H. apply andb_true_iff in H as [H _].
    destruct br.
    + rewrite render_br. cbn [app]. apply name_search_br. exact H.
    + rewrite render_ub. cbn [app]. apply name_search_ub. exact H.
  - left. destruct br.
    + rewrite render_br. cbn [app]. apply special_search_br. auto.
    + rewrite render_ub. cbn [app]. apply special_search_ub. auto.
  - left. destruct br.
    + rewrite render_br. cbn [app]. apply special_search_br. auto.
    + rewrite render_ub. cbn [app]. apply special_search_ub. auto.
Qed.

Theorem tagged_gate_true_dq : forall noeq ps,
  wf_pieces ps = true -> lits_okq noeq ps = true -> count_refs ps <> 0%nat ->
  env_in_tagged_token (render_pieces ps) true = true.
Proof.
  intros noeq ps Hwf Hl Hc.
  destruct (render_clean_q noeq ps Hwf Hl) as [H40 Hx].
  apply tagged_gate_true_q; [|exact H40|exact Hx].
  destruct (count_pos_split ps Hc) as (a & br & k & b & ->).
  apply ref_search. exact Hwf.
Qed.

(* ================================================================== 4: token level *)
Lemma tagged_gate_no_dollar t q : ~ In 36 t -> env_in_tagged_token t q = false.
Proof.
  intros H. unfold env_in_tagged_token.
  destruct (rx_search rx_env_special t) eqn:E1.
  { exfalso. apply H. apply (rx_search_requires 36 rx_env_special t); [reflexivity | exact E1]. }
  destruct (rx_search rx_env_name t) eqn:E2.
  { exfalso. apply H. apply (rx_search_requires 36 rx_env_name t); [reflexivity | exact E2]. }
  reflexivity.
Qed.

Lemma expand_env_tok_v_dq_noeq W noeq ps :
  wf_pieces ps = true -> lits_okq noeq ps = true ->
  expand_env_tok_v W (TDq, render_pieces ps) = (TDq, den_pieces W ps).
Proof.
  intros Hwf Hl. unfold expand_env_tok_v. cbn [fst snd tag_eqb].
  destruct (Nat.eq_dec (count_refs ps) 0) as [Hc|Hc].
  - destruct (render_no_refs W ps Hwf Hc) as [Hnd Hden].
    rewrite (tagged_gate_no_dollar _ true Hnd). rewrite Hden. reflexivity.
  - rewrite (tagged_gate_true_dq noeq ps Hwf Hl Hc).
    rewrite (once_is_den W ps Hwf). reflexivity.
Qed.

Theorem expand_env_tok_v_dq : forall W ps,
  wf_pieces ps = true -> gate_ok_dq ps = true ->
  expand_env_tok_v W (TDq, render_pieces ps) = (TDq, den_pieces W ps).
Proof.
  intros W ps Hwf Hg. unfold gate_ok_dq in Hg.
  apply orb_true_iff in Hg as [Hg|Hg]; eapply expand_env_tok_v_dq_noeq; eauto.
Qed.

Theorem expand_env_tok_v_other : forall W t, fst t <> TDq -> expand_env_tok_v W t = expand_env_tok W t.
Proof.
  intros W t H. unfold expand_env_tok_v, expand_env_tok.
  destruct (fst t) eqn:E; try reflexivity; try (exfalso; apply H; reflexivity);
    cbn [tag_eqb]; rewrite tagged_gate_unquoted; reflexivity.
Qed.

Lemma env_tok_v_eq W t : text_tok (env_sel_v W) t = expand_env_tok_v W t.
Proof.
  unfold text_tok, env_sel_v, expand_env_tok_v.
  destruct (fst t); try reflexivity;
    match goal with |- context [env_in_tagged_token ?a ?b] => destruct (env_in_tagged_token a b) end; reflexivity.
Qed.

Theorem expand_env_v_map : forall W toks, expand_env_v W toks = map (expand_env_tok_v W) toks.
Proof. intros W toks. unfold expand_env_v. rewrite text_pass_map. apply map_ext. apply env_tok_v_eq. Qed.

(* ================================================================== 5: examples *)
(** inside double quotes the alias-definition shape is expanded *)
Example gate_variant_dq_expands :
  expand_env_tok_v (world_of [([65], [118])] []) (TDq, s2l "x='$A'") = (TDq, s2l "x='v'").
Proof. vm_compute. reflexivity. Qed.

(** an untagged token of that shape is still exempt *)
Example gate_variant_untagged_keeps :
  expand_env_tok_v (world_of [([65], [118])] []) (TNone, s2l "x='$A'") = (TNone, s2l "x='$A'").
Proof. vm_compute. reflexivity. Qed.

(** the command-substitution exemptions still apply inside double quotes *)
Example gate_variant_subst_kept :
  expand_env_tok_v (world_of [([65], [118])] []) (TDq, s2l "$(echo $A)") = (TDq, s2l "$(echo $A)").
Proof. vm_compute. reflexivity. Qed.

Print Assumptions tagged_gate_unquoted.
Print Assumptions tagged_gate_mono.
Print Assumptions sub_exempt_off.
Print Assumptions tagged_gate_true_dq.
Print Assumptions expand_env_tok_v_dq.
Print Assumptions expand_env_tok_v_other.
Print Assumptions expand_env_v_map.
Print Assumptions gate_variant_dq_expands.
Print Assumptions gate_variant_untagged_keeps.
Print Assumptions gate_variant_subst_kept.
