(** C04, parsing theorem: every redirection spelling of the property, attached
    or spaced, between arbitrary pass-through argument tokens, is parsed by
    [tokens_to_redirections] / [from_tokens_core] (Model/Redirs.v) to exactly the
    triple the property names, the arguments coming out unchanged and in order. *)
From Coq Require Import Lia.
From Cicada Require Import Base.Chars Model.Redirs.
Local Open Scope N_scope.

(** ** Vocabulary *)

(** A file name that may be attached to the operator. *)
Definition plainword (w : str) : Prop :=
  w <> [] /\ contains_gt w = false /\ starts_with_amp w = false.

(** A token that passes through untouched: quoted/escaped, or free of [>]. *)
Definition plaintok (t : tok) : Prop := fst t <> [] \/ contains_gt (snd t) = false.

(** Side condition per spelling: attached names are plainwords; a spaced name
    is ANY word (even one containing [>]) unless it is unquoted and starts with [&]. *)
Definition rspec_ok (r : rspec) : Prop :=
  match r with
  | RFile _ _ Attached name => plainword name
  | RFile _ _ (Spaced sepf) name => sepf <> [] \/ starts_with_amp name = false
  | _ => True
  end.

Definition prepend (tn : list tok) (rd : list redir) (r : result) : result :=
  match r with RErr c => RErr c | ROk t r' => ROk (tn ++ t) (rd ++ r') end.

(** ** The loop: accumulators, irrelevance of stale s1/s2 *)

Lemma ttr_loop_acc : forall toks tn rd tbc a b,
  ttr_loop toks tn rd tbc a b = prepend tn rd (ttr_loop toks [] [] tbc a b).
Proof.
  induction toks as [|t toks IH]; intros.
  - cbn. destruct tbc; cbn; [reflexivity|]. now rewrite !app_nil_r.
  - cbn [ttr_loop]. destruct (ttr_step t tbc a b) as [c|pt pr tbc' a' b']; [reflexivity|].
    rewrite (IH (tn ++ pt) (rd ++ pr)), (IH ([] ++ pt) ([] ++ pr)). cbn [app].
    destruct (ttr_loop toks [] [] tbc' a' b'); cbn; [reflexivity|]. now rewrite !app_assoc.
Qed.

(** With [to_be_continued = false] the saved s1/s2 are only carried along. *)
Definition step_agree (r r' : step_res) : Prop :=
  match r, r' with
  | SErr c, SErr c' => c = c'
  | SNext pt pr tbc x y, SNext pt' pr' tbc' x' y' =>
      pt = pt' /\ pr = pr' /\ tbc = tbc' /\ (tbc = true -> x = x' /\ y = y')
  | _, _ => False
  end.

Lemma ttr_step_false_indep : forall t a b a' b',
  step_agree (ttr_step t false a b) (ttr_step t false a' b').
Proof.
  intros [sep w] a b a' b'. unfold ttr_step. cbn [fst snd].
  destruct (negb (is_empty sep) && negb false).
  { cbn. repeat split; congruence. }
  cbv iota. destruct (negb (contains_gt w)).
  { cbn. repeat split; congruence. }
  destruct (ptn1 w) as [[[s1 s2] s3]|].
  - destruct (starts_with_amp s3 && negb (str_eqb s3 s_amp1) && negb (str_eqb s3 s_amp2));
      [reflexivity|].
    destruct (all_digits s1).
    + destruct (negb (str_eqb s1 s_1) && negb (str_eqb s1 s_2)); cbn;
        [reflexivity | repeat split; congruence].
    + cbn. repeat split; congruence.
  - destruct (ptn2 w) as [[s1 s2]|]; cbn; repeat split; congruence.
Qed.

Lemma ttr_loop_false_indep : forall toks tn rd a b a' b',
  ttr_loop toks tn rd false a b = ttr_loop toks tn rd false a' b'.
Proof.
  induction toks as [|t toks IH]; intros; [reflexivity|].
  cbn [ttr_loop]. pose proof (ttr_step_false_indep t a b a' b') as H.
  destruct (ttr_step t false a b) as [c|pt pr tbc x y],
           (ttr_step t false a' b') as [c'|pt' pr' tbc' x' y']; cbn in H;
    try contradiction.
  - congruence.
  - destruct H as (-> & -> & -> & H). destruct tbc'.
    + destruct (H eq_refl) as [-> ->]. reflexivity.
    + apply IH.
Qed.

(** One token consumed at the head, leaving [to_be_continued = false]. *)
Lemma ttr_head : forall t rest pt pr a' b',
  ttr_step t false [] [] = SNext pt pr false a' b' ->
  tokens_to_redirections (t :: rest) = prepend pt pr (tokens_to_redirections rest).
Proof.
  intros t rest pt pr a' b' H. unfold tokens_to_redirections. cbn [ttr_loop].
  rewrite H. cbn [app]. rewrite ttr_loop_acc.
  now rewrite (ttr_loop_false_indep rest [] [] a' b' [] []).
Qed.

(** Two tokens: the first opens [to_be_continued], the second closes it. *)
Lemma ttr_head2 : forall t1 t2 rest x y pt pr a' b',
  ttr_step t1 false [] [] = SNext [] [] true x y ->
  ttr_step t2 true x y = SNext pt pr false a' b' ->
  tokens_to_redirections (t1 :: t2 :: rest) = prepend pt pr (tokens_to_redirections rest).
Proof.
  intros t1 t2 rest x y pt pr a' b' H1 H2. unfold tokens_to_redirections.
  cbn [ttr_loop]. rewrite H1. cbn [app ttr_loop]. rewrite H2. cbn [app].
  rewrite ttr_loop_acc.
  now rewrite (ttr_loop_false_indep rest [] [] a' b' [] []).
Qed.

(** ** Pass-through tokens *)

Lemma step_plain : forall t a b, plaintok t -> ttr_step t false a b = SNext [t] [] false a b.
Proof.
  intros [sep w] a b H. unfold ttr_step, plaintok in *. cbn [fst snd] in *.
  destruct sep as [|c sep].
  - destruct H as [H|H]; [contradiction|]. cbn. rewrite H. reflexivity.
  - reflexivity.
Qed.

Lemma prepend_prepend : forall a b c d r,
  prepend a b (prepend c d r) = prepend (a ++ c) (b ++ d) r.
Proof. intros. destruct r; cbn; [reflexivity|]. now rewrite !app_assoc. Qed.

Lemma ttr_app_plain : forall pre rest, Forall plaintok pre ->
  tokens_to_redirections (pre ++ rest) = prepend pre [] (tokens_to_redirections rest).
Proof.
  induction pre as [|t pre IH]; intros rest H.
  - cbn [app]. destruct (tokens_to_redirections rest); reflexivity.
  - inversion H as [|? ? Ht Hpre]; subst. cbn [app].
    rewrite (ttr_head t (pre ++ rest) [t] [] [] [] (step_plain t [] [] Ht)).
    rewrite (IH rest Hpre). now rewrite prepend_prepend.
Qed.

(** ** The capture functions on  prefix ++ op ++ name *)

Lemma contains_gt_app : forall a b, contains_gt (a ++ b) = contains_gt a || contains_gt b.
Proof. intros. unfold contains_gt. apply existsb_app. Qed.

Lemma span_app : forall d r, contains_gt d = false ->
  span_not_gt (d ++ 62 :: r) = (d, 62 :: r).
Proof.
  induction d as [|c d IH]; intros r H; [reflexivity|].
  cbn in H. apply orb_false_iff in H as [Hc Hd].
  cbn [app span_not_gt]. rewrite Hc. rewrite (IH r Hd). reflexivity.
Qed.

Lemma plainword_cons : forall f, plainword f ->
  exists c f', f = c :: f' /\ (c =? 62) = false /\ (c =? 38) = false /\ contains_gt f' = false.
Proof.
  intros [|c f'] (Hne & Hgt & Hamp); [contradiction|].
  cbn in Hgt, Hamp. apply orb_false_iff in Hgt as [H1 H2]. eauto 8.
Qed.

Lemma ptn1_gt : forall d f, contains_gt d = false -> plainword f ->
  ptn1 (d ++ s_gt ++ f) = Some (d, s_gt, f).
Proof.
  intros d f Hd Hf. destruct (plainword_cons f Hf) as (c & f' & -> & Hc & _ & Hf').
  unfold ptn1, s_gt. cbn [app]. rewrite (span_app d _ Hd). cbn [fst snd].
  rewrite Hc. cbn [contains_gt existsb]. rewrite Hc.
  change (existsb (fun c0 => c0 =? 62) f') with (contains_gt f'). rewrite Hf'. reflexivity.
Qed.

Lemma ptn1_gtgt : forall d f, contains_gt d = false -> plainword f ->
  ptn1 (d ++ s_gtgt ++ f) = Some (d, s_gtgt, f).
Proof.
  intros d f Hd Hf. destruct Hf as (Hne & Hgt & _).
  unfold ptn1, s_gtgt. cbn [app]. rewrite (span_app d _ Hd). cbn [fst snd].
  rewrite N.eqb_refl, Hgt. destruct f; [contradiction|reflexivity].
Qed.

Lemma ptn1_open_gt : forall d, contains_gt d = false -> ptn1 (d ++ s_gt) = None.
Proof. intros d Hd. unfold ptn1, s_gt. rewrite (span_app d _ Hd). reflexivity. Qed.

Lemma ptn1_open_gtgt : forall d, contains_gt d = false -> ptn1 (d ++ s_gtgt) = None.
Proof. intros d Hd. unfold ptn1, s_gtgt. rewrite (span_app d _ Hd). reflexivity. Qed.

Lemma ptn2_open_gt : forall d, contains_gt d = false -> ptn2 (d ++ s_gt) = Some (d, s_gt).
Proof. intros d Hd. unfold ptn2, s_gt. rewrite (span_app d _ Hd). reflexivity. Qed.

Lemma ptn2_open_gtgt : forall d, contains_gt d = false -> ptn2 (d ++ s_gtgt) = Some (d, s_gtgt).
Proof. intros d Hd. unfold ptn2, s_gtgt. rewrite (span_app d _ Hd). reflexivity. Qed.

Lemma gts_cases : forall ap, gts ap = s_gt \/ gts ap = s_gtgt.
Proof. destruct ap; cbn; auto. Qed.

Lemma contains_gt_gts : forall ap, contains_gt (gts ap) = true.
Proof. destruct ap; reflexivity. Qed.

Lemma ptn1_op : forall d ap f, contains_gt d = false -> plainword f ->
  ptn1 (d ++ gts ap ++ f) = Some (d, gts ap, f).
Proof. intros d [] f; cbn [gts]; [apply ptn1_gtgt | apply ptn1_gt]. Qed.

Lemma ptn1_open : forall d ap, contains_gt d = false -> ptn1 (d ++ gts ap) = None.
Proof. intros d []; cbn [gts]; [apply ptn1_open_gtgt | apply ptn1_open_gt]. Qed.

Lemma ptn2_open : forall d ap, contains_gt d = false -> ptn2 (d ++ gts ap) = Some (d, gts ap).
Proof. intros d []; cbn [gts]; [apply ptn2_open_gtgt | apply ptn2_open_gt]. Qed.

(** ** One iteration on each spelling (any prefix [d] free of [>]) *)

(** What the code does with captured (s1, s2, s3) once s3 is acceptable. *)
Definition classify_push (sep d g f : str) (code : nat) (tbc : bool) (a b : str) : step_res :=
  if all_digits d then
    if negb (str_eqb d s_1) && negb (str_eqb d s_2) then SErr code
    else SNext [] [(d, g, f)] tbc a b
  else SNext (if negb (is_empty d) then [(sep, d)] else []) [(s_1, g, f)] tbc a b.

Lemma step_attached_gen : forall d ap f a b, contains_gt d = false -> plainword f ->
  ttr_step ([], d ++ gts ap ++ f) false a b = classify_push [] d (gts ap) f 4 false a b.
Proof.
  intros d ap f a b Hd Hf. unfold ttr_step. cbn [fst snd is_empty negb andb].
  assert (Hc : contains_gt (d ++ gts ap ++ f) = true).
  { rewrite !contains_gt_app, contains_gt_gts. now rewrite orb_true_r. }
  rewrite Hc. cbn [negb]. rewrite (ptn1_op d ap f Hd Hf).
  destruct Hf as (_ & _ & Hamp). rewrite Hamp. reflexivity.
Qed.

Lemma step_open_gen : forall d ap a b, contains_gt d = false ->
  ttr_step ([], d ++ gts ap) false a b = SNext [] [] true d (gts ap).
Proof.
  intros d ap a b Hd. unfold ttr_step. cbn [fst snd is_empty negb andb].
  assert (Hc : contains_gt (d ++ gts ap) = true).
  { rewrite contains_gt_app, contains_gt_gts. now rewrite orb_true_r. }
  rewrite Hc. cbn [negb]. rewrite (ptn1_open d ap Hd), (ptn2_open d ap Hd). reflexivity.
Qed.

Lemma step_close_gen : forall sepf f d g, (sepf <> [] \/ starts_with_amp f = false) ->
  ttr_step (sepf, f) true d g = classify_push sepf d g f 2 false d g.
Proof.
  intros sepf f d g H. unfold ttr_step. cbn [fst snd negb andb].
  rewrite andb_false_r.
  assert (Hc : is_empty sepf && starts_with_amp f = false).
  { destruct H as [H|H]; [destruct sepf; [contradiction|reflexivity]|].
    rewrite H. apply andb_false_r. }
  rewrite Hc. reflexivity.
Qed.

Lemma fd_prefix_no_gt : forall fd, contains_gt (fd_prefix fd) = false.
Proof. destruct fd; reflexivity. Qed.

Lemma classify_fd : forall sep fd g f code tbc a b,
  classify_push sep (fd_prefix fd) g f code tbc a b = SNext [] [(fd_name fd, g, f)] tbc a b.
Proof. destruct fd; reflexivity. Qed.

(** ** Per-spelling lemmas, head position *)

(** >f  >>f  1>f  1>>f  2>f  2>>f *)
Lemma ttr_attached : forall fd ap f rest, plainword f ->
  tokens_to_redirections (([], op_word fd ap ++ f) :: rest)
  = prepend [] [(fd_name fd, gts ap, f)] (tokens_to_redirections rest).
Proof.
  intros fd ap f rest Hf. eapply ttr_head. unfold op_word. rewrite <- app_assoc.
  rewrite (step_attached_gen _ ap f [] [] (fd_prefix_no_gt fd) Hf). apply classify_fd.
Qed.

(** > f  >> f  1> f  1>> f  2> f  2>> f   (the name token with any separator) *)
Lemma ttr_spaced : forall fd ap sepf f rest, (sepf <> [] \/ starts_with_amp f = false) ->
  tokens_to_redirections (([], op_word fd ap) :: (sepf, f) :: rest)
  = prepend [] [(fd_name fd, gts ap, f)] (tokens_to_redirections rest).
Proof.
  intros fd ap sepf f rest H. eapply ttr_head2.
  - unfold op_word. apply (step_open_gen _ ap [] [] (fd_prefix_no_gt fd)).
  - rewrite (step_close_gen sepf f _ _ H). apply classify_fd.
Qed.

(** 2>&1 *)
Lemma ttr_dup21 : forall rest,
  tokens_to_redirections (([], s_2 ++ s_gt ++ s_amp1) :: rest)
  = prepend [] [(s_2, s_gt, s_amp1)] (tokens_to_redirections rest).
Proof. intros. eapply ttr_head. vm_compute. reflexivity. Qed.

(** 1>&2 *)
Lemma ttr_dup12 : forall rest,
  tokens_to_redirections (([], s_1 ++ s_gt ++ s_amp2) :: rest)
  = prepend [] [(s_1, s_gt, s_amp2)] (tokens_to_redirections rest).
Proof. intros. eapply ttr_head. vm_compute. reflexivity. Qed.

(** >&2 *)
Lemma ttr_dup12short : forall rest,
  tokens_to_redirections (([], s_gt ++ s_amp2) :: rest)
  = prepend [] [(s_1, s_gt, s_amp2)] (tokens_to_redirections rest).
Proof. intros. eapply ttr_head. vm_compute. reflexivity. Qed.

(** All spellings at once. *)
Lemma ttr_rspec : forall r rest, rspec_ok r ->
  tokens_to_redirections (render_r r ++ rest)
  = prepend [] [triple r] (tokens_to_redirections rest).
Proof.
  intros [fd ap [|sepf] name| | |] rest H; cbn [render_r triple app].
  - apply ttr_attached. exact H.
  - apply ttr_spaced. exact H.
  - apply ttr_dup21.
  - apply ttr_dup12.
  - apply ttr_dup12short.
Qed.

(** ** The parsing theorem for [tokens_to_redirections] *)

Definition item_ok (it : item) : Prop := Forall plaintok (fst it) /\ rspec_ok (snd it).

Theorem C04_parse : forall (items : list item) (last : list tok),
  Forall item_ok items -> Forall plaintok last ->
  tokens_to_redirections (render items last)
  = ROk (flat_map fst items ++ last) (map (fun it => triple (snd it)) items).
Proof.
  unfold render. induction items as [|[args r] items IH]; intros last Hi Hl.
  - cbn [flat_map map app]. rewrite <- (app_nil_r last) at 1.
    rewrite (ttr_app_plain last [] Hl). cbn. now rewrite app_nil_r.
  - inversion Hi as [|? ? [Ha Hr] Hi']; subst. cbn [fst snd] in Ha, Hr.
    cbn [flat_map map fst snd]. rewrite <- !app_assoc.
    rewrite (ttr_app_plain args _ Ha). rewrite (ttr_rspec r _ Hr).
    rewrite (IH last Hi' Hl). cbn. reflexivity.
Qed.

(** ** [Command::from_tokens_core]: the input redirections *)

Definition no_from (l : list tok) : Prop := existsb is_from_tok l = false.

Definition set_from (fr : option (str * str)) (r : result2) : result2 :=
  match r with R2Ok t rd _ => R2Ok t rd fr | x => x end.

Lemma no_from_word : forall l, no_from l ->
  existsb (word_is s_lt) l = false /\ existsb (word_is s_lt3) l = false.
Proof.
  unfold no_from. induction l as [|t l IH]; intro H; [split; reflexivity|].
  cbn [existsb] in *. apply orb_false_iff in H as [Ht Hl].
  unfold is_from_tok in Ht. apply orb_false_iff in Ht as [H1 H2].
  destruct (IH Hl) as [I1 I2]. rewrite H1, H2, I1, I2. split; reflexivity.
Qed.

Lemma position_none : forall A (p : A -> bool) l, existsb p l = false -> position p l = None.
Proof.
  induction l as [|x l IH]; intro H; [reflexivity|].
  cbn in *. apply orb_false_iff in H as [Hx Hl]. rewrite Hx, (IH Hl). reflexivity.
Qed.

Lemma position_app : forall A (p : A -> bool) pre x r, existsb p pre = false -> p x = true ->
  position p (pre ++ x :: r) = Some (length pre).
Proof.
  induction pre as [|y pre IH]; intros x r H Hx; cbn.
  - rewrite Hx. reflexivity.
  - cbn in H. apply orb_false_iff in H as [Hy Hp]. rewrite Hy, (IH x r Hp Hx). reflexivity.
Qed.

Lemma vec_remove_app : forall A (pre : list A) x r,
  vec_remove (length pre) (pre ++ x :: r) = Some (x, pre ++ r).
Proof.
  induction pre as [|y pre IH]; intros; cbn; [reflexivity|]. rewrite IH. reflexivity.
Qed.

Lemma take_from_miss : forall op l n ty val, existsb (word_is op) l = false ->
  take_from op (l, n, ty, val) = Some (l, n, ty, val).
Proof. intros. unfold take_from. rewrite (position_none _ _ _ H). reflexivity. Qed.

Lemma take_from_hit : forall op pre s2 f post ty val,
  existsb (word_is op) pre = false ->
  take_from op (pre ++ ([], op) :: (s2, f) :: post,
                length (pre ++ ([], op) :: (s2, f) :: post), ty, val)
  = Some (pre ++ post, length (pre ++ post), op, f).
Proof.
  intros op pre s2 f post ty val H. unfold take_from.
  rewrite (position_app _ (word_is op) pre ([], op) _ H)
    by (unfold word_is; cbn [fst snd]; apply str_eqb_refl).
  rewrite vec_remove_app.
  assert (L : Nat.ltb (length pre) (Nat.sub (length (pre ++ ([], op) :: (s2, f) :: post)) 1) = true).
  { apply PeanoNat.Nat.ltb_lt. rewrite app_length. cbn [length]. lia. }
  rewrite L. rewrite vec_remove_app. cbn [snd].
  replace (Nat.sub (Nat.sub (length (pre ++ ([], op) :: (s2, f) :: post)) 1) 1)
    with (length (pre ++ post)); [reflexivity|].
  rewrite !app_length. cbn [length]. lia.
Qed.

Lemma ft_while_false : forall fuel s, ft_while fuel false s = FDone s.
Proof. destruct fuel; reflexivity. Qed.

Lemma no_from_app : forall a b, no_from a -> no_from b -> no_from (a ++ b).
Proof. unfold no_from. intros. rewrite existsb_app, H, H0. reflexivity. Qed.

Lemma from_tokens_none : forall l, no_from l ->
  from_tokens_core l = match tokens_to_redirections l with
                  | RErr e => R2Err e | ROk t rd => R2Ok t rd None end.
Proof.
  intros l H. unfold from_tokens_core. rewrite H. rewrite ft_while_false. reflexivity.
Qed.

(** cmd ... < f ...   (any separators, any f - even f = [<]) *)
Theorem C04_parse_from_lt : forall pre post s2 f, no_from pre -> no_from post ->
  from_tokens_core (pre ++ [([], s_lt); (s2, f)] ++ post)
  = set_from (Some (s_lt, f)) (from_tokens_core (pre ++ post)).
Proof.
  intros pre post s2 f Hpre Hpost. cbn [app].
  rewrite (from_tokens_none (pre ++ post) (no_from_app _ _ Hpre Hpost)).
  destruct (no_from_word pre Hpre) as [P1 P3], (no_from_word post Hpost) as [Q1 Q3].
  unfold from_tokens_core.
  assert (E : existsb is_from_tok (pre ++ ([], s_lt) :: (s2, f) :: post) = true).
  { rewrite existsb_app. cbn. now rewrite orb_true_r. }
  rewrite E. cbn [ft_while negb]. rewrite take_from_hit by exact P1.
  rewrite take_from_miss by (rewrite existsb_app, P3, Q3; reflexivity).
  cbn [fst]. rewrite (no_from_app _ _ Hpre Hpost). rewrite ft_while_false.
  destruct (tokens_to_redirections (pre ++ post)); reflexivity.
Qed.

(** cmd ... <<< f ...  for every f other than the one-character word [<]
    (that word is taken for an input operator whatever its quoting). *)
Theorem C04_parse_from_lt3 : forall pre post s2 f, no_from pre -> no_from post ->
  f <> s_lt ->
  from_tokens_core (pre ++ [([], s_lt3); (s2, f)] ++ post)
  = set_from (Some (s_lt3, f)) (from_tokens_core (pre ++ post)).
Proof.
  intros pre post s2 f Hpre Hpost Hf. cbn [app].
  rewrite (from_tokens_none (pre ++ post) (no_from_app _ _ Hpre Hpost)).
  destruct (no_from_word pre Hpre) as [P1 P3], (no_from_word post Hpost) as [Q1 Q3].
  unfold from_tokens_core.
  assert (E : existsb is_from_tok (pre ++ ([], s_lt3) :: (s2, f) :: post) = true).
  { rewrite existsb_app. cbn. now rewrite orb_true_r. }
  rewrite E. cbn [ft_while negb].
  rewrite take_from_miss.
  2:{ rewrite existsb_app, P1. cbn [existsb orb]. rewrite Q1.
      unfold word_is at 2. cbn [fst snd]. apply str_eqb_neq in Hf. destruct s2; [rewrite Hf|]; reflexivity. }
  rewrite take_from_hit by exact P3.
  cbn [fst]. rewrite (no_from_app _ _ Hpre Hpost). rewrite ft_while_false.
  destruct (tokens_to_redirections (pre ++ post)); reflexivity.
Qed.

(** Both input spellings in one statement. *)
Theorem C04_parse_from : forall op pre post s2 f,
  (op = s_lt \/ (op = s_lt3 /\ f <> s_lt)) -> no_from pre -> no_from post ->
  from_tokens_core (pre ++ [([], op); (s2, f)] ++ post)
  = set_from (Some (op, f)) (from_tokens_core (pre ++ post)).
Proof.
  intros op pre post s2 f [->|[-> Hf]] Hpre Hpost.
  - now apply C04_parse_from_lt.
  - now apply C04_parse_from_lt3.
Qed.

(** [from_tokens_core] on a command without input redirection = C04_parse;
    the fuel is never exhausted and [Vec::remove] never panics there. *)
Theorem C04_parse_cmd : forall items last,
  Forall item_ok items -> Forall plaintok last -> no_from (render items last) ->
  from_tokens_core (render items last)
  = R2Ok (flat_map fst items ++ last) (map (fun it => triple (snd it)) items) None.
Proof.
  intros items last Hi Hl Hn. rewrite (from_tokens_none _ Hn).
  now rewrite (C04_parse items last Hi Hl).
Qed.

(* Print Assumptions C04_parse.  Print Assumptions C04_parse_from.  Print Assumptions C04_parse_cmd. *)

(** ** /repo 543507e: the attached spelling [<file]; [from_tokens] = split, then [from_tokens_core] *)
Lemma flat_map_split_id : forall l, Forall (fun t => split_lt t = [t]) l -> flat_map split_lt l = l.
Proof.
  induction l as [|t r IH]; intros H; [reflexivity|]. inversion H; subst. cbn [flat_map]. rewrite H2, IH; auto.
Qed.

Theorem C04_parse_from_attached : forall pre post c r,
  c <> 60%N ->
  no_from pre -> no_from post ->
  Forall (fun t => split_lt t = [t]) pre -> Forall (fun t => split_lt t = [t]) post ->
  from_tokens (pre ++ [([], 60%N :: c :: r)] ++ post)
  = set_from (Some (s_lt, c :: r)) (from_tokens_core (pre ++ post)).
Proof.
  intros pre post c r Hc Hpre Hpost Fpre Fpost. unfold from_tokens.
  rewrite flat_map_app. cbn [app flat_map]. rewrite (flat_map_split_id pre Fpre), (flat_map_split_id post Fpost).
  unfold split_lt at 1. cbn [fst snd].
  rewrite N.eqb_refl. apply N.eqb_neq in Hc. rewrite Hc. cbn [negb andb app].
  apply (C04_parse_from_lt pre post [] (c :: r) Hpre Hpost).
Qed.

(** the spaced spellings, for the function as it is now: nothing around is itself an attached form *)
Theorem C04_parse_from_spaced : forall op pre post s2 f,
  (op = s_lt \/ (op = s_lt3 /\ f <> s_lt)) -> no_from pre -> no_from post ->
  Forall (fun t => split_lt t = [t]) pre -> Forall (fun t => split_lt t = [t]) post ->
  split_lt (s2, f) = [(s2, f)] ->
  from_tokens (pre ++ [([], op); (s2, f)] ++ post)
  = set_from (Some (op, f)) (from_tokens (pre ++ post)).
Proof.
  intros op pre post s2 f Hop Hpre Hpost Fpre Fpost Ff. unfold from_tokens.
  assert (Fall : Forall (fun t => split_lt t = [t]) (pre ++ [([], op); (s2, f)] ++ post)).
  { apply Forall_app. split; [exact Fpre|]. constructor; [|constructor; [exact Ff | exact Fpost]].
    destruct Hop as [->|[-> _]]; reflexivity. }
  rewrite (flat_map_split_id _ Fall).
  rewrite (flat_map_split_id (pre ++ post)) by (apply Forall_app; split; assumption).
  apply C04_parse_from; assumption.
Qed.

Theorem C04_parse_from_attached_now : forall pre post c r,
  c <> 60%N ->
  no_from pre -> no_from post ->
  Forall (fun t => split_lt t = [t]) pre -> Forall (fun t => split_lt t = [t]) post ->
  from_tokens (pre ++ [([], 60%N :: c :: r)] ++ post)
  = set_from (Some (s_lt, c :: r)) (from_tokens (pre ++ post)).
Proof.
  intros pre post c r Hc Hpre Hpost Fpre Fpost.
  rewrite (C04_parse_from_attached pre post c r Hc Hpre Hpost Fpre Fpost).
  unfold from_tokens at 1. rewrite (flat_map_split_id (pre ++ post)) by (apply Forall_app; split; assumption).
  reflexivity.
Qed.
