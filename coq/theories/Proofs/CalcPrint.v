(** The PEG model inverts printing: every well-formed pair list, printed with
    a fixed blank string [sp] (any number of blanks / tabs, possibly none)
    between all tokens, inside parentheses and around the line, is parsed back
    to exactly that pair list. Leaves must be literals the [num] rule reads
    back whole ([leaf_ok]); integer literals are shown to be such. *)
From Coq Require Import Lia.
From Cicada Require Import Base.Chars Model.Calc Proofs.CalcPratt Proofs.CalcWf.
Local Open Scope N_scope.

Definition is_blankc (c : char) : bool := (c =? 32) || (c =? 9).
Definition starts_nb (x : str) : bool := match x with c :: _ => negb (is_blankc c) | [] => false end.
(** the next character does not continue a number *)
Definition nf (rest : str) : bool :=
  match rest with
  | [] => true
  | c :: _ => negb (is_digit c || (c =? 46) || (c =? 101) || (c =? 69))
  end.

Definition leaf_ok (s : str) : Prop :=
  starts_nb s = true /\ forall rest, nf rest = true -> p_num (s ++ rest) = Some (s, rest).

Definition op_char (o : op) : char :=
  match o with Add => 43 | Sub => 45 | Mul => 42 | Div => 47 | Pow => 94 end.

Lemma skip_blank sp x : forallb is_blankc sp = true -> skip_ws (sp ++ x) = skip_ws x.
Proof.
  induction sp as [|c r IH]; [reflexivity|]. cbn [forallb app skip_ws]. intros H.
  apply andb_true_iff in H as [Hc Hr]. unfold is_blankc in Hc. rewrite Hc. exact (IH Hr).
Qed.

Lemma skip_nb x : starts_nb x = true -> skip_ws x = x.
Proof.
  destruct x as [|c r]; [discriminate|]. cbn. unfold is_blankc. intros H.
  apply negb_true_iff in H. rewrite H. reflexivity.
Qed.

Lemma skip_idem x : skip_ws (skip_ws x) = skip_ws x.
Proof.
  induction x as [|c r IH]; [reflexivity|]. cbn [skip_ws].
  destruct ((c =? 32) || (c =? 9)) eqn:E; [exact IH|]. cbn [skip_ws]. rewrite E. reflexivity.
Qed.

Lemma starts_nb_app x y : starts_nb x = true -> starts_nb (x ++ y) = true.
Proof. destruct x; [discriminate|]. auto. Qed.

Lemma nf_blank sp y : forallb is_blankc sp = true -> nf y = true -> nf (sp ++ y) = true.
Proof.
  destruct sp as [|c r]; [auto|]. cbn [forallb app nf]. intros H _.
  apply andb_true_iff in H as [Hc _]. unfold is_blankc in Hc.
  apply orb_true_iff in Hc as [Hc|Hc]; apply N.eqb_eq in Hc; subst c; reflexivity.
Qed.

Lemma p_op_char o x : p_op (op_char o :: x) = Some (o, x).
Proof. destruct o; reflexivity. Qed.

Lemma nf_op o x : nf (op_char o :: x) = true.
Proof. destruct o; reflexivity. Qed.

Section Print.
  Variable sp : str.
  Hypothesis sp_blank : forallb is_blankc sp = true.

  Fixpoint str_pair (p : pair str) : str :=
    match p with
    | PNum s => s
    | POp o => [op_char o]
    | PExpr inner =>
      40 :: sp ++
      match inner with
      | [] => []
      | x :: r => str_pair x ++
                  (fix go (l : list (pair str)) : str :=
                     match l with [] => [] | y :: r' => sp ++ str_pair y ++ go r' end) r
      end ++ sp ++ [41]
    end.
  Fixpoint str_tail (l : list (pair str)) : str :=
    match l with [] => [] | y :: r => sp ++ str_pair y ++ str_tail r end.
  Definition str_seq (l : list (pair str)) : str :=
    match l with [] => [] | x :: r => str_pair x ++ str_tail r end.

  Lemma go_tail r :
    (fix go (l : list (pair str)) : str :=
       match l with [] => [] | y :: r' => sp ++ str_pair y ++ go r' end) r = str_tail r.
  Proof. induction r as [|y r IH]; [reflexivity|]. cbn [str_tail]. rewrite <- IH. reflexivity. Qed.

  Lemma str_pair_expr inner : str_pair (PExpr inner) = 40 :: sp ++ str_seq inner ++ sp ++ [41].
  Proof.
    destruct inner as [|x r]; [reflexivity|]. cbn [str_pair str_seq]. rewrite go_tail. reflexivity.
  Qed.

  Lemma p_num_lparen x : p_num (40 :: x) = None.
  Proof. reflexivity. Qed.

  Definition stop_rest (rest : str) : Prop := nf rest = true /\ p_op (skip_ws rest) = None.

  (** what is proved of a term, a sequence, a tail *)
  Definition PT (t : pair str) : Prop :=
    starts_nb (str_pair t) = true /\ (psize t <= length (str_pair t))%nat /\
    forall rest f, nf rest = true -> (4 * psize t <= f)%nat ->
      p_term f (str_pair t ++ rest) = POk (t, rest).
  Definition PR (tl : list (pair str)) : Prop :=
    (tot tl <= length (str_tail tl))%nat /\
    (forall rest, nf rest = true -> nf (str_tail tl ++ rest) = true) /\
    forall acc rest f, stop_rest rest -> (4 * tot tl + 2 <= f)%nat ->
      p_rep f acc (str_tail tl ++ rest) = POk (acc ++ tl, rest).
  Definition PR' (tl : list (pair str)) : Prop :=
    PR tl /\ forall o t' tl', tl = POp o :: t' :: tl' -> PT t' /\ PR tl'.
  Definition PE (ps : list (pair str)) : Prop :=
    ps <> [] /\ starts_nb (str_seq ps) = true /\ (tot ps <= length (str_seq ps))%nat /\
    forall rest f, stop_rest rest -> (4 * tot ps + 3 <= f)%nat ->
      exists pos, p_expr f (str_seq ps ++ rest) = POk (ps, pos) /\ skip_ws pos = skip_ws rest.

  (** one iteration: operator, blanks, term *)
  Lemma iter_ok o t more f :
    PT t -> nf more = true -> (4 * psize t + 1 <= f)%nat ->
    p_iter f (op_char o :: sp ++ str_pair t ++ more) = POk (o, t, more).
  Proof.
    intros (Hnb & _ & Ht) Hm Hf. destruct f as [|f1]; [lia|]. rewrite p_iter_S, p_op_char.
    rewrite skip_blank by exact sp_blank. rewrite skip_nb by (apply starts_nb_app; exact Hnb).
    rewrite Ht; [reflexivity|exact Hm|lia].
  Qed.

  Lemma print_parse_mut :
    (forall t, wf_term leaf_ok t -> PT t) /\
    (forall ps, wf_seq leaf_ok ps -> PE ps) /\
    (forall tl, wf_tail leaf_ok tl -> PR' tl).
  Proof.
    apply wf_mutind.
    - (* a literal *)
      intros s [Hnb Hs]. split; [exact Hnb|]. split.
      { destruct s; [discriminate|]. cbn. lia. }
      intros rest f Hr Hf. destruct f as [|f]; [cbn in Hf; lia|]. rewrite p_term_S.
      cbn [str_pair]. rewrite (Hs rest Hr). reflexivity.
    - (* a parenthesised expression *)
      intros inner _ (Hne & Hnb & Hlen & He). split; [reflexivity|]. split.
      { rewrite str_pair_expr, psize_expr. cbn [length]. rewrite !app_length. lia. }
      intros rest f Hr Hf. rewrite psize_expr in Hf. destruct f as [|f]; [lia|].
      rewrite p_term_S, str_pair_expr. cbn [app]. rewrite p_num_lparen.
      cbn [N.eqb Pos.eqb]. rewrite <- !app_assoc. rewrite skip_blank by exact sp_blank.
      rewrite skip_nb by (apply starts_nb_app; exact Hnb).
      match goal with |- context [p_expr f (str_seq inner ++ ?r)] => destruct (He r f) as (pos & E & Hp) end.
      { split; [apply nf_blank; [exact sp_blank|reflexivity]|].
        rewrite skip_blank by exact sp_blank. reflexivity. }
      { lia. }
      rewrite E. cbn [pbind]. rewrite Hp, skip_blank by exact sp_blank. reflexivity.
    - (* a sequence *)
      intros t tl _ (Hnb & Hlt & Ht) Htl ((Hlr & Hnfr & Hr) & Hsub).
      split; [discriminate|]. split; [cbn [str_seq]; apply starts_nb_app; exact Hnb|]. split.
      { cbn [str_seq tot]. rewrite app_length. lia. }
      intros rest f (Hnf & Hstop) Hf. cbn [str_seq tot] in *. rewrite <- app_assoc.
      destruct f as [|f]; [lia|]. rewrite p_expr_S.
      rewrite Ht; [|apply Hnfr; exact Hnf|lia]. cbn [pbind].
      destruct Htl as [|o t' tl' Ht' Htl'].
      + (* no operator follows *)
        cbn [str_tail app]. destruct f as [|f1]; [lia|]. rewrite p_iter_S, Hstop.
        eexists. split; [reflexivity|]. apply skip_idem.
      + destruct (Hsub o t' tl' eq_refl) as (PTt' & (Hlr' & Hnfr' & Hr')).
        cbn [str_tail str_pair tot psize] in *. rewrite <- !app_assoc. cbn [app].
        rewrite skip_blank by exact sp_blank. rewrite skip_nb by (destruct o; reflexivity).
        rewrite (iter_ok o t' (str_tail tl' ++ rest) f PTt'); [|apply Hnfr'; exact Hnf|lia].
        rewrite Hr'; [|split; assumption|lia].
        eexists. split; [reflexivity|reflexivity].
    - (* the empty tail *)
      split; [|intros; discriminate]. split; [cbn; lia|]. split; [auto|].
      intros acc rest f (Hnf & Hstop) Hf. cbn [str_tail app tot] in *.
      destruct f as [|f]; [lia|]. rewrite p_rep_S. destruct f as [|f1]; [lia|].
      rewrite p_iter_S, Hstop. rewrite app_nil_r. reflexivity.
    - (* operator, term, tail *)
      intros o t tl _ PTt _ (PRtl & _). split; [|intros o0 t0 tl0 E; injection E as <- <- <-; split; assumption].
      destruct PTt as (Hnb & Hlt & Ht). destruct PRtl as (Hlr & Hnfr & Hr).
      split; [cbn [str_tail str_pair tot psize]; rewrite !app_length; cbn [length]; lia|].
      split.
      { intros rest Hnf. cbn [str_tail str_pair]. rewrite <- !app_assoc. apply nf_blank; [exact sp_blank|]. cbn [app]. apply nf_op. }
      intros acc rest f (Hnf & Hstop) Hf. cbn [str_tail str_pair tot psize] in *.
      rewrite <- !app_assoc. cbn [app]. destruct f as [|f]; [lia|]. rewrite p_rep_S.
      rewrite skip_blank by exact sp_blank. rewrite skip_nb by (destruct o; reflexivity).
      rewrite (iter_ok o t (str_tail tl ++ rest) f (conj Hnb (conj Hlt Ht))); [|apply Hnfr; exact Hnf|lia].
      rewrite Hr; [|split; assumption|lia].
      rewrite <- app_assoc. reflexivity.
  Qed.

  (** a whole line: blanks, the expression, blanks *)
  Theorem parse_print ps :
    wf_seq leaf_ok ps -> parse_calc (sp ++ str_seq ps ++ sp) = POk ps.
  Proof.
    intros Hw. destruct (proj1 (proj2 print_parse_mut) ps Hw) as (_ & Hnb & Hlen & He).
    unfold parse_calc. rewrite skip_blank by exact sp_blank.
    rewrite skip_nb by (apply starts_nb_app; exact Hnb).
    destruct (He sp (parse_fuel (sp ++ str_seq ps ++ sp))) as (pos & E & Hp).
    { split; [rewrite <- (app_nil_r sp); apply nf_blank; [exact sp_blank|reflexivity]|].
      rewrite <- (app_nil_r sp), skip_blank by exact sp_blank. reflexivity. }
    { unfold parse_fuel. rewrite !app_length. lia. }
    rewrite E. cbn [pbind]. rewrite Hp. rewrite <- (app_nil_r sp), skip_blank by exact sp_blank. reflexivity.
  Qed.
End Print.

(* ------------------------------------------------------------------ *)
(** * Integer literals are read back whole *)

Lemma take_digits_app ds rest :
  forallb is_digit ds = true -> (match rest with [] => true | c :: _ => negb (is_digit c) end) = true ->
  take_digits (ds ++ rest) = (ds, rest).
Proof.
  intros Hd Hr. induction ds as [|c r IH].
  - cbn [app]. destruct rest as [|c r]; [reflexivity|]. cbn. apply negb_true_iff in Hr. rewrite Hr. reflexivity.
  - cbn [forallb] in Hd. apply andb_true_iff in Hd as [Hc Hd]. cbn [app take_digits]. rewrite Hc, (IH Hd). reflexivity.
Qed.

Lemma nf_not_digit rest : nf rest = true -> (match rest with [] => true | c :: _ => negb (is_digit c) end) = true.
Proof.
  destruct rest as [|c r]; [auto|]. cbn. intros H. apply negb_true_iff in H.
  apply orb_false_iff in H as [H _]. apply orb_false_iff in H as [H _]. apply orb_false_iff in H as [H _].
  rewrite H. reflexivity.
Qed.

Lemma digit_not_sign c : is_digit c = true -> (c =? 43) || (c =? 45) = false.
Proof.
  unfold is_digit. intros H. apply andb_true_iff in H as [H1 H2]. apply N.leb_le in H1.
  destruct (N.eqb_spec c 43); [lia|]. destruct (N.eqb_spec c 45); [lia|]. reflexivity.
Qed.

Lemma digit_nb c : is_digit c = true -> negb (is_blankc c) = true.
Proof.
  unfold is_digit, is_blankc. intros H. apply andb_true_iff in H as [H1 H2]. apply N.leb_le in H1.
  destruct (N.eqb_spec c 32); [lia|]. destruct (N.eqb_spec c 9); [lia|]. reflexivity.
Qed.

(** optional sign, one or more digits *)
Definition int_lit (sg ds : str) : Prop :=
  (sg = [] \/ sg = [43] \/ sg = [45]) /\ ds <> [] /\ forallb is_digit ds = true.

Lemma p_num_int t1 rest : nf rest = true -> p_int (t1 ++ rest) = Some (t1, rest) -> p_num (t1 ++ rest) = Some (t1, rest).
Proof.
  intros Hr Hi. unfold p_num. rewrite Hi.
  destruct rest as [|c r]; [rewrite !app_nil_r; reflexivity|].
  cbn in Hr. apply negb_true_iff in Hr.
  apply orb_false_iff in Hr as [Hr H69]. apply orb_false_iff in Hr as [Hr H101]. apply orb_false_iff in Hr as [_ H46].
  rewrite H46. rewrite H101, H69. cbn [orb]. rewrite !app_nil_r. reflexivity.
Qed.

Lemma int_lit_ok sg ds : int_lit sg ds -> leaf_ok (sg ++ ds).
Proof.
  intros (Hs & Hne & Hd). destruct ds as [|d0 ds']; [contradiction|].
  assert (Hd0 : is_digit d0 = true) by (cbn in Hd; apply andb_true_iff in Hd as [H _]; exact H).
  split.
  - destruct Hs as [-> | [-> | ->]]; cbn; try reflexivity. apply digit_nb. exact Hd0.
  - intros rest Hr. rewrite <- app_assoc. rewrite app_assoc. apply p_num_int; [exact Hr|].
    rewrite <- app_assoc. unfold p_int.
    destruct Hs as [-> | [-> | ->]]; cbn [app].
    + rewrite (digit_not_sign d0 Hd0).
      change (d0 :: ds' ++ rest) with ((d0 :: ds') ++ rest).
      rewrite (take_digits_app (d0 :: ds') rest Hd (nf_not_digit rest Hr)). reflexivity.
    + cbn [N.eqb Pos.eqb orb]. change (d0 :: ds' ++ rest) with ((d0 :: ds') ++ rest).
      rewrite (take_digits_app (d0 :: ds') rest Hd (nf_not_digit rest Hr)). reflexivity.
    + cbn [N.eqb Pos.eqb orb]. change (d0 :: ds' ++ rest) with ((d0 :: ds') ++ rest).
      rewrite (take_digits_app (d0 :: ds') rest Hd (nf_not_digit rest Hr)). reflexivity.
Qed.

(* ------------------------------------------------------------------ *)
(** * From the text of an expression tree to the tree *)

Fixpoint leaves_ok (q : ptree str) : Prop :=
  match q with
  | QLeaf s => leaf_ok s
  | QNode _ a b => leaves_ok a /\ leaves_ok b
  | QPar t => leaves_ok t
  end.

Lemma wf_tail_app {L} (Q : L -> Prop) tl o t tl' :
  wf_tail Q tl -> wf_term Q t -> wf_tail Q tl' -> wf_tail Q (tl ++ POp o :: t :: tl').
Proof.
  intros H Ht Ht'. induction H as [|o0 t0 tl0 H0 Htl0 IH]; cbn; constructor; assumption.
Qed.

Lemma wf_seq_join {L} (Q : L -> Prop) x o y : wf_seq Q x -> wf_seq Q y -> wf_seq Q (x ++ POp o :: y).
Proof.
  intros [t tl Ht Htl] [t' tl' Ht' Htl']. cbn. constructor; [exact Ht|]. apply wf_tail_app; assumption.
Qed.

Lemma render_wf q : leaves_ok q -> wf_seq leaf_ok (render q).
Proof.
  induction q as [s|o a IHa b IHb|t IHt]; cbn [leaves_ok render].
  - intros H. constructor; [constructor; exact H|constructor].
  - intros [Ha Hb]. apply wf_seq_join.
    + destruct (std_needs_l o a); [constructor; [constructor; exact (IHa Ha)|constructor]|exact (IHa Ha)].
    + destruct (std_needs_r o b); [constructor; [constructor; exact (IHb Hb)|constructor]|exact (IHb Hb)].
  - intros H. constructor; [constructor; exact (IHt H)|constructor].
Qed.

(** the text of a tree: the standard rendering, every token boundary spelled [sp] *)
Definition render_str (sp : str) (q : ptree str) : str := sp ++ str_seq sp (render q) ++ sp.

Theorem parse_render_str sp q :
  forallb is_blankc sp = true -> leaves_ok q -> parse_calc (render_str sp q) = POk (render q).
Proof. intros Hsp Hq. apply parse_print; [exact Hsp|apply render_wf; exact Hq]. Qed.
