(** C15, round 9b: from a script TEXT of the flat fragment (C14_parse_flat) to [flat_parsed]. *)
From Cicada Require Import Base.Chars Base.Peg Gen.LocustGrammar Model.Script Model.ScriptAst Model.Args Model.ShellScript
  Proofs.SetEProofs Proofs.LocustParse Proofs.ShellCallsProofs.
From Coq Require Import ZArith Lia.
Local Open Scope N_scope.

Definition nonempty_l (l : str) : bool := negb (is_empty l).

Lemma skel_of_strip_gen : forall ks ls,
  filter (fun k => negb (t_rule k =? L_EOI)) (map (strip_eoi L_EOI) ks) = map cmd_node ls ->
  skel ks = Some (filter nonempty_l ls).
Proof.
  induction ks as [|k ks IH]; intros ls H.
  - destruct ls; [reflexivity | discriminate H].
  - destruct k as [r x kk]. cbn [map filter strip_eoi t_rule] in H. cbn [skel t_rule t_txt].
    destruct (r =? L_EOI) eqn:E; cbn [negb] in H.
    + apply IH, H.
    + destruct ls as [|l ls]; [discriminate H|]. cbn [map cmd_node] in H.
      injection H as Hr Hx _ Ht. subst r x. rewrite N.eqb_refl, (IH ls Ht). cbn [filter]. unfold nonempty_l.
      destruct (is_empty l); reflexivity.
Qed.

Lemma filter_ne_id ls : forallb nonempty_l ls = true -> filter nonempty_l ls = ls.
Proof.
  induction ls as [|l ls IH]; intro H; [reflexivity|]. cbn [forallb] in H. apply andb_prop in H as [H1 H2].
  cbn [filter]. rewrite H1, (IH H2). reflexivity.
Qed.

Lemma skel_of_strip : forall ks ls, forallb nonempty_l ls = true ->
  filter (fun k => negb (t_rule k =? L_EOI)) (map (strip_eoi L_EOI) ks) = map cmd_node ls -> skel ks = Some ls.
Proof. intros ks ls Hn H. rewrite (skel_of_strip_gen ks ls H), (filter_ne_id ls Hn). reflexivity. Qed.

Lemma cmd_ok_ne ls : forallb cmd_ok ls = true -> forallb nonempty_l ls = true.
Proof.
  induction ls as [|l ls IH]; intro H; [reflexivity|]. cbn [forallb] in *. apply andb_prop in H as [H1 H2].
  rewrite (IH H2), andb_true_r. unfold cmd_ok in H1.
  apply andb_prop in H1 as [H1 _]. apply andb_prop in H1 as [H1 _]. apply andb_prop in H1 as [_ H1].
  destruct l; [discriminate H1 | reflexivity].
Qed.

Theorem parse_ok_flat_parsed : forall b ls, flat_lines b = Some ls -> forallb nonempty_l ls = true -> parse_ok b ->
  flat_parsed (render_block b) ls.
Proof.
  intros b ls Hfl Hne [p [kids [Hp Hm]]].
  destruct (flat_lines_spec b ls Hfl) as [_ Hk].
  destruct kids as [|k [|k2 kids]]; try discriminate Hm.
  cbn [map] in Hm. injection Hm as Hm.
  destruct (annotate (render_block b) k) as [r x kids0] eqn:A.
  unfold tree_of_script in Hm. cbn [strip_eoi] in Hm. injection Hm as Hr Hx Hf.
  rewrite Hk in Hf. change cmd_t with cmd_node in Hf.
  exists p, [], [k], r, x, kids0. split; [exact Hp|]. split; [cbn [map]; rewrite A; reflexivity|].
  apply skel_of_strip; [exact Hne | exact Hf].
Qed.

(** a text of the flat fragment: parsed (with the fuel parse_from computes) to its lines, or out of fuel *)
Theorem flat_text_parsed : forall b, frag_flat b = true ->
  parse_from l_grammar L_EXP (render_block b) = PFuel \/
  exists ls, flat_lines b = Some ls /\ flat_parsed (render_block b) ls.
Proof.
  intros b H. destruct (parse_flat_from b H) as [F|P]; [left; exact F|right].
  unfold frag_flat in H. destruct (flat_lines b) as [ls|] eqn:E; [|discriminate H].
  exists ls. split; [reflexivity|]. apply parse_ok_flat_parsed; [exact E | apply cmd_ok_ne, H | exact P].
Qed.
