(** C15, round 9b: from a script TEXT of the flat fragment (C14_parse_flat) to [flat_parsed]. *)
From Cicada Require Import Base.Chars Base.Peg Gen.LocustGrammar Model.Script Model.ScriptAst Model.Args Model.ShellScript
  Proofs.SetEProofs Proofs.LocustParse Proofs.ShellCallsProofs.
From Coq Require Import ZArith Lia.
Local Open Scope N_scope.

Lemma skel_of_strip : forall ks ls,
  filter (fun k => negb (t_rule k =? L_EOI)) (map (strip_eoi L_EOI) ks) = map cmd_node ls -> skel ks = Some ls.
Proof.
  induction ks as [|k ks IH]; intros ls H.
  - destruct ls; [reflexivity | discriminate H].
  - destruct k as [r x kk]. cbn [map filter strip_eoi t_rule] in H. cbn [skel t_rule t_txt].
    destruct (r =? L_EOI) eqn:E; cbn [negb] in H.
    + apply IH, H.
    + destruct ls as [|l ls]; [discriminate H|]. cbn [map cmd_node] in H.
      injection H as Hr Hx _ Ht. subst r x. rewrite N.eqb_refl, (IH ls Ht). reflexivity.
Qed.

Theorem parse_ok_flat_parsed : forall b ls, flat_lines b = Some ls -> parse_ok b ->
  flat_parsed (render_block b) ls.
Proof.
  intros b ls Hfl [p [kids [Hp Hm]]].
  destruct (flat_lines_spec b ls Hfl) as [_ Hk].
  destruct kids as [|k [|k2 kids]]; try discriminate Hm.
  cbn [map] in Hm. injection Hm as Hm.
  destruct (annotate (render_block b) k) as [r x kids0] eqn:A.
  unfold tree_of_script in Hm. cbn [strip_eoi] in Hm. injection Hm as Hr Hx Hf.
  rewrite Hk in Hf. change cmd_t with cmd_node in Hf.
  exists p, [], [k], r, x, kids0. split; [exact Hp|]. split; [cbn [map]; rewrite A; reflexivity|].
  apply skel_of_strip, Hf.
Qed.

(** a text of the flat fragment: parsed (with the fuel parse_from computes) to its lines, or out of fuel *)
Theorem flat_text_parsed : forall b, frag_flat b = true ->
  parse_from l_grammar L_EXP (render_block b) = PFuel \/
  exists ls, flat_lines b = Some ls /\ flat_parsed (render_block b) ls.
Proof.
  intros b H. destruct (parse_flat_from b H) as [F|P]; [left; exact F|right].
  unfold frag_flat in H. destruct (flat_lines b) as [ls|] eqn:E; [|discriminate H].
  exists ls. split; [reflexivity|]. apply parse_ok_flat_parsed; assumption.
Qed.
