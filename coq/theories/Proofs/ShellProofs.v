(** C15: a property of the shell state that every oracle step preserves is preserved by the whole
    run_exp family, hence by run_lines; instance: exit_on_error stays on through function calls
    and `source` (Model/ShellScript.v). *)
From Cicada Require Import Base.Chars Base.Peg Gen.LocustGrammar Model.Script Model.ScriptAst Model.Args Model.ShellScript
  Proofs.ScriptProofs Proofs.SetEProofs.
From Coq Require Import ZArith Lia.
Local Open Scope N_scope.

Section Pres.
Variable W : Type.
Variable run_line : W -> str -> W * list Z.
Variable for_words : W -> str -> W * list str.
Variable set_var : W -> str -> str -> W.
Variable eoe : W -> bool.
Variable n : nat.
Variable P : W -> Prop.
Hypothesis Hrl : forall w l, P w -> P (fst (run_line w l)).
Hypothesis Hfw : forall w t, P w -> P (fst (for_words w t)).
Hypothesis Hsv : forall w k v, P w -> P (set_var w k v).

Definition okW (o : outcome W) : Prop := match o with Done w _ _ _ => P w | _ => True end.
Definition okBr (o : outcome_br W) : Prop := match o with DoneBr w _ _ _ _ => P w | _ => True end.

Ltac ifs := repeat match goal with |- context [if ?c then _ else _] => destruct c end.

Lemma exp_loop_pres rif rfor rwh :
  (forall t il w, P w -> okW (rif t il w)) -> (forall t w, P w -> okW (rfor t w)) -> (forall t w, P w -> okW (rwh t w)) ->
  forall pairs il w acc, P w -> okW (exp_loop W run_line eoe rif rfor rwh il pairs w acc).
Proof.
  intros H1 H2 H3. induction pairs as [|p r IH]; intros il w acc Hw; cbn [exp_loop]; [exact Hw|].
  destruct (is_empty (t_txt p)); [apply IH, Hw|].
  destruct (t_rule p =? L_CMD).
  { destruct (str_eqb (t_txt p) kw_continue); [destruct il; [exact Hw | apply IH, Hw]|].
    destruct (str_eqb (t_txt p) kw_break); [destruct il; [exact Hw | apply IH, Hw]|].
    pose proof (Hrl w (t_txt p) Hw) as Hk. destruct (run_line w (t_txt p)) as [w1 crs]. cbn [fst] in Hk.
    ifs; [exact Hk | apply IH, Hk]. }
  destruct (t_rule p =? L_EXP_IF).
  { pose proof (H1 p il w Hw) as Hk. destruct (rif p il w) as [w1 crs c b| |]; try exact I. cbn [okW] in Hk.
    ifs; try exact Hk. apply IH, Hk. }
  destruct (t_rule p =? L_EXP_FOR).
  { pose proof (H2 p w Hw) as Hk. destruct (rfor p w) as [w1 crs c b| |]; try exact I. cbn [okW] in Hk.
    ifs; try exact Hk. apply IH, Hk. }
  destruct (t_rule p =? L_EXP_WHILE).
  { pose proof (H3 p w Hw) as Hk. destruct (rwh p w) as [w1 crs c b| |]; try exact I. cbn [okW] in Hk.
    ifs; try exact Hk. apply IH, Hk. }
  apply IH, Hw.
Qed.

Lemma br_loop_pres rexp : (forall t il w, P w -> okW (rexp t il w)) ->
  forall pairs il w tp, P w -> okBr (br_loop W run_line rexp il pairs w tp).
Proof.
  intros H1. induction pairs as [|p r IH]; intros il w tp Hw; cbn [br_loop]; [exact Hw|].
  destruct ((t_rule p =? L_IF_HEAD) || (t_rule p =? L_IF_ELSEIF_HEAD) || (t_rule p =? L_WHILE_HEAD)).
  { destruct (t_kids p) as [|pt ?]; [exact I|].
    pose proof (Hrl w (t_txt pt) Hw) as Hk. destruct (run_line w (t_txt pt)) as [w1 crs]. cbn [fst] in Hk. apply IH, Hk. }
  destruct (t_rule p =? L_KW_ELSE); [apply IH, Hw|].
  destruct (t_rule p =? L_EXP_BODY); [|exact I].
  destruct (negb tp); [exact Hw|].
  pose proof (H1 p il w Hw) as Hk. destruct (rexp p il w); try exact I. exact Hk.
Qed.

Lemma if_loop_pres rbr : (forall t il w, P w -> okBr (rbr t il w)) ->
  forall pairs il w acc c b, P w -> okW (if_loop W rbr il pairs w acc c b).
Proof.
  intros H1. induction pairs as [|p r IH]; intros il w acc c b Hw; cbn [if_loop]; [exact Hw|].
  pose proof (H1 p il w Hw) as Hk. destruct (rbr p il w) as [w1 crs ps c1 b1| |]; try exact I. cbn [okBr] in Hk.
  destruct ps; [exact Hk | apply IH, Hk].
Qed.

Lemma for_values_pres rexp body var : (forall t il w, P w -> okW (rexp t il w)) ->
  forall vs w acc, P w -> okW (for_values W set_var eoe rexp body var vs w acc).
Proof.
  intros H1. induction vs as [|v vs IH]; intros w acc Hw; cbn [for_values]; [exact Hw|].
  pose proof (H1 body true (set_var w var v) (Hsv w var v Hw)) as Hk.
  destruct (rexp body true (set_var w var v)) as [w1 crs c b| |]; try exact I. cbn [okW] in Hk.
  ifs; [exact Hk | apply IH, Hk].
Qed.

Lemma for_init_pres : forall kids w acc, P w -> P (fst (get_for_result_from_init W for_words w kids acc)).
Proof.
  induction kids as [|p r IH]; intros w acc Hw; cbn [get_for_result_from_init]; [exact Hw|].
  destruct (t_rule p =? L_TEST); [|apply IH, Hw].
  pose proof (Hfw w (t_txt p) Hw) as Hk. destruct (for_words w (t_txt p)) as [w1 ws]. apply IH, Hk.
Qed.

Lemma for_list_pres : forall kids w, P w -> P (fst (get_for_result_list_kids W for_words w kids)).
Proof.
  induction kids as [|p r IH]; intros w Hw; cbn [get_for_result_list_kids]; [exact Hw|].
  destruct (t_rule p =? L_FOR_INIT); [apply for_init_pres, Hw | apply IH, Hw].
Qed.

Lemma for_loop_pres rexp : (forall t il w, P w -> okW (rexp t il w)) ->
  forall pairs w acc var rl, P w -> okW (for_loop W for_words set_var eoe rexp pairs w acc var rl).
Proof.
  intros H1. induction pairs as [|p r IH]; intros w acc var rl Hw; cbn [for_loop]; [exact Hw|].
  destruct (t_rule p =? L_FOR_HEAD).
  { pose proof (for_list_pres (t_kids p) w Hw) as Hk.
    destruct (get_for_result_list_kids W for_words w (t_kids p)) as [w1 rl1]. apply IH, Hk. }
  destruct (t_rule p =? L_EXP_BODY); [|apply IH, Hw].
  pose proof (for_values_pres rexp p var H1 rl w acc Hw) as Hk.
  destruct (for_values W set_var eoe rexp p var rl w acc) as [w1 crs c b| |]; try exact I. apply IH, Hk.
Qed.

Lemma while_iter_pres rbr pw : (forall t il w, P w -> okBr (rbr t il w)) ->
  forall k w acc, P w -> okW (while_iter W eoe rbr pw k w acc).
Proof.
  intros H1. induction k as [|k IH]; intros w acc Hw; cbn [while_iter]; [exact I|].
  pose proof (H1 pw true w Hw) as Hk. destruct (rbr pw true w) as [w1 crs ps c b| |]; try exact I. cbn [okBr] in Hk.
  ifs; [exact Hk | apply IH, Hk].
Qed.

Notation RE := (run_exp W run_line for_words set_var eoe n).
Notation RIF := (run_exp_if W run_line for_words set_var eoe n).
Notation RFOR := (run_exp_for W run_line for_words set_var eoe n).
Notation RWH := (run_exp_while W run_line for_words set_var eoe n).
Notation RBR := (run_exp_test_br W run_line for_words set_var eoe n).

Lemma family_pres : forall d,
  (forall t il w, P w -> okW (RE d t il w)) /\ (forall t il w, P w -> okW (RIF d t il w)) /\
  (forall t w, P w -> okW (RFOR d t w)) /\ (forall t w, P w -> okW (RWH d t w)) /\
  (forall t il w, P w -> okBr (RBR d t il w)).
Proof.
  induction d as [|d [I1 [I2 [I3 [I4 I5]]]]].
  - repeat split; intros; exact I.
  - repeat split.
    + intros t il w Hw. apply (exp_loop_pres (RIF d) (RFOR d) (RWH d) I2 I3 I4), Hw.
    + intros t il w Hw. apply (if_loop_pres (RBR d) I5), Hw.
    + intros t w Hw. apply (for_loop_pres (RE d) I1), Hw.
    + intros t w Hw. apply (while_iter_pres (RBR d) t I5), Hw.
    + intros t il w Hw. apply (br_loop_pres (RE d) I1), Hw.
Qed.

Lemma run_pairs_pres d : forall pairs w acc, P w -> okW (run_pairs W run_line for_words set_var eoe n d pairs w acc).
Proof.
  induction pairs as [|p r IH]; intros w acc Hw; cbn [run_pairs]; [exact Hw|].
  pose proof (proj1 (family_pres d) p false w Hw) as Hk.
  destruct (RE d p false w) as [w1 crs c b| |]; try exact I. apply IH, Hk.
Qed.

Lemma run_lines_pres text w : P w ->
  match run_lines W run_line for_words set_var eoe n text w with Some o => okW o | None => True end.
Proof.
  intro Hw. unfold run_lines. destruct (parse_from l_grammar L_EXP text); try exact I. apply run_pairs_pres, Hw.
Qed.
End Pres.

(** ---- the shell-state model: exit_on_error stays on ---- *)
Section Shell.
Variable ext : str -> Z.
Variable file_text : str -> option str.
Variable n : nat.

Definition flag_on (w : shs) : Prop := s_eoe w = true.

Lemma exec_line_S f w line :
  exec_line ext file_text n (S f) w line =
  let '(cmd, rest) := first_word line in
  if str_eqb line s_set_e then (mk_shs true (s_funcs w) (s_log w), [0%Z])
  else if str_eqb cmd s_source then
    let '(w1, st) := run_script ext file_text n f w (trim rest) in (w1, [st])
  else
    match get_func cmd (s_funcs w) with
    | Some body =>
        match run_lines shs (exec_line ext file_text n f) no_words no_setvar s_eoe n body w with
        | Some (Done w1 crs _ _) => (w1, [func_call_status crs])
        | _ => (w, [0%Z])
        end
    | None => (mk_shs (s_eoe w) (s_funcs w) (s_log w ++ [line]), [ext line])
    end.
Proof. reflexivity. Qed.

Lemma run_script_S f w path :
  run_script ext file_text n (S f) w path =
  match file_text path with
  | None => (w, 1%Z)
  | Some text =>
      let '(defs, text_new) := function_table text in
      let w0 := mk_shs (s_eoe w) (set_funcs defs (s_funcs w)) (s_log w) in
      let '(w1, crs) :=
        match run_lines shs (exec_line ext file_text n f) no_words no_setvar s_eoe n text_new w0 with
        | Some (Done w1 crs _ _) => (w1, crs)
        | _ => (w0, [])
        end in
      (mk_shs (s_eoe w) (s_funcs w1) (s_log w1), script_status crs)
  end.
Proof. reflexivity. Qed.

Lemma exec_pres : forall fuel,
  (forall w l, flag_on w -> flag_on (fst (exec_line ext file_text n fuel w l))) /\
  (forall w p, flag_on w -> flag_on (fst (run_script ext file_text n fuel w p))).
Proof.
  induction fuel as [|f [IHe IHs]].
  - split; intros; assumption.
  - split.
    + intros w l Hw. rewrite exec_line_S.
      destruct (first_word l) as [cmd rest].
      destruct (str_eqb l s_set_e); [reflexivity|].
      destruct (str_eqb cmd s_source).
      { pose proof (IHs w (trim rest) Hw) as Hk. destruct (run_script ext file_text n f w (trim rest)) as [w1 st]. exact Hk. }
      destruct (get_func cmd (s_funcs w)) as [body|]; [|exact Hw].
      pose proof (run_lines_pres shs (exec_line ext file_text n f) no_words no_setvar s_eoe n flag_on
                    IHe (fun w _ H => H) (fun w _ _ H => H) body w Hw) as Hk.
      destruct (run_lines shs (exec_line ext file_text n f) no_words no_setvar s_eoe n body w) as [[w1 crs c b| |]|];
        try exact Hw. exact Hk.
    + intros w p Hw. rewrite run_script_S.
      destruct (file_text p) as [text|]; [|exact Hw].
      destruct (function_table text) as [defs text_new].
      cbv zeta.
      destruct (run_lines shs (exec_line ext file_text n f) no_words no_setvar s_eoe n text_new
                  (mk_shs (s_eoe w) (set_funcs defs (s_funcs w)) (s_log w))) as [[w1 crs c b| |]|]; exact Hw.
Qed.

(** C15_sete over flat scripts whose lines are external commands, function calls (bodies of any
    shape), `source` of any file, or `set -e`: with the flag on, the loop of run_exp stops after the
    first line whose status is not 0 -- whatever number of calls and sources came before -- and
    the flag is still on. *)
Theorem sete_calls_flat : forall fuel rif rfor rwh lines w,
  forallb wf_line lines = true -> s_eoe w = true ->
  exp_loop shs (exec_line ext file_text n fuel) s_eoe rif rfor rwh false (map (cmd_node) lines) w [] =
  (let '(w1, crs) := run_until_fail shs (exec_line ext file_text n fuel) lines w in Done w1 crs false false)
  /\ s_eoe (fst (run_until_fail shs (exec_line ext file_text n fuel) lines w)) = true.
Proof.
  intros fuel rif rfor rwh lines w Hwf Hw.
  exact (flat_set_e_inv shs (exec_line ext file_text n fuel) s_eoe rif rfor rwh
           (proj1 (exec_pres fuel)) lines Hwf w [] Hw eq_refl).
Qed.
End Shell.
