(** C15: a property of the shell state that every oracle step preserves is preserved by the whole
    run_exp family, hence by run_lines; instance: exit_on_error stays on through function calls
    and `source` (Model/ShellScript.v). *)
From Cicada Require Import Base.Chars Base.Peg Gen.LocustGrammar Model.Script Model.ScriptAst Model.Args Model.ShellScript Model.Cmds Model.ListExec Model.CondLine
  Proofs.ScriptProofs Proofs.SetEProofs.
From Coq Require Import ZArith Lia.
Local Open Scope N_scope.


(** ---- the shell-state model: exit_on_error stays on ---- *)
Section Shell.
Variable ext : str -> Z.
Variable file_text : str -> option str.
Variable n : nat.

Definition flag_on (w : shs) : Prop := s_eoe w = true.

Notation EL f := (run_line_of shs (exec_pipe ext file_text n f)).

Lemma exec_pipe_S f w line :
  exec_pipe ext file_text n (S f) w line =
  match cmd_words line with
  | [] => (w, 0%Z)
  | cmd :: args =>
      if str_eqb cmd [115; 101; 116] && match args with [a] => str_eqb a [45; 101] | _ => false end
      then (mk_shs true (s_funcs w) (s_log w), 0%Z)
      else if str_eqb cmd s_source then
        match args with
        | path :: _ => run_script ext file_text n f w path
        | [] => (w, 0%Z)
        end
      else
        match get_func cmd (s_funcs w) with
        | Some body =>
            match run_lines shs (EL f) no_words no_setvar s_eoe n body w with
            | Some (Done w1 crs _ _) => (w1, func_call_status crs)
            | _ => (w, 0%Z)
            end
        | None => (mk_shs (s_eoe w) (s_funcs w) (s_log w ++ [line]), ext line)
        end
  end.
Proof. reflexivity. Qed.

(** the line is a shell command (set -e, source, a defined function), judged on its words without redirections *)
Definition is_shell_words (w : shs) (ws : list str) : bool :=
  match ws with
  | [] => true
  | cmd :: args =>
      (str_eqb cmd [115; 101; 116] && match args with [a] => str_eqb a [45; 101] | _ => false end)
      || str_eqb cmd s_source
      || match get_func cmd (s_funcs w) with Some _ => true | None => false end
  end.

(** an output redirection on a `set -e` / `source` / function-call line changes nothing: such a line is
    executed according to its words without the redirections only *)
Theorem pipe_redirection_irrelevant : forall fuel w l1 l2,
  cmd_words l1 = cmd_words l2 -> is_shell_words w (cmd_words l1) = true ->
  exec_pipe ext file_text n fuel w l1 = exec_pipe ext file_text n fuel w l2.
Proof.
  intros [|f] w l1 l2 H Hs; [reflexivity|]. rewrite !exec_pipe_S. rewrite H in *.
  destruct (cmd_words l2) as [|cmd args]; [reflexivity|]. cbn [is_shell_words] in Hs.
  destruct (str_eqb cmd [115; 101; 116] && match args with [a] => str_eqb a [45; 101] | _ => false end); [reflexivity|].
  destruct (str_eqb cmd s_source); [reflexivity|].
  destruct (get_func cmd (s_funcs w)); [reflexivity|discriminate Hs].
Qed.

Lemma run_script_S f w path :
  run_script ext file_text n (S f) w path =
  match file_text path with
  | None => (w, 1%Z)
  | Some text =>
      let '(defs, text_new) := function_table text in
      let w0 := mk_shs (s_eoe w) (set_funcs defs (s_funcs w)) (s_log w) in
      let '(w1, crs) :=
        match run_lines shs (EL f) no_words no_setvar s_eoe n text_new w0 with
        | Some (Done w1 crs _ _) => (w1, crs)
        | _ => (w0, [])
        end in
      (mk_shs (s_eoe w) (s_funcs w1) (s_log w1), script_status crs)
  end.
Proof. reflexivity. Qed.

(** a property of the world preserved by the runner of one pipeline is preserved by the and-or loop *)
Lemma run_line_of_pres (P : shs -> Prop) (run : shs -> str -> shs * Z) :
  (forall w p, P w -> P (fst (run w p))) -> forall w line, P w -> P (fst (run_line_of shs run w line)).
Proof.
  intros Hr w line Hw. unfold run_line_of, run_command_line, run_tokens. cbn [fst].
  assert (G : forall toks s, P (e_w shs s) -> P (e_w shs (fold_left (exec_token shs run) toks s))).
  { induction toks as [|t toks IH]; intros s Hs; [exact Hs|]. cbn [fold_left]. apply IH.
    unfold exec_token. destruct (op_of t); try exact Hs.
    destruct (e_sep shs s).
    - pose proof (Hr (e_w shs s) t Hs) as Hk. destruct (run (e_w shs s) t). exact Hk.
    - destruct (Z.eqb (e_status shs s) 0); [|exact Hs].
      pose proof (Hr (e_w shs s) t Hs) as Hk. destruct (run (e_w shs s) t). exact Hk.
    - destruct (Z.eqb (e_status shs s) 0); [exact Hs|].
      pose proof (Hr (e_w shs s) t Hs) as Hk. destruct (run (e_w shs s) t). exact Hk.
    - pose proof (Hr (e_w shs s) t Hs) as Hk. destruct (run (e_w shs s) t). exact Hk. }
  apply G. exact Hw.
Qed.

Lemma pipe_pres : forall fuel,
  (forall w l, flag_on w -> flag_on (fst (exec_pipe ext file_text n fuel w l))) /\
  (forall w p, flag_on w -> flag_on (fst (run_script ext file_text n fuel w p))).
Proof.
  induction fuel as [|f [IHe IHs]].
  - split; intros; assumption.
  - assert (IHl : forall w l, flag_on w -> flag_on (fst (EL f w l))) by (apply run_line_of_pres, IHe).
    split.
    + intros w l Hw. rewrite exec_pipe_S.
      destruct (cmd_words l) as [|cmd args]; [exact Hw|].
      destruct (str_eqb cmd [115; 101; 116] && match args with [a] => str_eqb a [45; 101] | _ => false end); [reflexivity|].
      destruct (str_eqb cmd s_source); [destruct args; [exact Hw | apply IHs, Hw]|].
      destruct (get_func cmd (s_funcs w)) as [body|]; [|exact Hw].
      pose proof (run_lines_pres shs (EL f) no_words no_setvar s_eoe n flag_on
                    IHl (fun w _ H => H) (fun w _ _ H => H) body w Hw) as Hk.
      destruct (run_lines shs (EL f) no_words no_setvar s_eoe n body w) as [[w1 crs c b| |]|];
        try exact Hw. exact Hk.
    + intros w p Hw. rewrite run_script_S.
      destruct (file_text p) as [text|]; [|exact Hw].
      destruct (function_table text) as [defs text_new].
      cbv zeta.
      destruct (run_lines shs (EL f) no_words no_setvar s_eoe n text_new
                  (mk_shs (s_eoe w) (set_funcs defs (s_funcs w)) (s_log w))) as [[w1 crs c b| |]|]; exact Hw.
Qed.

Lemma exec_pres : forall fuel,
  (forall w l, flag_on w -> flag_on (fst (exec_line ext file_text n fuel w l))) /\
  (forall w p, flag_on w -> flag_on (fst (run_script ext file_text n fuel w p))).
Proof.
  intro fuel. split; [|apply (proj2 (pipe_pres fuel))].
  unfold exec_line. apply run_line_of_pres, (proj1 (pipe_pres fuel)).
Qed.

(** C15_sete over flat scripts whose lines are external commands, function calls (bodies of any
    shape), `source` of any file, or `set -e`: with the flag on, the loop of run_exp stops after the
    first line whose status is not 0 -- whatever number of calls and sources came before -- and
    the flag is still on. *)
Theorem sete_calls_flat : forall fuel rif rfor rwh lines w,
  forallb wf_line lines = true -> s_eoe w = true ->
  exp_loop shs (exec_line ext file_text n fuel) s_eoe rif rfor rwh false (map (cmd_node) lines) w [] =
  (let '(w1, crs) := run_until_fail shs (exec_line ext file_text n fuel) lines w in Done w1 crs false false)
  /\ s_eoe (fst (run_until_fail shs (exec_line ext file_text n fuel) lines w)) = true.
Proof.
  intros fuel rif rfor rwh lines w Hwf Hw.
  exact (flat_set_e_inv shs (exec_line ext file_text n fuel) s_eoe rif rfor rwh
           (proj1 (exec_pres fuel)) lines Hwf w [] Hw eq_refl).
Qed.
(** C15_sete, combined: nested blocks AND function calls AND `source`. Once exit_on_error is on
    (set -e has been executed -- anywhere: at top level, inside a body, inside a called function),
    every block the interpreter enters, of any well-formed shape, whose command lines may be
    external commands, `set -e`, calls of functions with bodies of any shape and `source` of any
    file, runs as the structured semantics with set -e in effect: the first statement whose last
    pipeline failed, at any depth, ends it. *)
Theorem sete_nested_calls : forall fuel b, wf_block b = true ->
  forall d in_loop w r txt, (depth_block b < d)%nat -> s_eoe w = true ->
  run_exp shs (exec_line ext file_text n fuel) no_words no_setvar s_eoe n d (TNode r txt (kids_of_block b)) in_loop w =
  sem_block shs (exec_line ext file_text n fuel) no_words no_setvar true n b in_loop w.
Proof.
  intros fuel b Hwf d in_loop w r txt Hd Hw.
  exact (run_exp_sem_inv shs (exec_line ext file_text n fuel) no_words no_setvar s_eoe true n flag_on
           (proj1 (exec_pres fuel)) (fun w _ H => H) (fun w _ _ H => H) (fun w H => H)
           b Hwf d in_loop w r txt Hd Hw).
Qed.

(** the remainder of the body in which `set -e` was just executed (results so far: acc, not failing) *)
Theorem sete_rest_of_body : forall fuel b, wf_block b = true ->
  forall d in_loop w acc, (depth_block b <= S d)%nat -> s_eoe w = true -> last_is_nonzero acc = false ->
  exp_loop shs (exec_line ext file_text n fuel) s_eoe
    (run_exp_if shs (exec_line ext file_text n fuel) no_words no_setvar s_eoe n d)
    (run_exp_for shs (exec_line ext file_text n fuel) no_words no_setvar s_eoe n d)
    (run_exp_while shs (exec_line ext file_text n fuel) no_words no_setvar s_eoe n d)
    in_loop (kids_of_block b) w acc =
  prepend_i shs acc (sem_block shs (exec_line ext file_text n fuel) no_words no_setvar true n b in_loop w).
Proof.
  intros fuel b Hwf d in_loop w acc Hd Hw Ha.
  exact (run_exp_sem_inv_mid shs (exec_line ext file_text n fuel) no_words no_setvar s_eoe true n flag_on
           (proj1 (exec_pres fuel)) (fun w _ H => H) (fun w _ _ H => H) (fun w H => H)
           b Hwf d in_loop w acc Hd Hw Ha).
Qed.
End Shell.
