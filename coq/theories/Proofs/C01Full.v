(** C01 with the expansion passes no longer a parameter: [C01_plan_quoted]
    (Properties/C01.v) takes the expansion as a function that must be inert on every
    list of quoted tokens.  The real passes ([Model/Expand.v] do_expansion) are inert on
    single-quoted tokens and on double-quoted tokens WITHOUT a dollar or a backquote
    (Proofs/ExpandInert.v do_expansion_quoted) -- a double-quoted token with a dollar is
    of course expanded, so the hypothesis [inert expand cmd] as stated there (all quoted
    token lists) is not what the real passes satisfy; the corollary below is therefore
    proved directly from the three component theorems, for the whole of
    CommandLine::from_line ([Model/FullPlan.v] plan), on exactly the domain of the C01
    driver (double-quoted texts without dollar, backquote, backslash, double quote). *)
From Coq Require Import List NArith Bool.
From Cicada Require Import Base.Chars Base.Tag Model.Tokenizer Model.Expand Model.Redirect Model.FullPlan
  Proofs.TokenizerProofs Proofs.C13Proofs.
From Cicada Require Proofs.RedirectProofs Proofs.ExpandInert.
Import ListNotations.
Local Open Scope N_scope.

(** the real expansion passes as a total function on token lists *)
Definition expandW (W : World) (fuel : nat) (toks : list (tag * str)) : list (tag * str) :=
  match do_expansion parse_line W fuel toks with Ok t => t | _ => toks end.

(** ... are inert on the quoted tokens that hold no expansion syntax *)
Lemma expandW_inert W fuel cmd l :
  ExpandInert.cmd_ok W cmd -> Forall ExpandInert.inert l ->
  expandW W fuel ((TNone, cmd) :: l) = (TNone, cmd) :: l.
Proof.
  intros Hc Hl. unfold expandW.
  assert (E : do_expansion parse_line W fuel ((TNone, cmd) :: l) = Ok ((TNone, cmd) :: l))
    by (apply ExpandInert.do_expansion_quoted; assumption).
  now rewrite E.
Qed.

Corollary C01_plan_full : forall W fuel cmd (args : list (nat * qarg)),
  plain_word cmd = true -> forallb arith_body cmd = false -> split_env cmd = None -> ExpandInert.cmd_ok W cmd ->
  forallb (fun '(_, a) => wf_qarg a) args = true -> Forall (fun '(_, a) => calm_qarg a) args ->
  plan W fuel (render_cmd cmd args)
  = Ok (inl (mkcl [mkc ((TNone, cmd) :: map (fun '(_, a) => tok_of_qarg a) args) [] None] [] false)).
Proof. exact plan_quoted_line. Qed.

(** the same through the parameterised theorem: the planner applied to the real expansion of the real tokens *)
Corollary C01_plan_full_tokens : forall W fuel cmd (args : list (nat * qarg)),
  plain_word cmd = true -> forallb arith_body cmd = false -> split_env cmd = None -> ExpandInert.cmd_ok W cmd ->
  forallb (fun '(_, a) => wf_qarg a) args = true -> Forall (fun '(_, a) => calm_qarg a) args ->
  plan_tokens (expandW W fuel (parse_line (render_cmd cmd args)))
  = inl (mkcl [mkc ((TNone, cmd) :: map (fun '(_, a) => tok_of_qarg a) args) [] None] [] false).
Proof.
  intros W fuel cmd args Hp Ha He Hc Hw Hca. rewrite parse_line_quoted by assumption.
  change (map (fun '(_, a) => tok_of_qarg a) args) with (toks_of args).
  assert (E : expandW W fuel ((TNone, cmd) :: toks_of args) = (TNone, cmd) :: toks_of args)
    by (apply expandW_inert; [exact Hc|now apply calm_inert]).
  etransitivity; [exact (f_equal plan_tokens E)|].
  apply RedirectProofs.plan_quoted; [now apply RedirectProofs.plain_word_cmd_ok|].
  apply inert_quoted. now apply calm_inert.
Qed.

Print Assumptions C01_plan_full.
Print Assumptions C01_plan_full_tokens.
