(** C15, round 9d: without `source` lines the reference with the table as state is the flag-state reference. *)
From Cicada Require Import Base.Chars Model.Script Model.Args Model.ShellScript Proofs.ShellCallsProofs Proofs.ShellFlagProofs Proofs.ShellSourceProofs.
From Coq Require Import ZArith Lia.
Local Open Scope N_scope.

Section Eq3.
Variable ext : str -> Z.
Variable rfiles : list (str * rfile).
Variable rt : list (str * list str).

Lemma refl3_refl : forall fuel ls e last e' tr st,
  refl ext rt fuel ls e last = Some (e', tr, st) ->
  refl3 ext rfiles fuel ls e rt last = Some (e', rt, tr, st).
Proof.
  induction fuel as [|f IHf]; [discriminate|].
  induction ls as [|l r IHr]; intros e last e' tr st H.
  - cbn in H. injection H as <- <- <-. reflexivity.
  - change (refl ext rt (S f) (l :: r) e last) with (ref_lines ext rt (fun b e => refl ext rt f b e 0%Z) (l :: r) e last) in H.
    cbn [ref_lines] in H.
    change (ref_lines ext rt (fun b e => refl ext rt f b e 0%Z) r) with (refl ext rt (S f) r) in H.
    change (refl3 ext rfiles (S f) (l :: r) e rt last)
      with (ref_lines3 ext rfiles (fun b e rt => refl3 ext rfiles f b e rt 0%Z)
              (fun b e rt => match f with O => None | S f' => refl3 ext rfiles f' b e rt 0%Z end) (l :: r) e rt last).
    cbn [ref_lines3].
    change (ref_lines3 ext rfiles (fun b e rt => refl3 ext rfiles f b e rt 0%Z)
              (fun b e rt => match f with O => None | S f' => refl3 ext rfiles f' b e rt 0%Z end) r)
      with (refl3 ext rfiles (S f) r).
    unfold classify2 in H. unfold classify3.
    destruct (cmd_words l) as [|cmd args]; [exact (IHr _ _ _ _ _ H)|].
    destruct (str_eqb cmd [115; 101; 116] && match args with [a] => str_eqb a [45; 101] | _ => false end);
      [exact (IHr _ _ _ _ _ H)|].
    destruct (str_eqb cmd s_source); [discriminate H|].
    destruct (get_body cmd rt) as [body|].
    + destruct (refl ext rt f body e 0%Z) as [[[e1 tr1] st1]|] eqn:B; [|discriminate H].
      rewrite (IHf _ _ _ _ _ _ B).
      destruct (e1 && negb (Z.eqb st1 0)); [injection H as <- <- <-; reflexivity|].
      destruct (refl ext rt (S f) r e1 st1) as [[[e2 tr2] st2]|] eqn:R; [|discriminate H].
      injection H as <- <- <-. rewrite (IHr _ _ _ _ _ R). reflexivity.
    + destruct (e && negb (Z.eqb (ext l) 0)); [injection H as <- <- <-; reflexivity|].
      destruct (refl ext rt (S f) r e (ext l)) as [[[e2 tr2] st2]|] eqn:R; [|discriminate H].
      injection H as <- <- <-. rewrite (IHr _ _ _ _ _ R). reflexivity.
Qed.
End Eq3.
