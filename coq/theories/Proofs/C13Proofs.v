(** C13: text produced by parameter expansion, followed through ALL the passes of
    CommandLine::from_line (Model/FullPlan.v): tokenizer, the seven expansion passes,
    assignments / background / pipes / input and output redirections. *)
From Coq Require Import List NArith ZArith Bool Lia.
From Cicada Require Import Base.Chars Base.Tag Model.Tokenizer Model.Expand Model.ExpandRef Model.Redirect Model.FullPlan.
From Cicada Require Import Proofs.TokenizerProofs Proofs.TokenizerWordProofs Proofs.SubstProofs Proofs.ExpandBasics.
From Cicada Require Proofs.RedirectProofs Proofs.PlanInert Proofs.ExpandInert Proofs.ExpandUntagged.
Import ListNotations.
Local Open Scope N_scope.

Module RP := Cicada.Proofs.RedirectProofs.
Module PI := Cicada.Proofs.PlanInert.
Module EI := Cicada.Proofs.ExpandInert.
Module EU := Cicada.Proofs.ExpandUntagged.

(** the plan of ONE plain foreground command with the given words *)
Definition one_cmd (words : list Redirect.token) : plan_result :=
  inl (mkcl [mkc words [] None] [] false).

(** a written quoted argument none of the expansion passes touches *)
Definition calm_qarg (a : qarg) : Prop :=
  match a with QSq _ => True | QDq t => ~ In 36 t /\ ~ In 96 t end.

Definition toks_of (args : list (nat * qarg)) : list (tag * str) := map (fun '(_, a) => tok_of_qarg a) args.

Lemma calm_inert args : Forall (fun '(_, a) => calm_qarg a) args -> Forall EI.inert (toks_of args).
Proof.
  induction 1 as [|[n a] args Ha _ IH]; [constructor|]. cbn [toks_of map]. constructor; [|exact IH].
  destruct a as [t|t]; [left; reflexivity|right]. cbn [tok_of_qarg qarg_tag qarg_text fst snd].
  destruct Ha. auto.
Qed.

Lemma inert_quoted l : Forall EI.inert l -> forallb RP.quoted_tok l = true.
Proof.
  induction 1 as [|[tg s] l Ht _ IH]; [reflexivity|]. cbn [forallb]. rewrite IH, andb_true_r.
  destruct Ht as [Ht|(Ht & _)]; cbn [fst] in Ht; subst tg; reflexivity.
Qed.

Lemma inert_all_inert_tok l : Forall EI.inert l -> forallb PI.inert_tok l = true.
Proof. intros H. apply PI.quoted_all_inert. now apply inert_quoted. Qed.

(* ------------------------------------------------------------------ double-quoted reference: text level *)
Theorem plan_dq_value : forall W fuel cmd (args1 args2 : list (nat * qarg)) n noeq br (pre name post : str),
  plain_word cmd = true -> forallb arith_body cmd = false -> split_env cmd = None -> EI.cmd_ok W cmd ->
  forallb (fun '(_, a) => wf_qarg a) args1 = true -> forallb (fun '(_, a) => wf_qarg a) args2 = true ->
  Forall (fun '(_, a) => calm_qarg a) args1 -> Forall (fun '(_, a) => calm_qarg a) args2 ->
  wf_qarg (QDq (pre ++ render_piece (PRef br name) ++ post)) = true ->
  ~ In 36 pre -> ~ In 36 post -> forallb (okg noeq) (pre ++ post) = true -> is_name name = true ->
  (br = true \/ match post with c :: _ => is_alnum_us c = false | [] => True end) ->
  ~ In 96 (pre ++ key_value W name ++ post) -> has_dollar_paren (pre ++ key_value W name ++ post) = false ->
  plan W fuel (render_cmd cmd (args1 ++ (n, QDq (pre ++ render_piece (PRef br name) ++ post)) :: args2))
  = Ok (one_cmd ((TNone, cmd) :: toks_of args1 ++ (TDq, pre ++ key_value W name ++ post) :: toks_of args2)).
Proof.
  intros W fuel cmd args1 args2 n noeq br pre name post Hp Ha He Hc Hw1 Hw2 Hc1 Hc2 Hwq Hpre Hpost Hg Hn Hbr H96 Hdp.
  unfold plan. rewrite parse_line_quoted; [|exact Hp|exact Ha|].
  2:{ rewrite forallb_app. cbn [forallb]. now rewrite Hw1, Hw2, Hwq. }
  rewrite map_app. cbn [map tok_of_qarg qarg_tag qarg_text].
  change (map (fun '(_, a) => tok_of_qarg a) args1) with (toks_of args1).
  change (map (fun '(_, a) => tok_of_qarg a) args2) with (toks_of args2).
  change (tok_of_qarg (QDq (pre ++ render_piece (PRef br name) ++ post)))
    with (TDq, pre ++ render_piece (PRef br name) ++ post).
  match goal with |- bind ?x ?f = _ =>
    assert (E : x = Ok ((TNone, cmd) :: toks_of args1 ++ (TDq, pre ++ key_value W name ++ post) :: toks_of args2)) end.
  { apply EI.do_expansion_dq_value with (noeq := noeq); try assumption; now apply calm_inert. }
  rewrite E.
  cbn [bind]. f_equal. unfold one_cmd. apply RP.plan_quoted; [now apply RP.plain_word_cmd_ok|].
  rewrite forallb_app. cbn [forallb]. rewrite !inert_quoted by (now apply calm_inert). reflexivity.
Qed.

(* ------------------------------------------------------------------ quoted arguments only: text level (for C01) *)
Theorem plan_quoted_line : forall W fuel cmd (args : list (nat * qarg)),
  plain_word cmd = true -> forallb arith_body cmd = false -> split_env cmd = None -> EI.cmd_ok W cmd ->
  forallb (fun '(_, a) => wf_qarg a) args = true -> Forall (fun '(_, a) => calm_qarg a) args ->
  plan W fuel (render_cmd cmd args) = Ok (one_cmd ((TNone, cmd) :: toks_of args)).
Proof.
  intros W fuel cmd args Hp Ha He Hc Hw Hca. unfold plan. rewrite parse_line_quoted by assumption.
  change (map (fun '(_, a) => tok_of_qarg a) args) with (toks_of args).
  match goal with |- bind ?x ?f = _ => assert (E : x = Ok ((TNone, cmd) :: toks_of args)) end.
  { apply EI.do_expansion_quoted; [exact Hc|]. apply calm_inert. exact Hca. }
  rewrite E.
  cbn [bind]. f_equal. apply RP.plan_quoted; [now apply RP.plain_word_cmd_ok|].
  apply inert_quoted. now apply calm_inert.
Qed.

(* ------------------------------------------------------------------ unquoted reference: from the token list on *)
(** the failing classes, on the token the reference has become *)
Definition known_tok (t : Redirect.token) (last : bool) : bool :=
  tag_eqb (fst t) TNone &&
  (has_char c_gt (snd t) || str_eqb (snd t) [c_pipe] || str_eqb (snd t) s_lt || str_eqb (snd t) s_lt3
   || att_lt (TNone, snd t)           (* /repo 543507e: a value <file is split into < and a file name *)
   || (last && str_eqb (snd t) [c_amp])).

Lemma known_tok_split t last :
  known_tok t last = false <-> PI.inert_tok t = true /\ (last = true -> PI.amp_tok t = false).
Proof.
  destruct t as [tg w]. unfold known_tok, PI.inert_tok, PI.inert_text, PI.amp_tok. cbn [fst snd].
  destruct (tag_eqb tg TNone); cbn [andb negb orb]; [|split; [intros _; split; [reflexivity|reflexivity]|reflexivity]].
  destruct (has_char c_gt w), (str_eqb w [c_pipe]), (str_eqb w s_lt), (str_eqb w s_lt3), (att_lt (TNone, w)), last, (str_eqb w [c_amp]);
    cbn; split; try tauto; try (intros [H1 H2]; try discriminate; try (specialize (H2 eq_refl); discriminate)); auto.
Qed.

Lemma last_amp_mid (l1 l2 : list Redirect.token) t : forallb RP.quoted_tok l2 = true ->
  PI.last_amp (l1 ++ t :: l2) = (is_empty l2 && PI.amp_tok t).
Proof.
  intros H2. destruct l2 as [|t2 l2'].
  - cbn [is_empty andb]. apply PI.last_amp_app.
  - cbn [is_empty andb]. change (l1 ++ t :: t2 :: l2') with (l1 ++ [t] ++ (t2 :: l2')).
    rewrite app_assoc, PI.last_amp_app_ne by discriminate. now apply PI.quoted_last_amp.
Qed.

Theorem plan_unquoted_value_iff : forall W fuel cmd l1 l2 noeq br (pre name post : str),
  RP.cmd_ok cmd = true -> EI.cmd_ok W cmd -> Forall EI.inert l1 -> Forall EI.inert l2 ->
  ~ In 36 pre -> ~ In 36 post -> ~ In 126 pre -> forallb (okg noeq) (pre ++ post) = true -> is_name name = true ->
  (br = true \/ match post with c :: _ => is_alnum_us c = false | [] => True end) ->
  let text := pre ++ key_value W name ++ post in
  ~ In 96 text -> has_dollar_paren text = false -> ~ In 42 text -> ~ In 123 text ->
  (plan_toks W fuel ((TNone, cmd) :: l1 ++ (TNone, pre ++ render_piece (PRef br name) ++ post) :: l2)
   = Ok (one_cmd ((TNone, cmd) :: l1 ++ (TNone, text) :: l2))
   <-> known_tok (TNone, text) (is_empty l2) = false).
Proof.
  intros W fuel cmd l1 l2 noeq br pre name post Hrc Hc H1 H2 Hpre Hpost Htl Hg Hn Hbr text H96 Hdp H42 H123.
  unfold plan_toks.
  match goal with |- (bind ?x ?f = _) <-> _ => assert (E : x = Ok ((TNone, cmd) :: l1 ++ (TNone, text) :: l2)) end.
  { apply EU.do_expansion_unquoted_value with (noeq := noeq); assumption. }
  rewrite E. clear E. cbn [bind].
  assert (Hall : forallb PI.inert_tok (l1 ++ (TNone, text) :: l2) = PI.inert_tok (TNone, text)).
  { rewrite forallb_app. cbn [forallb]. rewrite !inert_all_inert_tok by assumption. now rewrite andb_true_r. }
  pose proof (last_amp_mid l1 l2 (TNone, text) (inert_quoted _ H2)) as Hla.
  rewrite known_tok_split. unfold one_cmd. split.
  - intros E. injection E as E. apply (PI.plan_inert_conv cmd _ Hrc) in E as [E1 E2].
    split; [exact (eq_trans (eq_sym Hall) E1)|]. intros Hl.
    pose proof (eq_trans (eq_sym Hla) E2) as E3. destruct l2 as [|x l2']; [exact E3|discriminate Hl].
  - intros [E1 E2]. f_equal. apply PI.plan_inert; [exact Hrc|exact (eq_trans Hall E1)|].
    refine (eq_trans Hla _). destruct l2 as [|x l2']; [exact (E2 eq_refl)|reflexivity].
Qed.

(* ------------------------------------------------------------------ unquoted reference: from the TEXT *)
Theorem plan_unquoted_value_text_iff : forall W fuel cmd (args1 args2 : list (nat * qarg)) n noeq br (pre name post : str),
  plain_word cmd = true -> forallb arith_body cmd = false -> split_env cmd = None -> EI.cmd_ok W cmd ->
  forallb (fun '(_, a) => wf_qarg a) args1 = true -> forallb (fun '(_, a) => wf_qarg a) args2 = true ->
  Forall (fun '(_, a) => calm_qarg a) args1 -> Forall (fun '(_, a) => calm_qarg a) args2 ->
  forallb wchar (pre ++ render_piece (PRef br name) ++ post) = true ->
  ~ In 36 pre -> ~ In 36 post -> ~ In 126 pre -> forallb (okg noeq) (pre ++ post) = true -> is_name name = true ->
  (br = true \/ match post with c :: _ => is_alnum_us c = false | [] => True end) ->
  let text := pre ++ key_value W name ++ post in
  ~ In 96 text -> has_dollar_paren text = false -> ~ In 42 text -> ~ In 123 text ->
  (plan W fuel (render_cmd cmd args1 ++ c_space :: spaces n ++ (pre ++ render_piece (PRef br name) ++ post) ++ render_args args2)
   = Ok (one_cmd ((TNone, cmd) :: toks_of args1 ++ (TNone, text) :: toks_of args2))
   <-> known_tok (TNone, text) (is_empty args2) = false).
Proof.
  intros W fuel cmd args1 args2 n noeq br pre name post Hp Ha He Hc Hw1 Hw2 Hc1 Hc2 Hwc Hpre Hpost Htl Hg Hn Hbr text H96 Hdp H42 H123.
  unfold plan. rewrite parse_line_one_unquoted; try assumption.
  2:{ intros E. apply (f_equal (@length _)) in E. rewrite !app_length in E. destruct br; cbn in E; lia. }
  change (map (fun '(_, a) => tok_of_qarg a) args1) with (toks_of args1).
  change (map (fun '(_, a) => tok_of_qarg a) args2) with (toks_of args2).
  assert (Hemp : is_empty args2 = is_empty (toks_of args2)) by (destruct args2 as [|[? ?] ?]; reflexivity).
  rewrite Hemp.
  apply (plan_unquoted_value_iff W fuel cmd (toks_of args1) (toks_of args2) noeq br pre name post);
    try assumption; try (now apply calm_inert). now apply RP.plain_word_cmd_ok.
Qed.

(* ------------------------------------------------------------------ a GENUINE input redirection on the same line *)
Lemma tok_ok_quoted W l l' : Forall2 (EI.tok_ok W) l l' -> forallb RP.quoted_tok l' = true.
Proof.
  induction 1 as [|t t' l l' Ht _ IH]; [reflexivity|]. cbn [forallb]. rewrite IH, andb_true_r.
  destruct Ht; reflexivity.
Qed.

(** [cmd a.. OP f b..]: a.., b.. quoted arguments (single-quoted, double-quoted with or without
    references -- [EI.tok_ok]), OP the written untagged word [<] or [<<<], f a literal file
    name / word.  The plan is one command with the EXPANDED a.., b.. as words and exactly
    that input redirection: a double-quoted value that is itself [<] stays a word. *)
Theorem plan_toks_with_from : forall W fuel cmd a a' b b' op (f : str),
  RP.cmd_ok cmd = true -> EI.cmd_ok W cmd ->
  Forall2 (EI.tok_ok W) a a' -> Forall2 (EI.tok_ok W) b b' ->
  (op = s_lt \/ op = s_lt3) -> EU.lit_ok f = true -> PI.inert_tok (TNone, f) = true -> str_eqb f [c_amp] = false ->
  plan_toks W fuel ((TNone, cmd) :: a ++ (TNone, op) :: (TNone, f) :: b)
  = Ok (inl (mkcl [mkc ((TNone, cmd) :: a' ++ b') [] (Some (op, f))] [] false)).
Proof.
  intros W fuel cmd a a' b b' op f Hrc Hc Ha Hb Hop Hf Hfi Hfa. unfold plan_toks.
  match goal with |- bind ?x ?g = _ =>
    assert (E : x = Ok ((TNone, cmd) :: a' ++ (TNone, op) :: (TNone, f) :: b')) end.
  { apply EU.do_expansion_inert1; [exact Hc|].
    apply Forall2_app; [now apply EU.tok_ok_ok1_all|].
    constructor; [apply EU.lit_tok_ok1; destruct Hop as [-> | ->]; reflexivity|].
    constructor; [now apply EU.lit_tok_ok1|now apply EU.tok_ok_ok1_all]. }
  rewrite E. cbn [bind]. f_equal.
  apply (PI.plan_inert_from cmd a' b' op (TNone, f)); try assumption.
  - apply PI.quoted_all_inert. eapply tok_ok_quoted; eassumption.
  - apply PI.quoted_all_inert. eapply tok_ok_quoted; eassumption.
  - destruct b' as [|t b''].
    + unfold PI.last_amp, PI.amp_tok. cbn. exact Hfa.
    + change ((TNone, f) :: t :: b'') with ([(TNone, f)] ++ t :: b''). rewrite PI.last_amp_app_ne by discriminate.
      apply PI.quoted_last_amp. eapply tok_ok_quoted; eassumption.
Qed.
