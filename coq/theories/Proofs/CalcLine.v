(** Whole lines: run_calculator never reaches a panic site of the model, its
    integer result is the reference value of the line's tree, and the text of
    every expression tree is read back as that tree. *)
From Coq Require Import ZArith Lia.
From Cicada Require Import Base.Chars Model.Calc Proofs.CalcPratt Proofs.CalcFusion Proofs.CalcInt
  Proofs.CalcWf Proofs.CalcPrint.

(** the tree of a line that parses *)
Definition line_tree (line : str) : option (tree str) :=
  match parse_calc line with
  | POk ps => match pratt_tree (2 * tot ps + 1) ps with Ok t => Some t | _ => None end
  | _ => None
  end.

Lemma pratt_tree_total ps : wf_seq anyleaf ps -> exists t, pratt_tree (2 * tot ps + 1) ps = Ok t.
Proof.
  intros Hw. unfold pratt_tree.
  apply (pratt_total str (tree str) anyleaf prec_of is_left); [eauto|eauto|exact Hw|lia].
Qed.

Theorem line_tree_some line ps : parse_calc line = POk ps -> exists t, line_tree line = Some t.
Proof.
  intros H. unfold line_tree. rewrite H.
  destruct (pratt_tree_total ps (parse_calc_wf _ _ H)) as [t ->]. eauto.
Qed.

Theorem run_calculator_int line r :
  run_calculator line = RInt r -> exists t, line_tree line = Some t /\ r = Ok (ref_eval t).
Proof.
  unfold run_calculator, line_tree. destruct (parse_calc line) as [ps| |] eqn:Ep; try discriminate.
  destruct (has_dot line); [discriminate|]. intros H. injection H as <-.
  destruct (pratt_tree_total ps (parse_calc_wf _ _ Ep)) as [t Et]. rewrite Et.
  exists t. split; [reflexivity|]. exact (eval_int_ref _ _ _ Et).
Qed.

Theorem run_calculator_float line r :
  run_calculator line = RFloat r -> exists t, line_tree line = Some t /\ r = Ok t.
Proof.
  unfold run_calculator, line_tree. destruct (parse_calc line) as [ps| |] eqn:Ep; try discriminate.
  destruct (has_dot line); [|discriminate]. intros H. injection H as <-.
  destruct (pratt_tree_total ps (parse_calc_wf _ _ Ep)) as [t Et]. rewrite Et. eauto.
Qed.

(** no fuel parameter of the model is ever exhausted on a line that the PEG model accepts *)
Theorem run_calculator_cases line :
  run_calculator line = RSyntax \/ run_calculator line = RFuel /\ parse_calc line = PFuel \/
  (exists t, run_calculator line = RInt (Ok (ref_eval t))) \/ (exists t, run_calculator line = RFloat (Ok t)).
Proof.
  destruct (run_calculator line) as [|r|r|] eqn:E; auto.
  - destruct (run_calculator_int line r E) as (t & _ & ->). eauto.
  - destruct (run_calculator_float line r E) as (t & _ & ->). eauto.
  - right. left. split; [reflexivity|]. unfold run_calculator in E.
    destruct (parse_calc line); try discriminate; [destruct (has_dot line); discriminate|reflexivity].
Qed.

(** the text of a tree *)
Theorem line_tree_render sp q :
  forallb is_blankc sp = true -> leaves_ok q -> line_tree (render_str sp q) = Some (strip q).
Proof.
  intros Hsp Hq. unfold line_tree. rewrite (parse_render_str sp q Hsp Hq).
  rewrite pratt_tree_render by lia. reflexivity.
Qed.

Theorem run_calculator_render sp q :
  forallb is_blankc sp = true -> leaves_ok q -> has_dot (render_str sp q) = false ->
  run_calculator (render_str sp q) = RInt (Ok (ref_eval (strip q))).
Proof.
  intros Hsp Hq Hd. unfold run_calculator. rewrite (parse_render_str sp q Hsp Hq), Hd.
  f_equal. apply eval_int_ref. apply pratt_tree_render. lia.
Qed.

Theorem run_calculator_render_float sp q :
  forallb is_blankc sp = true -> leaves_ok q -> has_dot (render_str sp q) = true ->
  run_calculator (render_str sp q) = RFloat (Ok (strip q)).
Proof.
  intros Hsp Hq Hd. unfold run_calculator. rewrite (parse_render_str sp q Hsp Hq), Hd.
  f_equal. apply pratt_tree_render. lia.
Qed.
