(** [$?] inside a line: each executed segment is expanded under the status of the last executed one. *)
From Coq Require Import List ZArith Bool Lia.
From Cicada Require Import Base.Chars Model.Cmds Model.ListExec Model.StatusThread.
Import ListNotations.
Local Open Scope Z_scope.

Section P.
  Variable run_proc : Z -> str -> Z.

  Lemma last_cons_default (x : Z) l d d' : last (x :: l) d = last (x :: l) d'.
  Proof. revert x. induction l as [|y l IH]; intros x; [reflexivity|]. cbn [last] in *. apply (IH y). Qed.

  Lemma chained_app prev a t p st :
    chained prev a -> p = last (map (fun x => snd x) a) prev -> chained prev (a ++ [(t, p, st)]).
  Proof.
    revert prev. induction a as [|[[t0 p0] st0] a IH]; intros prev H E; cbn in *.
    - split; [exact E | exact I].
    - destruct H as [-> H]. split; [reflexivity|]. apply IH; [exact H|].
      destruct a as [|x a']; [exact E|]. rewrite E. cbn [map]. apply last_cons_default.
  Qed.

  (** invariant of the loop: what was seen is chained from the initial status, and sh.previous_status is the
      status of the last executed segment (or the initial one) *)
  Definition inv (prev0 : Z) (s : sst) : Prop :=
    chained prev0 (s_seen s) /\ s_prev s = last (map (fun x => snd x) (s_seen s)) prev0.

  Lemma inv_run prev0 s t : inv prev0 s -> inv prev0 (run_seg run_proc s t).
  Proof.
    intros [H1 H2]. unfold run_seg, inv. cbn [s_seen s_prev]. split.
    - apply chained_app; [exact H1 | exact H2].
    - rewrite map_app. cbn [map snd]. rewrite last_last. reflexivity.
  Qed.

  Lemma inv_step prev0 s t : inv prev0 s -> inv prev0 (step_token run_proc s t).
  Proof.
    intros H. unfold step_token. destruct (op_of t); try exact H.
    destruct (s_sep s); try (apply inv_run; exact H);
      destruct (Z.eqb (s_status s) 0); try exact H; apply inv_run; exact H.
  Qed.

  Theorem thread_tokens_chained prev0 toks :
    inv prev0 (thread_tokens run_proc prev0 toks).
  Proof.
    unfold thread_tokens.
    assert (G : forall l s, inv prev0 s -> inv prev0 (fold_left (step_token run_proc) l s)).
    { induction l as [|t l IH]; intros s H; [exact H|]. cbn [fold_left]. apply IH, inv_step, H. }
    apply G. split; [exact I | reflexivity].
  Qed.

  Theorem status_seen_is_last_executed prev0 line :
    chained prev0 (s_seen (thread_line run_proc prev0 line)) /\
    s_prev (thread_line run_proc prev0 line)
    = last (map (fun x => snd x) (s_seen (thread_line run_proc prev0 line))) prev0.
  Proof. exact (thread_tokens_chained prev0 (line_to_cmds line)). Qed.

  (** agreement with Model/ListExec.v: with the shell's previous_status as the world, the executed segments and
      their statuses are the same *)
  Definition as_world (w : Z) (t : str) : Z * Z := let st := run_proc w t in (st, st).

  Definition rel (s : sst) (e : est Z) : Prop :=
    s_prev s = e_w Z e /\ s_status s = e_status Z e /\ s_sep s = e_sep Z e /\
    map (fun x => (fst (fst x), snd x)) (s_seen s) = e_ran Z e.

  Lemma rel_run s e t : rel s e ->
    rel (run_seg run_proc s t)
        (let '(w', st) := as_world (e_w Z e) t in mke Z w' st (e_sep Z e) (e_ran Z e ++ [(t, st)])).
  Proof.
    intros (H1 & H2 & H3 & H4). unfold run_seg, as_world, rel. cbn. rewrite <- H1.
    repeat split; try reflexivity; try assumption.
    rewrite map_app, H4. reflexivity.
  Qed.

  Lemma rel_step s e t : rel s e -> rel (step_token run_proc s t) (exec_token Z as_world e t).
  Proof.
    intros H. pose proof H as (H1 & H2 & H3 & H4). unfold step_token, exec_token. rewrite H3, H2.
    destruct (op_of t) eqn:O; try (unfold rel; cbn; repeat split; assumption).
    destruct (e_sep Z e) eqn:Es; try (destruct (Z.eqb (e_status Z e) 0)); try exact H;
      rewrite <- Es; apply rel_run; exact H.
  Qed.

  Lemma agree_fold toks : forall (s : sst) (e : est Z), rel s e ->
    rel (fold_left (step_token run_proc) toks s) (fold_left (exec_token Z as_world) toks e).
  Proof.
    induction toks as [|t toks IH]; intros s e H; cbn [fold_left]; [exact H|]. apply IH, rel_step, H.
  Qed.

  Theorem thread_agrees_with_list_exec line :
    let s := thread_line run_proc 0 line in
    let e := run_command_line Z as_world 0 line in
    map (fun x => (fst (fst x), snd x)) (s_seen s) = e_ran Z e /\ s_status s = e_status Z e.
  Proof.
    cbn zeta. unfold thread_line, thread_tokens, run_command_line, run_tokens.
    destruct (agree_fold (line_to_cmds line) (mks 0 0 OpNone []) (mke Z 0 0 OpNone [])) as (_ & B & _ & A).
    { unfold rel; cbn; repeat split; reflexivity. }
    split; [exact A | exact B].
  Qed.
End P.

Print Assumptions status_seen_is_last_executed.
Print Assumptions thread_agrees_with_list_exec.
