(** C15, round 9d: AND-OR LINES (`f && x`, `f || x`, `a ; b`) in the flag-state trace, through the C03
    list model (Model/ListExec.v). The reference runs a line with the SAME and-or loop
    (run_command_line) over a reference pipeline runner; `set -e` tests, after each line, only the LAST
    pipeline that was executed in it. Level and line classes as in Proofs/ShellFlagProofs.v, but a line
    may be any and-or list (no single_pipe hypothesis); `source` excluded. *)
From Cicada Require Import Base.Chars Base.Peg Gen.LocustGrammar Model.Script Model.ScriptAst Model.Args Model.ShellScript Model.Cmds Model.ListExec Model.CondLine
  Proofs.ScriptProofs Proofs.SetEProofs Proofs.ShellProofs Proofs.ShellCallsProofs Proofs.ShellFlagProofs.
From Coq Require Import ZArith Lia.
Local Open Scope N_scope.

Lemma last_app_match acc crs :
  last_or_zero (acc ++ crs) = match crs with [] => last_or_zero acc | _ => last_or_zero crs end.
Proof.
  destruct crs as [|c crs]; [rewrite app_nil_r; reflexivity|].
  induction acc as [|a acc IH]; [reflexivity|]. cbn [app].
  destruct (acc ++ c :: crs)%list as [|y l] eqn:E; [destruct acc; discriminate E|]. exact IH.
Qed.

(** ---- the and-or loop preserves a simulation between two pipeline runners ---- *)
Section Sim.
Variables W1 W2 : Type.
Variable R : W1 -> W2 -> Prop.
Variable bad : W2 -> Prop.
Variable run1 : W1 -> str -> W1 * Z.
Variable run2 : W2 -> str -> W2 * Z.
Hypothesis Habs : forall s t, bad s -> bad (fst (run2 s t)).
Hypothesis Hsim : forall w s t, R w s ->
  bad (fst (run2 s t)) \/ (R (fst (run1 w t)) (fst (run2 s t)) /\ snd (run1 w t) = snd (run2 s t)).

Definition J (a : est W1) (b : est W2) : Prop :=
  bad (e_w W2 b) \/
  (R (e_w W1 a) (e_w W2 b) /\ e_status W1 a = e_status W2 b /\ e_sep W1 a = e_sep W2 b /\
   map snd (e_ran W1 a) = map snd (e_ran W2 b)).

Lemma exec_token_sim a b t : J a b -> J (exec_token W1 run1 a t) (exec_token W2 run2 b t).
Proof.
  intros [Hb | [HR [Hs [Hp Hr]]]].
  - left. unfold exec_token. destruct (op_of t); try exact Hb;
      destruct (e_sep W2 b); try destruct (Z.eqb (e_status W2 b) 0); try exact Hb;
      (pose proof (Habs _ t Hb) as K; destruct (run2 (e_w W2 b) t); exact K).
  - unfold J, exec_token. rewrite <- Hp, <- Hs.
    destruct (op_of t);
      try (right; cbn; repeat split; assumption).
    destruct (e_sep W1 a) eqn:Es; try destruct (Z.eqb (e_status W1 a) 0);
      try (right; split; [exact HR | split; [congruence | split; [congruence | exact Hr]]]);
      (pose proof (Hsim _ _ t HR) as K;
       destruct (run1 (e_w W1 a) t) as [w1 st1]; destruct (run2 (e_w W2 b) t) as [s2 st2];
       cbn [fst snd] in K; destruct K as [K|[K1 K2]];
       [left; exact K | right; cbn; subst st2; split; [assumption | split; [reflexivity | split; [congruence | rewrite !map_app, Hr; reflexivity]]]]).
Qed.

Lemma run_line_of_sim w s line : R w s ->
  bad (fst (run_line_of W2 run2 s line)) \/
  (R (fst (run_line_of W1 run1 w line)) (fst (run_line_of W2 run2 s line)) /\
   snd (run_line_of W1 run1 w line) = snd (run_line_of W2 run2 s line)).
Proof.
  intro HR. unfold run_line_of, run_command_line, run_tokens. cbn [fst snd].
  assert (G : forall toks a b, J a b -> J (fold_left (exec_token W1 run1) toks a) (fold_left (exec_token W2 run2) toks b)).
  { induction toks as [|t toks IH]; intros a b H; [exact H|]. cbn [fold_left]. apply IH, exec_token_sim, H. }
  destruct (G (line_to_cmds line) (mke W1 w 0%Z OpNone []) (mke W2 s 0%Z OpNone [])) as [K|[K1 [_ [_ K2]]]].
  - right. cbn. repeat split. exact HR.
  - left. exact K.
  - right. split; assumption.
Qed.
End Sim.

(** ---- the reference ---- *)
Definition rst : Type := option (bool * list str).     (* flag, commands executed so far; None = out of fuel / source *)

Inductive tab_okw : list (str * str) -> list (str * list str) -> Prop :=
| tabw_nil : tab_okw [] []
| tabw_cons k text lines ft rt :
    flat_parsed text lines -> forallb wf_line lines = true -> tab_okw ft rt ->
    tab_okw ((k, text) :: ft) ((k, lines) :: rt).

Lemma tabw_lookup ft rt : tab_okw ft rt -> forall name,
  match get_func name ft with
  | Some text => exists lines, get_body name rt = Some lines /\ flat_parsed text lines /\ forallb wf_line lines = true
  | None => get_body name rt = None
  end.
Proof.
  induction 1 as [|k text lines ft rt Hp Hok Ht IH]; intro name; [reflexivity|].
  cbn [get_func get_body]. destruct (str_eqb k name); [|apply IH].
  exists lines. repeat split; assumption.
Qed.

Section Ref4.
Variable ext : str -> Z.
Variable rt : list (str * list str).

Section L.
Variable rp : rst -> str -> rst * Z.
(** the lines of a script / body: after each line, with the flag on, the status of the LAST pipeline executed in
    it decides (a line that executed nothing leaves the previous status) *)
Fixpoint alines (ls : list str) (s : rst) (last : Z) : rst * Z :=
  match ls with
  | [] => (s, last)
  | l :: r =>
      let '(s1, crs) := run_line_of rst rp s l in
      let last1 := match crs with [] => last | _ => last_or_zero crs end in
      match s1 with
      | None => (None, 0%Z)
      | Some (e1, _) => if e1 && negb (Z.eqb last1 0) then (s1, last1) else alines r s1 last1
      end
  end.
End L.

(** one pipeline *)
Fixpoint rpipe (fuel : nat) : rst -> str -> rst * Z :=
  match fuel with
  | O => fun _ _ => (None, 0%Z)
  | S f => fun s t =>
      match s with
      | None => (None, 0%Z)
      | Some (e, tr) =>
          match classify2 rt t with
          | QNop => (s, 0%Z)
          | QSetE => (Some (true, tr), 0%Z)
          | QSource => (None, 0%Z)
          | QCall body => alines (rpipe f) body s 0%Z
          | QExt => (Some (e, (tr ++ [t])%list), ext t)
          end
      end
  end.

Lemma rpipe_abs fuel s t : s = None -> fst (rpipe fuel s t) = None.
Proof. intros ->. destruct fuel; reflexivity. Qed.
End Ref4.

Section AndOr.
Variable ext : str -> Z.
Variable file_text : str -> option str.
Variable n : nat.
Variable ft : list (str * str).
Variable rt : list (str * list str).
Hypothesis Htab : tab_okw ft rt.
Variable log0 : list str.

Notation XL f := (exec_line ext file_text n f).
Notation RP f := (rpipe ext rt f).

Definition Rel (w : shs) (s : rst) : Prop :=
  exists tr, s = Some (s_eoe w, tr) /\ s_log w = (log0 ++ tr)%list /\ s_funcs w = ft.
Definition isbad (s : rst) : Prop := s = None.

Definition psim (fuel : nat) : Prop := forall w s t, Rel w s ->
  isbad (fst (RP fuel s t)) \/
  (Rel (fst (exec_pipe ext file_text n fuel w t)) (fst (RP fuel s t)) /\
   snd (exec_pipe ext file_text n fuel w t) = snd (RP fuel s t)).

Definition main4_at (fuel : nat) : Prop :=
  forall lines, forallb wf_line lines = true ->
  forall rif rfor rwh tail w s acc e' tr' st, forallb empty_node tail = true -> Rel w s ->
  alines (RP fuel) lines s (last_or_zero acc) = (Some (e', tr'), st) ->
  exists sts,
    exp_loop shs (XL fuel) s_eoe rif rfor rwh false (map cmd_node lines ++ tail) w acc =
      Done (mk_shs e' ft (log0 ++ tr')) (acc ++ sts) false false
    /\ last_or_zero (acc ++ sts) = st.

Lemma loop_step4 rif rfor rwh fuel l rest w acc : wf_line l = true ->
  exp_loop shs (XL fuel) s_eoe rif rfor rwh false (cmd_node l :: rest) w acc =
  (let '(w1, crs) := XL fuel w l in
   if last_is_nonzero (acc ++ crs) && s_eoe w1 then Done w1 (acc ++ crs) false false
   else exp_loop shs (XL fuel) s_eoe rif rfor rwh false rest w1 (acc ++ crs)).
Proof.
  intro Hl. unfold wf_line in Hl. apply andb_prop in Hl as [Hl H3]. apply andb_prop in Hl as [H1 H2].
  apply negb_true_iff in H1, H2, H3.
  cbn [exp_loop cmd_node t_txt t_rule]. rewrite H1, H2, H3, N.eqb_refl. reflexivity.
Qed.

Lemma main_of_psim fuel : psim fuel -> main4_at fuel.
Proof.
  intros Hps lines. induction lines as [|l r IHr]; intros Hok rif rfor rwh tail w s acc e' tr' st Ht HR Ha.
  - cbn [alines] in Ha. injection Ha as -> <-. cbn [map app].
    rewrite (tail_loop ext file_text n rif rfor rwh tail Ht). exists []. rewrite !app_nil_r.
    destruct HR as [tr [E [Hl Hf]]]. injection E as -> ->.
    destruct w as [e fs lg]. cbn [s_eoe s_funcs s_log] in *. subst. split; reflexivity.
  - cbn [forallb] in Hok. apply andb_prop in Hok as [Hl Hr].
    cbn [alines] in Ha. cbn [map app]. rewrite (loop_step4 rif rfor rwh fuel l _ w acc Hl).
    pose proof (run_line_of_sim shs rst Rel isbad (exec_pipe ext file_text n fuel) (RP fuel)
                  (fun s t H => rpipe_abs ext rt fuel s t H) Hps w s l HR) as K.
    change (run_line_of shs (exec_pipe ext file_text n fuel) w l) with (XL fuel w l) in K.
    destruct (run_line_of rst (RP fuel) s l) as [s1 crs2]. destruct (XL fuel w l) as [w1 crs].
    cbn [fst snd] in K. destruct K as [K|[K1 K2]].
    { unfold isbad in K. subst s1. discriminate Ha. }
    subst crs2. destruct K1 as [tr1 [-> [Hl1 Hf1]]].
    rewrite last_nz_or_zero, last_app_match, andb_comm.
    destruct (s_eoe w1 && negb (Z.eqb match crs with [] => last_or_zero acc | _ :: _ => last_or_zero crs end 0)) eqn:C.
    + injection Ha as <- <- <-. exists crs.
      destruct w1 as [e1 fs1 lg1]. cbn [s_eoe s_funcs s_log] in *. subst.
      split; [reflexivity | apply last_app_match].
    + destruct (IHr Hr rif rfor rwh tail w1 (Some (s_eoe w1, tr1)) (acc ++ crs) e' tr' st Ht) as [sts [I1 I2]].
      { exists tr1. repeat split; assumption. }
      { rewrite last_app_match. exact Ha. }
      rewrite I1. exists (crs ++ sts)%list. rewrite <- !app_assoc in *. split; [reflexivity | exact I2].
Qed.

Lemma body_call4 f : main4_at f -> forall text body w s e' tr' st,
  flat_parsed text body -> forallb wf_line body = true -> Rel w s ->
  alines (RP f) body s 0%Z = (Some (e', tr'), st) ->
  exists sts,
    run_lines shs (XL f) no_words no_setvar s_eoe n text w =
      Some (Done (mk_shs e' ft (log0 ++ tr')) sts false false)
    /\ last_or_zero sts = st.
Proof.
  intros IH text body w s e' tr' st [p [r [pairs [rule [txt [tail [Hp [Hm Ht]]]]]]]] Hok HR Ha.
  unfold run_lines. rewrite Hp, Hm, run_pairs_one. erewrite exp_loop_skel by exact Ht.
  destruct (IH body Hok
              (run_exp_if shs (XL f) no_words no_setvar s_eoe n (length text))
              (run_exp_for shs (XL f) no_words no_setvar s_eoe n (length text))
              (run_exp_while shs (XL f) no_words no_setvar s_eoe n (length text))
              [] w s [] e' tr' st eq_refl HR Ha) as [sts [H1 H2]].
  rewrite H1. cbn [app] in *. exists sts. split; [reflexivity | exact H2].
Qed.

Lemma psim_S f : main4_at f -> psim (S f).
Proof.
  intros IH w s t HR. pose proof HR as [tr [-> [Hlog Hf]]].
  cbn [rpipe]. unfold classify2.
  pose proof (exec_pipe_S ext file_text n f w t) as Hx.
  destruct (cmd_words t) as [|cmd args].
  { rewrite Hx. right. split; [exact HR | reflexivity]. }
  destruct (str_eqb cmd [115; 101; 116] && match args with [a] => str_eqb a [45; 101] | _ => false end).
  { rewrite Hx. right. split; [|reflexivity]. exists tr. repeat split; assumption. }
  destruct (str_eqb cmd s_source); [left; reflexivity|].
  pose proof (tabw_lookup ft rt Htab cmd) as Hlk. rewrite Hf in Hx.
  destruct (get_func cmd ft) as [text|].
  - destruct Hlk as [body [Hb [Hpar Hbok]]]. rewrite Hb.
    destruct (alines (RP f) body (Some (s_eoe w, tr)) 0%Z) as [[[e1 tr1]|] st1] eqn:A; [|left; reflexivity].
    destruct (body_call4 f IH text body w _ e1 tr1 st1 Hpar Hbok HR A) as [bs [R1 R2]].
    change (run_line_of shs (exec_pipe ext file_text n f)) with (XL f) in Hx.
    rewrite R1 in Hx. unfold func_call_status in Hx. rewrite R2 in Hx. rewrite Hx.
    right. split; [|reflexivity]. exists tr1. repeat split.
  - rewrite Hlk, Hx. right. split; [|reflexivity]. exists (tr ++ [t])%list. cbn [s_eoe s_log s_funcs].
    rewrite Hlog, app_assoc. repeat split.
Qed.

Lemma andor_all : forall fuel, psim fuel /\ main4_at fuel.
Proof.
  induction fuel as [|f [_ IH]].
  - assert (P0 : psim 0) by (intros w s t _; left; reflexivity). split; [exact P0 | apply main_of_psim, P0].
  - pose proof (psim_S f IH) as P. split; [exact P | apply main_of_psim, P].
Qed.
End AndOr.

(** a text (script / body) of and-or lines, from ANY flag *)
Theorem andor_trace_lines : forall ext file_text n ft rt, tab_okw ft rt ->
  forall fuel text lines w e' tr st,
  flat_parsed text lines -> forallb wf_line lines = true -> s_funcs w = ft ->
  alines (rpipe ext rt fuel) lines (Some (s_eoe w, [])) 0%Z = (Some (e', tr), st) ->
  exists sts,
    run_lines shs (exec_line ext file_text n fuel) no_words no_setvar s_eoe n text w =
      Some (Done (mk_shs e' ft (s_log w ++ tr)) sts false false)
    /\ script_status sts = st.
Proof.
  intros ext file_text n ft rt Htab fuel text lines w e' tr st Hp Hok Hf Ha.
  apply (body_call4 ext file_text n ft rt (s_log w) fuel
           (proj2 (andor_all ext file_text n ft rt Htab (s_log w) fuel)) text lines w (Some (s_eoe w, [])) e' tr st Hp Hok);
    [|exact Ha].
  exists []. rewrite app_nil_r. repeat split. exact Hf.
Qed.

(** the script: run_script restores the caller's flag *)
Theorem andor_trace_script : forall ext file_text n fuel path text defs text_new rt lines w e' tr st,
  file_text path = Some text -> function_table text = (defs, text_new) ->
  tab_okw (set_funcs defs (s_funcs w)) rt ->
  flat_parsed text_new lines -> forallb wf_line lines = true ->
  alines (rpipe ext rt fuel) lines (Some (s_eoe w, [])) 0%Z = (Some (e', tr), st) ->
  run_script ext file_text n (S fuel) w path =
    (mk_shs (s_eoe w) (set_funcs defs (s_funcs w)) (s_log w ++ tr), st).
Proof.
  intros ext file_text n fuel path text defs text_new rt lines w e' tr st Hfile Hft Htab Hpar Hok Ha.
  rewrite run_script_S, Hfile, Hft. cbv zeta.
  change (run_line_of shs (exec_pipe ext file_text n fuel)) with (exec_line ext file_text n fuel).
  destruct (andor_trace_lines ext file_text n (set_funcs defs (s_funcs w)) rt Htab fuel text_new lines
              (mk_shs (s_eoe w) (set_funcs defs (s_funcs w)) (s_log w)) e' tr st Hpar Hok eq_refl Ha) as [sts [H1 H2]].
  rewrite H1. cbn [s_funcs s_log]. rewrite H2. reflexivity.
Qed.

(** on lines that are single pipelines (here and in every body) the and-or reference is the flag-state reference *)
Section AlinesRefl.
Variable ext : str -> Z.
Variable rt : list (str * list str).
Hypothesis Hrt : forall name body, get_body name rt = Some body -> forallb single_pipe body = true.

Lemma alines_refl : forall fuel ls e last e' tr st, forallb single_pipe ls = true ->
  refl ext rt fuel ls e last = Some (e', tr, st) ->
  forall tr0, alines (rpipe ext rt fuel) ls (Some (e, tr0)) last = (Some (e', (tr0 ++ tr)%list), st).
Proof.
  induction fuel as [|f IHf]; [discriminate|].
  induction ls as [|l r IHr]; intros e last e' tr st Hs H tr0.
  - cbn in H. injection H as <- <- <-. cbn [alines]. rewrite app_nil_r. reflexivity.
  - cbn [forallb] in Hs. apply andb_prop in Hs as [Hl Hr].
    change (refl ext rt (S f) (l :: r) e last) with (ref_lines ext rt (fun b e => refl ext rt f b e 0%Z) (l :: r) e last) in H.
    cbn [ref_lines] in H.
    change (ref_lines ext rt (fun b e => refl ext rt f b e 0%Z) r) with (refl ext rt (S f) r) in H.
    cbn [alines]. rewrite (run_line_single rst _ (Some (e, tr0)) l Hl).
    assert (E : rpipe ext rt (S f) (Some (e, tr0)) l =
                match classify2 rt l with
                | QNop => (Some (e, tr0), 0%Z)
                | QSetE => (Some (true, tr0), 0%Z)
                | QSource => (None, 0%Z)
                | QCall body => alines (rpipe ext rt f) body (Some (e, tr0)) 0%Z
                | QExt => (Some (e, (tr0 ++ [l])%list), ext l)
                end) by reflexivity.
    rewrite E. clear E.
    unfold classify2 in *.
    destruct (cmd_words l) as [|cmd args].
    { cbn [fst snd last_or_zero Z.eqb negb]. rewrite andb_false_r. exact (IHr _ _ _ _ _ Hr H tr0). }
    destruct (str_eqb cmd [115; 101; 116] && match args with [a] => str_eqb a [45; 101] | _ => false end).
    { cbn [fst snd last_or_zero Z.eqb negb andb]. exact (IHr _ _ _ _ _ Hr H tr0). }
    destruct (str_eqb cmd s_source); [discriminate H|].
    destruct (get_body cmd rt) as [body|] eqn:Gb.
    + destruct (refl ext rt f body e 0%Z) as [[[e1 tr1] st1]|] eqn:B; [|discriminate H].
      rewrite (IHf body e 0%Z e1 tr1 st1 (Hrt cmd body Gb) B tr0). cbn [fst snd last_or_zero].
      destruct (e1 && negb (Z.eqb st1 0)); [injection H as <- <- <-; reflexivity|].
      destruct (refl ext rt (S f) r e1 st1) as [[[e2 tr2] st2]|] eqn:R; [|discriminate H].
      injection H as <- <- <-. rewrite (IHr _ _ _ _ _ Hr R (tr0 ++ tr1)%list), <- app_assoc. reflexivity.
    + cbn [fst snd last_or_zero].
      destruct (e && negb (Z.eqb (ext l) 0)); [injection H as <- <- <-; reflexivity|].
      destruct (refl ext rt (S f) r e (ext l)) as [[[e2 tr2] st2]|] eqn:R; [|discriminate H].
      injection H as <- <- <-. rewrite (IHr _ _ _ _ _ Hr R (tr0 ++ [l])%list), <- app_assoc. reflexivity.
Qed.
End AlinesRefl.
