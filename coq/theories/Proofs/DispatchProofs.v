(** The cd context: a line that starts with blanks, [cd], one or more blanks is
    handled by the cd completer WHATEVER follows (for_cd is a prefix test) unless
    one of the completers tested before it claims the line, and the cd completer
    offers directories only (through symbolic links). The regexes are the
    generated ones (Gen/CompleterRegexes.v): a changed for_cd pattern breaks
    [for_cd_prefix]. *)
From Cicada Require Import Base.Chars Base.Tag Base.Regex Gen.CompleterRegexes Model.Tokenizer Model.Complete
  Proofs.TokenizerProofs Proofs.CandidatesProofs.
From Coq Require Import Sorting.Permutation.
Local Open Scope N_scope.

Lemma star_blanks n : Matches (Star (Chr false [(32, 32)])) (spaces n).
Proof.
  induction n as [|n IH]; [constructor|]. change (spaces (S n)) with ([c_space] ++ spaces n).
  apply MStarS; [constructor; reflexivity|exact IH].
Qed.

Lemma rx_search_prefix p b c :
  rx_ab p = true -> rx_ae p = false -> Matches (rx_re p) b -> rx_search p (b ++ c) = true.
Proof.
  intros Hb He Hm. unfold rx_search. apply matchb_spec. unfold rx_full. rewrite Hb, He.
  change (b ++ c) with ([] ++ (b ++ c)). constructor; [constructor|]. constructor; [exact Hm|apply any_star].
Qed.

(** blanks, cd, at least one blank, then ANYTHING (blanks included): cd context *)
Theorem for_cd_prefix n m rest :
  for_cd (spaces n ++ [99; 100] ++ c_space :: spaces m ++ rest) = true.
Proof.
  unfold for_cd.
  replace (spaces n ++ [99; 100] ++ c_space :: spaces m ++ rest)
    with ((spaces n ++ ([99] ++ ([100] ++ ([c_space] ++ spaces m)))) ++ rest)
    by (rewrite <- !app_assoc; reflexivity).
  apply rx_search_prefix; try reflexivity.
  unfold rx_for_cd. cbn [rx_re].
  apply MCat; [apply star_blanks|].
  apply MCat; [constructor; reflexivity|].
  apply MCat; [constructor; reflexivity|].
  apply MCat; [constructor; reflexivity|apply star_blanks].
Qed.

(** the cd completer offers directories only *)
Lemma cp_dir_comp_of d sep ie nm b : cp_dir (comp_of d sep ie (nm, b)) = b.
Proof. reflexivity. Qed.

Theorem cd_candidates_dirs fs getenv word l :
  complete_path fs getenv word true = COk l -> forall c, In c l -> cp_dir c = true.
Proof.
  unfold complete_path. intros H c Hc. cbv zeta in H.
  repeat match type of H with
         | context [let '(_, _) := ?x in _] => destruct x
         | context [if ?x then _ else _] => destruct x; [discriminate H|]
         | context [match ?x with EnvText _ => _ | EnvUnmodelled => _ end] => destruct x; [|discriminate H]
         | context [match ?x with Some _ => _ | None => _ end] => destruct x
         end.
  - injection H as <-.
    apply (Permutation_in _ (sort_comps_perm _)) in Hc.
    apply in_map_iff in Hc as (e & <- & He). apply filter_In in He as [_ He].
    apply andb_true_iff in He as [He _]. cbn [negb orb] in He. exact He.
  - injection H as <-. destruct Hc.
Qed.

Definition all_dirs (r : tabres) : Prop :=
  match r with
  | TOne _ c => cp_dir c = true
  | TMany _ cs => Forall (fun c => cp_dir c = true) cs
  | _ => True
  end.

(** a line  blanks cd blanks+ rest  that no earlier completer claims: TAB offers directories only *)
Theorem cd_context fs getenv dots n m rest :
  let line := spaces n ++ [99; 100] ++ c_space :: spaces m ++ rest in
  dots line = false -> for_ssh line = false -> for_make line = false -> for_bin line = false -> for_env line = false ->
  dispatch (dots line) line = DCd /\ all_dirs (tab_line fs getenv dots line).
Proof.
  intros line Hd Hs Hm Hb He.
  assert (D : dispatch (dots line) line = DCd).
  { unfold dispatch. rewrite Hd, Hs, Hm, Hb, He. unfold line. now rewrite for_cd_prefix. }
  split; [exact D|]. unfold tab_line. rewrite D.
  destruct (split_bytes (escaped_word_start line) line) as [[pre word]|]; [|exact I].
  destruct (complete_path fs getenv word true) as [|l] eqn:E; [exact I|].
  pose proof (cd_candidates_dirs fs getenv word l E) as Hall.
  destruct l as [|c [|c2 l']]; cbn [all_dirs]; [exact I|apply Hall; now left|].
  apply Forall_forall. exact Hall.
Qed.

(** the cases of the property: a directory prefix with an escaped blank, inside an open quote, and a second word *)
Example cd_dispatch_examples :
  dispatch false [99;100;32;109;121;92;32;100] = DCd /\            (* cd my\ d *)
  dispatch false [99;100;32;34;109;121;32;100] = DCd /\            (* cd, blank, double quote, my d *)
  dispatch false [99;100;32;39;109;121;32;100] = DCd /\            (* cd, blank, single quote, my d *)
  dispatch false [32;99;100;32;32;120;32;121] = DCd /\             (*  cd  x y  *)
  dispatch false [99;100;32;36;72] = DEnv /\                       (* cd $H : the variable completer comes first *)
  dispatch false [104;112;32;120] = DPath /\                       (* hp x *)
  dispatch false [99;100] = DBin.                                  (* cd alone: a command word *)
Proof. repeat split; vm_compute; reflexivity. Qed.
