(** C12: token-level consequences of the index-buffer lemma, tilde expansion, the glob
    filter, and the concrete witnesses against the full statement. *)
From Coq Require Import List NArith ZArith Bool Lia.
From Cicada Require Import Base.Chars Base.Tag Base.Regex Gen.ShellRegexes Model.Expand Model.ExpandRef
  Proofs.ExpandBasics Proofs.BraceProofs.
Import ListNotations.
From Coq Require String.
Import String.StringSyntax.
Local Open Scope N_scope.

(** what one pass does to one token *)
Definition sel_tokens (sel : token -> res selr) (t : token) : tokens :=
  match sel t with Ok (Repl l) => l | _ => [t] end.

Lemma collect_no_abort (sel : token -> res selr) toks :
  (forall t, In t toks -> exists d, sel t = Ok d /\ d <> Abort) ->
  forall i, exists buff, collect sel toks i = Ok (Some buff).
Proof.
  induction toks as [|t r IH]; intros H i; cbn [collect]; [eexists; reflexivity|].
  destruct (H t (or_introl eq_refl)) as (d & Hd & Hn). rewrite Hd. cbn [bind].
  assert (Hr : forall x, In x r -> exists d, sel x = Ok d /\ d <> Abort) by (intros x Hx; apply H; right; exact Hx).
  destruct (IH Hr (S i)) as [b Hb].
  destruct d; [eexists; exact Hb | contradiction |]. rewrite Hb. cbn. eexists; reflexivity.
Qed.

(** a pass that never aborts rewrites each selected token in place and leaves every
    other token, and the order of all of them, untouched *)
Theorem pass_is_flat_map (sel : token -> res selr) toks :
  (forall t, In t toks -> exists d, sel t = Ok d /\ d <> Abort) ->
  run_pass sel toks = Ok (flat_map (sel_tokens sel) toks).
Proof.
  intros H. destruct (collect_no_abort sel toks H 0%nat) as [b Hb].
  rewrite (run_pass_ok sel toks b Hb). reflexivity.
Qed.

Lemma brace_sel_total t : (exists r, brace_getitem (snd t) 0 = Ok r) -> exists d, brace_sel t = Ok d /\ d <> Abort.
Proof.
  intros [r Hr]. unfold brace_sel.
  destruct (negb (tag_is_empty (fst t)) || negb (need_expand_brace (snd t))).
  - exists Skip. split; [reflexivity | discriminate].
  - rewrite Hr. cbn. eexists; split; [reflexivity | discriminate].
Qed.

Theorem expand_brace_in_place toks :
  (forall t, In t toks -> exists r, brace_getitem (snd t) 0 = Ok r) ->
  expand_brace toks = Ok (flat_map (sel_tokens brace_sel) toks).
Proof. intros H. apply pass_is_flat_map. intros t Ht. apply brace_sel_total, H, Ht. Qed.

Theorem expand_glob_in_place W toks :
  (forall t, In t toks -> glob W (snd t) <> None) ->
  expand_glob W toks = Ok (flat_map (sel_tokens (glob_sel W)) toks).
Proof.
  intros H. apply pass_is_flat_map. intros t Ht. unfold glob_sel.
  destruct (negb (tag_is_empty (fst t)) || negb (needs_globbing (snd t))).
  - exists Skip. split; [reflexivity | discriminate].
  - unfold glob_one.
    destruct (negb (contains_char 42 (snd t)) || starts_with [39] (trim (snd t)) || starts_with [34] (trim (snd t))).
    + eexists; split; [reflexivity | discriminate].
    + destruct (glob W (snd t)) eqn:E; [|exfalso; exact (H t Ht E)].
      eexists; split; [reflexivity | discriminate].
Qed.

(** the glob filter: the oracle's entries in the oracle's order, minus . and .. , minus
    hidden names unless the pattern's last component starts with .* , and (since 7572cd1) minus the
    paths with a hidden DIRECTORY component the pattern does not spell out ([glob_keep], Model/Expand.v;
    Proofs/RangeGlobProofs.v: glob_keep_no_hidden_dir); the pattern itself
    when nothing is left; a name with a blank stays one (double-quote tagged) token *)
Theorem glob_token_spec W item paths :
  contains_char 42 item = true -> starts_with [39] (trim item) = false -> starts_with [34] (trim item) = false ->
  needs_globbing item = true -> glob W item = Some paths ->
  sel_tokens (glob_sel W) (TNone, item) =
  map retag (let r := filter (glob_keep item (starts_with [46; 42] (basename item))) paths in
             if is_empty r then [item] else r).
Proof.
  intros H1 H2 H3 H4 H5. unfold sel_tokens, glob_sel, glob_one. cbn [fst snd tag_is_empty tag_eqb negb orb].
  rewrite H4, H1, H2, H3, H5. reflexivity.
Qed.

(* ------------------------------------------------------------------ tilde *)
Lemma span_not_nl_all s : ~ In 10 s -> span not_nl s = (s, []).
Proof.
  induction s as [|c s IH]; intros H; [reflexivity|]. cbn [span]. unfold not_nl at 1.
  destruct (c =? 10) eqn:E.
  - apply N.eqb_eq in E. exfalso. apply H. left. exact E.
  - cbn [negb]. rewrite IH; [reflexivity|]. intros Hi. apply H. right. exact Hi.
Qed.

Lemma span_rebuild p (s : str) : fst (span p s) ++ snd (span p s) = s.
Proof.
  induction s as [|c s IH]; [reflexivity|]. cbn [span]. destruct (p c); [|reflexivity].
  destruct (span p s) as [a b]. cbn [fst snd app] in *. rewrite IH. reflexivity.
Qed.

(** since 1c7eddf for EVERY home directory (it is text), and for every rest (newlines included) *)
Theorem expand_home_spec W rest : expand_home_tok W (TNone, 126 :: rest) = (TNone, home W ++ rest).
Proof.
  unfold expand_home_tok. cbn [fst snd tag_is_empty tag_eqb strip_prefix].
  cbn [N.eqb Pos.eqb]. unfold home_replace, split_nl.
  pose proof (span_rebuild not_nl rest) as E. destruct (span not_nl rest) as [tl post]. cbn [fst snd] in E.
  rewrite <- app_assoc, E. reflexivity.
Qed.

Theorem expand_home_other W tg s : tg <> TNone \/ strip_prefix [126] s = None -> expand_home_tok W (tg, s) = (tg, s).
Proof.
  intros [H|H]; unfold expand_home_tok; cbn [fst snd].
  - destruct tg; try contradiction; reflexivity.
  - rewrite H. destruct (tag_is_empty tg); reflexivity.
Qed.

(* ------------------------------------------------------------------ witnesses *)
(** echo a{1..3}b : since f69a693 the text around the range is kept (regression example) *)
Lemma range_keeps_affixes :
  expand_brace_range [(TNone, s2l "echo"); (TNone, s2l "a{1..3}b")]
  = Ok [(TNone, s2l "echo"); (TNone, s2l "a1b"); (TNone, s2l "a2b"); (TNone, s2l "a3b")].
Proof. vm_compute. reflexivity. Qed.

(** echo {2147483646..2147483647} : since 3746800 the loop stops at the i32 limit (regression example) *)
Lemma range_at_i32_max :
  expand_brace_range [(TNone, s2l "{2147483646..2147483647}")]
  = Ok [(TNone, s2l "2147483646"); (TNone, s2l "2147483647")].
Proof. vm_compute. reflexivity. Qed.

(** echo {1..2} {1..99999999999} : since 9bedc7c an operand out of range skips THAT token only (regression example) *)
Lemma range_bad_operand_skipped :
  expand_brace_range [(TNone, s2l "{1..2}"); (TNone, s2l "{1..99999999999}")]
  = Ok [(TNone, s2l "1"); (TNone, s2l "2"); (TNone, s2l "{1..99999999999}")].
Proof. vm_compute. reflexivity. Qed.

(** echo {a}{b,c} : since 4f56aed a group without a comma keeps its braces and consumes the closing one *)
Lemma single_alternative_group :
  brace_getitem (s2l "{a}{b,c}") 0 = Ok ([s2l "{a}b"; s2l "{a}c"], []).
Proof. vm_compute. reflexivity. Qed.

(** HOME=/h$tail ; echo ~/x : since 1c7eddf the home directory is text (regression example) *)
Lemma home_with_dollar :
  expand_home_tok (mkWorld (fun _ => None) (fun _ => None) 0%Z 1%Z (s2l "/h$tail") (fun _ => None) (fun _ => None)
                           (fun _ => None)) (TNone, s2l "~/x") = (TNone, s2l "/h$tail/x").
Proof. vm_compute. reflexivity. Qed.

Print Assumptions pass_is_flat_map.
Print Assumptions glob_token_spec.
Print Assumptions range_keeps_affixes.
Print Assumptions range_bad_operand_skipped.
