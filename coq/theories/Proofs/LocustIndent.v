(** C14, parser half, round 9: indentation and blank lines.
    A small compositional calculus [parsedS] -- "expression e, started after [pre], consumes [text]
    except possibly a suffix of blanks, and yields these trimmed trees" -- whose sequence rule runs the
    implicit skip over the left-over blanks and over the indentation of what follows. With it the
    block rules of the grammar are re-proved for scripts whose statements, closing keywords and arms
    are preceded by any number of spaces / tabs, and which may hold blank lines. *)
From Cicada Require Import Base.Chars Base.Peg Gen.LocustGrammar Model.Script Model.ScriptAst
  Proofs.PegProofs Proofs.LocustParse Proofs.ScriptProofs Proofs.LocustBlocks.
From Coq Require Import ZArith Lia Arith.
Local Open Scope N_scope.

Definition blanks (s : str) : Prop := forallb is_blank s = true.

Lemma blanks_app a b : blanks a -> blanks b -> blanks (a ++ b).
Proof. unfold blanks. intros Ha Hb. rewrite forallb_app, Ha, Hb. reflexivity. Qed.
Lemma blanks_nil : blanks []. Proof. reflexivity. Qed.
Ltac blk := repeat first [assumption | apply blanks_nil | apply blanks_app].

(** ---- trimming and blanks ---- *)
Lemma blank_is_ws c : is_blank c = true -> is_ws c = true.
Proof.
  unfold is_blank. intro H. apply orb_prop in H as [H|H]; apply N.eqb_eq in H; subst c; reflexivity.
Qed.

Lemma trim_start_blank_app i x : blanks i -> trim_start (i ++ x) = trim_start x.
Proof.
  induction i as [|c i IH]; intro H; [reflexivity|]. unfold blanks in H. cbn [forallb] in H.
  apply andb_prop in H as [Hc Hi]. cbn [app trim_start]. rewrite (blank_is_ws c Hc). apply IH, Hi.
Qed.

Lemma blanks_rev b : blanks b -> blanks (rev b).
Proof.
  unfold blanks. rewrite !forallb_forall. intros H c Hc. apply H. apply in_rev. exact Hc.
Qed.

Lemma trim_end_app_blank x b : blanks b -> trim_end (x ++ b) = trim_end x.
Proof.
  intro H. unfold trim_end. rewrite rev_app_distr. rewrite trim_start_blank_app by (apply blanks_rev, H). reflexivity.
Qed.

Lemma trim_app_blank x b : blanks b -> trim (x ++ b) = trim x.
Proof.
  intro H. unfold trim. induction x as [|c x IH].
  - cbn [app]. rewrite <- (app_nil_r b). rewrite trim_start_blank_app by exact H. reflexivity.
  - cbn [app trim_start]. destruct (is_ws c); [exact IH|].
    change (c :: x ++ b) with ((c :: x) ++ b). apply trim_end_app_blank, H.
Qed.

Lemma trim_blank_app i x : blanks i -> trim (i ++ x) = trim x.
Proof. intro H. unfold trim. rewrite trim_start_blank_app by exact H. reflexivity. Qed.

(** ---- the calculus ---- *)
Definition parsedS (e : pexp) (pre text rest : str) (tt : list ttree) : Prop :=
  exists a b Ts, text = a ++ b /\ blanks b /\
    EV e AtNon (length pre) (text ++ rest) (POk (length pre + length a) (b ++ rest) Ts) /\
    map (annotate (pre ++ text ++ rest)) Ts = tt.

Lemma EV_eq e pos pos' r r' res res' :
  EV e AtNon pos r res -> pos = pos' -> r = r' -> res = res' -> EV e AtNon pos' r' res'.
Proof. intros H -> -> ->. exact H. Qed.

Ltac len := solve [len_eq].
Ltac napp := solve [norm_app].
Ltac res_eq := first [reflexivity | f_equal; first [len | napp]].
Ltac evq H := eapply EV_eq; [exact H | first [reflexivity | len] | first [reflexivity | napp] | res_eq].

Lemma skipS bl pos r r' : blanks bl -> starts_blank r = false -> r' = bl ++ r ->
  EV PSkip AtNon pos r' (POk (pos + length bl) r []).
Proof. intros Hb Hr ->. apply skip_blanks; assumption. Qed.

Lemma parsed_S e pre text rest tt : parsed e pre text rest tt -> parsedS e pre text rest tt.
Proof.
  intros [Ts [E A]]. exists text, [], Ts. split; [symmetry; apply app_nil_r|]. split; [reflexivity|].
  split; [exact E | exact A].
Qed.

Lemma seqS a b pre t1 i t2 rest tt1 tt2 :
  parsedS a pre t1 (i ++ t2 ++ rest) tt1 -> blanks i -> starts_blank (t2 ++ rest) = false ->
  parsedS b (pre ++ t1 ++ i) t2 rest tt2 ->
  parsedS (PSeq a b) pre (t1 ++ i ++ t2) rest (tt1 ++ tt2).
Proof.
  intros [a1 [b1 [T1 [Et1 [Hb1 [E1 A1]]]]]] Hi Hs [a2 [b2 [T2 [Et2 [Hb2 [E2 A2]]]]]].
  exists (t1 ++ i ++ a2), b2, (T1 ++ [] ++ T2).
  split; [subst t2; napp|]. split; [exact Hb2|]. split.
  - eapply evals_seq_ok.
    + evq E1.
    + apply (skipS (b1 ++ i)); [blk | exact Hs | napp].
    + subst t1. evq E2.
  - rewrite !map_app. cbn [map app]. f_equal.
    + rewrite <- A1. f_equal. napp.
    + rewrite <- A2. f_equal. napp.
Qed.

Lemma seqS' a b pre t1 t2 rest tt1 tt2 :
  parsedS a pre t1 (t2 ++ rest) tt1 -> starts_blank (t2 ++ rest) = false ->
  parsedS b (pre ++ t1) t2 rest tt2 ->
  parsedS (PSeq a b) pre (t1 ++ t2) rest (tt1 ++ tt2).
Proof.
  intros H1 Hs H2. apply (seqS a b pre t1 [] t2 rest tt1 tt2 H1 blanks_nil Hs).
  rewrite app_nil_r. exact H2.
Qed.

(** an expression that consumes nothing and emits nothing, in front *)
Lemma seq0S a b pre text rest tt :
  (forall pos r, EV a AtNon pos r (POk pos r [])) -> starts_blank (text ++ rest) = false ->
  parsedS b pre text rest tt -> parsedS (PSeq a b) pre text rest tt.
Proof.
  intros Ha Hs [a2 [b2 [T2 [Et [Hb [E A]]]]]]. exists a2, b2, ([] ++ [] ++ T2).
  split; [exact Et|]. split; [exact Hb|]. split; [|exact A].
  eapply evals_seq_ok; [apply Ha | apply skip_none, Hs | exact E].
Qed.

Lemma refS r body pre text rest tts :
  lookup r (g_rules l_grammar) = Some (MNormal, body) -> opt_eqb (g_ws l_grammar) r = false ->
  parsedS body pre text rest tts -> parsedS (PRef r) pre text rest [TNode r (trim text) tts].
Proof.
  intros Hl Hw [a [b [Ts [Et [Hb [E A]]]]]]. exists a, b, [Node r (length pre) (length pre + length a) Ts].
  split; [exact Et|]. split; [exact Hb|]. split.
  - eapply evals_ref_normal_ok; eassumption.
  - cbn [map]. rewrite (annotate_node_eq pre a (b ++ rest)); [| subst text; napp | reflexivity | reflexivity].
    rewrite A. subst text. rewrite trim_app_blank by exact Hb. reflexivity.
Qed.

Lemma silentS r body pre text rest tts :
  lookup r (g_rules l_grammar) = Some (MSilent, body) -> opt_eqb (g_ws l_grammar) r = false ->
  parsedS body pre text rest tts -> parsedS (PRef r) pre text rest tts.
Proof.
  intros Hl Hw [a [b [Ts [Et [Hb [E A]]]]]]. exists a, b, Ts.
  split; [exact Et|]. split; [exact Hb|]. split; [|exact A]. eapply evals_ref_silent; eassumption.
Qed.

Lemma altS_l a b pre text rest tt : parsedS a pre text rest tt -> parsedS (PAlt a b) pre text rest tt.
Proof.
  intros [x [y [Ts [Et [Hb [E A]]]]]]. exists x, y, Ts. repeat split; try assumption. apply evals_alt_l, E.
Qed.

Lemma altS_r a b pre text rest tt :
  EV a AtNon (length pre) (text ++ rest) PFail -> parsedS b pre text rest tt -> parsedS (PAlt a b) pre text rest tt.
Proof.
  intros Hf [x [y [Ts [Et [Hb [E A]]]]]]. exists x, y, Ts. repeat split; try assumption. apply evals_alt_r; assumption.
Qed.

Lemma optS_some a pre text rest tt : parsedS a pre text rest tt -> parsedS (POpt a) pre text rest tt.
Proof.
  intros [x [y [Ts [Et [Hb [E A]]]]]]. exists x, y, Ts. repeat split; try assumption. apply evals_opt_some, E.
Qed.

Lemma nothingS e pre rest : EV e AtNon (length pre) rest (POk (length pre) rest []) -> parsedS e pre [] rest [].
Proof.
  intro H. exists [], [], []. split; [reflexivity|]. split; [reflexivity|]. split; [|reflexivity].
  cbn [app length]. rewrite Nat.add_0_r. exact H.
Qed.

Lemma strS s pre rest : parsedS (PStr s) pre s rest [].
Proof.
  apply parsed_S. exists []. split; [|reflexivity]. apply evals_str_ok, strip_prefix_app_some.
Qed.

(** ---- repetitions over indented items ---- *)
Definition itemT := (str * str * ttree)%type.
Definition it_ind (x : itemT) : str := fst (fst x).
Definition it_txt (x : itemT) : str := snd (fst x).
Definition it_tt (x : itemT) : ttree := snd x.
Fixpoint catI (items : list itemT) : str :=
  match items with [] => [] | x :: r => it_ind x ++ it_txt x ++ catI r end.

Lemma nonblank_prefix t a b : (forall rest, starts_blank (t ++ rest) = false) -> t <> [] -> t = a ++ b -> blanks b -> a <> [].
Proof.
  intros Hs Hne Et Hb Ha. subst a. cbn [app] in Et. subst t. destruct b as [|c b]; [congruence|].
  specialize (Hs []). cbn in Hs. unfold blanks in Hb. cbn in Hb. rewrite Hs in Hb. discriminate.
Qed.

Section ItemsS.
Variable A : pexp.
Variable R : str -> Prop.   (* what must follow an item for it to parse *)

Definition itemS_ok (x : itemT) : Prop :=
  blanks (it_ind x) /\ (forall rest, starts_blank (it_txt x ++ rest) = false) /\ it_txt x <> [] /\
  forall pre rest, R rest -> parsedS A pre (it_txt x) rest [it_tt x].

Fixpoint RsS (items : list itemT) (rest : str) : Prop :=
  match items with [] => True | x :: r => R (catI r ++ rest) /\ RsS r rest end.

Lemma itemsS_tail : forall items pre i0 j rest, blanks i0 -> blanks j -> Forall itemS_ok items ->
  RsS items (j ++ rest) -> stop_ok A rest ->
  parsedS (PRepTail A) pre (i0 ++ catI items ++ j) rest (map it_tt items).
Proof.
  induction items as [|x r IH]; intros pre i0 j rest Hi0 Hj H HR [Hr Hstop].
  - exists [], (i0 ++ j), []. cbn [catI app map length]. rewrite Nat.add_0_r.
    split; [reflexivity|]. split; [blk|]. split; [|reflexivity].
    eapply evals_reptail_stop; [apply (skip_blanks (i0 ++ j)); [blk | exact Hr] | apply Hstop].
  - destruct x as [[ind t] tt]. inversion H as [|x0 l Hit Hrest]; subst.
    destruct Hit as [Hind [Hs [Hne Hp]]]. cbn [it_ind it_txt it_tt fst snd] in *.
    destruct HR as [HR1 HR].
    destruct (Hp (pre ++ i0 ++ ind) (catI r ++ j ++ rest) HR1) as [a1 [b1 [T1 [Et [Hb1 [E1 A1]]]]]].
    destruct (IH (pre ++ i0 ++ ind ++ a1) b1 j rest Hb1 Hj Hrest HR (conj Hr Hstop)) as [a2 [b2 [T2 [Et2 [Hb2 [E2 A2]]]]]].
    pose proof (nonblank_prefix t a1 b1 Hs Hne Et Hb1) as Hne1.
    exists (i0 ++ ind ++ a1 ++ a2), b2, ([] ++ T1 ++ T2).
    cbn [catI it_ind it_txt it_tt fst snd map].
    split.
    { transitivity (i0 ++ ind ++ a1 ++ (b1 ++ catI r ++ j)); [subst t; napp|]. rewrite Et2. napp. }
    split; [exact Hb2|]. split.
    + eapply evals_reptail_step.
      * apply (skipS (i0 ++ ind) (length pre) (t ++ catI r ++ j ++ rest)); [blk | apply Hs | napp].
      * evq E1.
      * destruct a1; [congruence|]. rewrite !app_length. cbn [length]. lia.
      * evq E2.
    + cbn [app]. rewrite map_app. change (tt :: map it_tt r) with ([tt] ++ map it_tt r). f_equal.
      * rewrite <- A1. f_equal. napp.
      * rewrite <- A2. f_equal. subst t. napp.
Qed.

(** A*  started on the text of a first item (its indentation already skipped) *)
Lemma itemsS_rep : forall ind t tt r pre j rest, blanks j -> Forall itemS_ok ((ind, t, tt) :: r) ->
  RsS ((ind, t, tt) :: r) (j ++ rest) -> stop_ok A rest ->
  parsedS (PRep A) pre (t ++ catI r ++ j) rest (tt :: map it_tt r).
Proof.
  intros ind t tt r pre j rest Hj H HR Hstop. inversion H as [|x0 l Hit Hrest]; subst.
  destruct Hit as [Hind [Hs [Hne Hp]]]. cbn [it_ind it_txt it_tt fst snd] in *. destruct HR as [HR1 HR].
  destruct (Hp pre (catI r ++ j ++ rest) HR1) as [a1 [b1 [T1 [Et [Hb1 [E1 A1]]]]]].
  destruct (itemsS_tail r (pre ++ a1) b1 j rest Hb1 Hj Hrest HR Hstop) as [a2 [b2 [T2 [Et2 [Hb2 [E2 A2]]]]]].
  exists (a1 ++ a2), b2, (T1 ++ T2).
  split.
  { transitivity (a1 ++ (b1 ++ catI r ++ j)); [subst t; napp|]. rewrite Et2. napp. }
  split; [exact Hb2|]. split.
  - eapply evals_rep_some; [evq E1 | evq E2].
  - rewrite map_app. change (tt :: map it_tt r) with ([tt] ++ map it_tt r). f_equal.
    + rewrite <- A1. f_equal. napp.
    + rewrite <- A2. f_equal. subst t. napp.
Qed.

Lemma repS_none pre rest : stop_ok A rest -> parsedS (PRep A) pre [] rest [].
Proof. intros [_ H]. apply nothingS, evals_rep_none, H. Qed.

(** A ~ A*  over a non-empty sequence; [j] = the blanks before what stops the repetition *)
Lemma itemsS_plus : forall ind t tt r pre j rest, blanks j -> Forall itemS_ok ((ind, t, tt) :: r) ->
  RsS ((ind, t, tt) :: r) (j ++ rest) -> stop_ok A rest ->
  parsedS (PSeq A (PRep A)) pre (t ++ catI r ++ j) rest (tt :: map it_tt r).
Proof.
  intros ind t tt r pre j rest Hj H HR Hstop. inversion H as [|x0 l Hit Hrest]; subst.
  destruct Hit as [Hind [Hs [Hne Hp]]]. cbn [it_ind it_txt it_tt fst snd] in *. destruct HR as [HR1 HR].
  change (tt :: map it_tt r) with ([tt] ++ map it_tt r).
  destruct r as [|[[ind2 t2] tt2] r2].
  - cbn [catI app map]. cbn [catI app] in HR1.
    replace (t ++ j) with (t ++ j ++ []) by (rewrite app_nil_r; reflexivity).
    apply (seqS A (PRep A) pre t j [] rest [tt] []); [apply Hp; cbn [app]; exact HR1 | exact Hj | apply Hstop | apply repS_none, Hstop].
  - cbn [catI it_ind it_txt fst snd].
    replace (t ++ (ind2 ++ t2 ++ catI r2) ++ j) with (t ++ ind2 ++ (t2 ++ catI r2 ++ j)) by napp.
    inversion Hrest as [|x1 l1 Hit2 Hrest2]; subst.
    apply seqS.
    + apply Hp. evar (z : str). replace (ind2 ++ (t2 ++ catI r2 ++ j) ++ rest) with z; [exact HR1|]. subst z.
      cbn [catI it_ind it_txt fst snd]. napp.
    + apply Hit2.
    + rewrite <- !app_assoc. apply Hit2.
    + apply (itemsS_rep ind2 t2 tt2 r2); assumption.
Qed.
End ItemsS.

(** ================= rules of the grammar in the calculus ================= *)
From Coq Require Import ZifyBool.
Notation Rx := (stop_ok X_body).
Notation TT := (fun _ : str => True).

Lemma RsS_true : forall items rest, RsS TT items rest.
Proof. induction items as [|x r IH]; intro rest; cbn [RsS]; [exact I | split; [exact I | apply IH]]. Qed.

(** the loop  E ~ E*  of TEST before ANY stop text (a newline, `; then`, `; do`) *)
Section GenLoopS.
Variable E : pexp.
Variable okc' : char -> bool.
Variable St : str.
Hypothesis HE_char : forall pos c r, okc' c = true -> is_blank c = false -> EV E AtNon pos (c :: r) (POk (S pos) r []).
Hypothesis HE_stop : forall pos, EV E AtNon pos St PFail.
Hypothesis HSt : starts_blank St = false.

Lemma gtail : forall n t pos, (length t <= n)%nat -> forallb okc' t = true -> ends_ok t = true ->
  EV (PRepTail E) AtNon pos (t ++ St) (POk (pos + length t) St []).
Proof.
  induction n as [|n IH]; intros t pos Hl Hok He.
  - destruct t; [|cbn in Hl; lia]. cbn [app length]. rewrite Nat.add_0_r.
    eapply evals_reptail_stop; [apply skip_none, HSt | apply HE_stop].
  - destruct t as [|c0 t0].
    { cbn [app length]. rewrite Nat.add_0_r.
      eapply evals_reptail_stop; [apply skip_none, HSt | apply HE_stop]. }
    destruct (span_bl (c0 :: t0)) as [a b] eqn:Es.
    destruct (span_bl_spec _ _ _ Es) as [Et [Ha Hb]].
    destruct b as [|c b].
    { exfalso. rewrite app_nil_r in Et. rewrite Et in He. rewrite all_blank_ends in He; [discriminate| |exact Ha].
      intro Z. rewrite Z in Et. discriminate. }
    rewrite Et in *. cbn [starts_blank] in Hb.
    rewrite forallb_app in Hok. apply andb_prop in Hok as [_ Hok]. cbn [forallb] in Hok. apply andb_prop in Hok as [Hc Hok].
    rewrite <- app_assoc. cbn [app].
    change (@nil tree) with ([] ++ [] ++ @nil tree)%list.
    eapply evals_reptail_step.
    + apply skip_blanks; [exact Ha | exact Hb].
    + apply HE_char; assumption.
    + lia.
    + rewrite app_length in *. cbn [length] in *.
      replace (pos + (length a + S (length b)))%nat with (S (pos + length a) + length b)%nat by lia.
      apply IH; [lia | exact Hok |].
      destruct b as [|c1 b1]; [reflexivity|].
      rewrite ends_ok_app_blank in He by (assumption || discriminate).
      rewrite ends_ok_tail in He by discriminate. exact He.
Qed.

Lemma gchars c t pos : okc' c = true -> is_blank c = false -> forallb okc' t = true -> ends_ok (c :: t) = true ->
  EV (PRep E) AtNon pos ((c :: t) ++ St) (POk (pos + length (c :: t)) St []).
Proof.
  intros Hc Hb Hok He. cbn [app length].
  change (@nil tree) with ([] ++ @nil tree)%list.
  eapply evals_rep_some; [apply HE_char; assumption|].
  replace (pos + S (length t))%nat with (S pos + length t)%nat by lia.
  apply (gtail (length t)); [lia | exact Hok |].
  destruct t; [reflexivity|]. rewrite ends_ok_tail in He by discriminate. exact He.
Qed.

Lemma gskip_rep t pos : forallb okc' t = true -> ends_ok t = true ->
  exists p1 r1, EV PSkip AtNon pos (t ++ St) (POk p1 r1 []) /\
                EV (PRep E) AtNon p1 r1 (POk (pos + length t) St []).
Proof.
  intros Hok He. destruct (span_bl t) as [a b] eqn:Es.
  destruct (span_bl_spec _ _ _ Es) as [Et [Ha Hb]]. subst t.
  destruct b as [|c b].
  - rewrite app_nil_r in *. destruct a as [|a0 a].
    + exists pos, St. cbn [app length]. rewrite Nat.add_0_r. split.
      * apply skip_none, HSt.
      * apply evals_rep_none, HE_stop.
    + rewrite all_blank_ends in He; [discriminate|discriminate|exact Ha].
  - exists (pos + length a)%nat, ((c :: b) ++ St). split.
    + rewrite <- app_assoc. apply skip_blanks; [exact Ha | exact Hb].
    + rewrite forallb_app in Hok. apply andb_prop in Hok as [_ Hok]. cbn [forallb] in Hok.
      apply andb_prop in Hok as [Hc Hok]. cbn [starts_blank] in Hb.
      rewrite ends_ok_app_blank in He by (assumption || discriminate).
      rewrite app_length. rewrite Nat.add_assoc.
      apply (gchars c b (pos + length a) Hc Hb Hok He).
Qed.

Lemma gplus_chars c t pos : okc' c = true -> is_blank c = false -> forallb okc' t = true -> ends_ok (c :: t) = true ->
  EV (PSeq E (PRep E)) AtNon pos ((c :: t) ++ St) (POk (pos + length (c :: t)) St []).
Proof.
  intros Hc Hb Hok He.
  assert (He' : ends_ok t = true) by (destruct t; [reflexivity | rewrite ends_ok_tail in He by discriminate; exact He]).
  destruct (gskip_rep t (S pos) Hok He') as [p1 [r1 [Hs Hr]]].
  cbn [app length]. replace (pos + S (length t))%nat with (S pos + length t)%nat by lia.
  change (@nil tree) with ([] ++ [] ++ @nil tree)%list.
  eapply evals_seq_ok; [apply HE_char; assumption | exact Hs | exact Hr].
Qed.
End GenLoopS.

Lemma cond_starts' cond x : cond_ok cond = true -> starts_blank (cond ++ x) = false.
Proof.
  intro H. unfold cond_ok in H. apply andb_prop in H as [H _]. apply andb_prop in H as [_ Hs].
  destruct cond as [|c t]; [discriminate|]. cbn. apply blank_ws. cbn in Hs. apply negb_true_iff in Hs. exact Hs.
Qed.

Lemma testS2 pre cond St : cond_ok cond = true -> starts_blank St = false -> (forall pos, EV E_test AtNon pos St PFail) ->
  parsedS (PRef L_TEST) pre cond St [TNode L_TEST cond []].
Proof.
  intros H0 HSt Hstop. apply parsed_S.
  exists [Node L_TEST (length pre) (length pre + length cond) []]. split.
  - pose proof H0 as H. unfold cond_ok in H. apply andb_prop in H as [H He]. apply andb_prop in H as [Hok Hs].
    destruct cond as [|c t]; [discriminate|].
    cbn [starts_nonws] in Hs. apply negb_true_iff in Hs.
    assert (Hb : is_blank c = false) by (apply blank_ws, Hs).
    assert (He' : ends_ok (c :: t) = true).
    { unfold ends_nonws in He. unfold ends_ok. destruct (rev (c :: t)); [reflexivity|].
      apply negb_true_iff in He. rewrite (blank_ws _ He). reflexivity. }
    cbn [forallb] in Hok. apply andb_prop in Hok as [Hc Hok].
    eapply evals_ref_normal_ok; [reflexivity | reflexivity |].
    apply (gplus_chars E_test okt St Et_char Hstop HSt c t (length pre) Hc Hb Hok He').
  - cbn [map]. rewrite (annotate_node_eq pre cond St) by reflexivity. rewrite trim_cond by exact H0. reflexivity.
Qed.

Lemma nlaltS K pre rest : (forall pos r, EV K AtNon pos (10 :: r) (POk (S pos) r [])) -> parsedS K pre [10] rest [].
Proof. intro H. apply parsed_S. exists []. split; [|reflexivity]. evq (H (length pre) rest). Qed.

Lemma any_pos e text rest tt : (forall pre, parsedS e pre text rest tt) ->
  forall pos, exists p r k, EV e AtNon pos (text ++ rest) (POk p r k).
Proof.
  intros H pos. destruct (H (repeat 0%N pos)) as [a [b [Ts [_ [_ [E _]]]]]]. rewrite repeat_length in E. eauto.
Qed.

(** `; then NL` and `; do NL` (one blank after the `;`, as [s_then true] / [s_do true] spell it) *)
Lemma dummy_thenS pre rest : parsedS (PRef L_DUMMY_THEN) pre (s_then true) rest [].
Proof.
  eapply silentS; [reflexivity | reflexivity |].
  apply (seqS (PStr [59]) (PSeq (PStr [116; 104; 101; 110]) NL) pre [59] [32] ([116; 104; 101; 110] ++ [10]) rest [] []);
    [apply strS | reflexivity | reflexivity |].
  apply (seqS' (PStr [116; 104; 101; 110]) NL _ [116; 104; 101; 110] [10] rest [] []);
    [apply strS | reflexivity | apply nlaltS; intros; apply nl_ok].
Qed.

Lemma dummy_doS pre rest : parsedS (PRef L_DUMMY_DO) pre (s_do true) rest [].
Proof.
  eapply silentS; [reflexivity | reflexivity |].
  apply (seqS (PStr [59]) (PSeq (PStr [100; 111]) NL) pre [59] [32] ([100; 111] ++ [10]) rest [] []);
    [apply strS | reflexivity | reflexivity |].
  apply (seqS' (PStr [100; 111]) NL _ [100; 111] [10] rest [] []);
    [apply strS | reflexivity | apply nlaltS; intros; apply nl_ok].
Qed.

Lemma dummy_then_fail_do pos rest : EV (PRef L_DUMMY_THEN) AtNon pos (s_do true ++ rest) PFail.
Proof.
  ref_s. change (s_do true ++ rest) with ([59] ++ [32] ++ ([100; 111; 10] ++ rest)).
  eapply evals_seq_fail_b; [apply evals_str_ok, strip_prefix_app_some | apply (skip_blanks [32]); reflexivity |].
  apply evals_seq_fail, evals_str_fail. reflexivity.
Qed.

Lemma Et_stop_then pos rest : EV E_test AtNon pos (s_then true ++ rest) PFail.
Proof.
  unfold E_test. apply evals_seq_fail.
  destruct (any_pos _ _ rest _ (fun pre => dummy_thenS pre rest) pos) as [p [r [k H]]].
  eapply evals_not_fail. unfold STOPSET. apply evals_alt_r.
  - change (s_then true ++ rest) with (59 :: ([32; 116; 104; 101; 110; 10] ++ rest)). apply nl_fail. reflexivity.
  - apply evals_alt_l. exact H.
Qed.

Lemma Et_stop_do pos rest : EV E_test AtNon pos (s_do true ++ rest) PFail.
Proof.
  unfold E_test. apply evals_seq_fail.
  destruct (any_pos _ _ rest _ (fun pre => dummy_doS pre rest) pos) as [p [r [k H]]].
  eapply evals_not_fail. unfold STOPSET. apply evals_alt_r.
  - change (s_do true ++ rest) with (59 :: ([32; 100; 111; 10] ++ rest)). apply nl_fail. reflexivity.
  - apply evals_alt_r; [apply dummy_then_fail_do | exact H].
Qed.

(** the end of a head in either spelling *)
Lemma then_altS sp pre rest : parsedS (PAlt (PRef L_DUMMY_THEN) NL) pre (s_then sp) rest [].
Proof. destruct sp; [apply altS_l, dummy_thenS | apply nlaltS; intros; apply then_do_fail]. Qed.
Lemma do_altS sp pre rest : parsedS (PAlt (PRef L_DUMMY_DO) NL) pre (s_do sp) rest [].
Proof. destruct sp; [apply altS_l, dummy_doS | apply nlaltS; intros; apply then_do_fail]. Qed.
Lemma then_stop sp pos rest : EV E_test AtNon pos (s_then sp ++ rest) PFail.
Proof. destruct sp; [apply Et_stop_then | exact (Et_stop pos rest)]. Qed.
Lemma do_stop sp pos rest : EV E_test AtNon pos (s_do sp ++ rest) PFail.
Proof. destruct sp; [apply Et_stop_do | exact (Et_stop pos rest)]. Qed.
Lemma then_sb sp rest : starts_blank (s_then sp ++ rest) = false. Proof. destruct sp; reflexivity. Qed.
Lemma do_sb sp rest : starts_blank (s_do sp ++ rest) = false. Proof. destruct sp; reflexivity. Qed.

Lemma cond_headS R K kw ALT cl pre cond rest :
  lookup R (g_rules l_grammar) = Some (MNormal, PSeq (PRef K) (PSeq (PRef L_TEST) ALT)) -> opt_eqb (g_ws l_grammar) R = false ->
  lookup K (g_rules l_grammar) = Some (MSilent, PStr kw) -> opt_eqb (g_ws l_grammar) K = false ->
  (forall pre rest, parsedS ALT pre cl rest []) ->
  (forall pos rest, EV E_test AtNon pos (cl ++ rest) PFail) ->
  (forall rest, starts_blank (cl ++ rest) = false) ->
  cond_ok cond = true ->
  parsedS (PRef R) pre (kw ++ cond ++ cl) rest [TNode R (trim (kw ++ cond ++ cl)) [TNode L_TEST cond []]].
Proof.
  intros HR HwR HK HwK Halt Hstop Hsb Hc.
  apply (refS R _ pre (kw ++ cond ++ cl) rest ([] ++ [TNode L_TEST cond []] ++ []) HR HwR).
  apply seqS'.
  - eapply silentS; [exact HK | exact HwK | apply strS].
  - rewrite <- app_assoc. apply cond_starts', Hc.
  - apply seqS'; [apply testS2; [exact Hc | apply Hsb | intro; apply Hstop] | apply Hsb | apply Halt].
Qed.

Definition while_head_t (sp : bool) (cond : str) := TNode L_WHILE_HEAD (trim (s_while ++ cond ++ s_do sp)) [TNode L_TEST cond []].
Definition if_head_t (sp : bool) (cond : str) := TNode L_IF_HEAD (trim (s_if ++ cond ++ s_then sp)) [TNode L_TEST cond []].

Lemma while_headS sp cond : cond_ok cond = true ->
  forall pre rest, parsedS (PRef L_WHILE_HEAD) pre (s_while ++ cond ++ s_do sp) rest [while_head_t sp cond].
Proof.
  intros H pre rest.
  apply (cond_headS L_WHILE_HEAD L_KW_WHILE s_while (PAlt (PRef L_DUMMY_DO) NL) (s_do sp)); try reflexivity;
    [apply do_altS | apply do_stop | apply do_sb | exact H].
Qed.

Lemma if_headS sp cond : cond_ok cond = true ->
  forall pre rest, parsedS (PRef L_IF_HEAD) pre (s_if ++ cond ++ s_then sp) rest [if_head_t sp cond].
Proof.
  intros H pre rest.
  apply (cond_headS L_IF_HEAD L_KW_IF s_if (PAlt (PRef L_DUMMY_THEN) NL) (s_then sp)); try reflexivity;
    [apply then_altS | apply then_stop | apply then_sb | exact H].
Qed.

Lemma for_varS pre var rest : wfp_var var = true -> parsedS (PRef L_FOR_VAR) pre var (32 :: rest) [TNode L_FOR_VAR var []].
Proof.
  intro H. apply parsed_S. eexists. split; [apply for_var_parses, H|].
  cbn [map]. rewrite (annotate_node_eq pre var (32 :: rest)) by reflexivity. rewrite var_trim by exact H. reflexivity.
Qed.

Lemma var_starts var rest : wfp_var var = true -> starts_blank (var ++ rest) = false.
Proof.
  intro Hv. destruct var as [|c v]; [discriminate|]. cbn [wfp_var] in Hv. apply andb_prop in Hv as [Hc _].
  cbn. apply blank_ws, alnum_not_ws. unfold is_alnum_us. apply orb_prop in Hc as [Hc|Hc]; rewrite Hc; lia.
Qed.

Definition for_head_t (sp : bool) (var words : str) :=
  TNode L_FOR_HEAD (trim (s_for ++ var ++ s_in ++ words ++ s_do sp))
    [TNode L_FOR_INIT (trim (var ++ s_in ++ words ++ s_do sp)) [TNode L_FOR_VAR var []; TNode L_TEST words []]].

Lemma for_headS sp var words : wfp_var var = true -> cond_ok words = true ->
  forall pre rest, parsedS (PRef L_FOR_HEAD) pre (s_for ++ var ++ s_in ++ words ++ s_do sp) rest [for_head_t sp var words].
Proof.
  intros Hv Hw pre rest.
  apply (refS L_FOR_HEAD _ pre (s_for ++ (var ++ [32] ++ ([105; 110] ++ [32] ++ (words ++ s_do sp)))) rest
           ([] ++ [TNode L_FOR_INIT (trim (var ++ [32] ++ ([105; 110] ++ [32] ++ (words ++ s_do sp))))
                     ([TNode L_FOR_VAR var []] ++ [] ++ [TNode L_TEST words []] ++ [])]) eq_refl eq_refl).
  apply seqS'.
  - eapply silentS; [reflexivity | reflexivity | apply strS].
  - rewrite <- app_assoc. apply var_starts, Hv.
  - apply (refS L_FOR_INIT _ _ _ _ _ eq_refl eq_refl).
    apply seqS; [exact (for_varS _ var _ Hv) | reflexivity | reflexivity |].
    apply seqS; [apply strS | reflexivity | rewrite <- app_assoc; apply cond_starts', Hw |].
    apply seqS'; [apply testS2; [exact Hw | apply do_sb | intro; apply do_stop] | apply do_sb | apply do_altS].
Qed.

Lemma kw_doneS pre rest : parsedS (PRef L_KW_DONE) pre (s_done ++ [10]) rest [].
Proof. apply parsed_S. exists []. split; [|reflexivity]. evq (kw_done_ok (length pre) rest). Qed.

Lemma kw_fiS pre rest : parsedS (PRef L_KW_FI) pre (s_fi ++ [10]) rest [].
Proof. apply parsed_S. exists []. split; [|reflexivity]. evq (kw_fi_ok (length pre) rest). Qed.

Lemma kw_elseS pre rest : parsedS (PRef L_KW_ELSE) pre (s_else ++ [10]) rest [TNode L_KW_ELSE s_else []].
Proof.
  apply parsed_S. exists [Node L_KW_ELSE (length pre) (length pre + length (s_else ++ [10%N])) []]. split.
  { eapply EV_eq; [exact (kw_else_ok (length pre) rest) | reflexivity | reflexivity |].
    replace (S (length pre + 4))%nat with (length pre + length (s_else ++ [10%N]))%nat by (change (length (s_else ++ [10%N])) with 5%nat; lia). reflexivity. }
  cbn [map]. rewrite (annotate_node_eq pre (s_else ++ [10]) rest) by reflexivity. reflexivity.
Qed.

(** EXP_BODY over a non-empty sequence of indented items; [j] = the blanks before the closing keyword *)
Lemma bodyS ind t tt r j : blanks j -> Forall (itemS_ok X_body TT) ((ind, t, tt) :: r) ->
  forall pre rest, Rx rest ->
  parsedS (PRef L_EXP_BODY) pre (t ++ catI r ++ j) rest [TNode L_EXP_BODY (trim (t ++ catI r)) (tt :: map it_tt r)].
Proof.
  intros Hj H pre rest HR.
  assert (Etr : trim (t ++ catI r ++ j) = trim (t ++ catI r)).
  { rewrite <- (trim_app_blank (t ++ catI r) j Hj). f_equal. napp. }
  rewrite <- Etr. apply (refS L_EXP_BODY _ _ _ _ _ eq_refl eq_refl).
  apply (itemsS_plus X_body TT ind); [exact Hj | exact H | apply RsS_true | exact HR].
Qed.

(** HEAD ~ EXP_BODY : IF_IF_BR, IF_ELSE_BR *)
Lemma brS R H htext htree ind t tt r j :
  lookup R (g_rules l_grammar) = Some (MNormal, PSeq (PRef H) (PRef L_EXP_BODY)) -> opt_eqb (g_ws l_grammar) R = false ->
  (forall pre rest, parsedS (PRef H) pre htext rest [htree]) ->
  blanks j -> Forall (itemS_ok X_body TT) ((ind, t, tt) :: r) ->
  forall pre rest, Rx rest ->
  parsedS (PRef R) pre (htext ++ ind ++ t ++ catI r ++ j) rest
    [TNode R (trim (htext ++ ind ++ t ++ catI r)) [htree; TNode L_EXP_BODY (trim (t ++ catI r)) (tt :: map it_tt r)]].
Proof.
  intros HR Hw Hh Hj Hi pre rest HRx.
  assert (Etr : trim (htext ++ ind ++ t ++ catI r ++ j) = trim (htext ++ ind ++ t ++ catI r)).
  { rewrite <- (trim_app_blank (htext ++ ind ++ t ++ catI r) j Hj). f_equal. napp. }
  rewrite <- Etr.
  pose proof Hi as Hi'. inversion Hi' as [|x l [Hind [Hs _]] _]; subst. cbn [it_ind it_txt fst snd] in *.
  apply (refS R _ pre _ rest ([htree] ++ [TNode L_EXP_BODY (trim (t ++ catI r)) (tt :: map it_tt r)]) HR Hw).
  apply seqS; [apply Hh | exact Hind | rewrite <- !app_assoc; apply Hs | apply (bodyS ind); assumption].
Qed.

(** (SOI)? ~ HEAD ~ EXP_BODY ~ KW_DONE : EXP_FOR, EXP_WHILE *)
Lemma loopS R H htext htree ind t tt r j :
  lookup R (g_rules l_grammar) = Some (MNormal, PSeq (POpt PSoi) (PSeq (PRef H) (PSeq (PRef L_EXP_BODY) (PRef L_KW_DONE)))) ->
  opt_eqb (g_ws l_grammar) R = false ->
  (forall pre rest, parsedS (PRef H) pre htext rest [htree]) ->
  (forall rest, starts_blank (htext ++ rest) = false) ->
  blanks j -> Forall (itemS_ok X_body TT) ((ind, t, tt) :: r) ->
  forall pre rest,
  parsedS (PRef R) pre (htext ++ ind ++ (t ++ catI r ++ j) ++ s_done ++ [10]) rest
    [TNode R (trim (htext ++ ind ++ (t ++ catI r ++ j) ++ s_done ++ [10]))
       [htree; TNode L_EXP_BODY (trim (t ++ catI r)) (tt :: map it_tt r)]].
Proof.
  intros HR Hw Hh Hhs Hj Hi pre rest.
  pose proof Hi as Hi'. inversion Hi' as [|x l [Hind [Hs _]] _]; subst. cbn [it_ind it_txt fst snd] in *.
  apply (refS R _ pre _ rest ([htree] ++ [TNode L_EXP_BODY (trim (t ++ catI r)) (tt :: map it_tt r)] ++ []) HR Hw).
  apply seq0S; [apply opt_soi | rewrite <- app_assoc; apply Hhs |].
  apply seqS; [apply Hh | exact Hind | rewrite <- !app_assoc; apply Hs |].
  apply seqS'; [apply (bodyS ind); [exact Hj | exact Hi | exact (stop_done rest)] | reflexivity | apply kw_doneS].
Qed.

(** A* over items that carry no indentation of their own (the else-if arms) *)
Lemma itemsS_rep0 A R items pre rest :
  Forall (itemS_ok A R) items -> RsS R items rest -> stop_ok A rest ->
  parsedS (PRep A) pre (match items with [] => [] | x :: r => it_txt x ++ catI r end) rest (map it_tt items).
Proof.
  intros H HR Hstop. destruct items as [|[[ind t] tt] r]; [apply repS_none, Hstop|].
  cbn [it_txt fst snd map it_tt].
  rewrite <- (app_nil_r (catI r)). apply (itemsS_rep A R ind); [reflexivity | exact H | exact HR | exact Hstop].
Qed.

(** EXP_IF: first branch, else-if arms E, optional else arm L, fi *)
Lemma ifS ifbr t1tree E etts L ltts pre rest :
  (forall rest, starts_blank (ifbr ++ rest) = false) ->
  (forall pre rest', Rx rest' -> parsedS (PRef L_IF_IF_BR) pre ifbr rest' [t1tree]) ->
  Rx ((E ++ L ++ s_fi ++ [10]) ++ rest) ->
  (forall pre, parsedS (PRep EI) pre E ((L ++ s_fi ++ [10]) ++ rest) etts) ->
  stop_ok EI ((L ++ s_fi ++ [10]) ++ rest) ->
  (forall pre, parsedS (POpt (PRef L_IF_ELSE_BR)) pre L ((s_fi ++ [10]) ++ rest) ltts) ->
  parsedS (PRef L_EXP_IF) pre (ifbr ++ E ++ L ++ s_fi ++ [10]) rest
    [TNode L_EXP_IF (trim (ifbr ++ E ++ L ++ s_fi ++ [10])) (t1tree :: etts ++ ltts)].
Proof.
  intros Hs Hbr HR HE HstopE HL.
  replace (t1tree :: etts ++ ltts) with ([t1tree] ++ etts ++ ltts ++ []) by (rewrite app_nil_r; reflexivity).
  apply (refS L_EXP_IF _ pre _ rest ([t1tree] ++ etts ++ ltts ++ []) eq_refl eq_refl).
  apply seq0S; [apply opt_soi | rewrite <- app_assoc; apply Hs |].
  apply seqS'; [apply Hbr, HR | apply (proj1 HR) |].
  apply seqS'; [apply HE | apply (proj1 HstopE) |].
  apply seqS'; [apply HL | reflexivity | apply kw_fiS].
Qed.

(** ---- command lines exactly as pest accepts them: a line may START with a keyword word
        (`fix`, `elsewhere`, `done7`, `else x`, `fi x`); refused are only `if ..`, `for ..`, `else if ..`,
        `while ..` (keyword + blank) and the bare words `else`, `fi`, `done` ---- *)
Definition cmd_ok2 (line : str) : bool :=
  forallb okc line && starts_nonws line && ends_nonws line && negb (starts_kw line).

Lemma strip_prefix_eq p : forall s x, strip_prefix p s = Some x -> s = p ++ x.
Proof.
  induction p as [|a p IH]; intros s x H; cbn in H.
  - injection H as ->. reflexivity.
  - destruct s as [|c s]; [discriminate|]. destruct (a =? c) eqn:E; [|discriminate].
    apply N.eqb_eq in E. subst c. cbn. f_equal. apply IH, H.
Qed.

Lemma ends_ok_app_ne p x : x <> [] -> ends_ok (p ++ x) = ends_ok x.
Proof.
  intro H. induction p as [|c p IH]; [reflexivity|]. cbn [app]. rewrite ends_ok_tail; [exact IH|].
  destruct p; cbn; [exact H | discriminate].
Qed.

Lemma ends_nonws_ok t : ends_nonws t = true -> ends_ok t = true.
Proof.
  unfold ends_nonws, ends_ok. destruct (rev t); [reflexivity|]. intro H. apply negb_true_iff in H.
  rewrite (blank_ws _ H). reflexivity.
Qed.

Lemma kw_word_fail kw T line rest pos :
  forallb (fun c => negb (c =? 10)) kw = true ->
  (forall pos c r, okc c = true -> EV T AtNon pos (c :: r) PFail) ->
  str_eqb line kw = false -> forallb okc line = true -> ends_ok line = true ->
  EV (PSeq (PStr kw) T) AtNon pos (line ++ 10 :: rest) PFail.
Proof.
  intros Hkw HT Hne Hok He.
  destruct (strip_prefix kw line) as [x|] eqn:Ep.
  - apply strip_prefix_eq in Ep. subst line.
    assert (Hx : x <> []). { intro Z. subst x. rewrite app_nil_r, str_eqb_refl in Hne. discriminate. }
    destruct (span_bl x) as [a b] eqn:Es. destruct (span_bl_spec _ _ _ Es) as [Ex [Ha Hb]]. subst x.
    rewrite ends_ok_app_ne in He by exact Hx.
    destruct b as [|c b].
    { rewrite app_nil_r in *. rewrite all_blank_ends in He; [discriminate | exact Hx | exact Ha]. }
    rewrite !forallb_app in Hok. apply andb_prop in Hok as [_ Hok]. apply andb_prop in Hok as [_ Hok].
    cbn [forallb] in Hok. apply andb_prop in Hok as [Hc _].
    rewrite <- !app_assoc. cbn [app].
    eapply evals_seq_fail_b; [apply evals_str_ok, strip_prefix_app_some | apply skip_blanks; [exact Ha | exact Hb] | apply HT, Hc].
  - apply evals_seq_fail, evals_str_fail, strip_prefix_app_none; assumption.
Qed.

Lemma nl_or_eoi_fail pos c r : okc c = true -> EV (PAlt NL PEoi) AtNon pos (c :: r) PFail.
Proof. intro H. apply evals_alt_r; [apply nl_fail, H|]. apply (evals_of_ev l_grammar 1); [reflexivity|discriminate]. Qed.

Lemma kw_list_fail2 pos line rest : cmd_ok2 line = true -> EV (PRef L_KW_LIST) AtNon pos (line ++ 10 :: rest) PFail.
Proof.
  intro H. unfold cmd_ok2 in H. apply andb_prop in H as [H Hkw]. apply andb_prop in H as [H He]. apply andb_prop in H as [Hok _].
  apply ends_nonws_ok in He. apply negb_true_iff in Hkw. unfold starts_kw in Hkw.
  apply orb_false_iff in Hkw as [Hkw Hdone]. apply orb_false_iff in Hkw as [Hkw Hfi]. apply orb_false_iff in Hkw as [Hkw Helse].
  apply orb_false_iff in Hkw as [Hkw Hwhile]. apply orb_false_iff in Hkw as [Hkw Helif]. apply orb_false_iff in Hkw as [Hif Hfor].
  ref_s.
  apply evals_alt_r; [ref_s; apply evals_str_fail, nokw_fail; [exact Hif|reflexivity]|].
  apply evals_alt_r; [ref_s; apply evals_str_fail, nokw_fail; [exact Hfor|reflexivity]|].
  apply evals_alt_r; [ref_s; apply evals_str_fail, nokw_fail; [exact Helif|reflexivity]|].
  apply evals_alt_r; [ref_nf; apply (kw_word_fail s_else NL); [reflexivity | intros; apply nl_fail; assumption | exact Helse | exact Hok | exact He]|].
  apply evals_alt_r; [ref_s; apply (kw_word_fail s_fi (PAlt NL PEoi)); [reflexivity | apply nl_or_eoi_fail | exact Hfi | exact Hok | exact He]|].
  apply evals_alt_r; [ref_s; apply evals_str_fail, nokw_fail; [exact Hwhile|reflexivity]|].
  ref_s; apply (kw_word_fail s_done (PAlt NL PEoi)); [reflexivity | apply nl_or_eoi_fail | exact Hdone | exact Hok | exact He].
Qed.

Lemma cmd_parses2 pos line rest : cmd_ok2 line = true ->
  EV (PRef L_CMD) AtNon pos (line ++ 10 :: rest)
     (POk (S (pos + length line)) rest [Node L_CMD pos (S (pos + length line)) []]).
Proof.
  intro H0. pose proof H0 as H. unfold cmd_ok2 in H.
  apply andb_prop in H as [H Hkw]. apply andb_prop in H as [H He]. apply andb_prop in H as [Hok Hs].
  destruct line as [|c t]; [discriminate|].
  cbn [starts_nonws] in Hs. apply negb_true_iff in Hs.
  assert (Hb : is_blank c = false) by (apply blank_ws, Hs).
  assert (He' : ends_ok (c :: t) = true) by (apply ends_nonws_ok, He).
  cbn [forallb] in Hok. apply andb_prop in Hok as [Hc Hok].
  eapply evals_ref_normal_ok; [reflexivity | reflexivity |].
  apply evals_alt_l. ref_s.
  change (@nil tree) with ([] ++ [] ++ ([] ++ [] ++ @nil tree))%list.
  eapply evals_seq_ok.
  - apply evals_not_ok. apply (kw_list_fail2 pos (c :: t) rest H0).
  - apply skip_none. cbn. exact Hb.
  - eapply evals_seq_ok.
    + apply (line_chars c t pos rest Hc Hb Hok He').
    + apply skip_none. reflexivity.
    + apply nl_ok.
Qed.

Lemma cmd_ok2_facts line : cmd_ok2 line = true ->
  forall rest, starts_blank (line ++ 10 :: rest) = false /\
  strip_prefix s_if (line ++ 10 :: rest) = None /\ strip_prefix s_for (line ++ 10 :: rest) = None /\
  strip_prefix s_while (line ++ 10 :: rest) = None.
Proof.
  intros H rest. unfold cmd_ok2 in H.
  apply andb_prop in H as [H Hkw]. apply andb_prop in H as [H He]. apply andb_prop in H as [Hok Hs].
  apply negb_true_iff in Hkw. unfold starts_kw in Hkw.
  apply orb_false_iff in Hkw as [Hkw _]. apply orb_false_iff in Hkw as [Hkw _]. apply orb_false_iff in Hkw as [Hkw _].
  apply orb_false_iff in Hkw as [Hkw Hwhile]. apply orb_false_iff in Hkw as [Hkw _]. apply orb_false_iff in Hkw as [Hif Hfor].
  split; [|repeat split; apply nokw_fail; (assumption || reflexivity)].
  destruct line as [|c t]; [discriminate|]. cbn. apply blank_ws. cbn in Hs. apply negb_true_iff in Hs. exact Hs.
Qed.

Lemma cmd_parsed2 pre line rest : cmd_ok2 line = true -> parsed (PRef L_CMD) pre (line ++ [10]) rest [cmd_t line].
Proof.
  intro H. eexists. split.
  - replace ((line ++ [10]) ++ rest) with (line ++ 10 :: rest) by norm_app.
    replace (length pre + length (line ++ [10%N]))%nat with (S (length pre + length line)) by len_eq.
    apply cmd_parses2, H.
  - cbn [map]. rewrite (annotate_node_eq pre (line ++ [10]) rest) by first [solve [reflexivity] | solve [len_eq]].
    unfold cmd_t. cbn [map]. f_equal. f_equal. unfold cmd_ok2 in H.
    apply andb_prop in H as [H _]. apply andb_prop in H as [H He]. apply andb_prop in H as [_ Hs].
    apply trim_line; assumption.
Qed.

Lemma cmd_line_start2 line rest : cmd_ok2 line = true -> starts_blank ((line ++ [10]) ++ rest) = false.
Proof. intro H. replace ((line ++ [10]) ++ rest) with (line ++ 10 :: rest) by norm_app. apply (cmd_ok2_facts line H rest). Qed.

Lemma cmd_item_X2 line : cmd_ok2 line = true -> item_ok X_body (line ++ [10]) (cmd_t line).
Proof.
  intro H. split; [intro rest; apply cmd_line_start2, H|]. split; [destruct line; discriminate|].
  intros pre rest. apply parsed_alt_l, cmd_parsed2, H.
Qed.

Lemma cmd_item_Y2 line : cmd_ok2 line = true -> item_ok Y_top (line ++ [10]) (cmd_t line).
Proof.
  intro H. split; [intro rest; apply cmd_line_start2, H|]. split; [destruct line; discriminate|].
  intros pre rest. pose proof (cmd_line_start2 line rest H) as Hb.
  assert (F := cmd_ok2_facts line H rest). destruct F as [_ [F1 [F2 F3]]].
  replace (line ++ 10 :: rest) with ((line ++ [10]) ++ rest) in F1, F2, F3 by norm_app.
  unfold Y_top.
  apply parsed_alt_r; [apply exp_if_fails; assumption|].
  apply parsed_alt_r; [apply exp_for_fails; assumption|].
  apply parsed_alt_r; [apply exp_while_fails; assumption|].
  apply cmd_parsed2, H.
Qed.

Lemma cmd_ok_2 line : cmd_ok line = true -> cmd_ok2 line = true.
Proof.
  unfold cmd_ok, cmd_ok2. intro H. apply andb_prop in H as [H Hk]. rewrite H. cbn [andb].
  unfold strict_nokw, kw_prefixes in Hk. cbn [forallb] in Hk.
  repeat (apply andb_prop in Hk as [? Hk]).
  repeat match goal with X : negb _ = true |- _ => apply negb_true_iff in X end.
  apply negb_true_iff. unfold starts_kw.
  repeat match goal with X : has_prefix _ line = false |- _ => rewrite X end. cbn [orb].
  destruct (str_eqb line s_else) eqn:E1; [apply str_eqb_eq in E1; subst line; discriminate|].
  destruct (str_eqb line s_fi) eqn:E2; [apply str_eqb_eq in E2; subst line; discriminate|].
  destruct (str_eqb line s_done) eqn:E3; [apply str_eqb_eq in E3; subst line; discriminate|].
  reflexivity.
Qed.

(** ================= the fragment ================= *)
Fixpoint fragI_block (b : block) : bool :=
  match b with
  | BNil => true
  | BCons s r => fragI_stmt s && fragI_block r
  end
with fragI_stmt (s : stmt) : bool :=
  match s with
  | SCmd ind line => wfp_ind ind && cmd_ok2 line
  | SBlank ws => wfp_ind ws
  | SBreak ind => wfp_ind ind
  | SCont ind => wfp_ind ind
  | SIf ind _ cond body rest => wfp_ind ind && cond_ok cond && nonempty_block body && fragI_block body && fragI_arms rest
  | SWhile ind _ cond body => wfp_ind ind && cond_ok cond && nonempty_block body && fragI_block body
  | SFor ind _ var words body => wfp_ind ind && wfp_var var && cond_ok words && nonempty_block body && fragI_block body
  end
with fragI_arms (a : arms) : bool :=
  match a with
  | ANone ind => wfp_ind ind
  | AElse ind body ind_fi => wfp_ind ind && wfp_ind ind_fi && nonempty_block body && fragI_block body
  | AElif ind _ cond body rest => wfp_ind ind && cond_ok cond && nonempty_block body && fragI_block body && fragI_arms rest
  end.

Definition ind_of (s : stmt) : str :=
  match s with
  | SCmd i _ => i | SBlank w => w | SBreak i => i | SCont i => i
  | SIf i _ _ _ _ => i | SFor i _ _ _ _ => i | SWhile i _ _ _ => i
  end.
Definition item_of (s : stmt) : itemT := (ind_of s, core_stmt s ++ nl, tree_of_stmt s).
Fixpoint itemsI (b : block) : list itemT := match b with BNil => [] | BCons s r => item_of s :: itemsI r end.

Lemma render_split s : render_stmt s = ind_of s ++ core_stmt s ++ nl.
Proof. destruct s; reflexivity. Qed.

Lemma catI_items : forall b, catI (itemsI b) = render_block b.
Proof.
  fix IH 1. intros [|s r]; [reflexivity|].
  change (render_block (BCons s r)) with (render_stmt s ++ render_block r).
  cbn [itemsI catI]. unfold item_of at 1 2. cbn [it_ind it_txt fst snd]. rewrite IH, render_split. napp.
Qed.

Lemma kids_items : forall b, map it_tt (itemsI b) = kids_of_block b.
Proof. fix IH 1. intros [|s r]; [reflexivity|]. cbn [itemsI map]. rewrite IH. reflexivity. Qed.

Lemma body_eq body i1 t1 tt1 r : itemsI body = (i1, t1, tt1) :: r -> blanks i1 ->
  render_block body = i1 ++ t1 ++ catI r /\
  body_node (kids_of_block body) body = TNode L_EXP_BODY (trim (t1 ++ catI r)) (tt1 :: map it_tt r).
Proof.
  intros E Hi. assert (Er : render_block body = i1 ++ t1 ++ catI r) by (rewrite <- catI_items, E; reflexivity).
  split; [exact Er|]. unfold body_node. rewrite Er, trim_blank_app by exact Hi. rewrite <- kids_items, E. reflexivity.
Qed.

Lemma nonempty_itemsI b : nonempty_block b = true -> exists i t tt r, itemsI b = (i, t, tt) :: r.
Proof. destruct b as [|s r]; [discriminate|]. intros _. exists (ind_of s), (core_stmt s ++ nl), (tree_of_stmt s), (itemsI r). reflexivity. Qed.

Lemma old_item A ind t tt : blanks ind -> item_ok A t tt -> itemS_ok A TT (ind, t, tt).
Proof.
  intros Hi [Hs [Hne Hp]]. split; [exact Hi|]. split; [exact Hs|]. split; [exact Hne|].
  intros pre rest _. apply parsed_S, Hp.
Qed.

(** a blank line is an empty CMD *)
Lemma blank_cmd_ev pos rest : EV (PRef L_CMD) AtNon pos (10 :: rest) (POk (S pos) rest [Node L_CMD pos (S pos) []]).
Proof.
  apply (evals_of_ev l_grammar 40); [|discriminate]. vm_compute. rewrite !Nat.add_1_r. reflexivity.
Qed.

Lemma blank_parsed pre rest : parsed (PRef L_CMD) pre [10] rest [TNode L_CMD [] []].
Proof.
  exists [Node L_CMD (length pre) (length pre + length [10%N]) []]. split.
  - eapply EV_eq; [exact (blank_cmd_ev (length pre) rest) | reflexivity | reflexivity |].
    cbn [length]. rewrite Nat.add_1_r. reflexivity.
  - cbn [map]. rewrite (annotate_node_eq pre [10] rest) by reflexivity. reflexivity.
Qed.

Lemma blank_item_X : item_ok X_body [10] (TNode L_CMD [] []).
Proof.
  split; [intro; reflexivity|]. split; [discriminate|]. intros pre rest. apply parsed_alt_l, blank_parsed.
Qed.

Lemma blank_item_Y : item_ok Y_top [10] (TNode L_CMD [] []).
Proof.
  split; [intro; reflexivity|]. split; [discriminate|]. intros pre rest. unfold Y_top.
  apply parsed_alt_r; [apply exp_if_fails; reflexivity|].
  apply parsed_alt_r; [apply exp_for_fails; reflexivity|].
  apply parsed_alt_r; [apply exp_while_fails; reflexivity|].
  apply blank_parsed.
Qed.

(** compound statements in the two alternations *)
Lemma in_X_while pre x rest tt : parsedS (PRef L_EXP_WHILE) pre (s_while ++ x) rest tt -> parsedS X_body pre (s_while ++ x) rest tt.
Proof.
  intro H. unfold X_body.
  apply altS_r; [eapply cmd_fails_kw; rewrite <- app_assoc; apply kw_list_while|].
  apply altS_r; [apply exp_if_fails; reflexivity|]. apply altS_l, H.
Qed.
Lemma in_Y_while pre x rest tt : parsedS (PRef L_EXP_WHILE) pre (s_while ++ x) rest tt -> parsedS Y_top pre (s_while ++ x) rest tt.
Proof.
  intro H. unfold Y_top.
  apply altS_r; [apply exp_if_fails; reflexivity|]. apply altS_r; [apply exp_for_fails; reflexivity|]. apply altS_l, H.
Qed.
Lemma in_X_for pre x rest tt : parsedS (PRef L_EXP_FOR) pre (s_for ++ x) rest tt -> parsedS X_body pre (s_for ++ x) rest tt.
Proof.
  intro H. unfold X_body.
  apply altS_r; [eapply cmd_fails_kw; rewrite <- app_assoc; apply kw_list_for|].
  apply altS_r; [apply exp_if_fails; reflexivity|]. apply altS_r; [apply exp_while_fails; reflexivity|]. exact H.
Qed.
Lemma in_Y_for pre x rest tt : parsedS (PRef L_EXP_FOR) pre (s_for ++ x) rest tt -> parsedS Y_top pre (s_for ++ x) rest tt.
Proof.
  intro H. unfold Y_top. apply altS_r; [apply exp_if_fails; reflexivity|]. apply altS_l, H.
Qed.
Lemma in_X_if pre x rest tt : parsedS (PRef L_EXP_IF) pre (s_if ++ x) rest tt -> parsedS X_body pre (s_if ++ x) rest tt.
Proof.
  intro H. unfold X_body.
  apply altS_r; [eapply cmd_fails_kw; rewrite <- app_assoc; apply kw_list_if|]. apply altS_l, H.
Qed.
Lemma in_Y_if pre x rest tt : parsedS (PRef L_EXP_IF) pre (s_if ++ x) rest tt -> parsedS Y_top pre (s_if ++ x) rest tt.
Proof. intro H. unfold Y_top. apply altS_l, H. Qed.

Lemma compound_item A ind kw x tt : blanks ind -> starts_blank kw = false -> kw <> [] ->
  (forall pre rest, parsedS A pre (kw ++ x) rest [tt]) -> itemS_ok A TT (ind, kw ++ x, tt).
Proof.
  intros Hi Hk Hne Hp. split; [exact Hi|]. cbn [it_txt it_tt fst snd].
  split; [intro rest; destruct kw; [congruence | exact Hk]|]. split; [destruct kw; [congruence|discriminate]|].
  intros pre rest _. apply Hp.
Qed.

Lemma trim_core core last : starts_nonws core = true -> (exists x k, core = x ++ k ++ [last]) -> is_ws last = false ->
  trim (core ++ [10]) = core.
Proof. intros Hs [x [k ->]] Hl. apply trim_line; [exact Hs | apply ends_nonws_app, Hl]. Qed.

(** ---- the arms of an if ---- *)
Definition arm_ind (a : arms) : str := match a with ANone i => i | AElse i _ _ => i | AElif i _ _ _ _ => i end.
Definition elif_head_t (sp : bool) (cond : str) := TNode L_IF_ELSEIF_HEAD (trim (s_elseif ++ cond ++ s_then sp)) [TNode L_TEST cond []].
Fixpoint elifI (a : arms) : list itemT :=
  match a with
  | AElif _ sp cond body r =>
      ([], s_elseif ++ cond ++ s_then sp ++ render_block body ++ arm_ind r,
       TNode L_IF_ELSEIF_BR (trim (s_elseif ++ cond ++ s_then sp ++ render_block body))
         [elif_head_t sp cond; body_node (kids_of_block body) body]) :: elifI r
  | _ => []
  end.
Fixpoint else_txt (a : arms) : str :=
  match a with
  | AElif _ _ _ _ r => else_txt r
  | AElse _ body j => s_else ++ [10] ++ render_block body ++ j
  | ANone _ => []
  end.
Fixpoint else_tts (a : arms) : list ttree :=
  match a with
  | AElif _ _ _ _ r => else_tts r
  | AElse _ body _ =>
      [TNode L_IF_ELSE_BR (trim (s_else ++ nl ++ render_block body)) [TNode L_KW_ELSE s_else []; body_node (kids_of_block body) body]]
  | ANone _ => []
  end.

Lemma fragI_elif i sp c b r : fragI_arms (AElif i sp c b r) = true ->
  True /\ wfp_ind i = true /\ cond_ok c = true /\ nonempty_block b = true /\ fragI_block b = true /\ fragI_arms r = true.
Proof.
  intro H.
  change (fragI_arms (AElif i sp c b r)) with (wfp_ind i && cond_ok c && nonempty_block b && fragI_block b && fragI_arms r) in H.
  apply andb_prop in H as [H H5]. apply andb_prop in H as [H H4]. apply andb_prop in H as [H H3]. apply andb_prop in H as [H1 H2].
  repeat split; assumption.
Qed.

Lemma core_arms_split : forall a, fragI_arms a = true -> core_arms a = arm_ind a ++ catI (elifI a) ++ else_txt a ++ s_fi.
Proof.
  fix IH 1. intros [i|i body j|i sp c body r] H.
  - reflexivity.
  - change (core_arms (AElse i body j)) with (i ++ s_else ++ nl ++ render_block body ++ j ++ s_fi).
    cbn [arm_ind elifI catI else_txt]. unfold nl. napp.
  - destruct (fragI_elif _ _ _ _ _ H) as [_ [_ [_ [_ [_ Hr]]]]].
    change (core_arms (AElif i sp c body r)) with (i ++ s_elseif ++ c ++ s_then sp ++ render_block body ++ core_arms r).
    rewrite (IH r Hr). cbn [arm_ind elifI catI else_txt it_ind it_txt fst snd]. napp.
Qed.

Lemma nodes_arms_split : forall a, fragI_arms a = true -> nodes_of_arms a = map it_tt (elifI a) ++ else_tts a.
Proof.
  fix IH 1. intros [i|i body j|i sp c body r] H.
  - reflexivity.
  - reflexivity.
  - destruct (fragI_elif _ _ _ _ _ H) as [_ [_ [_ [_ [_ Hr]]]]].
    rewrite nodes_elif, (IH r Hr). reflexivity.
Qed.

Lemma elif_cat a : catI (elifI a) = match elifI a with [] => [] | x :: r => it_txt x ++ catI r end.
Proof. destruct a; reflexivity. Qed.

Lemma elif_headS sp cond : cond_ok cond = true ->
  forall pre rest, parsedS (PRef L_IF_ELSEIF_HEAD) pre (s_elseif ++ cond ++ s_then sp) rest [elif_head_t sp cond].
Proof.
  intros H pre rest.
  apply (cond_headS L_IF_ELSEIF_HEAD L_KW_ELSEIF s_elseif (PAlt (PRef L_DUMMY_THEN) NL) (s_then sp)); try reflexivity;
    [apply then_altS | apply then_stop | apply then_sb | exact H].
Qed.

(** ================= induction over the syntax tree ================= *)
Definition QI_block (b : block) : Prop :=
  fragI_block b = true -> Forall (itemS_ok X_body TT) (itemsI b) /\ Forall (itemS_ok Y_top TT) (itemsI b).
Definition QI_stmt (s : stmt) : Prop :=
  fragI_stmt s = true -> itemS_ok X_body TT (item_of s) /\ itemS_ok Y_top TT (item_of s).
Definition QI_arms (a : arms) : Prop :=
  fragI_arms a = true ->
  blanks (arm_ind a) /\
  Forall (itemS_ok EI Rx) (elifI a) /\
  (forall rest, RsS Rx (elifI a) ((else_txt a ++ s_fi ++ [10]) ++ rest)) /\
  (forall rest, Rx (catI (elifI a) ++ (else_txt a ++ s_fi ++ [10]) ++ rest)) /\
  (forall rest, stop_ok EI ((else_txt a ++ s_fi ++ [10]) ++ rest)) /\
  (forall pre rest, parsedS (POpt (PRef L_IF_ELSE_BR)) pre (else_txt a) ((s_fi ++ [10]) ++ rest) (else_tts a)).

Ltac body_setup IHb Hb Hne body BX i1 t1 tt1 r Eit Hi1 Er Eb :=
  destruct (IHb Hb) as [BX _]; destruct (nonempty_itemsI body Hne) as [i1 [t1 [tt1 [r Eit]]]]; rewrite Eit in BX;
  assert (Hi1 : blanks i1) by (inversion BX as [|x0 l0 [Z0 _] _]; exact Z0);
  destruct (body_eq body i1 t1 tt1 r Eit Hi1) as [Er Eb].

Lemma fragI_all : (forall b, QI_block b) /\ (forall s, QI_stmt s) /\ (forall a, QI_arms a).
Proof.
  apply ScriptProofs.ast_mutind; unfold QI_block, QI_stmt, QI_arms.
  - (* BNil *) intros _. split; constructor.
  - (* BCons *) intros s IHs r IHr H.
    change (fragI_block (BCons s r)) with (fragI_stmt s && fragI_block r) in H. apply andb_prop in H as [Hs Hr].
    destruct (IHs Hs) as [SX SY]. destruct (IHr Hr) as [RX RY].
    cbn [itemsI]. split; constructor; assumption.
  - (* SCmd *) intros ind line H.
    change (fragI_stmt (SCmd ind line)) with (wfp_ind ind && cmd_ok2 line) in H. apply andb_prop in H as [Hi Hl].
    split; apply old_item; [exact Hi | apply cmd_item_X2, Hl | exact Hi | apply cmd_item_Y2, Hl].
  - (* SBlank *) intros ws H. change (fragI_stmt (SBlank ws)) with (wfp_ind ws) in H.
    split; apply old_item; [exact H | apply blank_item_X | exact H | apply blank_item_Y].
  - (* SBreak *) intros ind H. change (fragI_stmt (SBreak ind)) with (wfp_ind ind) in H.
    split; apply old_item; [exact H | apply (cmd_item_X kw_break); reflexivity | exact H | apply (cmd_item_Y kw_break); reflexivity].
  - (* SCont *) intros ind H. change (fragI_stmt (SCont ind)) with (wfp_ind ind) in H.
    split; apply old_item; [exact H | apply (cmd_item_X kw_continue); reflexivity | exact H | apply (cmd_item_Y kw_continue); reflexivity].
  - (* SIf *) intros ind sp cond body IHb a IHa H.
    change (fragI_stmt (SIf ind sp cond body a)) with (wfp_ind ind && cond_ok cond && nonempty_block body && fragI_block body && fragI_arms a) in H.
    apply andb_prop in H as [H Ha]. apply andb_prop in H as [H Hb]. apply andb_prop in H as [H Hne]. apply andb_prop in H as [Hi Hc].
    body_setup IHb Hb Hne body BX i1 t1 tt1 r Eit Hi1 Er Eb.
    destruct (IHa Ha) as [A1 [A2 [A3 [A4 [A5 A6]]]]].
    set (S0 := SIf ind sp cond body a).
    set (ifbr := (s_if ++ cond ++ s_then sp) ++ i1 ++ t1 ++ catI r ++ arm_ind a).
    set (t1tree := TNode L_IF_IF_BR (trim ((s_if ++ cond ++ s_then sp) ++ i1 ++ t1 ++ catI r))
                     [if_head_t sp cond; TNode L_EXP_BODY (trim (t1 ++ catI r)) (tt1 :: map it_tt r)]).
    assert (Ecore : core_stmt S0 = s_if ++ cond ++ s_then sp ++ render_block body ++ core_arms a) by reflexivity.
    assert (Etext : core_stmt S0 ++ nl = ifbr ++ catI (elifI a) ++ else_txt a ++ s_fi ++ [10]).
    { rewrite Ecore, (core_arms_split a Ha), Er. unfold ifbr, nl. napp. }
    assert (E1 : trim (core_stmt S0 ++ nl) = core_stmt S0).
    { apply (trim_core _ 105); [reflexivity | | reflexivity].
      exists (s_if ++ cond ++ s_then sp ++ render_block body ++ arm_ind a ++ catI (elifI a) ++ else_txt a), [102].
      rewrite Ecore, (core_arms_split a Ha). unfold s_fi. napp. }
    assert (E2 : s_if ++ cond ++ s_then sp ++ render_block body = (s_if ++ cond ++ s_then sp) ++ i1 ++ t1 ++ catI r).
    { rewrite Er. unfold s_then. napp. }
    assert (Etree : tree_of_stmt S0 = TNode L_EXP_IF (trim (ifbr ++ catI (elifI a) ++ else_txt a ++ s_fi ++ [10]))
                                         (t1tree :: map it_tt (elifI a) ++ else_tts a)).
    { unfold S0. rewrite tree_if, (nodes_arms_split a Ha), Eb, E2. fold S0. rewrite <- Etext, E1. reflexivity. }
    assert (Ekw : core_stmt S0 ++ nl = s_if ++ (cond ++ s_then sp ++ render_block body ++ core_arms a) ++ nl) by (rewrite Ecore; napp).
    assert (PP : forall pre rest, parsedS (PRef L_EXP_IF) pre (core_stmt S0 ++ nl) rest [tree_of_stmt S0]).
    { intros pre rest. rewrite Etree, Etext. apply ifS.
      - intro rest0. reflexivity.
      - intros pre0 rest' HR. apply (brS L_IF_IF_BR L_IF_HEAD (s_if ++ cond ++ s_then sp) (if_head_t sp cond) i1 t1 tt1 r (arm_ind a) eq_refl eq_refl (if_headS sp cond Hc) A1 BX pre0 rest' HR).
      - rewrite <- app_assoc. apply A4.
      - intro pre0. rewrite elif_cat. apply (itemsS_rep0 EI Rx); [exact A2 | apply A3 | apply A5].
      - apply A5.
      - intro pre0. apply A6. }
    unfold item_of. cbn [ind_of]. fold S0.
    split; (rewrite Ekw; apply compound_item; [exact Hi | reflexivity | discriminate |
            intros pre rest; first [apply in_X_if | apply in_Y_if]; rewrite <- Ekw; apply PP]).
  - (* SFor *) intros ind sp var words body IHb H.
    change (fragI_stmt (SFor ind sp var words body)) with (wfp_ind ind && wfp_var var && cond_ok words && nonempty_block body && fragI_block body) in H.
    apply andb_prop in H as [H Hb]. apply andb_prop in H as [H Hne]. apply andb_prop in H as [H Hw]. apply andb_prop in H as [Hi Hv].
    body_setup IHb Hb Hne body BX i1 t1 tt1 r Eit Hi1 Er Eb.
    set (S0 := SFor ind sp var words body).
    pose proof (loopS L_EXP_FOR L_FOR_HEAD (s_for ++ var ++ s_in ++ words ++ s_do sp) (for_head_t sp var words) i1 t1 tt1 r ind
                  eq_refl eq_refl (for_headS sp var words Hv Hw) (fun _ => eq_refl) Hi BX) as P.
    assert (Ecore : core_stmt S0 = s_for ++ var ++ s_in ++ words ++ s_do sp ++ render_block body ++ ind ++ s_done) by reflexivity.
    assert (Etext : core_stmt S0 ++ nl = (s_for ++ var ++ s_in ++ words ++ s_do sp) ++ i1 ++ (t1 ++ catI r ++ ind) ++ s_done ++ [10]).
    { rewrite Ecore, Er. unfold nl. napp. }
    assert (E1 : trim (core_stmt S0 ++ nl) = core_stmt S0).
    { apply (trim_core _ 101); [reflexivity | | reflexivity].
      exists (s_for ++ var ++ s_in ++ words ++ s_do sp ++ render_block body ++ ind), [100; 111; 110].
      rewrite Ecore. unfold s_done. napp. }
    assert (Etree : tree_of_stmt S0 = TNode L_EXP_FOR (trim ((s_for ++ var ++ s_in ++ words ++ s_do sp) ++ i1 ++ (t1 ++ catI r ++ ind) ++ s_done ++ [10]))
                                         [for_head_t sp var words; TNode L_EXP_BODY (trim (t1 ++ catI r)) (tt1 :: map it_tt r)]).
    { unfold S0. rewrite tree_for, Eb. fold S0. rewrite <- Etext, E1. reflexivity. }
    assert (Ekw : core_stmt S0 ++ nl = s_for ++ (var ++ s_in ++ words ++ s_do sp ++ render_block body ++ ind ++ s_done) ++ nl) by (rewrite Ecore; napp).
    assert (PP : forall pre rest, parsedS (PRef L_EXP_FOR) pre (core_stmt S0 ++ nl) rest [tree_of_stmt S0]).
    { intros pre rest. rewrite Etree, Etext. apply P. }
    unfold item_of. cbn [ind_of]. fold S0.
    split; (rewrite Ekw; apply compound_item; [exact Hi | reflexivity | discriminate |
            intros pre rest; first [apply in_X_for | apply in_Y_for]; rewrite <- Ekw; apply PP]).
  - (* SWhile *) intros ind sp cond body IHb H.
    change (fragI_stmt (SWhile ind sp cond body)) with (wfp_ind ind && cond_ok cond && nonempty_block body && fragI_block body) in H.
    apply andb_prop in H as [H Hb]. apply andb_prop in H as [H Hne]. apply andb_prop in H as [Hi Hc].
    body_setup IHb Hb Hne body BX i1 t1 tt1 r Eit Hi1 Er Eb.
    set (S0 := SWhile ind sp cond body).
    pose proof (loopS L_EXP_WHILE L_WHILE_HEAD (s_while ++ cond ++ s_do sp) (while_head_t sp cond) i1 t1 tt1 r ind
                  eq_refl eq_refl (while_headS sp cond Hc) (fun _ => eq_refl) Hi BX) as P.
    assert (Ecore : core_stmt S0 = s_while ++ cond ++ s_do sp ++ render_block body ++ ind ++ s_done) by reflexivity.
    assert (Etext : core_stmt S0 ++ nl = (s_while ++ cond ++ s_do sp) ++ i1 ++ (t1 ++ catI r ++ ind) ++ s_done ++ [10]).
    { rewrite Ecore, Er. unfold nl. napp. }
    assert (E1 : trim (core_stmt S0 ++ nl) = core_stmt S0).
    { apply (trim_core _ 101); [reflexivity | | reflexivity].
      exists (s_while ++ cond ++ s_do sp ++ render_block body ++ ind), [100; 111; 110].
      rewrite Ecore. unfold s_done. napp. }
    assert (Etree : tree_of_stmt S0 = TNode L_EXP_WHILE (trim ((s_while ++ cond ++ s_do sp) ++ i1 ++ (t1 ++ catI r ++ ind) ++ s_done ++ [10]))
                                         [while_head_t sp cond; TNode L_EXP_BODY (trim (t1 ++ catI r)) (tt1 :: map it_tt r)]).
    { unfold S0. rewrite tree_while, Eb. fold S0. rewrite <- Etext, E1. reflexivity. }
    assert (Ekw : core_stmt S0 ++ nl = s_while ++ (cond ++ s_do sp ++ render_block body ++ ind ++ s_done) ++ nl) by (rewrite Ecore; napp).
    assert (PP : forall pre rest, parsedS (PRef L_EXP_WHILE) pre (core_stmt S0 ++ nl) rest [tree_of_stmt S0]).
    { intros pre rest. rewrite Etree, Etext. apply P. }
    unfold item_of. cbn [ind_of]. fold S0.
    split; (rewrite Ekw; apply compound_item; [exact Hi | reflexivity | discriminate |
            intros pre rest; first [apply in_X_while | apply in_Y_while]; rewrite <- Ekw; apply PP]).
  - (* ANone *) intros ind H. change (fragI_arms (ANone ind)) with (wfp_ind ind) in H. cbn [arm_ind elifI else_txt else_tts catI].
    split; [exact H|]. split; [constructor|]. split; [intro rest; exact I|].
    split; [intro rest; exact (stop_fi rest)|].
    split; [intro rest; split; [reflexivity | intro pos; exact (EI_stop_fi pos rest)]|].
    intros pre rest. apply nothingS, else_opt_none. reflexivity.
  - (* AElse *) intros ind body IHb j H.
    change (fragI_arms (AElse ind body j)) with (wfp_ind ind && wfp_ind j && nonempty_block body && fragI_block body) in H.
    apply andb_prop in H as [H Hb]. apply andb_prop in H as [H Hne]. apply andb_prop in H as [Hi Hj].
    body_setup IHb Hb Hne body BX i1 t1 tt1 r Eit Hi1 Er Eb.
    cbn [arm_ind elifI else_txt else_tts catI].
    split; [exact Hi|]. split; [constructor|]. split; [intro rest; exact I|].
    split; [intro rest; cbn [app]; rewrite <- !app_assoc; apply stop_else|].
    split; [intro rest; rewrite <- !app_assoc; split; [reflexivity | intro pos; apply EI_stop_else]|].
    intros pre rest. rewrite Eb, Er.
    replace (s_else ++ [10] ++ (i1 ++ t1 ++ catI r) ++ j) with ((s_else ++ [10]) ++ i1 ++ t1 ++ catI r ++ j) by napp.
    replace (s_else ++ nl ++ i1 ++ t1 ++ catI r) with ((s_else ++ [10]) ++ i1 ++ t1 ++ catI r) by (unfold nl; napp).
    apply optS_some.
    apply (brS L_IF_ELSE_BR L_KW_ELSE (s_else ++ [10]) (TNode L_KW_ELSE s_else []) i1 t1 tt1 r j eq_refl eq_refl kw_elseS Hj BX pre _ (stop_fi rest)).
  - (* AElif *) intros ind sp cond body IHb a IHa H.
    destruct (fragI_elif _ _ _ _ _ H) as [_ [Hi [Hc [Hne [Hb Ha]]]]].
    body_setup IHb Hb Hne body BX i1 t1 tt1 r Eit Hi1 Er Eb.
    destruct (IHa Ha) as [A1 [A2 [A3 [A4 [A5 A6]]]]].
    cbn [arm_ind elifI else_txt else_tts].
    split; [exact Hi|].
    split.
    { constructor; [|exact A2]. split; [reflexivity|]. cbn [it_ind it_txt it_tt fst snd].
      split; [intro rest; reflexivity|]. split; [discriminate|].
      intros pre rest HR. rewrite Eb, Er.
      replace (s_elseif ++ cond ++ s_then sp ++ (i1 ++ t1 ++ catI r) ++ arm_ind a)
        with ((s_elseif ++ cond ++ s_then sp) ++ i1 ++ t1 ++ catI r ++ arm_ind a) by napp.
      replace (s_elseif ++ cond ++ s_then sp ++ i1 ++ t1 ++ catI r) with ((s_elseif ++ cond ++ s_then sp) ++ i1 ++ t1 ++ catI r) by napp.
      apply (brS L_IF_ELSEIF_BR L_IF_ELSEIF_HEAD (s_elseif ++ cond ++ s_then sp) (elif_head_t sp cond) i1 t1 tt1 r (arm_ind a) eq_refl eq_refl (elif_headS sp cond Hc) A1 BX pre rest HR). }
    split; [intro rest; split; [apply A4 | apply A3]|].
    split; [intro rest; cbn [catI it_ind it_txt fst snd app]; rewrite <- !app_assoc; apply stop_elseif|].
    split; [exact A5 | exact A6].
Qed.

(** ---- C14_parse_indented: every script of the fragment is parsed, completely, to its ideal tree ---- *)
Theorem parse_indented : forall b, fragI_block b = true ->
  exists kids,
    EV (PRef L_EXP) AtNon 0 (render_block b) (POk (length (render_block b)) [] kids) /\
    map (fun k => strip_eoi L_EOI (annotate (render_block b) k)) kids = [tree_of_script b].
Proof.
  intros b H. destruct (proj1 fragI_all b H) as [_ HY].
  destruct (itemsI b) as [|[[i1 t1] tt1] r0] eqn:Eit.
  - assert (Eb : b = BNil) by (destruct b; [reflexivity | discriminate Eit]). subst b. exact (parse_blocks BNil eq_refl).
  - assert (Er : render_block b = i1 ++ t1 ++ catI r0) by (rewrite <- catI_items, Eit; reflexivity).
    assert (Ek : kids_of_block b = tt1 :: map it_tt r0) by (rewrite <- kids_items, Eit; reflexivity).
    assert (Hi1 : blanks i1) by (inversion HY as [|x0 l0 [Z0 _] _]; exact Z0).
    assert (Hs1 : forall rest, starts_blank (t1 ++ rest) = false) by (inversion HY as [|x0 l0 [_ [Z0 _]] _]; exact Z0).
    destruct (itemsS_rep Y_top TT i1 t1 tt1 r0 i1 [] [] blanks_nil HY (RsS_true _ _) stop_nil) as [a [bb [Ts [Et [Hbb [E A]]]]]].
    repeat rewrite app_nil_r in Et. repeat rewrite app_nil_r in E. repeat rewrite app_nil_r in A.
    set (n := length (render_block b)).
    exists [Node L_EXP 0 n ([] ++ [] ++ (Ts ++ [] ++ [Node L_EOI n n []]))]. split.
    + eapply evals_ref_normal_ok; [reflexivity | reflexivity |].
      eapply evals_seq_ok; [apply (evals_of_ev l_grammar 1); [reflexivity|discriminate] | |].
      * rewrite Er. apply (skipS i1 0 (t1 ++ catI r0)); [exact Hi1 | apply Hs1 | reflexivity].
      * eapply evals_seq_ok; [evq E | apply (skipS bb _ []); [exact Hbb | reflexivity | symmetry; apply app_nil_r] |].
        replace (length i1 + length a + length bb)%nat with n by (unfold n; rewrite Er, Et; len).
        apply (evals_of_ev l_grammar 1); [reflexivity|discriminate].
    + cbn [map app]. f_equal. unfold tree_of_script. cbn [annotate]. rewrite strip_node. unfold n. rewrite sub_all. f_equal.
      rewrite map_app. cbn [map annotate].
      replace (map (annotate (render_block b)) Ts) with (kids_of_block b) by (rewrite Ek, <- A, Er; reflexivity).
      rewrite map_app, filter_app. rewrite (proj1 strip_all b).
      cbn [map filter t_rule strip_eoi]. rewrite ?N.eqb_refl. cbn [negb filter]. apply app_nil_r.
Qed.

Corollary parse_indented_from : forall b, fragI_block b = true ->
  parse_from l_grammar L_EXP (render_block b) = PFuel \/ parse_ok b.
Proof.
  intros b H. destruct (parse_indented b H) as [kids [[f0 Hf] Hk]].
  destruct (parse_from l_grammar L_EXP (render_block b)) as [| |p r k] eqn:E; [|left; reflexivity|].
  - right. exfalso. unfold parse_from in E.
    pose proof (Hf (Nat.max f0 (peg_fuel (render_block b))) (Nat.le_max_l _ _)) as H1.
    rewrite (ev_mono_le l_grammar _ _ _ _ _ _ _ E) in H1; [discriminate|discriminate|apply Nat.le_max_r].
  - right. unfold parse_from in E.
    pose proof (Hf (Nat.max f0 (peg_fuel (render_block b))) (Nat.le_max_l _ _)) as H1.
    rewrite (ev_mono_le l_grammar _ _ _ _ _ _ _ E) in H1; [|discriminate|apply Nat.le_max_r].
    injection H1 as -> -> ->. exists (length (render_block b)), kids. split; [exact E | exact Hk].
Qed.

(** the old fragment (no indentation, no blank lines) is the special case *)
Lemma frag_sub : (forall b, frag_block b = true -> fragI_block b = true) /\
                 (forall s, frag_stmt s = true -> fragI_stmt s = true) /\
                 (forall a, frag_arms a = true -> fragI_arms a = true).
Proof.
  apply ScriptProofs.ast_mutind.
  - reflexivity.
  - intros s IHs r IHr H. change (frag_block (BCons s r)) with (frag_stmt s && frag_block r) in H.
    apply andb_prop in H as [H1 H2]. change (fragI_block (BCons s r)) with (fragI_stmt s && fragI_block r).
    rewrite (IHs H1), (IHr H2). reflexivity.
  - intros [|] line H; [exact (cmd_ok_2 line H) | discriminate H].
  - intros ws H. discriminate H.
  - intros [|] H; [reflexivity | discriminate H].
  - intros [|] H; [reflexivity | discriminate H].
  - intros [|] [|] cond body IHb a IHa H; try discriminate H.
    change (frag_stmt (SIf [] false cond body a)) with (cond_ok cond && nonempty_block body && frag_block body && frag_arms a) in H.
    apply andb_prop in H as [H H4]. apply andb_prop in H as [H H3]. apply andb_prop in H as [H1 H2].
    change (fragI_stmt (SIf [] false cond body a)) with (true && cond_ok cond && nonempty_block body && fragI_block body && fragI_arms a).
    rewrite H1, H2, (IHb H3), (IHa H4). reflexivity.
  - intros [|] [|] var words body IHb H; try discriminate H.
    change (frag_stmt (SFor [] false var words body)) with (wfp_var var && cond_ok words && nonempty_block body && frag_block body) in H.
    apply andb_prop in H as [H H4]. apply andb_prop in H as [H H3]. apply andb_prop in H as [H1 H2].
    change (fragI_stmt (SFor [] false var words body)) with (true && wfp_var var && cond_ok words && nonempty_block body && fragI_block body).
    rewrite H1, H2, H3, (IHb H4). reflexivity.
  - intros [|] [|] cond body IHb H; try discriminate H.
    change (frag_stmt (SWhile [] false cond body)) with (cond_ok cond && nonempty_block body && frag_block body) in H.
    apply andb_prop in H as [H H3]. apply andb_prop in H as [H1 H2].
    change (fragI_stmt (SWhile [] false cond body)) with (true && cond_ok cond && nonempty_block body && fragI_block body).
    rewrite H1, H2, (IHb H3). reflexivity.
  - intros [|] H; [reflexivity | discriminate H].
  - intros [|] body IHb j H; [|discriminate H]. destruct j; [|destruct body; discriminate H].
    change (frag_arms (AElse [] body [])) with (nonempty_block body && frag_block body) in H.
    apply andb_prop in H as [H1 H2].
    change (fragI_arms (AElse [] body [])) with (true && true && nonempty_block body && fragI_block body).
    rewrite H1, (IHb H2). reflexivity.
  - intros [|] [|] cond body IHb a IHa H; try discriminate H.
    change (frag_arms (AElif [] false cond body a)) with (cond_ok cond && nonempty_block body && frag_block body && frag_arms a) in H.
    apply andb_prop in H as [H H4]. apply andb_prop in H as [H H3]. apply andb_prop in H as [H1 H2].
    change (fragI_arms (AElif [] false cond body a)) with (true && cond_ok cond && nonempty_block body && fragI_block body && fragI_arms a).
    rewrite H1, H2, (IHb H3), (IHa H4). reflexivity.
Qed.
