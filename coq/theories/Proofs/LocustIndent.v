(** C14, parser half, round 9: indentation and blank lines.
    A small compositional calculus [parsedS] -- "expression e, started after [pre], consumes [text]
    except possibly a suffix of blanks, and yields these trimmed trees" -- whose sequence rule runs the
    implicit skip over the left-over blanks and over the indentation of what follows. With it the
    block rules of the grammar are re-proved for scripts whose statements, closing keywords and arms
    are preceded by any number of spaces / tabs, and which may hold blank lines. *)
From Cicada Require Import Base.Chars Base.Peg Gen.LocustGrammar Model.Script Model.ScriptAst
  Proofs.PegProofs Proofs.LocustParse Proofs.ScriptProofs Proofs.LocustBlocks.
From Coq Require Import ZArith Lia Arith.
Local Open Scope N_scope.

Definition blanks (s : str) : Prop := forallb is_blank s = true.

Lemma blanks_app a b : blanks a -> blanks b -> blanks (a ++ b).
Proof. unfold blanks. intros Ha Hb. rewrite forallb_app, Ha, Hb. reflexivity. Qed.
Lemma blanks_nil : blanks []. Proof. reflexivity. Qed.
Ltac blk := repeat first [assumption | apply blanks_nil | apply blanks_app].

(** ---- trimming and blanks ---- *)
Lemma blank_is_ws c : is_blank c = true -> is_ws c = true.
Proof.
  unfold is_blank. intro H. apply orb_prop in H as [H|H]; apply N.eqb_eq in H; subst c; reflexivity.
Qed.

Lemma trim_start_blank_app i x : blanks i -> trim_start (i ++ x) = trim_start x.
Proof.
  induction i as [|c i IH]; intro H; [reflexivity|]. unfold blanks in H. cbn [forallb] in H.
  apply andb_prop in H as [Hc Hi]. cbn [app trim_start]. rewrite (blank_is_ws c Hc). apply IH, Hi.
Qed.

Lemma blanks_rev b : blanks b -> blanks (rev b).
Proof.
  unfold blanks. rewrite !forallb_forall. intros H c Hc. apply H. apply in_rev. exact Hc.
Qed.

Lemma trim_end_app_blank x b : blanks b -> trim_end (x ++ b) = trim_end x.
Proof.
  intro H. unfold trim_end. rewrite rev_app_distr. rewrite trim_start_blank_app by (apply blanks_rev, H). reflexivity.
Qed.

Lemma trim_app_blank x b : blanks b -> trim (x ++ b) = trim x.
Proof.
  intro H. unfold trim. induction x as [|c x IH].
  - cbn [app]. rewrite <- (app_nil_r b). rewrite trim_start_blank_app by exact H. reflexivity.
  - cbn [app trim_start]. destruct (is_ws c); [exact IH|].
    change (c :: x ++ b) with ((c :: x) ++ b). apply trim_end_app_blank, H.
Qed.

Lemma trim_blank_app i x : blanks i -> trim (i ++ x) = trim x.
Proof. intro H. unfold trim. rewrite trim_start_blank_app by exact H. reflexivity. Qed.

(** ---- the calculus ---- *)
Definition parsedS (e : pexp) (pre text rest : str) (tt : list ttree) : Prop :=
  exists a b Ts, text = a ++ b /\ blanks b /\
    EV e AtNon (length pre) (text ++ rest) (POk (length pre + length a) (b ++ rest) Ts) /\
    map (annotate (pre ++ text ++ rest)) Ts = tt.

Lemma EV_eq e pos pos' r r' res res' :
  EV e AtNon pos r res -> pos = pos' -> r = r' -> res = res' -> EV e AtNon pos' r' res'.
Proof. intros H -> -> ->. exact H. Qed.

Ltac len := solve [len_eq].
Ltac napp := solve [norm_app].
Ltac res_eq := first [reflexivity | f_equal; first [len | napp]].
Ltac evq H := eapply EV_eq; [exact H | first [reflexivity | len] | first [reflexivity | napp] | res_eq].

Lemma skipS bl pos r r' : blanks bl -> starts_blank r = false -> r' = bl ++ r ->
  EV PSkip AtNon pos r' (POk (pos + length bl) r []).
Proof. intros Hb Hr ->. apply skip_blanks; assumption. Qed.

Lemma parsed_S e pre text rest tt : parsed e pre text rest tt -> parsedS e pre text rest tt.
Proof.
  intros [Ts [E A]]. exists text, [], Ts. split; [symmetry; apply app_nil_r|]. split; [reflexivity|].
  split; [exact E | exact A].
Qed.

Lemma seqS a b pre t1 i t2 rest tt1 tt2 :
  parsedS a pre t1 (i ++ t2 ++ rest) tt1 -> blanks i -> starts_blank (t2 ++ rest) = false ->
  parsedS b (pre ++ t1 ++ i) t2 rest tt2 ->
  parsedS (PSeq a b) pre (t1 ++ i ++ t2) rest (tt1 ++ tt2).
Proof.
  intros [a1 [b1 [T1 [Et1 [Hb1 [E1 A1]]]]]] Hi Hs [a2 [b2 [T2 [Et2 [Hb2 [E2 A2]]]]]].
  exists (t1 ++ i ++ a2), b2, (T1 ++ [] ++ T2).
  split; [subst t2; napp|]. split; [exact Hb2|]. split.
  - eapply evals_seq_ok.
    + evq E1.
    + apply (skipS (b1 ++ i)); [blk | exact Hs | napp].
    + subst t1. evq E2.
  - rewrite !map_app. cbn [map app]. f_equal.
    + rewrite <- A1. f_equal. napp.
    + rewrite <- A2. f_equal. napp.
Qed.

Lemma seqS' a b pre t1 t2 rest tt1 tt2 :
  parsedS a pre t1 (t2 ++ rest) tt1 -> starts_blank (t2 ++ rest) = false ->
  parsedS b (pre ++ t1) t2 rest tt2 ->
  parsedS (PSeq a b) pre (t1 ++ t2) rest (tt1 ++ tt2).
Proof.
  intros H1 Hs H2. apply (seqS a b pre t1 [] t2 rest tt1 tt2 H1 blanks_nil Hs).
  rewrite app_nil_r. exact H2.
Qed.

(** an expression that consumes nothing and emits nothing, in front *)
Lemma seq0S a b pre text rest tt :
  (forall pos r, EV a AtNon pos r (POk pos r [])) -> starts_blank (text ++ rest) = false ->
  parsedS b pre text rest tt -> parsedS (PSeq a b) pre text rest tt.
Proof.
  intros Ha Hs [a2 [b2 [T2 [Et [Hb [E A]]]]]]. exists a2, b2, ([] ++ [] ++ T2).
  split; [exact Et|]. split; [exact Hb|]. split; [|exact A].
  eapply evals_seq_ok; [apply Ha | apply skip_none, Hs | exact E].
Qed.

Lemma refS r body pre text rest tts :
  lookup r (g_rules l_grammar) = Some (MNormal, body) -> opt_eqb (g_ws l_grammar) r = false ->
  parsedS body pre text rest tts -> parsedS (PRef r) pre text rest [TNode r (trim text) tts].
Proof.
  intros Hl Hw [a [b [Ts [Et [Hb [E A]]]]]]. exists a, b, [Node r (length pre) (length pre + length a) Ts].
  split; [exact Et|]. split; [exact Hb|]. split.
  - eapply evals_ref_normal_ok; eassumption.
  - cbn [map]. rewrite (annotate_node_eq pre a (b ++ rest)); [| subst text; napp | reflexivity | reflexivity].
    rewrite A. subst text. rewrite trim_app_blank by exact Hb. reflexivity.
Qed.

Lemma silentS r body pre text rest tts :
  lookup r (g_rules l_grammar) = Some (MSilent, body) -> opt_eqb (g_ws l_grammar) r = false ->
  parsedS body pre text rest tts -> parsedS (PRef r) pre text rest tts.
Proof.
  intros Hl Hw [a [b [Ts [Et [Hb [E A]]]]]]. exists a, b, Ts.
  split; [exact Et|]. split; [exact Hb|]. split; [|exact A]. eapply evals_ref_silent; eassumption.
Qed.

Lemma altS_l a b pre text rest tt : parsedS a pre text rest tt -> parsedS (PAlt a b) pre text rest tt.
Proof.
  intros [x [y [Ts [Et [Hb [E A]]]]]]. exists x, y, Ts. repeat split; try assumption. apply evals_alt_l, E.
Qed.

Lemma altS_r a b pre text rest tt :
  EV a AtNon (length pre) (text ++ rest) PFail -> parsedS b pre text rest tt -> parsedS (PAlt a b) pre text rest tt.
Proof.
  intros Hf [x [y [Ts [Et [Hb [E A]]]]]]. exists x, y, Ts. repeat split; try assumption. apply evals_alt_r; assumption.
Qed.

Lemma optS_some a pre text rest tt : parsedS a pre text rest tt -> parsedS (POpt a) pre text rest tt.
Proof.
  intros [x [y [Ts [Et [Hb [E A]]]]]]. exists x, y, Ts. repeat split; try assumption. apply evals_opt_some, E.
Qed.

Lemma nothingS e pre rest : EV e AtNon (length pre) rest (POk (length pre) rest []) -> parsedS e pre [] rest [].
Proof.
  intro H. exists [], [], []. split; [reflexivity|]. split; [reflexivity|]. split; [|reflexivity].
  cbn [app length]. rewrite Nat.add_0_r. exact H.
Qed.

Lemma strS s pre rest : parsedS (PStr s) pre s rest [].
Proof.
  apply parsed_S. exists []. split; [|reflexivity]. apply evals_str_ok, strip_prefix_app_some.
Qed.

(** ---- repetitions over indented items ---- *)
Definition itemT := (str * str * ttree)%type.
Definition it_ind (x : itemT) : str := fst (fst x).
Definition it_txt (x : itemT) : str := snd (fst x).
Definition it_tt (x : itemT) : ttree := snd x.
Fixpoint catI (items : list itemT) : str :=
  match items with [] => [] | x :: r => it_ind x ++ it_txt x ++ catI r end.

Lemma nonblank_prefix t a b : (forall rest, starts_blank (t ++ rest) = false) -> t <> [] -> t = a ++ b -> blanks b -> a <> [].
Proof.
  intros Hs Hne Et Hb Ha. subst a. cbn [app] in Et. subst t. destruct b as [|c b]; [congruence|].
  specialize (Hs []). cbn in Hs. unfold blanks in Hb. cbn in Hb. rewrite Hs in Hb. discriminate.
Qed.

Section ItemsS.
Variable A : pexp.
Variable R : str -> Prop.   (* what must follow an item for it to parse *)

Definition itemS_ok (x : itemT) : Prop :=
  blanks (it_ind x) /\ (forall rest, starts_blank (it_txt x ++ rest) = false) /\ it_txt x <> [] /\
  forall pre rest, R rest -> parsedS A pre (it_txt x) rest [it_tt x].

Fixpoint RsS (items : list itemT) (rest : str) : Prop :=
  match items with [] => True | x :: r => R (catI r ++ rest) /\ RsS r rest end.

Lemma itemsS_tail : forall items pre i0 j rest, blanks i0 -> blanks j -> Forall itemS_ok items ->
  RsS items (j ++ rest) -> stop_ok A rest ->
  parsedS (PRepTail A) pre (i0 ++ catI items ++ j) rest (map it_tt items).
Proof.
  induction items as [|x r IH]; intros pre i0 j rest Hi0 Hj H HR [Hr Hstop].
  - exists [], (i0 ++ j), []. cbn [catI app map length]. rewrite Nat.add_0_r.
    split; [reflexivity|]. split; [blk|]. split; [|reflexivity].
    eapply evals_reptail_stop; [apply (skip_blanks (i0 ++ j)); [blk | exact Hr] | apply Hstop].
  - destruct x as [[ind t] tt]. inversion H as [|x0 l Hit Hrest]; subst.
    destruct Hit as [Hind [Hs [Hne Hp]]]. cbn [it_ind it_txt it_tt fst snd] in *.
    destruct HR as [HR1 HR].
    destruct (Hp (pre ++ i0 ++ ind) (catI r ++ j ++ rest) HR1) as [a1 [b1 [T1 [Et [Hb1 [E1 A1]]]]]].
    destruct (IH (pre ++ i0 ++ ind ++ a1) b1 j rest Hb1 Hj Hrest HR (conj Hr Hstop)) as [a2 [b2 [T2 [Et2 [Hb2 [E2 A2]]]]]].
    pose proof (nonblank_prefix t a1 b1 Hs Hne Et Hb1) as Hne1.
    exists (i0 ++ ind ++ a1 ++ a2), b2, ([] ++ T1 ++ T2).
    cbn [catI it_ind it_txt it_tt fst snd map].
    split.
    { transitivity (i0 ++ ind ++ a1 ++ (b1 ++ catI r ++ j)); [subst t; napp|]. rewrite Et2. napp. }
    split; [exact Hb2|]. split.
    + eapply evals_reptail_step.
      * apply (skipS (i0 ++ ind) (length pre) (t ++ catI r ++ j ++ rest)); [blk | apply Hs | napp].
      * evq E1.
      * destruct a1; [congruence|]. rewrite !app_length. cbn [length]. lia.
      * evq E2.
    + cbn [app]. rewrite map_app. change (tt :: map it_tt r) with ([tt] ++ map it_tt r). f_equal.
      * rewrite <- A1. f_equal. napp.
      * rewrite <- A2. f_equal. subst t. napp.
Qed.

(** A*  started on the text of a first item (its indentation already skipped) *)
Lemma itemsS_rep : forall ind t tt r pre j rest, blanks j -> Forall itemS_ok ((ind, t, tt) :: r) ->
  RsS ((ind, t, tt) :: r) (j ++ rest) -> stop_ok A rest ->
  parsedS (PRep A) pre (t ++ catI r ++ j) rest (tt :: map it_tt r).
Proof.
  intros ind t tt r pre j rest Hj H HR Hstop. inversion H as [|x0 l Hit Hrest]; subst.
  destruct Hit as [Hind [Hs [Hne Hp]]]. cbn [it_ind it_txt it_tt fst snd] in *. destruct HR as [HR1 HR].
  destruct (Hp pre (catI r ++ j ++ rest) HR1) as [a1 [b1 [T1 [Et [Hb1 [E1 A1]]]]]].
  destruct (itemsS_tail r (pre ++ a1) b1 j rest Hb1 Hj Hrest HR Hstop) as [a2 [b2 [T2 [Et2 [Hb2 [E2 A2]]]]]].
  exists (a1 ++ a2), b2, (T1 ++ T2).
  split.
  { transitivity (a1 ++ (b1 ++ catI r ++ j)); [subst t; napp|]. rewrite Et2. napp. }
  split; [exact Hb2|]. split.
  - eapply evals_rep_some; [evq E1 | evq E2].
  - rewrite map_app. change (tt :: map it_tt r) with ([tt] ++ map it_tt r). f_equal.
    + rewrite <- A1. f_equal. napp.
    + rewrite <- A2. f_equal. subst t. napp.
Qed.

Lemma repS_none pre rest : stop_ok A rest -> parsedS (PRep A) pre [] rest [].
Proof. intros [_ H]. apply nothingS, evals_rep_none, H. Qed.

(** A ~ A*  over a non-empty sequence; [j] = the blanks before what stops the repetition *)
Lemma itemsS_plus : forall ind t tt r pre j rest, blanks j -> Forall itemS_ok ((ind, t, tt) :: r) ->
  RsS ((ind, t, tt) :: r) (j ++ rest) -> stop_ok A rest ->
  parsedS (PSeq A (PRep A)) pre (t ++ catI r ++ j) rest (tt :: map it_tt r).
Proof.
  intros ind t tt r pre j rest Hj H HR Hstop. inversion H as [|x0 l Hit Hrest]; subst.
  destruct Hit as [Hind [Hs [Hne Hp]]]. cbn [it_ind it_txt it_tt fst snd] in *. destruct HR as [HR1 HR].
  change (tt :: map it_tt r) with ([tt] ++ map it_tt r).
  destruct r as [|[[ind2 t2] tt2] r2].
  - cbn [catI app map]. cbn [catI app] in HR1.
    replace (t ++ j) with (t ++ j ++ []) by (rewrite app_nil_r; reflexivity).
    apply (seqS A (PRep A) pre t j [] rest [tt] []); [apply Hp; cbn [app]; exact HR1 | exact Hj | apply Hstop | apply repS_none, Hstop].
  - cbn [catI it_ind it_txt fst snd].
    replace (t ++ (ind2 ++ t2 ++ catI r2) ++ j) with (t ++ ind2 ++ (t2 ++ catI r2 ++ j)) by napp.
    inversion Hrest as [|x1 l1 Hit2 Hrest2]; subst.
    apply seqS.
    + apply Hp. evar (z : str). replace (ind2 ++ (t2 ++ catI r2 ++ j) ++ rest) with z; [exact HR1|]. subst z.
      cbn [catI it_ind it_txt fst snd]. napp.
    + apply Hit2.
    + rewrite <- !app_assoc. apply Hit2.
    + apply (itemsS_rep ind2 t2 tt2 r2); assumption.
Qed.
End ItemsS.

(** ================= rules of the grammar in the calculus ================= *)
From Coq Require Import ZifyBool.
Notation Rx := (stop_ok X_body).
Notation TT := (fun _ : str => True).

Lemma RsS_true : forall items rest, RsS TT items rest.
Proof. induction items as [|x r IH]; intro rest; cbn [RsS]; [exact I | split; [exact I | apply IH]]. Qed.

Lemma testS pre cond rest : cond_ok cond = true -> parsedS (PRef L_TEST) pre cond (10 :: rest) [TNode L_TEST cond []].
Proof.
  intro H. apply parsed_S. eexists. split; [apply test_parses, H|].
  cbn [map]. rewrite (annotate_node_eq pre cond (10 :: rest)) by reflexivity. rewrite trim_cond by exact H. reflexivity.
Qed.

Lemma nlaltS K pre rest : (forall pos r, EV K AtNon pos (10 :: r) (POk (S pos) r [])) -> parsedS K pre [10] rest [].
Proof. intro H. apply parsed_S. exists []. split; [|reflexivity]. evq (H (length pre) rest). Qed.

Lemma cond_headS R K kw ALT pre cond rest :
  lookup R (g_rules l_grammar) = Some (MNormal, PSeq (PRef K) (PSeq (PRef L_TEST) ALT)) -> opt_eqb (g_ws l_grammar) R = false ->
  lookup K (g_rules l_grammar) = Some (MSilent, PStr kw) -> opt_eqb (g_ws l_grammar) K = false ->
  (forall pos r, EV ALT AtNon pos (10 :: r) (POk (S pos) r [])) ->
  cond_ok cond = true ->
  parsedS (PRef R) pre (kw ++ cond ++ [10]) rest [TNode R (trim (kw ++ cond ++ [10])) [TNode L_TEST cond []]].
Proof.
  intros HR HwR HK HwK Halt Hc.
  apply (refS R _ pre (kw ++ cond ++ [10]) rest ([] ++ [TNode L_TEST cond []] ++ []) HR HwR).
  apply seqS'.
  - eapply silentS; [exact HK | exact HwK | apply strS].
  - rewrite <- app_assoc. apply cond_starts, Hc.
  - apply seqS'; [exact (testS _ cond rest Hc) | reflexivity | apply nlaltS, Halt].
Qed.

Definition while_head_t (cond : str) := TNode L_WHILE_HEAD (trim (s_while ++ cond ++ [10])) [TNode L_TEST cond []].
Definition if_head_t (cond : str) := TNode L_IF_HEAD (trim (s_if ++ cond ++ [10])) [TNode L_TEST cond []].

Lemma while_headS cond : cond_ok cond = true ->
  forall pre rest, parsedS (PRef L_WHILE_HEAD) pre (s_while ++ cond ++ [10]) rest [while_head_t cond].
Proof.
  intros H pre rest.
  apply (cond_headS L_WHILE_HEAD L_KW_WHILE s_while (PAlt (PRef L_DUMMY_DO) NL)); try reflexivity; [|exact H].
  intros pos r. apply then_do_fail.
Qed.

Lemma if_headS cond : cond_ok cond = true ->
  forall pre rest, parsedS (PRef L_IF_HEAD) pre (s_if ++ cond ++ [10]) rest [if_head_t cond].
Proof.
  intros H pre rest.
  apply (cond_headS L_IF_HEAD L_KW_IF s_if (PAlt (PRef L_DUMMY_THEN) NL)); try reflexivity; [|exact H].
  intros pos r. apply then_do_fail.
Qed.

Lemma for_varS pre var rest : wfp_var var = true -> parsedS (PRef L_FOR_VAR) pre var (32 :: rest) [TNode L_FOR_VAR var []].
Proof.
  intro H. apply parsed_S. eexists. split; [apply for_var_parses, H|].
  cbn [map]. rewrite (annotate_node_eq pre var (32 :: rest)) by reflexivity. rewrite var_trim by exact H. reflexivity.
Qed.

Lemma var_starts var rest : wfp_var var = true -> starts_blank (var ++ rest) = false.
Proof.
  intro Hv. destruct var as [|c v]; [discriminate|]. cbn [wfp_var] in Hv. apply andb_prop in Hv as [Hc _].
  cbn. apply blank_ws, alnum_not_ws. unfold is_alnum_us. apply orb_prop in Hc as [Hc|Hc]; rewrite Hc; lia.
Qed.

Definition for_head_t (var words : str) :=
  TNode L_FOR_HEAD (trim (s_for ++ var ++ s_in ++ words ++ [10]))
    [TNode L_FOR_INIT (trim (var ++ s_in ++ words ++ [10])) [TNode L_FOR_VAR var []; TNode L_TEST words []]].

Lemma for_headS var words : wfp_var var = true -> cond_ok words = true ->
  forall pre rest, parsedS (PRef L_FOR_HEAD) pre (s_for ++ var ++ s_in ++ words ++ [10]) rest [for_head_t var words].
Proof.
  intros Hv Hw pre rest.
  apply (refS L_FOR_HEAD _ pre (s_for ++ (var ++ [32] ++ ([105; 110] ++ [32] ++ (words ++ [10])))) rest
           ([] ++ [TNode L_FOR_INIT (trim (var ++ [32] ++ ([105; 110] ++ [32] ++ (words ++ [10]))))
                     ([TNode L_FOR_VAR var []] ++ [] ++ [TNode L_TEST words []] ++ [])]) eq_refl eq_refl).
  apply seqS'.
  - eapply silentS; [reflexivity | reflexivity | apply strS].
  - rewrite <- app_assoc. apply var_starts, Hv.
  - apply (refS L_FOR_INIT _ _ _ _ _ eq_refl eq_refl).
    apply seqS; [exact (for_varS _ var _ Hv) | reflexivity | reflexivity |].
    apply seqS; [apply strS | reflexivity | rewrite <- app_assoc; apply cond_starts, Hw |].
    apply seqS'; [exact (testS _ words rest Hw) | reflexivity | apply nlaltS].
    intros pos r. apply then_do_fail.
Qed.

Lemma kw_doneS pre rest : parsedS (PRef L_KW_DONE) pre (s_done ++ [10]) rest [].
Proof. apply parsed_S. exists []. split; [|reflexivity]. evq (kw_done_ok (length pre) rest). Qed.

Lemma kw_fiS pre rest : parsedS (PRef L_KW_FI) pre (s_fi ++ [10]) rest [].
Proof. apply parsed_S. exists []. split; [|reflexivity]. evq (kw_fi_ok (length pre) rest). Qed.

Lemma kw_elseS pre rest : parsedS (PRef L_KW_ELSE) pre (s_else ++ [10]) rest [TNode L_KW_ELSE s_else []].
Proof.
  apply parsed_S. exists [Node L_KW_ELSE (length pre) (length pre + length (s_else ++ [10%N])) []]. split.
  { eapply EV_eq; [exact (kw_else_ok (length pre) rest) | reflexivity | reflexivity |].
    replace (S (length pre + 4))%nat with (length pre + length (s_else ++ [10%N]))%nat by (change (length (s_else ++ [10%N])) with 5%nat; lia). reflexivity. }
  cbn [map]. rewrite (annotate_node_eq pre (s_else ++ [10]) rest) by reflexivity. reflexivity.
Qed.

(** EXP_BODY over a non-empty sequence of indented items; [j] = the blanks before the closing keyword *)
Lemma bodyS ind t tt r j : blanks j -> Forall (itemS_ok X_body TT) ((ind, t, tt) :: r) ->
  forall pre rest, Rx rest ->
  parsedS (PRef L_EXP_BODY) pre (t ++ catI r ++ j) rest [TNode L_EXP_BODY (trim (t ++ catI r)) (tt :: map it_tt r)].
Proof.
  intros Hj H pre rest HR.
  assert (Etr : trim (t ++ catI r ++ j) = trim (t ++ catI r)).
  { rewrite <- (trim_app_blank (t ++ catI r) j Hj). f_equal. napp. }
  rewrite <- Etr. apply (refS L_EXP_BODY _ _ _ _ _ eq_refl eq_refl).
  apply (itemsS_plus X_body TT ind); [exact Hj | exact H | apply RsS_true | exact HR].
Qed.

(** HEAD ~ EXP_BODY : IF_IF_BR, IF_ELSE_BR *)
Lemma brS R H htext htree ind t tt r j :
  lookup R (g_rules l_grammar) = Some (MNormal, PSeq (PRef H) (PRef L_EXP_BODY)) -> opt_eqb (g_ws l_grammar) R = false ->
  (forall pre rest, parsedS (PRef H) pre htext rest [htree]) ->
  blanks j -> Forall (itemS_ok X_body TT) ((ind, t, tt) :: r) ->
  forall pre rest, Rx rest ->
  parsedS (PRef R) pre (htext ++ ind ++ t ++ catI r ++ j) rest
    [TNode R (trim (htext ++ ind ++ t ++ catI r)) [htree; TNode L_EXP_BODY (trim (t ++ catI r)) (tt :: map it_tt r)]].
Proof.
  intros HR Hw Hh Hj Hi pre rest HRx.
  assert (Etr : trim (htext ++ ind ++ t ++ catI r ++ j) = trim (htext ++ ind ++ t ++ catI r)).
  { rewrite <- (trim_app_blank (htext ++ ind ++ t ++ catI r) j Hj). f_equal. napp. }
  rewrite <- Etr.
  pose proof Hi as Hi'. inversion Hi' as [|x l [Hind [Hs _]] _]; subst. cbn [it_ind it_txt fst snd] in *.
  apply (refS R _ pre _ rest ([htree] ++ [TNode L_EXP_BODY (trim (t ++ catI r)) (tt :: map it_tt r)]) HR Hw).
  apply seqS; [apply Hh | exact Hind | rewrite <- !app_assoc; apply Hs | apply (bodyS ind); assumption].
Qed.

(** (SOI)? ~ HEAD ~ EXP_BODY ~ KW_DONE : EXP_FOR, EXP_WHILE *)
Lemma loopS R H htext htree ind t tt r j :
  lookup R (g_rules l_grammar) = Some (MNormal, PSeq (POpt PSoi) (PSeq (PRef H) (PSeq (PRef L_EXP_BODY) (PRef L_KW_DONE)))) ->
  opt_eqb (g_ws l_grammar) R = false ->
  (forall pre rest, parsedS (PRef H) pre htext rest [htree]) ->
  (forall rest, starts_blank (htext ++ rest) = false) ->
  blanks j -> Forall (itemS_ok X_body TT) ((ind, t, tt) :: r) ->
  forall pre rest,
  parsedS (PRef R) pre (htext ++ ind ++ (t ++ catI r ++ j) ++ s_done ++ [10]) rest
    [TNode R (trim (htext ++ ind ++ (t ++ catI r ++ j) ++ s_done ++ [10]))
       [htree; TNode L_EXP_BODY (trim (t ++ catI r)) (tt :: map it_tt r)]].
Proof.
  intros HR Hw Hh Hhs Hj Hi pre rest.
  pose proof Hi as Hi'. inversion Hi' as [|x l [Hind [Hs _]] _]; subst. cbn [it_ind it_txt fst snd] in *.
  apply (refS R _ pre _ rest ([htree] ++ [TNode L_EXP_BODY (trim (t ++ catI r)) (tt :: map it_tt r)] ++ []) HR Hw).
  apply seq0S; [apply opt_soi | rewrite <- app_assoc; apply Hhs |].
  apply seqS; [apply Hh | exact Hind | rewrite <- !app_assoc; apply Hs |].
  apply seqS'; [apply (bodyS ind); [exact Hj | exact Hi | exact (stop_done rest)] | reflexivity | apply kw_doneS].
Qed.
