(** Command substitution [$(cmd)] on one token: the loop of
    do_command_substitution_for_dollar splices the trimmed output of the one
    substitution; an inner line that does not plan yields the empty output; the loop
    terminates on every word (each round removes a dollar character). *)
From Coq Require Import List NArith ZArith Bool Lia.
From Cicada Require Import Base.Chars Base.Tag Base.Regex Gen.ShellRegexes Model.Expand Model.ExpandRef.
Import ListNotations.
From Coq Require String.
Import String.StringSyntax.
Local Open Scope N_scope.

(* ================================================================== (a) should_do_dollar *)
Lemma line_norm (head cmd tail : str) :
  head ++ [36; 40] ++ cmd ++ [41] ++ tail = head ++ 36 :: 40 :: cmd ++ 41 :: tail.
Proof. reflexivity. Qed.

Lemma in_cs_not41 c : c <> 41 -> in_cs true [(41, 41)] c = true.
Proof.
  intros H. unfold in_cs. cbn [existsb fst snd]. rewrite orb_false_r.
  destruct ((41 <=? c) && (c <=? 41)) eqn:E; [|reflexivity].
  apply andb_true_iff in E as [A B]. apply N.leb_le in A, B. exfalso; apply H; lia.
Qed.

Lemma star_not41 s : ~ In 41 s -> Matches (Star (Chr true [(41, 41)])) s.
Proof.
  induction s as [|c s IH]; intros H; [constructor|].
  change (c :: s) with ([c] ++ s). apply MStarS.
  - apply MChr. apply in_cs_not41. intros E. apply H. left. exact E.
  - apply IH. intros E. apply H. right. exact E.
Qed.

Lemma dollar_cmd_search a cmd b :
  cmd <> [] -> ~ In 41 cmd -> rx_search rx_dollar_cmd (a ++ 36 :: 40 :: cmd ++ 41 :: b) = true.
Proof.
  intros Hne H41. destruct cmd as [|c cmd]; [congruence|].
  change (a ++ 36 :: 40 :: (c :: cmd) ++ 41 :: b) with (a ++ (36 :: 40 :: (c :: cmd) ++ [41]) ++ b)
    || (replace (a ++ 36 :: 40 :: (c :: cmd) ++ 41 :: b) with (a ++ (36 :: 40 :: (c :: cmd) ++ [41]) ++ b)
          by (cbn; rewrite <- app_assoc; reflexivity)).
  apply rx_search_intro; [reflexivity | reflexivity |].
  change (36 :: 40 :: (c :: cmd) ++ [41]) with ([36] ++ [40] ++ (([c] ++ cmd) ++ [41])).
  unfold rx_dollar_cmd; cbn [rx_re].
  apply MCat; [apply MChr; reflexivity|].
  apply MCat; [apply MChr; reflexivity|].
  apply MCat; [|apply MChr; reflexivity].
  apply MCat.
  - apply MChr. apply in_cs_not41. intros E. apply H41. left. exact E.
  - apply star_not41. intros E. apply H41. right. exact E.
Qed.

Lemma dollar_alias_off t : (~ In 61 t \/ ~ In 39 t) -> rx_search rx_dollar_cmd_alias t = false.
Proof.
  intros H. destruct (rx_search rx_dollar_cmd_alias t) eqn:E; [exfalso|reflexivity].
  pose proof (rx_search_requires 61 rx_dollar_cmd_alias t eq_refl E).
  pose proof (rx_search_requires 39 rx_dollar_cmd_alias t eq_refl E). tauto.
Qed.

Lemma should_do_true head cmd tail :
  cmd <> [] -> ~ In 41 cmd ->
  (~ In 61 (head ++ [36; 40] ++ cmd ++ [41] ++ tail) \/ ~ In 39 (head ++ [36; 40] ++ cmd ++ [41] ++ tail)) ->
  should_do_dollar (head ++ [36; 40] ++ cmd ++ [41] ++ tail) = true.
Proof.
  intros Hne H41 Hx. unfold should_do_dollar.
  rewrite (dollar_alias_off _ Hx). rewrite line_norm.
  rewrite dollar_cmd_search by assumption. reflexivity.
Qed.

Lemma should_do_no_dollar t : ~ In 36 t -> should_do_dollar t = false.
Proof.
  intros H. unfold should_do_dollar.
  destruct (rx_search rx_dollar_cmd t) eqn:E; [|reflexivity].
  exfalso. apply H. apply (rx_search_requires 36 rx_dollar_cmd t); [reflexivity | exact E].
Qed.

(* ================================================================== (b) find_dollar *)
Lemma span_not_nl s : ~ In 10 s -> span not_nl s = (s, []).
Proof.
  induction s as [|c s IH]; intros H; [reflexivity|].
  cbn [span]. unfold not_nl at 1.
  destruct (c =? 10) eqn:E.
  - apply N.eqb_eq in E. exfalso. apply H. left. exact E.
  - cbn [negb]. rewrite IH; [reflexivity|]. intros X. apply H. right. exact X.
Qed.

Lemma split_last_absent c s : ~ In c s -> split_last c s = None.
Proof.
  induction s as [|x s IH]; intros H; [reflexivity|].
  cbn [split_last]. rewrite IH by (intros X; apply H; right; exact X).
  destruct (x =? c) eqn:E; [|reflexivity].
  apply N.eqb_eq in E. exfalso. apply H. left. exact E.
Qed.

Lemma split_last_mid cmd tail : ~ In 41 tail -> split_last 41 (cmd ++ 41 :: tail) = Some (cmd, tail).
Proof.
  intros H. induction cmd as [|c cmd IH].
  - cbn [app split_last]. rewrite (split_last_absent 41 tail H). reflexivity.
  - cbn [app split_last]. rewrite IH. reflexivity.
Qed.

Lemma dollar_at_mid cmd tail :
  cmd <> [] -> ~ In 10 cmd -> ~ In 10 tail -> ~ In 41 tail ->
  dollar_at (cmd ++ 41 :: tail) = Some (cmd, tail, []).
Proof.
  intros Hne Hc Ht H41. unfold dollar_at, split_nl.
  rewrite span_not_nl.
  - rewrite split_last_mid by exact H41. destruct cmd; [congruence|reflexivity].
  - intros X. apply in_app_or in X as [X|[X|X]]; [tauto | discriminate | tauto].
Qed.

Lemma find_dollar_mid head cmd tail :
  ~ In 36 head -> cmd <> [] -> ~ In 10 cmd -> ~ In 10 tail -> ~ In 41 tail ->
  find_dollar (head ++ 36 :: 40 :: cmd ++ 41 :: tail) = Some (head, cmd, tail, []).
Proof.
  intros Hh Hne Hc Ht H41. induction head as [|c head IH].
  - cbn [app find_dollar]. rewrite N.eqb_refl. cbn [strip_prefix]. rewrite N.eqb_refl.
    rewrite dollar_at_mid by assumption. reflexivity.
  - cbn [app find_dollar].
    assert (E : (c =? 36) = false).
    { apply N.eqb_neq. intros X. apply Hh. left. exact X. }
    rewrite E. rewrite IH by (intros X; apply Hh; right; exact X). reflexivity.
Qed.

(* ================================================================== (c) head_of *)
Lemma head_of_clean head : ~ In 36 head -> head_of head = ([], head).
Proof. intros H. unfold head_of. rewrite (split_last_absent 36 head H). reflexivity. Qed.

(* ================================================================== (d) the splice *)
(** since 5e2d7b7 the replacer concatenates head group, output and tail group: the output is text,
    whatever it contains *)
Lemma dollar_splice_gen before cmd tail post o pre head :
  head_of before = (pre, head) ->
  dollar_splice before cmd tail post o = pre ++ (head ++ o ++ tail) ++ post.
Proof. intros Hh. unfold dollar_splice. rewrite Hh. reflexivity. Qed.

Lemma dollar_splice_clean head cmd tail o :
  ~ In 36 head ->
  dollar_splice head cmd tail [] o = head ++ o ++ tail.
Proof.
  intros Hh. rewrite (dollar_splice_gen head cmd tail [] o [] head (head_of_clean head Hh)).
  cbn [app]. rewrite app_nil_r. reflexivity.
Qed.

(* ================================================================== the dollar-paren sequence *)
(** a match of the finder pattern contains the two-character sequence dollar, open paren *)
Fixpoint has_dollar_paren (s : str) : bool :=
  match s with
  | a :: ((b :: _) as r) => ((a =? 36) && (b =? 40)) || has_dollar_paren r
  | _ => false
  end.

Lemma has_dollar_paren_cons2 (a b : N) (s : list N) :
  has_dollar_paren (a :: b :: s) = ((a =? 36) && (b =? 40)) || has_dollar_paren (b :: s).
Proof. reflexivity. Qed.

Lemma has_dollar_paren_app a b : has_dollar_paren (a ++ 36 :: 40 :: b) = true.
Proof.
  induction a as [|x a IH].
  - reflexivity.
  - cbn [app]. destruct (a ++ 36 :: 40 :: b) as [|c l] eqn:E.
    + destruct a; discriminate.
    + rewrite has_dollar_paren_cons2. rewrite IH. apply orb_true_r.
Qed.

Lemma has_dollar_paren_false_neq s :
  has_dollar_paren s = false -> forall a b, s <> a ++ 36 :: 40 :: b.
Proof. intros H a b E. subst s. rewrite has_dollar_paren_app in H. discriminate. Qed.

Lemma in_cs_single (c x : N) : in_cs false [(c, c)] x = true -> x = c.
Proof.
  unfold in_cs. cbn [existsb fst snd]. rewrite xorb_false_l, orb_false_r. intros H.
  apply andb_true_iff in H as [A B]. apply N.leb_le in A, B. lia.
Qed.

Lemma chr_single_inv (c : N) m : Matches (Chr false [(c, c)]) m -> m = [c].
Proof. intros H. inversion H; subst. f_equal. apply in_cs_single. assumption. Qed.

Lemma dollar_cmd_search_inv s :
  rx_search rx_dollar_cmd s = true -> exists a b, s = a ++ 36 :: 40 :: b.
Proof.
  intros H. unfold rx_search in H. apply matchb_spec in H.
  unfold rx_full, rx_dollar_cmd in H. cbn [rx_ab rx_ae rx_re] in H.
  apply cat_inv in H as (s1 & s2 & -> & _ & H).
  apply cat_inv in H as (s3 & s4 & -> & H & _).
  apply cat_inv in H as (d & r & -> & Hd & H).
  apply cat_inv in H as (p & r' & -> & Hp & _).
  apply chr_single_inv in Hd. apply chr_single_inv in Hp. subst d p.
  exists s1, (r' ++ s4). cbn [app]. reflexivity.
Qed.

Lemma should_do_needs_dollar_paren s : has_dollar_paren s = false -> should_do_dollar s = false.
Proof.
  intros H. unfold should_do_dollar.
  destruct (rx_search rx_dollar_cmd s) eqn:E; [|reflexivity].
  apply dollar_cmd_search_inv in E as (a & b & ->).
  rewrite has_dollar_paren_app in H. discriminate.
Qed.

Lemma has_dollar_paren_no_dollar s : ~ In 36 s -> has_dollar_paren s = false.
Proof.
  induction s as [|a s IH]; intros H; [reflexivity|].
  destruct s as [|b s]; [reflexivity|].
  rewrite has_dollar_paren_cons2.
  rewrite IH by (intros X; apply H; right; exact X).
  assert (E : (a =? 36) = false) by (apply N.eqb_neq; intros X; apply H; left; exact X).
  rewrite E. reflexivity.
Qed.

Lemma has_dollar_paren_no_paren s : ~ In 40 s -> has_dollar_paren s = false.
Proof.
  induction s as [|a s IH]; intros H; [reflexivity|].
  destruct s as [|b s]; [reflexivity|].
  rewrite has_dollar_paren_cons2.
  rewrite IH by (intros X; apply H; right; exact X).
  assert (E : (b =? 40) = false) by (apply N.eqb_neq; intros X; apply H; right; left; exact X).
  rewrite E, andb_false_r. reflexivity.
Qed.

(* ================================================================== the loop *)
(** = [oracle_text] of the model *)
Definition oracle_out (W : World) (cmd : str) : str :=
  match run_capture W cmd with Some o => o | None => [] end.

Lemma dollar_loop_S f W line log :
  dollar_loop (S f) W line log
  = if negb (should_do_dollar line) then Ok (Some line, log)
    else match find_dollar line with
         | None => Ok (None, log)
         | Some (before, cmd, tail, post) =>
             dollar_loop f W (dollar_splice before cmd tail post (trim (oracle_out W cmd))) (log ++ [cmd])
         end.
Proof. reflexivity. Qed.

(** one substitution: the trimmed output is spliced as it is; dollars of the output ($1, ${x}, $name)
    and of the tail are kept; the only thing asked of the result is that it has no dollar-paren
    sequence (which the loop would run again) *)
Theorem dollar_loop_splices : forall W head cmd tail f,
  ~ In 36 head -> ~ In 10 tail -> ~ In 41 tail -> cmd <> [] -> ~ In 41 cmd -> ~ In 10 cmd ->
  (~ In 61 (head ++ [36; 40] ++ cmd ++ [41] ++ tail) \/ ~ In 39 (head ++ [36; 40] ++ cmd ++ [41] ++ tail)) ->
  has_dollar_paren (head ++ trim (oracle_out W cmd) ++ tail) = false ->
  dollar_loop (S (S f)) W (head ++ [36; 40] ++ cmd ++ [41] ++ tail) []
  = Ok (Some (head ++ trim (oracle_out W cmd) ++ tail), [cmd]).
Proof.
  intros W head cmd tail f Hh Ht10 Ht41 Hne Hc41 Hc10 Hx Ho.
  rewrite dollar_loop_S.
  rewrite (should_do_true head cmd tail Hne Hc41 Hx). cbn [negb].
  rewrite line_norm. rewrite find_dollar_mid by assumption.
  rewrite dollar_splice_clean by exact Hh.
  rewrite dollar_loop_S.
  erewrite should_do_needs_dollar_paren by exact Ho. reflexivity.
Qed.

Lemma trim_nil : trim [] = [].
Proof. reflexivity. Qed.

Theorem dollar_loop_unplannable : forall W head cmd tail f,
  ~ In 36 head -> ~ In 36 tail -> ~ In 10 tail -> ~ In 41 tail ->
  cmd <> [] -> ~ In 41 cmd -> ~ In 10 cmd ->
  (~ In 61 (head ++ [36; 40] ++ cmd ++ [41] ++ tail) \/ ~ In 39 (head ++ [36; 40] ++ cmd ++ [41] ++ tail)) ->
  run_capture W cmd = None ->
  dollar_loop (S (S f)) W (head ++ [36; 40] ++ cmd ++ [41] ++ tail) [] = Ok (Some (head ++ tail), [cmd]).
Proof.
  intros W head cmd tail f Hh Ht36 Ht10 Ht41 Hne Hc41 Hc10 Hx Hrun.
  assert (E : oracle_out W cmd = []) by (unfold oracle_out; rewrite Hrun; reflexivity).
  rewrite (dollar_loop_splices W head cmd tail f); try assumption.
  - rewrite E, trim_nil. reflexivity.
  - rewrite E, trim_nil. apply has_dollar_paren_no_dollar.
    intros X. apply in_app_or in X as [X|X]; tauto.
Qed.

(* ================================================================== termination *)
Lemma span_app p s a b : span p s = (a, b) -> s = a ++ b.
Proof.
  revert a b. induction s as [|c s IH]; intros a b H.
  - cbn in H. injection H as <- <-. reflexivity.
  - cbn [span] in H. destruct (p c).
    + destruct (span p s) as [a' b'] eqn:E. injection H as <- <-.
      cbn [app]. f_equal. apply IH. reflexivity.
    + injection H as <- <-. reflexivity.
Qed.

Lemma split_last_app c s a b : split_last c s = Some (a, b) -> s = a ++ c :: b.
Proof.
  revert a b. induction s as [|x s IH]; intros a b H; [discriminate|].
  cbn [split_last] in H. destruct (split_last c s) as [[a' b']|] eqn:E.
  - injection H as <- <-. cbn [app]. f_equal. apply IH. reflexivity.
  - destruct (x =? c) eqn:X; [|discriminate]. apply N.eqb_eq in X. subst x.
    injection H as <- <-. reflexivity.
Qed.

Lemma strip_prefix1_app c r r' : strip_prefix [c] r = Some r' -> r = c :: r'.
Proof.
  destruct r as [|x r]; [discriminate|]. cbn [strip_prefix].
  destruct (c =? x) eqn:E; [|discriminate]. apply N.eqb_eq in E. subst x.
  intros H. injection H as <-. reflexivity.
Qed.

Lemma dollar_at_app r cmd tail post :
  dollar_at r = Some (cmd, tail, post) -> r = cmd ++ 41 :: tail ++ post.
Proof.
  unfold dollar_at, split_nl. destruct (span not_nl r) as [seg post'] eqn:E.
  destruct (split_last 41 seg) as [[cmd' tail']|] eqn:L; [|discriminate].
  destruct (is_empty cmd'); [discriminate|]. intros H. injection H as <- <- <-.
  apply span_app in E. apply split_last_app in L. subst seg. subst r.
  rewrite <- app_assoc. reflexivity.
Qed.

Lemma find_dollar_app line before cmd tail post :
  find_dollar line = Some (before, cmd, tail, post) ->
  line = before ++ [36; 40] ++ cmd ++ [41] ++ tail ++ post.
Proof.
  revert before. induction line as [|c r IH]; intros before H; [discriminate|].
  cbn [find_dollar] in H.
  destruct (if c =? 36 then match strip_prefix [40] r with Some r' => dollar_at r' | None => None end else None)
    as [[[cmd' tail'] post']|] eqn:E.
  - injection H as <- <- <- <-.
    destruct (c =? 36) eqn:C; [|discriminate]. apply N.eqb_eq in C. subst c.
    destruct (strip_prefix [40] r) as [r'|] eqn:P; [|discriminate].
    apply strip_prefix1_app in P. apply dollar_at_app in E. subst r r'. reflexivity.
  - destruct (find_dollar r) as [[[[b' cmd'] tail'] post']|] eqn:F; [|discriminate].
    injection H as <- <- <- <-. cbn [app]. f_equal. apply IH. reflexivity.
Qed.

Lemma head_of_app before pre head : head_of before = (pre, head) -> before = pre ++ head.
Proof.
  unfold head_of. destruct (split_last 36 before) as [[a b]|] eqn:E; intros H; injection H as <- <-.
  - apply split_last_app in E. rewrite E. rewrite <- app_assoc. reflexivity.
  - reflexivity.
Qed.

(** the splice for EVERY position of the dollar-paren, in one piece *)
Lemma dollar_splice_eq before cmd tail post o :
  dollar_splice before cmd tail post o = before ++ o ++ tail ++ post.
Proof.
  destruct (head_of before) as [pre head] eqn:E.
  rewrite (dollar_splice_gen before cmd tail post o pre head E).
  apply head_of_app in E. subst before. rewrite <- !app_assoc. reflexivity.
Qed.

Lemma split_last_rest c s a b : split_last c s = Some (a, b) -> ~ In c b.
Proof.
  revert a b. induction s as [|x s IH]; intros a b H; [discriminate|].
  cbn [split_last] in H. destruct (split_last c s) as [[a' b']|] eqn:E.
  - injection H as <- <-. apply (IH a' b'). reflexivity.
  - destruct (x =? c); [|discriminate]. injection H as <- <-.
    intros X. revert E. clear -X. induction s as [|y s IH]; [destruct X|].
    cbn [split_last]. destruct (split_last c s) as [[a b]|] eqn:E; [discriminate|].
    destruct X as [X|X].
    + subst y. rewrite N.eqb_refl. discriminate.
    + exfalso. apply (IH X). reflexivity.
Qed.

Lemma head_of_clean_head before pre head : head_of before = (pre, head) -> ~ In 36 head.
Proof.
  unfold head_of. destruct (split_last 36 before) as [[a b]|] eqn:E; intros H; injection H as <- <-.
  - apply (split_last_rest _ _ _ _ E).
  - intros X. revert E. clear -X. induction before as [|y s IH]; [destruct X|].
    cbn [split_last]. destruct (split_last 36 s) as [[a b]|] eqn:E; [discriminate|].
    destruct X as [X|X].
    + subst y. rewrite N.eqb_refl. discriminate.
    + exfalso. apply (IH X). reflexivity.
Qed.

Notation cnt s := (count_occ N.eq_dec s 36).

Lemma cnt_zero s : ~ In 36 s -> cnt s = 0%nat.
Proof. intros H. apply count_occ_not_In. exact H. Qed.

Lemma dollar_splice_count line before cmd tail post o :
  find_dollar line = Some (before, cmd, tail, post) -> ~ In 36 o ->
  (cnt (dollar_splice before cmd tail post o) < cnt line)%nat.
Proof.
  intros Hf Ho. apply find_dollar_app in Hf. subst line.
  destruct (head_of before) as [pre head] eqn:Hh.
  rewrite (dollar_splice_gen before cmd tail post o pre head Hh).
  apply head_of_app in Hh. subst before.
  repeat rewrite count_occ_app. pose proof (cnt_zero o Ho) as Z.
  change (cnt [36; 40]) with 1%nat. change (cnt [41]) with 0%nat. unfold char in *. lia.
Qed.

Lemma trim_oracle_clean W :
  (forall c o, run_capture W c = Some o -> ~ In 36 (trim o)) ->
  forall cmd, ~ In 36 (trim (oracle_out W cmd)).
Proof.
  intros H cmd. unfold oracle_out. destruct (run_capture W cmd) as [o|] eqn:E.
  - apply (H cmd o E).
  - rewrite trim_nil. intros [].
Qed.

Lemma dollar_loop_terminates_le W :
  (forall c o, run_capture W c = Some o -> ~ In 36 (trim o)) ->
  forall n line log, (cnt line <= n)%nat -> exists r, dollar_loop (S n) W line log = Ok r.
Proof.
  intros HW n. induction n as [|n IH]; intros line log Hc.
  - rewrite dollar_loop_S. rewrite should_do_no_dollar.
    + cbn [negb]. eexists. reflexivity.
    + apply (count_occ_not_In N.eq_dec). lia.
  - rewrite dollar_loop_S. destruct (should_do_dollar line); cbn [negb]; [|eexists; reflexivity].
    destruct (find_dollar line) as [[[[before cmd] tail] post]|] eqn:F; [|eexists; reflexivity].
    apply IH.
    pose proof (dollar_splice_count line before cmd tail post _ F (trim_oracle_clean W HW cmd)). lia.
Qed.

Theorem dollar_loop_terminates : forall W,
  (forall c o, run_capture W c = Some o -> ~ In 36 (trim o)) ->
  forall line log, exists r, dollar_loop (S (count_occ N.eq_dec line 36)) W line log = Ok r.
Proof. intros W HW line log. apply (dollar_loop_terminates_le W HW). apply le_n. Qed.

(* ================================================================== embedded backquotes *)
Lemma span_not_bq_stop h r : ~ In 96 h -> span not_bq (h ++ 96 :: r) = (h, 96 :: r).
Proof.
  induction h as [|c h IH]; intros H; [reflexivity|].
  cbn [app span]. unfold not_bq at 1.
  destruct (c =? 96) eqn:E.
  - apply N.eqb_eq in E. exfalso. apply H. left. exact E.
  - cbn [negb]. rewrite IH; [reflexivity|]. intros X. apply H. right. exact X.
Qed.

Lemma span_not_bq_all t : ~ In 96 t -> span not_bq t = (t, []).
Proof.
  induction t as [|c t IH]; intros H; [reflexivity|].
  cbn [span]. unfold not_bq at 1.
  destruct (c =? 96) eqn:E.
  - apply N.eqb_eq in E. exfalso. apply H. left. exact E.
  - cbn [negb]. rewrite IH; [reflexivity|]. intros X. apply H. right. exact X.
Qed.

Lemma contains_char_absent c t : ~ In c t -> contains_char c t = false.
Proof.
  induction t as [|x t IH]; intros H; [reflexivity|].
  unfold contains_char. cbn [existsb].
  assert (E : (x =? c) = false) by (apply N.eqb_neq; intros X; apply H; left; exact X).
  rewrite E. cbn [orb]. apply IH. intros X. apply H. right. exact X.
Qed.

Lemma dot_split_mid h c t :
  ~ In 96 h -> ~ In 96 c -> c <> [] -> ~ In 10 t ->
  dot_split (h ++ 96 :: c ++ 96 :: t) = Some (h, c, t).
Proof.
  intros Hh Hc Hne Ht. unfold dot_split.
  rewrite span_not_bq_stop by exact Hh. cbn [strip_prefix]. rewrite N.eqb_refl.
  rewrite span_not_bq_stop by exact Hc. cbn [strip_prefix]. rewrite N.eqb_refl.
  rewrite contains_char_absent by exact Ht.
  destruct c; [congruence|reflexivity].
Qed.

Lemma dot_split_no_bq t : ~ In 96 t -> dot_split t = None.
Proof. intros H. unfold dot_split. rewrite span_not_bq_all by exact H. reflexivity. Qed.

Lemma dot_loop_S f W tok item log :
  dot_loop (S f) W tok item log
  = match dot_split tok with
    | None => Ok (if is_empty tok then item else item ++ tok, log)
    | Some (h, c, t) =>
        let item' := item ++ h ++ trim (oracle_text W c) in
        if is_empty t then Ok (item', log ++ [c]) else dot_loop f W t item' (log ++ [c])
    end.
Proof. reflexivity. Qed.

(** one embedded backquote command: its trimmed output is spliced; when the command does not plan the
    replacement is empty (no previous output is involved any more) *)
Theorem dot_loop_one : forall W h c t item log f,
  ~ In 96 h -> ~ In 96 c -> c <> [] -> ~ In 96 t -> ~ In 10 t ->
  dot_loop (S (S f)) W (h ++ 96 :: c ++ 96 :: t) item log = Ok (item ++ h ++ trim (oracle_text W c) ++ t, log ++ [c]).
Proof.
  intros W h c t item log f Hh Hc Hne Ht96 Ht10.
  rewrite dot_loop_S. rewrite dot_split_mid by assumption. cbv zeta.
  destruct t as [|x t].
  - cbn [is_empty]. rewrite app_nil_r. reflexivity.
  - cbn [is_empty]. rewrite dot_loop_S. rewrite dot_split_no_bq by exact Ht96.
    cbn [is_empty]. rewrite <- !app_assoc. reflexivity.
Qed.

Theorem dot_loop_two : forall W h1 c1 h2 c2 t f,
  ~ In 96 h1 -> ~ In 96 c1 -> c1 <> [] -> ~ In 96 h2 -> ~ In 10 h2 -> ~ In 96 c2 -> c2 <> [] -> ~ In 10 c2 ->
  ~ In 96 t -> ~ In 10 t ->
  dot_loop (S (S (S f))) W (h1 ++ 96 :: c1 ++ 96 :: h2 ++ 96 :: c2 ++ 96 :: t) [] []
  = Ok (h1 ++ trim (oracle_text W c1) ++ h2 ++ trim (oracle_text W c2) ++ t, [c1; c2]).
Proof.
  intros W h1 c1 h2 c2 t f Hh1 Hc1 Hne1 Hh2 Hh2n Hc2 Hne2 Hc2n Ht96 Ht10.
  rewrite dot_loop_S.
  assert (Hn : ~ In 10 (h2 ++ 96 :: c2 ++ 96 :: t)).
  { intros X. apply in_app_or in X as [X|[X|X]]; [tauto | discriminate |].
    apply in_app_or in X as [X|[X|X]]; [tauto | discriminate | tauto]. }
  rewrite (dot_split_mid h1 c1 (h2 ++ 96 :: c2 ++ 96 :: t) Hh1 Hc1 Hne1 Hn). cbv zeta.
  match goal with
  | |- context [@is_empty ?A ?x] => replace (@is_empty A x) with false by (destruct h2; reflexivity)
  end.
  rewrite dot_loop_one by assumption.
  cbn [app]. rewrite <- !app_assoc. reflexivity.
Qed.



(* ================================================================== B. balanced scan (fix-5) *)


(* ================================================================== the general splice *)
(** the text BEFORE the substitution may contain dollars (none directly followed by an open paren) and
    newlines; the text AFTER it may continue on further lines *)
Lemma span_not_nl_stop (s r : str) : ~ In 10 s -> span not_nl (s ++ 10 :: r) = (s, 10 :: r).
Proof.
  induction s as [|c s IH]; intros H; [reflexivity|].
  cbn [app span]. unfold not_nl at 1.
  destruct (c =? 10) eqn:E.
  - apply N.eqb_eq in E. exfalso. apply H. left. exact E.
  - cbn [negb]. rewrite IH; [reflexivity|]. intros X. apply H. right. exact X.
Qed.

Lemma dollar_at_lines (cmd tail post : str) :
  cmd <> [] -> ~ In 10 cmd -> ~ In 10 tail -> ~ In 41 tail ->
  (post = [] \/ exists r, post = 10 :: r) ->
  dollar_at (cmd ++ 41 :: tail ++ post) = Some (cmd, tail, post).
Proof.
  intros Hne Hc Ht H41 [->|(r & ->)].
  - rewrite app_nil_r. apply dollar_at_mid; assumption.
  - unfold dollar_at, split_nl.
    replace (cmd ++ 41 :: tail ++ 10 :: r) with ((cmd ++ 41 :: tail) ++ 10 :: r)
      by (rewrite <- app_assoc; reflexivity).
    rewrite span_not_nl_stop.
    + rewrite split_last_mid by exact H41. destruct cmd; [congruence|reflexivity].
    + intros X. apply in_app_or in X as [X|[X|X]]; [tauto | discriminate | tauto].
Qed.

Lemma find_dollar_gen (before cmd tail post : str) :
  has_dollar_paren before = false ->
  cmd <> [] -> ~ In 10 cmd -> ~ In 10 tail -> ~ In 41 tail -> (post = [] \/ exists r, post = 10 :: r) ->
  find_dollar (before ++ 36 :: 40 :: cmd ++ 41 :: tail ++ post) = Some (before, cmd, tail, post).
Proof.
  intros Hb Hne Hc Ht H41 Hp. induction before as [|c before IH].
  - cbn [app find_dollar]. rewrite N.eqb_refl. cbn [strip_prefix]. rewrite N.eqb_refl.
    rewrite dollar_at_lines by assumption. reflexivity.
  - assert (Hb' : has_dollar_paren before = false).
    { destruct before as [|b before]; [reflexivity|].
      rewrite has_dollar_paren_cons2 in Hb. apply orb_false_iff in Hb as [_ Hb]. exact Hb. }
    cbn [app find_dollar].
    assert (E : (if c =? 36
                 then match strip_prefix [40] (before ++ 36 :: 40 :: cmd ++ 41 :: tail ++ post) with
                      | Some r' => dollar_at r' | None => None end
                 else None) = None).
    { destruct (c =? 36) eqn:C; [|reflexivity].
      destruct before as [|b before].
      - reflexivity.
      - rewrite has_dollar_paren_cons2 in Hb. apply orb_false_iff in Hb as [Hb _].
        rewrite C in Hb. cbn [andb] in Hb. cbn [app strip_prefix].
        rewrite N.eqb_sym, Hb. reflexivity. }
    rewrite E. rewrite (IH Hb'). reflexivity.
Qed.

Theorem dollar_loop_splices_gen : forall W (before cmd tail post : str) f,
  has_dollar_paren before = false ->
  cmd <> [] -> ~ In 41 cmd -> ~ In 10 cmd -> ~ In 10 tail -> ~ In 41 tail -> (post = [] \/ exists r, post = 10 :: r) ->
  (~ In 61 (before ++ [36; 40] ++ cmd ++ [41] ++ tail ++ post) \/ ~ In 39 (before ++ [36; 40] ++ cmd ++ [41] ++ tail ++ post)) ->
  has_dollar_paren (before ++ trim (oracle_out W cmd) ++ tail ++ post) = false ->
  dollar_loop (S (S f)) W (before ++ [36; 40] ++ cmd ++ [41] ++ tail ++ post) []
  = Ok (Some (before ++ trim (oracle_out W cmd) ++ tail ++ post), [cmd]).
Proof.
  intros W before cmd tail post f Hb Hne Hc41 Hc10 Ht10 Ht41 Hp Hx Ho.
  rewrite dollar_loop_S.
  assert (Hs : should_do_dollar (before ++ [36; 40] ++ cmd ++ [41] ++ tail ++ post) = true).
  { unfold should_do_dollar. rewrite (dollar_alias_off _ Hx).
    change (before ++ [36; 40] ++ cmd ++ [41] ++ tail ++ post)
      with (before ++ 36 :: 40 :: cmd ++ 41 :: (tail ++ post)).
    rewrite dollar_cmd_search by assumption. reflexivity. }
  rewrite Hs. cbn [negb].
  change (before ++ [36; 40] ++ cmd ++ [41] ++ tail ++ post)
    with (before ++ 36 :: 40 :: cmd ++ 41 :: tail ++ post).
  rewrite find_dollar_gen by assumption.
  rewrite dollar_splice_eq.
  rewrite dollar_loop_S.
  erewrite should_do_needs_dollar_paren by exact Ho. reflexivity.
Qed.

(* ================================================================== the index buffer of the dollar pass *)
(** do_command_substitution_for_dollar keeps a hand-counted index over ALL tokens and writes the new
    texts back by index: that is the per-token recursion [dollar_pass] *)
Lemma set_text_at_pre (pre : tokens) tg (x s : str) (r : tokens) :
  set_text (length pre) s (pre ++ (tg, x) :: r) = pre ++ (tg, s) :: r.
Proof. induction pre as [|[a b] pre IH]; cbn; [reflexivity|]. rewrite IH. reflexivity. Qed.

Lemma apply_texts_cons (i : nat) (s : str) (b : list (nat * str)) (toks : tokens) :
  apply_texts ((i, s) :: b) toks = set_text i s (apply_texts b toks).
Proof. unfold apply_texts. cbn [rev]. rewrite fold_left_app. reflexivity. Qed.

Lemma dollar_collect_pass fuel W : forall (toks pre : tokens) (log : list str),
  match dollar_pass fuel W toks log with
  | Ok (Some ts, l) =>
      exists b, dollar_collect fuel W toks (length pre) log = Ok (Some b, l)
                /\ apply_texts b (pre ++ toks) = pre ++ ts
  | Ok (None, l) => dollar_collect fuel W toks (length pre) log = Ok (None, l)
  | Panic s => dollar_collect fuel W toks (length pre) log = Panic s
  | OutOfFuel => dollar_collect fuel W toks (length pre) log = OutOfFuel
  end.
Proof.
  induction toks as [|[tg text] r IH]; intros pre log.
  - cbn [dollar_pass dollar_collect]. exists []. split; reflexivity.
  - assert (Hshift : forall (t : token) (q : tokens), pre ++ t :: q = (pre ++ [t]) ++ q)
      by (intros t q; rewrite <- app_assoc; reflexivity).
    assert (Hlen : S (length pre) = length (pre ++ [(tg, text)]))
      by (rewrite app_length; cbn; rewrite Nat.add_1_r; reflexivity).
    cbn [dollar_pass dollar_collect].
    destruct (tag_eqb tg TSq || tag_eqb tg TBs || negb (should_do_dollar text)).
    + specialize (IH (pre ++ [(tg, text)]) log). rewrite <- Hlen in IH.
      destruct (dollar_pass fuel W r log) as [[[ts|] l]|s|]; cbn [bind option_map fst snd].
      * destruct IH as (b & Hc & Ha). exists b. split; [exact Hc|].
        rewrite (Hshift (tg, text) r). etransitivity; [exact Ha|].
        rewrite <- app_assoc. reflexivity.
      * exact IH.
      * exact IH.
      * exact IH.
    + destruct (dollar_loop fuel W text log) as [[[line|] l1]|s|]; cbn [bind fst snd]; try reflexivity.
      specialize (IH (pre ++ [(tg, text)]) l1). rewrite <- Hlen in IH.
      destruct (dollar_pass fuel W r l1) as [[[ts|] l]|s|]; cbn [bind option_map fst snd].
      * destruct IH as (b & Hc & Ha). exists ((length pre, line) :: b). split.
        { rewrite Hc. reflexivity. }
        rewrite apply_texts_cons, (Hshift (tg, text) r).
        etransitivity; [apply f_equal; exact Ha|].
        rewrite <- app_assoc. cbn [app]. apply set_text_at_pre.
      * rewrite IH. reflexivity.
      * rewrite IH. reflexivity.
      * rewrite IH. reflexivity.
Qed.

Theorem subst_dollar_eq : forall fuel W toks log,
  subst_dollar fuel W toks log
  = res_map (fun x => (match fst x with Some t => t | None => toks end, snd x)) (dollar_pass fuel W toks log).
Proof.
  intros fuel W toks log. unfold subst_dollar.
  pose proof (dollar_collect_pass fuel W toks [] log) as H. cbn [length app] in H.
  destruct (dollar_pass fuel W toks log) as [[[ts|] l]|s|].
  - destruct H as (b & -> & Ha). cbn [res_map fst snd]. rewrite Ha. reflexivity.
  - rewrite H. reflexivity.
  - rewrite H. reflexivity.
  - rewrite H. reflexivity.
Qed.

Print Assumptions dollar_splice_eq.
Print Assumptions dollar_loop_splices.
Print Assumptions dollar_loop_unplannable.
Print Assumptions dollar_loop_terminates.
Print Assumptions dot_loop_one.
Print Assumptions dot_loop_two.
Print Assumptions should_do_needs_dollar_paren.
Print Assumptions has_dollar_paren_no_dollar.
Print Assumptions has_dollar_paren_no_paren.
Print Assumptions dollar_loop_splices_gen.
Print Assumptions subst_dollar_eq.
