(** Command substitution [$(cmd)] on one token: the loop of
    do_command_substitution_for_dollar splices the trimmed output of the one
    substitution when the command plans, and never terminates when it does not. *)
From Coq Require Import List NArith ZArith Bool Lia.
From Cicada Require Import Base.Chars Base.Tag Base.Regex Gen.ShellRegexes Model.Expand Model.ExpandRef.
Import ListNotations.
From Coq Require String.
Import String.StringSyntax.
Local Open Scope N_scope.

(* ================================================================== (a) should_do_dollar *)
Lemma line_norm (head cmd tail : str) :
  head ++ [36; 40] ++ cmd ++ [41] ++ tail = head ++ 36 :: 40 :: cmd ++ 41 :: tail.
Proof. reflexivity. Qed.

Lemma in_cs_not41 c : c <> 41 -> in_cs true [(41, 41)] c = true.
Proof.
  intros H. unfold in_cs. cbn [existsb fst snd]. rewrite orb_false_r.
  destruct ((41 <=? c) && (c <=? 41)) eqn:E; [|reflexivity].
  apply andb_true_iff in E as [A B]. apply N.leb_le in A, B. exfalso; apply H; lia.
Qed.

Lemma star_not41 s : ~ In 41 s -> Matches (Star (Chr true [(41, 41)])) s.
Proof.
  induction s as [|c s IH]; intros H; [constructor|].
  change (c :: s) with ([c] ++ s). apply MStarS.
  - apply MChr. apply in_cs_not41. intros E. apply H. left. exact E.
  - apply IH. intros E. apply H. right. exact E.
Qed.

Lemma dollar_cmd_search a cmd b :
  cmd <> [] -> ~ In 41 cmd -> rx_search rx_dollar_cmd (a ++ 36 :: 40 :: cmd ++ 41 :: b) = true.
Proof.
  intros Hne H41. destruct cmd as [|c cmd]; [congruence|].
  change (a ++ 36 :: 40 :: (c :: cmd) ++ 41 :: b) with (a ++ (36 :: 40 :: (c :: cmd) ++ [41]) ++ b)
    || (replace (a ++ 36 :: 40 :: (c :: cmd) ++ 41 :: b) with (a ++ (36 :: 40 :: (c :: cmd) ++ [41]) ++ b)
          by (cbn; rewrite <- app_assoc; reflexivity)).
  apply rx_search_intro; [reflexivity | reflexivity |].
  change (36 :: 40 :: (c :: cmd) ++ [41]) with ([36] ++ [40] ++ (([c] ++ cmd) ++ [41])).
  unfold rx_dollar_cmd; cbn [rx_re].
  apply MCat; [apply MChr; reflexivity|].
  apply MCat; [apply MChr; reflexivity|].
  apply MCat; [|apply MChr; reflexivity].
  apply MCat.
  - apply MChr. apply in_cs_not41. intros E. apply H41. left. exact E.
  - apply star_not41. intros E. apply H41. right. exact E.
Qed.

Lemma dollar_alias_off t : (~ In 61 t \/ ~ In 39 t) -> rx_search rx_dollar_cmd_alias t = false.
Proof.
  intros H. destruct (rx_search rx_dollar_cmd_alias t) eqn:E; [exfalso|reflexivity].
  pose proof (rx_search_requires 61 rx_dollar_cmd_alias t eq_refl E).
  pose proof (rx_search_requires 39 rx_dollar_cmd_alias t eq_refl E). tauto.
Qed.

Lemma should_do_true head cmd tail :
  cmd <> [] -> ~ In 41 cmd ->
  (~ In 61 (head ++ [36; 40] ++ cmd ++ [41] ++ tail) \/ ~ In 39 (head ++ [36; 40] ++ cmd ++ [41] ++ tail)) ->
  should_do_dollar (head ++ [36; 40] ++ cmd ++ [41] ++ tail) = true.
Proof.
  intros Hne H41 Hx. unfold should_do_dollar.
  rewrite (dollar_alias_off _ Hx). rewrite line_norm.
  rewrite dollar_cmd_search by assumption. reflexivity.
Qed.

Lemma should_do_no_dollar t : ~ In 36 t -> should_do_dollar t = false.
Proof.
  intros H. unfold should_do_dollar.
  destruct (rx_search rx_dollar_cmd t) eqn:E; [|reflexivity].
  exfalso. apply H. apply (rx_search_requires 36 rx_dollar_cmd t); [reflexivity | exact E].
Qed.

(* ================================================================== (b) find_dollar *)
Lemma span_not_nl s : ~ In 10 s -> span not_nl s = (s, []).
Proof.
  induction s as [|c s IH]; intros H; [reflexivity|].
  cbn [span]. unfold not_nl at 1.
  destruct (c =? 10) eqn:E.
  - apply N.eqb_eq in E. exfalso. apply H. left. exact E.
  - cbn [negb]. rewrite IH; [reflexivity|]. intros X. apply H. right. exact X.
Qed.

Lemma split_last_absent c s : ~ In c s -> split_last c s = None.
Proof.
  induction s as [|x s IH]; intros H; [reflexivity|].
  cbn [split_last]. rewrite IH by (intros X; apply H; right; exact X).
  destruct (x =? c) eqn:E; [|reflexivity].
  apply N.eqb_eq in E. exfalso. apply H. left. exact E.
Qed.

Lemma split_last_mid cmd tail : ~ In 41 tail -> split_last 41 (cmd ++ 41 :: tail) = Some (cmd, tail).
Proof.
  intros H. induction cmd as [|c cmd IH].
  - cbn [app split_last]. rewrite (split_last_absent 41 tail H). reflexivity.
  - cbn [app split_last]. rewrite IH. reflexivity.
Qed.

Lemma dollar_at_mid cmd tail :
  cmd <> [] -> ~ In 10 cmd -> ~ In 10 tail -> ~ In 41 tail ->
  dollar_at (cmd ++ 41 :: tail) = Some (cmd, tail, []).
Proof.
  intros Hne Hc Ht H41. unfold dollar_at, split_nl.
  rewrite span_not_nl.
  - rewrite split_last_mid by exact H41. destruct cmd; [congruence|reflexivity].
  - intros X. apply in_app_or in X as [X|[X|X]]; [tauto | discriminate | tauto].
Qed.

Lemma find_dollar_mid head cmd tail :
  ~ In 36 head -> cmd <> [] -> ~ In 10 cmd -> ~ In 10 tail -> ~ In 41 tail ->
  find_dollar (head ++ 36 :: 40 :: cmd ++ 41 :: tail) = Some (head, cmd, tail, []).
Proof.
  intros Hh Hne Hc Ht H41. induction head as [|c head IH].
  - cbn [app find_dollar]. rewrite N.eqb_refl. cbn [strip_prefix]. rewrite N.eqb_refl.
    rewrite dollar_at_mid by assumption. reflexivity.
  - cbn [app find_dollar].
    assert (E : (c =? 36) = false).
    { apply N.eqb_neq. intros X. apply Hh. left. exact X. }
    rewrite E. rewrite IH by (intros X; apply Hh; right; exact X). reflexivity.
Qed.

(* ================================================================== (c) head_of *)
Lemma head_of_clean head : ~ In 36 head -> head_of head = ([], head).
Proof. intros H. unfold head_of. rewrite (split_last_absent 36 head H). reflexivity. Qed.

(* ================================================================== (d) the template *)
Lemma fmt1_dollar_template o :
  fmt1 src_dollar_template o
  = 36 :: 123 :: 104 :: 101 :: 97 :: 100 :: 125 :: (o ++ [36; 123; 116; 97; 105; 108; 125]).
Proof. reflexivity. Qed.

Lemma tpl_go_clean G NM o r : ~ In 36 o -> tpl_go G NM 0 (o ++ r) = o ++ tpl_go G NM 0 r.
Proof.
  induction o as [|c o IH]; intros H; [reflexivity|].
  cbn [app tpl_go].
  assert (E : (c =? 36) = false).
  { apply N.eqb_neq. intros X. apply H. left. exact X. }
  rewrite E. rewrite IH by (intros X; apply H; right; exact X). reflexivity.
Qed.

Lemma parse_usize_head : parse_usize (s2l "head") = None.
Proof. reflexivity. Qed.
Lemma parse_usize_tail : parse_usize (s2l "tail") = None.
Proof. reflexivity. Qed.

Lemma cap_ref_head G NM : NM (s2l "head") = Some 1 -> cap_ref G NM [104; 101; 97; 100] = G 1.
Proof.
  intros H. unfold cap_ref. change [104; 101; 97; 100] with (s2l "head").
  rewrite parse_usize_head, H. reflexivity.
Qed.
Lemma cap_ref_tail G NM : NM (s2l "tail") = Some 2 -> cap_ref G NM [116; 97; 105; 108] = G 2.
Proof.
  intros H. unfold cap_ref. change [116; 97; 105; 108] with (s2l "tail").
  rewrite parse_usize_tail, H. reflexivity.
Qed.

Lemma tpl_dollar G NM o :
  NM (s2l "head") = Some 1 -> NM (s2l "tail") = Some 2 -> ~ In 36 o ->
  expand_template G NM (fmt1 src_dollar_template o) = G 1 ++ o ++ G 2.
Proof.
  intros Hh Ht Ho. rewrite fmt1_dollar_template. unfold expand_template.
  (* the leading reference *)
  change (tpl_go G NM 0 (36 :: 123 :: 104 :: 101 :: 97 :: 100 :: 125 :: (o ++ [36; 123; 116; 97; 105; 108; 125])))
    with (cap_ref G NM [104; 101; 97; 100] ++ tpl_go G NM 0 (o ++ [36; 123; 116; 97; 105; 108; 125])).
  rewrite cap_ref_head by exact Hh.
  rewrite tpl_go_clean by exact Ho.
  change (tpl_go G NM 0 [36; 123; 116; 97; 105; 108; 125]) with (cap_ref G NM [116; 97; 105; 108] ++ []).
  rewrite cap_ref_tail by exact Ht. rewrite app_nil_r. reflexivity.
Qed.

Lemma dollar_splice_clean head cmd tail o :
  ~ In 36 head -> ~ In 36 o ->
  dollar_splice head cmd tail [] o = head ++ o ++ tail.
Proof.
  intros Hh Ho. unfold dollar_splice. rewrite (head_of_clean head Hh). cbv zeta.
  rewrite tpl_dollar; [|reflexivity|reflexivity|exact Ho].
  cbn [N.eqb Pos.eqb app]. rewrite app_nil_r. reflexivity.
Qed.

(* ================================================================== the loop *)
Lemma dollar_loop_S f W line log :
  dollar_loop (S f) W line log
  = if negb (should_do_dollar line) then Ok (Some line, log)
    else match find_dollar line with
         | None => Ok (None, log)
         | Some (before, cmd, tail, post) =>
             match run_capture W cmd with
             | None => dollar_loop f W line (log ++ [cmd])
             | Some out => dollar_loop f W (dollar_splice before cmd tail post (trim out)) (log ++ [cmd])
             end
         end.
Proof. reflexivity. Qed.

Theorem dollar_loop_splices : forall W head cmd tail out f,
  ~ In 36 head -> ~ In 36 tail -> ~ In 10 tail -> ~ In 41 tail ->
  cmd <> [] -> ~ In 41 cmd -> ~ In 10 cmd ->
  (~ In 61 (head ++ [36; 40] ++ cmd ++ [41] ++ tail) \/ ~ In 39 (head ++ [36; 40] ++ cmd ++ [41] ++ tail)) ->
  run_capture W cmd = Some out -> ~ In 36 (trim out) ->
  dollar_loop (S (S f)) W (head ++ [36; 40] ++ cmd ++ [41] ++ tail) [] = Ok (Some (head ++ trim out ++ tail), [cmd]).
Proof.
  intros W head cmd tail out f Hh Ht36 Ht10 Ht41 Hne Hc41 Hc10 Hx Hrun Ho.
  rewrite dollar_loop_S.
  rewrite (should_do_true head cmd tail Hne Hc41 Hx). cbn [negb].
  rewrite line_norm. rewrite find_dollar_mid by assumption.
  rewrite Hrun. rewrite dollar_splice_clean by assumption.
  rewrite dollar_loop_S.
  rewrite should_do_no_dollar.
  - reflexivity.
  - intros X. apply in_app_or in X as [X|X]; [tauto|].
    apply in_app_or in X as [X|X]; tauto.
Qed.

Theorem dollar_loop_hangs : forall W head cmd tail,
  ~ In 36 head -> ~ In 10 tail -> ~ In 41 tail -> cmd <> [] -> ~ In 41 cmd -> ~ In 10 cmd ->
  (~ In 61 (head ++ [36; 40] ++ cmd ++ [41] ++ tail) \/ ~ In 39 (head ++ [36; 40] ++ cmd ++ [41] ++ tail)) ->
  run_capture W cmd = None ->
  forall f log, dollar_loop f W (head ++ [36; 40] ++ cmd ++ [41] ++ tail) log = OutOfFuel.
Proof.
  intros W head cmd tail Hh Ht10 Ht41 Hne Hc41 Hc10 Hx Hrun f.
  induction f as [|f IH]; intros log; [reflexivity|].
  rewrite dollar_loop_S.
  rewrite (should_do_true head cmd tail Hne Hc41 Hx). cbn [negb].
  rewrite line_norm. rewrite find_dollar_mid by assumption.
  rewrite Hrun. rewrite <- line_norm. apply IH.
Qed.

Print Assumptions dollar_loop_splices.
Print Assumptions dollar_loop_hangs.
