(** The gate [env_in_token] and words given as segment lists ([piece]): the regex facts about the
    gate, the characters of a rendering, well-formedness helpers, and the fact that the gate
    is open on every rendering that holds a reference and whose LITERALS keep clear of the
    exemption shapes ([lits_okg]; the values are not restricted).
    (The proofs about the former loop are in Historical/ExpandLoopProofs.v.) *)
From Coq Require Import List NArith ZArith Bool Lia.
From Cicada Require Import Base.Chars Base.Tag Base.Regex Gen.ShellRegexes Model.Expand Model.ExpandRef.
Import ListNotations.
Local Open Scope N_scope.


(* ================================================================== A: env_in_token *)

(** A1 *)
Lemma env_in_token_no_dollar t : ~ In 36 t -> env_in_token t = false.
Proof.
  intros H. unfold env_in_token.
  destruct (rx_search rx_env_special t) eqn:E1.
  { exfalso. apply H. apply (rx_search_requires 36 rx_env_special t); [reflexivity | exact E1]. }
  destruct (rx_search rx_env_name t) eqn:E2.
  { exfalso. apply H. apply (rx_search_requires 36 rx_env_name t); [reflexivity | exact E2]. }
  reflexivity.
Qed.

(** A2 *)
Lemma env_exempt_off t :
  ~ In 40 t -> (~ In 61 t \/ (~ In 96 t /\ ~ In 39 t)) ->
  rx_search rx_env_sub1 t || rx_search rx_env_sub2 t || rx_search rx_env_sub3 t = false
  /\ rx_search rx_env_alias t = false.
Proof.
  intros H40 H.
  assert (S1 : rx_search rx_env_sub1 t = false).
  { destruct (rx_search rx_env_sub1 t) eqn:E; [exfalso|reflexivity].
    pose proof (rx_search_requires 61 rx_env_sub1 t eq_refl E).
    pose proof (rx_search_requires 96 rx_env_sub1 t eq_refl E). tauto. }
  assert (S2 : rx_search rx_env_sub2 t = false).
  { destruct (rx_search rx_env_sub2 t) eqn:E; [exfalso|reflexivity].
    pose proof (rx_search_requires 40 rx_env_sub2 t eq_refl E). tauto. }
  assert (S3 : rx_search rx_env_sub3 t = false).
  { destruct (rx_search rx_env_sub3 t) eqn:E; [exfalso|reflexivity].
    pose proof (rx_search_requires 40 rx_env_sub3 t eq_refl E). tauto. }
  assert (S4 : rx_search rx_env_alias t = false).
  { destruct (rx_search rx_env_alias t) eqn:E; [exfalso|reflexivity].
    pose proof (rx_search_requires 61 rx_env_alias t eq_refl E).
    pose proof (rx_search_requires 39 rx_env_alias t eq_refl E). tauto. }
  rewrite S1, S2, S3, S4. split; reflexivity.
Qed.

(** A3 *)
Lemma name_start_cs n :
  is_name_start n = true -> in_cs false [(97, 122); (65, 90); (95, 95)] n = true.
Proof.
  unfold is_name_start, is_alpha, in_cs. rewrite xorb_false_l. cbn [existsb fst snd].
  rewrite orb_false_r. intros H.
  rewrite !orb_true_iff, !andb_true_iff, !N.leb_le in *. rewrite N.eqb_eq in H. lia.
Qed.

Lemma name_search_ub a n c :
  is_name_start n = true -> rx_search rx_env_name (a ++ 36 :: n :: c) = true.
Proof.
  intros Hn. change (a ++ 36 :: n :: c) with (a ++ [36; n] ++ c).
  apply rx_search_intro; [reflexivity | reflexivity |].
  change [36; n] with ([36] ++ [] ++ [n] ++ [] ++ []).
  unfold rx_env_name; cbn [rx_re].
  apply MCat; [apply MChr; reflexivity|].
  apply MCat; [apply MAltR; apply MEps|].
  apply MCat; [apply MChr; apply name_start_cs; exact Hn|].
  apply MCat; [apply MStar0 | apply MAltR; apply MEps].
Qed.

Lemma name_search_br a n c :
  is_name_start n = true -> rx_search rx_env_name (a ++ 36 :: 123 :: n :: c) = true.
Proof.
  intros Hn. change (a ++ 36 :: 123 :: n :: c) with (a ++ [36; 123; n] ++ c).
  apply rx_search_intro; [reflexivity | reflexivity |].
  change [36; 123; n] with ([36] ++ [123] ++ [n] ++ [] ++ []).
  unfold rx_env_name; cbn [rx_re].
  apply MCat; [apply MChr; reflexivity|].
  apply MCat; [apply MAltL; apply MChr; reflexivity|].
  apply MCat; [apply MChr; apply name_start_cs; exact Hn|].
  apply MCat; [apply MStar0 | apply MAltR; apply MEps].
Qed.

Lemma special_search_ub a k c :
  k = 36 \/ k = 63 -> rx_search rx_env_special (a ++ 36 :: k :: c) = true.
Proof.
  intros Hk. change (a ++ 36 :: k :: c) with (a ++ [36; k] ++ c).
  apply rx_search_intro; [reflexivity | reflexivity |].
  change [36; k] with ([36] ++ [] ++ [k] ++ []).
  unfold rx_env_special; cbn [rx_re].
  apply MCat; [apply MChr; reflexivity|].
  apply MCat; [apply MAltR; apply MEps|].
  apply MCat; [apply MChr; destruct Hk as [-> | ->]; reflexivity|].
  apply MAltR; apply MEps.
Qed.

Lemma special_search_br a k c :
  k = 36 \/ k = 63 -> rx_search rx_env_special (a ++ 36 :: 123 :: k :: c) = true.
Proof.
  intros Hk. change (a ++ 36 :: 123 :: k :: c) with (a ++ [36; 123; k] ++ c).
  apply rx_search_intro; [reflexivity | reflexivity |].
  change [36; 123; k] with ([36] ++ [123] ++ [k] ++ []).
  unfold rx_env_special; cbn [rx_re].
  apply MCat; [apply MChr; reflexivity|].
  apply MCat; [apply MAltL; apply MChr; reflexivity|].
  apply MCat; [apply MChr; destruct Hk as [-> | ->]; reflexivity|].
  apply MAltR; apply MEps.
Qed.

Lemma env_in_token_true t :
  rx_search rx_env_special t = true \/ rx_search rx_env_name t = true ->
  ~ In 40 t -> (~ In 61 t \/ (~ In 96 t /\ ~ In 39 t)) ->
  env_in_token t = true.
Proof.
  intros H H40 Hx. destruct (env_exempt_off t H40 Hx) as [E1 E2].
  unfold env_in_token. rewrite E1, E2.
  destruct (rx_search rx_env_special t); [reflexivity|].
  destruct H as [H|H]; [discriminate|]. rewrite H. reflexivity.
Qed.

(* ================================================================== rendering *)
Lemma render_app a b : render_pieces (a ++ b) = render_pieces a ++ render_pieces b.
Proof. unfold render_pieces. apply flat_map_app. Qed.
Lemma render_lit c r : render_pieces (PLit c :: r) = c :: render_pieces r.
Proof. reflexivity. Qed.
Lemma render_ub k r : render_pieces (PRef false k :: r) = 36 :: k ++ render_pieces r.
Proof. reflexivity. Qed.
Lemma render_br k r : render_pieces (PRef true k :: r) = 36 :: 123 :: k ++ 125 :: render_pieces r.
Proof. unfold render_pieces. cbn [flat_map render_piece app]. rewrite <- app_assoc. reflexivity. Qed.
Lemma render_map_lit v : render_pieces (map PLit v) = v.
Proof. induction v as [|c v IH]; [reflexivity|]. cbn [map]. rewrite render_lit, IH. reflexivity. Qed.

(* ================================================================== keys *)
Lemma name_start_alnum c : is_name_start c = true -> is_alnum_us c = true.
Proof.
  unfold is_name_start, is_alnum_us.
  destruct (is_digit c), (is_alpha c), (c =? 95); cbn; congruence.
Qed.

Lemma name_all_alnum k : is_name k = true -> forallb is_alnum_us k = true.
Proof.
  destruct k as [|c r]; cbn [is_name forallb]; [discriminate|]. intros H.
  apply andb_true_iff in H as [H1 H2]. rewrite (name_start_alnum _ H1), H2. reflexivity.
Qed.

Lemma wf_key_cases k : wf_key k = true -> is_name k = true \/ k = [36] \/ k = [63].
Proof. unfold wf_key. rewrite !orb_true_iff, !str_eqb_eq. tauto. Qed.

Lemma alnum_not_36 k : forallb is_alnum_us k = true -> ~ In 36 k.
Proof.
  intros H Hin. rewrite forallb_forall in H. apply H in Hin. vm_compute in Hin. discriminate.
Qed.

Lemma key_chars c k : wf_key k = true -> In c k -> is_alnum_us c = true \/ c = 36 \/ c = 63.
Proof.
  intros Hk Hin. destruct (wf_key_cases k Hk) as [H|[-> | ->]].
  - left. apply name_all_alnum in H. rewrite forallb_forall in H. apply H. exact Hin.
  - destruct Hin as [<-|[]]. auto.
  - destruct Hin as [<-|[]]. auto.
Qed.

Definition nhd (s : str) : bool :=
  match s with c :: _ => negb (is_alnum_us c) | [] => true end.

Lemma span_name k rest :
  forallb is_alnum_us k = true -> nhd rest = true -> span is_alnum_us (k ++ rest) = (k, rest).
Proof.
  intros Hk Hr. induction k as [|c k IH]; cbn [app].
  - destruct rest as [|d r]; [reflexivity|]. cbn [nhd] in Hr. apply negb_true_iff in Hr.
    cbn [span]. rewrite Hr. reflexivity.
  - cbn [forallb] in Hk. apply andb_true_iff in Hk as [Hc Hk]. cbn [span].
    rewrite Hc, (IH Hk). reflexivity.
Qed.


Lemma strip_prefix_hd c s : strip_prefix [c] (c :: s) = Some s.
Proof. cbn [strip_prefix]. rewrite N.eqb_refl. reflexivity. Qed.


(* ================================================================== well-formedness *)
Lemma wf_tail p r : wf_pieces (p :: r) = true -> wf_pieces r = true.
Proof.
  destruct p as [c|b k]; cbn [wf_pieces]; intros H; apply andb_true_iff in H; tauto.
Qed.

Lemma wf_app_r a x : wf_pieces (a ++ x) = true -> wf_pieces x = true.
Proof. induction a as [|p a IH]; cbn [app]; [auto|]. intros H. apply IH. eapply wf_tail; eauto. Qed.

Lemma wf_ref_key b k r : wf_pieces (PRef b k :: r) = true -> wf_key k = true.
Proof.
  cbn [wf_pieces]. intros H. apply andb_true_iff in H as [H _]. apply andb_true_iff in H; tauto.
Qed.

Lemma wf_lit_36 c r : wf_pieces (PLit c :: r) = true -> (c =? 36) = false.
Proof.
  cbn [wf_pieces]. intros H. apply andb_true_iff in H as [H _]. apply negb_true_iff in H. exact H.
Qed.

Lemma wf_ref_nhd k r :
  wf_pieces (PRef false k :: r) = true -> is_name k = true -> nhd (render_pieces r) = true.
Proof.
  cbn [wf_pieces]. intros H Hn. apply andb_true_iff in H as [H _]. apply andb_true_iff in H as [_ H].
  rewrite Hn in H. cbn [negb orb] in H.
  destruct r as [|[c|[|] k'] r'].
  - reflexivity.
  - exact H.
  - reflexivity.
  - reflexivity.
Qed.

Definition nub (p : piece) : bool := match p with PRef false _ => false | _ => true end.

Lemma wf_app_nub a x :
  forallb nub a = true -> wf_pieces (a ++ x) = wf_pieces a && wf_pieces x.
Proof.
  induction a as [|p a IH]; intros H; [reflexivity|].
  cbn [forallb] in H. apply andb_true_iff in H as [Hp Ha]. specialize (IH Ha).
  destruct p as [c|[|] k]; cbn [app wf_pieces orb].
  - rewrite IH. rewrite andb_assoc. reflexivity.
  - rewrite IH. rewrite !andb_true_r. rewrite andb_assoc. reflexivity.
  - discriminate Hp.
Qed.

Lemma wf_map_lit v x :
  wf_pieces (map PLit v ++ x) = forallb (fun c => negb (c =? 36)) v && wf_pieces x.
Proof.
  induction v as [|c v IH]; [reflexivity|].
  cbn [map app wf_pieces forallb]. rewrite IH, andb_assoc. reflexivity.
Qed.

(* ================================================================== characters of a rendering *)
Lemma in_render c ps :
  wf_pieces ps = true -> In c (render_pieces ps) ->
  In (PLit c) ps \/ is_alnum_us c = true \/ c = 36 \/ c = 63 \/ c = 123 \/ c = 125.
Proof.
  induction ps as [|p r IH]; intros Hwf Hin; [destruct Hin|].
  pose proof (wf_tail _ _ Hwf) as Hr. specialize (IH Hr).
  assert (IH' : In c (render_pieces r) ->
                In (PLit c) (p :: r) \/ is_alnum_us c = true \/ c = 36 \/ c = 63 \/ c = 123 \/ c = 125).
  { intros H. destruct (IH H) as [H'|H']; [left; right; exact H' | right; exact H']. }
  destruct p as [d|[|] k].
  - rewrite render_lit in Hin. destruct Hin as [<-|Hin]; [left; left; reflexivity | auto].
  - rewrite render_br in Hin. pose proof (wf_ref_key _ _ _ Hwf) as Hk.
    destruct Hin as [<-|[<-|Hin]]; [tauto | tauto |].
    apply in_app_or in Hin as [Hin|[<-|Hin]]; [| tauto | auto].
    destruct (key_chars c k Hk Hin) as [H|[H|H]]; tauto.
  - rewrite render_ub in Hin. pose proof (wf_ref_key _ _ _ Hwf) as Hk.
    destruct Hin as [<-|Hin]; [tauto|].
    apply in_app_or in Hin as [Hin|Hin]; [| auto].
    destruct (key_chars c k Hk Hin) as [H|[H|H]]; tauto.
Qed.


Lemma notin_render noeq c ps :
  wf_pieces ps = true -> lits_okg noeq ps = true ->
  okg noeq c = false -> is_alnum_us c = false ->
  c <> 36 -> c <> 63 -> c <> 123 -> c <> 125 ->
  ~ In c (render_pieces ps).
Proof.
  intros Hwf Hl Hok Ha H1 H2 H3 H4 Hin.
  destruct (in_render c ps Hwf Hin) as [H|[H|[H|[H|[H|H]]]]]; try congruence.
  unfold lits_okg in Hl. rewrite forallb_forall in Hl. apply Hl in H. congruence.
Qed.

(** no character of the rendering can take part in an exemption shape *)
Lemma render_clean noeq ps :
  wf_pieces ps = true -> lits_okg noeq ps = true ->
  ~ In 40 (render_pieces ps) /\
  (~ In 61 (render_pieces ps) \/ (~ In 96 (render_pieces ps) /\ ~ In 39 (render_pieces ps))).
Proof.
  intros Hwf Hl. split.
  - apply (notin_render noeq); auto; try discriminate; destruct noeq; reflexivity.
  - destruct noeq.
    + left. apply (notin_render true); auto; try discriminate; reflexivity.
    + right. split; apply (notin_render false); auto; try discriminate; reflexivity.
Qed.

(* ================================================================== counting, denotation *)
Lemma count_lit c r : count_refs (PLit c :: r) = count_refs r.
Proof. reflexivity. Qed.
Lemma count_ref b k r : count_refs (PRef b k :: r) = S (count_refs r).
Proof. reflexivity. Qed.

Lemma count_map_lit v : count_refs (map PLit v) = 0%nat.
Proof. induction v as [|c v IH]; [reflexivity|]. cbn [map]. rewrite count_lit. exact IH. Qed.

Lemma count_app a b : count_refs (a ++ b) = (count_refs a + count_refs b)%nat.
Proof. unfold count_refs. rewrite filter_app, app_length. reflexivity. Qed.

Lemma den_app W a b : den_pieces W (a ++ b) = den_pieces W a ++ den_pieces W b.
Proof. unfold den_pieces. apply flat_map_app. Qed.

Lemma den_map_lit W v : den_pieces W (map PLit v) = v.
Proof.
  induction v as [|c v IH]; [reflexivity|].
  cbn [map]. change (den_pieces W (PLit c :: map PLit v)) with (c :: den_pieces W (map PLit v)).
  rewrite IH. reflexivity.
Qed.

Lemma count_pos_split ps :
  count_refs ps <> 0%nat -> exists a br k b, ps = a ++ PRef br k :: b.
Proof.
  induction ps as [|p r IH]; intros H; [exfalso; apply H; reflexivity|].
  destruct p as [c|br k].
  - rewrite count_lit in H. destruct (IH H) as (a & br & k & b & ->).
    exists (PLit c :: a), br, k, b. reflexivity.
  - exists [], br, k, r. reflexivity.
Qed.

(* ================================================================== env_in_token on renderings *)
Lemma render_no_refs W ps :
  wf_pieces ps = true -> count_refs ps = 0%nat ->
  ~ In 36 (render_pieces ps) /\ den_pieces W ps = render_pieces ps.
Proof.
  induction ps as [|p r IH]; intros Hwf Hc; [split; [intros []|reflexivity]|].
  destruct p as [c|b k]; [|rewrite count_ref in Hc; discriminate].
  rewrite count_lit in Hc. destruct (IH (wf_tail _ _ Hwf) Hc) as [H1 H2].
  rewrite render_lit. split.
  - intros [E|H]; [|exact (H1 H)]. apply wf_lit_36 in Hwf. apply N.eqb_neq in Hwf. congruence.
  - change (den_pieces W (PLit c :: r)) with (c :: den_pieces W r). rewrite H2. reflexivity.
Qed.

Lemma env_in_render_ref noeq a br k b :
  wf_pieces (a ++ PRef br k :: b) = true -> lits_okg noeq (a ++ PRef br k :: b) = true ->
  env_in_token (render_pieces (a ++ PRef br k :: b)) = true.
Proof.
  intros Hwf Hl. destruct (render_clean noeq _ Hwf Hl) as (H40 & Hx).
  apply env_in_token_true; [|exact H40|exact Hx].
  pose proof (wf_ref_key _ _ _ (wf_app_r _ _ Hwf)) as Hk.
  rewrite render_app.
  destruct (wf_key_cases k Hk) as [H|[-> | ->]].
  - right. destruct k as [|n r]; [cbn in H; discriminate|].
    cbn [is_name] in H. apply andb_true_iff in H as [H _].
    destruct br.
    + rewrite render_br. cbn [app]. apply name_search_br. exact H.
    + rewrite render_ub. cbn [app]. apply name_search_ub. exact H.
  - left. destruct br.
    + rewrite render_br. cbn [app]. apply special_search_br. auto.
    + rewrite render_ub. cbn [app]. apply special_search_ub. auto.
  - left. destruct br.
    + rewrite render_br. cbn [app]. apply special_search_br. auto.
    + rewrite render_ub. cbn [app]. apply special_search_ub. auto.
Qed.

Print Assumptions render_clean.
Print Assumptions render_no_refs.
Print Assumptions env_in_render_ref.
