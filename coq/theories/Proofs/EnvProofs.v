(** C10, positive part: on the domain [c10_dom] the [while env_in_token] loop of
    expand_env terminates within [count_refs + 1] iterations and computes exactly the
    one-pass substitution [den_pieces]. *)
From Coq Require Import List NArith ZArith Bool Lia.
From Cicada Require Import Base.Chars Base.Tag Base.Regex Gen.ShellRegexes Model.Expand Model.ExpandRef.
Import ListNotations.
Local Open Scope N_scope.

(* ================================================================== A: env_in_token *)

(** A1 *)
Lemma env_in_token_no_dollar t : ~ In 36 t -> env_in_token t = false.
Proof.
  intros H. unfold env_in_token.
  destruct (rx_search rx_env_special t) eqn:E1.
  { exfalso. apply H. apply (rx_search_requires 36 rx_env_special t); [reflexivity | exact E1]. }
  destruct (rx_search rx_env_name t) eqn:E2.
  { exfalso. apply H. apply (rx_search_requires 36 rx_env_name t); [reflexivity | exact E2]. }
  reflexivity.
Qed.

(** A2 *)
Lemma env_exempt_off t :
  ~ In 40 t -> (~ In 61 t \/ (~ In 96 t /\ ~ In 39 t)) ->
  rx_search rx_env_sub1 t || rx_search rx_env_sub2 t || rx_search rx_env_sub3 t = false
  /\ rx_search rx_env_alias t = false.
Proof.
  intros H40 H.
  assert (S1 : rx_search rx_env_sub1 t = false).
  { destruct (rx_search rx_env_sub1 t) eqn:E; [exfalso|reflexivity].
    pose proof (rx_search_requires 61 rx_env_sub1 t eq_refl E).
    pose proof (rx_search_requires 96 rx_env_sub1 t eq_refl E). tauto. }
  assert (S2 : rx_search rx_env_sub2 t = false).
  { destruct (rx_search rx_env_sub2 t) eqn:E; [exfalso|reflexivity].
    pose proof (rx_search_requires 40 rx_env_sub2 t eq_refl E). tauto. }
  assert (S3 : rx_search rx_env_sub3 t = false).
  { destruct (rx_search rx_env_sub3 t) eqn:E; [exfalso|reflexivity].
    pose proof (rx_search_requires 40 rx_env_sub3 t eq_refl E). tauto. }
  assert (S4 : rx_search rx_env_alias t = false).
  { destruct (rx_search rx_env_alias t) eqn:E; [exfalso|reflexivity].
    pose proof (rx_search_requires 61 rx_env_alias t eq_refl E).
    pose proof (rx_search_requires 39 rx_env_alias t eq_refl E). tauto. }
  rewrite S1, S2, S3, S4. split; reflexivity.
Qed.

(** A3 *)
Lemma name_start_cs n :
  is_name_start n = true -> in_cs false [(97, 122); (65, 90); (95, 95)] n = true.
Proof.
  unfold is_name_start, is_alpha, in_cs. rewrite xorb_false_l. cbn [existsb fst snd].
  rewrite orb_false_r. intros H.
  rewrite !orb_true_iff, !andb_true_iff, !N.leb_le in *. rewrite N.eqb_eq in H. lia.
Qed.

Lemma name_search_ub a n c :
  is_name_start n = true -> rx_search rx_env_name (a ++ 36 :: n :: c) = true.
Proof.
  intros Hn. change (a ++ 36 :: n :: c) with (a ++ [36; n] ++ c).
  apply rx_search_intro; [reflexivity | reflexivity |].
  change [36; n] with ([36] ++ [] ++ [n] ++ [] ++ []).
  unfold rx_env_name; cbn [rx_re].
  apply MCat; [apply MChr; reflexivity|].
  apply MCat; [apply MAltR; apply MEps|].
  apply MCat; [apply MChr; apply name_start_cs; exact Hn|].
  apply MCat; [apply MStar0 | apply MAltR; apply MEps].
Qed.

Lemma name_search_br a n c :
  is_name_start n = true -> rx_search rx_env_name (a ++ 36 :: 123 :: n :: c) = true.
Proof.
  intros Hn. change (a ++ 36 :: 123 :: n :: c) with (a ++ [36; 123; n] ++ c).
  apply rx_search_intro; [reflexivity | reflexivity |].
  change [36; 123; n] with ([36] ++ [123] ++ [n] ++ [] ++ []).
  unfold rx_env_name; cbn [rx_re].
  apply MCat; [apply MChr; reflexivity|].
  apply MCat; [apply MAltL; apply MChr; reflexivity|].
  apply MCat; [apply MChr; apply name_start_cs; exact Hn|].
  apply MCat; [apply MStar0 | apply MAltR; apply MEps].
Qed.

Lemma special_search_ub a k c :
  k = 36 \/ k = 63 -> rx_search rx_env_special (a ++ 36 :: k :: c) = true.
Proof.
  intros Hk. change (a ++ 36 :: k :: c) with (a ++ [36; k] ++ c).
  apply rx_search_intro; [reflexivity | reflexivity |].
  change [36; k] with ([36] ++ [] ++ [k] ++ []).
  unfold rx_env_special; cbn [rx_re].
  apply MCat; [apply MChr; reflexivity|].
  apply MCat; [apply MAltR; apply MEps|].
  apply MCat; [apply MChr; destruct Hk as [-> | ->]; reflexivity|].
  apply MAltR; apply MEps.
Qed.

Lemma special_search_br a k c :
  k = 36 \/ k = 63 -> rx_search rx_env_special (a ++ 36 :: 123 :: k :: c) = true.
Proof.
  intros Hk. change (a ++ 36 :: 123 :: k :: c) with (a ++ [36; 123; k] ++ c).
  apply rx_search_intro; [reflexivity | reflexivity |].
  change [36; 123; k] with ([36] ++ [123] ++ [k] ++ []).
  unfold rx_env_special; cbn [rx_re].
  apply MCat; [apply MChr; reflexivity|].
  apply MCat; [apply MAltL; apply MChr; reflexivity|].
  apply MCat; [apply MChr; destruct Hk as [-> | ->]; reflexivity|].
  apply MAltR; apply MEps.
Qed.

Lemma env_in_token_true t :
  rx_search rx_env_special t = true \/ rx_search rx_env_name t = true ->
  ~ In 40 t -> (~ In 61 t \/ (~ In 96 t /\ ~ In 39 t)) ->
  env_in_token t = true.
Proof.
  intros H H40 Hx. destruct (env_exempt_off t H40 Hx) as [E1 E2].
  unfold env_in_token. rewrite E1, E2.
  destruct (rx_search rx_env_special t); [reflexivity|].
  destruct H as [H|H]; [discriminate|]. rewrite H. reflexivity.
Qed.

(* ================================================================== rendering *)
Lemma render_app a b : render_pieces (a ++ b) = render_pieces a ++ render_pieces b.
Proof. unfold render_pieces. apply flat_map_app. Qed.
Lemma render_lit c r : render_pieces (PLit c :: r) = c :: render_pieces r.
Proof. reflexivity. Qed.
Lemma render_ub k r : render_pieces (PRef false k :: r) = 36 :: k ++ render_pieces r.
Proof. reflexivity. Qed.
Lemma render_br k r : render_pieces (PRef true k :: r) = 36 :: 123 :: k ++ 125 :: render_pieces r.
Proof. unfold render_pieces. cbn [flat_map render_piece app]. rewrite <- app_assoc. reflexivity. Qed.
Lemma render_map_lit v : render_pieces (map PLit v) = v.
Proof. induction v as [|c v IH]; [reflexivity|]. cbn [map]. rewrite render_lit, IH. reflexivity. Qed.

(* ================================================================== keys *)
Lemma name_start_alnum c : is_name_start c = true -> is_alnum_us c = true.
Proof.
  unfold is_name_start, is_alnum_us.
  destruct (is_digit c), (is_alpha c), (c =? 95); cbn; congruence.
Qed.

Lemma name_all_alnum k : is_name k = true -> forallb is_alnum_us k = true.
Proof.
  destruct k as [|c r]; cbn [is_name forallb]; [discriminate|]. intros H.
  apply andb_true_iff in H as [H1 H2]. rewrite (name_start_alnum _ H1), H2. reflexivity.
Qed.

Lemma wf_key_cases k : wf_key k = true -> is_name k = true \/ k = [36] \/ k = [63].
Proof. unfold wf_key. rewrite !orb_true_iff, !str_eqb_eq. tauto. Qed.

Lemma alnum_not_36 k : forallb is_alnum_us k = true -> ~ In 36 k.
Proof.
  intros H Hin. rewrite forallb_forall in H. apply H in Hin. vm_compute in Hin. discriminate.
Qed.

Lemma key_chars c k : wf_key k = true -> In c k -> is_alnum_us c = true \/ c = 36 \/ c = 63.
Proof.
  intros Hk Hin. destruct (wf_key_cases k Hk) as [H|[-> | ->]].
  - left. apply name_all_alnum in H. rewrite forallb_forall in H. apply H. exact Hin.
  - destruct Hin as [<-|[]]. auto.
  - destruct Hin as [<-|[]]. auto.
Qed.

Definition nhd (s : str) : bool :=
  match s with c :: _ => negb (is_alnum_us c) | [] => true end.

Lemma span_name k rest :
  forallb is_alnum_us k = true -> nhd rest = true -> span is_alnum_us (k ++ rest) = (k, rest).
Proof.
  intros Hk Hr. induction k as [|c k IH]; cbn [app].
  - destruct rest as [|d r]; [reflexivity|]. cbn [nhd] in Hr. apply negb_true_iff in Hr.
    cbn [span]. rewrite Hr. reflexivity.
  - cbn [forallb] in Hk. apply andb_true_iff in Hk as [Hc Hk]. cbn [span].
    rewrite Hc, (IH Hk). reflexivity.
Qed.

Lemma key_at_key k rest :
  wf_key k = true -> (is_name k = true -> nhd rest = true) -> key_at (k ++ rest) = Some (k, rest).
Proof.
  intros Hk Hn. destruct (wf_key_cases k Hk) as [H|[-> | ->]].
  - pose proof (name_all_alnum k H) as Ha. specialize (Hn H).
    destruct k as [|c r]; [cbn in H; discriminate|].
    assert (Hc : is_alnum_us c = true)
      by (cbn [forallb] in Ha; apply andb_true_iff in Ha; tauto).
    cbn [app]. unfold key_at. rewrite Hc.
    change (c :: r ++ rest) with ((c :: r) ++ rest). rewrite span_name; auto.
  - reflexivity.
  - reflexivity.
Qed.

Lemma strip_prefix_hd c s : strip_prefix [c] (c :: s) = Some s.
Proof. cbn [strip_prefix]. rewrite N.eqb_refl. reflexivity. Qed.

Lemma bkey_at_key k rest : wf_key k = true -> bkey_at (k ++ 125 :: rest) = Some (k, rest).
Proof.
  intros Hk. destruct (wf_key_cases k Hk) as [H|[-> | ->]].
  - pose proof (name_all_alnum k H) as Ha.
    destruct k as [|c r]; [cbn in H; discriminate|].
    assert (Hc : is_alnum_us c = true)
      by (cbn [forallb] in Ha; apply andb_true_iff in Ha; tauto).
    cbn [app]. unfold bkey_at. rewrite Hc.
    change (c :: r ++ 125 :: rest) with ((c :: r) ++ 125 :: rest).
    rewrite span_name; [|exact Ha|reflexivity]. rewrite strip_prefix_hd. reflexivity.
  - reflexivity.
  - reflexivity.
Qed.

(* ================================================================== well-formedness *)
Lemma wf_tail p r : wf_pieces (p :: r) = true -> wf_pieces r = true.
Proof.
  destruct p as [c|b k]; cbn [wf_pieces]; intros H; apply andb_true_iff in H; tauto.
Qed.

Lemma wf_app_r a x : wf_pieces (a ++ x) = true -> wf_pieces x = true.
Proof. induction a as [|p a IH]; cbn [app]; [auto|]. intros H. apply IH. eapply wf_tail; eauto. Qed.

Lemma wf_ref_key b k r : wf_pieces (PRef b k :: r) = true -> wf_key k = true.
Proof.
  cbn [wf_pieces]. intros H. apply andb_true_iff in H as [H _]. apply andb_true_iff in H; tauto.
Qed.

Lemma wf_lit_36 c r : wf_pieces (PLit c :: r) = true -> (c =? 36) = false.
Proof.
  cbn [wf_pieces]. intros H. apply andb_true_iff in H as [H _]. apply negb_true_iff in H. exact H.
Qed.

Lemma wf_ref_nhd k r :
  wf_pieces (PRef false k :: r) = true -> is_name k = true -> nhd (render_pieces r) = true.
Proof.
  cbn [wf_pieces]. intros H Hn. apply andb_true_iff in H as [H _]. apply andb_true_iff in H as [_ H].
  rewrite Hn in H. cbn [negb orb] in H.
  destruct r as [|[c|[|] k'] r'].
  - reflexivity.
  - exact H.
  - reflexivity.
  - reflexivity.
Qed.

Definition nub (p : piece) : bool := match p with PRef false _ => false | _ => true end.

Lemma wf_app_nub a x :
  forallb nub a = true -> wf_pieces (a ++ x) = wf_pieces a && wf_pieces x.
Proof.
  induction a as [|p a IH]; intros H; [reflexivity|].
  cbn [forallb] in H. apply andb_true_iff in H as [Hp Ha]. specialize (IH Ha).
  destruct p as [c|[|] k]; cbn [app wf_pieces orb].
  - rewrite IH. rewrite andb_assoc. reflexivity.
  - rewrite IH. rewrite !andb_true_r. rewrite andb_assoc. reflexivity.
  - discriminate Hp.
Qed.

Lemma wf_map_lit v x :
  wf_pieces (map PLit v ++ x) = forallb (fun c => negb (c =? 36)) v && wf_pieces x.
Proof.
  induction v as [|c v IH]; [reflexivity|].
  cbn [map app wf_pieces forallb]. rewrite IH, andb_assoc. reflexivity.
Qed.

(* ================================================================== characters of a rendering *)
Lemma in_render c ps :
  wf_pieces ps = true -> In c (render_pieces ps) ->
  In (PLit c) ps \/ is_alnum_us c = true \/ c = 36 \/ c = 63 \/ c = 123 \/ c = 125.
Proof.
  induction ps as [|p r IH]; intros Hwf Hin; [destruct Hin|].
  pose proof (wf_tail _ _ Hwf) as Hr. specialize (IH Hr).
  assert (IH' : In c (render_pieces r) ->
                In (PLit c) (p :: r) \/ is_alnum_us c = true \/ c = 36 \/ c = 63 \/ c = 123 \/ c = 125).
  { intros H. destruct (IH H) as [H'|H']; [left; right; exact H' | right; exact H']. }
  destruct p as [d|[|] k].
  - rewrite render_lit in Hin. destruct Hin as [<-|Hin]; [left; left; reflexivity | auto].
  - rewrite render_br in Hin. pose proof (wf_ref_key _ _ _ Hwf) as Hk.
    destruct Hin as [<-|[<-|Hin]]; [tauto | tauto |].
    apply in_app_or in Hin as [Hin|[<-|Hin]]; [| tauto | auto].
    destruct (key_chars c k Hk Hin) as [H|[H|H]]; tauto.
  - rewrite render_ub in Hin. pose proof (wf_ref_key _ _ _ Hwf) as Hk.
    destruct Hin as [<-|Hin]; [tauto|].
    apply in_app_or in Hin as [Hin|Hin]; [| auto].
    destruct (key_chars c k Hk Hin) as [H|[H|H]]; tauto.
Qed.

Lemma notin_render noeq c ps :
  wf_pieces ps = true -> lits_ok noeq ps = true ->
  okc noeq c = false -> is_alnum_us c = false ->
  c <> 36 -> c <> 63 -> c <> 123 -> c <> 125 ->
  ~ In c (render_pieces ps).
Proof.
  intros Hwf Hl Hok Ha H1 H2 H3 H4 Hin.
  destruct (in_render c ps Hwf Hin) as [H|[H|[H|[H|[H|H]]]]]; try congruence.
  unfold lits_ok in Hl. rewrite forallb_forall in Hl. apply Hl in H. congruence.
Qed.

Lemma render_clean noeq ps :
  wf_pieces ps = true -> lits_ok noeq ps = true ->
  ~ In 10 (render_pieces ps) /\ ~ In 40 (render_pieces ps) /\
  (~ In 61 (render_pieces ps) \/ (~ In 96 (render_pieces ps) /\ ~ In 39 (render_pieces ps))).
Proof.
  intros Hwf Hl. split; [|split].
  - apply (notin_render noeq); auto; try discriminate; destruct noeq; reflexivity.
  - apply (notin_render noeq); auto; try discriminate; destruct noeq; reflexivity.
  - destruct noeq.
    + left. apply (notin_render true); auto; try discriminate; reflexivity.
    + right. split; apply (notin_render false); auto; try discriminate; reflexivity.
Qed.

(* ================================================================== B: first-match functions *)
Lemma find_re1_cons c r :
  find_re1 (c :: r) =
  match (if c =? 36 then key_at r else None) with
  | Some (k, t) => Some ([], k, t)
  | None => match find_re1 r with Some (h, k, t) => Some (c :: h, k, t) | None => None end
  end.
Proof. reflexivity. Qed.

Lemma find_re2_cons c r :
  find_re2 (c :: r) =
  match (if c =? 36 then match strip_prefix [123] r with Some r' => bkey_at r' | None => None end else None) with
  | Some (k, t) => Some ([], k, t)
  | None => match find_re2 r with Some (h, k, t) => Some (c :: h, k, t) | None => None end
  end.
Proof. reflexivity. Qed.

Definition push (h : str) (x : option (str * str * str)) : option (str * str * str) :=
  match x with Some (a, k, t) => Some (h ++ a, k, t) | None => None end.

Lemma find_re1_skip c r : (c =? 36) = false -> find_re1 (c :: r) = push [c] (find_re1 r).
Proof. intros H. rewrite find_re1_cons, H. destruct (find_re1 r) as [[[? ?] ?]|]; reflexivity. Qed.

Lemma find_re2_skip c r : (c =? 36) = false -> find_re2 (c :: r) = push [c] (find_re2 r).
Proof. intros H. rewrite find_re2_cons, H. destruct (find_re2 r) as [[[? ?] ?]|]; reflexivity. Qed.

Lemma push_push h1 h2 x : push h1 (push h2 x) = push (h1 ++ h2) x.
Proof. destruct x as [[[? ?] ?]|]; cbn [push]; [rewrite app_assoc|]; reflexivity. Qed.

Lemma find_re1_nodollar h rest : ~ In 36 h -> find_re1 (h ++ rest) = push h (find_re1 rest).
Proof.
  induction h as [|c h IH]; intros H.
  - cbn [app]. destruct (find_re1 rest) as [[[? ?] ?]|]; reflexivity.
  - cbn [app]. rewrite find_re1_skip.
    + rewrite IH by (intro; apply H; right; assumption). rewrite push_push. reflexivity.
    + apply N.eqb_neq. intro E. apply H. left. exact E.
Qed.

Lemma find_re1_dollar_nokey r : key_at r = None -> find_re1 (36 :: r) = push [36] (find_re1 r).
Proof.
  intros H. rewrite find_re1_cons. change (36 =? 36) with true. cbv iota. rewrite H.
  destruct (find_re1 r) as [[[? ?] ?]|]; reflexivity.
Qed.

(** the text of a braced reference is skipped by re1 *)
Lemma find_re1_braced k rest :
  wf_key k = true ->
  find_re1 (36 :: 123 :: k ++ 125 :: rest) = push (36 :: 123 :: k ++ [125]) (find_re1 rest).
Proof.
  intros Hk.
  rewrite find_re1_dollar_nokey by reflexivity.
  rewrite find_re1_skip by reflexivity. rewrite push_push.
  assert (E : find_re1 (k ++ 125 :: rest) = push (k ++ [125]) (find_re1 rest)).
  { destruct (wf_key_cases k Hk) as [H|[-> | ->]].
    - replace (k ++ 125 :: rest) with ((k ++ [125]) ++ rest) by (rewrite <- app_assoc; reflexivity).
      apply find_re1_nodollar. intros Hin. apply in_app_or in Hin as [Hin|[Hin|[]]]; [|discriminate].
      apply name_all_alnum in H. exact (alnum_not_36 _ H Hin).
    - cbn [app]. rewrite find_re1_dollar_nokey by reflexivity.
      rewrite find_re1_skip by reflexivity. rewrite push_push. reflexivity.
    - cbn [app]. rewrite find_re1_skip by reflexivity.
      rewrite find_re1_skip by reflexivity. rewrite push_push. reflexivity. }
  rewrite E, push_push. reflexivity.
Qed.

Fixpoint split_ub (ps : list piece) : option (list piece * str * list piece) :=
  match ps with
  | [] => None
  | PRef false k :: r => Some ([], k, r)
  | p :: r => match split_ub r with Some (a, k, b) => Some (p :: a, k, b) | None => None end
  end.

Fixpoint split_br (ps : list piece) : option (list piece * str * list piece) :=
  match ps with
  | [] => None
  | PRef true k :: r => Some ([], k, r)
  | PRef false _ :: _ => None
  | PLit c :: r => match split_br r with Some (a, k, b) => Some (PLit c :: a, k, b) | None => None end
  end.

Definition rend3 (x : list piece * str * list piece) : str * str * str :=
  match x with (a, k, b) => (render_pieces a, k, render_pieces b) end.

(** B1 *)
Lemma find_re1_spec ps :
  wf_pieces ps = true -> find_re1 (render_pieces ps) = option_map rend3 (split_ub ps).
Proof.
  induction ps as [|p r IH]; intros Hwf; [reflexivity|].
  pose proof (wf_tail _ _ Hwf) as Hr. specialize (IH Hr).
  destruct p as [c|[|] k].
  - rewrite render_lit, find_re1_skip by (eapply wf_lit_36; eauto).
    rewrite IH. cbn [split_ub]. destruct (split_ub r) as [[[a k] b]|]; reflexivity.
  - rewrite render_br, find_re1_braced by (eapply wf_ref_key; eauto).
    rewrite IH. cbn [split_ub]. destruct (split_ub r) as [[[a k'] b]|]; [|reflexivity].
    cbn [option_map rend3 push]. rewrite render_br.
    cbn [app]. rewrite <- app_assoc. reflexivity.
  - rewrite render_ub, find_re1_cons. change (36 =? 36) with true. cbv iota.
    rewrite key_at_key; [reflexivity | eapply wf_ref_key; eauto | apply wf_ref_nhd; exact Hwf].
Qed.

(** B2 *)
Lemma find_re2_spec ps :
  wf_pieces ps = true -> split_ub ps = None ->
  find_re2 (render_pieces ps) = option_map rend3 (split_br ps).
Proof.
  induction ps as [|p r IH]; intros Hwf Hn; [reflexivity|].
  pose proof (wf_tail _ _ Hwf) as Hr. specialize (IH Hr).
  destruct p as [c|[|] k].
  - rewrite render_lit, find_re2_skip by (eapply wf_lit_36; eauto).
    cbn [split_ub] in Hn. destruct (split_ub r) as [[[a k] b]|]; [discriminate|].
    rewrite IH by reflexivity. cbn [split_br]. destruct (split_br r) as [[[a k] b]|]; reflexivity.
  - rewrite render_br, find_re2_cons. change (36 =? 36) with true. cbv iota.
    rewrite strip_prefix_hd. rewrite bkey_at_key by (eapply wf_ref_key; eauto). reflexivity.
  - discriminate Hn.
Qed.

(** B3 *)
Lemma contains_none c s : ~ In c s -> contains_char c s = false.
Proof.
  unfold contains_char. induction s as [|x s IH]; intros H; [reflexivity|].
  cbn [existsb]. rewrite IH by (intro; apply H; right; assumption).
  rewrite orb_false_r. apply N.eqb_neq. intro E. apply H. left. exact E.
Qed.

Lemma split_last_none c s : ~ In c s -> split_last c s = None.
Proof.
  induction s as [|x s IH]; intros H; [reflexivity|].
  cbn [split_last]. rewrite IH by (intro; apply H; right; assumption).
  replace (x =? c) with false; [reflexivity|].
  symmetry. apply N.eqb_neq. intro E. apply H. left. exact E.
Qed.

Lemma last_line_none s : ~ In 10 s -> last_line s = s.
Proof. intros H. unfold last_line. rewrite split_last_none by exact H. reflexivity. Qed.

Definition pick (ps : list piece) : option (list piece * str * list piece) :=
  match split_ub ps with Some x => Some x | None => split_br ps end.

Lemma expand_one_spec W ps :
  wf_pieces ps = true -> ~ In 10 (render_pieces ps) ->
  expand_one_env W (render_pieces ps) =
  match pick ps with
  | Some (a, k, b) => render_pieces (a ++ map PLit (key_value W k) ++ b)
  | None => render_pieces ps
  end.
Proof.
  intros Hwf H10. unfold expand_one_env, re1_captures, re2_captures.
  rewrite (contains_none _ _ H10), (last_line_none _ H10).
  rewrite (find_re1_spec _ Hwf). unfold pick.
  destruct (split_ub ps) as [[[a k] b]|] eqn:E.
  - cbn [option_map rend3]. rewrite !render_app, render_map_lit. reflexivity.
  - cbn [option_map]. rewrite (find_re2_spec _ Hwf E).
    destruct (split_br ps) as [[[a k] b]|]; cbn [option_map rend3]; [|reflexivity].
    rewrite !render_app, render_map_lit. reflexivity.
Qed.

Lemma split_ub_some ps : forall a k b,
  split_ub ps = Some (a, k, b) -> ps = a ++ PRef false k :: b /\ forallb nub a = true.
Proof.
  induction ps as [|p r IH]; intros a k b H; [discriminate|].
  destruct p as [c|[|] k0]; cbn [split_ub] in H.
  - destruct (split_ub r) as [[[a' k'] b']|]; [|discriminate]. injection H as <- <- <-.
    destruct (IH _ _ _ eq_refl) as [-> Hn]. split; [reflexivity | exact Hn].
  - destruct (split_ub r) as [[[a' k'] b']|]; [|discriminate]. injection H as <- <- <-.
    destruct (IH _ _ _ eq_refl) as [-> Hn]. split; [reflexivity | exact Hn].
  - injection H as <- <- <-. split; reflexivity.
Qed.

Lemma split_br_some ps : forall a k b,
  split_br ps = Some (a, k, b) -> ps = a ++ PRef true k :: b /\ forallb nub a = true.
Proof.
  induction ps as [|p r IH]; intros a k b H; [discriminate|].
  destruct p as [c|[|] k0]; cbn [split_br] in H.
  - destruct (split_br r) as [[[a' k'] b']|]; [|discriminate]. injection H as <- <- <-.
    destruct (IH _ _ _ eq_refl) as [-> Hn]. split; [reflexivity | exact Hn].
  - injection H as <- <- <-. split; reflexivity.
  - discriminate.
Qed.

Lemma count_lit c r : count_refs (PLit c :: r) = count_refs r.
Proof. reflexivity. Qed.
Lemma count_ref b k r : count_refs (PRef b k :: r) = S (count_refs r).
Proof. reflexivity. Qed.

Lemma split_br_none ps : split_br ps = None -> split_ub ps = None -> count_refs ps = 0%nat.
Proof.
  induction ps as [|p r IH]; intros H1 H2; [reflexivity|].
  destruct p as [c|[|] k0]; cbn [split_br split_ub] in H1, H2; try discriminate.
  rewrite count_lit. apply IH.
  - destruct (split_br r) as [[[? ?] ?]|]; [discriminate|reflexivity].
  - destruct (split_ub r) as [[[? ?] ?]|]; [discriminate|reflexivity].
Qed.

Lemma pick_some ps a k b :
  pick ps = Some (a, k, b) -> exists br, ps = a ++ PRef br k :: b /\ forallb nub a = true.
Proof.
  unfold pick. destruct (split_ub ps) as [x|] eqn:E.
  - intros H. injection H as ->. exists false. apply split_ub_some. exact E.
  - intros H. exists true. apply split_br_some. exact H.
Qed.

Lemma pick_none ps : pick ps = None -> count_refs ps = 0%nat.
Proof.
  unfold pick. destruct (split_ub ps) as [x|] eqn:E; [discriminate|].
  intros H. apply split_br_none; assumption.
Qed.

(* ================================================================== C: invariant preservation *)
Lemma okc_not_36 noeq c : okc noeq c = true -> negb (c =? 36) = true.
Proof.
  unfold okc. intros H. apply andb_true_iff in H as [H _]. apply andb_true_iff in H as [H _].
  apply andb_true_iff in H as [H _]. exact H.
Qed.

Lemma okc_all_not_36 noeq v :
  forallb (okc noeq) v = true -> forallb (fun c => negb (c =? 36)) v = true.
Proof.
  rewrite !forallb_forall. intros H c Hc. eapply okc_not_36. apply H. exact Hc.
Qed.

Lemma lits_map_lit noeq v : lits_ok noeq (map PLit v) = forallb (okc noeq) v.
Proof. unfold lits_ok. induction v as [|c v IH]; [reflexivity|]. cbn [map forallb]. rewrite IH. reflexivity. Qed.

Lemma vals_map_lit noeq W v : vals_ok noeq W (map PLit v) = true.
Proof. unfold vals_ok. induction v as [|c v IH]; [reflexivity|]. cbn [map forallb]. exact IH. Qed.

Lemma count_map_lit v : count_refs (map PLit v) = 0%nat.
Proof. induction v as [|c v IH]; [reflexivity|]. cbn [map]. rewrite count_lit. exact IH. Qed.

Lemma count_app a b : count_refs (a ++ b) = (count_refs a + count_refs b)%nat.
Proof. unfold count_refs. rewrite filter_app, app_length. reflexivity. Qed.

Lemma den_app W a b : den_pieces W (a ++ b) = den_pieces W a ++ den_pieces W b.
Proof. unfold den_pieces. apply flat_map_app. Qed.

Lemma den_map_lit W v : den_pieces W (map PLit v) = v.
Proof.
  induction v as [|c v IH]; [reflexivity|].
  cbn [map]. change (den_pieces W (PLit c :: map PLit v)) with (c :: den_pieces W (map PLit v)).
  rewrite IH. reflexivity.
Qed.

Lemma step_inv noeq W a br k b :
  forallb nub a = true ->
  wf_pieces (a ++ PRef br k :: b) = true ->
  dom_ok noeq W (a ++ PRef br k :: b) = true ->
  wf_pieces (a ++ map PLit (key_value W k) ++ b) = true /\
  dom_ok noeq W (a ++ map PLit (key_value W k) ++ b) = true /\
  S (count_refs (a ++ map PLit (key_value W k) ++ b)) = count_refs (a ++ PRef br k :: b) /\
  den_pieces W (a ++ map PLit (key_value W k) ++ b) = den_pieces W (a ++ PRef br k :: b).
Proof.
  intros Hn Hwf Hd.
  unfold dom_ok in Hd. apply andb_true_iff in Hd as [Hl Hv].
  unfold lits_ok in Hl. unfold vals_ok in Hv.
  rewrite forallb_app in Hl, Hv. cbn [forallb] in Hl, Hv.
  apply andb_true_iff in Hl as [Hla Hlb]. cbn [andb] in Hlb.
  apply andb_true_iff in Hv as [Hva Hvb]. apply andb_true_iff in Hvb as [Hvk Hvb].
  rewrite wf_app_nub in Hwf by exact Hn. apply andb_true_iff in Hwf as [Hwa Hwb].
  pose proof (wf_tail _ _ Hwb) as Hwb'.
  split; [|split; [|split]].
  - rewrite wf_app_nub by exact Hn. rewrite Hwa, wf_map_lit, Hwb'.
    rewrite (okc_all_not_36 _ _ Hvk). reflexivity.
  - unfold dom_ok. apply andb_true_iff. split.
    + change (lits_ok noeq (a ++ map PLit (key_value W k) ++ b) = true).
      unfold lits_ok. rewrite !forallb_app. fold (lits_ok noeq (map PLit (key_value W k))).
      rewrite lits_map_lit, Hla, Hvk, Hlb. reflexivity.
    + unfold vals_ok. rewrite !forallb_app. fold (vals_ok noeq W (map PLit (key_value W k))).
      rewrite vals_map_lit, Hva, Hvb. reflexivity.
  - rewrite !count_app, count_map_lit, count_ref. lia.
  - rewrite !den_app, den_map_lit. reflexivity.
Qed.

(* ================================================================== env_in_token on renderings *)
Lemma render_no_refs W ps :
  wf_pieces ps = true -> count_refs ps = 0%nat ->
  ~ In 36 (render_pieces ps) /\ den_pieces W ps = render_pieces ps.
Proof.
  induction ps as [|p r IH]; intros Hwf Hc; [split; [intros []|reflexivity]|].
  destruct p as [c|b k]; [|rewrite count_ref in Hc; discriminate].
  rewrite count_lit in Hc. destruct (IH (wf_tail _ _ Hwf) Hc) as [H1 H2].
  rewrite render_lit. split.
  - intros [E|H]; [|exact (H1 H)]. apply wf_lit_36 in Hwf. apply N.eqb_neq in Hwf. congruence.
  - change (den_pieces W (PLit c :: r)) with (c :: den_pieces W r). rewrite H2. reflexivity.
Qed.

Lemma env_in_render_ref noeq a br k b :
  wf_pieces (a ++ PRef br k :: b) = true -> lits_ok noeq (a ++ PRef br k :: b) = true ->
  env_in_token (render_pieces (a ++ PRef br k :: b)) = true.
Proof.
  intros Hwf Hl. destruct (render_clean noeq _ Hwf Hl) as (_ & H40 & Hx).
  apply env_in_token_true; [|exact H40|exact Hx].
  pose proof (wf_ref_key _ _ _ (wf_app_r _ _ Hwf)) as Hk.
  rewrite render_app.
  destruct (wf_key_cases k Hk) as [H|[-> | ->]].
  - right. destruct k as [|n r]; [cbn in H; discriminate|].
    cbn [is_name] in H. apply andb_true_iff in H as [H _].
    destruct br.
    + rewrite render_br. cbn [app]. apply name_search_br. exact H.
    + rewrite render_ub. cbn [app]. apply name_search_ub. exact H.
  - left. destruct br.
    + rewrite render_br. cbn [app]. apply special_search_br. auto.
    + rewrite render_ub. cbn [app]. apply special_search_ub. auto.
  - left. destruct br.
    + rewrite render_br. cbn [app]. apply special_search_br. auto.
    + rewrite render_ub. cbn [app]. apply special_search_ub. auto.
Qed.

(* ================================================================== D: the loop *)
Lemma loop_correct noeq W : forall n ps,
  count_refs ps = n -> wf_pieces ps = true -> dom_ok noeq W ps = true ->
  expand_env_loop (S n) W (render_pieces ps) = Ok (den_pieces W ps).
Proof.
  induction n as [|n IH]; intros ps Hc Hwf Hd.
  - destruct (render_no_refs W ps Hwf Hc) as [H36 Hden].
    cbn [expand_env_loop]. rewrite (env_in_token_no_dollar _ H36), Hden. reflexivity.
  - pose proof Hd as Hd'. unfold dom_ok in Hd'. apply andb_true_iff in Hd' as [Hl _].
    destruct (render_clean noeq ps Hwf Hl) as (H10 & _).
    destruct (pick ps) as [[[a k] b]|] eqn:Ep.
    2:{ apply pick_none in Ep. congruence. }
    destruct (pick_some _ _ _ _ Ep) as (br & -> & Hn).
    destruct (step_inv noeq W a br k b Hn Hwf Hd) as (Hwf' & Hd' & Hc' & Hden).
    change (expand_env_loop (S (S n)) W (render_pieces (a ++ PRef br k :: b)))
      with (if env_in_token (render_pieces (a ++ PRef br k :: b))
            then expand_env_loop (S n) W (expand_one_env W (render_pieces (a ++ PRef br k :: b)))
            else Ok (render_pieces (a ++ PRef br k :: b))).
    rewrite (env_in_render_ref noeq _ _ _ _ Hwf Hl).
    rewrite (expand_one_spec W _ Hwf H10), Ep.
    rewrite IH; [rewrite Hden; reflexivity | lia | exact Hwf' | exact Hd'].
Qed.

Theorem expand_env_pieces : forall W ps tg,
  c10_dom W ps = true -> tg <> TSq -> tg <> TBq ->
  expand_env (S (count_refs ps)) W [(tg, render_pieces ps)] = Ok [(tg, den_pieces W ps)].
Proof.
  intros W ps tg Hdom Hsq Hbq.
  unfold c10_dom in Hdom. apply andb_true_iff in Hdom as [Hwf Hd].
  assert (L : expand_env_loop (S (count_refs ps)) W (render_pieces ps) = Ok (den_pieces W ps)).
  { apply orb_true_iff in Hd as [Hd|Hd]; eapply loop_correct; eauto. }
  assert (T : expand_env_tok (S (count_refs ps)) W (tg, render_pieces ps) = Ok (tg, den_pieces W ps)).
  { unfold expand_env_tok. cbn [fst snd].
    destruct (env_in_token (render_pieces ps)) eqn:E.
    - rewrite L. destruct tg; try contradiction; reflexivity.
    - cbn [expand_env_loop] in L. rewrite E in L. injection L as <-.
      destruct tg; reflexivity. }
  cbn [expand_env]. rewrite T. reflexivity.
Qed.

Print Assumptions expand_env_pieces.
