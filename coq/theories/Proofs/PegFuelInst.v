(** Instances of the generic fuel-adequacy theorem (Proofs/PegFuel.v) on the two grammars that
    are regenerated from /repo's pest files on every run, and its consequences for C14 / C19.
    [wf_grammar _ = true] is computed: a grammar edit that introduces left recursion, a nullable
    repetition body or a nullable WHITESPACE makes these [vm_compute; reflexivity] fail. *)
From Cicada Require Import Base.Chars Base.Peg Gen.LocustGrammar Model.Script Model.ScriptAst
  Proofs.PegProofs Proofs.PegFuel Proofs.LocustIndent Proofs.LocustFull.
From Coq Require Import Arith Lia List.
Import ListNotations.

Lemma l_grammar_wf : wf_grammar l_grammar = true.
Proof. vm_compute. reflexivity. Qed.

(** locust grammar: no PFuel from any rule, any atomicity, any position, above the bound *)
Theorem l_peg_fuel_adequate : forall start a pos s fuel,
  peg_bound l_grammar (length s) <= fuel -> ev l_grammar fuel (PRef start) a pos s <> PFuel.
Proof. intros. apply ev_fuel_adequate; auto using l_grammar_wf, pexp_ok_ref. Qed.

(** what is missing for the fuel [parse_from] actually uses: a PFuel answer of [parse_from] can
    only come from peg_fuel lying below the generic bound *)
Theorem l_parse_from_fuel_gap : forall start s,
  parse_from l_grammar start s = PFuel -> peg_fuel s < peg_bound l_grammar (length s).
Proof.
  intros start s H. destruct (Nat.lt_ge_cases (peg_fuel s) (peg_bound l_grammar (length s))) as [L|G]; [exact L|].
  exfalso. revert H. unfold parse_from. apply l_peg_fuel_adequate. exact G.
Qed.

(** and above the bound the answer no longer depends on the fuel *)
Theorem l_parse_stable : forall start s f1 f2,
  peg_bound l_grammar (length s) <= f1 -> f1 <= f2 ->
  ev l_grammar f2 (PRef start) AtNon 0 s = ev l_grammar f1 (PRef start) AtNon 0 s.
Proof.
  intros start s f1 f2 H1 H2. eapply ev_mono_le; [reflexivity| |exact H2].
  apply l_peg_fuel_adequate. exact H1.
Qed.

(** [parse_ok] at an explicit fuel *)
Definition parse_ok_at (fuel : nat) (b : block) : Prop :=
  exists p kids,
    ev l_grammar fuel (PRef L_EXP) AtNon 0 (render_block b) = POk p [] kids /\
    map (fun k => strip_eoi L_EOI (annotate (render_block b) k)) kids = [tree_of_script b].

Lemma parse_ok_at_peg_fuel : forall b, parse_ok_at (peg_fuel (render_block b)) b <-> parse_ok b.
Proof. intro b. unfold parse_ok_at, parse_ok, parse_from. tauto. Qed.

(** totality without the fuel disjunct, at every fuel above the explicit bound *)
Theorem parse_total_at_bound : forall b, wfp_block b = true -> csf_block b = true ->
  forall fuel, peg_bound l_grammar (length (render_block b)) <= fuel -> parse_ok_at fuel b.
Proof.
  intros b H C fuel Hf.
  destruct (parse_indented b (proj1 wfp_in_frag b H C)) as [kids [[f0 Hev] Hk]].
  exists (length (render_block b)), kids. split; [|exact Hk].
  pose proof (l_peg_fuel_adequate L_EXP AtNon 0 (render_block b) fuel Hf) as NF.
  rewrite <- (Hev (Nat.max f0 fuel) (Nat.le_max_l _ _)).
  symmetry. eapply ev_mono_le; [reflexivity|exact NF|apply Nat.le_max_r].
Qed.

(** hence the only residual of C14_parse_total is the size of peg_fuel *)
Theorem parse_total_or_gap : forall b, wfp_block b = true -> csf_block b = true ->
  parse_ok b \/ peg_fuel (render_block b) < peg_bound l_grammar (length (render_block b)).
Proof.
  intros b H C. destruct (parse_full_nosemi b H C) as [F|P]; [right|left; exact P].
  eapply l_parse_from_fuel_gap. exact F.
Qed.

(** ---- peg_fuel (Base/Peg.v, 128 + 96 n) lies above the bound of the regenerated locust grammar ---- *)
Lemma l_peg_fuel_above_bound : forall s, peg_bound l_grammar (length s) <= peg_fuel s.
Proof.
  intro s. unfold peg_bound, peg_fuel.
  assert (HA : g_A l_grammar <= 96) by (apply Nat.leb_le; vm_compute; reflexivity).
  assert (HB : g_K l_grammar * g_W l_grammar + g_W l_grammar <= 128) by (apply Nat.leb_le; vm_compute; reflexivity).
  rewrite <- Nat.add_assoc. revert HA HB.
  generalize (g_A l_grammar) (g_K l_grammar * g_W l_grammar + g_W l_grammar). intros A B HA HB.
  pose proof (Nat.mul_le_mono_r _ _ (length s) HA). lia.
Qed.

Theorem l_parse_never_fuel : forall start s, parse_from l_grammar start s <> PFuel.
Proof. intros start s. exact (l_peg_fuel_adequate start AtNon 0 s (peg_fuel s) (l_peg_fuel_above_bound s)). Qed.

Theorem parse_total : forall b, wfp_block b = true -> csf_block b = true -> parse_ok b.
Proof.
  intros b H C. apply (proj1 (parse_ok_at_peg_fuel b)).
  apply (parse_total_at_bound b H C (peg_fuel (render_block b)) (l_peg_fuel_above_bound (render_block b))).
Qed.
