(** The tokenizer on rendered command lines: a plain command word followed by
    single- or double-quoted arguments is cut into exactly those tokens, each
    tagged with its quote, for every text. Induction over the argument list
    and, inside an argument, over its characters. *)
From Cicada Require Import Base.Chars Base.Tag Model.Tokenizer.
From Coq Require Import Lia.
Local Open Scope N_scope.

Lemma cls_eqb_eq a b : cls_eqb a b = true <-> a = b.
Proof. destruct a, b; cbn; split; congruence. Qed.
Lemma cls_eqb_refl a : cls_eqb a a = true.
Proof. now destruct a. Qed.

Fixpoint has_cls (k : cls) (l : str) : bool :=
  match l with [] => false | c :: r => cls_eqb (classify c) k || has_cls k r end.

Lemma has_cls_cons k c t : has_cls k (c :: t) = false -> classify c <> k /\ has_cls k t = false.
Proof.
  cbn. intros H. apply orb_false_iff in H as [H1 H2]. split; [|exact H2].
  intro E. rewrite E, cls_eqb_refl in H1. discriminate.
Qed.

(** * States *)
(** between two tokens *)
Definition st_round (r : list (tag * str)) (hd : bool) : st :=
  mk r TNone TNone [] false false true false hd false TNone false.
(** inside a quote [q], body so far [tk] (reversed) *)
Definition st_quote (r : list (tag * str)) (q : tag) (tk : str) (hd : bool) : st :=
  mk r q TNone tk false false false false hd false TNone false.
(** just after the closing quote *)
Definition st_closed (r : list (tag * str)) (q : tag) (tk : str) (hd : bool) : st :=
  mk r q TNone tk false false false false hd false TNone true.
(** inside an unquoted plain word *)
Definition st_word (r : list (tag * str)) (tk : str) (hd : bool) : st :=
  mk r TNone TNone tk false false false false hd false TNone false.

Definition qcls (q : tag) : cls := match q with TSq => KSq | TDq => KDq | TBq => KBq | _ => KOther end.
Definition is_sd (q : tag) : Prop := q = TSq \/ q = TDq.
Definition hd_upd (hd : bool) (c : char) : bool := hd || cls_eqb (classify c) KDollar.

(** * Step lemmas *)
Lemma step_round_space r hd nxt : step (st_round r hd) c_space nxt = Cont (st_round r hd).
Proof. reflexivity. Qed.

Lemma step_round_open r hd q c nxt :
  is_sd q -> classify c = qcls q -> step (st_round r hd) c nxt = Cont (st_quote r q [] hd).
Proof.
  intros Hq Hc. cbv beta delta [step]. rewrite Hc.
  destruct Hq as [-> | ->]; destruct hd; reflexivity.
Qed.

Lemma step_quote_body r q tk hd c nxt :
  is_sd q -> classify c <> qcls q -> (q = TSq \/ classify c <> KBs) ->
  step (st_quote r q tk hd) c nxt = Cont (st_quote r q (c :: tk) (hd_upd hd c)).
Proof.
  intros Hq Hc Hb. cbv beta delta [step hd_upd].
  destruct Hq as [-> | ->]; destruct (classify c) eqn:K; cbn in Hc;
    try congruence; try (destruct Hb; congruence);
    destruct hd; try reflexivity; destruct nxt as [n|]; try reflexivity;
    destruct (classify n); reflexivity.
Qed.

Lemma step_quote_close r q tk hd c nxt :
  is_sd q -> classify c = qcls q ->
  step (st_quote r q tk hd) c nxt = Cont (st_closed r q tk hd).
Proof.
  intros Hq Hc. cbv beta delta [step]. rewrite Hc.
  destruct Hq as [-> | ->]; destruct hd; reflexivity.
Qed.

Lemma step_closed_space r q tk hd nxt :
  is_sd q -> step (st_closed r q tk hd) c_space nxt = Cont (st_round ((q, rev tk) :: r) hd).
Proof. intros [-> | ->]; destruct hd; reflexivity. Qed.

Lemma step_round_plain r hd c nxt :
  classify c = KOther -> step (st_round r hd) c nxt = Cont (st_word r [c] hd).
Proof. intros Hc. cbv beta delta [step]. rewrite Hc. destruct hd; reflexivity. Qed.

Lemma step_word_plain r tk hd c nxt :
  classify c = KOther -> step (st_word r tk hd) c nxt = Cont (st_word r (c :: tk) hd).
Proof. intros Hc. cbv beta delta [step]. rewrite Hc. destruct hd; reflexivity. Qed.

Lemma step_word_space r tk hd nxt :
  step (st_word r tk hd) c_space nxt = Cont (st_round ((TNone, rev tk) :: r) hd).
Proof. destruct hd; reflexivity. Qed.

(** * Loops *)
Definition peek (l : str) : option char := match l with [] => None | n :: _ => Some n end.

Lemma loop_cons s c r : loop s (c :: r) =
  match step s c (peek r) with Cont s' => loop s' r | Break s' => s' end.
Proof. destruct r; reflexivity. Qed.

Fixpoint hd_after (hd : bool) (t : str) : bool :=
  match t with [] => hd | c :: r => hd_after (hd_upd hd c) r end.

Lemma loop_quote_body q t : is_sd q -> forall r tk hd rest,
  has_cls (qcls q) t = false -> (q = TSq \/ has_cls KBs t = false) ->
  loop (st_quote r q tk hd) (t ++ rest) = loop (st_quote r q (rev t ++ tk) (hd_after hd t)) rest.
Proof.
  intros Hq. induction t as [|c t IH]; intros r tk hd rest Hn Hb; [reflexivity|].
  apply has_cls_cons in Hn as [Hc Hn].
  assert (Hb1 : q = TSq \/ classify c <> KBs).
  { destruct Hb as [Hb|Hb]; [now left|right]. now apply has_cls_cons in Hb. }
  assert (Hb2 : q = TSq \/ has_cls KBs t = false).
  { destruct Hb as [Hb|Hb]; [now left|right]. now apply has_cls_cons in Hb. }
  cbn [app]. rewrite loop_cons, (step_quote_body r q tk hd c _ Hq Hc Hb1).
  rewrite IH by assumption. cbn [rev hd_after]. now rewrite <- app_assoc.
Qed.

Lemma loop_word t : forall r tk hd rest,
  has_cls KOther t = true -> forallb (fun c => cls_eqb (classify c) KOther) t = true ->
  loop (st_word r tk hd) (t ++ rest) = loop (st_word r (rev t ++ tk) hd) rest.
Proof.
  induction t as [|c t IH]; intros r tk hd rest _ Hall; [reflexivity|].
  cbn [forallb] in Hall. apply andb_true_iff in Hall as [Hc Hall]. apply cls_eqb_eq in Hc.
  cbn [app]. rewrite loop_cons, (step_word_plain r tk hd c _ Hc).
  destruct t as [|c' t'].
  - reflexivity.
  - rewrite IH; [|cbn; cbn in Hall; apply andb_true_iff in Hall as [H1 _]; now rewrite H1|exact Hall].
    cbn [rev]. now rewrite <- !app_assoc.
Qed.

(** * Arguments *)
Inductive qarg := QSq (t : str) | QDq (t : str).
Definition qarg_tag (a : qarg) : tag := match a with QSq _ => TSq | QDq _ => TDq end.
Definition qarg_text (a : qarg) : str := match a with QSq t | QDq t => t end.
Definition qarg_char (a : qarg) : char := match a with QSq _ => c_sq | QDq _ => c_dq end.
Definition wf_qarg (a : qarg) : bool :=
  match a with
  | QSq t => negb (has_cls KSq t)
  | QDq t => negb (has_cls KDq t) && negb (has_cls KBs t)
  end.
Definition render_qarg (a : qarg) : str := qarg_char a :: qarg_text a ++ [qarg_char a].
Definition tok_of_qarg (a : qarg) : tag * str := (qarg_tag a, qarg_text a).

Definition spaces (n : nat) : str := repeat c_space n.

(** argument list: each argument is preceded by one or more spaces *)
Fixpoint render_args (l : list (nat * qarg)) : str :=
  match l with
  | [] => []
  | (n, a) :: r => c_space :: spaces n ++ render_qarg a ++ render_args r
  end.

Lemma negb_true_false b : negb b = true -> b = false.
Proof. now destruct b. Qed.

Lemma wf_qarg_body a : wf_qarg a = true ->
  is_sd (qarg_tag a) /\ classify (qarg_char a) = qcls (qarg_tag a) /\
  has_cls (qcls (qarg_tag a)) (qarg_text a) = false /\
  (qarg_tag a = TSq \/ has_cls KBs (qarg_text a) = false).
Proof.
  destruct a as [t|t]; cbn; intros H.
  - apply negb_true_false in H. repeat split; try (left; reflexivity); assumption.
  - apply andb_true_iff in H as [H1 H2]. apply negb_true_false in H1, H2.
    repeat split; try (right; reflexivity); try assumption. now right.
Qed.

Lemma loop_round_spaces n r hd rest :
  loop (st_round r hd) (spaces n ++ rest) = loop (st_round r hd) rest.
Proof.
  induction n as [|n IH]; [reflexivity|]. cbn [spaces repeat app].
  rewrite loop_cons, step_round_space. exact IH.
Qed.

(** one quoted argument, from a round start to the state after its closing quote *)
Lemma loop_qarg a : wf_qarg a = true -> forall r hd rest,
  loop (st_round r hd) (render_qarg a ++ rest) =
  loop (st_closed r (qarg_tag a) (rev (qarg_text a)) (hd_after hd (qarg_text a))) rest.
Proof.
  intros Hwf r hd rest. destruct (wf_qarg_body a Hwf) as (Hq & Hc & Hn & Hb).
  unfold render_qarg. cbn [app]. rewrite loop_cons.
  rewrite (step_round_open r hd (qarg_tag a) _ _ Hq Hc).
  rewrite <- app_assoc. rewrite (loop_quote_body _ _ Hq) by assumption.
  cbn [app]. rewrite loop_cons. rewrite (step_quote_close _ _ _ _ _ _ Hq Hc).
  now rewrite app_nil_r.
Qed.

(** the whole argument list, arriving just after a closed token or word *)
Lemma loop_args l : forallb (fun '(_, a) => wf_qarg a) l = true ->
  forall r q tk hd, is_sd q ->
  exists hd',
    finish (loop (st_closed r q tk hd) (render_args l)) =
    rev r ++ (q, rev tk) :: map (fun '(_, a) => tok_of_qarg a) l
    /\ (l = [] -> hd' = hd).
Proof.
  induction l as [|[n a] l IH]; intros Hwf r q tk hd Hq.
  - exists hd. split; [|reflexivity]. cbn [render_args loop map].
    unfold finish, st_closed. cbn [tok semi_ok]. rewrite orb_true_r.
    destruct Hq as [-> | ->]; destruct hd; reflexivity.
  - cbn [forallb] in Hwf. apply andb_true_iff in Hwf as [Ha Hl].
    cbn [render_args]. rewrite loop_cons, (step_closed_space r q tk hd _ Hq).
    rewrite loop_round_spaces. rewrite (loop_qarg a Ha).
    destruct (wf_qarg_body a Ha) as (Hq' & _).
    destruct (IH Hl ((q, rev tk) :: r) (qarg_tag a) (rev (qarg_text a)) (hd_after hd (qarg_text a)) Hq')
      as (hd' & E & _).
    exists hd'. split; [|discriminate].
    rewrite E. cbn [rev map]. rewrite <- app_assoc. cbn [app]. rewrite rev_involutive. reflexivity.
Qed.

(** same, arriving after the (unquoted) command word *)
Lemma loop_args_after_word l : forallb (fun '(_, a) => wf_qarg a) l = true ->
  forall r tk hd, tk <> [] ->
    finish (loop (st_word r tk hd) (render_args l)) =
    rev r ++ (TNone, rev tk) :: map (fun '(_, a) => tok_of_qarg a) l.
Proof.
  destruct l as [|[n a] l]; intros Hwf r tk hd Htk.
  - cbn [render_args loop map]. destruct tk; [congruence|]. destruct hd; reflexivity.
  - cbn [forallb] in Hwf. apply andb_true_iff in Hwf as [Ha Hl].
    cbn [render_args]. rewrite loop_cons, step_word_space.
    rewrite loop_round_spaces. rewrite (loop_qarg a Ha).
    destruct (wf_qarg_body a Ha) as (Hq' & _).
    destruct (loop_args l Hl ((TNone, rev tk) :: r) (qarg_tag a) (rev (qarg_text a))
                (hd_after hd (qarg_text a)) Hq') as (hd' & E & _).
    rewrite E. cbn [rev map]. rewrite <- app_assoc. cbn [app]. rewrite rev_involutive. reflexivity.
Qed.

(** * Whole lines *)
Definition plain_word (w : str) : bool :=
  negb (is_empty w) && forallb (fun c => cls_eqb (classify c) KOther) w.

Definition render_cmd (cmd : str) (args : list (nat * qarg)) : str := cmd ++ render_args args.

Lemma arith_last_body c : arith_last c = true -> arith_body c = true.
Proof.
  unfold arith_last, arith_body. intros H.
  repeat (apply orb_true_iff in H as [H|H]); rewrite H; cbn; rewrite ?orb_true_r; reflexivity.
Qed.

Lemma is_arithmetic_all l : is_arithmetic l = true -> forallb arith_body l = true.
Proof.
  unfold is_arithmetic. intros H. apply andb_true_iff in H as [_ H].
  destruct (rev l) as [|x [|y b]] eqn:E; try discriminate.
  apply andb_true_iff in H as [H1 H2].
  assert (Hr : forallb arith_body (rev l) = true).
  { rewrite E. cbn [forallb]. rewrite (arith_last_body _ H1). exact H2. }
  rewrite <- (rev_involutive l). rewrite forallb_forall in *. intros c Hc.
  apply Hr. now apply in_rev in Hc.
Qed.

Lemma not_arith cmd rest : forallb arith_body cmd = false -> is_arithmetic (cmd ++ rest) = false.
Proof.
  intros H. destruct (is_arithmetic (cmd ++ rest)) eqn:E; [|reflexivity].
  apply is_arithmetic_all in E. rewrite forallb_app in E. apply andb_true_iff in E as [E _]. congruence.
Qed.

Theorem parse_line_quoted cmd args :
  plain_word cmd = true -> forallb arith_body cmd = false ->
  forallb (fun '(_, a) => wf_qarg a) args = true ->
  parse_line (render_cmd cmd args) = (TNone, cmd) :: map (fun '(_, a) => tok_of_qarg a) args.
Proof.
  intros Hw Hna Hargs. unfold parse_line, render_cmd. rewrite (not_arith _ _ Hna).
  apply andb_true_iff in Hw as [Hne Hall]. destruct cmd as [|c cmd]; [discriminate|].
  cbn [forallb] in Hall. apply andb_true_iff in Hall as [Hc Hall]. apply cls_eqb_eq in Hc.
  change st0 with (st_round [] false). cbn [app]. rewrite loop_cons, (step_round_plain [] false c _ Hc).
  assert (E : loop (st_word [] [c] false) (cmd ++ render_args args) =
              loop (st_word [] (rev cmd ++ [c]) false) (render_args args)).
  { destruct cmd as [|c' cmd']; [reflexivity|].
    apply loop_word; [|exact Hall]. cbn. cbn in Hall. apply andb_true_iff in Hall as [H1 _]. now rewrite H1. }
  rewrite E. rewrite loop_args_after_word; [|exact Hargs|destruct (rev cmd); discriminate].
  cbn [rev app]. rewrite rev_app_distr, rev_involutive. reflexivity.
Qed.
