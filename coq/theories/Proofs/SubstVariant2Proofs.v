(** Proofs about the VARIANT models of Model/SubstVariant2.v (two proposed repairs, not applied):
    fix-4  a backquote command that does not plan yields the empty string;
    fix-5  the substitution to run is the first dollar-paren with BALANCED parentheses, and the word is
           rebuilt as text before ++ output ++ text after. *)
From Coq Require Import List NArith ZArith Bool Lia.
From Cicada Require Import Base.Chars Base.Tag Base.Regex Gen.ShellRegexes Model.Expand Model.ExpandRef
  Model.SubstVariant2 Proofs.ExpandBasics Proofs.SubstProofs.
Import ListNotations.
From Coq Require String.
Import String.StringSyntax.
Local Open Scope N_scope.

Lemma out_of_oracle W c : out_of W c = oracle_out W c.
Proof. reflexivity. Qed.

(* ================================================================== A. backquotes (fix-4) *)
(** a paren-free prefix is copied at every depth *)
Lemma scan_close_skip (a : str) (d : nat) (r : str) :
  ~ In 40 a -> ~ In 41 a ->
  scan_close d (a ++ r) = match scan_close d r with Some (x, y) => Some (a ++ x, y) | None => None end.
Proof.
  induction a as [|c a IH]; intros H40 H41.
  - cbn [app]. destruct (scan_close d r) as [[x y]|]; reflexivity.
  - assert (E40 : (c =? 40) = false) by (apply N.eqb_neq; intros X; apply H40; left; exact X).
    assert (E41 : (c =? 41) = false) by (apply N.eqb_neq; intros X; apply H41; left; exact X).
    cbn [app scan_close]. rewrite E40, E41.
    rewrite IH by (intros X; first [apply H40; right; exact X | apply H41; right; exact X]).
    destruct (scan_close d r) as [[x y]|]; reflexivity.
Qed.

Lemma scan_close_flat (cmd after : str) :
  ~ In 40 cmd -> ~ In 41 cmd -> scan_close 1 (cmd ++ 41 :: after) = Some (cmd, after).
Proof.
  intros H40 H41. rewrite scan_close_skip by assumption.
  cbn. rewrite app_nil_r. reflexivity.
Qed.

(** one nested pair inside the command: the scan stops at the paren that closes depth 1 *)
Lemma scan_close_nested (a b c after : str) :
  ~ In 40 a -> ~ In 41 a -> ~ In 40 b -> ~ In 41 b -> ~ In 40 c -> ~ In 41 c ->
  scan_close 1 ((a ++ 40 :: b ++ 41 :: c) ++ 41 :: after) = Some (a ++ 40 :: b ++ 41 :: c, after).
Proof.
  intros Ha0 Ha1 Hb0 Hb1 Hc0 Hc1.
  replace ((a ++ 40 :: b ++ 41 :: c) ++ 41 :: after) with (a ++ 40 :: b ++ 41 :: c ++ 41 :: after)
    by (rewrite <- !app_assoc; cbn [app]; rewrite <- !app_assoc; reflexivity).
  rewrite scan_close_skip by assumption.
  change (scan_close 1 (40 :: b ++ 41 :: c ++ 41 :: after))
    with (match scan_close 2 (b ++ 41 :: c ++ 41 :: after) with
          | Some (x, y) => Some (40 :: x, y) | None => None end).
  rewrite scan_close_skip by assumption.
  change (scan_close 2 (41 :: c ++ 41 :: after))
    with (match scan_close 1 (c ++ 41 :: after) with
          | Some (x, y) => Some (41 :: x, y) | None => None end).
  rewrite scan_close_flat by assumption. reflexivity.
Qed.

Lemma has_dollar_paren_tl (c : N) (s : list N) : has_dollar_paren (c :: s) = false -> has_dollar_paren s = false.
Proof.
  intros H. destruct s as [|b s]; [reflexivity|].
  rewrite has_dollar_paren_cons2 in H. apply orb_false_iff in H as [_ H]. exact H.
Qed.

(** the first dollar-paren of the line is the one that no earlier dollar-paren precedes; what follows the
    closing paren is unrestricted *)
Lemma find_dollar_paren_gen (before cmd after : str) :
  has_dollar_paren before = false -> scan_close 1 (cmd ++ 41 :: after) = Some (cmd, after) ->
  find_dollar_paren (before ++ 36 :: 40 :: cmd ++ 41 :: after) = Some (before, cmd, after).
Proof.
  intros Hb Hs. induction before as [|c before IH].
  - cbn [app find_dollar_paren starts_with]. rewrite !N.eqb_refl. cbn [andb tl].
    rewrite Hs. reflexivity.
  - pose proof (has_dollar_paren_tl c before Hb) as Hb'.
    cbn [app find_dollar_paren].
    assert (E : (c =? 36) && starts_with [40] (before ++ 36 :: 40 :: cmd ++ 41 :: after) = false).
    { destruct (c =? 36) eqn:C; [|reflexivity]. cbn [andb].
      destruct before as [|b before].
      - reflexivity.
      - rewrite has_dollar_paren_cons2 in Hb. apply orb_false_iff in Hb as [Hb _].
        rewrite C in Hb. cbn [andb] in Hb. cbn [app starts_with].
        rewrite N.eqb_sym, Hb. reflexivity. }
    rewrite E. rewrite (IH Hb'). reflexivity.
Qed.

Lemma find_dollar_paren_first (before cmd after : str) :
  has_dollar_paren before = false -> ~ In 40 cmd -> ~ In 41 cmd ->
  find_dollar_paren (before ++ 36 :: 40 :: cmd ++ 41 :: after) = Some (before, cmd, after).
Proof.
  intros Hb H40 H41. apply find_dollar_paren_gen; [exact Hb|]. apply scan_close_flat; assumption.
Qed.

Lemma dollar_loop_b_S f W line log :
  dollar_loop_b (S f) W line log
  = if negb (should_do_dollar line) then Ok (Some line, log)
    else match find_dollar_paren line with
         | None => Ok (None, log)
         | Some (before, cmd, after) =>
             dollar_loop_b f W (before ++ trim (out_of W cmd) ++ after) (log ++ [cmd])
         end.
Proof. reflexivity. Qed.

(** one iteration, whatever follows the closing paren (newlines, further substitutions) *)
Theorem dollar_loop_b_one_log : forall W (before cmd after : str) log f,
  has_dollar_paren before = false -> cmd <> [] -> ~ In 40 cmd -> ~ In 41 cmd ->
  (~ In 61 (before ++ 36 :: 40 :: cmd ++ 41 :: after) \/ ~ In 39 (before ++ 36 :: 40 :: cmd ++ 41 :: after)) ->
  dollar_loop_b (S f) W (before ++ 36 :: 40 :: cmd ++ 41 :: after) log
  = dollar_loop_b f W (before ++ trim (out_of W cmd) ++ after) (log ++ [cmd]).
Proof.
  intros W before cmd after log f Hb Hne H40 H41 Hx.
  rewrite dollar_loop_b_S.
  assert (Hs : should_do_dollar (before ++ 36 :: 40 :: cmd ++ 41 :: after) = true).
  { unfold should_do_dollar. rewrite (dollar_alias_off _ Hx).
    rewrite dollar_cmd_search by assumption. reflexivity. }
  rewrite Hs. cbn [negb].
  rewrite find_dollar_paren_first by assumption. reflexivity.
Qed.

Theorem dollar_loop_b_one : forall W before cmd after f,
  has_dollar_paren before = false -> cmd <> [] -> ~ In 40 cmd -> ~ In 41 cmd ->
  (~ In 61 (before ++ 36 :: 40 :: cmd ++ 41 :: after) \/ ~ In 39 (before ++ 36 :: 40 :: cmd ++ 41 :: after)) ->
  dollar_loop_b (S f) W (before ++ 36 :: 40 :: cmd ++ 41 :: after) []
  = dollar_loop_b f W (before ++ trim (out_of W cmd) ++ after) [cmd].
Proof. intros. apply (dollar_loop_b_one_log W before cmd after [] f); assumption. Qed.

(** a line without a dollar-paren sequence is returned as it is *)
Lemma dollar_loop_b_stop f W line log :
  has_dollar_paren line = false -> dollar_loop_b (S f) W line log = Ok (Some line, log).
Proof. intros H. rewrite dollar_loop_b_S. rewrite (should_do_needs_dollar_paren line H). reflexivity. Qed.

(** the characters of the second line come from the first line or from the output of [a] *)
Lemma second_line_chars (x : N) (pre a mid b post o : str) :
  In x ((pre ++ o ++ mid) ++ 36 :: 40 :: b ++ 41 :: post) ->
  In x (pre ++ 36 :: 40 :: a ++ 41 :: mid ++ 36 :: 40 :: b ++ 41 :: post) \/ In x o.
Proof.
  repeat first [rewrite in_app_iff | progress cbn [In]]. tauto.
Qed.

(** the word pre$(a)mid$(b)post : the alias exemption is off for both lines when the first line and the
    output of [a] are both free of 61, or both free of 39 *)
Theorem two_substitutions_gen : forall W (pre a mid b post : str) f,
  has_dollar_paren pre = false ->
  has_dollar_paren (pre ++ trim (out_of W a) ++ mid) = false ->
  a <> [] -> b <> [] -> ~ In 40 a -> ~ In 41 a -> ~ In 40 b -> ~ In 41 b ->
  ((~ In 61 (pre ++ 36 :: 40 :: a ++ 41 :: mid ++ 36 :: 40 :: b ++ 41 :: post) /\ ~ In 61 (trim (out_of W a)))
   \/ (~ In 39 (pre ++ 36 :: 40 :: a ++ 41 :: mid ++ 36 :: 40 :: b ++ 41 :: post) /\ ~ In 39 (trim (out_of W a)))) ->
  has_dollar_paren (pre ++ trim (out_of W a) ++ mid ++ trim (out_of W b) ++ post) = false ->
  dollar_loop_b (S (S (S f))) W (pre ++ 36 :: 40 :: a ++ 41 :: mid ++ 36 :: 40 :: b ++ 41 :: post) []
  = Ok (Some (pre ++ trim (out_of W a) ++ mid ++ trim (out_of W b) ++ post), [a; b]).
Proof.
  intros W pre a mid b post f Hpre Hmid Hna Hnb Ha0 Ha1 Hb0 Hb1 Hx Hfin.
  rewrite (dollar_loop_b_one_log W pre a (mid ++ 36 :: 40 :: b ++ 41 :: post) [] (S (S f)))
    by first [assumption | destruct Hx as [[X _]|[X _]]; [left|right]; exact X].
  replace (pre ++ trim (out_of W a) ++ mid ++ 36 :: 40 :: b ++ 41 :: post)
    with ((pre ++ trim (out_of W a) ++ mid) ++ 36 :: 40 :: b ++ 41 :: post)
    by (rewrite <- !app_assoc; reflexivity).
  rewrite (dollar_loop_b_one_log W (pre ++ trim (out_of W a) ++ mid) b post ([] ++ [a]) (S f));
    try assumption.
  - rewrite dollar_loop_b_stop.
    + rewrite <- !app_assoc. reflexivity.
    + rewrite <- !app_assoc. exact Hfin.
  - destruct Hx as [[X Y]|[X Y]]; [left|right]; intros Z;
      apply (second_line_chars _ pre a mid b post) in Z; tauto.
Qed.

Theorem two_substitutions : forall W (pre a mid b post : str) f,
  ~ In 36 pre -> ~ In 36 mid -> a <> [] -> b <> [] -> ~ In 40 a -> ~ In 41 a -> ~ In 40 b -> ~ In 41 b ->
  ~ In 36 (trim (out_of W a)) ->
  ((~ In 61 (pre ++ 36 :: 40 :: a ++ 41 :: mid ++ 36 :: 40 :: b ++ 41 :: post) /\ ~ In 61 (trim (out_of W a)))
   \/ (~ In 39 (pre ++ 36 :: 40 :: a ++ 41 :: mid ++ 36 :: 40 :: b ++ 41 :: post) /\ ~ In 39 (trim (out_of W a)))) ->
  has_dollar_paren (pre ++ trim (out_of W a) ++ mid ++ trim (out_of W b) ++ post) = false ->
  dollar_loop_b (S (S (S f))) W (pre ++ 36 :: 40 :: a ++ 41 :: mid ++ 36 :: 40 :: b ++ 41 :: post) []
  = Ok (Some (pre ++ trim (out_of W a) ++ mid ++ trim (out_of W b) ++ post), [a; b]).
Proof.
  intros W pre a mid b post f Hpre Hmid Hna Hnb Ha0 Ha1 Hb0 Hb1 Ho Hx Hfin.
  apply two_substitutions_gen; try assumption.
  - apply has_dollar_paren_no_dollar. exact Hpre.
  - apply has_dollar_paren_no_dollar. intros X.
    apply in_app_or in X as [X|X]; [tauto|]. apply in_app_or in X as [X|X]; tauto.
Qed.

Example two_substitutions_example :
  dollar_loop_b 3 (world_of [] [([97], Some [65; 10]); ([98], Some [66; 10])]) (s2l "x$(a)-$(b)y") []
  = Ok (Some (s2l "xA-By"), [[97]; [98]]).
Proof. rewrite !dollar_loop_b_S. vm_compute. reflexivity. Qed.

(** the outer substitution is taken whole *)
Example nested_substitution_example :
  dollar_loop_b 2 (world_of [] [(s2l "a $(b)", Some (s2l "N"))]) (s2l "$(a $(b))") []
  = Ok (Some (s2l "N"), [s2l "a $(b)"]).
Proof. rewrite !dollar_loop_b_S. vm_compute. reflexivity. Qed.

Print Assumptions scan_close_flat.
Print Assumptions scan_close_nested.
Print Assumptions find_dollar_paren_first.
Print Assumptions dollar_loop_b_one_log.
Print Assumptions dollar_loop_b_one.
Print Assumptions two_substitutions_gen.
Print Assumptions two_substitutions.
Print Assumptions two_substitutions_example.
Print Assumptions nested_substitution_example.
