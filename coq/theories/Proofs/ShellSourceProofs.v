(** C15, round 9c: `source` lines in the trace. The reference function table is now STATE (a sourced
    file defines functions in the same shell), the flag after a `source` line is the CALLER's
    (run_script restores it, 3fef4c9), a missing file is status 1. Same level and line classes as
    Proofs/ShellFlagProofs.v; files enter through [files_ok]. *)
From Cicada Require Import Base.Chars Base.Peg Gen.LocustGrammar Model.Script Model.ScriptAst Model.Args Model.ShellScript Model.Cmds Model.ListExec Model.CondLine
  Proofs.ScriptProofs Proofs.SetEProofs Proofs.ShellProofs Proofs.ShellCallsProofs Proofs.ShellFlagProofs.
From Coq Require Import ZArith Lia.
Local Open Scope N_scope.

Definition rtab : Type := list (str * list str).
Definition rfile : Type := (rtab * list str)%type.      (* function definitions in file order, main lines *)

Fixpoint set_rfuncs (defs : rtab) (rt : rtab) : rtab :=
  match defs with
  | [] => rt
  | d :: r => set_rfuncs r (d :: rt)
  end.

Lemma tab_set defs rdefs : tab_ok defs rdefs -> forall ft rt, tab_ok ft rt ->
  tab_ok (set_funcs defs ft) (set_rfuncs rdefs rt).
Proof.
  induction 1 as [|k text lines d rd Hp Hok Hd IH]; intros ft rt H; [exact H|].
  cbn [set_funcs set_rfuncs]. apply IH. apply tab_cons; assumption.
Qed.

Fixpoint get_file (path : str) (fs : list (str * rfile)) : option rfile :=
  match fs with
  | [] => None
  | (k, v) :: r => if str_eqb k path then Some v else get_file path r
  end.

(** every readable file: its function table and its main text, parsed *)
Definition files_ok (file_text : str -> option str) (rfiles : list (str * rfile)) : Prop :=
  forall path,
    match file_text path with
    | None => get_file path rfiles = None
    | Some text => exists defs text_new rdefs lines,
        function_table text = (defs, text_new) /\ get_file path rfiles = Some (rdefs, lines) /\
        tab_ok defs rdefs /\ flat_parsed text_new lines /\ forallb ok_line lines = true
    end.

Inductive kind3 := SNop | SSetE | SSource (path : str) | SCall (body : list str) | SExt.

Definition classify3 (rt : rtab) (l : str) : kind3 :=
  match cmd_words l with
  | [] => SNop
  | cmd :: args =>
      if str_eqb cmd [115; 101; 116] && match args with [a] => str_eqb a [45; 101] | _ => false end then SSetE
      else if str_eqb cmd s_source then match args with path :: _ => SSource path | [] => SNop end
      else match get_body cmd rt with Some b => SCall b | None => SExt end
  end.

(** result: flag afterwards, function table afterwards, commands executed, status of the last line executed *)
Definition rres3 : Type := (bool * rtab * list str * Z)%type.

Section Ref3.
Variable ext : str -> Z.
Variable rfiles : list (str * rfile).

Section R.
Variable rec_call : list str -> bool -> rtab -> option rres3.   (* a body *)
Variable rec_src : list str -> bool -> rtab -> option rres3.    (* the main lines of a sourced file *)
Fixpoint ref_lines3 (ls : list str) (e : bool) (rt : rtab) (last : Z) : option rres3 :=
  match ls with
  | [] => Some (e, rt, [], last)
  | l :: r =>
      match classify3 rt l with
      | SNop => ref_lines3 r e rt 0%Z
      | SSetE => ref_lines3 r true rt 0%Z
      | SSource path =>
          match get_file path rfiles with
          | None => if e then Some (e, rt, [], 1%Z) else ref_lines3 r e rt 1%Z        (* no such file: status 1 *)
          | Some (rdefs, lines) =>
              match rec_src lines e (set_rfuncs rdefs rt) with
              | Some (_, rt1, tr1, st1) =>                        (* the caller's flag [e] is restored *)
                  if e && negb (Z.eqb st1 0) then Some (e, rt1, tr1, st1)
                  else match ref_lines3 r e rt1 st1 with
                       | Some (e2, rt2, tr2, st2) => Some (e2, rt2, (tr1 ++ tr2)%list, st2)
                       | None => None
                       end
              | None => None
              end
          end
      | SCall body =>
          match rec_call body e rt with
          | Some (e1, rt1, tr1, st1) =>
              if e1 && negb (Z.eqb st1 0) then Some (e1, rt1, tr1, st1)
              else match ref_lines3 r e1 rt1 st1 with
                   | Some (e2, rt2, tr2, st2) => Some (e2, rt2, (tr1 ++ tr2)%list, st2)
                   | None => None
                   end
          | None => None
          end
      | SExt =>
          if e && negb (Z.eqb (ext l) 0) then Some (e, rt, [l], ext l)
          else match ref_lines3 r e rt (ext l) with
               | Some (e2, rt2, tr2, st2) => Some (e2, rt2, l :: tr2, st2)
               | None => None
               end
      end
  end.
End R.

(** a call costs one level of fuel, a `source` two (exec_pipe -> run_script -> run_lines), as in the model *)
Fixpoint refl3 (fuel : nat) : list str -> bool -> rtab -> Z -> option rres3 :=
  match fuel with
  | O => fun _ _ _ _ => None
  | S f => ref_lines3 (fun b e rt => refl3 f b e rt 0%Z)
                      (fun b e rt => match f with O => None | S f' => refl3 f' b e rt 0%Z end)
  end.
End Ref3.

Section Src.
Variable ext : str -> Z.
Variable file_text : str -> option str.
Variable n : nat.
Variable rfiles : list (str * rfile).
Hypothesis Hfiles : files_ok file_text rfiles.

Notation XL f := (exec_line ext file_text n f).
Notation RL := (refl3 ext rfiles).
Notation RC f := (fun b e rt => RL f b e rt 0%Z).
Notation RS f := (fun bb ee rr => match f with O => None | S f' => RL f' bb ee rr 0%Z end).

Definition main3_at (fuel : nat) : Prop :=
  forall lines, forallb ok_line lines = true ->
  forall rif rfor rwh tail w acc rt e' rt' tr st, forallb empty_node tail = true -> tab_ok (s_funcs w) rt ->
  RL fuel lines (s_eoe w) rt (last_or_zero acc) = Some (e', rt', tr, st) ->
  exists sts ft',
    exp_loop shs (XL fuel) s_eoe rif rfor rwh false (map cmd_node lines ++ tail) w acc =
      Done (mk_shs e' ft' (s_log w ++ tr)) (acc ++ sts) false false
    /\ tab_ok ft' rt' /\ last_or_zero (acc ++ sts) = st.

Lemma body_call3 f : main3_at f -> forall text body w rt e' rt' tr st,
  flat_parsed text body -> forallb ok_line body = true -> tab_ok (s_funcs w) rt ->
  RL f body (s_eoe w) rt 0%Z = Some (e', rt', tr, st) ->
  exists sts ft',
    run_lines shs (XL f) no_words no_setvar s_eoe n text w =
      Some (Done (mk_shs e' ft' (s_log w ++ tr)) sts false false)
    /\ tab_ok ft' rt' /\ last_or_zero sts = st.
Proof.
  intros IH text body w rt e' rt' tr st [p [r [pairs [rule [txt [tail [Hp [Hm Ht]]]]]]]] Hok Hf Hr.
  unfold run_lines. rewrite Hp, Hm, run_pairs_one. erewrite exp_loop_skel by exact Ht.
  destruct (IH body Hok
              (run_exp_if shs (XL f) no_words no_setvar s_eoe n (length text))
              (run_exp_for shs (XL f) no_words no_setvar s_eoe n (length text))
              (run_exp_while shs (XL f) no_words no_setvar s_eoe n (length text))
              [] w [] rt e' rt' tr st eq_refl Hf Hr) as [sts [ft' [H1 [H2 H3]]]].
  rewrite H1. cbn [app] in *. exists sts, ft'. split; [reflexivity | split; assumption].
Qed.

Lemma main3_step f : main3_at f -> (forall f', f = S f' -> main3_at f') -> main3_at (S f).
Proof.
  intros IHf IHp lines. induction lines as [|l r IHr]; intros Hok rif rfor rwh tail w acc rt e' rt' tr st Ht Htab Href.
  - cbn in Href. injection Href as <- <- <- <-. cbn [map app].
    rewrite (tail_loop ext file_text n rif rfor rwh tail Ht). exists [], (s_funcs w). rewrite !app_nil_r.
    destruct w as [e fs lg]. cbn [s_eoe s_funcs s_log] in *. split; [reflexivity | split; [exact Htab | reflexivity]].
  - cbn [forallb] in Hok. apply andb_prop in Hok as [Hl Hr].
    change (RL (S f) (l :: r) (s_eoe w) rt (last_or_zero acc))
      with (ref_lines3 ext rfiles (RC f) (RS f) (l :: r) (s_eoe w) rt (last_or_zero acc)) in Href.
    cbn [ref_lines3] in Href.
    change (ref_lines3 ext rfiles (RC f) (RS f) r) with (RL (S f) r) in Href.
    cbn [map app].
    assert (Hgo : forall w1 st1 tr1 rt1 e2 rt2 tr2 st2,
              exec_pipe ext file_text n (S f) w l = (w1, st1) -> tab_ok (s_funcs w1) rt1 ->
              s_log w1 = (s_log w ++ tr1)%list ->
              negb (Z.eqb st1 0) && s_eoe w1 = false ->
              RL (S f) r (s_eoe w1) rt1 st1 = Some (e2, rt2, tr2, st2) ->
              exists sts ft', exp_loop shs (XL (S f)) s_eoe rif rfor rwh false (cmd_node l :: map cmd_node r ++ tail) w acc =
                Done (mk_shs e2 ft' (s_log w ++ tr1 ++ tr2)) (acc ++ sts) false false
                /\ tab_ok ft' rt2 /\ last_or_zero (acc ++ sts) = st2).
    { intros w1 st1 tr1 rt1 e2 rt2 tr2 st2 Hx Hf1 Hl1 Hns Hr2.
      rewrite (loop_step2 ext file_text n rif rfor rwh (S f) l _ w acc Hl), Hx. cbn [fst snd]. rewrite Hns.
      destruct (IHr Hr rif rfor rwh tail w1 (acc ++ [st1]) rt1 e2 rt2 tr2 st2 Ht Hf1) as [sts [ft' [I1 [I2 I3]]]].
      { rewrite last_or_zero_snoc. exact Hr2. }
      rewrite I1, Hl1. exists (st1 :: sts), ft'. rewrite <- !app_assoc in *. cbn [app] in *.
      split; [reflexivity | split; assumption]. }
    assert (Hstop : forall w1 st1, exec_pipe ext file_text n (S f) w l = (w1, st1) ->
              negb (Z.eqb st1 0) && s_eoe w1 = true ->
              exp_loop shs (XL (S f)) s_eoe rif rfor rwh false (cmd_node l :: map cmd_node r ++ tail) w acc =
                Done w1 (acc ++ [st1]) false false).
    { intros w1 st1 Hx Hs. rewrite (loop_step2 ext file_text n rif rfor rwh (S f) l _ w acc Hl), Hx.
      cbn [fst snd]. rewrite Hs. reflexivity. }
    unfold classify3 in Href.
    pose proof (exec_pipe_S ext file_text n f w l) as Hx.
    destruct (cmd_words l) as [|cmd args].
    { apply (Hgo w 0%Z [] rt e' rt' tr st Hx Htab (eq_sym (app_nil_r _)) eq_refl Href). }
    destruct (str_eqb cmd [115; 101; 116] && match args with [a] => str_eqb a [45; 101] | _ => false end).
    { apply (Hgo (mk_shs true (s_funcs w) (s_log w)) 0%Z [] rt e' rt' tr st Hx Htab (eq_sym (app_nil_r _)) eq_refl Href). }
    destruct (str_eqb cmd s_source).
    { destruct args as [|path args'].
      { apply (Hgo w 0%Z [] rt e' rt' tr st Hx Htab (eq_sym (app_nil_r _)) eq_refl Href). }
      pose proof (Hfiles path) as Hfp.
      destruct (get_file path rfiles) as [[rdefs slines]|] eqn:G.
      - (* the file is there *)
        destruct f as [|f']; [discriminate Href|].
        destruct (file_text path) as [text|] eqn:FT; [|discriminate Hfp].
        destruct Hfp as [defs [text_new [rdefs0 [lines0 [Hft [Hg [Hd [Hpar Hlok]]]]]]]].
        injection Hg as -> ->.
        rewrite run_script_S, FT, Hft in Hx. cbv zeta in Hx.
        change (run_line_of shs (exec_pipe ext file_text n f')) with (XL f') in Hx.
        destruct (RL f' lines0 (s_eoe w) (set_rfuncs rdefs0 rt) 0%Z) as [[[[e1 rt1] tr1] st1]|] eqn:B; [|discriminate Href].
        destruct (body_call3 f' (IHp f' eq_refl) text_new lines0
                    (mk_shs (s_eoe w) (set_funcs defs (s_funcs w)) (s_log w)) (set_rfuncs rdefs0 rt) e1 rt1 tr1 st1
                    Hpar Hlok (tab_set defs rdefs0 Hd _ _ Htab) B) as [bs [ft1 [R1 [R2 R3]]]].
        rewrite R1 in Hx. cbn [s_funcs s_log] in Hx. unfold script_status in Hx. rewrite R3 in Hx.
        destruct (s_eoe w && negb (Z.eqb st1 0)) eqn:C.
        + injection Href as <- <- <- <-.
          rewrite (Hstop _ _ Hx) by (cbn [s_eoe]; rewrite andb_comm; exact C).
          exists [st1], ft1. split; [reflexivity | split; [exact R2 | apply last_or_zero_snoc]].
        + destruct (RL (S (S f')) r (s_eoe w) rt1 st1) as [[[[e2 rt2] tr2] st2]|] eqn:R; [|discriminate Href].
          injection Href as <- <- <- <-.
          apply (Hgo (mk_shs (s_eoe w) ft1 (s_log w ++ tr1)) st1 tr1 rt1 e2 rt2 tr2 st2 Hx R2 eq_refl).
          { cbn [s_eoe]. rewrite andb_comm. exact C. }
          exact R.
      - (* no such file: status 1, nothing changes *)
        assert (Hx1 : exec_pipe ext file_text n (S f) w l = (w, 1%Z)).
        { rewrite Hx. destruct f as [|f']; [reflexivity|]. rewrite run_script_S.
          destruct (file_text path) as [text|]; [|reflexivity].
          destruct Hfp as [? [? [? [? [_ [Hg _]]]]]]. discriminate Hg. }
        destruct (s_eoe w) eqn:E.
        + injection Href as <- <- <- <-.
          rewrite (Hstop _ _ Hx1) by (rewrite E; reflexivity).
          exists [1%Z], (s_funcs w). rewrite app_nil_r.
          destruct w as [e0 fs lg]. cbn [s_eoe s_funcs s_log] in *. subst e0.
          split; [reflexivity | split; [exact Htab | apply last_or_zero_snoc]].
        + apply (Hgo w 1%Z [] rt e' rt' tr st Hx1 Htab (eq_sym (app_nil_r _))).
          { rewrite E. reflexivity. }
          rewrite E. exact Href. }
    pose proof (tab_lookup (s_funcs w) rt Htab cmd) as Hlk.
    destruct (get_func cmd (s_funcs w)) as [text|].
    + destruct Hlk as [body [Hb [Hpar Hbok]]]. rewrite Hb in Href.
      destruct (RL f body (s_eoe w) rt 0%Z) as [[[[e1 rt1] tr1] st1]|] eqn:B; [|discriminate Href].
      destruct (body_call3 f IHf text body w rt e1 rt1 tr1 st1 Hpar Hbok Htab B) as [bs [ft1 [R1 [R2 R3]]]].
      change (run_line_of shs (exec_pipe ext file_text n f)) with (XL f) in Hx.
      rewrite R1 in Hx. unfold func_call_status in Hx. rewrite R3 in Hx.
      destruct (e1 && negb (Z.eqb st1 0)) eqn:C.
      * injection Href as <- <- <- <-.
        rewrite (Hstop _ _ Hx) by (cbn [s_eoe]; rewrite andb_comm; exact C).
        exists [st1], ft1. split; [reflexivity | split; [exact R2 | apply last_or_zero_snoc]].
      * destruct (RL (S f) r e1 rt1 st1) as [[[[e2 rt2] tr2] st2]|] eqn:R; [|discriminate Href].
        injection Href as <- <- <- <-.
        apply (Hgo (mk_shs e1 ft1 (s_log w ++ tr1)) st1 tr1 rt1 e2 rt2 tr2 st2 Hx R2 eq_refl).
        { cbn [s_eoe]. rewrite andb_comm. exact C. }
        exact R.
    + rewrite Hlk in Href. destruct (s_eoe w && negb (Z.eqb (ext l) 0)) eqn:C.
      * injection Href as <- <- <- <-.
        rewrite (Hstop _ _ Hx) by (cbn [s_eoe]; rewrite andb_comm; exact C).
        exists [ext l], (s_funcs w). split; [reflexivity | split; [exact Htab | apply last_or_zero_snoc]].
      * destruct (RL (S f) r (s_eoe w) rt (ext l)) as [[[[e2 rt2] tr2] st2]|] eqn:R; [|discriminate Href].
        injection Href as <- <- <- <-.
        apply (Hgo (mk_shs (s_eoe w) (s_funcs w) (s_log w ++ [l])) (ext l) [l] rt e2 rt2 tr2 st2 Hx Htab eq_refl).
        { cbn [s_eoe]. rewrite andb_comm. exact C. }
        exact R.
Qed.

Lemma main3_all : forall fuel, main3_at fuel.
Proof.
  assert (H0 : main3_at 0) by (intros lines _ rif rfor rwh tail w acc rt e' rt' tr st _ _ H; discriminate H).
  assert (P : forall f, main3_at f /\ main3_at (S f)).
  { induction f as [|f [A B]].
    - split; [exact H0|]. apply main3_step; [exact H0 | intros f' E; discriminate E].
    - split; [exact B|]. apply main3_step; [exact B | intros f' E; injection E as <-; exact A]. }
  intro fuel. apply (proj1 (P fuel)).
Qed.

(** a text from any flag and any (matching) function table *)
Theorem source_trace_lines : forall fuel text lines w rt e' rt' tr st,
  flat_parsed text lines -> forallb ok_line lines = true -> tab_ok (s_funcs w) rt ->
  RL fuel lines (s_eoe w) rt 0%Z = Some (e', rt', tr, st) ->
  exists sts ft',
    run_lines shs (XL fuel) no_words no_setvar s_eoe n text w =
      Some (Done (mk_shs e' ft' (s_log w ++ tr)) sts false false)
    /\ tab_ok ft' rt' /\ script_status sts = st.
Proof. intros fuel text lines w rt e' rt' tr st. apply (body_call3 fuel (main3_all fuel)). Qed.

(** the script file itself is one of the files *)
Theorem source_trace_script : forall fuel path rdefs lines w rt e' rt' tr st,
  get_file path rfiles = Some (rdefs, lines) -> tab_ok (s_funcs w) rt ->
  RL fuel lines (s_eoe w) (set_rfuncs rdefs rt) 0%Z = Some (e', rt', tr, st) ->
  exists ft',
    run_script ext file_text n (S fuel) w path = (mk_shs (s_eoe w) ft' (s_log w ++ tr), st) /\ tab_ok ft' rt'.
Proof.
  intros fuel path rdefs lines w rt e' rt' tr st Hg Htab Hr.
  pose proof (Hfiles path) as Hfp. rewrite run_script_S.
  destruct (file_text path) as [text|]; [|rewrite Hg in Hfp; discriminate Hfp].
  destruct Hfp as [defs [text_new [rdefs0 [lines0 [Hft [Hg0 [Hd [Hpar Hlok]]]]]]]].
  rewrite Hg in Hg0. injection Hg0 as <- <-. rewrite Hft. cbv zeta.
  change (run_line_of shs (exec_pipe ext file_text n fuel)) with (XL fuel).
  destruct (source_trace_lines fuel text_new lines (mk_shs (s_eoe w) (set_funcs defs (s_funcs w)) (s_log w))
              (set_rfuncs rdefs rt) e' rt' tr st Hpar Hlok (tab_set defs rdefs Hd _ _ Htab) Hr) as [sts [ft' [H1 [H2 H3]]]].
  rewrite H1. cbn [s_funcs s_log]. rewrite H3. exists ft'. split; [reflexivity | exact H2].
Qed.

End Src.
