(** The VARIANT command substitution (Model/SubstVariant.v: a double-quoted token keeps everything
    but the trailing newlines, [trim_out]; the splice is the one of the main model): the loop splices
    the tag-dependent trimmed output of the one substitution whatever dollars it contains, as long as
    the result has no dollar-paren sequence (which the loop would run again). *)
From Coq Require Import List NArith ZArith Bool Lia.
From Cicada Require Import Base.Chars Base.Tag Base.Regex Gen.ShellRegexes Model.Expand
  Model.SubstVariant Proofs.ExpandBasics Proofs.SubstProofs.
Import ListNotations.
From Coq Require String.
Import String.StringSyntax.
Local Open Scope N_scope.

Lemma dollar_loop_v_S f W tg line log :
  dollar_loop_v (S f) W tg line log
  = if negb (should_do_dollar line) then Ok (Some line, log)
    else match find_dollar line with
         | None => Ok (None, log)
         | Some (before, cmd, tail, post) =>
             dollar_loop_v f W tg (dollar_splice before cmd tail post (trim_out tg (oracle_out W cmd))) (log ++ [cmd])
         end.
Proof. reflexivity. Qed.

Lemma trim_out_dq o : trim_out TDq o = strip_nl o.
Proof. reflexivity. Qed.

Lemma trim_out_none o : trim_out TNone o = trim o.
Proof. reflexivity. Qed.

(** one substitution: the (tag-dependent) trimmed output is spliced as it is; dollars of the
    output ($1, ${x}, $name) and of the tail are kept *)
Theorem dollar_loop_v_splices : forall W tg head cmd tail f,
  ~ In 36 head -> ~ In 10 tail -> ~ In 41 tail -> cmd <> [] -> ~ In 41 cmd -> ~ In 10 cmd ->
  (~ In 61 (head ++ [36; 40] ++ cmd ++ [41] ++ tail) \/ ~ In 39 (head ++ [36; 40] ++ cmd ++ [41] ++ tail)) ->
  has_dollar_paren (head ++ trim_out tg (oracle_out W cmd) ++ tail) = false ->
  dollar_loop_v (S (S f)) W tg (head ++ [36; 40] ++ cmd ++ [41] ++ tail) []
  = Ok (Some (head ++ trim_out tg (oracle_out W cmd) ++ tail), [cmd]).
Proof.
  intros W tg head cmd tail f Hh Ht10 Ht41 Hne Hc41 Hc10 Hx Ho.
  rewrite dollar_loop_v_S.
  rewrite (should_do_true head cmd tail Hne Hc41 Hx). cbn [negb].
  rewrite line_norm. rewrite find_dollar_mid by assumption.
  rewrite dollar_splice_eq. rewrite app_nil_r.
  rewrite dollar_loop_v_S.
  erewrite should_do_needs_dollar_paren by exact Ho. reflexivity.
Qed.

Corollary dollar_loop_v_dq : forall W head cmd tail f,
  ~ In 36 head -> ~ In 10 tail -> ~ In 41 tail -> cmd <> [] -> ~ In 41 cmd -> ~ In 10 cmd ->
  (~ In 61 (head ++ [36; 40] ++ cmd ++ [41] ++ tail) \/ ~ In 39 (head ++ [36; 40] ++ cmd ++ [41] ++ tail)) ->
  has_dollar_paren (head ++ strip_nl (oracle_out W cmd) ++ tail) = false ->
  dollar_loop_v (S (S f)) W TDq (head ++ [36; 40] ++ cmd ++ [41] ++ tail) []
  = Ok (Some (head ++ strip_nl (oracle_out W cmd) ++ tail), [cmd]).
Proof.
  intros W head cmd tail f Hh Ht10 Ht41 Hne Hc41 Hc10 Hx Ho.
  rewrite <- trim_out_dq in *.
  apply dollar_loop_v_splices; assumption.
Qed.

Corollary dollar_loop_v_unquoted : forall W head cmd tail f,
  ~ In 36 head -> ~ In 10 tail -> ~ In 41 tail -> cmd <> [] -> ~ In 41 cmd -> ~ In 10 cmd ->
  (~ In 61 (head ++ [36; 40] ++ cmd ++ [41] ++ tail) \/ ~ In 39 (head ++ [36; 40] ++ cmd ++ [41] ++ tail)) ->
  has_dollar_paren (head ++ trim (oracle_out W cmd) ++ tail) = false ->
  dollar_loop_v (S (S f)) W TNone (head ++ [36; 40] ++ cmd ++ [41] ++ tail) []
  = Ok (Some (head ++ trim (oracle_out W cmd) ++ tail), [cmd]).
Proof.
  intros W head cmd tail f Hh Ht10 Ht41 Hne Hc41 Hc10 Hx Ho.
  rewrite <- trim_out_none in *.
  apply dollar_loop_v_splices; assumption.
Qed.

(* ================================================================== concrete examples *)
(** "p$(x)q" where x prints <blank>v<blank><newline> : inside double quotes the blanks are kept
    and the newline is dropped; outside all surrounding white space goes as before *)
Definition W_ws_v := world_of [] [([120], Some [32; 118; 32; 10])].
Example variant_dq_keeps_blanks :
  dollar_loop_v 2 W_ws_v TDq [112; 36; 40; 120; 41; 113] [] = Ok (Some [112; 32; 118; 32; 113], [[120]]).
Proof. rewrite !dollar_loop_v_S. vm_compute. reflexivity. Qed.

Example variant_unquoted_trims :
  dollar_loop_v 2 W_ws_v TNone [112; 36; 40; 120; 41; 113] [] = Ok (Some [112; 118; 113], [[120]]).
Proof. rewrite !dollar_loop_v_S. vm_compute. reflexivity. Qed.

Print Assumptions trim_out_dq.
Print Assumptions trim_out_none.
Print Assumptions dollar_loop_v_splices.
Print Assumptions dollar_loop_v_dq.
Print Assumptions dollar_loop_v_unquoted.
Print Assumptions variant_dq_keeps_blanks.
Print Assumptions variant_unquoted_trims.
