(** Generic fuel adequacy (termination) of the PEG interpreter [ev] of Base/Peg.v,
    in the style of Ford's well-formedness check / TRX:

    - [nullable nl e]    : e may succeed without consuming input (over-approximation;
                           [nl] = nullability table of the rules, checked consistent);
    - [lead_ok rk k e]   : every rule reference that [ev] can reach from e WITHOUT having
                           consumed input (left-most, possibly after nullable prefixes;
                           the implicit skip counts as a reference to WHITESPACE) has
                           rank < k; a rule body must be lead_ok at the rank of its rule,
                           so no rule reaches itself without consuming input;
    - [rep_ok nl e]      : the body of every repetition ( e* , e+ ) is not nullable (pest's
                           validator refuses these; [ev] answers PFuel on a zero-width iteration);
    - WHITESPACE is not nullable ([ev] answers PFuel on a zero-width WHITESPACE).

    The tables are computed by bounded iteration ([nl_table], [rk_table]); nothing is
    proved about the iteration, the final tables are CHECKED by [wf_grammar].

    Theorem [ev_fuel_adequate]: if [wf_grammar g = true] then [ev] never answers PFuel
    when fuel >= peg_bound g (length rest) = A * length rest + K*W + W, with
    W = max 3 (max depth of a rule body), K = 1 + max rank, A = K*W + W + 4. *)
From Cicada Require Import Base.Chars Base.Peg.
From Coq Require Import List Arith Lia NArith Bool.
Import ListNotations.

Fixpoint dep (e : pexp) : nat :=
  match e with
  | PSeq a b => S (Nat.max 3 (Nat.max (dep a) (dep b)))
  | PAlt a b => S (Nat.max (dep a) (dep b))
  | POpt a | PNot a | PAnd a => S (dep a)
  | PRep a | PRep1 a => S (S (Nat.max 3 (dep a)))
  | PRepTail a => S (Nat.max 3 (dep a))
  | PSkip => 3
  | _ => 2
  end.

Lemma dep_ge2 : forall e, 2 <= dep e.
Proof. induction e; cbn [dep]; lia. Qed.

Definition str_null (s : str) : bool := match s with [] => true | _ => false end.

Section Static.
Variable g : grammar.
Variable nl : N -> bool.
Variable rk : N -> nat.
Variable K : nat.
Variable W : nat.

Fixpoint nullable (e : pexp) : bool :=
  match e with
  | PStr s | PIns s => str_null s
  | PRange _ _ | PAny => false
  | PSoi | PEoi => true
  | PRef r => nl r
  | PSeq a b => nullable a && nullable b
  | PAlt a b => nullable a || nullable b
  | PRep1 a => nullable a
  | POpt _ | PRep _ | PNot _ | PAnd _ | PSkip | PRepTail _ => true
  end.

Definition skip_ok (k : nat) : bool :=
  match g_ws g with None => true | Some w => rk w <? k end.

Fixpoint lead_ok (k : nat) (e : pexp) : bool :=
  match e with
  | PRef r => rk r <? k
  | PSeq a b => lead_ok k a && (if nullable a then skip_ok k && lead_ok k b else true)
  | PAlt a b => lead_ok k a && lead_ok k b
  | POpt a | PRep a | PRep1 a | PNot a | PAnd a => lead_ok k a
  | PSkip => skip_ok k
  | PRepTail a => skip_ok k && lead_ok k a
  | _ => true
  end.

Fixpoint rep_ok (e : pexp) : bool :=
  match e with
  | PSeq a b | PAlt a b => rep_ok a && rep_ok b
  | POpt a | PNot a | PAnd a => rep_ok a
  | PRep a | PRep1 a | PRepTail a => negb (nullable a) && rep_ok a
  | _ => true
  end.

Definition rule_ok (x : N * (modif * pexp)) : bool :=
  let r := fst x in let body := snd (snd x) in
  rep_ok body && lead_ok (rk r) body && implb (nullable body) (nl r) && (dep body <=? W).

Definition ws_ok : bool := match g_ws g with None => true | Some w => negb (nl w) end.

Definition wf_with : bool := forallb rule_ok (g_rules g) && ws_ok.

Hypothesis Hrk : forall r, rk r < K.
Hypothesis HW : 3 <= W.
Hypothesis Hwf : wf_with = true.

Lemma lookup_In : forall r l v, lookup r l = Some v -> In (r, v) l.
Proof.
  induction l as [|[k v'] l IH]; simpl; intros v H; [discriminate|].
  destruct (N.eqb k r) eqn:E.
  - apply N.eqb_eq in E. inversion H. subst. now left.
  - right. now apply IH.
Qed.

Lemma rule_of_lookup : forall r m body, lookup r (g_rules g) = Some (m, body) ->
  rep_ok body = true /\ lead_ok (rk r) body = true /\ (nullable body = true -> nl r = true) /\ dep body <= W.
Proof.
  intros r m body L. apply lookup_In in L.
  unfold wf_with in Hwf. apply andb_true_iff in Hwf. destruct Hwf as [Hf _].
  rewrite forallb_forall in Hf. specialize (Hf _ L). unfold rule_ok in Hf. simpl in Hf.
  repeat (apply andb_true_iff in Hf; destruct Hf as [Hf ?]).
  repeat split; auto.
  - intro Hn. rewrite Hn in *. simpl in *. assumption.
  - now apply Nat.leb_le.
Qed.

Lemma ws_not_nullable : forall w, g_ws g = Some w -> nl w = false.
Proof.
  intros w E. unfold wf_with in Hwf. apply andb_true_iff in Hwf. destruct Hwf as [_ Hs].
  unfold ws_ok in Hs. rewrite E in Hs. now apply negb_true_iff in Hs.
Qed.

Lemma strip_prefix_len : forall p s r, strip_prefix p s = Some r -> length s = length p + length r.
Proof.
  induction p; simpl; intros s r H.
  - inversion H. reflexivity.
  - destruct s; [discriminate|]. destruct (N.eqb a c); [|discriminate]. apply IHp in H. simpl. lia.
Qed.

Lemma strip_prefix_ci_len : forall p s r, strip_prefix_ci p s = Some r -> length s = length p + length r.
Proof.
  induction p; simpl; intros s r H.
  - inversion H. reflexivity.
  - destruct s; [discriminate|]. destruct (N.eqb (ascii_lower a) (ascii_lower c)); [|discriminate].
    apply IHp in H. simpl. lia.
Qed.

Lemma str_null_len : forall s, length s = 0 -> str_null s = true.
Proof. destruct s; simpl; [reflexivity|discriminate]. Qed.

Ltac dev H :=
  match type of H with
  | context[match ev ?g ?f ?e ?a ?p ?r with _ => _ end] =>
      let E := fresh "E" in destruct (ev g f e a p r) eqn:E; try discriminate
  end.

Ltac useIH IH :=
  repeat match goal with
  | E : ev _ _ _ _ _ _ = POk _ _ _ |- _ => apply IH in E; destruct E as (? & ? & ?)
  end.

Ltac nfin :=
  try lia; try reflexivity;
  try (match goal with H : _ -> ?x = true |- ?x = true => apply H; lia end).

(** result shape: positions and remainders move together; a zero-width success implies nullable *)
Lemma ev_ok_inv : forall f e a pos rest p r kids,
  ev g f e a pos rest = POk p r kids ->
  p + length r = pos + length rest /\ length r <= length rest /\
  (length r = length rest -> nullable e = true).
Proof.
  induction f as [|f IH]; intros e a pos rest p r kids H; [discriminate|].
  destruct e; simpl in H.
  - (* PStr *) destruct (strip_prefix s rest) eqn:E; [|discriminate]. inversion H; subst.
    apply strip_prefix_len in E. repeat split; try lia. intro. simpl. apply str_null_len. lia.
  - (* PIns *) destruct (strip_prefix_ci s rest) eqn:E; [|discriminate]. inversion H; subst.
    apply strip_prefix_ci_len in E. repeat split; try lia. intro. simpl. apply str_null_len. lia.
  - (* PRange *) destruct rest; [discriminate|]. destruct (_ && _); [|discriminate].
    inversion H; subst. simpl. repeat split; lia.
  - (* PAny *) destruct rest; [discriminate|]. inversion H; subst. simpl. repeat split; lia.
  - (* PSoi *) destruct pos; [|discriminate]. inversion H; subst. simpl. repeat split; auto.
  - (* PEoi *) destruct rest; [|discriminate]. inversion H; subst. simpl. repeat split; auto.
  - (* PRef *) destruct (lookup r0 (g_rules g)) as [[m body]|] eqn:L; [|discriminate].
    destruct (rule_of_lookup _ _ _ L) as (_ & _ & Hn & _).
    destruct m; dev H; inversion H; subst; useIH IH; repeat split; try lia; intro; simpl; apply Hn; nfin.
  - (* PSeq *) dev H. dev H. dev H. inversion H; subst. useIH IH. repeat split; try lia.
    intro. simpl. apply andb_true_iff. split; nfin.
  - (* PAlt *) dev H.
    + useIH IH. repeat split; try lia. intro. simpl. apply orb_true_iff. right. nfin.
    + inversion H; subst. useIH IH. repeat split; try lia. intro. simpl. apply orb_true_iff. left. nfin.
  - (* POpt *) dev H; inversion H; subst; useIH IH; repeat split; try lia; auto.
  - (* PRep *) dev H.
    + inversion H; subst. repeat split; auto.
    + dev H. inversion H; subst. useIH IH. repeat split; try lia; auto.
  - (* PRep1 *) dev H. dev H. inversion H; subst. useIH IH. repeat split; try lia. intro. simpl. nfin.
  - (* PNot *) dev H. inversion H; subst. repeat split; auto.
  - (* PAnd *) dev H. inversion H; subst. repeat split; auto.
  - (* PSkip *) destruct (is_non a).
    + destruct (g_ws g).
      * dev H.
        -- inversion H; subst. repeat split; auto.
        -- destruct (Nat.eqb pos0 pos); [discriminate|]. dev H. inversion H; subst. useIH IH.
           repeat split; try lia; auto.
      * inversion H; subst. repeat split; auto.
    + inversion H; subst. repeat split; auto.
  - (* PRepTail *) dev H.
    + inversion H; subst. repeat split; auto.
    + dev H.
      * inversion H; subst. repeat split; auto.
      * destruct (Nat.eqb pos1 pos); [discriminate|]. dev H. inversion H; subst. useIH IH.
        repeat split; try lia; auto.
Qed.

Lemma lead_ok_K : forall e, lead_ok K e = true.
Proof.
  assert (HS : skip_ok K = true).
  { unfold skip_ok. destruct (g_ws g); [|reflexivity]. apply Nat.ltb_lt. apply Hrk. }
  induction e; simpl; auto.
  - apply Nat.ltb_lt. apply Hrk.
  - rewrite IHe1, IHe2, HS. destruct (nullable e1); reflexivity.
  - rewrite IHe1, IHe2. reflexivity.
  - rewrite IHe, HS. reflexivity.
Qed.

Definition cA : nat := K * W + W + 4.

Ltac dg :=
  match goal with
  | |- context[match ev ?g ?f ?e ?a ?p ?r with _ => _ end] =>
      let E := fresh "E" in destruct (ev g f e a p r) eqn:E
  end.

Ltac dl :=
  cbn [dep rep_ok length];
  repeat match goal with
  | e : pexp |- _ =>
      lazymatch goal with
      | H : 2 <= dep e |- _ => fail
      | _ => pose proof (dep_ge2 e)
      end
  end; lia.

Lemma ev_adequate : forall f e a pos rest k,
  rep_ok e = true -> dep e <= W -> lead_ok k e = true -> k <= K ->
  cA * length rest + k * W + dep e <= f -> ev g f e a pos rest <> PFuel.
Proof.
  induction f as [|f IH]; intros e a pos rest k Hr Hd Hl Hk Hf.
  { pose proof (dep_ge2 e). lia. }
  pose proof (dep_ge2 e) as Hd2.
  assert (less : forall e1 a1 pos1 rest1, rep_ok e1 = true -> dep e1 <= W ->
            length rest1 < length rest -> ev g f e1 a1 pos1 rest1 <> PFuel).
  { intros e1 a1 pos1 rest1 R1 D1 L1. apply IH with K; auto; [apply lead_ok_K|].
    assert (cA * length rest1 + (K * W + W + 4) <= cA * length rest).
    { change (K * W + W + 4) with cA. rewrite <- Nat.mul_succ_r. apply Nat.mul_le_mono_l. lia. }
    lia. }
  assert (same : forall e1 a1 pos1 rest1, rep_ok e1 = true -> dep e1 < dep e ->
            lead_ok k e1 = true -> length rest1 = length rest -> ev g f e1 a1 pos1 rest1 <> PFuel).
  { intros e1 a1 pos1 rest1 R1 D1 L1 E1. apply IH with k; auto; [lia|]. rewrite E1. lia. }
  assert (call : forall e1 a1 pos1 rest1, rep_ok e1 = true -> dep e1 < dep e ->
            length rest1 <= length rest -> (length rest1 = length rest -> lead_ok k e1 = true) ->
            ev g f e1 a1 pos1 rest1 <> PFuel).
  { intros e1 a1 pos1 rest1 R1 D1 L1 E1.
    destruct (Nat.eq_dec (length rest1) (length rest)) as [Q|Q].
    - apply same; auto.
    - apply less; auto; lia. }
  destruct e; simpl; cbn [rep_ok lead_ok dep] in Hr, Hl, Hd, Hf.
  - destruct (strip_prefix s rest); discriminate.
  - destruct (strip_prefix_ci s rest); discriminate.
  - destruct rest; [discriminate|]. destruct (_ && _); discriminate.
  - destruct rest; discriminate.
  - destruct pos; discriminate.
  - destruct rest; discriminate.
  - (* PRef *)
    destruct (lookup r (g_rules g)) as [[m body]|] eqn:L; [|discriminate].
    destruct (rule_of_lookup _ _ _ L) as (B1 & B2 & _ & B4).
    apply Nat.ltb_lt in Hl.
    assert (HB : forall inner, ev g f body inner pos rest <> PFuel).
    { intro inner. apply IH with (rk r); auto; [dl|].
      assert (S (rk r) * W <= k * W) by (apply Nat.mul_le_mono_r; dl).
      rewrite Nat.mul_succ_l in H. dl. }
    destruct m; dg; try discriminate; exfalso; eapply HB; eassumption.
  - (* PSeq *)
    apply andb_true_iff in Hr. destruct Hr as [Ra Rb].
    apply andb_true_iff in Hl. destruct Hl as [La Lb].
    dg; [discriminate| exfalso; revert E; apply same; auto; dl |].
    apply ev_ok_inv in E. destruct E as (P1 & P2 & P3).
    dg; [discriminate| exfalso; revert E; apply call; auto; [dl|] |].
    { intro Q. rewrite (P3 Q) in Lb. apply andb_true_iff in Lb. simpl. apply Lb. }
    apply ev_ok_inv in E. destruct E as (Q1 & Q2 & Q3).
    dg; [discriminate| exfalso; revert E; apply call; auto; [dl|dl|] | discriminate].
    intro Q. rewrite P3 in Lb by dl. apply andb_true_iff in Lb. apply Lb.
  - (* PAlt *)
    apply andb_true_iff in Hr. destruct Hr as [Ra Rb].
    apply andb_true_iff in Hl. destruct Hl as [La Lb].
    dg; [| exfalso; revert E; apply same; auto; dl | discriminate].
    apply same; auto; dl.
  - (* POpt *)
    dg; [discriminate| exfalso; revert E; apply same; auto; dl | discriminate].
  - (* PRep *)
    apply andb_true_iff in Hr. destruct Hr as [Na Ra]. apply negb_true_iff in Na.
    dg; [discriminate| exfalso; revert E; apply same; auto; dl |].
    apply ev_ok_inv in E. destruct E as (P1 & P2 & P3).
    assert (length rest0 < length rest).
    { destruct (Nat.eq_dec (length rest0) (length rest)) as [Q|Q]; [|dl]. rewrite (P3 Q) in Na. discriminate. }
    dg; [discriminate| exfalso; revert E; apply less; auto; cbn [rep_ok dep]; [|dl] | discriminate].
    rewrite Na, Ra. reflexivity.
  - (* PRep1 *)
    apply andb_true_iff in Hr. destruct Hr as [Na Ra]. apply negb_true_iff in Na.
    dg; [discriminate| exfalso; revert E; apply same; auto; dl |].
    apply ev_ok_inv in E. destruct E as (P1 & P2 & P3).
    assert (length rest0 < length rest).
    { destruct (Nat.eq_dec (length rest0) (length rest)) as [Q|Q]; [|dl]. rewrite (P3 Q) in Na. discriminate. }
    dg; [discriminate| exfalso; revert E; apply less; auto; cbn [rep_ok dep]; [|dl] | discriminate].
    rewrite Na, Ra. reflexivity.
  - (* PNot *)
    dg; [discriminate| exfalso; revert E; apply same; auto; dl | discriminate].
  - (* PAnd *)
    dg; [discriminate| exfalso; revert E; apply same; auto; dl | discriminate].
  - (* PSkip *)
    destruct (is_non a); [|discriminate].
    destruct (g_ws g) as [w|] eqn:GW; [|discriminate].
    assert (Lw : rk w <? k = true). { unfold skip_ok in Hl. rewrite GW in Hl. exact Hl. }
    assert (FW : ev g f (PRef w) a pos rest <> PFuel).
    { apply IH with k; auto; dl. }
    dg; [discriminate| exfalso; apply FW; reflexivity |].
    apply ev_ok_inv in E. destruct E as (P1 & P2 & P3). simpl in P3.
    rewrite (ws_not_nullable _ GW) in P3.
    assert (length rest0 < length rest).
    { destruct (Nat.eq_dec (length rest0) (length rest)) as [Q|Q]; [|dl]. specialize (P3 Q). discriminate. }
    destruct (Nat.eqb pos0 pos) eqn:EP; [apply Nat.eqb_eq in EP; dl|].
    dg; [discriminate| exfalso; revert E; apply less; auto; dl | discriminate].
  - (* PRepTail *)
    apply andb_true_iff in Hr. destruct Hr as [Na Ra]. apply negb_true_iff in Na.
    apply andb_true_iff in Hl. destruct Hl as [Ls La].
    pose proof (dep_ge2 e) as He2.
    dg; [discriminate| exfalso; revert E; apply same; auto; dl |].
    apply ev_ok_inv in E. destruct E as (P1 & P2 & P3).
    dg; [discriminate| exfalso; revert E; apply call; auto; dl |].
    apply ev_ok_inv in E. destruct E as (Q1 & Q2 & Q3).
    assert (length rest1 < length rest0).
    { destruct (Nat.eq_dec (length rest1) (length rest0)) as [Q|Q]; [|dl]. rewrite (Q3 Q) in Na. discriminate. }
    destruct (Nat.eqb pos1 pos) eqn:EP; [apply Nat.eqb_eq in EP; dl|].
    dg; [discriminate| exfalso; revert E; apply less; auto; cbn [rep_ok dep]; try dl | discriminate].
    rewrite Na, Ra. reflexivity.
Qed.

End Static.

(** ** the tables, computed by bounded iteration *)
Definition tbl_get {X} (d : X) (t : list (N * X)) (r : N) : X :=
  match find (fun kv => N.eqb (fst kv) r) t with Some kv => snd kv | None => d end.

Definition nl_step (g : grammar) (t : list (N * bool)) : list (N * bool) :=
  map (fun x => (fst x, nullable (tbl_get false t) (snd (snd x)))) (g_rules g).

Definition nl_table (g : grammar) : list (N * bool) :=
  Nat.iter (S (length (g_rules g))) (nl_step g) [].

Section Need.
Variable g : grammar.
Variable nl : N -> bool.
Variable rk : N -> nat.
Definition skip_need : nat := match g_ws g with None => 0 | Some w => S (rk w) end.
(** least k with lead_ok k e (not proved: the result is checked) *)
Fixpoint lead_need (e : pexp) : nat :=
  match e with
  | PRef r => S (rk r)
  | PSeq a b => Nat.max (lead_need a) (if nullable nl a then Nat.max skip_need (lead_need b) else 0)
  | PAlt a b => Nat.max (lead_need a) (lead_need b)
  | POpt a | PRep a | PRep1 a | PNot a | PAnd a => lead_need a
  | PSkip => skip_need
  | PRepTail a => Nat.max skip_need (lead_need a)
  | _ => 0
  end.
End Need.

Definition rk_step (g : grammar) (nl : N -> bool) (t : list (N * nat)) : list (N * nat) :=
  map (fun x => (fst x, lead_need g nl (tbl_get 0 t) (snd (snd x)))) (g_rules g).

Definition rk_table (g : grammar) : list (N * nat) :=
  Nat.iter (S (length (g_rules g))) (rk_step g (tbl_get false (nl_table g))) [].

Definition g_nl (g : grammar) : N -> bool := tbl_get false (nl_table g).
Definition g_rk (g : grammar) : N -> nat := tbl_get 0 (rk_table g).
(** K: strict bound of the ranks; W: bound of the depth of rule bodies *)
Definition g_K (g : grammar) : nat := S (list_max (map snd (rk_table g))).
Definition g_W (g : grammar) : nat :=
  Nat.max 3 (list_max (map (fun x => dep (snd (snd x))) (g_rules g))).
Definition g_A (g : grammar) : nat := g_K g * g_W g + g_W g + 4.

Definition wf_grammar (g : grammar) : bool := wf_with g (g_nl g) (g_rk g) (g_W g).

(** the explicit bound: linear in the length of the remaining input *)
Definition peg_bound (g : grammar) (n : nat) : nat := g_A g * n + g_K g * g_W g + g_W g.

(** expressions [ev] may be started on: repetition bodies not nullable, depth within W *)
Definition pexp_ok (g : grammar) (e : pexp) : bool := rep_ok (g_nl g) e && (dep e <=? g_W g).

Lemma g_rk_lt : forall g r, g_rk g r < g_K g.
Proof.
  intros g r. unfold g_rk, g_K, tbl_get.
  destruct (find _ (rk_table g)) as [kv|] eqn:F; [|lia].
  apply find_some in F. destruct F as [F _].
  pose proof (proj1 (list_max_le (map snd (rk_table g)) (list_max (map snd (rk_table g)))) (le_n _)) as HF.
  rewrite Forall_forall in HF. specialize (HF (snd kv) (in_map snd _ _ F)). lia.
Qed.

Theorem ev_fuel_adequate : forall g, wf_grammar g = true ->
  forall e a pos rest fuel, pexp_ok g e = true ->
  peg_bound g (length rest) <= fuel -> ev g fuel e a pos rest <> PFuel.
Proof.
  intros g Hwf e a pos rest fuel He Hf.
  apply andb_true_iff in He. destruct He as [He1 He2]. apply Nat.leb_le in He2.
  apply (ev_adequate g (g_nl g) (g_rk g) (g_K g) (g_W g) (g_rk_lt g) (Nat.le_max_l _ _) Hwf)
    with (k := g_K g); auto.
  - apply lead_ok_K. apply g_rk_lt.
  - unfold peg_bound, g_A in Hf. unfold cA. lia.
Qed.

(** every rule reference, and every rule body, is such an expression *)
Lemma pexp_ok_ref : forall g r, pexp_ok g (PRef r) = true.
Proof. intros. unfold pexp_ok. cbn [rep_ok dep andb]. apply Nat.leb_le. pose proof (Nat.le_max_l 3 (list_max (map (fun x => dep (snd (snd x))) (g_rules g)))). unfold g_W. lia. Qed.

Lemma pexp_ok_body : forall g, wf_grammar g = true -> forall r m body,
  lookup r (g_rules g) = Some (m, body) -> pexp_ok g body = true.
Proof.
  intros g Hwf r m body L.
  destruct (rule_of_lookup g (g_nl g) (g_rk g) (g_W g) Hwf _ _ _ L) as (B1 & _ & _ & B4).
  unfold pexp_ok. rewrite B1. simpl. now apply Nat.leb_le.
Qed.

Corollary parse_fuel_adequate : forall g, wf_grammar g = true ->
  forall start s fuel, peg_bound g (length s) <= fuel -> ev g fuel (PRef start) AtNon 0 s <> PFuel.
Proof. intros. apply ev_fuel_adequate; auto. apply pexp_ok_ref. Qed.
