(** C14: the transcribed interpreter of scripting.rs, run on the ideal pair
    tree of a script, is the structured semantics. *)
From Cicada Require Import Base.Chars Base.Peg Gen.LocustGrammar Model.Script Model.ScriptAst.
From Coq Require Import ZArith Lia.
Local Open Scope N_scope.

Scheme block_mut := Induction for block Sort Prop
with stmt_mut := Induction for stmt Sort Prop
with arms_mut := Induction for arms Sort Prop.
Combined Scheme ast_mutind from block_mut, stmt_mut, arms_mut.

Lemma depth_block_pos b : (1 <= depth_block b)%nat.
Proof. destruct b as [|s r]; cbn [depth_block]; [lia|]. destruct s; cbn [depth_stmt]; lia. Qed.


(** trim_cmd coincides with trim unless the trimmed text ends in a backslash *)
Lemma trim_cmd_is_trim s : count_bs (rev (trim s)) = 0%nat -> trim_cmd s = trim s.
Proof.
  intro H. unfold trim_cmd. change (trim_end (trim_start s)) with (trim s). rewrite H.
  destruct (Nat.ltb (length (trim s)) (length (trim_start s))); reflexivity.
Qed.

(** last status of an extended list *)
Lemma last_status_cons a l : l <> [] -> last_status (a :: l) = last_status l.
Proof. destruct l; [congruence|reflexivity]. Qed.

Lemma last_status_app acc crs : crs <> [] -> last_status (acc ++ crs) = last_status crs.
Proof.
  intro H. induction acc as [|a acc IH]; [reflexivity|].
  cbn [app]. rewrite last_status_cons; [exact IH|].
  destruct acc; cbn; [exact H|discriminate].
Qed.

Lemma last_nz_app acc crs : last_is_nonzero acc = false ->
  last_is_nonzero (acc ++ crs) = last_is_nonzero crs.
Proof.
  intro H. destruct crs as [|c crs]; [rewrite app_nil_r; exact H|].
  unfold last_is_nonzero. rewrite last_status_app by discriminate. reflexivity.
Qed.

Lemma stop_app (e : bool) acc crs : e && last_is_nonzero acc = false ->
  e && last_is_nonzero (acc ++ crs) = e && last_is_nonzero crs.
Proof. destruct e; cbn; [apply last_nz_app | reflexivity]. Qed.

(** unfolding equations of the mutual definitions (all by computation) *)
Lemma wf_block_cons s r : wf_block (BCons s r) = wf_stmt s && wf_block r. Proof. reflexivity. Qed.
Lemma wf_stmt_if i sp c b a : wf_stmt (SIf i sp c b a) = wf_block b && wf_arms a. Proof. reflexivity. Qed.
Lemma wf_stmt_for i sp v ws b : wf_stmt (SFor i sp v ws b) = wf_block b. Proof. reflexivity. Qed.
Lemma wf_stmt_while i sp c b : wf_stmt (SWhile i sp c b) = wf_block b. Proof. reflexivity. Qed.
Lemma wf_arms_else i b j : wf_arms (AElse i b j) = wf_block b. Proof. reflexivity. Qed.
Lemma wf_arms_elif i sp c b a : wf_arms (AElif i sp c b a) = wf_block b && wf_arms a. Proof. reflexivity. Qed.
Lemma depth_block_cons s r : depth_block (BCons s r) = Nat.max (depth_stmt s) (depth_block r). Proof. reflexivity. Qed.
Lemma depth_stmt_if i sp c b a : depth_stmt (SIf i sp c b a) = (3 + Nat.max (depth_block b) (depth_arms a))%nat. Proof. reflexivity. Qed.
Lemma depth_stmt_for i sp v ws b : depth_stmt (SFor i sp v ws b) = (3 + depth_block b)%nat. Proof. reflexivity. Qed.
Lemma depth_stmt_while i sp c b : depth_stmt (SWhile i sp c b) = (3 + depth_block b)%nat. Proof. reflexivity. Qed.
Lemma depth_arms_else i b j : depth_arms (AElse i b j) = depth_block b. Proof. reflexivity. Qed.
Lemma depth_arms_elif i sp c b a : depth_arms (AElif i sp c b a) = Nat.max (depth_block b) (depth_arms a). Proof. reflexivity. Qed.
Lemma kids_cons s r : kids_of_block (BCons s r) = tree_of_stmt s :: kids_of_block r. Proof. reflexivity. Qed.
Lemma tree_if i sp cond body rest :
  tree_of_stmt (SIf i sp cond body rest) =
  TNode L_EXP_IF (core_stmt (SIf i sp cond body rest))
    (TNode L_IF_IF_BR (trim (s_if ++ cond ++ s_then sp ++ render_block body))
       [TNode L_IF_HEAD (trim (s_if ++ cond ++ s_then sp)) [TNode L_TEST cond []];
        body_node (kids_of_block body) body] :: nodes_of_arms rest).
Proof. reflexivity. Qed.
Lemma tree_for i sp var words body :
  tree_of_stmt (SFor i sp var words body) =
  TNode L_EXP_FOR (core_stmt (SFor i sp var words body))
    [TNode L_FOR_HEAD (trim (s_for ++ var ++ s_in ++ words ++ s_do sp))
       [TNode L_FOR_INIT (trim (var ++ s_in ++ words ++ s_do sp))
          [TNode L_FOR_VAR var []; TNode L_TEST words []]];
     body_node (kids_of_block body) body].
Proof. reflexivity. Qed.
Lemma tree_while i sp cond body :
  tree_of_stmt (SWhile i sp cond body) =
  TNode L_EXP_WHILE (core_stmt (SWhile i sp cond body))
    [TNode L_WHILE_HEAD (trim (s_while ++ cond ++ s_do sp)) [TNode L_TEST cond []];
     body_node (kids_of_block body) body].
Proof. reflexivity. Qed.
Lemma nodes_else i body j :
  nodes_of_arms (AElse i body j) =
  [TNode L_IF_ELSE_BR (trim (s_else ++ nl ++ render_block body))
     [TNode L_KW_ELSE s_else []; body_node (kids_of_block body) body]].
Proof. reflexivity. Qed.
Lemma nodes_elif i sp cond body rest :
  nodes_of_arms (AElif i sp cond body rest) =
  TNode L_IF_ELSEIF_BR (trim (s_elseif ++ cond ++ s_then sp ++ render_block body))
    [TNode L_IF_ELSEIF_HEAD (trim (s_elseif ++ cond ++ s_then sp)) [TNode L_TEST cond []];
     body_node (kids_of_block body) body] :: nodes_of_arms rest.
Proof. reflexivity. Qed.
Lemma t_rule_body_node k b : t_rule (body_node k b) = L_EXP_BODY. Proof. reflexivity. Qed.
Lemma core_if_nonempty i sp c b a : is_empty (core_stmt (SIf i sp c b a)) = false. Proof. reflexivity. Qed.
Lemma core_for_nonempty i sp v ws b : is_empty (core_stmt (SFor i sp v ws b)) = false. Proof. reflexivity. Qed.
Lemma core_while_nonempty i sp c b : is_empty (core_stmt (SWhile i sp c b)) = false. Proof. reflexivity. Qed.

Section SemEq.
Variable W : Type.
Variable run_line : W -> str -> W * list Z.
Variable for_words : W -> str -> W * list str.
Variable set_var : W -> str -> str -> W.
Variable e : bool.
Variable n : nat.
Notation SB := (sem_block W run_line for_words set_var e n).
Notation SS := (sem_stmt W run_line for_words set_var e n).
Notation SA := (sem_arms W run_line for_words set_var e n).
Lemma sem_block_cons s r il w : SB (BCons s r) il w = then_ W e (SS s il w) (SB r il). Proof. reflexivity. Qed.
Lemma sem_if i sp cond body rest il w :
  SS (SIf i sp cond body rest) il w =
  let '(w1, crs) := run_line w cond in if last_is_zero crs then SB body il w1 else SA rest il w1.
Proof. reflexivity. Qed.
Lemma sem_for i sp var words body il w :
  SS (SFor i sp var words body) il w =
  let '(w1, vs) := for_words w words in sem_each W set_var e (SB body true) var vs w1.
Proof. reflexivity. Qed.
Lemma sem_while i sp cond body il w :
  SS (SWhile i sp cond body) il w = sem_iter W run_line e cond (SB body true) n w.
Proof. reflexivity. Qed.
Lemma sem_else i body j il w : SA (AElse i body j) il w = SB body il w. Proof. reflexivity. Qed.
Lemma sem_elif i sp cond body rest il w :
  SA (AElif i sp cond body rest) il w =
  let '(w1, crs) := run_line w cond in if last_is_zero crs then SB body il w1 else SA rest il w1.
Proof. reflexivity. Qed.
Lemma sem_each_flags (body : W -> outcome W) var vs : forall w w2 crs2 c b,
  sem_each W set_var e body var vs w = Done w2 crs2 c b -> c = false /\ b = false.
Proof.
  induction vs as [|v vs IH]; intros w w2 crs2 c b E; cbn [sem_each] in E.
  - injection E as _ _ <- <-. split; reflexivity.
  - destruct (body (set_var w var v)) as [w3 crs3 c3 b3| |]; try discriminate.
    destruct (b3 || stops e crs3).
    + injection E as _ _ <- <-. split; reflexivity.
    + destruct (sem_each W set_var e body var vs w3) as [w4 crs4 c4 b4| |] eqn:E4; try discriminate.
      injection E as _ _ <- <-. eapply IH; eassumption.
Qed.
Lemma sem_iter_flags cond (body : W -> outcome W) k : forall w w2 crs2 c b,
  sem_iter W run_line e cond body k w = Done w2 crs2 c b -> c = false /\ b = false.
Proof.
  induction k as [|k IH]; intros w w2 crs2 c b E; cbn [sem_iter] in E; [discriminate|].
  destruct (run_line w cond) as [w1 crs]. cbn beta iota match in E.
  destruct (last_is_zero crs).
  - destruct (body w1) as [w3 crs3 c3 b3| |]; cbn beta iota match in E; try discriminate.
    destruct (b3 || stops e crs3).
    + injection E as _ _ <- <-. split; reflexivity.
    + destruct (sem_iter W run_line e cond body k w3) as [w4 crs4 c4 b4| |] eqn:E4; try discriminate.
      injection E as _ _ <- <-. eapply IH; eassumption.
  - injection E as _ _ <- <-. split; reflexivity.
Qed.
End SemEq.

Section Interp.
Variable W : Type.
Variable run_line : W -> str -> W * list Z.
Variable for_words : W -> str -> W * list str.
Variable set_var : W -> str -> str -> W.
Variable eoe : W -> bool.
Variable e : bool.
Variable n : nat.
Hypothesis flag : forall w, eoe w = e.

Notation RE := (run_exp W run_line for_words set_var eoe n).
Notation RIF := (run_exp_if W run_line for_words set_var eoe n).
Notation RFOR := (run_exp_for W run_line for_words set_var eoe n).
Notation RWH := (run_exp_while W run_line for_words set_var eoe n).
Notation RBR := (run_exp_test_br W run_line for_words set_var eoe n).
Notation XL d := (exp_loop W run_line eoe (RIF d) (RFOR d) (RWH d)).
Notation SB := (sem_block W run_line for_words set_var e n).
Notation SS := (sem_stmt W run_line for_words set_var e n).
Notation SA := (sem_arms W run_line for_words set_var e n).

Lemma run_exp_S d t il w : RE (S d) t il w = XL d il (t_kids t) w []. Proof. reflexivity. Qed.
Lemma run_exp_if_S d t il w : RIF (S d) t il w = if_loop W (RBR d) il (t_kids t) w [] false false. Proof. reflexivity. Qed.
Lemma run_exp_test_br_S d t il w : RBR (S d) t il w = br_loop W run_line (RE d) il (t_kids t) w false. Proof. reflexivity. Qed.
Lemma run_exp_for_S d t w : RFOR (S d) t w = for_loop W for_words set_var eoe (RE d) (t_kids t) w [] [] []. Proof. reflexivity. Qed.
Lemma run_exp_while_S d t w : RWH (S d) t w = while_iter W eoe (RBR d) t n w []. Proof. reflexivity. Qed.

Definition prepend (acc : list Z) (o : outcome W) : outcome W :=
  match o with
  | Done w crs c b => Done w (acc ++ crs) c b
  | x => x
  end.

Lemma prepend_nil o : prepend [] o = o.
Proof. destruct o; reflexivity. Qed.

Lemma prepend_app a b o : prepend a (prepend b o) = prepend (a ++ b) o.
Proof. destruct o; cbn; [rewrite app_assoc|..]; reflexivity. Qed.

(** the accumulator of run_exp's loop is only ever extended (as long as it does not already ask to exit) *)
Lemma exp_loop_acc rif rfor rwh in_loop pairs : forall w acc,
  e && last_is_nonzero acc = false ->
  exp_loop W run_line eoe rif rfor rwh in_loop pairs w acc =
  prepend acc (exp_loop W run_line eoe rif rfor rwh in_loop pairs w []).
Proof.
  induction pairs as [|p rest IH]; intros w acc Hacc; cbn [exp_loop].
  - cbn. rewrite app_nil_r. reflexivity.
  - destruct (is_empty (t_txt p)); [apply IH, Hacc|].
    destruct (t_rule p =? L_CMD).
    { destruct (str_eqb (t_txt p) kw_continue).
      { destruct in_loop; [cbn; rewrite app_nil_r; reflexivity | apply IH, Hacc]. }
      destruct (str_eqb (t_txt p) kw_break).
      { destruct in_loop; [cbn; rewrite app_nil_r; reflexivity | apply IH, Hacc]. }
      destruct (run_line w (t_txt p)) as [w1 crs].
      rewrite flag. rewrite !(andb_comm _ e). rewrite (stop_app e acc crs Hacc). cbn [app].
      destruct (e && last_is_nonzero crs) eqn:St; [reflexivity|].
      rewrite (IH w1 (acc ++ crs)) by (rewrite stop_app; assumption).
      rewrite (IH w1 crs St). rewrite prepend_app. reflexivity. }
    destruct (t_rule p =? L_EXP_IF).
    { destruct (rif p in_loop w) as [w1 crs c b| |]; [|reflexivity|reflexivity].
      unfold exit_requested. rewrite flag, (stop_app e acc crs Hacc). cbn [app].
      destruct (e && last_is_nonzero crs) eqn:St; [reflexivity|].
      destruct c; [reflexivity|]. destruct b; [reflexivity|].
      rewrite (IH w1 (acc ++ crs)) by (rewrite stop_app; assumption).
      rewrite (IH w1 crs St), prepend_app. reflexivity. }
    destruct (t_rule p =? L_EXP_FOR).
    { destruct (rfor p w) as [w1 crs c b| |]; [|reflexivity|reflexivity].
      unfold exit_requested. rewrite flag, (stop_app e acc crs Hacc). cbn [app].
      destruct (e && last_is_nonzero crs) eqn:St; [reflexivity|].
      rewrite (IH w1 (acc ++ crs)) by (rewrite stop_app; assumption).
      rewrite (IH w1 crs St), prepend_app. reflexivity. }
    destruct (t_rule p =? L_EXP_WHILE).
    { destruct (rwh p w) as [w1 crs c b| |]; [|reflexivity|reflexivity].
      unfold exit_requested. rewrite flag, (stop_app e acc crs Hacc). cbn [app].
      destruct (e && last_is_nonzero crs) eqn:St; [reflexivity|].
      rewrite (IH w1 (acc ++ crs)) by (rewrite stop_app; assumption).
      rewrite (IH w1 crs St), prepend_app. reflexivity. }
    apply IH, Hacc.
Qed.

Lemma nil_ok : e && last_is_nonzero [] = false.
Proof. apply andb_false_r. Qed.

(** for: the value loop is sem_each, given the body *)
Lemma for_values_sem rec body_t (body : W -> outcome W) var :
  (forall w, rec body_t true w = body w) ->
  forall vs w acc, e && last_is_nonzero acc = false ->
  for_values W set_var eoe rec body_t var vs w acc = prepend acc (sem_each W set_var e body var vs w).
Proof.
  intros Hb. induction vs as [|v vs IH]; intros w acc Hacc; cbn [for_values sem_each].
  - cbn. rewrite app_nil_r. reflexivity.
  - rewrite Hb. destruct (body (set_var w var v)) as [w1 crs c b| |]; [|reflexivity|reflexivity].
    unfold exit_requested, stops. rewrite flag, (stop_app e acc crs Hacc).
    destruct (b || e && last_is_nonzero crs) eqn:St; [reflexivity|].
    apply orb_false_iff in St as [_ St].
    rewrite IH by (rewrite stop_app; assumption).
    destruct (sem_each W set_var e body var vs w1); cbn; [rewrite app_assoc|..]; reflexivity.
Qed.

(** while: the iteration is sem_iter, given what one test-and-body round does *)
Lemma while_iter_sem rbr pw cond (body : W -> outcome W) :
  (forall w, rbr pw true w =
     let '(w1, crs) := run_line w cond in
     if last_is_zero crs then
       match body w1 with
       | Done w2 crs2 c b => DoneBr w2 crs2 true c b
       | Panic => PanicBr
       | OutOfFuel => OutOfFuelBr
       end
     else DoneBr w1 [] false false false) ->
  forall k w acc, e && last_is_nonzero acc = false ->
  while_iter W eoe rbr pw k w acc = prepend acc (sem_iter W run_line e cond body k w).
Proof.
  intros Hb. induction k as [|k IH]; intros w acc Hacc; cbn [while_iter sem_iter]; [reflexivity|].
  rewrite Hb. destruct (run_line w cond) as [w1 crs].
  destruct (last_is_zero crs).
  - destruct (body w1) as [w2 crs2 c b| |]; [|reflexivity|reflexivity].
    cbn [negb orb]. unfold exit_requested, stops. rewrite flag, (stop_app e acc crs2 Hacc).
    destruct (b || e && last_is_nonzero crs2) eqn:St; [reflexivity|].
    apply orb_false_iff in St as [_ St].
    rewrite IH by (rewrite stop_app; assumption).
    destruct (sem_iter W run_line e cond body k w2); cbn; [rewrite app_assoc|..]; reflexivity.
  - cbn. rewrite app_nil_r. reflexivity.
Qed.

(** one branch node (head with a TEST, then the body) *)
Lemma br_head_body rec in_loop hr htxt cond btxt bkids w :
  ((hr =? L_IF_HEAD) || (hr =? L_IF_ELSEIF_HEAD) || (hr =? L_WHILE_HEAD)) = true ->
  br_loop W run_line rec in_loop
    [TNode hr htxt [TNode L_TEST cond []]; TNode L_EXP_BODY btxt bkids] w false =
  let '(w1, crs) := run_line w cond in
  if last_is_zero crs then
    match rec (TNode L_EXP_BODY btxt bkids) in_loop w1 with
    | Done w2 crs2 c b => DoneBr w2 crs2 true c b
    | Panic => PanicBr
    | OutOfFuel => OutOfFuelBr
    end
  else DoneBr w1 [] false false false.
Proof.
  intros Hr. cbn [br_loop t_rule t_kids t_txt]. rewrite Hr.
  destruct (run_line w cond) as [w1 crs].
  destruct (last_is_zero crs); reflexivity.
Qed.

Definition P_block (b : block) : Prop :=
  wf_block b = true -> forall d in_loop w, (depth_block b <= S d)%nat ->
  XL d in_loop (kids_of_block b) w [] = SB b in_loop w.

Definition P_stmt (s : stmt) : Prop :=
  wf_stmt s = true -> forall d in_loop w rest, (depth_stmt s <= S d)%nat ->
  XL d in_loop (tree_of_stmt s :: rest) w [] =
  then_ W e (SS s in_loop w) (fun w1 => XL d in_loop rest w1 []).

Definition P_arms (a : arms) : Prop :=
  wf_arms a = true -> forall d in_loop w acc, (depth_arms a <= d)%nat ->
  if_loop W (RBR (S d)) in_loop (nodes_of_arms a) w acc false false =
  prepend acc (SA a in_loop w).

Lemma run_exp_body d b in_loop w :
  P_block b -> wf_block b = true -> (depth_block b <= d)%nat ->
  RE d (body_node (kids_of_block b) b) in_loop w = SB b in_loop w.
Proof.
  intros HP Hwf Hd. destruct d as [|d]; [pose proof (depth_block_pos b); lia|].
  rewrite run_exp_S. unfold body_node. cbn [t_kids]. apply HP; assumption.
Qed.

Lemma interp_all : (forall b, P_block b) /\ (forall s, P_stmt s) /\ (forall a, P_arms a).
Proof.
  apply ast_mutind; unfold P_block, P_stmt, P_arms.
  - (* BNil *) intros _ d in_loop w _. reflexivity.
  - (* BCons *) intros s IHs r IHr Hwf d in_loop w Hd.
    rewrite wf_block_cons in Hwf. apply andb_prop in Hwf as [Hs Hr].
    rewrite depth_block_cons in Hd. rewrite kids_cons, sem_block_cons.
    rewrite (IHs Hs d in_loop w (kids_of_block r)) by lia.
    unfold then_. destruct (SS s in_loop w) as [w1 crs c b| |]; [|reflexivity|reflexivity].
    destruct (stops e crs); [reflexivity|].
    destruct c; [reflexivity|]. destruct b; [reflexivity|].
    rewrite (IHr Hr d in_loop w1) by lia. reflexivity.
  - (* SCmd *) intros ind line Hwf d in_loop w rest _.
    cbn [wf_stmt] in Hwf. unfold wf_line in Hwf.
    apply andb_prop in Hwf as [Hwf H3]. apply andb_prop in Hwf as [H1 H2].
    apply negb_true_iff in H1, H2, H3.
    cbn [tree_of_stmt core_stmt exp_loop t_txt t_rule sem_stmt].
    rewrite H1, H2, H3. rewrite N.eqb_refl.
    destruct (run_line w line) as [w1 crs]. rewrite flag, andb_comm.
    cbn [app then_]. unfold stops. destruct (e && last_is_nonzero crs) eqn:St; [reflexivity|].
    rewrite exp_loop_acc by exact St. destruct (XL d in_loop rest w1 []); reflexivity.
  - (* SBlank *) intros ws _ d in_loop w rest _.
    cbn [tree_of_stmt core_stmt exp_loop t_txt is_empty sem_stmt then_].
    unfold stops. rewrite nil_ok.
    destruct (XL d in_loop rest w []); reflexivity.
  - (* SBreak *) intros ind _ d in_loop w rest _.
    cbn [tree_of_stmt core_stmt exp_loop t_txt t_rule sem_stmt].
    change (is_empty kw_break) with false. change (str_eqb kw_break kw_continue) with false.
    change (str_eqb kw_break kw_break) with true. rewrite N.eqb_refl. cbn match.
    destruct in_loop; cbn [then_]; unfold stops; rewrite nil_ok; [reflexivity|].
    destruct (XL d false rest w []); reflexivity.
  - (* SCont *) intros ind _ d in_loop w rest _.
    cbn [tree_of_stmt core_stmt exp_loop t_txt t_rule sem_stmt].
    change (is_empty kw_continue) with false. change (str_eqb kw_continue kw_continue) with true.
    rewrite N.eqb_refl. cbn match.
    destruct in_loop; cbn [then_]; unfold stops; rewrite nil_ok; [reflexivity|].
    destruct (XL d false rest w []); reflexivity.
  - (* SIf *) intros ind sp cond body IHb rest0 IHa Hwf d in_loop w rest Hd.
    rewrite wf_stmt_if in Hwf. apply andb_prop in Hwf as [Hb Ha].
    rewrite depth_stmt_if in Hd.
    pose proof (depth_block_pos body) as Hpos.
    destruct d as [|[|[|d]]]; try lia.
    rewrite tree_if, sem_if.
    cbn [exp_loop t_txt t_rule]. rewrite core_if_nonempty.
    change (L_EXP_IF =? L_CMD) with false. change (L_EXP_IF =? L_EXP_IF) with true. cbn match.
    rewrite run_exp_if_S. cbn [t_kids if_loop]. rewrite run_exp_test_br_S. cbn [t_kids].
    unfold body_node at 1.
    rewrite br_head_body by reflexivity.
    destruct (run_line w cond) as [w1 crs].
    destruct (last_is_zero crs).
    + change (TNode L_EXP_BODY (trim (render_block body)) (kids_of_block body)) with (body_node (kids_of_block body) body).
      rewrite (run_exp_body (S d) body in_loop w1 IHb Hb) by lia.
      unfold then_. destruct (SB body in_loop w1) as [w2 crs2 c b| |]; [|reflexivity|reflexivity].
      cbn [app]. unfold exit_requested, stops. rewrite flag.
      destruct (e && last_is_nonzero crs2) eqn:St; [reflexivity|].
      destruct c; [reflexivity|]. destruct b; [reflexivity|].
      rewrite exp_loop_acc by exact St. destruct (XL (S (S (S d))) in_loop rest w2 []); reflexivity.
    + cbn [app]. rewrite (IHa Ha (S d) in_loop w1 []) by lia. rewrite prepend_nil.
      unfold then_. destruct (SA rest0 in_loop w1) as [w2 crs2 c b| |]; [|reflexivity|reflexivity].
      cbn [app]. unfold exit_requested, stops. rewrite flag.
      destruct (e && last_is_nonzero crs2) eqn:St; [reflexivity|].
      destruct c; [reflexivity|]. destruct b; [reflexivity|].
      rewrite exp_loop_acc by exact St. destruct (XL (S (S (S d))) in_loop rest w2 []); reflexivity.
  - (* SFor *) intros ind sp var words body IHb Hwf d in_loop w rest Hd.
    rewrite wf_stmt_for in Hwf. rewrite depth_stmt_for in Hd.
    pose proof (depth_block_pos body) as Hpos.
    destruct d as [|[|d]]; try lia.
    rewrite tree_for, sem_for.
    cbn [exp_loop t_txt t_rule]. rewrite core_for_nonempty.
    change (L_EXP_FOR =? L_CMD) with false. change (L_EXP_FOR =? L_EXP_IF) with false.
    change (L_EXP_FOR =? L_EXP_FOR) with true. cbn match.
    rewrite run_exp_for_S. cbn [t_kids for_loop t_rule].
    change (L_FOR_HEAD =? L_FOR_HEAD) with true. cbn match.
    cbn [get_for_var_name_kids get_for_result_list_kids t_rule t_kids].
    change (L_FOR_INIT =? L_FOR_INIT) with true. cbn match.
    cbn [find_for_var get_for_result_from_init t_rule t_txt].
    change (L_FOR_VAR =? L_FOR_VAR) with true. change (L_FOR_VAR =? L_TEST) with false.
    change (L_TEST =? L_TEST) with true. cbn match.
    destruct (for_words w words) as [w1 vs]. cbn [app].
    rewrite !t_rule_body_node.
    change (L_EXP_BODY =? L_FOR_HEAD) with false. change (L_EXP_BODY =? L_EXP_BODY) with true. cbn match.
    rewrite (for_values_sem (RE (S d)) _ (SB body true) var).
    2:{ intro w'. apply (run_exp_body (S d) body true w' IHb Hwf). lia. }
    2:{ apply nil_ok. }
    rewrite prepend_nil.
    unfold then_.
    destruct (sem_each W set_var e (SB body true) var vs w1) as [w2 crs2 c b| |] eqn:E; [|reflexivity|reflexivity].
    destruct (sem_each_flags W set_var e _ _ _ _ _ _ _ _ E) as [-> ->].
    unfold exit_requested, stops. rewrite flag. cbn [app].
    destruct (e && last_is_nonzero crs2) eqn:St; [reflexivity|].
    rewrite exp_loop_acc by exact St. destruct (XL (S (S d)) in_loop rest w2 []); reflexivity.
  - (* SWhile *) intros ind sp cond body IHb Hwf d in_loop w rest Hd.
    rewrite wf_stmt_while in Hwf. rewrite depth_stmt_while in Hd.
    pose proof (depth_block_pos body) as Hpos.
    destruct d as [|[|[|d]]]; try lia.
    rewrite tree_while, sem_while.
    cbn [exp_loop t_txt t_rule]. rewrite core_while_nonempty.
    change (L_EXP_WHILE =? L_CMD) with false. change (L_EXP_WHILE =? L_EXP_IF) with false.
    change (L_EXP_WHILE =? L_EXP_FOR) with false. change (L_EXP_WHILE =? L_EXP_WHILE) with true. cbn match.
    rewrite run_exp_while_S.
    rewrite (while_iter_sem (RBR (S (S d))) _ cond (SB body true)).
    2:{ intro w'. rewrite run_exp_test_br_S. cbn [t_kids]. unfold body_node at 1.
        rewrite br_head_body by reflexivity.
        destruct (run_line w' cond) as [w1 crs]. destruct (last_is_zero crs); [|reflexivity].
        change (TNode L_EXP_BODY (trim (render_block body)) (kids_of_block body)) with (body_node (kids_of_block body) body).
        rewrite (run_exp_body (S d) body true w1 IHb Hwf) by lia. reflexivity. }
    2:{ apply nil_ok. }
    rewrite prepend_nil. unfold then_.
    destruct (sem_iter W run_line e cond (SB body true) n w) as [w2 crs2 c b| |] eqn:E; [|reflexivity|reflexivity].
    destruct (sem_iter_flags W run_line e _ _ _ _ _ _ _ _ E) as [-> ->].
    unfold exit_requested, stops. rewrite flag. cbn [app].
    destruct (e && last_is_nonzero crs2) eqn:St; [reflexivity|].
    rewrite exp_loop_acc by exact St. destruct (XL (S (S (S d))) in_loop rest w2 []); reflexivity.
  - (* ANone *) intros ind _ d in_loop w acc _. cbn. rewrite app_nil_r. reflexivity.
  - (* AElse *) intros ind body IHb ind_fi Hwf d in_loop w acc Hd.
    rewrite wf_arms_else in Hwf. rewrite depth_arms_else in Hd.
    rewrite nodes_else, sem_else.
    cbn [if_loop]. rewrite run_exp_test_br_S. cbn [t_kids br_loop t_rule].
    change ((L_KW_ELSE =? L_IF_HEAD) || (L_KW_ELSE =? L_IF_ELSEIF_HEAD) || (L_KW_ELSE =? L_WHILE_HEAD)) with false.
    change (L_KW_ELSE =? L_KW_ELSE) with true. cbn match.
    rewrite !t_rule_body_node.
    change ((L_EXP_BODY =? L_IF_HEAD) || (L_EXP_BODY =? L_IF_ELSEIF_HEAD) || (L_EXP_BODY =? L_WHILE_HEAD)) with false.
    change (L_EXP_BODY =? L_KW_ELSE) with false. change (L_EXP_BODY =? L_EXP_BODY) with true. cbn match.
    rewrite (run_exp_body d body in_loop w IHb Hwf) by lia.
    destruct (SB body in_loop w); reflexivity.
  - (* AElif *) intros ind sp cond body IHb rest IHa Hwf d in_loop w acc Hd.
    rewrite wf_arms_elif in Hwf. apply andb_prop in Hwf as [Hb Ha]. rewrite depth_arms_elif in Hd.
    rewrite nodes_elif, sem_elif.
    cbn [if_loop]. rewrite run_exp_test_br_S. cbn [t_kids].
    unfold body_node at 1. rewrite br_head_body by reflexivity.
    destruct (run_line w cond) as [w1 crs].
    destruct (last_is_zero crs).
    + change (TNode L_EXP_BODY (trim (render_block body)) (kids_of_block body)) with (body_node (kids_of_block body) body).
      rewrite (run_exp_body d body in_loop w1 IHb Hb) by lia.
      destruct (SB body in_loop w1); reflexivity.
    + rewrite app_nil_r. apply IHa; [assumption|lia].
Qed.

(** C14_interp *)
Theorem run_exp_sem : forall b, wf_block b = true ->
  forall d in_loop w r txt, (depth_block b < d)%nat ->
  RE d (TNode r txt (kids_of_block b)) in_loop w = SB b in_loop w.
Proof.
  intros b Hwf d in_loop w r txt Hd. destruct d as [|d]; [lia|].
  rewrite run_exp_S. cbn [t_kids]. apply (proj1 interp_all b Hwf). lia.
Qed.

End Interp.
