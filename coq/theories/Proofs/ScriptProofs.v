(** C14: the transcribed interpreter of scripting.rs, run on the ideal pair
    tree of a script, is the structured semantics. *)
From Cicada Require Import Base.Chars Base.Peg Gen.LocustGrammar Model.Script Model.ScriptAst.
From Coq Require Import ZArith Lia.
Local Open Scope N_scope.

Scheme block_mut := Induction for block Sort Prop
with stmt_mut := Induction for stmt Sort Prop
with arms_mut := Induction for arms Sort Prop.
Combined Scheme ast_mutind from block_mut, stmt_mut, arms_mut.

Lemma depth_block_pos b : (1 <= depth_block b)%nat.
Proof. destruct b as [|s r]; cbn [depth_block]; [lia|]. destruct s; cbn [depth_stmt]; lia. Qed.


(** trim_cmd coincides with trim unless the trimmed text ends in a backslash *)
Lemma trim_cmd_is_trim s : count_bs (rev (trim s)) = 0%nat -> trim_cmd s = trim s.
Proof.
  intro H. unfold trim_cmd. change (trim_end (trim_start s)) with (trim s). rewrite H.
  destruct (Nat.ltb (length (trim s)) (length (trim_start s))); reflexivity.
Qed.

(** last status of an extended list *)
Lemma last_status_cons a l : l <> [] -> last_status (a :: l) = last_status l.
Proof. destruct l; [congruence|reflexivity]. Qed.

Lemma last_status_app acc crs : crs <> [] -> last_status (acc ++ crs) = last_status crs.
Proof.
  intro H. induction acc as [|a acc IH]; [reflexivity|].
  cbn [app]. rewrite last_status_cons; [exact IH|].
  destruct acc; cbn; [exact H|discriminate].
Qed.

Lemma last_nz_app acc crs : last_is_nonzero acc = false ->
  last_is_nonzero (acc ++ crs) = last_is_nonzero crs.
Proof.
  intro H. destruct crs as [|c crs]; [rewrite app_nil_r; exact H|].
  unfold last_is_nonzero. rewrite last_status_app by discriminate. reflexivity.
Qed.

Lemma stop_app (e : bool) acc crs : e && last_is_nonzero acc = false ->
  e && last_is_nonzero (acc ++ crs) = e && last_is_nonzero crs.
Proof. destruct e; cbn; [apply last_nz_app | reflexivity]. Qed.

(** unfolding equations of the mutual definitions (all by computation) *)
Lemma wf_block_cons s r : wf_block (BCons s r) = wf_stmt s && wf_block r. Proof. reflexivity. Qed.
Lemma wf_stmt_if i sp c b a : wf_stmt (SIf i sp c b a) = wf_block b && wf_arms a. Proof. reflexivity. Qed.
Lemma wf_stmt_for i sp v ws b : wf_stmt (SFor i sp v ws b) = wf_block b. Proof. reflexivity. Qed.
Lemma wf_stmt_while i sp c b : wf_stmt (SWhile i sp c b) = wf_block b. Proof. reflexivity. Qed.
Lemma wf_arms_else i b j : wf_arms (AElse i b j) = wf_block b. Proof. reflexivity. Qed.
Lemma wf_arms_elif i sp c b a : wf_arms (AElif i sp c b a) = wf_block b && wf_arms a. Proof. reflexivity. Qed.
Lemma depth_block_cons s r : depth_block (BCons s r) = Nat.max (depth_stmt s) (depth_block r). Proof. reflexivity. Qed.
Lemma depth_stmt_if i sp c b a : depth_stmt (SIf i sp c b a) = (3 + Nat.max (depth_block b) (depth_arms a))%nat. Proof. reflexivity. Qed.
Lemma depth_stmt_for i sp v ws b : depth_stmt (SFor i sp v ws b) = (3 + depth_block b)%nat. Proof. reflexivity. Qed.
Lemma depth_stmt_while i sp c b : depth_stmt (SWhile i sp c b) = (3 + depth_block b)%nat. Proof. reflexivity. Qed.
Lemma depth_arms_else i b j : depth_arms (AElse i b j) = depth_block b. Proof. reflexivity. Qed.
Lemma depth_arms_elif i sp c b a : depth_arms (AElif i sp c b a) = Nat.max (depth_block b) (depth_arms a). Proof. reflexivity. Qed.
Lemma kids_cons s r : kids_of_block (BCons s r) = tree_of_stmt s :: kids_of_block r. Proof. reflexivity. Qed.
Lemma tree_if i sp cond body rest :
  tree_of_stmt (SIf i sp cond body rest) =
  TNode L_EXP_IF (core_stmt (SIf i sp cond body rest))
    (TNode L_IF_IF_BR (trim (s_if ++ cond ++ s_then sp ++ render_block body))
       [TNode L_IF_HEAD (trim (s_if ++ cond ++ s_then sp)) [TNode L_TEST cond []];
        body_node (kids_of_block body) body] :: nodes_of_arms rest).
Proof. reflexivity. Qed.
Lemma tree_for i sp var words body :
  tree_of_stmt (SFor i sp var words body) =
  TNode L_EXP_FOR (core_stmt (SFor i sp var words body))
    [TNode L_FOR_HEAD (trim (s_for ++ var ++ s_in ++ words ++ s_do sp))
       [TNode L_FOR_INIT (trim (var ++ s_in ++ words ++ s_do sp))
          [TNode L_FOR_VAR var []; TNode L_TEST words []]];
     body_node (kids_of_block body) body].
Proof. reflexivity. Qed.
Lemma tree_while i sp cond body :
  tree_of_stmt (SWhile i sp cond body) =
  TNode L_EXP_WHILE (core_stmt (SWhile i sp cond body))
    [TNode L_WHILE_HEAD (trim (s_while ++ cond ++ s_do sp)) [TNode L_TEST cond []];
     body_node (kids_of_block body) body].
Proof. reflexivity. Qed.
Lemma nodes_else i body j :
  nodes_of_arms (AElse i body j) =
  [TNode L_IF_ELSE_BR (trim (s_else ++ nl ++ render_block body))
     [TNode L_KW_ELSE s_else []; body_node (kids_of_block body) body]].
Proof. reflexivity. Qed.
Lemma nodes_elif i sp cond body rest :
  nodes_of_arms (AElif i sp cond body rest) =
  TNode L_IF_ELSEIF_BR (trim (s_elseif ++ cond ++ s_then sp ++ render_block body))
    [TNode L_IF_ELSEIF_HEAD (trim (s_elseif ++ cond ++ s_then sp)) [TNode L_TEST cond []];
     body_node (kids_of_block body) body] :: nodes_of_arms rest.
Proof. reflexivity. Qed.
Lemma t_rule_body_node k b : t_rule (body_node k b) = L_EXP_BODY. Proof. reflexivity. Qed.
Lemma core_if_nonempty i sp c b a : is_empty (core_stmt (SIf i sp c b a)) = false. Proof. reflexivity. Qed.
Lemma core_for_nonempty i sp v ws b : is_empty (core_stmt (SFor i sp v ws b)) = false. Proof. reflexivity. Qed.
Lemma core_while_nonempty i sp c b : is_empty (core_stmt (SWhile i sp c b)) = false. Proof. reflexivity. Qed.

Section SemEq.
Variable W : Type.
Variable run_line : W -> str -> W * list Z.
Variable for_words : W -> str -> W * list str.
Variable set_var : W -> str -> str -> W.
Variable e : bool.
Variable n : nat.
Notation SB := (sem_block W run_line for_words set_var e n).
Notation SS := (sem_stmt W run_line for_words set_var e n).
Notation SA := (sem_arms W run_line for_words set_var e n).
Lemma sem_block_cons s r il w : SB (BCons s r) il w = then_ W e (SS s il w) (SB r il). Proof. reflexivity. Qed.
Lemma sem_if i sp cond body rest il w :
  SS (SIf i sp cond body rest) il w =
  let '(w1, crs) := run_line w cond in if last_is_zero crs then SB body il w1 else SA rest il w1.
Proof. reflexivity. Qed.
Lemma sem_for i sp var words body il w :
  SS (SFor i sp var words body) il w =
  let '(w1, vs) := for_words w words in sem_each W set_var e (SB body true) var vs w1.
Proof. reflexivity. Qed.
Lemma sem_while i sp cond body il w :
  SS (SWhile i sp cond body) il w = sem_iter W run_line e cond (SB body true) n w.
Proof. reflexivity. Qed.
Lemma sem_else i body j il w : SA (AElse i body j) il w = SB body il w. Proof. reflexivity. Qed.
Lemma sem_elif i sp cond body rest il w :
  SA (AElif i sp cond body rest) il w =
  let '(w1, crs) := run_line w cond in if last_is_zero crs then SB body il w1 else SA rest il w1.
Proof. reflexivity. Qed.
Lemma sem_each_flags (body : W -> outcome W) var vs : forall w w2 crs2 c b,
  sem_each W set_var e body var vs w = Done w2 crs2 c b -> c = false /\ b = false.
Proof.
  induction vs as [|v vs IH]; intros w w2 crs2 c b E; cbn [sem_each] in E.
  - injection E as _ _ <- <-. split; reflexivity.
  - destruct (body (set_var w var v)) as [w3 crs3 c3 b3| |]; try discriminate.
    destruct (b3 || stops e crs3).
    + injection E as _ _ <- <-. split; reflexivity.
    + destruct (sem_each W set_var e body var vs w3) as [w4 crs4 c4 b4| |] eqn:E4; try discriminate.
      injection E as _ _ <- <-. eapply IH; eassumption.
Qed.
Lemma sem_iter_flags cond (body : W -> outcome W) k : forall w w2 crs2 c b,
  sem_iter W run_line e cond body k w = Done w2 crs2 c b -> c = false /\ b = false.
Proof.
  induction k as [|k IH]; intros w w2 crs2 c b E; cbn [sem_iter] in E; [discriminate|].
  destruct (run_line w cond) as [w1 crs]. cbn beta iota match in E.
  destruct (last_is_zero crs).
  - destruct (body w1) as [w3 crs3 c3 b3| |]; cbn beta iota match in E; try discriminate.
    destruct (b3 || stops e crs3).
    + injection E as _ _ <- <-. split; reflexivity.
    + destruct (sem_iter W run_line e cond body k w3) as [w4 crs4 c4 b4| |] eqn:E4; try discriminate.
      injection E as _ _ <- <-. eapply IH; eassumption.
  - injection E as _ _ <- <-. split; reflexivity.
Qed.
End SemEq.

(** ---- a property of the state preserved by every oracle step is preserved by the whole family ---- *)
Section Pres.
Variable W : Type.
Variable run_line : W -> str -> W * list Z.
Variable for_words : W -> str -> W * list str.
Variable set_var : W -> str -> str -> W.
Variable eoe : W -> bool.
Variable n : nat.
Variable P : W -> Prop.
Hypothesis Hrl : forall w l, P w -> P (fst (run_line w l)).
Hypothesis Hfw : forall w t, P w -> P (fst (for_words w t)).
Hypothesis Hsv : forall w k v, P w -> P (set_var w k v).

Definition okW (o : outcome W) : Prop := match o with Done w _ _ _ => P w | _ => True end.
Definition okBr (o : outcome_br W) : Prop := match o with DoneBr w _ _ _ _ => P w | _ => True end.

Ltac ifs := repeat match goal with |- context [if ?c then _ else _] => destruct c end.

Lemma exp_loop_pres rif rfor rwh :
  (forall t il w, P w -> okW (rif t il w)) -> (forall t w, P w -> okW (rfor t w)) -> (forall t w, P w -> okW (rwh t w)) ->
  forall pairs il w acc, P w -> okW (exp_loop W run_line eoe rif rfor rwh il pairs w acc).
Proof.
  intros H1 H2 H3. induction pairs as [|p r IH]; intros il w acc Hw; cbn [exp_loop]; [exact Hw|].
  destruct (is_empty (t_txt p)); [apply IH, Hw|].
  destruct (t_rule p =? L_CMD).
  { destruct (str_eqb (t_txt p) kw_continue); [destruct il; [exact Hw | apply IH, Hw]|].
    destruct (str_eqb (t_txt p) kw_break); [destruct il; [exact Hw | apply IH, Hw]|].
    pose proof (Hrl w (t_txt p) Hw) as Hk. destruct (run_line w (t_txt p)) as [w1 crs]. cbn [fst] in Hk.
    ifs; [exact Hk | apply IH, Hk]. }
  destruct (t_rule p =? L_EXP_IF).
  { pose proof (H1 p il w Hw) as Hk. destruct (rif p il w) as [w1 crs c b| |]; try exact I. cbn [okW] in Hk.
    ifs; try exact Hk. apply IH, Hk. }
  destruct (t_rule p =? L_EXP_FOR).
  { pose proof (H2 p w Hw) as Hk. destruct (rfor p w) as [w1 crs c b| |]; try exact I. cbn [okW] in Hk.
    ifs; try exact Hk. apply IH, Hk. }
  destruct (t_rule p =? L_EXP_WHILE).
  { pose proof (H3 p w Hw) as Hk. destruct (rwh p w) as [w1 crs c b| |]; try exact I. cbn [okW] in Hk.
    ifs; try exact Hk. apply IH, Hk. }
  apply IH, Hw.
Qed.

Lemma br_loop_pres rexp : (forall t il w, P w -> okW (rexp t il w)) ->
  forall pairs il w tp, P w -> okBr (br_loop W run_line rexp il pairs w tp).
Proof.
  intros H1. induction pairs as [|p r IH]; intros il w tp Hw; cbn [br_loop]; [exact Hw|].
  destruct ((t_rule p =? L_IF_HEAD) || (t_rule p =? L_IF_ELSEIF_HEAD) || (t_rule p =? L_WHILE_HEAD)).
  { destruct (t_kids p) as [|pt ?]; [exact I|].
    pose proof (Hrl w (t_txt pt) Hw) as Hk. destruct (run_line w (t_txt pt)) as [w1 crs]. cbn [fst] in Hk. apply IH, Hk. }
  destruct (t_rule p =? L_KW_ELSE); [apply IH, Hw|].
  destruct (t_rule p =? L_EXP_BODY); [|exact I].
  destruct (negb tp); [exact Hw|].
  pose proof (H1 p il w Hw) as Hk. destruct (rexp p il w); try exact I. exact Hk.
Qed.

Lemma if_loop_pres rbr : (forall t il w, P w -> okBr (rbr t il w)) ->
  forall pairs il w acc c b, P w -> okW (if_loop W rbr il pairs w acc c b).
Proof.
  intros H1. induction pairs as [|p r IH]; intros il w acc c b Hw; cbn [if_loop]; [exact Hw|].
  pose proof (H1 p il w Hw) as Hk. destruct (rbr p il w) as [w1 crs ps c1 b1| |]; try exact I. cbn [okBr] in Hk.
  destruct ps; [exact Hk | apply IH, Hk].
Qed.

Lemma for_values_pres rexp body var : (forall t il w, P w -> okW (rexp t il w)) ->
  forall vs w acc, P w -> okW (for_values W set_var eoe rexp body var vs w acc).
Proof.
  intros H1. induction vs as [|v vs IH]; intros w acc Hw; cbn [for_values]; [exact Hw|].
  pose proof (H1 body true (set_var w var v) (Hsv w var v Hw)) as Hk.
  destruct (rexp body true (set_var w var v)) as [w1 crs c b| |]; try exact I. cbn [okW] in Hk.
  ifs; [exact Hk | apply IH, Hk].
Qed.

Lemma for_init_pres : forall kids w acc, P w -> P (fst (get_for_result_from_init W for_words w kids acc)).
Proof.
  induction kids as [|p r IH]; intros w acc Hw; cbn [get_for_result_from_init]; [exact Hw|].
  destruct (t_rule p =? L_TEST); [|apply IH, Hw].
  pose proof (Hfw w (t_txt p) Hw) as Hk. destruct (for_words w (t_txt p)) as [w1 ws]. apply IH, Hk.
Qed.

Lemma for_list_pres : forall kids w, P w -> P (fst (get_for_result_list_kids W for_words w kids)).
Proof.
  induction kids as [|p r IH]; intros w Hw; cbn [get_for_result_list_kids]; [exact Hw|].
  destruct (t_rule p =? L_FOR_INIT); [apply for_init_pres, Hw | apply IH, Hw].
Qed.

Lemma for_loop_pres rexp : (forall t il w, P w -> okW (rexp t il w)) ->
  forall pairs w acc var rl, P w -> okW (for_loop W for_words set_var eoe rexp pairs w acc var rl).
Proof.
  intros H1. induction pairs as [|p r IH]; intros w acc var rl Hw; cbn [for_loop]; [exact Hw|].
  destruct (t_rule p =? L_FOR_HEAD).
  { pose proof (for_list_pres (t_kids p) w Hw) as Hk.
    destruct (get_for_result_list_kids W for_words w (t_kids p)) as [w1 rl1]. apply IH, Hk. }
  destruct (t_rule p =? L_EXP_BODY); [|apply IH, Hw].
  pose proof (for_values_pres rexp p var H1 rl w acc Hw) as Hk.
  destruct (for_values W set_var eoe rexp p var rl w acc) as [w1 crs c b| |]; try exact I. apply IH, Hk.
Qed.

Lemma while_iter_pres rbr pw : (forall t il w, P w -> okBr (rbr t il w)) ->
  forall k w acc, P w -> okW (while_iter W eoe rbr pw k w acc).
Proof.
  intros H1. induction k as [|k IH]; intros w acc Hw; cbn [while_iter]; [exact I|].
  pose proof (H1 pw true w Hw) as Hk. destruct (rbr pw true w) as [w1 crs ps c b| |]; try exact I. cbn [okBr] in Hk.
  ifs; [exact Hk | apply IH, Hk].
Qed.

Notation RE := (run_exp W run_line for_words set_var eoe n).
Notation RIF := (run_exp_if W run_line for_words set_var eoe n).
Notation RFOR := (run_exp_for W run_line for_words set_var eoe n).
Notation RWH := (run_exp_while W run_line for_words set_var eoe n).
Notation RBR := (run_exp_test_br W run_line for_words set_var eoe n).

Lemma family_pres : forall d,
  (forall t il w, P w -> okW (RE d t il w)) /\ (forall t il w, P w -> okW (RIF d t il w)) /\
  (forall t w, P w -> okW (RFOR d t w)) /\ (forall t w, P w -> okW (RWH d t w)) /\
  (forall t il w, P w -> okBr (RBR d t il w)).
Proof.
  induction d as [|d [I1 [I2 [I3 [I4 I5]]]]].
  - repeat split; intros; exact I.
  - repeat split.
    + intros t il w Hw. apply (exp_loop_pres (RIF d) (RFOR d) (RWH d) I2 I3 I4), Hw.
    + intros t il w Hw. apply (if_loop_pres (RBR d) I5), Hw.
    + intros t w Hw. apply (for_loop_pres (RE d) I1), Hw.
    + intros t w Hw. apply (while_iter_pres (RBR d) t I5), Hw.
    + intros t il w Hw. apply (br_loop_pres (RE d) I1), Hw.
Qed.

Lemma run_pairs_pres d : forall pairs w acc, P w -> okW (run_pairs W run_line for_words set_var eoe n d pairs w acc).
Proof.
  induction pairs as [|p r IH]; intros w acc Hw; cbn [run_pairs]; [exact Hw|].
  pose proof (proj1 (family_pres d) p false w Hw) as Hk.
  destruct (RE d p false w) as [w1 crs c b| |]; try exact I. apply IH, Hk.
Qed.

Lemma run_lines_pres text w : P w ->
  match run_lines W run_line for_words set_var eoe n text w with Some o => okW o | None => True end.
Proof.
  intro Hw. unfold run_lines. destruct (parse_from l_grammar L_EXP text); try exact I. apply run_pairs_pres, Hw.
Qed.
End Pres.

Section Interp.
Variable W : Type.
Variable run_line : W -> str -> W * list Z.
Variable for_words : W -> str -> W * list str.
Variable set_var : W -> str -> str -> W.
Variable eoe : W -> bool.
Variable e : bool.
Variable n : nat.
Hypothesis flag : forall w, eoe w = e.

Notation RE := (run_exp W run_line for_words set_var eoe n).
Notation RIF := (run_exp_if W run_line for_words set_var eoe n).
Notation RFOR := (run_exp_for W run_line for_words set_var eoe n).
Notation RWH := (run_exp_while W run_line for_words set_var eoe n).
Notation RBR := (run_exp_test_br W run_line for_words set_var eoe n).
Notation XL d := (exp_loop W run_line eoe (RIF d) (RFOR d) (RWH d)).
Notation SB := (sem_block W run_line for_words set_var e n).
Notation SS := (sem_stmt W run_line for_words set_var e n).
Notation SA := (sem_arms W run_line for_words set_var e n).

Lemma run_exp_S d t il w : RE (S d) t il w = XL d il (t_kids t) w []. Proof. reflexivity. Qed.
Lemma run_exp_if_S d t il w : RIF (S d) t il w = if_loop W (RBR d) il (t_kids t) w [] false false. Proof. reflexivity. Qed.
Lemma run_exp_test_br_S d t il w : RBR (S d) t il w = br_loop W run_line (RE d) il (t_kids t) w false. Proof. reflexivity. Qed.
Lemma run_exp_for_S d t w : RFOR (S d) t w = for_loop W for_words set_var eoe (RE d) (t_kids t) w [] [] []. Proof. reflexivity. Qed.
Lemma run_exp_while_S d t w : RWH (S d) t w = while_iter W eoe (RBR d) t n w []. Proof. reflexivity. Qed.

Definition prepend (acc : list Z) (o : outcome W) : outcome W :=
  match o with
  | Done w crs c b => Done w (acc ++ crs) c b
  | x => x
  end.

Lemma prepend_nil o : prepend [] o = o.
Proof. destruct o; reflexivity. Qed.

Lemma prepend_app a b o : prepend a (prepend b o) = prepend (a ++ b) o.
Proof. destruct o; cbn; [rewrite app_assoc|..]; reflexivity. Qed.

(** the accumulator of run_exp's loop is only ever extended (as long as it does not already ask to exit) *)
Lemma exp_loop_acc rif rfor rwh in_loop pairs : forall w acc,
  e && last_is_nonzero acc = false ->
  exp_loop W run_line eoe rif rfor rwh in_loop pairs w acc =
  prepend acc (exp_loop W run_line eoe rif rfor rwh in_loop pairs w []).
Proof.
  induction pairs as [|p rest IH]; intros w acc Hacc; cbn [exp_loop].
  - cbn. rewrite app_nil_r. reflexivity.
  - destruct (is_empty (t_txt p)); [apply IH, Hacc|].
    destruct (t_rule p =? L_CMD).
    { destruct (str_eqb (t_txt p) kw_continue).
      { destruct in_loop; [cbn; rewrite app_nil_r; reflexivity | apply IH, Hacc]. }
      destruct (str_eqb (t_txt p) kw_break).
      { destruct in_loop; [cbn; rewrite app_nil_r; reflexivity | apply IH, Hacc]. }
      destruct (run_line w (t_txt p)) as [w1 crs].
      rewrite flag. rewrite !(andb_comm _ e). rewrite (stop_app e acc crs Hacc). cbn [app].
      destruct (e && last_is_nonzero crs) eqn:St; [reflexivity|].
      rewrite (IH w1 (acc ++ crs)) by (rewrite stop_app; assumption).
      rewrite (IH w1 crs St). rewrite prepend_app. reflexivity. }
    destruct (t_rule p =? L_EXP_IF).
    { destruct (rif p in_loop w) as [w1 crs c b| |]; [|reflexivity|reflexivity].
      unfold exit_requested. rewrite flag, (stop_app e acc crs Hacc). cbn [app].
      destruct (e && last_is_nonzero crs) eqn:St; [reflexivity|].
      destruct c; [reflexivity|]. destruct b; [reflexivity|].
      rewrite (IH w1 (acc ++ crs)) by (rewrite stop_app; assumption).
      rewrite (IH w1 crs St), prepend_app. reflexivity. }
    destruct (t_rule p =? L_EXP_FOR).
    { destruct (rfor p w) as [w1 crs c b| |]; [|reflexivity|reflexivity].
      unfold exit_requested. rewrite flag, (stop_app e acc crs Hacc). cbn [app].
      destruct (e && last_is_nonzero crs) eqn:St; [reflexivity|].
      rewrite (IH w1 (acc ++ crs)) by (rewrite stop_app; assumption).
      rewrite (IH w1 crs St), prepend_app. reflexivity. }
    destruct (t_rule p =? L_EXP_WHILE).
    { destruct (rwh p w) as [w1 crs c b| |]; [|reflexivity|reflexivity].
      unfold exit_requested. rewrite flag, (stop_app e acc crs Hacc). cbn [app].
      destruct (e && last_is_nonzero crs) eqn:St; [reflexivity|].
      rewrite (IH w1 (acc ++ crs)) by (rewrite stop_app; assumption).
      rewrite (IH w1 crs St), prepend_app. reflexivity. }
    apply IH, Hacc.
Qed.

Lemma nil_ok : e && last_is_nonzero [] = false.
Proof. apply andb_false_r. Qed.

(** for: the value loop is sem_each, given the body *)
Lemma for_values_sem rec body_t (body : W -> outcome W) var :
  (forall w, rec body_t true w = body w) ->
  forall vs w acc, e && last_is_nonzero acc = false ->
  for_values W set_var eoe rec body_t var vs w acc = prepend acc (sem_each W set_var e body var vs w).
Proof.
  intros Hb. induction vs as [|v vs IH]; intros w acc Hacc; cbn [for_values sem_each].
  - cbn. rewrite app_nil_r. reflexivity.
  - rewrite Hb. destruct (body (set_var w var v)) as [w1 crs c b| |]; [|reflexivity|reflexivity].
    unfold exit_requested, stops. rewrite flag, (stop_app e acc crs Hacc).
    destruct (b || e && last_is_nonzero crs) eqn:St; [reflexivity|].
    apply orb_false_iff in St as [_ St].
    rewrite IH by (rewrite stop_app; assumption).
    destruct (sem_each W set_var e body var vs w1); cbn; [rewrite app_assoc|..]; reflexivity.
Qed.

(** while: the iteration is sem_iter, given what one test-and-body round does *)
Lemma while_iter_sem rbr pw cond (body : W -> outcome W) :
  (forall w, rbr pw true w =
     let '(w1, crs) := run_line w cond in
     if last_is_zero crs then
       match body w1 with
       | Done w2 crs2 c b => DoneBr w2 crs2 true c b
       | Panic => PanicBr
       | OutOfFuel => OutOfFuelBr
       end
     else DoneBr w1 [] false false false) ->
  forall k w acc, e && last_is_nonzero acc = false ->
  while_iter W eoe rbr pw k w acc = prepend acc (sem_iter W run_line e cond body k w).
Proof.
  intros Hb. induction k as [|k IH]; intros w acc Hacc; cbn [while_iter sem_iter]; [reflexivity|].
  rewrite Hb. destruct (run_line w cond) as [w1 crs].
  destruct (last_is_zero crs).
  - destruct (body w1) as [w2 crs2 c b| |]; [|reflexivity|reflexivity].
    cbn [negb orb]. unfold exit_requested, stops. rewrite flag, (stop_app e acc crs2 Hacc).
    destruct (b || e && last_is_nonzero crs2) eqn:St; [reflexivity|].
    apply orb_false_iff in St as [_ St].
    rewrite IH by (rewrite stop_app; assumption).
    destruct (sem_iter W run_line e cond body k w2); cbn; [rewrite app_assoc|..]; reflexivity.
  - cbn. rewrite app_nil_r. reflexivity.
Qed.

(** one branch node (head with a TEST, then the body) *)
Lemma br_head_body rec in_loop hr htxt cond btxt bkids w :
  ((hr =? L_IF_HEAD) || (hr =? L_IF_ELSEIF_HEAD) || (hr =? L_WHILE_HEAD)) = true ->
  br_loop W run_line rec in_loop
    [TNode hr htxt [TNode L_TEST cond []]; TNode L_EXP_BODY btxt bkids] w false =
  let '(w1, crs) := run_line w cond in
  if last_is_zero crs then
    match rec (TNode L_EXP_BODY btxt bkids) in_loop w1 with
    | Done w2 crs2 c b => DoneBr w2 crs2 true c b
    | Panic => PanicBr
    | OutOfFuel => OutOfFuelBr
    end
  else DoneBr w1 [] false false false.
Proof.
  intros Hr. cbn [br_loop t_rule t_kids t_txt]. rewrite Hr.
  destruct (run_line w cond) as [w1 crs].
  destruct (last_is_zero crs); reflexivity.
Qed.

Definition P_block (b : block) : Prop :=
  wf_block b = true -> forall d in_loop w, (depth_block b <= S d)%nat ->
  XL d in_loop (kids_of_block b) w [] = SB b in_loop w.

Definition P_stmt (s : stmt) : Prop :=
  wf_stmt s = true -> forall d in_loop w rest, (depth_stmt s <= S d)%nat ->
  XL d in_loop (tree_of_stmt s :: rest) w [] =
  then_ W e (SS s in_loop w) (fun w1 => XL d in_loop rest w1 []).

Definition P_arms (a : arms) : Prop :=
  wf_arms a = true -> forall d in_loop w acc, (depth_arms a <= d)%nat ->
  if_loop W (RBR (S d)) in_loop (nodes_of_arms a) w acc false false =
  prepend acc (SA a in_loop w).

Lemma run_exp_body d b in_loop w :
  P_block b -> wf_block b = true -> (depth_block b <= d)%nat ->
  RE d (body_node (kids_of_block b) b) in_loop w = SB b in_loop w.
Proof.
  intros HP Hwf Hd. destruct d as [|d]; [pose proof (depth_block_pos b); lia|].
  rewrite run_exp_S. unfold body_node. cbn [t_kids]. apply HP; assumption.
Qed.

Lemma interp_all : (forall b, P_block b) /\ (forall s, P_stmt s) /\ (forall a, P_arms a).
Proof.
  apply ast_mutind; unfold P_block, P_stmt, P_arms.
  - (* BNil *) intros _ d in_loop w _. reflexivity.
  - (* BCons *) intros s IHs r IHr Hwf d in_loop w Hd.
    rewrite wf_block_cons in Hwf. apply andb_prop in Hwf as [Hs Hr].
    rewrite depth_block_cons in Hd. rewrite kids_cons, sem_block_cons.
    rewrite (IHs Hs d in_loop w (kids_of_block r)) by lia.
    unfold then_. destruct (SS s in_loop w) as [w1 crs c b| |]; [|reflexivity|reflexivity].
    destruct (stops e crs); [reflexivity|].
    destruct c; [reflexivity|]. destruct b; [reflexivity|].
    rewrite (IHr Hr d in_loop w1) by lia. reflexivity.
  - (* SCmd *) intros ind line Hwf d in_loop w rest _.
    cbn [wf_stmt] in Hwf. unfold wf_line in Hwf.
    apply andb_prop in Hwf as [Hwf H3]. apply andb_prop in Hwf as [H1 H2].
    apply negb_true_iff in H1, H2, H3.
    cbn [tree_of_stmt core_stmt exp_loop t_txt t_rule sem_stmt].
    rewrite H1, H2, H3. rewrite N.eqb_refl.
    destruct (run_line w line) as [w1 crs]. rewrite flag, andb_comm.
    cbn [app then_]. unfold stops. destruct (e && last_is_nonzero crs) eqn:St; [reflexivity|].
    rewrite exp_loop_acc by exact St. destruct (XL d in_loop rest w1 []); reflexivity.
  - (* SBlank *) intros ws _ d in_loop w rest _.
    cbn [tree_of_stmt core_stmt exp_loop t_txt is_empty sem_stmt then_].
    unfold stops. rewrite nil_ok.
    destruct (XL d in_loop rest w []); reflexivity.
  - (* SBreak *) intros ind _ d in_loop w rest _.
    cbn [tree_of_stmt core_stmt exp_loop t_txt t_rule sem_stmt].
    change (is_empty kw_break) with false. change (str_eqb kw_break kw_continue) with false.
    change (str_eqb kw_break kw_break) with true. rewrite N.eqb_refl. cbn match.
    destruct in_loop; cbn [then_]; unfold stops; rewrite nil_ok; [reflexivity|].
    destruct (XL d false rest w []); reflexivity.
  - (* SCont *) intros ind _ d in_loop w rest _.
    cbn [tree_of_stmt core_stmt exp_loop t_txt t_rule sem_stmt].
    change (is_empty kw_continue) with false. change (str_eqb kw_continue kw_continue) with true.
    rewrite N.eqb_refl. cbn match.
    destruct in_loop; cbn [then_]; unfold stops; rewrite nil_ok; [reflexivity|].
    destruct (XL d false rest w []); reflexivity.
  - (* SIf *) intros ind sp cond body IHb rest0 IHa Hwf d in_loop w rest Hd.
    rewrite wf_stmt_if in Hwf. apply andb_prop in Hwf as [Hb Ha].
    rewrite depth_stmt_if in Hd.
    pose proof (depth_block_pos body) as Hpos.
    destruct d as [|[|[|d]]]; try lia.
    rewrite tree_if, sem_if.
    cbn [exp_loop t_txt t_rule]. rewrite core_if_nonempty.
    change (L_EXP_IF =? L_CMD) with false. change (L_EXP_IF =? L_EXP_IF) with true. cbn match.
    rewrite run_exp_if_S. cbn [t_kids if_loop]. rewrite run_exp_test_br_S. cbn [t_kids].
    unfold body_node at 1.
    rewrite br_head_body by reflexivity.
    destruct (run_line w cond) as [w1 crs].
    destruct (last_is_zero crs).
    + change (TNode L_EXP_BODY (trim (render_block body)) (kids_of_block body)) with (body_node (kids_of_block body) body).
      rewrite (run_exp_body (S d) body in_loop w1 IHb Hb) by lia.
      unfold then_. destruct (SB body in_loop w1) as [w2 crs2 c b| |]; [|reflexivity|reflexivity].
      cbn [app]. unfold exit_requested, stops. rewrite flag.
      destruct (e && last_is_nonzero crs2) eqn:St; [reflexivity|].
      destruct c; [reflexivity|]. destruct b; [reflexivity|].
      rewrite exp_loop_acc by exact St. destruct (XL (S (S (S d))) in_loop rest w2 []); reflexivity.
    + cbn [app]. rewrite (IHa Ha (S d) in_loop w1 []) by lia. rewrite prepend_nil.
      unfold then_. destruct (SA rest0 in_loop w1) as [w2 crs2 c b| |]; [|reflexivity|reflexivity].
      cbn [app]. unfold exit_requested, stops. rewrite flag.
      destruct (e && last_is_nonzero crs2) eqn:St; [reflexivity|].
      destruct c; [reflexivity|]. destruct b; [reflexivity|].
      rewrite exp_loop_acc by exact St. destruct (XL (S (S (S d))) in_loop rest w2 []); reflexivity.
  - (* SFor *) intros ind sp var words body IHb Hwf d in_loop w rest Hd.
    rewrite wf_stmt_for in Hwf. rewrite depth_stmt_for in Hd.
    pose proof (depth_block_pos body) as Hpos.
    destruct d as [|[|d]]; try lia.
    rewrite tree_for, sem_for.
    cbn [exp_loop t_txt t_rule]. rewrite core_for_nonempty.
    change (L_EXP_FOR =? L_CMD) with false. change (L_EXP_FOR =? L_EXP_IF) with false.
    change (L_EXP_FOR =? L_EXP_FOR) with true. cbn match.
    rewrite run_exp_for_S. cbn [t_kids for_loop t_rule].
    change (L_FOR_HEAD =? L_FOR_HEAD) with true. cbn match.
    cbn [get_for_var_name_kids get_for_result_list_kids t_rule t_kids].
    change (L_FOR_INIT =? L_FOR_INIT) with true. cbn match.
    cbn [find_for_var get_for_result_from_init t_rule t_txt].
    change (L_FOR_VAR =? L_FOR_VAR) with true. change (L_FOR_VAR =? L_TEST) with false.
    change (L_TEST =? L_TEST) with true. cbn match.
    destruct (for_words w words) as [w1 vs]. cbn [app].
    rewrite !t_rule_body_node.
    change (L_EXP_BODY =? L_FOR_HEAD) with false. change (L_EXP_BODY =? L_EXP_BODY) with true. cbn match.
    rewrite (for_values_sem (RE (S d)) _ (SB body true) var).
    2:{ intro w'. apply (run_exp_body (S d) body true w' IHb Hwf). lia. }
    2:{ apply nil_ok. }
    rewrite prepend_nil.
    unfold then_.
    destruct (sem_each W set_var e (SB body true) var vs w1) as [w2 crs2 c b| |] eqn:E; [|reflexivity|reflexivity].
    destruct (sem_each_flags W set_var e _ _ _ _ _ _ _ _ E) as [-> ->].
    unfold exit_requested, stops. rewrite flag. cbn [app].
    destruct (e && last_is_nonzero crs2) eqn:St; [reflexivity|].
    rewrite exp_loop_acc by exact St. destruct (XL (S (S d)) in_loop rest w2 []); reflexivity.
  - (* SWhile *) intros ind sp cond body IHb Hwf d in_loop w rest Hd.
    rewrite wf_stmt_while in Hwf. rewrite depth_stmt_while in Hd.
    pose proof (depth_block_pos body) as Hpos.
    destruct d as [|[|[|d]]]; try lia.
    rewrite tree_while, sem_while.
    cbn [exp_loop t_txt t_rule]. rewrite core_while_nonempty.
    change (L_EXP_WHILE =? L_CMD) with false. change (L_EXP_WHILE =? L_EXP_IF) with false.
    change (L_EXP_WHILE =? L_EXP_FOR) with false. change (L_EXP_WHILE =? L_EXP_WHILE) with true. cbn match.
    rewrite run_exp_while_S.
    rewrite (while_iter_sem (RBR (S (S d))) _ cond (SB body true)).
    2:{ intro w'. rewrite run_exp_test_br_S. cbn [t_kids]. unfold body_node at 1.
        rewrite br_head_body by reflexivity.
        destruct (run_line w' cond) as [w1 crs]. destruct (last_is_zero crs); [|reflexivity].
        change (TNode L_EXP_BODY (trim (render_block body)) (kids_of_block body)) with (body_node (kids_of_block body) body).
        rewrite (run_exp_body (S d) body true w1 IHb Hwf) by lia. reflexivity. }
    2:{ apply nil_ok. }
    rewrite prepend_nil. unfold then_.
    destruct (sem_iter W run_line e cond (SB body true) n w) as [w2 crs2 c b| |] eqn:E; [|reflexivity|reflexivity].
    destruct (sem_iter_flags W run_line e _ _ _ _ _ _ _ _ E) as [-> ->].
    unfold exit_requested, stops. rewrite flag. cbn [app].
    destruct (e && last_is_nonzero crs2) eqn:St; [reflexivity|].
    rewrite exp_loop_acc by exact St. destruct (XL (S (S (S d))) in_loop rest w2 []); reflexivity.
  - (* ANone *) intros ind _ d in_loop w acc _. cbn. rewrite app_nil_r. reflexivity.
  - (* AElse *) intros ind body IHb ind_fi Hwf d in_loop w acc Hd.
    rewrite wf_arms_else in Hwf. rewrite depth_arms_else in Hd.
    rewrite nodes_else, sem_else.
    cbn [if_loop]. rewrite run_exp_test_br_S. cbn [t_kids br_loop t_rule].
    change ((L_KW_ELSE =? L_IF_HEAD) || (L_KW_ELSE =? L_IF_ELSEIF_HEAD) || (L_KW_ELSE =? L_WHILE_HEAD)) with false.
    change (L_KW_ELSE =? L_KW_ELSE) with true. cbn match.
    rewrite !t_rule_body_node.
    change ((L_EXP_BODY =? L_IF_HEAD) || (L_EXP_BODY =? L_IF_ELSEIF_HEAD) || (L_EXP_BODY =? L_WHILE_HEAD)) with false.
    change (L_EXP_BODY =? L_KW_ELSE) with false. change (L_EXP_BODY =? L_EXP_BODY) with true. cbn match.
    rewrite (run_exp_body d body in_loop w IHb Hwf) by lia.
    destruct (SB body in_loop w); reflexivity.
  - (* AElif *) intros ind sp cond body IHb rest IHa Hwf d in_loop w acc Hd.
    rewrite wf_arms_elif in Hwf. apply andb_prop in Hwf as [Hb Ha]. rewrite depth_arms_elif in Hd.
    rewrite nodes_elif, sem_elif.
    cbn [if_loop]. rewrite run_exp_test_br_S. cbn [t_kids].
    unfold body_node at 1. rewrite br_head_body by reflexivity.
    destruct (run_line w cond) as [w1 crs].
    destruct (last_is_zero crs).
    + change (TNode L_EXP_BODY (trim (render_block body)) (kids_of_block body)) with (body_node (kids_of_block body) body).
      rewrite (run_exp_body d body in_loop w1 IHb Hb) by lia.
      destruct (SB body in_loop w1); reflexivity.
    + rewrite app_nil_r. apply IHa; [assumption|lia].
Qed.

(** C14_interp *)
Theorem run_exp_sem : forall b, wf_block b = true ->
  forall d in_loop w r txt, (depth_block b < d)%nat ->
  RE d (TNode r txt (kids_of_block b)) in_loop w = SB b in_loop w.
Proof.
  intros b Hwf d in_loop w r txt Hd. destruct d as [|d]; [lia|].
  rewrite run_exp_S. cbn [t_kids]. apply (proj1 interp_all b Hwf). lia.
Qed.

End Interp.

Section InterpInv.
Variable W : Type.
Variable run_line : W -> str -> W * list Z.
Variable for_words : W -> str -> W * list str.
Variable set_var : W -> str -> str -> W.
Variable eoe : W -> bool.
Variable e : bool.
Variable n : nat.
Variable Inv : W -> Prop.
Hypothesis Irl : forall w l, Inv w -> Inv (fst (run_line w l)).
Hypothesis Ifw : forall w t, Inv w -> Inv (fst (for_words w t)).
Hypothesis Isv : forall w k v, Inv w -> Inv (set_var w k v).
Hypothesis flag : forall w, Inv w -> eoe w = e.
Notation OKW := (okW W Inv).
Notation OKB := (okBr W Inv).

Notation RE := (run_exp W run_line for_words set_var eoe n).
Notation RIF := (run_exp_if W run_line for_words set_var eoe n).
Notation RFOR := (run_exp_for W run_line for_words set_var eoe n).
Notation RWH := (run_exp_while W run_line for_words set_var eoe n).
Notation RBR := (run_exp_test_br W run_line for_words set_var eoe n).
Notation XL d := (exp_loop W run_line eoe (RIF d) (RFOR d) (RWH d)).
Notation SB := (sem_block W run_line for_words set_var e n).
Notation SS := (sem_stmt W run_line for_words set_var e n).
Notation SA := (sem_arms W run_line for_words set_var e n).

Lemma run_exp_S_i d t il w : RE (S d) t il w = XL d il (t_kids t) w []. Proof. reflexivity. Qed.
Lemma run_exp_if_S_i d t il w : RIF (S d) t il w = if_loop W (RBR d) il (t_kids t) w [] false false. Proof. reflexivity. Qed.
Lemma run_exp_test_br_S_i d t il w : RBR (S d) t il w = br_loop W run_line (RE d) il (t_kids t) w false. Proof. reflexivity. Qed.
Lemma run_exp_for_S_i d t w : RFOR (S d) t w = for_loop W for_words set_var eoe (RE d) (t_kids t) w [] [] []. Proof. reflexivity. Qed.
Lemma run_exp_while_S_i d t w : RWH (S d) t w = while_iter W eoe (RBR d) t n w []. Proof. reflexivity. Qed.

Definition prepend_i (acc : list Z) (o : outcome W) : outcome W :=
  match o with
  | Done w crs c b => Done w (acc ++ crs) c b
  | x => x
  end.

Lemma prepend_nil_i o : prepend_i [] o = o.
Proof. destruct o; reflexivity. Qed.

Lemma prepend_app_i a b o : prepend_i a (prepend_i b o) = prepend_i (a ++ b) o.
Proof. destruct o; cbn; [rewrite app_assoc|..]; reflexivity. Qed.

(** the accumulator of run_exp's loop is only ever extended (as long as it does not already ask to exit) *)
Lemma exp_loop_acc_i rif rfor rwh in_loop pairs :
  (forall t il w, Inv w -> OKW (rif t il w)) -> (forall t w, Inv w -> OKW (rfor t w)) -> (forall t w, Inv w -> OKW (rwh t w)) ->
  forall w acc, Inv w ->
  e && last_is_nonzero acc = false ->
  exp_loop W run_line eoe rif rfor rwh in_loop pairs w acc =
  prepend_i acc (exp_loop W run_line eoe rif rfor rwh in_loop pairs w []).
Proof.
  intros K1 K2 K3. induction pairs as [|p rest IH]; intros w acc Hw Hacc; cbn [exp_loop].
  - cbn. rewrite app_nil_r. reflexivity.
  - destruct (is_empty (t_txt p)); [apply IH; assumption|].
    destruct (t_rule p =? L_CMD).
    { destruct (str_eqb (t_txt p) kw_continue).
      { destruct in_loop; [cbn; rewrite app_nil_r; reflexivity | apply IH; assumption]. }
      destruct (str_eqb (t_txt p) kw_break).
      { destruct in_loop; [cbn; rewrite app_nil_r; reflexivity | apply IH; assumption]. }
      pose proof (Irl w (t_txt p) Hw) as Hk.
      destruct (run_line w (t_txt p)) as [w1 crs]. cbn [fst] in Hk.
      rewrite (flag w1 Hk). rewrite !(andb_comm _ e). rewrite (stop_app e acc crs Hacc). cbn [app].
      destruct (e && last_is_nonzero crs) eqn:St; [reflexivity|].
      rewrite (IH w1 (acc ++ crs) Hk) by (rewrite stop_app; assumption).
      rewrite (IH w1 crs Hk St). rewrite prepend_app_i. reflexivity. }
    destruct (t_rule p =? L_EXP_IF).
    { pose proof (K1 p in_loop w Hw) as Hk.
      destruct (rif p in_loop w) as [w1 crs c b| |]; [|reflexivity|reflexivity]. cbn [okW] in Hk.
      unfold exit_requested. rewrite (flag w1 Hk), (stop_app e acc crs Hacc). cbn [app].
      destruct (e && last_is_nonzero crs) eqn:St; [reflexivity|].
      destruct c; [reflexivity|]. destruct b; [reflexivity|].
      rewrite (IH w1 (acc ++ crs) Hk) by (rewrite stop_app; assumption).
      rewrite (IH w1 crs Hk St), prepend_app_i. reflexivity. }
    destruct (t_rule p =? L_EXP_FOR).
    { pose proof (K2 p w Hw) as Hk.
      destruct (rfor p w) as [w1 crs c b| |]; [|reflexivity|reflexivity]. cbn [okW] in Hk.
      unfold exit_requested. rewrite (flag w1 Hk), (stop_app e acc crs Hacc). cbn [app].
      destruct (e && last_is_nonzero crs) eqn:St; [reflexivity|].
      rewrite (IH w1 (acc ++ crs) Hk) by (rewrite stop_app; assumption).
      rewrite (IH w1 crs Hk St), prepend_app_i. reflexivity. }
    destruct (t_rule p =? L_EXP_WHILE).
    { pose proof (K3 p w Hw) as Hk.
      destruct (rwh p w) as [w1 crs c b| |]; [|reflexivity|reflexivity]. cbn [okW] in Hk.
      unfold exit_requested. rewrite (flag w1 Hk), (stop_app e acc crs Hacc). cbn [app].
      destruct (e && last_is_nonzero crs) eqn:St; [reflexivity|].
      rewrite (IH w1 (acc ++ crs) Hk) by (rewrite stop_app; assumption).
      rewrite (IH w1 crs Hk St), prepend_app_i. reflexivity. }
    apply IH; assumption.
Qed.

Lemma nil_ok_i : e && last_is_nonzero [] = false.
Proof. apply andb_false_r. Qed.

(** for: the value loop is sem_each, given the body *)
Lemma for_values_sem_i rec body_t (body : W -> outcome W) var :
  (forall t il w, Inv w -> OKW (rec t il w)) ->
  (forall w, Inv w -> rec body_t true w = body w) ->
  forall vs w acc, Inv w -> e && last_is_nonzero acc = false ->
  for_values W set_var eoe rec body_t var vs w acc = prepend_i acc (sem_each W set_var e body var vs w).
Proof.
  intros K Hb. induction vs as [|v vs IH]; intros w acc Hw Hacc; cbn [for_values sem_each].
  - cbn. rewrite app_nil_r. reflexivity.
  - pose proof (Isv w var v Hw) as Hv. pose proof (K body_t true _ Hv) as Hk.
    rewrite (Hb _ Hv) in *. destruct (body (set_var w var v)) as [w1 crs c b| |]; [|reflexivity|reflexivity].
    cbn [okW] in Hk.
    unfold exit_requested, stops. rewrite (flag w1 Hk), (stop_app e acc crs Hacc).
    destruct (b || e && last_is_nonzero crs) eqn:St; [reflexivity|].
    apply orb_false_iff in St as [_ St].
    rewrite (IH w1 (acc ++ crs) Hk) by (rewrite stop_app; assumption).
    destruct (sem_each W set_var e body var vs w1); cbn; [rewrite app_assoc|..]; reflexivity.
Qed.

(** while: the iteration is sem_iter, given what one test-and-body round does *)
Lemma while_iter_sem_i rbr pw cond (body : W -> outcome W) :
  (forall t il w, Inv w -> OKB (rbr t il w)) ->
  (forall w, Inv w -> rbr pw true w =
     let '(w1, crs) := run_line w cond in
     if last_is_zero crs then
       match body w1 with
       | Done w2 crs2 c b => DoneBr w2 crs2 true c b
       | Panic => PanicBr
       | OutOfFuel => OutOfFuelBr
       end
     else DoneBr w1 [] false false false) ->
  forall k w acc, Inv w -> e && last_is_nonzero acc = false ->
  while_iter W eoe rbr pw k w acc = prepend_i acc (sem_iter W run_line e cond body k w).
Proof.
  intros K Hb. induction k as [|k IH]; intros w acc Hw Hacc; cbn [while_iter sem_iter]; [reflexivity|].
  pose proof (K pw true w Hw) as Hk. rewrite (Hb w Hw) in *. destruct (run_line w cond) as [w1 crs].
  destruct (last_is_zero crs).
  - destruct (body w1) as [w2 crs2 c b| |]; [|reflexivity|reflexivity]. cbn [okBr] in Hk.
    cbn [negb orb]. unfold exit_requested, stops. rewrite (flag w2 Hk), (stop_app e acc crs2 Hacc).
    destruct (b || e && last_is_nonzero crs2) eqn:St; [reflexivity|].
    apply orb_false_iff in St as [_ St].
    rewrite (IH w2 (acc ++ crs2) Hk) by (rewrite stop_app; assumption).
    destruct (sem_iter W run_line e cond body k w2); cbn; [rewrite app_assoc|..]; reflexivity.
  - cbn. rewrite app_nil_r. reflexivity.
Qed.

(** one branch node (head with a TEST, then the body) *)
Lemma br_head_body_i rec in_loop hr htxt cond btxt bkids w :
  ((hr =? L_IF_HEAD) || (hr =? L_IF_ELSEIF_HEAD) || (hr =? L_WHILE_HEAD)) = true ->
  br_loop W run_line rec in_loop
    [TNode hr htxt [TNode L_TEST cond []]; TNode L_EXP_BODY btxt bkids] w false =
  let '(w1, crs) := run_line w cond in
  if last_is_zero crs then
    match rec (TNode L_EXP_BODY btxt bkids) in_loop w1 with
    | Done w2 crs2 c b => DoneBr w2 crs2 true c b
    | Panic => PanicBr
    | OutOfFuel => OutOfFuelBr
    end
  else DoneBr w1 [] false false false.
Proof.
  intros Hr. cbn [br_loop t_rule t_kids t_txt]. rewrite Hr.
  destruct (run_line w cond) as [w1 crs].
  destruct (last_is_zero crs); reflexivity.
Qed.

Definition P_block_i (b : block) : Prop :=
  wf_block b = true -> forall d in_loop w, (depth_block b <= S d)%nat -> Inv w ->
  XL d in_loop (kids_of_block b) w [] = SB b in_loop w.

Definition P_stmt_i (s : stmt) : Prop :=
  wf_stmt s = true -> forall d in_loop w rest, (depth_stmt s <= S d)%nat -> Inv w ->
  XL d in_loop (tree_of_stmt s :: rest) w [] =
  then_ W e (SS s in_loop w) (fun w1 => XL d in_loop rest w1 []).

Definition P_arms_i (a : arms) : Prop :=
  wf_arms a = true -> forall d in_loop w acc, (depth_arms a <= d)%nat -> Inv w ->
  if_loop W (RBR (S d)) in_loop (nodes_of_arms a) w acc false false =
  prepend_i acc (SA a in_loop w).

Notation FP := (family_pres W run_line for_words set_var eoe n Inv Irl Ifw Isv).
Lemma fp_exp d t il w : Inv w -> OKW (RE d t il w). Proof. apply (proj1 (FP d)). Qed.
Lemma fp_if d t il w : Inv w -> OKW (RIF d t il w). Proof. apply (proj1 (proj2 (FP d))). Qed.
Lemma fp_for d t w : Inv w -> OKW (RFOR d t w). Proof. apply (proj1 (proj2 (proj2 (FP d)))). Qed.
Lemma fp_wh d t w : Inv w -> OKW (RWH d t w). Proof. apply (proj1 (proj2 (proj2 (proj2 (FP d))))). Qed.
Lemma fp_br d t il w : Inv w -> OKB (RBR d t il w). Proof. apply (proj2 (proj2 (proj2 (proj2 (FP d))))). Qed.

Lemma xl_ok d il pairs w acc : Inv w -> OKW (XL d il pairs w acc).
Proof. intro Hw. apply (exp_loop_pres W run_line eoe Inv Irl (RIF d) (RFOR d) (RWH d) (fp_if d) (fp_for d) (fp_wh d)), Hw. Qed.

Lemma xl_acc d il pairs w acc : Inv w -> e && last_is_nonzero acc = false ->
  XL d il pairs w acc = prepend_i acc (XL d il pairs w []).
Proof. intros Hw Ha. apply (exp_loop_acc_i (RIF d) (RFOR d) (RWH d) il pairs (fp_if d) (fp_for d) (fp_wh d)); assumption. Qed.

Lemma run_exp_body_i d b in_loop w :
  P_block_i b -> wf_block b = true -> (depth_block b <= d)%nat -> Inv w ->
  RE d (body_node (kids_of_block b) b) in_loop w = SB b in_loop w.
Proof.
  intros HP Hwf Hd Hw. destruct d as [|d]; [pose proof (depth_block_pos b); lia|].
  rewrite run_exp_S_i. unfold body_node. cbn [t_kids]. apply HP; assumption.
Qed.

Lemma interp_all_i : (forall b, P_block_i b) /\ (forall s, P_stmt_i s) /\ (forall a, P_arms_i a).
Proof.
  apply ast_mutind; unfold P_block_i, P_stmt_i, P_arms_i.
  - (* BNil *) intros _ d in_loop w _ _. reflexivity.
  - (* BCons *) intros s IHs r IHr Hwf d in_loop w Hd Hw.
    rewrite wf_block_cons in Hwf. apply andb_prop in Hwf as [Hs Hr].
    rewrite depth_block_cons in Hd. rewrite kids_cons, sem_block_cons.
    pose proof (xl_ok d in_loop [tree_of_stmt s] w [] Hw) as Hk.
    rewrite (IHs Hs d in_loop w []) in Hk by (lia || assumption).
    rewrite (IHs Hs d in_loop w (kids_of_block r)) by (lia || assumption).
    unfold then_ in *. destruct (SS s in_loop w) as [w1 crs c b| |]; [|reflexivity|reflexivity].
    destruct (stops e crs); [reflexivity|].
    destruct c; [reflexivity|]. destruct b; [reflexivity|].
    cbn [exp_loop okW] in Hk.
    rewrite (IHr Hr d in_loop w1) by (lia || assumption). reflexivity.
  - (* SCmd *) intros ind line Hwf d in_loop w rest _ Hw.
    cbn [wf_stmt] in Hwf. unfold wf_line in Hwf.
    apply andb_prop in Hwf as [Hwf H3]. apply andb_prop in Hwf as [H1 H2].
    apply negb_true_iff in H1, H2, H3.
    cbn [tree_of_stmt core_stmt exp_loop t_txt t_rule sem_stmt].
    rewrite H1, H2, H3. rewrite N.eqb_refl.
    pose proof (Irl w line Hw) as Hk.
    destruct (run_line w line) as [w1 crs]. cbn [fst] in Hk. rewrite (flag w1 Hk), andb_comm.
    cbn [app then_]. unfold stops. destruct (e && last_is_nonzero crs) eqn:St; [reflexivity|].
    rewrite xl_acc by assumption. destruct (XL d in_loop rest w1 []); reflexivity.
  - (* SBlank *) intros ws _ d in_loop w rest _ _.
    cbn [tree_of_stmt core_stmt exp_loop t_txt is_empty sem_stmt then_].
    unfold stops. rewrite nil_ok_i.
    destruct (XL d in_loop rest w []); reflexivity.
  - (* SBreak *) intros ind _ d in_loop w rest _ _.
    cbn [tree_of_stmt core_stmt exp_loop t_txt t_rule sem_stmt].
    change (is_empty kw_break) with false. change (str_eqb kw_break kw_continue) with false.
    change (str_eqb kw_break kw_break) with true. rewrite N.eqb_refl. cbn match.
    destruct in_loop; cbn [then_]; unfold stops; rewrite nil_ok_i; [reflexivity|].
    destruct (XL d false rest w []); reflexivity.
  - (* SCont *) intros ind _ d in_loop w rest _ _.
    cbn [tree_of_stmt core_stmt exp_loop t_txt t_rule sem_stmt].
    change (is_empty kw_continue) with false. change (str_eqb kw_continue kw_continue) with true.
    rewrite N.eqb_refl. cbn match.
    destruct in_loop; cbn [then_]; unfold stops; rewrite nil_ok_i; [reflexivity|].
    destruct (XL d false rest w []); reflexivity.
  - (* SIf *) intros ind sp cond body IHb rest0 IHa Hwf d in_loop w rest Hd Hw.
    rewrite wf_stmt_if in Hwf. apply andb_prop in Hwf as [Hb Ha].
    rewrite depth_stmt_if in Hd.
    pose proof (depth_block_pos body) as Hpos.
    destruct d as [|[|[|d]]]; try lia.
    rewrite tree_if, sem_if.
    cbn [exp_loop t_txt t_rule]. rewrite core_if_nonempty.
    change (L_EXP_IF =? L_CMD) with false. change (L_EXP_IF =? L_EXP_IF) with true. cbn match.
    rewrite run_exp_if_S_i. cbn [t_kids if_loop]. rewrite run_exp_test_br_S_i. cbn [t_kids].
    unfold body_node at 1.
    rewrite br_head_body_i by reflexivity.
    pose proof (Irl w cond Hw) as Hk1.
    destruct (run_line w cond) as [w1 crs]. cbn [fst] in Hk1.
    destruct (last_is_zero crs).
    + change (TNode L_EXP_BODY (trim (render_block body)) (kids_of_block body)) with (body_node (kids_of_block body) body).
      pose proof (fp_exp (S d) (body_node (kids_of_block body) body) in_loop w1 Hk1) as Hk2.
      rewrite (run_exp_body_i (S d) body in_loop w1 IHb Hb) in * by (lia || assumption).
      unfold then_. destruct (SB body in_loop w1) as [w2 crs2 c b| |]; [|reflexivity|reflexivity].
      cbn [okW] in Hk2.
      cbn [app]. unfold exit_requested, stops. rewrite (flag w2 Hk2).
      destruct (e && last_is_nonzero crs2) eqn:St; [reflexivity|].
      destruct c; [reflexivity|]. destruct b; [reflexivity|].
      rewrite xl_acc by assumption. destruct (XL (S (S (S d))) in_loop rest w2 []); reflexivity.
    + cbn [app].
      pose proof (if_loop_pres W Inv (RBR (S (S d))) (fp_br (S (S d))) (nodes_of_arms rest0) in_loop w1 [] false false Hk1) as Hk2.
      rewrite (IHa Ha (S d) in_loop w1 []) in * by (lia || assumption). rewrite prepend_nil_i in *.
      unfold then_. destruct (SA rest0 in_loop w1) as [w2 crs2 c b| |]; [|reflexivity|reflexivity].
      cbn [okW] in Hk2.
      cbn [app]. unfold exit_requested, stops. rewrite (flag w2 Hk2).
      destruct (e && last_is_nonzero crs2) eqn:St; [reflexivity|].
      destruct c; [reflexivity|]. destruct b; [reflexivity|].
      rewrite xl_acc by assumption. destruct (XL (S (S (S d))) in_loop rest w2 []); reflexivity.
  - (* SFor *) intros ind sp var words body IHb Hwf d in_loop w rest Hd Hw.
    rewrite wf_stmt_for in Hwf. rewrite depth_stmt_for in Hd.
    pose proof (depth_block_pos body) as Hpos.
    destruct d as [|[|d]]; try lia.
    rewrite tree_for, sem_for.
    cbn [exp_loop t_txt t_rule]. rewrite core_for_nonempty.
    change (L_EXP_FOR =? L_CMD) with false. change (L_EXP_FOR =? L_EXP_IF) with false.
    change (L_EXP_FOR =? L_EXP_FOR) with true. cbn match.
    rewrite run_exp_for_S_i. cbn [t_kids for_loop t_rule].
    change (L_FOR_HEAD =? L_FOR_HEAD) with true. cbn match.
    cbn [get_for_var_name_kids get_for_result_list_kids t_rule t_kids].
    change (L_FOR_INIT =? L_FOR_INIT) with true. cbn match.
    cbn [find_for_var get_for_result_from_init t_rule t_txt].
    change (L_FOR_VAR =? L_FOR_VAR) with true. change (L_FOR_VAR =? L_TEST) with false.
    change (L_TEST =? L_TEST) with true. cbn match.
    pose proof (Ifw w words Hw) as Hk1.
    destruct (for_words w words) as [w1 vs]. cbn [fst] in Hk1. cbn [app].
    rewrite !t_rule_body_node.
    change (L_EXP_BODY =? L_FOR_HEAD) with false. change (L_EXP_BODY =? L_EXP_BODY) with true. cbn match.
    pose proof (for_values_pres W set_var eoe Inv Isv (RE (S d)) (body_node (kids_of_block body) body) var (fp_exp (S d)) vs w1 [] Hk1) as Hk2.
    rewrite (for_values_sem_i (RE (S d)) _ (SB body true) var (fp_exp (S d))) in *.
    2,3,5,6: try (intros w' Hw'; apply (run_exp_body_i (S d) body true w' IHb Hwf); (lia || assumption)).
    2,3,4,5: try assumption; try apply nil_ok_i.
    rewrite prepend_nil_i in *.
    unfold then_.
    destruct (sem_each W set_var e (SB body true) var vs w1) as [w2 crs2 c b| |] eqn:E; [|reflexivity|reflexivity].
    cbn [okW] in Hk2.
    destruct (sem_each_flags W set_var e _ _ _ _ _ _ _ _ E) as [-> ->].
    unfold exit_requested, stops. rewrite (flag w2 Hk2). cbn [app].
    destruct (e && last_is_nonzero crs2) eqn:St; [reflexivity|].
    rewrite xl_acc by assumption. destruct (XL (S (S d)) in_loop rest w2 []); reflexivity.
  - (* SWhile *) intros ind sp cond body IHb Hwf d in_loop w rest Hd Hw.
    rewrite wf_stmt_while in Hwf. rewrite depth_stmt_while in Hd.
    pose proof (depth_block_pos body) as Hpos.
    destruct d as [|[|[|d]]]; try lia.
    rewrite tree_while, sem_while.
    cbn [exp_loop t_txt t_rule]. rewrite core_while_nonempty.
    change (L_EXP_WHILE =? L_CMD) with false. change (L_EXP_WHILE =? L_EXP_IF) with false.
    change (L_EXP_WHILE =? L_EXP_FOR) with false. change (L_EXP_WHILE =? L_EXP_WHILE) with true. cbn match.
    rewrite run_exp_while_S_i.
    pose proof (while_iter_pres W eoe Inv (RBR (S (S d))) (TNode L_EXP_WHILE (core_stmt (SWhile ind sp cond body))
         [TNode L_WHILE_HEAD (trim (s_while ++ cond ++ s_do sp)) [TNode L_TEST cond []]; body_node (kids_of_block body) body])
         (fp_br (S (S d))) n w [] Hw) as Hk2.
    assert (Hround : forall w', Inv w' ->
       RBR (S (S d)) (TNode L_EXP_WHILE (core_stmt (SWhile ind sp cond body))
         [TNode L_WHILE_HEAD (trim (s_while ++ cond ++ s_do sp)) [TNode L_TEST cond []]; body_node (kids_of_block body) body]) true w' =
       let '(w1, crs) := run_line w' cond in
       if last_is_zero crs then
         match SB body true w1 with
         | Done w2 crs2 c b => DoneBr w2 crs2 true c b
         | Panic => PanicBr
         | OutOfFuel => OutOfFuelBr
         end
       else DoneBr w1 [] false false false).
    { intros w' Hw'. rewrite run_exp_test_br_S_i. cbn [t_kids]. unfold body_node at 1.
      rewrite br_head_body_i by reflexivity.
      pose proof (Irl w' cond Hw') as Hk1.
      destruct (run_line w' cond) as [w1 crs]. cbn [fst] in Hk1. destruct (last_is_zero crs); [|reflexivity].
      change (TNode L_EXP_BODY (trim (render_block body)) (kids_of_block body)) with (body_node (kids_of_block body) body).
      rewrite (run_exp_body_i (S d) body true w1 IHb Hwf) by (lia || assumption). reflexivity. }
    rewrite (while_iter_sem_i (RBR (S (S d))) _ cond (SB body true) (fp_br (S (S d))) Hround n w [] Hw nil_ok_i) in *.
    rewrite prepend_nil_i in *. unfold then_.
    destruct (sem_iter W run_line e cond (SB body true) n w) as [w2 crs2 c b| |] eqn:E; [|reflexivity|reflexivity].
    cbn [okW] in Hk2.
    destruct (sem_iter_flags W run_line e _ _ _ _ _ _ _ _ E) as [-> ->].
    unfold exit_requested, stops. rewrite (flag w2 Hk2). cbn [app].
    destruct (e && last_is_nonzero crs2) eqn:St; [reflexivity|].
    rewrite xl_acc by assumption. destruct (XL (S (S (S d))) in_loop rest w2 []); reflexivity.
  - (* ANone *) intros ind _ d in_loop w acc _ _. cbn. rewrite app_nil_r. reflexivity.
  - (* AElse *) intros ind body IHb ind_fi Hwf d in_loop w acc Hd Hw.
    rewrite wf_arms_else in Hwf. rewrite depth_arms_else in Hd.
    rewrite nodes_else, sem_else.
    cbn [if_loop]. rewrite run_exp_test_br_S_i. cbn [t_kids br_loop t_rule].
    change ((L_KW_ELSE =? L_IF_HEAD) || (L_KW_ELSE =? L_IF_ELSEIF_HEAD) || (L_KW_ELSE =? L_WHILE_HEAD)) with false.
    change (L_KW_ELSE =? L_KW_ELSE) with true. cbn match.
    rewrite !t_rule_body_node.
    change ((L_EXP_BODY =? L_IF_HEAD) || (L_EXP_BODY =? L_IF_ELSEIF_HEAD) || (L_EXP_BODY =? L_WHILE_HEAD)) with false.
    change (L_EXP_BODY =? L_KW_ELSE) with false. change (L_EXP_BODY =? L_EXP_BODY) with true. cbn match.
    rewrite (run_exp_body_i d body in_loop w IHb Hwf) by (lia || assumption).
    destruct (SB body in_loop w); reflexivity.
  - (* AElif *) intros ind sp cond body IHb rest IHa Hwf d in_loop w acc Hd Hw.
    rewrite wf_arms_elif in Hwf. apply andb_prop in Hwf as [Hb Ha]. rewrite depth_arms_elif in Hd.
    rewrite nodes_elif, sem_elif.
    cbn [if_loop]. rewrite run_exp_test_br_S_i. cbn [t_kids].
    unfold body_node at 1. rewrite br_head_body_i by reflexivity.
    pose proof (Irl w cond Hw) as Hk1.
    destruct (run_line w cond) as [w1 crs]. cbn [fst] in Hk1.
    destruct (last_is_zero crs).
    + change (TNode L_EXP_BODY (trim (render_block body)) (kids_of_block body)) with (body_node (kids_of_block body) body).
      rewrite (run_exp_body_i d body in_loop w1 IHb Hb) by (lia || assumption).
      destruct (SB body in_loop w1); reflexivity.
    + rewrite app_nil_r. apply IHa; [assumption|lia|assumption].
Qed.

(** C14_interp under an invariant of the state: if every oracle step preserves [Inv] and [Inv]
    fixes the value of exit_on_error, the interpreter on the ideal tree is the structured
    semantics from every state that satisfies [Inv]. *)
Theorem run_exp_sem_inv : forall b, wf_block b = true ->
  forall d in_loop w r txt, (depth_block b < d)%nat -> Inv w ->
  RE d (TNode r txt (kids_of_block b)) in_loop w = SB b in_loop w.
Proof.
  intros b Hwf d in_loop w r txt Hd Hw. destruct d as [|d]; [lia|].
  rewrite run_exp_S_i. cbn [t_kids]. apply (proj1 interp_all_i b Hwf); [lia | exact Hw].
Qed.

(** ... and from the middle of a body: the rest of the loop, started with the results so far
    (which do not already ask to exit), is the semantics of the remaining statements. *)
Theorem run_exp_sem_inv_mid : forall b, wf_block b = true ->
  forall d in_loop w acc, (depth_block b <= S d)%nat -> Inv w -> e && last_is_nonzero acc = false ->
  XL d in_loop (kids_of_block b) w acc = prepend_i acc (SB b in_loop w).
Proof.
  intros b Hwf d in_loop w acc Hd Hw Ha. rewrite xl_acc by assumption.
  rewrite (proj1 interp_all_i b Hwf d in_loop w Hd Hw). reflexivity.
Qed.

End InterpInv.

