(** run_script's continuation folding. With the proposed repair
    (fold_lines_fixed: escaped backslashes are put out of the way before the
    test and the two replace_all passes) a text in which every newline follows
    an EVEN number of backslashes is left unchanged, for all texts. *)
From Cicada Require Import Base.Chars Model.Rerender.
From Coq Require Import Lia.
Local Open Scope N_scope.

Lemma hide_cons_other (c : char) (r : str) : (c =? c_bs) = false -> hide_pairs (c :: r) = c :: hide_pairs r.
Proof. intros H. destruct r as [|d r']; [reflexivity|]. cbn [hide_pairs]. now rewrite H. Qed.

Lemma contains_cons_other (c : char) (s : str) : (c =? c_bs) = false -> contains_bsnl (c :: s) = contains_bsnl s.
Proof. intros H. destruct s as [|d r]; [reflexivity|]. cbn [contains_bsnl]. now rewrite H. Qed.

Lemma contains_bs_cons (d : char) (s : str) : (d =? c_nl) = false ->
  contains_bsnl ((c_bs : char) :: d :: s) = contains_bsnl (d :: s).
Proof. intros H. cbn [contains_bsnl]. rewrite H, andb_false_r. reflexivity. Qed.

Lemma no_cont_hidden n : forall t, (length t <= n)%nat -> nc false t = true ->
  contains_bsnl (hide_pairs t) = false.
Proof.
  induction n as [|n IH]; intros t Hl Hn.
  - destruct t; [reflexivity|cbn in Hl; lia].
  - destruct t as [|c t]; [reflexivity|].
    destruct (c =? c_bs) eqn:Ec.
    + apply N.eqb_eq in Ec. subst c. destruct t as [|d t]; [reflexivity|].
      cbn [nc] in Hn. change (c_bs =? c_bs) with true in Hn. cbn [negb] in Hn.
      destruct (d =? c_bs) eqn:Ed.
      * apply N.eqb_eq in Ed. subst d. cbn [nc] in Hn. change (c_bs =? c_bs) with true in Hn.
        cbn [negb] in Hn. cbn [hide_pairs]. change ((c_bs =? c_bs) && (c_bs =? c_bs)) with true. cbn iota.
        rewrite contains_cons_other by reflexivity. rewrite contains_cons_other by reflexivity.
        apply IH; [cbn in Hl; lia|exact Hn].
      * cbn [nc] in Hn; try rewrite Ed in Hn.
        destruct (d =? c_nl) eqn:En; [cbn in Hn; discriminate|].
        change (hide_pairs (c_bs :: d :: t)) with
          (if (c_bs =? c_bs) && (d =? c_bs) then 0 :: 0 :: hide_pairs t else c_bs :: hide_pairs (d :: t)).
        change (c_bs =? c_bs) with true. rewrite Ed. cbn [andb].
        rewrite (hide_cons_other d t Ed), (contains_bs_cons d _ En).
        rewrite <- (hide_cons_other d t Ed).
        apply IH; [cbn in Hl |- *; lia|]. cbn [nc]. now rewrite Ed, En.
    + rewrite (hide_cons_other c t Ec), (contains_cons_other c _ Ec).
      apply IH; [cbn in Hl; lia|]. cbn [nc] in Hn. rewrite Ec in Hn.
      destruct (c =? c_nl); [now apply andb_true_iff in Hn as [_ Hn]|exact Hn].
Qed.

Theorem fold_fixed_id t : no_cont t = true -> fold_lines_fixed t = t.
Proof.
  intros H. unfold fold_lines_fixed. now rewrite (no_cont_hidden (length t) t (le_n _) H).
Qed.
