(** run_script's continuation folding. With the proposed repair
    (fold_lines_fixed: one pass that joins only at a newline preceded by an odd
    number of backslashes) a text in which every newline follows an EVEN number
    of backslashes is left unchanged, for all texts. *)
From Cicada Require Import Base.Chars Model.Rerender.
Local Open Scope N_scope.

Lemma fold3_id s : forall o odd sep, nc odd s = true -> fold3 o odd false sep s = rev o ++ s.
Proof.
  induction s as [|c s IH]; intros o odd sep H.
  - cbn [fold3 andb]. now rewrite app_nil_r.
  - cbn [fold3 andb]. cbn [nc] in H.
    destruct (c =? c_bs) eqn:Eb.
    + apply N.eqb_eq in Eb. subst c. change (c_bs =? c_nl) with false. cbn [andb].
      rewrite (IH _ _ sep H). cbn [rev]. now rewrite <- app_assoc.
    + destruct (c =? c_nl) eqn:En.
      * apply andb_true_iff in H as [Ho H]. destruct odd; [discriminate|]. cbn [andb].
        rewrite (IH _ _ sep H). cbn [rev]. now rewrite <- app_assoc.
      * cbn [andb]. rewrite (IH _ _ sep H). cbn [rev]. now rewrite <- app_assoc.
Qed.

Theorem fold_fixed_id t : no_cont t = true -> fold_lines_fixed t = t.
Proof.
  intros H. unfold fold_lines_fixed. destruct (contains_bsnl t); [|reflexivity].
  exact (fold3_id t [] false false H).
Qed.
