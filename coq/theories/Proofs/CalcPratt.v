(** The Pratt parser gives back every expression tree from its rendering:
    the rendering parenthesises a left operand when its operator binds less
    tightly than the parent's left binding power allows, a right operand
    likewise, and may add any number of redundant parentheses. Generic in the
    leaf type and in the precedence table. *)
From Coq Require Import Lia.
From Cicada Require Import Base.Chars Model.Calc.
Local Open Scope N_scope.

(** expression trees with optional redundant parentheses *)
Inductive ptree (L : Type) :=
| QLeaf (l : L)
| QNode (o : op) (a b : ptree L)
| QPar (t : ptree L).
Arguments QLeaf {L} l.
Arguments QNode {L} o a b.
Arguments QPar {L} t.

Fixpoint strip {L} (q : ptree L) : tree L :=
  match q with
  | QLeaf l => Leaf l
  | QNode o a b => Node o (strip a) (strip b)
  | QPar t => strip t
  end.

Lemma psize_expr {L} (inner : list (pair L)) : psize (PExpr inner) = S (tot inner).
Proof. cbn. f_equal. induction inner as [|x r IH]; cbn; congruence. Qed.

Lemma tot_app {L} (a b : list (pair L)) : tot (a ++ b) = (tot a + tot b)%nat.
Proof. induction a as [|x r IH]; cbn [tot app]; [reflexivity|]. rewrite IH. lia. Qed.

Lemma tot_cons_op {L} o (r : list (pair L)) : tot (POp o :: r) = S (tot r).
Proof. reflexivity. Qed.
Lemma tot_cons_num {L} (l : L) (r : list (pair L)) : tot (PNum l :: r) = S (tot r).
Proof. reflexivity. Qed.
Lemma tot_cons_expr {L} i (r : list (pair L)) : tot (PExpr i :: r) = S (tot i + tot r)%nat.
Proof. cbn [tot]. rewrite psize_expr. reflexivity. Qed.

Section Roundtrip.
  Variable L : Type.
  Variable prec : op -> N.
  Variable left : op -> bool.
  Hypothesis prec_pos : forall o, 0 < prec o.

  Notation rbo := (rb prec left).
  Notation exprT := (expr (L := L) (T := tree L) prec left (fun l => Ok (Leaf l)) (fun a o b => Ok (Node o a b))).
  Notation loopT := (loop (L := L) (T := tree L) prec left (fun l => Ok (Leaf l)) (fun a o b => Ok (Node o a b))).

  (** a left operand needs parentheses when the parent operator would not be
      taken by the loop that parses the operand's right side; a right operand
      when its operator would not be taken by the parent's right-operand call *)
  Definition needs_l (o : op) (a : ptree L) : bool :=
    match a with QNode o' _ _ => negb (prec o <=? rbo o') | _ => false end.
  Definition needs_r (o : op) (b : ptree L) : bool :=
    match b with QNode o' _ _ => prec o' <=? rbo o | _ => false end.

  Fixpoint flat (q : ptree L) : list (pair L) :=
    match q with
    | QLeaf l => [PNum l]
    | QPar t => [PExpr (flat t)]
    | QNode o a b =>
      (if needs_l o a then [PExpr (flat a)] else flat a) ++
      POp o :: (if needs_r o b then [PExpr (flat b)] else flat b)
    end.

  Definition top_gt (q : ptree L) (rbp : N) : Prop :=
    match q with QNode o _ _ => rbp < prec o | _ => True end.
  Definition lim (q : ptree L) : option N :=
    match q with QNode o _ _ => Some (rbo o) | _ => None end.
  Definition stop (rest : list (pair L)) (k : N) : Prop :=
    match rest with [] => True | POp o :: _ => prec o <= k | _ => False end.
  Definition head_le (rest : list (pair L)) (k : option N) : Prop :=
    match k with None => True | Some k => stop rest k end.

  Definition St (items : list (pair L)) (result : tree L) (rbp : N) (rest : list (pair L)) : Prop :=
    forall fuel, (2 * tot (items ++ rest) + 1 <= fuel)%nat ->
    exists f', (2 * tot rest + 1 <= f')%nat /\
               exprT fuel (items ++ rest) rbp = loopT f' result rest rbp.

  Definition P (q : ptree L) : Prop :=
    forall rbp rest, top_gt q rbp -> head_le rest (lim q) -> St (flat q) (strip q) rbp rest.

  Lemma rbo_le o : rbo o <= prec o.
  Proof. unfold rb. destruct (left o); lia. Qed.

  Lemma loop_stop f lhs rest rbp : stop rest rbp -> loopT (S f) lhs rest rbp = Ok (lhs, rest).
  Proof.
    destruct rest as [|[l|i|o] r]; cbn; intros H; try contradiction; [reflexivity|].
    destruct (N.ltb_spec rbp (prec o)); [lia|reflexivity].
  Qed.

  Lemma stop_mono rest k k' : stop rest k -> k <= k' -> stop rest k'.
  Proof. destruct rest as [|[l|i|o] r]; cbn; auto. lia. Qed.

  Lemma loop_op_eq f lhs o ps1 rbp :
    loopT (S f) lhs (POp o :: ps1) rbp =
    if rbp <? prec o then
      bind (exprT f ps1 (rbo o)) (fun '(rhs, ps2) => bind (Ok (Node o lhs rhs)) (fun v => loopT f v ps2 rbp))
    else Ok (lhs, POp o :: ps1).
  Proof. reflexivity. Qed.

  (** a parenthesised operand *)
  Lemma par_St t : P t -> forall rbp rest, St [PExpr (flat t)] (strip t) rbp rest.
  Proof.
    intros Pt rbp rest fuel Hf. cbn [app] in *. rewrite tot_cons_expr in Hf.
    destruct fuel as [|f]; [lia|]. cbn [expr].
    destruct (Pt 0 [] (ltac:(destruct t; cbn; auto)) (ltac:(destruct (lim t); cbn; auto)) f) as (f' & Hf' & E).
    { rewrite app_nil_r. lia. }
    rewrite app_nil_r in E. rewrite E.
    destruct f' as [|f'']; [cbn in Hf'; lia|]. cbn [loop bind].
    exists f. split; [lia|reflexivity].
  Qed.

  Lemma leaf_P l : P (QLeaf l).
  Proof.
    intros rbp rest _ _ fuel Hf. cbn [flat app strip] in *. rewrite tot_cons_num in Hf.
    destruct fuel as [|f]; [lia|]. cbn [expr bind]. exists f. split; [lia|reflexivity].
  Qed.

  Lemma node_P o a b : P a -> P b -> P (QNode o a b).
  Proof.
    intros Pa Pb rbp rest Htop Hrest fuel Hf. cbn [flat strip top_gt lim head_le] in *.
    set (sl := if needs_l o a then [PExpr (flat a)] else flat a) in *.
    set (sr := if needs_r o b then [PExpr (flat b)] else flat b) in *.
    rewrite <- app_assoc in *. cbn [app] in *.
    (* the left operand *)
    assert (Sl : St sl (strip a) rbp (POp o :: sr ++ rest)).
    { subst sl. destruct (needs_l o a) eqn:N; [apply par_St; exact Pa|].
      apply Pa.
      - destruct a as [l|o' a1 a2|t]; cbn in *; auto.
        apply negb_false_iff, N.leb_le in N. pose proof (rbo_le o'). lia.
      - destruct a as [l|o' a1 a2|t]; cbn in *; auto.
        apply negb_false_iff, N.leb_le in N. exact N. }
    destruct (Sl fuel Hf) as (f1 & Hf1 & E1). rewrite E1.
    rewrite tot_cons_op, tot_app in Hf1.
    destruct f1 as [|f2]; [lia|]. rewrite loop_op_eq.
    destruct (N.ltb_spec rbp (prec o)) as [_|Hc]; [|lia].
    (* the right operand *)
    assert (Sr : St sr (strip b) (rbo o) rest).
    { subst sr. destruct (needs_r o b) eqn:N; [apply par_St; exact Pb|].
      apply Pb.
      - destruct b as [l|o' b1 b2|t]; cbn in *; auto.
        apply N.leb_gt in N. exact N.
      - destruct b as [l|o' b1 b2|t]; cbn in *; auto.
        apply N.leb_gt in N. apply (stop_mono rest (rbo o)); [exact Hrest|].
        unfold rb in *. destruct (left o'); lia. }
    destruct (Sr f2) as (f3 & Hf3 & E2); [rewrite tot_app; lia|]. rewrite E2.
    destruct f3 as [|f4]; [lia|]. rewrite (loop_stop f4 (strip b) rest (rbo o) Hrest).
    cbn [bind]. exists f2. split; [lia|reflexivity].
  Qed.

  Lemma par_P t : P t -> P (QPar t).
  Proof. intros Pt rbp rest _ _. cbn [flat strip]. apply par_St. exact Pt. Qed.

  Lemma all_P q : P q.
  Proof.
    induction q as [l|o a IHa b IHb|t IHt];
      [apply leaf_P | apply node_P; assumption | apply par_P; assumption].
  Qed.

  Theorem pratt_roundtrip q fuel :
    (2 * tot (flat q) + 1 <= fuel)%nat ->
    pratt prec left (fun l => Ok (Leaf l)) (fun a o b => Ok (Node o a b)) fuel (flat q) = Ok (strip q).
  Proof.
    intros Hf. unfold pratt.
    destruct (all_P q 0 [] (ltac:(destruct q; cbn; auto)) (ltac:(destruct (lim q); cbn; auto)) fuel) as (f' & Hf' & E).
    { rewrite app_nil_r. exact Hf. }
    rewrite app_nil_r in E. rewrite E. destruct f' as [|f'']; [cbn in Hf'; lia|]. reflexivity.
  Qed.
End Roundtrip.
Arguments flat {L} prec left q.
Arguments needs_l {L} prec left o a.
Arguments needs_r {L} prec left o b.

(* ------------------------------------------------------------------ *)
(** * The table of cicada *)

Lemma prec_of_pos o : 0 < prec_of o.
Proof. destruct o; vm_compute; reflexivity. Qed.

Theorem pratt_tree_roundtrip {L} (q : ptree L) fuel :
  (2 * tot (flat prec_of is_left q) + 1 <= fuel)%nat ->
  pratt_tree fuel (flat prec_of is_left q) = Ok (strip q).
Proof. apply pratt_roundtrip. exact prec_of_pos. Qed.

(** the standard reading of the property: three levels, power right-associative *)
Definition std_level (o : op) : nat :=
  match o with Add | Sub => 1 | Mul | Div => 2 | Pow => 3 end%nat.
Definition std_right (o : op) : bool := match o with Pow => true | _ => false end.

(** parentheses exactly where standard precedence / associativity require them *)
Definition std_needs_l {L} (o : op) (a : ptree L) : bool :=
  match a with
  | QNode o' _ _ => Nat.ltb (std_level o') (std_level o) || (Nat.eqb (std_level o') (std_level o) && std_right o)
  | _ => false
  end.
Definition std_needs_r {L} (o : op) (b : ptree L) : bool :=
  match b with
  | QNode o' _ _ => Nat.ltb (std_level o') (std_level o) || (Nat.eqb (std_level o') (std_level o) && negb (std_right o))
  | _ => false
  end.

Fixpoint render {L} (q : ptree L) : list (pair L) :=
  match q with
  | QLeaf l => [PNum l]
  | QPar t => [PExpr (render t)]
  | QNode o a b =>
    (if std_needs_l o a then [PExpr (render a)] else render a) ++
    POp o :: (if std_needs_r o b then [PExpr (render b)] else render b)
  end.

Lemma needs_l_std {L} o (a : ptree L) : needs_l prec_of is_left o a = std_needs_l o a.
Proof. destruct a as [l|o' a1 a2|t]; try reflexivity. destruct o, o'; vm_compute; reflexivity. Qed.
Lemma needs_r_std {L} o (b : ptree L) : needs_r prec_of is_left o b = std_needs_r o b.
Proof. destruct b as [l|o' b1 b2|t]; try reflexivity. destruct o, o'; vm_compute; reflexivity. Qed.

Lemma render_flat {L} (q : ptree L) : render q = flat prec_of is_left q.
Proof.
  induction q as [l|o a IHa b IHb|t IHt]; cbn [render flat]; try congruence.
  rewrite needs_l_std, needs_r_std, IHa, IHb. reflexivity.
Qed.

Theorem pratt_tree_render {L} (q : ptree L) fuel :
  (2 * tot (render q) + 1 <= fuel)%nat -> pratt_tree fuel (render q) = Ok (strip q).
Proof. rewrite render_flat. apply pratt_tree_roundtrip. Qed.
