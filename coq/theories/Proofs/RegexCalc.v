(** A small equational calculus for [Regex.matchb] / [Regex.rx_search], used to prove
    that a hand-written model matcher equals the regex AST GENERATED from the source
    (Gen/*Regexes.v): unfolding lemmas for the shapes that occur in the source patterns
    (class, class-star, concatenation, alternation, anchored / unanchored search).
    All are consequences of [matchb_spec]. Round 9 (regexgen). *)
From Coq Require Import List NArith Bool Lia.
From Cicada Require Import Base.Chars Base.Regex Gen.UnicodeNd.
Import ListNotations.
Local Open Scope N_scope.

Lemma bool_iff (x y : bool) : (x = true <-> y = true) -> x = y.
Proof.
  destruct x, y; intros [A B]; try reflexivity;
    [symmetry; apply A; reflexivity | apply B; reflexivity].
Qed.

Lemma matchb_ext a b : (forall s, Matches a s <-> Matches b s) -> forall s, matchb a s = matchb b s.
Proof.
  intros H s. apply bool_iff. rewrite !matchb_spec. apply H.
Qed.

Lemma rc_Empty s : matchb Empty s = false.
Proof. induction s as [|c s IH]; [reflexivity|exact IH]. Qed.

Lemma rc_Eps s : matchb Eps s = is_empty s.
Proof. destruct s as [|c s]; [reflexivity|]. cbn. apply rc_Empty. Qed.

Lemma rc_cat a b s : matchb (cat a b) s = matchb (Cat a b) s.
Proof. revert s. apply matchb_ext. intros s. apply cat_spec. Qed.
Lemma rc_alt a b s : matchb (alt a b) s = matchb (Alt a b) s.
Proof. revert s. apply matchb_ext. intros s. apply alt_spec. Qed.

Lemma rc_Cat_Eps_l r s : matchb (Cat Eps r) s = matchb r s.
Proof.
  revert s. apply matchb_ext. intros s. split.
  - intros H. apply cat_inv in H as (s1 & s2 & -> & H1 & H2). apply eps_inv in H1. subst. exact H2.
  - intros H. change s with ([] ++ s). constructor; [constructor | exact H].
Qed.
Lemma rc_Cat_Eps_r r s : matchb (Cat r Eps) s = matchb r s.
Proof.
  revert s. apply matchb_ext. intros s. split.
  - intros H. apply cat_inv in H as (s1 & s2 & -> & H1 & H2). apply eps_inv in H2. subst.
    rewrite app_nil_r. exact H1.
  - intros H. rewrite <- (app_nil_r s). constructor; [exact H | constructor].
Qed.
Lemma rc_Cat_assoc a b c s : matchb (Cat (Cat a b) c) s = matchb (Cat a (Cat b c)) s.
Proof.
  revert s. apply matchb_ext. intros s. split; intros H.
  - apply cat_inv in H as (s1 & s2 & -> & H1 & H2). apply cat_inv in H1 as (s3 & s4 & -> & H3 & H4).
    rewrite <- app_assoc. constructor; [exact H3|]. constructor; assumption.
  - apply cat_inv in H as (s1 & s2 & -> & H1 & H2). apply cat_inv in H2 as (s3 & s4 & -> & H3 & H4).
    rewrite app_assoc. constructor; [|exact H4]. constructor; assumption.
Qed.

Lemma rc_Alt a b s : matchb (Alt a b) s = matchb a s || matchb b s.
Proof.
  apply bool_iff. rewrite orb_true_iff, !matchb_spec. split.
  - apply alt_inv.
  - intros [H|H]; [apply MAltL | apply MAltR]; exact H.
Qed.
Lemma rc_Cat_Alt a b r s : matchb (Cat (Alt a b) r) s = matchb (Cat a r) s || matchb (Cat b r) s.
Proof.
  rewrite <- rc_Alt. revert s. apply matchb_ext. intros s. split; intros H.
  - apply cat_inv in H as (s1 & s2 & -> & H1 & H2). apply alt_inv in H1 as [H1|H1];
      [apply MAltL | apply MAltR]; constructor; assumption.
  - apply alt_inv in H as [H|H]; apply cat_inv in H as (s1 & s2 & -> & H1 & H2);
      (constructor; [|exact H2]); [apply MAltL | apply MAltR]; exact H1.
Qed.

Lemma rc_Chr n rs s : matchb (Chr n rs) s = match s with [c] => in_cs n rs c | _ => false end.
Proof.
  destruct s as [|c [|d t]]; [reflexivity| |].
  - cbn. destruct (in_cs n rs c); reflexivity.
  - change (matchb (Chr n rs) (c :: d :: t)) with (matchb (deriv d (if in_cs n rs c then Eps else Empty)) t).
    destruct (in_cs n rs c); cbn; apply rc_Empty.
Qed.

Lemma rc_Cat_Chr n rs r s :
  matchb (Cat (Chr n rs) r) s = match s with [] => false | c :: t => in_cs n rs c && matchb r t end.
Proof.
  destruct s as [|c t]; [reflexivity|].
  change (matchb (Cat (Chr n rs) r) (c :: t)) with (matchb (cat (if in_cs n rs c then Eps else Empty) r) t).
  destruct (in_cs n rs c); cbn [andb].
  - rewrite rc_cat. apply rc_Cat_Eps_l.
  - cbn. apply rc_Empty.
Qed.

Lemma star_inv a s :
  Matches (Star a) s -> s = [] \/ exists x y, s = x ++ y /\ Matches a x /\ Matches (Star a) y.
Proof. intros H; inversion H; subst; [left; reflexivity | right; eauto]. Qed.

Lemma rc_Cat_Star a r s : matchb (Cat (Star a) r) s = matchb r s || matchb (Cat a (Cat (Star a) r)) s.
Proof.
  rewrite <- rc_Alt. revert s. apply matchb_ext. intros s. split; intros H.
  - apply cat_inv in H as (s1 & s2 & -> & H1 & H2). apply star_inv in H1 as [->|(x & y & -> & Hx & Hy)].
    + apply MAltL. exact H2.
    + apply MAltR. rewrite <- app_assoc. constructor; [exact Hx|]. constructor; assumption.
  - apply alt_inv in H as [H|H].
    + change s with ([] ++ s). constructor; [constructor | exact H].
    + apply cat_inv in H as (s1 & s2 & -> & H1 & H2). apply cat_inv in H2 as (s3 & s4 & -> & H3 & H4).
      rewrite app_assoc. constructor; [|exact H4]. apply MStarS; assumption.
Qed.

(** the unfolding used by the inductions: a class-star followed by a rest *)
Lemma rc_Cat_Star_Chr n rs r s :
  matchb (Cat (Star (Chr n rs)) r) s =
  matchb r s || match s with [] => false | c :: t => in_cs n rs c && matchb (Cat (Star (Chr n rs)) r) t end.
Proof. rewrite rc_Cat_Star at 1. rewrite rc_Cat_Chr. reflexivity. Qed.

Lemma rc_Star_Chr n rs s : matchb (Star (Chr n rs)) s = forallb (in_cs n rs) s.
Proof.
  induction s as [|c t IH]; [reflexivity|].
  change (matchb (Star (Chr n rs)) (c :: t))
    with (matchb (cat (if in_cs n rs c then Eps else Empty) (Star (Chr n rs))) t).
  cbn [forallb]. destruct (in_cs n rs c); cbn [andb cat]; [exact IH | apply rc_Empty].
Qed.

Lemma rc_Star_any s : matchb (Star any) s = true.
Proof. apply matchb_spec. apply any_star. Qed.

(** * search *)
Lemma rc_anchored r s : rx_search (mkrx true r true) s = matchb r s.
Proof. unfold rx_search, rx_full. cbn [rx_ab rx_re rx_ae]. rewrite rc_Cat_Eps_l. apply rc_Cat_Eps_r. Qed.

Lemma rc_search_spec r s :
  rx_search (mkrx false r false) s = true <-> exists a b c, s = a ++ b ++ c /\ Matches r b.
Proof.
  split.
  - intros H. unfold rx_search, rx_full in H. cbn [rx_ab rx_re rx_ae] in H. apply matchb_spec in H.
    apply cat_inv in H as (s1 & s2 & -> & _ & H2). apply cat_inv in H2 as (s3 & s4 & -> & H3 & _).
    exists s1, s3, s4. split; [reflexivity | exact H3].
  - intros (a & b & c & -> & H). apply rx_search_intro; [reflexivity | reflexivity | exact H].
Qed.

Lemma rc_search_Chr n rs s : rx_search (mkrx false (Chr n rs) false) s = existsb (in_cs n rs) s.
Proof.
  apply bool_iff. rewrite rc_search_spec, existsb_exists. split.
  - intros (a & b & c & -> & H). inversion H; subst. exists c0. split; [|assumption].
    apply in_or_app. right. left. reflexivity.
  - intros (x & Hin & Hx). apply in_split in Hin as (l1 & l2 & ->).
    exists l1, [x], l2. split; [reflexivity | constructor; exact Hx].
Qed.

Lemma rc_search_plus_Chr n rs s :
  rx_search (mkrx false (Cat (Chr n rs) (Star (Chr n rs))) false) s = existsb (in_cs n rs) s.
Proof.
  apply bool_iff. rewrite rc_search_spec, existsb_exists. split.
  - intros (a & b & c & -> & H). apply cat_inv in H as (s1 & s2 & -> & H1 & _).
    inversion H1; subst. exists c0. split; [|assumption].
    apply in_or_app. right. left. reflexivity.
  - intros (x & Hin & Hx). apply in_split in Hin as (l1 & l2 & ->).
    exists l1, [x], l2. split; [reflexivity|].
    change [x] with ([x] ++ []). constructor; [constructor; exact Hx | constructor].
Qed.

Lemma rc_search_Alt a b s :
  rx_search (mkrx false (Alt a b) false) s = rx_search (mkrx false a false) s || rx_search (mkrx false b false) s.
Proof.
  apply bool_iff. rewrite orb_true_iff, !rc_search_spec. split.
  - intros (x & y & z & -> & H). apply alt_inv in H as [H|H]; [left | right]; exists x, y, z; auto.
  - intros [(x & y & z & -> & H)|(x & y & z & -> & H)]; exists x, y, z; split; try reflexivity;
      [apply MAltL | apply MAltR]; exact H.
Qed.

(** * classes *)
Lemma in_cs_pos rs c : in_cs false rs c = existsb (fun p => (fst p <=? c) && (c <=? snd p)) rs.
Proof. unfold in_cs. apply xorb_false_l. Qed.
Lemma in_cs_neg rs c : in_cs true rs c = negb (existsb (fun p => (fst p <=? c) && (c <=? snd p)) rs).
Proof. unfold in_cs. apply xorb_true_l. Qed.

Lemma in_cs_one k c : in_cs false [(k, k)] c = (c =? k).
Proof.
  unfold in_cs. cbn.
  destruct (N.leb_spec k c), (N.leb_spec c k), (N.eqb_spec c k); cbn; try reflexivity; lia.
Qed.
Lemma in_cs_not_one k c : in_cs true [(k, k)] c = negb (c =? k).
Proof.
  unfold in_cs. cbn.
  destruct (N.leb_spec k c), (N.leb_spec c k), (N.eqb_spec c k); cbn; try reflexivity; lia.
Qed.
Lemma in_cs_any c : in_cs true [] c = true.
Proof. reflexivity. Qed.
Lemma leb_leb_eq k c : (k <=? c) && (c <=? k) = (c =? k).
Proof. destruct (N.leb_spec k c), (N.leb_spec c k), (N.eqb_spec c k); cbn; try reflexivity; lia. Qed.

(** [\d] of the regex crate = Unicode Nd = the generated table *)
Lemma in_cs_nd c : in_cs false nd_ranges c = is_nd c.
Proof.
  rewrite in_cs_pos. unfold is_nd. generalize nd_ranges. intros l.
  induction l as [|[a b] l IH]; [reflexivity|]. cbn [existsb fst snd]. rewrite IH. reflexivity.
Qed.

Lemma forallb_any s : forallb (in_cs true []) s = true.
Proof. induction s as [|c t IH]; [reflexivity | exact IH]. Qed.
