(** C15, set -e: in a flat script (commands only) the first failing command
    ends run_exp; proved for the transcribed loop with exit_on_error on. *)
From Cicada Require Import Base.Chars Base.Peg Gen.LocustGrammar Model.Script Model.ScriptAst Proofs.ScriptProofs.
From Coq Require Import ZArith Lia.
Local Open Scope N_scope.

Section Flat.
Variable W : Type.
Variable run_line : W -> str -> W * list Z.
Variables (rif : ttree -> bool -> W -> outcome W) (rfor rwh : ttree -> W -> outcome W).

(** reference: run the lines in order; stop after the first one whose last pipeline failed *)
Fixpoint run_until_fail (lines : list str) (w : W) : W * list Z :=
  match lines with
  | [] => (w, [])
  | l :: r =>
      let '(w1, crs) := run_line w l in
      if last_is_nonzero crs then (w1, crs)
      else let '(w2, crs2) := run_until_fail r w1 in (w2, crs ++ crs2)
  end.

Definition cmd_node (l : str) : ttree := TNode L_CMD l [].

Theorem flat_set_e : forall lines, forallb wf_line lines = true ->
  forall w acc, last_is_nonzero acc = false ->
  exp_loop W run_line (fun _ => true) rif rfor rwh false (map cmd_node lines) w acc =
  let '(w1, crs) := run_until_fail lines w in Done w1 (acc ++ crs) false false.
Proof.
  induction lines as [|l r IH]; intros Hwf w acc Hacc.
  - cbn. rewrite app_nil_r. reflexivity.
  - cbn [forallb] in Hwf. apply andb_prop in Hwf as [Hl Hr].
    unfold wf_line in Hl. apply andb_prop in Hl as [Hl H3]. apply andb_prop in Hl as [H1 H2].
    apply negb_true_iff in H1, H2, H3.
    cbn [map exp_loop cmd_node t_txt t_rule run_until_fail].
    rewrite H1, H2, H3, N.eqb_refl.
    destruct (run_line w l) as [w1 crs].
    rewrite andb_true_r, (last_nz_app acc crs Hacc).
    destruct (last_is_nonzero crs) eqn:E; [reflexivity|].
    rewrite IH by (assumption || (rewrite last_nz_app; assumption)).
    destruct (run_until_fail r w1) as [w2 crs2]. rewrite app_assoc. reflexivity.
Qed.
End Flat.

(** The same with the flag as part of the state: it is on at the start and no step of the
    oracle switches it off. Then the flat loop stops after the first failing line and the flag
    is still on in the final state. *)
Section FlatInv.
Variable W : Type.
Variable run_line : W -> str -> W * list Z.
Variable eoe : W -> bool.
Variables (rif : ttree -> bool -> W -> outcome W) (rfor rwh : ttree -> W -> outcome W).
Hypothesis keep : forall w l, eoe w = true -> eoe (fst (run_line w l)) = true.

Theorem flat_set_e_inv : forall lines, forallb wf_line lines = true ->
  forall w acc, eoe w = true -> last_is_nonzero acc = false ->
  exp_loop W run_line eoe rif rfor rwh false (map cmd_node lines) w acc =
  (let '(w1, crs) := run_until_fail W run_line lines w in Done w1 (acc ++ crs) false false)
  /\ eoe (fst (run_until_fail W run_line lines w)) = true.
Proof.
  induction lines as [|l r IH]; intros Hwf w acc Hw Hacc.
  - cbn. rewrite app_nil_r. split; [reflexivity | exact Hw].
  - cbn [forallb] in Hwf. apply andb_prop in Hwf as [Hl Hr].
    unfold wf_line in Hl. apply andb_prop in Hl as [Hl H3]. apply andb_prop in Hl as [H1 H2].
    apply negb_true_iff in H1, H2, H3.
    cbn [map exp_loop cmd_node t_txt t_rule run_until_fail].
    rewrite H1, H2, H3, N.eqb_refl.
    pose proof (keep w l Hw) as Hk.
    destruct (run_line w l) as [w1 crs]. cbn [fst] in Hk.
    rewrite Hk, andb_true_r, (last_nz_app acc crs Hacc).
    destruct (last_is_nonzero crs) eqn:E.
    + split; [reflexivity | exact Hk].
    + destruct (IH Hr w1 (acc ++ crs) Hk) as [IH1 IH2]; [rewrite last_nz_app; assumption|].
      rewrite IH1. destruct (run_until_fail W run_line r w1) as [w2 crs2]. cbn [fst] in *.
      rewrite app_assoc. split; [reflexivity | exact IH2].
Qed.
End FlatInv.

(** Without set -e a flat body runs every line; its result list is the concatenation of the
    lines' result vectors, in order. Hence (try_run_func) the status of a call of a function with
    such a body is the LAST status of the LAST line -- whatever failed before. *)
Section FlatAll.
Variable W : Type.
Variable run_line : W -> str -> W * list Z.
Variable eoe : W -> bool.
Variables (rif : ttree -> bool -> W -> outcome W) (rfor rwh : ttree -> W -> outcome W).
Hypothesis off : forall w, eoe w = false.

Fixpoint run_all (lines : list str) (w : W) : W * list Z :=
  match lines with
  | [] => (w, [])
  | l :: r => let '(w1, crs) := run_line w l in let '(w2, crs2) := run_all r w1 in (w2, crs ++ crs2)
  end.

Theorem flat_all : forall lines, forallb wf_line lines = true -> forall w acc,
  exp_loop W run_line eoe rif rfor rwh false (map cmd_node lines) w acc =
  let '(w1, crs) := run_all lines w in Done w1 (acc ++ crs) false false.
Proof.
  induction lines as [|l r IH]; intros Hwf w acc.
  - cbn. rewrite app_nil_r. reflexivity.
  - cbn [forallb] in Hwf. apply andb_prop in Hwf as [Hl Hr].
    unfold wf_line in Hl. apply andb_prop in Hl as [Hl H3]. apply andb_prop in Hl as [H1 H2].
    apply negb_true_iff in H1, H2, H3.
    cbn [map exp_loop cmd_node t_txt t_rule run_all].
    rewrite H1, H2, H3, N.eqb_refl.
    destruct (run_line w l) as [w1 crs]. rewrite off, andb_false_r.
    rewrite (IH Hr w1 (acc ++ crs)). destruct (run_all r w1) as [w2 crs2]. rewrite app_assoc. reflexivity.
Qed.

(** when every line yields exactly one status [st l] *)
Lemma run_all_statuses (st : str -> Z) : (forall w l, snd (run_line w l) = [st l]) ->
  forall lines w, snd (run_all lines w) = map st lines.
Proof.
  intros H. induction lines as [|l r IH]; intros w; [reflexivity|]. cbn [run_all map].
  pose proof (H w l) as Hl. destruct (run_line w l) as [w1 crs]. cbn [snd] in Hl. subst crs.
  pose proof (IH w1) as Hr. destruct (run_all r w1) as [w2 crs2]. cbn [snd] in *. rewrite Hr. reflexivity.
Qed.
End FlatAll.
