(** A command line whose command word is plain and whose arguments are quoted is
    inert under do_expansion, except that double-quoted references are replaced by their
    one-pass value.  The value itself is UNRESTRICTED as far as parameter expansion goes
    (one left-to-right scan, the value is never looked at again); what is asked of the
    resulting double-quoted token is only what the LATER passes need: no backquote (the
    backquote pass) and no dollar immediately followed by an open paren (the dollar pass).
    Refutation side: an UNTAGGED reference whose value is a pipe becomes an untagged pipe
    token; a DOUBLE-QUOTED reference whose value holds a dollar, a newline and a pipe
    stays one double-quoted token with exactly that text. *)
From Coq Require Import List NArith ZArith Bool Lia.
From Cicada Require Import Base.Chars Base.Tag Base.Regex Gen.ShellRegexes Model.Expand Model.ExpandRef Proofs.ExpandBasics Proofs.EnvProofs
  Proofs.ExpandOnceProofs Proofs.SubstProofs.
From Cicada Require Model.Tokenizer.
Import ListNotations.
From Coq Require String.
Import String.StringSyntax.
Local Open Scope N_scope.

(* ------------------------------------------------------------------ statement *)
(** what the passes need of the command word *)
Definition arith_char (c : char) : bool :=   (* the class of the anchored arithmetic pattern rx_arith_all *)
  (c =? 32) || is_digit c || (c =? 46) || (c =? 40) || (c =? 41) || (c =? 43) || (c =? 45) || (c =? 42) || (c =? 47) || (c =? 94).

Record cmd_ok (W : World) (cmd : str) : Prop := {
  ck_alias : aliases W cmd = None;
  ck_names : cmd <> s2l "xargs" /\ cmd <> s2l "export" /\ cmd <> [124];
  ck_chars : ~ In 36 cmd /\ ~ In 96 cmd /\ ~ In 126 cmd /\ ~ In 42 cmd /\ ~ In 123 cmd;   (* $ ` ~ * { *)
  ck_word : exists c, In c cmd /\ arith_char c = false          (* e.g. a letter: the line is not arithmetic *)
}.

(** how one argument token is transformed *)
Inductive tok_ok (W : World) : token -> token -> Prop :=
| ok_sq s : tok_ok W (TSq, s) (TSq, s)
| ok_dq s : ~ In 36 s -> ~ In 96 s -> tok_ok W (TDq, s) (TDq, s)
| ok_ref ps : wf_pieces ps = true -> gate_ok ps = true ->
              ~ In 96 (den_pieces W ps) -> has_dollar_paren (den_pieces W ps) = false ->
              tok_ok W (TDq, render_pieces ps) (TDq, den_pieces W ps).

(** an argument token no pass after expand_env touches *)
Definition inert (t : token) : Prop :=
  fst t = TSq \/ (fst t = TDq /\ ~ In 36 (snd t) /\ ~ In 96 (snd t)).

(** a token the two command-substitution passes leave alone: it may contain dollars, but no
    dollar immediately followed by an open paren *)
Definition calm (t : token) : Prop :=
  fst t = TSq \/ ((fst t = TDq \/ fst t = TNone) /\ has_dollar_paren (snd t) = false /\ ~ In 96 (snd t)).

(** a token the three run_pass passes skip *)
Definition still (t : token) : Prop :=
  fst t <> TNone \/ ~ In 42 (snd t) /\ ~ In 123 (snd t).

Lemma inert_calm t : inert t -> calm t.
Proof.
  intros [H|(T & H36 & H96)]; [left; exact H | right].
  split; [left; exact T|]. split; [apply has_dollar_paren_no_dollar; exact H36 | exact H96].
Qed.

Lemma inert_still t : inert t -> still t.
Proof. intros [H|(H & _)]; left; rewrite H; discriminate. Qed.

(* ------------------------------------------------------------------ 0: the early returns *)
Lemma drop_blank_in (c : char) (g : str) :
  c <> 32 -> In c g -> In c (match rev g with c0 :: r => if c0 =? 32 then rev r else g | [] => [] end).
Proof.
  intros Hc Hin. pose proof (proj1 (in_rev g c) Hin) as G. revert G.
  destruct (rev g) as [|c0 r]; intros G; [exact G|].
  destruct (c0 =? 32) eqn:E0; [|exact Hin].
  destruct G as [G|G].
  - apply N.eqb_eq in E0. congruence.
  - apply in_rev in G. exact G.
Qed.

Lemma line_has_cmd (c : char) (cmd : str) (l : tokens) : c <> 32 -> In c cmd -> In c (tokens_to_line ((TNone, cmd) :: l)).
Proof.
  intros Hc Hin. unfold tokens_to_line. apply drop_blank_in; [exact Hc|].
  cbn [tokens_to_line_go tag_is_empty tag_eqb]. apply in_or_app. left. exact Hin.
Qed.

Lemma chr_class n rs s : Matches (Chr n rs) s -> forall c, In c s -> in_cs n rs c = true.
Proof. intros H; inversion H; subst. intros d [<-|[]]. assumption. Qed.

Lemma star_chr_class n rs s : Matches (Star (Chr n rs)) s -> forall c, In c s -> in_cs n rs c = true.
Proof.
  intros H. remember (Star (Chr n rs)) as r eqn:Er.
  induction H as [|n0 rs0 c0 Hc0|a0 b0 x1 x2 Ha _ Hb _|a0 b0 x Hx _|a0 b0 x Hx _|a0|a' s1 s2 H1 _ H2 IH2];
    try discriminate.
  - intros c [].
  - injection Er as ->. intros c Hc. apply in_app_or in Hc as [Hc|Hc].
    + eapply chr_class; eassumption.
    + apply IH2; [reflexivity | exact Hc].
Qed.

Lemma arith_class1 c :
  in_cs false [(32, 32); (48, 57); (46, 46); (40, 40); (41, 41); (43, 43); (45, 45); (42, 42); (47, 47); (94, 94)] c = true ->
  arith_char c = true.
Proof.
  unfold in_cs, arith_char, is_digit. rewrite xorb_false_l. cbn [existsb fst snd]. rewrite orb_false_r.
  rewrite !orb_true_iff, !andb_true_iff, !N.leb_le, !N.eqb_eq. lia.
Qed.

Lemma arith_class2 c :
  in_cs false [(46, 46); (48, 57); (32, 32); (41, 41)] c = true -> arith_char c = true.
Proof.
  unfold in_cs, arith_char, is_digit. rewrite xorb_false_l. cbn [existsb fst snd]. rewrite orb_false_r.
  rewrite !orb_true_iff, !andb_true_iff, !N.leb_le, !N.eqb_eq. lia.
Qed.

Lemma is_arithmetic_false line c : In c line -> arith_char c = false -> is_arithmetic line = false.
Proof.
  intros Hin Hc. unfold is_arithmetic.
  destruct (rx_search rx_arith_digit line); [|reflexivity].
  destruct (rx_search rx_arith_op line); [|reflexivity].
  cbn [negb].
  destruct (rx_search rx_arith_all line) eqn:E; [|reflexivity].
  exfalso. unfold rx_search in E. apply matchb_spec in E.
  unfold rx_full, rx_arith_all in E. cbn [rx_ab rx_ae rx_re] in E.
  apply cat_inv in E as (s1 & s2 & -> & H1 & H2). apply eps_inv in H1; subst s1.
  apply cat_inv in H2 as (s3 & s4 & -> & H3 & H4). apply eps_inv in H4; subst s4.
  apply cat_inv in H3 as (s5 & s6 & -> & H5 & H6).
  apply cat_inv in H5 as (s7 & s8 & -> & H7 & H8).
  cbn [app] in Hin. rewrite app_nil_r in Hin.
  assert (T : arith_char c = true).
  { apply in_app_or in Hin as [Hin|Hin].
    - apply in_app_or in Hin as [Hin|Hin].
      + apply arith_class1. eapply chr_class; eassumption.
      + apply arith_class1. eapply star_chr_class; eassumption.
    - apply arith_class2. eapply chr_class; eassumption. }
  congruence.
Qed.

Lemma not_arithmetic W cmd l : cmd_ok W cmd -> is_arithmetic (tokens_to_line ((TNone, cmd) :: l)) = false.
Proof.
  intros [_ _ _ (c & Hin & Hc)]. apply (is_arithmetic_false _ c); [|exact Hc].
  apply line_has_cmd; [|exact Hin]. intros ->. discriminate.
Qed.

Lemma not_export_prompt W cmd l : cmd_ok W cmd -> is_export_prompt ((TNone, cmd) :: l) = false.
Proof.
  intros [_ (_ & He & _) _ _]. unfold is_export_prompt.
  destruct l as [|[tg b] r]; [reflexivity|].
  rewrite (proj2 (str_eqb_neq _ _) He). reflexivity.
Qed.

(* ------------------------------------------------------------------ 1: expand_alias *)
(** the passes before expand_env only look at the tag of an argument *)
Definition tagged (t : token) : Prop := tag_is_empty (fst t) = false.

Lemma alias_collect_tagged W l : Forall tagged l -> forall i, alias_collect W l i false = [].
Proof.
  induction 1 as [|[tg s] l Ht _ IH]; intros i; [reflexivity|].
  cbn [alias_collect]. unfold tagged in Ht. cbn [fst] in Ht. rewrite Ht. cbn [andb]. apply IH.
Qed.

Lemma expand_alias_tagged tokenize W cmd l :
  cmd_ok W cmd -> Forall tagged l -> expand_alias tokenize W ((TNone, cmd) :: l) = (TNone, cmd) :: l.
Proof.
  intros [Ha (Hx & _ & Hp) _ _] Hl. unfold expand_alias.
  cbn [alias_collect tag_is_empty tag_eqb andb].
  rewrite (proj2 (str_eqb_neq _ _) Hp), (proj2 (str_eqb_neq _ _) Hx), Ha.
  rewrite alias_collect_tagged by exact Hl. reflexivity.
Qed.

(* ------------------------------------------------------------------ 2: expand_home *)
Lemma strip_prefix_absent (c : N) (s : list N) : ~ In c s -> strip_prefix (@cons N c (@nil N)) s = None.
Proof.
  intros H. destruct s as [|d r]; [reflexivity|]. cbn [strip_prefix].
  destruct (c =? d) eqn:E; [|reflexivity]. apply N.eqb_eq in E. exfalso. apply H. left. congruence.
Qed.

Lemma expand_home_map_tagged W l : Forall tagged l -> map (expand_home_tok W) l = l.
Proof.
  induction 1 as [|t l Ht _ IH]; [reflexivity|]. cbn [map]. rewrite IH.
  unfold expand_home_tok. rewrite Ht. reflexivity.
Qed.

Lemma expand_home_tagged W (cmd : str) l :
  ~ In 126 cmd -> Forall tagged l -> expand_home W ((TNone, cmd) :: l) = (TNone, cmd) :: l.
Proof.
  intros Hc Hl. rewrite expand_home_map. cbn [map]. rewrite (expand_home_map_tagged W l Hl).
  unfold expand_home_tok. cbn [fst snd tag_is_empty tag_eqb]. rewrite (strip_prefix_absent 126 cmd Hc).
  reflexivity.
Qed.

(* ------------------------------------------------------------------ 3: expand_env *)
Lemma expand_env_tok_ok W t t' : tok_ok W t t' -> expand_env_tok W t = t'.
Proof.
  intros H. destruct H as [s|s H36 H96|ps Hwf Hg H96 Hdp].
  - apply expand_env_tok_quoted. left. reflexivity.
  - unfold expand_env_tok. cbn [fst snd]. rewrite (tagged_gate_no_dollar s _ H36). reflexivity.
  - apply expand_env_tok_den; [exact Hwf | exact Hg | discriminate | discriminate].
Qed.

Lemma expand_env_forall2 W l l' : Forall2 (tok_ok W) l l' -> expand_env W l = l'.
Proof.
  rewrite expand_env_map. induction 1 as [|t t' l l' Ht _ IH]; [reflexivity|].
  cbn [map]. rewrite (expand_env_tok_ok _ _ _ Ht), IH. reflexivity.
Qed.

Lemma expand_env_inert W (cmd : str) l l' :
  ~ In 36 cmd -> Forall2 (tok_ok W) l l' ->
  expand_env W ((TNone, cmd) :: l) = (TNone, cmd) :: l'.
Proof.
  intros Hc Hl. pose proof (expand_env_forall2 _ _ _ Hl) as E. rewrite expand_env_map in *.
  cbn [map]. rewrite E. unfold expand_env_tok. cbn [fst snd].
  rewrite (tagged_gate_no_dollar cmd _ Hc). reflexivity.
Qed.

(* ------------------------------------------------------------------ 4: what expand_env leaves behind *)
Lemma tok_ok_tagged_l W t t' : tok_ok W t t' -> tagged t.
Proof. intros [s|s _ _|ps _ _ _ _]; reflexivity. Qed.

Lemma forall2_tagged_l W l l' : Forall2 (tok_ok W) l l' -> Forall tagged l.
Proof.
  induction 1 as [|t t' l l' Ht _ IH]; constructor; [eapply tok_ok_tagged_l; eassumption | exact IH].
Qed.

(** the result may contain dollars (the value is data), so it is not [inert]; it is [calm] and [still] *)
Lemma tok_ok_calm_r W t t' : tok_ok W t t' -> calm t'.
Proof.
  intros [s|s H36 H96|ps Hwf Hg H96 Hdp].
  - left. reflexivity.
  - apply inert_calm. right. cbn [fst snd]. auto.
  - right. cbn [fst snd]. split; [left; reflexivity|]. split; [exact Hdp | exact H96].
Qed.

Lemma tok_ok_still_r W t t' : tok_ok W t t' -> still t'.
Proof. intros [s|s _ _|ps _ _ _ _]; left; cbn [fst]; discriminate. Qed.

Lemma forall2_calm_r W l l' : Forall2 (tok_ok W) l l' -> Forall calm l'.
Proof.
  induction 1 as [|t t' l l' Ht _ IH]; constructor; [eapply tok_ok_calm_r; eassumption | exact IH].
Qed.

Lemma forall2_still_r W l l' : Forall2 (tok_ok W) l l' -> Forall still l'.
Proof.
  induction 1 as [|t t' l l' Ht _ IH]; constructor; [eapply tok_ok_still_r; eassumption | exact IH].
Qed.

(* ------------------------------------------------------------------ 5: the three run_pass passes *)
Lemma collect_skip sel toks :
  (forall t, In t toks -> sel t = Ok Skip) -> forall i, collect sel toks i = Ok (Some []).
Proof.
  induction toks as [|t r IH]; intros H i; [reflexivity|].
  cbn [collect]. rewrite (H t) by (left; reflexivity). cbn [bind].
  apply IH. intros x Hx. apply H. right. exact Hx.
Qed.

Lemma run_pass_skip sel toks : (forall t, In t toks -> sel t = Ok Skip) -> run_pass sel toks = Ok toks.
Proof. intros H. unfold run_pass. rewrite (collect_skip sel toks H 0). reflexivity. Qed.

Lemma still_tag_cases (t : token) :
  still t -> negb (tag_is_empty (fst t)) = true \/ ~ In 42 (snd t) /\ ~ In 123 (snd t).
Proof.
  intros [H|H]; [left | right; exact H]. destruct (fst t); try reflexivity. contradiction.
Qed.

Lemma brace_sel_still t : still t -> brace_sel t = Ok Skip.
Proof.
  intros H. unfold brace_sel. destruct (still_tag_cases t H) as [E|(_ & H123)].
  - rewrite E. reflexivity.
  - unfold need_expand_brace. destruct (rx_search rx_need_brace (snd t)) eqn:E.
    + exfalso. apply H123. apply (rx_search_requires 123 rx_need_brace); [reflexivity | exact E].
    + cbn [negb]. rewrite orb_true_r. reflexivity.
Qed.

Lemma glob_sel_still W t : still t -> glob_sel W t = Ok Skip.
Proof.
  intros H. unfold glob_sel. destruct (still_tag_cases t H) as [E|(H42 & _)].
  - rewrite E. reflexivity.
  - unfold needs_globbing. destruct (rx_search rx_needs_glob (snd t)) eqn:E.
    + exfalso. apply H42. apply (rx_search_requires 42 rx_needs_glob); [reflexivity | exact E].
    + cbn [negb]. rewrite orb_true_r. reflexivity.
Qed.

Lemma range_sel_still t : still t -> range_sel t = Ok Skip.
Proof.
  intros H. unfold range_sel. destruct (still_tag_cases t H) as [E|(_ & H123)].
  - rewrite E. reflexivity.
  - destruct (rx_search rx_brace_range (snd t)) eqn:E.
    + exfalso. apply H123. apply (rx_search_requires 123 rx_brace_range); [reflexivity | exact E].
    + cbn [negb]. rewrite orb_true_r. reflexivity.
Qed.

Lemma expand_brace_still toks : Forall still toks -> expand_brace toks = Ok toks.
Proof.
  intros H. apply run_pass_skip. intros t Ht. apply brace_sel_still.
  rewrite Forall_forall in H. apply H. exact Ht.
Qed.

Lemma expand_glob_still W toks : Forall still toks -> expand_glob W toks = Ok toks.
Proof.
  intros H. apply run_pass_skip. intros t Ht. apply glob_sel_still.
  rewrite Forall_forall in H. apply H. exact Ht.
Qed.

Lemma expand_brace_range_still toks : Forall still toks -> expand_brace_range toks = Ok toks.
Proof.
  intros H. apply run_pass_skip. intros t Ht. apply range_sel_still.
  rewrite Forall_forall in H. apply H. exact Ht.
Qed.

(* ------------------------------------------------------------------ 6: command substitution *)
Lemma span_not_bq s : ~ In 96 s -> span not_bq s = (s, []).
Proof.
  induction s as [|c r IH]; intros H; [reflexivity|]. cbn [span].
  assert (E : not_bq c = true).
  { unfold not_bq. destruct (c =? 96) eqn:E; [|reflexivity].
    apply N.eqb_eq in E. exfalso. apply H. left. exact E. }
  rewrite E, IH by (intros X; apply H; right; exact X). reflexivity.
Qed.

Lemma dot_split_none s : ~ In 96 s -> dot_split s = None.
Proof. intros H. unfold dot_split. rewrite (span_not_bq s H). reflexivity. Qed.

Lemma should_do_dollar_false s : ~ In 36 s -> should_do_dollar s = false.
Proof. intros H. apply should_do_needs_dollar_paren. apply has_dollar_paren_no_dollar. exact H. Qed.

Lemma dot_collect_calm W toks :
  Forall calm toks -> forall i log, dot_collect W toks i log = Ok ([], log).
Proof.
  induction 1 as [|[tg s] r Ht _ IH]; intros i log; [reflexivity|].
  cbn [dot_collect]. destruct Ht as [Ht|(Ht & _ & H96)]; cbn [fst snd] in *.
  - subst tg. apply IH.
  - rewrite (dot_split_none s H96). destruct Ht; subst tg; apply IH.
Qed.

Lemma subst_dot_calm W toks : Forall calm toks -> subst_dot W toks [] = Ok (toks, []).
Proof. intros H. unfold subst_dot. rewrite (dot_collect_calm W toks H). reflexivity. Qed.

Lemma dollar_pass_calm fuel W toks :
  Forall calm toks -> forall log, dollar_pass fuel W toks log = Ok (Some toks, log).
Proof.
  induction 1 as [|[tg s] r Ht _ IH]; intros log; [reflexivity|].
  cbn [dollar_pass]. rewrite IH. cbn [bind option_map fst snd].
  destruct Ht as [Ht|(_ & Hdp & _)]; cbn [fst snd] in *.
  - subst tg. reflexivity.
  - rewrite (should_do_needs_dollar_paren s Hdp). cbn [negb]. rewrite orb_true_r. reflexivity.
Qed.

Lemma subst_dollar_calm fuel W toks : Forall calm toks -> subst_dollar fuel W toks [] = Ok (toks, []).
Proof. intros H. rewrite subst_dollar_eq. rewrite (dollar_pass_calm fuel W toks H). reflexivity. Qed.

Lemma do_command_substitution_calm fuel W toks :
  Forall calm toks -> do_command_substitution fuel W toks = Ok (toks, []).
Proof.
  intros H. unfold do_command_substitution. rewrite (subst_dot_calm W toks H). cbn [bind fst snd].
  apply subst_dollar_calm. exact H.
Qed.

(* ------------------------------------------------------------------ assembly *)
Lemma cmd_calm W cmd : cmd_ok W cmd -> calm (TNone, cmd).
Proof.
  intros [_ _ (H36 & H96 & _) _]. right. cbn [fst snd].
  split; [right; reflexivity|]. split; [apply has_dollar_paren_no_dollar; exact H36 | exact H96].
Qed.

Lemma cmd_still W cmd : cmd_ok W cmd -> still (TNone, cmd).
Proof. intros [_ _ (_ & _ & _ & H42 & H123) _]. right. cbn [fst snd]. auto. Qed.

Theorem do_expansion_inert : forall W fuel cmd l l',
  cmd_ok W cmd -> Forall2 (tok_ok W) l l' ->
  do_expansion Tokenizer.parse_line W fuel ((TNone, cmd) :: l) = Ok ((TNone, cmd) :: l').
Proof.
  intros W fuel cmd l l' Hc Hl.
  pose proof (forall2_tagged_l _ _ _ Hl) as Htag.
  assert (Hcalm : Forall calm ((TNone, cmd) :: l')).
  { constructor; [eapply cmd_calm; eassumption | eapply forall2_calm_r; eassumption]. }
  assert (Hstill : Forall still ((TNone, cmd) :: l')).
  { constructor; [eapply cmd_still; eassumption | eapply forall2_still_r; eassumption]. }
  destruct Hc as [Ha Hn (H36 & H96 & H126 & H42 & H123) Hw] eqn:EHc. clear EHc.
  unfold do_expansion, do_expansion_log.
  rewrite (not_arithmetic W cmd l Hc), (not_export_prompt W cmd l Hc).
  cbn zeta.
  rewrite (expand_alias_tagged _ W cmd l Hc Htag).
  rewrite (expand_home_tagged W cmd l H126 Htag).
  rewrite (expand_env_inert W cmd l l' H36 Hl).
  rewrite (expand_brace_still _ Hstill). cbn [bind].
  rewrite (expand_glob_still W _ Hstill). cbn [bind].
  rewrite (do_command_substitution_calm fuel W _ Hcalm). cbn [bind fst snd].
  rewrite (expand_brace_range_still _ Hstill). reflexivity.
Qed.

Lemma inert_tok_ok W l : Forall inert l -> Forall2 (tok_ok W) l l.
Proof.
  induction 1 as [|[tg s] l Ht _ IH]; constructor; [|exact IH].
  destruct Ht as [Ht|(Ht & H36 & H96)]; cbn [fst snd] in *; subst tg; constructor; assumption.
Qed.

Corollary do_expansion_quoted : forall W fuel cmd l, cmd_ok W cmd ->
  Forall (fun t => fst t = TSq \/ (fst t = TDq /\ ~ In 36 (snd t) /\ ~ In 96 (snd t))) l ->
  do_expansion Tokenizer.parse_line W fuel ((TNone, cmd) :: l) = Ok ((TNone, cmd) :: l).
Proof.
  intros W fuel cmd l Hc Hl. apply do_expansion_inert; [exact Hc|]. apply inert_tok_ok. exact Hl.
Qed.

Corollary do_expansion_one_ref : forall W fuel cmd l1 l2 ps, cmd_ok W cmd -> Forall inert l1 -> Forall inert l2 ->
  wf_pieces ps = true -> gate_ok ps = true ->
  ~ In 96 (den_pieces W ps) -> has_dollar_paren (den_pieces W ps) = false ->
  do_expansion Tokenizer.parse_line W fuel ((TNone, cmd) :: l1 ++ (TDq, render_pieces ps) :: l2)
  = Ok ((TNone, cmd) :: l1 ++ (TDq, den_pieces W ps) :: l2).
Proof.
  intros W fuel cmd l1 l2 ps Hc H1 H2 Hwf Hg H96 Hdp. apply do_expansion_inert; [exact Hc|].
  apply Forall2_app; [apply inert_tok_ok; exact H1|].
  constructor; [constructor; assumption | apply inert_tok_ok; exact H2].
Qed.

(* ------------------------------------------------------------------ the shape the callers use *)
Lemma no36_forallb (s : str) : ~ In 36 s -> @forallb N (fun c : N => negb (c =? 36)) s = true.
Proof.
  induction s as [|c s IH]; intros H; [reflexivity|]. cbn [forallb].
  rewrite IH by (intros X; apply H; right; exact X).
  destruct (c =? 36) eqn:E; [|reflexivity]. apply N.eqb_eq in E. exfalso. apply H. left. exact E.
Qed.

Lemma lits_okg_map_lit noeq (s : str) : lits_okg noeq (map PLit s) = forallb (okg noeq) s.
Proof.
  unfold lits_okg. induction s as [|c s IH]; [reflexivity|]. cbn [map forallb]. rewrite IH. reflexivity.
Qed.

Lemma lits_okg_app noeq a b : lits_okg noeq (a ++ b) = lits_okg noeq a && lits_okg noeq b.
Proof. unfold lits_okg. apply forallb_app. Qed.

Lemma render_one_ref (pre post : str) br name :
  render_pieces (map PLit pre ++ PRef br name :: map PLit post) = pre ++ render_piece (PRef br name) ++ post.
Proof.
  rewrite render_app, render_map_lit. f_equal.
  change (render_pieces (PRef br name :: map PLit post))
    with (render_piece (PRef br name) ++ render_pieces (map PLit post)).
  rewrite render_map_lit. reflexivity.
Qed.

Lemma den_one_ref W (pre post : str) br name :
  den_pieces W (map PLit pre ++ PRef br name :: map PLit post) = pre ++ key_value W name ++ post.
Proof. rewrite den_app, den_map_lit, den_ref, den_map_lit. reflexivity. Qed.

Lemma wf_one_ref (pre post : str) br name :
  ~ In 36 pre -> ~ In 36 post -> is_name name = true ->
  (br = true \/ match post with c :: _ => is_alnum_us c = false | [] => True end) ->
  wf_pieces (map PLit pre ++ PRef br name :: map PLit post) = true.
Proof.
  intros Hpre Hpost Hn Hbr. rewrite wf_map_lit, (no36_forallb pre Hpre). cbn [andb wf_pieces].
  apply andb_true_iff; split; [apply andb_true_iff; split|].
  - unfold wf_key. rewrite Hn. reflexivity.
  - destruct Hbr as [->|Hp]; [reflexivity|]. rewrite Hn. cbn [negb].
    destruct br; [reflexivity|]. cbn [orb].
    destruct post as [|c post]; [reflexivity|]. cbn [map]. rewrite Hp. reflexivity.
  - rewrite <- (app_nil_r (map PLit post)), wf_map_lit, (no36_forallb post Hpost). reflexivity.
Qed.

Lemma gate_one_ref noeq (pre post : str) br name :
  forallb (okg noeq) (pre ++ post) = true ->
  gate_ok (map PLit pre ++ PRef br name :: map PLit post) = true.
Proof.
  intros Hg. rewrite forallb_app in Hg. apply andb_true_iff in Hg as [G1 G2].
  assert (L : lits_okg noeq (map PLit pre ++ PRef br name :: map PLit post) = true).
  { change (PRef br name :: map PLit post) with ([PRef br name] ++ map PLit post).
    rewrite !lits_okg_app, !lits_okg_map_lit, G1, G2. reflexivity. }
  unfold gate_ok. destruct noeq; rewrite L; [reflexivity | apply orb_true_r].
Qed.

(** literal text, ONE reference to a name, literal text *)
Corollary do_expansion_dq_value : forall W fuel cmd l1 l2 noeq br (pre : str) (name : str) (post : str),
  cmd_ok W cmd -> Forall inert l1 -> Forall inert l2 ->
  ~ In 36 pre -> ~ In 36 post -> forallb (okg noeq) (pre ++ post) = true -> is_name name = true ->
  (br = true \/ match post with c :: _ => is_alnum_us c = false | [] => True end) ->
  ~ In 96 (pre ++ key_value W name ++ post) -> has_dollar_paren (pre ++ key_value W name ++ post) = false ->
  do_expansion Tokenizer.parse_line W fuel
    ((TNone, cmd) :: l1 ++ (TDq, pre ++ render_piece (PRef br name) ++ post) :: l2)
  = Ok ((TNone, cmd) :: l1 ++ (TDq, pre ++ key_value W name ++ post) :: l2).
Proof.
  intros W fuel cmd l1 l2 noeq br pre name post Hc H1 H2 Hpre Hpost Hg Hn Hbr H96 Hdp.
  rewrite <- (render_one_ref pre post br name), <- (den_one_ref W pre post br name).
  apply do_expansion_one_ref; try assumption.
  - apply wf_one_ref; assumption.
  - eapply gate_one_ref; eassumption.
  - rewrite den_one_ref. exact H96.
  - rewrite den_one_ref. exact Hdp.
Qed.

(* ------------------------------------------------------------------ refutation side *)
(** an UNTAGGED reference whose value is a pipe becomes the untagged token [|] *)
Example untagged_value_is_syntax :
  do_expansion Tokenizer.parse_line (world_of [(s2l "A", [124])] []) 5
    [(TNone, s2l "echo"); (TNone, s2l "$A")]
  = Ok [(TNone, s2l "echo"); (TNone, [124])].
Proof. vm_compute. reflexivity. Qed.

(** a DOUBLE-QUOTED reference: the value [x$B<newline>|] is data -- its dollar is not expanded again,
    its newline and pipe stay inside the one double-quoted token *)
Example dq_value_is_data :
  do_expansion Tokenizer.parse_line (world_of [(s2l "A", [120; 36; 66; 10; 124])] []) 5
    [(TNone, s2l "echo"); (TDq, s2l "a$A.")]
  = Ok [(TNone, s2l "echo"); (TDq, [97; 120; 36; 66; 10; 124; 46])].
Proof. vm_compute. reflexivity. Qed.

Print Assumptions do_expansion_inert.
Print Assumptions do_expansion_quoted.
Print Assumptions do_expansion_one_ref.
Print Assumptions do_expansion_dq_value.
Print Assumptions untagged_value_is_syntax.
Print Assumptions dq_value_is_data.
