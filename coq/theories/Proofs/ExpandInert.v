(** A command line whose command word is plain and whose arguments are quoted is
    inert under do_expansion, except that double-quoted references in the C10 domain
    are replaced by their one-pass value.  Refutation side: an UNTAGGED reference
    whose value is a pipe becomes an untagged pipe token. *)
From Coq Require Import List NArith ZArith Bool Lia.
From Cicada Require Import Base.Chars Base.Tag Base.Regex Gen.ShellRegexes Model.Expand Model.ExpandRef Proofs.ExpandBasics Proofs.EnvProofs.
From Cicada Require Model.Tokenizer.
Import ListNotations.
From Coq Require String.
Import String.StringSyntax.
Local Open Scope N_scope.

(* ------------------------------------------------------------------ statement *)
(** what the passes need of the command word *)
Definition arith_char (c : char) : bool :=   (* the class of the anchored arithmetic pattern rx_arith_all *)
  (c =? 32) || is_digit c || (c =? 46) || (c =? 40) || (c =? 41) || (c =? 43) || (c =? 45) || (c =? 42) || (c =? 47) || (c =? 94).

Record cmd_ok (W : World) (cmd : str) : Prop := {
  ck_alias : aliases W cmd = None;
  ck_names : cmd <> s2l "xargs" /\ cmd <> s2l "export" /\ cmd <> [124];
  ck_chars : ~ In 36 cmd /\ ~ In 96 cmd /\ ~ In 126 cmd /\ ~ In 42 cmd /\ ~ In 123 cmd;   (* $ ` ~ * { *)
  ck_word : exists c, In c cmd /\ arith_char c = false          (* e.g. a letter: the line is not arithmetic *)
}.

(** how one argument token is transformed *)
Inductive tok_ok (W : World) (fuel : nat) : token -> token -> Prop :=
| ok_sq s : tok_ok W fuel (TSq, s) (TSq, s)
| ok_dq s : ~ In 36 s -> ~ In 96 s -> tok_ok W fuel (TDq, s) (TDq, s)
| ok_ref ps : c10_dom W ps = true -> ~ In 96 (den_pieces W ps) -> (S (count_refs ps) <= fuel)%nat ->
              tok_ok W fuel (TDq, render_pieces ps) (TDq, den_pieces W ps).

(** an argument token no pass after expand_env touches *)
Definition inert (t : token) : Prop :=
  fst t = TSq \/ (fst t = TDq /\ ~ In 36 (snd t) /\ ~ In 96 (snd t)).

(** a token the two command-substitution passes leave alone *)
Definition calm (t : token) : Prop :=
  fst t = TSq \/ (fst t = TDq \/ fst t = TNone) /\ ~ In 36 (snd t) /\ ~ In 96 (snd t).

(** a token the three run_pass passes skip *)
Definition still (t : token) : Prop :=
  fst t <> TNone \/ ~ In 42 (snd t) /\ ~ In 123 (snd t).

Lemma inert_calm t : inert t -> calm t.
Proof. intros [H|(T & H)]; [left; exact H | right; split; [left; exact T | exact H]]. Qed.

Lemma inert_still t : inert t -> still t.
Proof. intros [H|(H & _)]; left; rewrite H; discriminate. Qed.

(* ------------------------------------------------------------------ 0: the early returns *)
Lemma drop_blank_in (c : char) (g : str) :
  c <> 32 -> In c g -> In c (match rev g with c0 :: r => if c0 =? 32 then rev r else g | [] => [] end).
Proof.
  intros Hc Hin. pose proof (proj1 (in_rev g c) Hin) as G. revert G.
  destruct (rev g) as [|c0 r]; intros G; [exact G|].
  destruct (c0 =? 32) eqn:E0; [|exact Hin].
  destruct G as [G|G].
  - apply N.eqb_eq in E0. congruence.
  - apply in_rev in G. exact G.
Qed.

Lemma line_has_cmd (c : char) (cmd : str) (l : tokens) : c <> 32 -> In c cmd -> In c (tokens_to_line ((TNone, cmd) :: l)).
Proof.
  intros Hc Hin. unfold tokens_to_line. apply drop_blank_in; [exact Hc|].
  cbn [tokens_to_line_go tag_is_empty tag_eqb]. apply in_or_app. left. exact Hin.
Qed.

Lemma chr_class n rs s : Matches (Chr n rs) s -> forall c, In c s -> in_cs n rs c = true.
Proof. intros H; inversion H; subst. intros d [<-|[]]. assumption. Qed.

Lemma star_chr_class n rs s : Matches (Star (Chr n rs)) s -> forall c, In c s -> in_cs n rs c = true.
Proof.
  intros H. remember (Star (Chr n rs)) as r eqn:Er.
  induction H as [|n0 rs0 c0 Hc0|a0 b0 x1 x2 Ha _ Hb _|a0 b0 x Hx _|a0 b0 x Hx _|a0|a' s1 s2 H1 _ H2 IH2];
    try discriminate.
  - intros c [].
  - injection Er as ->. intros c Hc. apply in_app_or in Hc as [Hc|Hc].
    + eapply chr_class; eassumption.
    + apply IH2; [reflexivity | exact Hc].
Qed.

Lemma arith_class1 c :
  in_cs false [(32, 32); (48, 57); (46, 46); (40, 40); (41, 41); (43, 43); (45, 45); (42, 42); (47, 47); (94, 94)] c = true ->
  arith_char c = true.
Proof.
  unfold in_cs, arith_char, is_digit. rewrite xorb_false_l. cbn [existsb fst snd]. rewrite orb_false_r.
  rewrite !orb_true_iff, !andb_true_iff, !N.leb_le, !N.eqb_eq. lia.
Qed.

Lemma arith_class2 c :
  in_cs false [(46, 46); (48, 57); (32, 32); (41, 41)] c = true -> arith_char c = true.
Proof.
  unfold in_cs, arith_char, is_digit. rewrite xorb_false_l. cbn [existsb fst snd]. rewrite orb_false_r.
  rewrite !orb_true_iff, !andb_true_iff, !N.leb_le, !N.eqb_eq. lia.
Qed.

Lemma is_arithmetic_false line c : In c line -> arith_char c = false -> is_arithmetic line = false.
Proof.
  intros Hin Hc. unfold is_arithmetic.
  destruct (rx_search rx_arith_digit line); [|reflexivity].
  destruct (rx_search rx_arith_op line); [|reflexivity].
  cbn [negb].
  destruct (rx_search rx_arith_all line) eqn:E; [|reflexivity].
  exfalso. unfold rx_search in E. apply matchb_spec in E.
  unfold rx_full, rx_arith_all in E. cbn [rx_ab rx_ae rx_re] in E.
  apply cat_inv in E as (s1 & s2 & -> & H1 & H2). apply eps_inv in H1; subst s1.
  apply cat_inv in H2 as (s3 & s4 & -> & H3 & H4). apply eps_inv in H4; subst s4.
  apply cat_inv in H3 as (s5 & s6 & -> & H5 & H6).
  apply cat_inv in H5 as (s7 & s8 & -> & H7 & H8).
  cbn [app] in Hin. rewrite app_nil_r in Hin.
  assert (T : arith_char c = true).
  { apply in_app_or in Hin as [Hin|Hin].
    - apply in_app_or in Hin as [Hin|Hin].
      + apply arith_class1. eapply chr_class; eassumption.
      + apply arith_class1. eapply star_chr_class; eassumption.
    - apply arith_class2. eapply chr_class; eassumption. }
  congruence.
Qed.

Lemma not_arithmetic W cmd l : cmd_ok W cmd -> is_arithmetic (tokens_to_line ((TNone, cmd) :: l)) = false.
Proof.
  intros [_ _ _ (c & Hin & Hc)]. apply (is_arithmetic_false _ c); [|exact Hc].
  apply line_has_cmd; [|exact Hin]. intros ->. discriminate.
Qed.

Lemma not_export_prompt W cmd l : cmd_ok W cmd -> is_export_prompt ((TNone, cmd) :: l) = false.
Proof.
  intros [_ (_ & He & _) _ _]. unfold is_export_prompt.
  destruct l as [|[tg b] r]; [reflexivity|].
  rewrite (proj2 (str_eqb_neq _ _) He). reflexivity.
Qed.

(* ------------------------------------------------------------------ 1: expand_alias *)
(** the passes before expand_env only look at the tag of an argument *)
Definition tagged (t : token) : Prop := tag_is_empty (fst t) = false.

Lemma alias_collect_tagged W l : Forall tagged l -> forall i, alias_collect W l i false = [].
Proof.
  induction 1 as [|[tg s] l Ht _ IH]; intros i; [reflexivity|].
  cbn [alias_collect]. unfold tagged in Ht. cbn [fst] in Ht. rewrite Ht. cbn [andb]. apply IH.
Qed.

Lemma expand_alias_tagged tokenize W cmd l :
  cmd_ok W cmd -> Forall tagged l -> expand_alias tokenize W ((TNone, cmd) :: l) = (TNone, cmd) :: l.
Proof.
  intros [Ha (Hx & _ & Hp) _ _] Hl. unfold expand_alias.
  cbn [alias_collect tag_is_empty tag_eqb andb].
  rewrite (proj2 (str_eqb_neq _ _) Hp), (proj2 (str_eqb_neq _ _) Hx), Ha.
  rewrite alias_collect_tagged by exact Hl. reflexivity.
Qed.

(* ------------------------------------------------------------------ 2: expand_home *)
Lemma strip_prefix_absent (c : N) (s : list N) : ~ In c s -> strip_prefix (@cons N c (@nil N)) s = None.
Proof.
  intros H. destruct s as [|d r]; [reflexivity|]. cbn [strip_prefix].
  destruct (c =? d) eqn:E; [|reflexivity]. apply N.eqb_eq in E. exfalso. apply H. left. congruence.
Qed.

Lemma expand_home_map_tagged W l : Forall tagged l -> map (expand_home_tok W) l = l.
Proof.
  induction 1 as [|t l Ht _ IH]; [reflexivity|]. cbn [map]. rewrite IH.
  unfold expand_home_tok. rewrite Ht. reflexivity.
Qed.

Lemma expand_home_tagged W (cmd : str) l :
  ~ In 126 cmd -> Forall tagged l -> expand_home W ((TNone, cmd) :: l) = (TNone, cmd) :: l.
Proof.
  intros Hc Hl. unfold expand_home. cbn [map]. rewrite (expand_home_map_tagged W l Hl).
  unfold expand_home_tok. cbn [fst snd tag_is_empty tag_eqb]. rewrite (strip_prefix_absent 126 cmd Hc).
  reflexivity.
Qed.

(* ------------------------------------------------------------------ 3: expand_env *)
Lemma expand_env_tok_ok W fuel t t' : tok_ok W fuel t t' -> expand_env_tok fuel W t = Ok t'.
Proof.
  intros H. destruct H as [s|s H36 H96|ps Hdom H96 Hf].
  - apply expand_env_tok_quoted. left. reflexivity.
  - unfold expand_env_tok. cbn [fst snd]. rewrite (env_in_token_no_dollar s H36). reflexivity.
  - pose proof (expand_env_pieces W ps TDq Hdom) as P.
    assert (P' : expand_env (S (count_refs ps)) W [(TDq, render_pieces ps)] = Ok [(TDq, den_pieces W ps)])
      by (apply P; discriminate).
    clear P. cbn [expand_env] in P'.
    destruct (expand_env_tok (S (count_refs ps)) W (TDq, render_pieces ps)) as [t1| |] eqn:T;
      cbn [bind res_map] in P'; try discriminate.
    injection P' as ->.
    unfold expand_env_tok in T |- *. cbn [fst snd] in T |- *.
    destruct (env_in_token (render_pieces ps)) eqn:E.
    + destruct (expand_env_loop (S (count_refs ps)) W (render_pieces ps)) as [r| |] eqn:L;
        cbn [res_map] in T; try discriminate.
      injection T as ->.
      rewrite (expand_env_loop_ge _ _ _ _ L fuel Hf). reflexivity.
    + exact T.
Qed.

Lemma expand_env_forall2 W fuel l l' : Forall2 (tok_ok W fuel) l l' -> expand_env fuel W l = Ok l'.
Proof.
  induction 1 as [|t t' l l' Ht _ IH]; [reflexivity|].
  cbn [expand_env]. rewrite (expand_env_tok_ok _ _ _ _ Ht). cbn [bind]. rewrite IH. reflexivity.
Qed.

Lemma expand_env_inert W fuel (cmd : str) l l' :
  ~ In 36 cmd -> Forall2 (tok_ok W fuel) l l' ->
  expand_env fuel W ((TNone, cmd) :: l) = Ok ((TNone, cmd) :: l').
Proof.
  intros Hc Hl. cbn [expand_env]. unfold expand_env_tok at 1. cbn [fst snd].
  rewrite (env_in_token_no_dollar cmd Hc). cbn [bind].
  rewrite (expand_env_forall2 _ _ _ _ Hl). reflexivity.
Qed.

(* ------------------------------------------------------------------ 4: what expand_env leaves behind *)
Lemma okc_36 noeq : okc noeq 36 = false.
Proof. destruct noeq; reflexivity. Qed.

Lemma den_no_dollar noeq W ps : dom_ok noeq W ps = true -> ~ In 36 (den_pieces W ps).
Proof.
  intros H Hin. unfold den_pieces in Hin. apply in_flat_map in Hin as (p & Hp & Hc).
  unfold dom_ok, lits_ok, vals_ok in H. apply andb_true_iff in H as [Hl Hv].
  rewrite forallb_forall in Hl, Hv. specialize (Hl p Hp). specialize (Hv p Hp).
  destruct p as [c|b k]; cbn [den_piece] in Hc.
  - destruct Hc as [->|[]]. rewrite okc_36 in Hl. discriminate.
  - rewrite forallb_forall in Hv. specialize (Hv 36 Hc). rewrite okc_36 in Hv. discriminate.
Qed.

Lemma tok_ok_tagged_l W fuel t t' : tok_ok W fuel t t' -> tagged t.
Proof. intros [s|s _ _|ps _ _ _]; reflexivity. Qed.

Lemma forall2_tagged_l W fuel l l' : Forall2 (tok_ok W fuel) l l' -> Forall tagged l.
Proof.
  induction 1 as [|t t' l l' Ht _ IH]; constructor; [eapply tok_ok_tagged_l; eassumption | exact IH].
Qed.

Lemma tok_ok_inert_r W fuel t t' : tok_ok W fuel t t' -> inert t'.
Proof.
  intros [s|s H36 H96|ps Hdom H96 Hf].
  - left. reflexivity.
  - right. cbn [fst snd]. auto.
  - right. cbn [fst snd]. split; [reflexivity|]. split; [|exact H96].
    unfold c10_dom in Hdom. apply andb_true_iff in Hdom as [_ Hd].
    apply orb_true_iff in Hd as [Hd|Hd]; eapply den_no_dollar; eassumption.
Qed.

Lemma forall2_inert_r W fuel l l' : Forall2 (tok_ok W fuel) l l' -> Forall inert l'.
Proof.
  induction 1 as [|t t' l l' Ht _ IH]; constructor; [eapply tok_ok_inert_r; eassumption | exact IH].
Qed.

(* ------------------------------------------------------------------ 5: the three run_pass passes *)
Lemma collect_skip sel toks :
  (forall t, In t toks -> sel t = Ok Skip) -> forall i, collect sel toks i = Ok (Some []).
Proof.
  induction toks as [|t r IH]; intros H i; [reflexivity|].
  cbn [collect]. rewrite (H t) by (left; reflexivity). cbn [bind].
  apply IH. intros x Hx. apply H. right. exact Hx.
Qed.

Lemma run_pass_skip sel toks : (forall t, In t toks -> sel t = Ok Skip) -> run_pass sel toks = Ok toks.
Proof. intros H. unfold run_pass. rewrite (collect_skip sel toks H 0). reflexivity. Qed.

Lemma still_tag_cases (t : token) :
  still t -> negb (tag_is_empty (fst t)) = true \/ ~ In 42 (snd t) /\ ~ In 123 (snd t).
Proof.
  intros [H|H]; [left | right; exact H]. destruct (fst t); try reflexivity. contradiction.
Qed.

Lemma brace_sel_still t : still t -> brace_sel t = Ok Skip.
Proof.
  intros H. unfold brace_sel. destruct (still_tag_cases t H) as [E|(_ & H123)].
  - rewrite E. reflexivity.
  - unfold need_expand_brace. destruct (rx_search rx_need_brace (snd t)) eqn:E.
    + exfalso. apply H123. apply (rx_search_requires 123 rx_need_brace); [reflexivity | exact E].
    + cbn [negb]. rewrite orb_true_r. reflexivity.
Qed.

Lemma glob_sel_still W t : still t -> glob_sel W t = Ok Skip.
Proof.
  intros H. unfold glob_sel. destruct (still_tag_cases t H) as [E|(H42 & _)].
  - rewrite E. reflexivity.
  - unfold needs_globbing. destruct (rx_search rx_needs_glob (snd t)) eqn:E.
    + exfalso. apply H42. apply (rx_search_requires 42 rx_needs_glob); [reflexivity | exact E].
    + cbn [negb]. rewrite orb_true_r. reflexivity.
Qed.

Lemma range_sel_still t : still t -> range_sel t = Ok Skip.
Proof.
  intros H. unfold range_sel. destruct (still_tag_cases t H) as [E|(_ & H123)].
  - rewrite E. reflexivity.
  - destruct (rx_search rx_brace_range (snd t)) eqn:E.
    + exfalso. apply H123. apply (rx_search_requires 123 rx_brace_range); [reflexivity | exact E].
    + cbn [negb]. rewrite orb_true_r. reflexivity.
Qed.

Lemma expand_brace_still toks : Forall still toks -> expand_brace toks = Ok toks.
Proof.
  intros H. apply run_pass_skip. intros t Ht. apply brace_sel_still.
  rewrite Forall_forall in H. apply H. exact Ht.
Qed.

Lemma expand_glob_still W toks : Forall still toks -> expand_glob W toks = Ok toks.
Proof.
  intros H. apply run_pass_skip. intros t Ht. apply glob_sel_still.
  rewrite Forall_forall in H. apply H. exact Ht.
Qed.

Lemma expand_brace_range_still toks : Forall still toks -> expand_brace_range toks = Ok toks.
Proof.
  intros H. apply run_pass_skip. intros t Ht. apply range_sel_still.
  rewrite Forall_forall in H. apply H. exact Ht.
Qed.

(* ------------------------------------------------------------------ 6: command substitution *)
Lemma span_not_bq s : ~ In 96 s -> span not_bq s = (s, []).
Proof.
  induction s as [|c r IH]; intros H; [reflexivity|]. cbn [span].
  assert (E : not_bq c = true).
  { unfold not_bq. destruct (c =? 96) eqn:E; [|reflexivity].
    apply N.eqb_eq in E. exfalso. apply H. left. exact E. }
  rewrite E, IH by (intros X; apply H; right; exact X). reflexivity.
Qed.

Lemma dot_split_none s : ~ In 96 s -> dot_split s = None.
Proof. intros H. unfold dot_split. rewrite (span_not_bq s H). reflexivity. Qed.

Lemma should_do_dollar_false s : ~ In 36 s -> should_do_dollar s = false.
Proof.
  intros H. unfold should_do_dollar. destruct (rx_search rx_dollar_cmd s) eqn:E; [|reflexivity].
  exfalso. apply H. apply (rx_search_requires 36 rx_dollar_cmd); [reflexivity | exact E].
Qed.

Lemma dot_collect_calm W toks :
  Forall calm toks -> forall i log, dot_collect W toks i log = Ok ([], log).
Proof.
  induction 1 as [|[tg s] r Ht _ IH]; intros i log; [reflexivity|].
  cbn [dot_collect]. destruct Ht as [Ht|(Ht & _ & H96)]; cbn [fst snd] in *.
  - subst tg. apply IH.
  - rewrite (dot_split_none s H96). destruct Ht; subst tg; apply IH.
Qed.

Lemma subst_dot_calm W toks : Forall calm toks -> subst_dot W toks [] = Ok (toks, []).
Proof. intros H. unfold subst_dot. rewrite (dot_collect_calm W toks H). reflexivity. Qed.

Lemma dollar_pass_calm fuel W toks :
  Forall calm toks -> forall log, dollar_pass fuel W toks log = Ok (Some toks, log).
Proof.
  induction 1 as [|[tg s] r Ht _ IH]; intros log; [reflexivity|].
  cbn [dollar_pass]. rewrite IH. cbn [bind option_map fst snd].
  destruct Ht as [Ht|(_ & H36 & _)]; cbn [fst snd] in *.
  - subst tg. reflexivity.
  - rewrite (should_do_dollar_false s H36). cbn [negb]. rewrite orb_true_r. reflexivity.
Qed.

Lemma subst_dollar_calm fuel W toks : Forall calm toks -> subst_dollar fuel W toks [] = Ok (toks, []).
Proof. intros H. unfold subst_dollar. rewrite (dollar_pass_calm fuel W toks H). reflexivity. Qed.

Lemma do_command_substitution_calm fuel W toks :
  Forall calm toks -> do_command_substitution fuel W toks = Ok (toks, []).
Proof.
  intros H. unfold do_command_substitution. rewrite (subst_dot_calm W toks H). cbn [bind fst snd].
  apply subst_dollar_calm. exact H.
Qed.

(* ------------------------------------------------------------------ assembly *)
Lemma cmd_calm W cmd : cmd_ok W cmd -> calm (TNone, cmd).
Proof. intros [_ _ (H36 & H96 & _) _]. right. cbn [fst snd]. auto. Qed.

Lemma cmd_still W cmd : cmd_ok W cmd -> still (TNone, cmd).
Proof. intros [_ _ (_ & _ & _ & H42 & H123) _]. right. cbn [fst snd]. auto. Qed.

Theorem do_expansion_inert : forall W fuel cmd l l',
  cmd_ok W cmd -> Forall2 (tok_ok W fuel) l l' ->
  do_expansion Tokenizer.parse_line W fuel ((TNone, cmd) :: l) = Ok ((TNone, cmd) :: l').
Proof.
  intros W fuel cmd l l' Hc Hl.
  pose proof (forall2_tagged_l _ _ _ _ Hl) as Htag.
  pose proof (forall2_inert_r _ _ _ _ Hl) as Hin.
  assert (Hcalm : Forall calm ((TNone, cmd) :: l')).
  { constructor; [eapply cmd_calm; eassumption|]. eapply Forall_impl; [|exact Hin]. apply inert_calm. }
  assert (Hstill : Forall still ((TNone, cmd) :: l')).
  { constructor; [eapply cmd_still; eassumption|]. eapply Forall_impl; [|exact Hin]. apply inert_still. }
  destruct Hc as [Ha Hn (H36 & H96 & H126 & H42 & H123) Hw] eqn:EHc. clear EHc.
  unfold do_expansion, do_expansion_log.
  rewrite (not_arithmetic W cmd l Hc), (not_export_prompt W cmd l Hc).
  cbn zeta.
  rewrite (expand_alias_tagged _ W cmd l Hc Htag).
  rewrite (expand_home_tagged W cmd l H126 Htag).
  rewrite (expand_env_inert W fuel cmd l l' H36 Hl). cbn [bind].
  rewrite (expand_brace_still _ Hstill). cbn [bind].
  rewrite (expand_glob_still W _ Hstill). cbn [bind].
  rewrite (do_command_substitution_calm fuel W _ Hcalm). cbn [bind fst snd].
  rewrite (expand_brace_range_still _ Hstill). reflexivity.
Qed.

Lemma inert_tok_ok W fuel l : Forall inert l -> Forall2 (tok_ok W fuel) l l.
Proof.
  induction 1 as [|[tg s] l Ht _ IH]; constructor; [|exact IH].
  destruct Ht as [Ht|(Ht & H36 & H96)]; cbn [fst snd] in *; subst tg; constructor; assumption.
Qed.

Corollary do_expansion_quoted : forall W fuel cmd l, cmd_ok W cmd ->
  Forall (fun t => fst t = TSq \/ (fst t = TDq /\ ~ In 36 (snd t) /\ ~ In 96 (snd t))) l ->
  do_expansion Tokenizer.parse_line W fuel ((TNone, cmd) :: l) = Ok ((TNone, cmd) :: l).
Proof.
  intros W fuel cmd l Hc Hl. apply do_expansion_inert; [exact Hc|]. apply inert_tok_ok. exact Hl.
Qed.

Corollary do_expansion_one_ref : forall W fuel cmd l1 l2 ps, cmd_ok W cmd ->
  Forall (fun t => fst t = TSq \/ (fst t = TDq /\ ~ In 36 (snd t) /\ ~ In 96 (snd t))) l1 ->
  Forall (fun t => fst t = TSq \/ (fst t = TDq /\ ~ In 36 (snd t) /\ ~ In 96 (snd t))) l2 ->
  c10_dom W ps = true -> ~ In 96 (den_pieces W ps) -> (S (count_refs ps) <= fuel)%nat ->
  do_expansion Tokenizer.parse_line W fuel ((TNone, cmd) :: l1 ++ (TDq, render_pieces ps) :: l2)
  = Ok ((TNone, cmd) :: l1 ++ (TDq, den_pieces W ps) :: l2).
Proof.
  intros W fuel cmd l1 l2 ps Hc H1 H2 Hd H96 Hf. apply do_expansion_inert; [exact Hc|].
  apply Forall2_app; [apply inert_tok_ok; exact H1|].
  constructor; [constructor; assumption | apply inert_tok_ok; exact H2].
Qed.

(* ------------------------------------------------------------------ refutation side *)
(** an UNTAGGED reference whose value is a pipe becomes the untagged token [|] *)
Example untagged_value_is_syntax :
  do_expansion Tokenizer.parse_line (world_of [(s2l "A", [124])] []) 5
    [(TNone, s2l "echo"); (TNone, s2l "$A")]
  = Ok [(TNone, s2l "echo"); (TNone, [124])].
Proof. vm_compute. reflexivity. Qed.

Print Assumptions do_expansion_inert.
Print Assumptions do_expansion_quoted.
Print Assumptions do_expansion_one_ref.
Print Assumptions untagged_value_is_syntax.
