(** The third transcription of jobc::wait_fg_job, [Model.WaitFg.wait_loop] (C02's,
    over raw (pid, kind, val) triples), against C06's [Model.Jobs.wait_loop]: on
    the encoded statuses they consume the same statuses and return the same
    cmd_result.status (no member has pid 0: the [is_exited] quirk). *)
From Coq Require Import ZArith List Bool Arith Lia.
From Cicada Require Model.WaitFg Model.Jobs.
Import ListNotations.
Local Open Scope Z_scope.

Definition enc (e : Jobs.ev) : WaitFg.ws :=
  match e with
  | Jobs.Exited p s => (p, 0, s)
  | Jobs.Signaled p s => (p, 1, s)
  | Jobs.StoppedE p s => (p, 2, s)
  | Jobs.Continued p => (p, 3, 0)
  end.

Lemma contains_memZ : forall l x, WaitFg.contains l x = Jobs.memZ x l.
Proof.
  intros l x. unfold WaitFg.contains. induction l as [|y l IH]; [reflexivity|].
  cbn [existsb Jobs.memZ]. rewrite IH, (Z.eqb_sym x y). destruct (y =? x); reflexivity.
Qed.

Lemma set_insert_hs_add : forall x l, WaitFg.set_insert x l = Jobs.hs_add x l.
Proof. intros. unfold WaitFg.set_insert, Jobs.hs_add. rewrite contains_memZ. reflexivity. Qed.

Lemma set_remove_hs_remove : forall x l, WaitFg.set_remove x l = Jobs.hs_remove x l.
Proof. reflexivity. Qed.

Lemma memZ_0 : forall pids, ~ In 0 pids -> Jobs.memZ 0 pids = false.
Proof.
  induction pids as [|y l IH]; intros H; [reflexivity|]. cbn [Jobs.memZ].
  destruct (Z.eqb_spec y 0) as [E|E]; [exfalso; apply H; left; exact E|].
  apply IH. intros X. apply H. right. exact X.
Qed.

Lemma waitfg_is_jobs : forall pids pl cc gid, ~ In 0 pids ->
  forall evs s status settled consumed side,
  WaitFg.r_status (WaitFg.wait_loop pids pl cc (map enc evs) status settled consumed side) =
    Jobs.w_status (Jobs.wait_loop evs s gid pids pl cc settled status) /\
  WaitFg.r_left (WaitFg.wait_loop pids pl cc (map enc evs) status settled consumed side) =
    map enc (Jobs.w_left (Jobs.wait_loop evs s gid pids pl cc settled status)).
Proof.
  intros pids pl cc gid H0. induction evs as [|e evs IH]; intros s status settled consumed side.
  - split; reflexivity.
  - destruct e as [p x|p x|p x|p]; cbn [map enc].
    + (* exited *)
      cbn [WaitFg.wait_loop Jobs.wait_loop Jobs.ev_pid Jobs.is_cont Jobs.ev_status].
      unfold WaitFg.is_error, WaitFg.is_exited, WaitFg.is_stopped, WaitFg.is_continued, WaitFg.is_signaled,
        WaitFg.get_status, WaitFg.is_exited, WaitFg.get_signaled_status, WaitFg.ws_kind, WaitFg.ws_pid, WaitFg.ws_val.
      cbn [fst snd Z.eqb Pos.eqb andb negb].
      rewrite contains_memZ, set_insert_hs_add.
      destruct (Z.eqb_spec p 0) as [E|E]; cbn [negb andb].
      * subst p. rewrite (memZ_0 pids H0). cbn [andb].
        destruct (cc <=? length settled)%nat; [split; reflexivity|apply IH].
      * destruct (Jobs.memZ p pids); cbn [andb];
          (destruct (Nat.leb cc _); [split; reflexivity|apply IH]).
    + cbn [WaitFg.wait_loop Jobs.wait_loop Jobs.ev_pid Jobs.is_cont Jobs.ev_status].
      unfold WaitFg.is_error, WaitFg.is_exited, WaitFg.is_stopped, WaitFg.is_continued, WaitFg.is_signaled,
        WaitFg.get_status, WaitFg.is_exited, WaitFg.get_signaled_status, WaitFg.ws_kind, WaitFg.ws_pid, WaitFg.ws_val.
      cbn [fst snd Z.eqb Pos.eqb andb negb].
      rewrite contains_memZ, set_insert_hs_add. rewrite andb_false_r.
      destruct (Jobs.memZ p pids); cbn [andb];
        (destruct (Nat.leb cc _); [split; reflexivity|apply IH]).
    + cbn [WaitFg.wait_loop Jobs.wait_loop Jobs.ev_pid Jobs.is_cont Jobs.ev_status].
      unfold WaitFg.is_error, WaitFg.is_exited, WaitFg.is_stopped, WaitFg.is_continued, WaitFg.is_signaled,
        WaitFg.get_status, WaitFg.is_exited, WaitFg.get_signaled_status, WaitFg.ws_kind, WaitFg.ws_pid, WaitFg.ws_val.
      cbn [fst snd Z.eqb Pos.eqb andb negb].
      rewrite contains_memZ, set_insert_hs_add. rewrite andb_false_r.
      destruct (Jobs.memZ p pids); cbn [andb];
        (destruct (Nat.leb cc _); [split; reflexivity|apply IH]).
    + cbn [WaitFg.wait_loop Jobs.wait_loop Jobs.ev_pid Jobs.is_cont Jobs.ev_status].
      unfold WaitFg.is_error, WaitFg.is_exited, WaitFg.is_stopped, WaitFg.is_continued, WaitFg.is_signaled,
        WaitFg.ws_kind, WaitFg.ws_pid, WaitFg.ws_val.
      cbn [fst snd Z.eqb Pos.eqb andb negb].
      rewrite contains_memZ, set_remove_hs_remove. rewrite andb_false_r.
      destruct (Jobs.memZ p pids); apply IH.
Qed.
