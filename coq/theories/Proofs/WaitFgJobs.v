(** The third transcription of jobc::wait_fg_job, [Model.WaitFg.wait_loop] (C02's,
    over raw (pid, kind, val) triples), against C06's [Model.Jobs.wait_loop]: on
    the encoded statuses they consume the same statuses and return the same
    cmd_result.status (no member has pid 0: the [is_exited] quirk). *)
From Coq Require Import ZArith List Bool Arith Lia.
From Cicada Require Model.WaitFg Model.Jobs.
Import ListNotations.
Local Open Scope Z_scope.

Definition enc (e : Jobs.ev) : WaitFg.ws :=
  match e with
  | Jobs.Exited p s => (p, 0, s)
  | Jobs.Signaled p s => (p, 1, s)
  | Jobs.StoppedE p s => (p, 2, s)
  | Jobs.Continued p => (p, 3, 0)
  end.

Lemma contains_memZ : forall l x, WaitFg.contains l x = Jobs.memZ x l.
Proof.
  intros l x. unfold WaitFg.contains. induction l as [|y l IH]; [reflexivity|].
  cbn [existsb Jobs.memZ]. rewrite IH, (Z.eqb_sym x y). destruct (y =? x); reflexivity.
Qed.

Lemma set_insert_hs_add : forall x l, WaitFg.set_insert x l = Jobs.hs_add x l.
Proof. intros. unfold WaitFg.set_insert, Jobs.hs_add. rewrite contains_memZ. reflexivity. Qed.

Lemma set_remove_hs_remove : forall x l, WaitFg.set_remove x l = Jobs.hs_remove x l.
Proof. reflexivity. Qed.

Lemma memZ_0 : forall pids, ~ In 0 pids -> Jobs.memZ 0 pids = false.
Proof.
  induction pids as [|y l IH]; intros H; [reflexivity|]. cbn [Jobs.memZ].
  destruct (Z.eqb_spec y 0) as [E|E]; [exfalso; apply H; left; exact E|].
  apply IH. intros X. apply H. right. exact X.
Qed.

Lemma waitfg_is_jobs : forall pids pl cc gid, ~ In 0 pids ->
  forall evs s status settled consumed side,
  WaitFg.r_status (WaitFg.wait_loop pids pl cc (map enc evs) status settled consumed side) =
    Jobs.w_status (Jobs.wait_loop evs s gid pids pl cc settled status) /\
  WaitFg.r_left (WaitFg.wait_loop pids pl cc (map enc evs) status settled consumed side) =
    map enc (Jobs.w_left (Jobs.wait_loop evs s gid pids pl cc settled status)).
Proof.
  intros pids pl cc gid H0. induction evs as [|e evs IH]; intros s status settled consumed side.
  - split; reflexivity.
  - destruct e as [p x|p x|p x|p]; cbn [map enc].
    + (* exited *)
      cbn [WaitFg.wait_loop Jobs.wait_loop Jobs.ev_pid Jobs.is_cont Jobs.ev_status].
      unfold WaitFg.is_error, WaitFg.is_exited, WaitFg.is_stopped, WaitFg.is_continued, WaitFg.is_signaled,
        WaitFg.get_status, WaitFg.is_exited, WaitFg.get_signaled_status, WaitFg.ws_kind, WaitFg.ws_pid, WaitFg.ws_val.
      cbn [fst snd Z.eqb Pos.eqb andb negb].
      rewrite contains_memZ, set_insert_hs_add.
      destruct (Z.eqb_spec p 0) as [E|E]; cbn [negb andb].
      * subst p. rewrite (memZ_0 pids H0). cbn [andb].
        destruct (cc <=? length settled)%nat; [split; reflexivity|apply IH].
      * destruct (Jobs.memZ p pids); cbn [andb];
          (destruct (Nat.leb cc _); [split; reflexivity|apply IH]).
    + cbn [WaitFg.wait_loop Jobs.wait_loop Jobs.ev_pid Jobs.is_cont Jobs.ev_status].
      unfold WaitFg.is_error, WaitFg.is_exited, WaitFg.is_stopped, WaitFg.is_continued, WaitFg.is_signaled,
        WaitFg.get_status, WaitFg.is_exited, WaitFg.get_signaled_status, WaitFg.ws_kind, WaitFg.ws_pid, WaitFg.ws_val.
      cbn [fst snd Z.eqb Pos.eqb andb negb].
      rewrite contains_memZ, set_insert_hs_add. rewrite andb_false_r.
      destruct (Jobs.memZ p pids); cbn [andb];
        (destruct (Nat.leb cc _); [split; reflexivity|apply IH]).
    + cbn [WaitFg.wait_loop Jobs.wait_loop Jobs.ev_pid Jobs.is_cont Jobs.ev_status].
      unfold WaitFg.is_error, WaitFg.is_exited, WaitFg.is_stopped, WaitFg.is_continued, WaitFg.is_signaled,
        WaitFg.get_status, WaitFg.is_exited, WaitFg.get_signaled_status, WaitFg.ws_kind, WaitFg.ws_pid, WaitFg.ws_val.
      cbn [fst snd Z.eqb Pos.eqb andb negb].
      rewrite contains_memZ, set_insert_hs_add. rewrite andb_false_r.
      destruct (Jobs.memZ p pids); cbn [andb];
        (destruct (Nat.leb cc _); [split; reflexivity|apply IH]).
    + cbn [WaitFg.wait_loop Jobs.wait_loop Jobs.ev_pid Jobs.is_cont Jobs.ev_status].
      unfold WaitFg.is_error, WaitFg.is_exited, WaitFg.is_stopped, WaitFg.is_continued, WaitFg.is_signaled,
        WaitFg.ws_kind, WaitFg.ws_pid, WaitFg.ws_val.
      cbn [fst snd Z.eqb Pos.eqb andb negb].
      rewrite contains_memZ, set_remove_hs_remove. rewrite andb_false_r.
      destruct (Jobs.memZ p pids); apply IH.
Qed.

(** ---------- [r_consumed], and the error answers of WaitFg (kind 255) *)
Ltac wf_simp :=
  cbn [WaitFg.wait_loop Jobs.wait_loop Jobs.ev_pid Jobs.is_cont Jobs.ev_status map app enc];
  unfold WaitFg.is_error, WaitFg.is_exited, WaitFg.is_stopped, WaitFg.is_continued, WaitFg.is_signaled,
    WaitFg.get_status, WaitFg.is_exited, WaitFg.get_signaled_status, WaitFg.ws_kind, WaitFg.ws_pid, WaitFg.ws_val;
  cbn [fst snd Z.eqb Pos.eqb andb negb];
  rewrite ?contains_memZ, ?set_insert_hs_add, ?set_remove_hs_remove, ?andb_false_r.

(** statuses consumed + statuses left = statuses delivered *)
Lemma waitfg_consumed : forall pids pl cc gid,
  forall evs s status status2 settled consumed side,
  (WaitFg.r_consumed (WaitFg.wait_loop pids pl cc (map enc evs) status settled consumed side) +
   length (Jobs.w_left (Jobs.wait_loop evs s gid pids pl cc settled status2)) = consumed + length evs)%nat.
Proof.
  intros pids pl cc gid. induction evs as [|e evs IH]; intros s status status2 settled consumed side.
  - cbn. lia.
  - destruct e as [p x|p x|p x|p]; wf_simp.
    + destruct (negb (p =? 0)); cbn [andb]; destruct (Jobs.memZ p pids); cbn [andb];
        (destruct (Nat.leb cc _); [cbn; lia|rewrite IH; cbn [length]; lia]).
    + destruct (Jobs.memZ p pids); cbn [andb];
        (destruct (Nat.leb cc _); [cbn; lia|rewrite IH; cbn [length]; lia]).
    + destruct (Jobs.memZ p pids); cbn [andb];
        (destruct (Nat.leb cc _); [cbn; lia|rewrite IH; cbn [length]; lia]).
    + destruct (Jobs.memZ p pids); rewrite IH; cbn [length]; lia.
Qed.

(** an error answer (kind 255, errno [v]) after statuses on which C06's loop is still
    blocked: WaitFg's loop breaks there; ECHILD keeps the status C06's loop has, any
    other errno becomes the status; the error is consumed, the rest is left *)
Lemma waitfg_error_after_blocked : forall pids pl cc gid, ~ In 0 pids ->
  forall evs s status settled consumed side p v post,
  Jobs.w_blocked (Jobs.wait_loop evs s gid pids pl cc settled status) = true ->
  let r := WaitFg.wait_loop pids pl cc (map enc evs ++ (p, 255, v) :: post) status settled consumed side in
  WaitFg.r_status r =
    (if v =? WaitFg.ECHILD then Jobs.w_status (Jobs.wait_loop evs s gid pids pl cc settled status) else v) /\
  WaitFg.r_left r = post /\ WaitFg.r_consumed r = (consumed + S (length evs))%nat.
Proof.
  intros pids pl cc gid H0. induction evs as [|e evs IH]; intros s status settled consumed side p v post.
  - intros _. cbn [map app WaitFg.wait_loop]. unfold WaitFg.is_error, WaitFg.ws_kind, WaitFg.ws_val.
    cbn [fst snd Z.eqb Pos.eqb Jobs.wait_loop Jobs.w_status length].
    destruct (v =? WaitFg.ECHILD); cbn; repeat split; lia.
  - destruct e as [q x|q x|q x|q]; wf_simp.
    + destruct (Z.eqb_spec q 0) as [E|E]; cbn [negb andb].
      * subst q. rewrite (memZ_0 pids H0). cbn [andb].
        destruct (cc <=? length settled)%nat; [intros B; discriminate B|].
        intros B. cbn zeta. rewrite (proj1 (IH _ _ _ _ _ p v post B)), (proj1 (proj2 (IH _ _ _ _ _ p v post B))),
          (proj2 (proj2 (IH _ _ _ _ _ p v post B))). cbn [length]. repeat split; lia.
      * destruct (Jobs.memZ q pids); cbn [andb];
          (destruct (Nat.leb cc _); [intros B; discriminate B|]);
          intros B; cbn zeta; rewrite (proj1 (IH _ _ _ _ _ p v post B)), (proj1 (proj2 (IH _ _ _ _ _ p v post B))),
            (proj2 (proj2 (IH _ _ _ _ _ p v post B))); cbn [length]; repeat split; lia.
    + destruct (Jobs.memZ q pids); cbn [andb];
        (destruct (Nat.leb cc _); [intros B; discriminate B|]);
        intros B; cbn zeta; rewrite (proj1 (IH _ _ _ _ _ p v post B)), (proj1 (proj2 (IH _ _ _ _ _ p v post B))),
          (proj2 (proj2 (IH _ _ _ _ _ p v post B))); cbn [length]; repeat split; lia.
    + destruct (Jobs.memZ q pids); cbn [andb];
        (destruct (Nat.leb cc _); [intros B; discriminate B|]);
        intros B; cbn zeta; rewrite (proj1 (IH _ _ _ _ _ p v post B)), (proj1 (proj2 (IH _ _ _ _ _ p v post B))),
          (proj2 (proj2 (IH _ _ _ _ _ p v post B))); cbn [length]; repeat split; lia.
    + destruct (Jobs.memZ q pids);
        intros B; cbn zeta; rewrite (proj1 (IH _ _ _ _ _ p v post B)), (proj1 (proj2 (IH _ _ _ _ _ p v post B))),
          (proj2 (proj2 (IH _ _ _ _ _ p v post B))); cbn [length]; repeat split; lia.
Qed.
