(** Float mode is the fold of the f64 oracle over the Pratt tree: whatever the
    f64 operations are, [run_calculator_f] applies them in the order and with
    the grouping given by the tree [run_calculator] yields, so the precedence /
    associativity / text theorems about that tree carry over to float mode. *)
From Coq Require Import ZArith Lia.
From Cicada Require Import Base.Chars Model.Calc Model.CalcFloat Proofs.CalcPratt Proofs.CalcFusion Proofs.CalcLine
  Proofs.CalcPrint.
Local Open Scope N_scope.

Section FloatStructure.
  Variable F : Type.
  Variable ops : fops F.

  Lemma fold_fold_float t : fold (float_prim ops) (float_infix ops) t = Ok (fold_float ops t).
  Proof.
    induction t as [l|o a IHa b IHb]; [reflexivity|].
    cbn [fold fold_float]. rewrite IHa, IHb. reflexivity.
  Qed.

  (** evaluating inside the Pratt parser = folding the tree it builds *)
  Theorem eval_float_fold fuel ps t :
    pratt_tree fuel ps = Ok t -> eval_float ops fuel ps = Ok (fold_float ops t).
  Proof.
    intros H. unfold eval_float.
    rewrite (pratt_fold _ _ prec_of is_left (float_prim ops) (float_infix ops) fuel ps t H).
    apply fold_fold_float.
  Qed.

  Theorem float_structure line t :
    run_calculator line = RFloat (Ok t) ->
    run_calculator_f ops line = FFloat (Ok (fold_float ops t)).
  Proof.
    unfold run_calculator, run_calculator_f.
    destruct (parse_calc line) as [ps| |]; try discriminate.
    destruct (has_dot line); [|discriminate].
    intros H. injection H as H. exact (f_equal FFloat (eval_float_fold _ _ _ H)).
  Qed.

  Theorem float_structure_int line r :
    run_calculator line = RInt r -> run_calculator_f ops line = FInt r.
  Proof.
    unfold run_calculator, run_calculator_f.
    destruct (parse_calc line) as [ps| |]; try discriminate.
    destruct (has_dot line); [discriminate|].
    intros H. injection H as <-. reflexivity.
  Qed.

  (** all four outcomes at once; a float-mode line always has a tree
      ([run_calculator_float]), so the [RFloat] row loses nothing *)
  Theorem float_structure_all line :
    match run_calculator line with
    | RSyntax => run_calculator_f ops line = FSyntax
    | RFuel => run_calculator_f ops line = FFuel
    | RInt r => run_calculator_f ops line = FInt r
    | RFloat r => exists t, r = Ok t /\ run_calculator_f ops line = FFloat (Ok (fold_float ops t))
    end.
  Proof.
    destruct (run_calculator line) as [|r|r|] eqn:E.
    - unfold run_calculator in E. unfold run_calculator_f.
      destruct (parse_calc line); try discriminate; [destruct (has_dot line); discriminate|reflexivity].
    - exact (float_structure_int _ _ E).
    - destruct (run_calculator_float line r E) as (t & _ & ->).
      exists t. split; [reflexivity|]. exact (float_structure _ _ E).
    - unfold run_calculator in E. unfold run_calculator_f.
      destruct (parse_calc line); try discriminate; [destruct (has_dot line); discriminate|reflexivity].
  Qed.

  (** the text of an expression tree (any uniform blank spelling, CalcPrint) in
      float mode evaluates to the fold of the oracle over that very tree *)
  Theorem float_structure_render sp q :
    forallb is_blankc sp = true -> leaves_ok q -> has_dot (render_str sp q) = true ->
    run_calculator_f ops (render_str sp q) = FFloat (Ok (fold_float ops (strip q))).
  Proof.
    intros Hsp Hq Hd. apply float_structure. exact (run_calculator_render_float sp q Hsp Hq Hd).
  Qed.
End FloatStructure.

(* ------------------------------------------------------------------ *)
(** * The unwrap of the literal parse: every num token has the syntax dec2flt accepts *)

Definition stop (r : str) : bool := match r with [] => true | c :: _ => negb (is_digit c) end.

Lemma td_spec s : forall d r, take_digits s = (d, r) -> s = d ++ r /\ forallb is_digit d = true /\ stop r = true.
Proof.
  induction s as [|c s IH]; intros d r; cbn [take_digits].
  - intros H. injection H as <- <-. auto.
  - destruct (is_digit c) eqn:D.
    + destruct (take_digits s) as [d' r'] eqn:E. intros H. injection H as <- <-.
      destruct (IH _ _ eq_refl) as (-> & Hd & Hs). cbn [forallb app]. rewrite D, Hd. auto.
    + intros H. injection H as <- <-. cbn [stop app forallb]. rewrite D. auto.
Qed.

Lemma td_app d : forall r, forallb is_digit d = true -> stop r = true -> take_digits (d ++ r) = (d, r).
Proof.
  induction d as [|c d IH]; intros r Hd Hs.
  - destruct r as [|c r]; [reflexivity|]. cbn [stop] in Hs. cbn [app take_digits].
    destruct (is_digit c); [discriminate|reflexivity].
  - cbn [forallb] in Hd. apply andb_prop in Hd as [Hc Hd]. cbn [app take_digits]. rewrite Hc, (IH r Hd Hs). reflexivity.
Qed.

Definition sg_ok (sg : str) : Prop := sg = [] \/ sg = [43] \/ sg = [45].
Definition int_shape (t : str) : Prop :=
  exists sg ds, t = sg ++ ds /\ sg_ok sg /\ ds <> [] /\ forallb is_digit ds = true.

Lemma p_int_shape s t r : p_int s = Some (t, r) -> int_shape t.
Proof.
  unfold p_int.
  destruct (match s with
            | c :: r0 => if (c =? 43) || (c =? 45) then ([c], r0) else ([], s)
            | [] => ([], s)
            end) as [sg s1] eqn:Es.
  assert (Hsg : sg_ok sg).
  { destruct s as [|c r0]; [injection Es as <- _; left; reflexivity|].
    destruct (N.eqb_spec c 43) as [->|]; [injection Es as <- _; right; left; reflexivity|].
    destruct (N.eqb_spec c 45) as [->|]; [injection Es as <- _; right; right; reflexivity|].
    injection Es as <- _. left. reflexivity. }
  destruct (take_digits s1) as [ds s2] eqn:Et.
  destruct (td_spec _ _ _ Et) as (_ & Hd & _).
  destruct ds as [|c ds]; [discriminate|]. intros H. injection H as <- _.
  exists sg, (c :: ds). repeat split; [exact Hsg|discriminate|exact Hd].
Qed.

Lemma digit_not_sign c : is_digit c = true -> (c =? 43) || (c =? 45) = false.
Proof.
  unfold is_digit. intros H. apply andb_prop in H as [H1 H2].
  apply N.leb_le in H1. apply N.leb_le in H2.
  destruct (N.eqb_spec c 43); [lia|]. destruct (N.eqb_spec c 45); [lia|]. reflexivity.
Qed.

Lemma strip_sign_int sg ds rest :
  sg_ok sg -> ds <> [] -> forallb is_digit ds = true -> strip_sign (sg ++ ds ++ rest) = ds ++ rest.
Proof.
  intros [->|[->| ->]] Hne Hd; [|reflexivity|reflexivity].
  destruct ds as [|c ds]; [congruence|]. cbn [forallb] in Hd. apply andb_prop in Hd as [Hc _].
  cbn [app strip_sign]. rewrite (digit_not_sign c Hc). reflexivity.
Qed.

Definition shape2 (t2 : str) : Prop := t2 = [] \/ exists ds, t2 = 46 :: ds /\ forallb is_digit ds = true.
Definition shape3 (t3 : str) : Prop :=
  t3 = [] \/ exists c ti, t3 = c :: ti /\ (c =? 101) || (c =? 69) = true /\ int_shape ti.

Lemma stop3 t3 : shape3 t3 -> stop t3 = true /\ match t3 with c :: _ => (c =? 46) = false | [] => True end.
Proof.
  intros [->|(c & ti & -> & Hc & _)]; [auto|]. cbn [stop].
  apply Bool.orb_true_iff in Hc as [Hc|Hc]; apply N.eqb_eq in Hc; subst c; auto.
Qed.

Lemma syntax_of_shapes sg ds t2 t3 :
  sg_ok sg -> ds <> [] -> forallb is_digit ds = true -> shape2 t2 -> shape3 t3 ->
  f64_syntax ((sg ++ ds) ++ t2 ++ t3) = true.
Proof.
  intros Hsg Hne Hd H2 H3. unfold f64_syntax. rewrite <- app_assoc, (strip_sign_int sg ds _ Hsg Hne Hd).
  destruct (stop3 t3 H3) as [Hs3 Hdot].
  assert (Hs : stop (t2 ++ t3) = true).
  { destruct H2 as [->|(ds2 & -> & _)]; [exact Hs3|reflexivity]. }
  rewrite (td_app ds _ Hd Hs). cbv beta iota.
  set (M := match t2 ++ t3 with [] => _ | c :: r => _ end).
  assert (E : M = (match t2 with [] => [] | _ :: d => d end, t3)).
  { subst M. destruct H2 as [->|(ds2 & -> & Hd2)].
    - cbn [app]. destruct t3 as [|c r]; [reflexivity|]. rewrite Hdot. reflexivity.
    - cbn [app]. rewrite N.eqb_refl. apply td_app; assumption. }
  rewrite E. cbv beta iota. destruct ds as [|d0 ds]; [congruence|]. cbn [is_empty andb].
  destruct H3 as [->|(c & ti & -> & Hc & (sg' & ds' & -> & Hsg' & Hne' & Hd'))]; [reflexivity|].
  rewrite Hc. rewrite <- (app_nil_r ds'), (strip_sign_int sg' ds' [] Hsg' Hne' Hd').
  rewrite (td_app ds' [] Hd' eq_refl). cbv beta iota. destruct ds'; [congruence|reflexivity].
Qed.

(** what the atomic rule num matches is accepted by parse::<f64> as far as syntax goes: with an
    oracle whose [f_lit] is defined on [f64_syntax] texts the unwrap never panics *)
Theorem num_f64_syntax s t r : p_num s = Some (t, r) -> f64_syntax t = true.
Proof.
  unfold p_num. destruct (p_int s) as [[t1 s1]|] eqn:E1; [|discriminate].
  destruct (p_int_shape _ _ _ E1) as (sg & ds & -> & Hsg & Hne & Hd).
  destruct (match s1 with
            | c :: r0 => if c =? 46 then let '(ds0, r') := take_digits r0 in (c :: ds0, r') else ([], s1)
            | [] => ([], s1)
            end) as [t2 s2] eqn:E2.
  assert (H2 : shape2 t2).
  { destruct s1 as [|c r0]; [injection E2 as <- _; left; reflexivity|].
    destruct (N.eqb_spec c 46) as [->|]; [|injection E2 as <- _; left; reflexivity].
    destruct (take_digits r0) as [ds0 r'] eqn:Et. injection E2 as <- _.
    right. exists ds0. split; [reflexivity|]. exact (proj1 (proj2 (td_spec _ _ _ Et))). }
  destruct (match s2 with
            | c :: r0 => if (c =? 101) || (c =? 69) then
                           match p_int r0 with
                           | Some (ti, r') => (c :: ti, r')
                           | None => ([], s2)
                           end
                         else ([], s2)
            | [] => ([], s2)
            end) as [t3 s3] eqn:E3.
  assert (H3 : shape3 t3).
  { destruct s2 as [|c r0]; [injection E3 as <- _; left; reflexivity|].
    destruct ((c =? 101) || (c =? 69)) eqn:Hc; [|injection E3 as <- _; left; reflexivity].
    destruct (p_int r0) as [[ti r']|] eqn:Ei; [|injection E3 as <- _; left; reflexivity].
    injection E3 as <- _. right. exists c, ti. repeat split; [exact Hc|exact (p_int_shape _ _ _ Ei)]. }
  intros H. injection H as <- _. apply syntax_of_shapes; assumption.
Qed.

Print Assumptions float_structure.
Print Assumptions float_structure_all.
Print Assumptions float_structure_render.
Print Assumptions num_f64_syntax.
