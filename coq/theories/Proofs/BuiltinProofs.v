(* A builtin that runs in the shell itself (is_single_and_builtin): builtins/utils.rs _get_std_fds,
   print_stdout / print_stderr, the pre-opening of the targets and the capture pipes. *)
From Coq Require Import List Arith Bool Lia.
From Cicada Require Import Model.OsLite Model.Pipeline Proofs.OsLiteProofs Proofs.PipelineProofs Proofs.ChildProofs.
Import ListNotations.

Definition ol (o : option nat) (e : entry) : list (nat * entry) :=
  match o with Some fd => [(fd, e)] | None => [] end.
Lemma oclose_rep : forall B l1 o e l2 p,
  Rep B (l1 ++ ol o e ++ l2) (tab p) -> Rep B (l1 ++ l2) (tab (Pipeline.oclose o p)).
Proof.
  intros B l1 o e l2 p R. destruct o as [fd|]; cbn [ol Pipeline.oclose app] in *; [|exact R].
  rc R l1 fd e l2.
Qed.

Lemma p_dup_lookup : forall B l p s o c,
  Rep B l (tab p) -> lookup (tab p) s = Some (o, c) ->
  exists q fd, p_dup s p = (q, Some fd) /\ Rep B ((fd, (o, false)) :: l) (tab q).
Proof.
  intros B l p s o c R L. unfold p_dup. rewrite L. unfold alloc. eexists. eexists. split; [reflexivity|].
  cbn [tab]. apply (rep_alloc _ l (tab p) (o, false)). exact R.
Qed.

Lemma base_not_key : forall B l T s e, Rep B l T -> B s = Some e -> ~ In s (keys l).
Proof.
  intros B l T s e (_ & H1 & _) HB Hin. unfold keys in Hin. apply in_map_iff in Hin.
  destruct Hin as ([k e'] & Hk & Hin). cbn in Hk. subst k. destruct (H1 _ _ Hin). congruence.
Qed.

Section Builtin.
Variable v : variant.
Variable openable : nat -> bool.
Variable B : nat -> option entry.
Variable o1 o2 : obj.
Variable c1 c2 : bool.
Hypothesis HB1 : B 1 = Some (o1, c1).
Hypothesis HB2 : B 2 = Some (o2, c2).

Lemma open_cand_rep : forall r p l,
  Rep B l (tab p) ->
  exists p1 cand ec, open_cand openable r p = (p1, cand) /\ Rep B (ol cand ec ++ l) (tab p1).
Proof.
  intros r p l R. unfold open_cand. cbn zeta. destruct (openable (target_path (r_to r))).
  - destruct (p_open (target_path (r_to r)) (wmode (r_app r)) p) as [q n] eqn:EP.
    exists q, (Some n), (OFile (target_path (r_to r)) (wmode (r_app r)), true). split; [reflexivity|].
    cbn [ol app]. eapply p_open_rep; eauto.
  - exists (p_openfail (target_path (r_to r)) (wmode (r_app r)) p), None, (o1, c1). split; [reflexivity | exact R].
Qed.

Lemma gsf_spec : forall rs out err p eo ee L,
  lookahead_leak rs = false ->
  Rep B (ol out eo ++ ol err ee ++ L) (tab p) ->
  exists p' out' err' eo' ee',
    get_std_fds openable rs out err p = (p', out', err') /\
    Rep B (ol out' eo' ++ ol err' ee' ++ L) (tab p') /\
    (existsb is_fd1 rs = false -> out' = out /\ eo' = eo).
Proof.
  induction rs as [|r rest IH]; intros out err p eo ee L NL R.
  - cbn. exists p, out, err, eo, ee. auto.
  - cbn [lookahead_leak] in NL. apply orb_false_iff in NL. destruct NL as (NL1 & NL2).
    cbn [get_std_fds existsb]. unfold is_fd1 at 1.
    destruct (r_fd r) eqn:Efd.
    + (* descriptor 1 *)
      assert (exists p1 cand ec, gsf_cand1 openable (get_std_fds openable rest None None p) r p = (p1, cand) /\
                Rep B (ol cand ec ++ ol out eo ++ ol err ee ++ L) (tab p1)) as (p1 & cand & ec & E1 & R1).
      { unfold gsf_cand1. destruct (r_to r) eqn:Eto; try (apply open_cand_rep; exact R).
        (* 1>&2: the look-ahead call; nothing after it redirects descriptor 1 *)
        destruct (IH None None p eo ee (ol out eo ++ ol err ee ++ L) NL2 R) as (q & oq & eq_ & eoq & eeq & EQ & RQ & KQ).
        destruct (KQ NL1) as (-> & _). cbn [ol app] in RQ. rewrite EQ.
        destruct eq_ as [fd|].
        - exists q, (Some fd), eeq. split; [reflexivity | exact RQ].
        - cbn [ol app] in RQ.
          assert (L2 : lookup (tab q) 2 = Some (o2, c2)).
          { rewrite (rep_lookup _ _ _ _ RQ); [exact HB2 | eapply base_not_key; eauto]. }
          destruct (p_dup_lookup _ _ _ _ _ _ RQ L2) as (q2 & d & ED & RD). rewrite ED.
          exists q2, (Some d), (o2, false). split; [reflexivity | exact RD]. }
      rewrite E1.
      assert (R2 : Rep B (ol cand ec ++ ol err ee ++ L) (tab (Pipeline.oclose out p1))).
      { apply (oclose_rep B (ol cand ec) out eo (ol err ee ++ L)). exact R1. }
      destruct (IH cand err (Pipeline.oclose out p1) ec ee L NL2 R2) as (p' & out' & err' & eo' & ee' & E & R' & K').
      exists p', out', err', eo', ee'. split; [exact E|]. split; [exact R'|]. discriminate.
    + (* descriptor 2 *)
      assert (exists p1 cand ec, gsf_cand2 openable out r p = (p1, cand) /\
                Rep B (ol cand ec ++ ol out eo ++ ol err ee ++ L) (tab p1)) as (p1 & cand & ec & E1 & R1).
      { unfold gsf_cand2. destruct (r_to r) eqn:Eto; try (apply open_cand_rep; exact R).
        destruct out as [fd0|].
        - cbn [ol app] in R. destruct eo as [oo co].
          assert (L0 : lookup (tab p) fd0 = Some (oo, co)) by (eapply rep_lookup_in; [exact R | left; reflexivity]).
          destruct (p_dup_lookup _ _ _ _ _ _ R L0) as (q2 & d & ED & RD). rewrite ED.
          exists q2, (Some d), (oo, false). split; [reflexivity | exact RD].
        - exists p, None, (o1, c1). split; [reflexivity | exact R]. }
      rewrite E1. cbn [orb].
      assert (R2a : Rep B ((ol cand ec ++ ol out eo) ++ L) (tab (Pipeline.oclose err p1))).
      { apply (oclose_rep B (ol cand ec ++ ol out eo) err ee L). eapply rep_leq; [exact R1 | leq]. }
      assert (R2 : Rep B (ol out eo ++ ol cand ec ++ L) (tab (Pipeline.oclose err p1))).
      { eapply rep_leq; [eapply rep_perm; [apply Permutation.Permutation_app_tail; apply Permutation.Permutation_app_comm | exact R2a] | leq]. }
      destruct (IH out cand (Pipeline.oclose err p1) eo ec L NL2 R2) as (p' & out' & err' & eo' & ee' & E & R' & K').
      exists p', out', err', eo', ee'. split; [exact E|]. split; [exact R'|]. exact K'.
Qed.

(* ---- the proposed left-to-right fold (notes/C04-fix-3.patch) ---- *)
Definition objof (o : option nat) (e : entry) (d : obj) : obj := match o with Some _ => fst e | None => d end.
Definition allopen (rs : list redir) : bool :=
  forallb (fun r => negb (is_file_redir r) || openable (target_path (r_to r))) rs.

Lemma open_cand_rep_ok : forall r p l,
  openable (target_path (r_to r)) = true -> Rep B l (tab p) ->
  exists p1 n, open_cand openable r p = (p1, Some n) /\
               Rep B ((n, (OFile (target_path (r_to r)) (wmode (r_app r)), true)) :: l) (tab p1).
Proof.
  intros r p l O R. unfold open_cand. cbn zeta. rewrite O.
  destruct (p_open (target_path (r_to r)) (wmode (r_app r)) p) as [q n] eqn:EP.
  exists q, n. split; [reflexivity|]. eapply p_open_rep; eauto.
Qed.

Lemma fold_spec : forall rs out err p eo ee L,
  allopen rs = true ->
  Rep B (ol out eo ++ ol err ee ++ L) (tab p) ->
  exists p' out' err' eo' ee',
    get_std_fds_fold openable rs out err p = (p', out', err') /\
    Rep B (ol out' eo' ++ ol err' ee' ++ L) (tab p') /\
    (objof out' eo' o1, objof err' ee' o2) = posix_sinks rs (objof out eo o1, objof err ee o2).
Proof.
  induction rs as [|r rest IH]; intros out err p eo ee L AO R.
  - cbn. exists p, out, err, eo, ee. auto.
  - cbn [allopen forallb] in AO. apply andb_true_iff in AO. destruct AO as (AO1 & AO2). fold (allopen rest) in AO2.
    cbn [get_std_fds_fold].
    change (posix_sinks (r :: rest) (objof out eo o1, objof err ee o2))
      with (posix_sinks rest (posix_redirect (objof out eo o1, objof err ee o2) r)).
    destruct (r_fd r) eqn:Efd.
    + (* descriptor 1 *)
      assert (exists p1 n ec, (match r_to r with
                               | TAmp2 => p_dup (match err with Some fd => fd | None => 2 end) p
                               | _ => open_cand openable r p end) = (p1, Some n) /\
                Rep B ((n, ec) :: ol out eo ++ ol err ee ++ L) (tab p1) /\
                fst ec = fst (posix_redirect (objof out eo o1, objof err ee o2) r)) as (p1 & n & ec & E1 & R1 & OB).
      { assert (FILE : is_file_redir r = true -> exists p1 n ec, open_cand openable r p = (p1, Some n) /\
                  Rep B ((n, ec) :: ol out eo ++ ol err ee ++ L) (tab p1) /\
                  fst ec = fst (posix_redirect (objof out eo o1, objof err ee o2) r)).
        { intro HF. rewrite HF in AO1. cbn in AO1.
          destruct (open_cand_rep_ok r p _ AO1 R) as (q & n & E & RQ).
          exists q, n, (OFile (target_path (r_to r)) (wmode (r_app r)), true). split; [exact E|]. split; [exact RQ|].
          rewrite (posix_redirect_file1 r (r_to r) _ _ Efd eq_refl HF). reflexivity. }
        destruct (r_to r) eqn:Eto; try (apply FILE; unfold is_file_redir; rewrite Efd, Eto; reflexivity).
        (* 1>&2: a copy of the current stderr target *)
        assert (exists oo co, lookup (tab p) (match err with Some fd => fd | None => 2 end) = Some (oo, co) /\ oo = objof err ee o2)
          as (oo & co & LK & OO).
        { destruct err as [fd|]; cbn [ol objof].
          - destruct ee as [oe ce]. exists oe, ce. split; [|reflexivity].
            eapply rep_lookup_in; [exact R | apply in_or_app; right; left; reflexivity].
          - exists o2, c2. split; [|reflexivity]. rewrite (rep_lookup _ _ _ _ R); [exact HB2 | eapply base_not_key; eauto]. }
        destruct (p_dup_lookup _ _ _ _ _ _ R LK) as (q & d & ED & RD).
        exists q, d, (oo, false). split; [exact ED|]. split; [exact RD|].
        unfold posix_redirect. rewrite Efd, Eto. cbn [fst snd]. exact OO. }
      rewrite E1.
      assert (R2 : Rep B (ol (Some n) ec ++ ol err ee ++ L) (tab (Pipeline.oclose out p1))).
      { apply (oclose_rep B (ol (Some n) ec) out eo (ol err ee ++ L)). exact R1. }
      destruct (IH (Some n) err (Pipeline.oclose out p1) ec ee L AO2 R2) as (p' & out' & err' & eo' & ee' & E & R' & K').
      exists p', out', err', eo', ee'. split; [exact E|]. split; [exact R'|].
      rewrite K'. cbn [objof]. rewrite OB. f_equal.
      destruct (posix_redirect (objof out eo o1, objof err ee o2) r) as [a b] eqn:PR. cbn [fst]. f_equal.
      unfold posix_redirect in PR. rewrite Efd in PR. destruct (r_to r); injection PR as <- <-; reflexivity.
    + (* descriptor 2 *)
      assert (exists p1 n ec, (match r_to r with
                               | TAmp1 => p_dup (match out with Some fd => fd | None => 1 end) p
                               | _ => open_cand openable r p end) = (p1, Some n) /\
                Rep B ((n, ec) :: ol out eo ++ ol err ee ++ L) (tab p1) /\
                fst ec = snd (posix_redirect (objof out eo o1, objof err ee o2) r)) as (p1 & n & ec & E1 & R1 & OB).
      { assert (FILE : is_file_redir r = true -> exists p1 n ec, open_cand openable r p = (p1, Some n) /\
                  Rep B ((n, ec) :: ol out eo ++ ol err ee ++ L) (tab p1) /\
                  fst ec = snd (posix_redirect (objof out eo o1, objof err ee o2) r)).
        { intro HF. rewrite HF in AO1. cbn in AO1.
          destruct (open_cand_rep_ok r p _ AO1 R) as (q & n & E & RQ).
          exists q, n, (OFile (target_path (r_to r)) (wmode (r_app r)), true). split; [exact E|]. split; [exact RQ|].
          rewrite (posix_redirect_file2 r (r_to r) _ _ Efd eq_refl HF). reflexivity. }
        destruct (r_to r) eqn:Eto; try (apply FILE; unfold is_file_redir; rewrite Efd, Eto; reflexivity).
        assert (exists oo co, lookup (tab p) (match out with Some fd => fd | None => 1 end) = Some (oo, co) /\ oo = objof out eo o1)
          as (oo & co & LK & OO).
        { destruct out as [fd|]; cbn [ol objof].
          - destruct eo as [oe ce]. exists oe, ce. split; [|reflexivity].
            eapply rep_lookup_in; [exact R | left; reflexivity].
          - exists o1, c1. split; [|reflexivity]. rewrite (rep_lookup _ _ _ _ R); [exact HB1 | eapply base_not_key; eauto]. }
        destruct (p_dup_lookup _ _ _ _ _ _ R LK) as (q & d & ED & RD).
        exists q, d, (oo, false). split; [exact ED|]. split; [exact RD|].
        unfold posix_redirect. rewrite Efd, Eto. cbn [fst snd]. exact OO. }
      rewrite E1.
      assert (R2a : Rep B (((n, ec) :: ol out eo) ++ L) (tab (Pipeline.oclose err p1))).
      { apply (oclose_rep B ((n, ec) :: ol out eo) err ee L). eapply rep_leq; [exact R1 | leq]. }
      assert (R2 : Rep B (ol out eo ++ ol (Some n) ec ++ L) (tab (Pipeline.oclose err p1))).
      { eapply rep_leq; [eapply rep_perm; [apply Permutation.Permutation_app_tail;
                                           apply (Permutation.Permutation_app_comm [(n, ec)] (ol out eo)) | exact R2a] | leq]. }
      destruct (IH out (Some n) (Pipeline.oclose err p1) eo ec L AO2 R2) as (p' & out' & err' & eo' & ee' & E & R' & K').
      exists p', out', err', eo', ee'. split; [exact E|]. split; [exact R'|].
      rewrite K'. cbn [objof]. rewrite OB. f_equal.
      destruct (posix_redirect (objof out eo o1, objof err ee o2) r) as [a b] eqn:PR. cbn [snd]. f_equal.
      unfold posix_redirect in PR. rewrite Efd in PR. destruct (r_to r); injection PR as <- <-; reflexivity.
Qed.

(* which version of the function may be used on which lists *)
Definition fds_ok (rs : list redir) : Prop :=
  (v_bfold v = true /\ allopen rs = true) \/ (v_bfold v = false /\ lookahead_leak rs = false).

Lemma std_fds_spec : forall rs p L,
  fds_ok rs -> Rep B L (tab p) ->
  exists p' o e eo ee, std_fds v openable rs p = (p', o, e) /\ Rep B (ol o eo ++ ol e ee ++ L) (tab p') /\
    (v_bfold v = true -> (objof o eo o1, objof e ee o2) = posix_sinks rs (o1, o2)).
Proof.
  intros rs p L [(VF & AO)|(VF & NL)] R; unfold std_fds; rewrite VF.
  - destruct (fold_spec rs None None p (o1, c1) (o1, c1) L AO R) as (p' & o & e & eo & ee & E & R' & K).
    exists p', o, e, eo, ee. split; [exact E|]. split; [exact R'|]. intros _. exact K.
  - destruct (gsf_spec rs None None p (o1, c1) (o1, c1) L NL R) as (p' & o & e & eo & ee & E & R' & _).
    exists p', o, e, eo, ee. split; [exact E|]. split; [exact R'|]. discriminate.
Qed.

Lemma print_rep : forall rs is_out empty p L,
  fds_ok rs -> Rep B L (tab p) ->
  Rep B L (tab (fst (builtin_print v openable rs is_out empty p))) /\
  (v_bfold v = true ->
   snd (builtin_print v openable rs is_out empty p)
   = Some (if is_out then fst (posix_sinks rs (o1, o2)) else snd (posix_sinks rs (o1, o2)))).
Proof.
  intros rs is_out empty p L OK R. unfold builtin_print.
  destruct (std_fds_spec rs p L OK R) as (p' & o & e & eo & ee & E & R' & K).
  rewrite E.
  assert (G : forall mine other em eoth bfd ob cb,
            B bfd = Some (ob, cb) ->
            Rep B (ol mine em ++ ol other eoth ++ L) (tab p') ->
            let res := (let p0 := Pipeline.oclose other p' in
                        let '(p1, fd) := match mine with Some fd => (p0, Some fd) | None => p_dup bfd p0 end in
                        match fd with
                        | Some fd => (p_close fd (if empty then p_ev (EWrite fd) p1 else p_ev (EWrite fd) (p_ev (EWrite fd) p1)),
                                      option_map fst (lookup (tab p1) fd))
                        | None => (p1, None)
                        end) in
            Rep B L (tab (fst res)) /\ snd res = Some (objof mine em ob)).
  { intros mine other em eoth bfd ob cb HB RR. cbv zeta.
    pose proof (oclose_rep B (ol mine em) other eoth L p' RR) as R1.
    destruct mine as [fd|]; cbn [ol app objof] in *.
    - cbn [fst snd]. split; [destruct empty; rc R1 (@nil (nat * entry)) fd em L|].
      rewrite (rep_lookup_in _ _ _ _ _ R1 (or_introl eq_refl)). reflexivity.
    - assert (L1 : lookup (tab (Pipeline.oclose other p')) bfd = Some (ob, cb)).
      { rewrite (rep_lookup _ _ _ _ R1); [exact HB | eapply base_not_key; eauto]. }
      destruct (p_dup_lookup _ _ _ _ _ _ R1 L1) as (q & d & ED & RD). rewrite ED. cbn [fst snd].
      split; [destruct empty; rc RD (@nil (nat * entry)) d (ob, false) L|].
      rewrite (rep_lookup_in _ _ _ _ _ RD (or_introl eq_refl)). reflexivity. }
  destruct is_out.
  - destruct (G o e eo ee 1 o1 c1 HB1 R') as (G1 & G2). split; [exact G1|].
    intro VF. etransitivity; [exact G2|]. rewrite <- (K VF). reflexivity.
  - assert (RS : Rep B (ol e ee ++ ol o eo ++ L) (tab p')).
    { eapply rep_leq; [eapply rep_perm; [apply Permutation.Permutation_app_tail; apply Permutation.Permutation_app_comm |
                                         eapply rep_leq; [exact R' | rewrite app_assoc; reflexivity]] | leq]. }
    destruct (G e o ee eo 2 o2 c2 HB2 RS) as (G1 & G2). split; [exact G1|].
    intro VF. etransitivity; [exact G2|]. rewrite <- (K VF). reflexivity.
Qed.

Lemma prints_rep : forall rs prints p L,
  fds_ok rs -> Rep B L (tab p) ->
  Rep B L (tab (fst (builtin_prints v openable rs prints p))) /\
  (v_bfold v = true ->
   snd (builtin_prints v openable rs prints p)
   = map (fun b : bool * bool => Some (if fst b then fst (posix_sinks rs (o1, o2)) else snd (posix_sinks rs (o1, o2)))) prints).
Proof.
  intros rs. induction prints as [|b rest IH]; intros p L OK R; [split; [exact R | reflexivity]|].
  cbn [builtin_prints map].
  destruct (print_rep rs (fst b) (snd b) p L OK R) as (R1 & S1).
  destruct (builtin_print v openable rs (fst b) (snd b) p) as [p1 o]. cbn [fst snd] in R1, S1.
  destruct (IH p1 L OK R1) as (R2 & S2). destruct (builtin_prints v openable rs rest p1) as [p2 os].
  cbn [fst snd] in *. split; [exact R2|]. intro VF. rewrite (S1 VF), (S2 VF). reflexivity.
Qed.

Lemma preopen_rep : forall rs p L, Rep B L (tab p) -> Rep B L (tab (fst (builtin_preopen openable rs p))).
Proof.
  induction rs as [|r rest IH]; intros p L R; [exact R|]. cbn [builtin_preopen].
  assert (FILE : Rep B L (tab (fst (let path := target_path (r_to r) in
                  if openable path then let '(p1, n) := p_open path (wmode (r_app r)) p in builtin_preopen openable rest (p_close n p1)
                  else (p_openfail path (wmode (r_app r)) p, false))))).
  { cbv zeta. destruct (openable (target_path (r_to r))); [|exact R].
    destruct (p_open (target_path (r_to r)) (wmode (r_app r)) p) as [p1 n] eqn:EP.
    apply IH. pose proof (p_open_rep _ _ _ _ _ _ _ R EP) as R1.
    rc R1 (@nil (nat * entry)) n (OFile (target_path (r_to r)) (wmode (r_app r)), true) L. }
  destruct (r_fd r), (r_to r); try exact FILE; apply IH; exact R.
Qed.
Lemma preopen_allopen : forall rs p, snd (builtin_preopen openable rs p) = true -> allopen rs = true.
Proof.
  induction rs as [|r rest IH]; intros p H; [reflexivity|]. cbn [builtin_preopen] in H. cbn [allopen forallb].
  fold (allopen rest).
  assert (FILE : is_file_redir r = true ->
            snd (let path := target_path (r_to r) in
                 if openable path then let '(p1, n) := p_open path (wmode (r_app r)) p in builtin_preopen openable rest (p_close n p1)
                 else (p_openfail path (wmode (r_app r)) p, false)) = true ->
            (negb (is_file_redir r) || openable (target_path (r_to r))) && allopen rest = true).
  { intros HF HH. cbv zeta in HH. rewrite HF. cbn [negb orb]. destruct (openable (target_path (r_to r))); [|discriminate HH].
    destruct (p_open (target_path (r_to r)) (wmode (r_app r)) p) as [p1 n]. cbn [andb]. eapply IH; eauto. }
  unfold is_file_redir in *. destruct (r_fd r), (r_to r); try (apply FILE; [reflexivity | exact H]);
    cbn [negb orb andb]; eapply IH; eauto.
Qed.

End Builtin.

Lemma runs_in_shell_true : forall pl st, p_stages pl = [st] -> s_kind st = KBuiltin ->
  (p_capture pl = false \/ s_redirs st = []) -> runs_in_shell pl = true.
Proof.
  intros pl st ES EK H. unfold runs_in_shell, is_single_builtin. rewrite ES, EK. cbn [andb].
  destruct H as [-> | ->]; [reflexivity | rewrite andb_false_r; reflexivity].
Qed.

(* the shell's table after a builtin that ran in the shell itself *)
Theorem builtin_restored : forall v fail_at openable pl sh st o1 c1 o2 c2,
  v_bcap v = true ->
  p_stages pl = [st] -> s_kind st = KBuiltin ->
  (p_capture pl = false \/ s_redirs st = []) ->      (* otherwise it is a one-stage pipeline (9dba15b) *)
  ((v_bfold v = true /\ v_bunop v = true) \/ (v_bfold v = false /\ lookahead_leak (s_redirs st) = false)) ->
  lookup (tab sh) 1 = Some (o1, c1) -> lookup (tab sh) 2 = Some (o2, c2) ->
  teq_tab (res_shell (run_pipeline v fail_at openable pl sh)) (tab sh).
Proof.
  intros v fail_at openable pl sh st o1 c1 o2 c2 VB ES EK INS NL H1 H2.
  unfold run_pipeline. rewrite ES. cbn [length mk_pipes]. cbv zeta.
  replace (close_pairs [] sh) with sh by reflexivity.
  assert (SB : runs_in_shell pl = true) by (eapply runs_in_shell_true; eauto).
  rewrite SB.
  pose proof (rep_init (tab sh)) as R0.
  assert (DONE : forall capo cape q, cap_ok (p_capture pl) capo cape ->
            Rep (lookup (tab sh)) (caplive capo cape) (tab q) ->
            teq_tab (if v_bcap v then opt_close_pair cape (opt_close_pair capo q) else q) (tab sh)).
  { intros capo cape q CO R. rewrite VB. apply rep_nil_teq.
    apply (capclose_rep _ (p_capture pl) capo cape [] q CO). exact R. }
  assert (BODY : forall capo cape q, cap_ok (p_capture pl) capo cape ->
            Rep (lookup (tab sh)) (caplive capo cape) (tab q) ->
            teq_tab (res_shell
              (let done := fun q0 => if v_bcap v then opt_close_pair cape (opt_close_pair capo q0) else q0 in
               let '(sh1, okb) := if v_bunop v then builtin_preopen openable (s_redirs st) q else (q, true) in
               if negb okb then mkres (done sh1) [] true []
               else if p_capture pl then mkres (done sh1) [] false []
               else let '(sh2, sinks) := builtin_prints v openable (s_redirs st) (s_prints st) sh1 in
                    mkres (done sh2) [] false sinks)) (tab sh)).
  { intros capo cape q CO R. cbv zeta.
    assert (R1 : Rep (lookup (tab sh)) (caplive capo cape)
                     (tab (fst (if v_bunop v then builtin_preopen openable (s_redirs st) q else (q, true))))).
    { destruct (v_bunop v); [apply preopen_rep; exact R | exact R]. }
    destruct (if v_bunop v then builtin_preopen openable (s_redirs st) q else (q, true)) as [sh1 okb] eqn:EPRE. cbn [fst] in R1.
    assert (OKF : okb = true -> fds_ok v openable (s_redirs st)).
    { intros ->. destruct NL as [(VF & VU)|(VF & NLK)]; [left|right; auto]. split; [exact VF|].
      rewrite VU in EPRE. apply (preopen_allopen openable (s_redirs st) q). rewrite EPRE. reflexivity. }
    destruct okb; cbn [negb].
    - destruct (p_capture pl) eqn:EC.
      + cbn [res_shell]. apply DONE; auto; try (rewrite EC; exact CO).
      + pose proof (proj1 (prints_rep v openable (lookup (tab sh)) o1 o2 c1 c2 H1 H2 (s_redirs st) (s_prints st) sh1 _ (OKF eq_refl) R1)) as R2.
        destruct (builtin_prints v openable (s_redirs st) (s_prints st) sh1) as [sh2 sinks]. cbn [fst] in R2.
        cbn [res_shell]. apply DONE; auto; try (rewrite EC; exact CO).
    - cbn [res_shell]. apply DONE; auto. }
  unfold mk_capture. destruct (p_capture pl) eqn:EC.
  - destruct (fail_at 0).
    + cbn [res_shell]. apply rep_nil_teq. unfold cap_release. destruct (v_capfail v); exact R0.
    + destruct (p_pipe PCapOut sh) as [sh2 [cor cow]] eqn:EO.
      pose proof (p_pipe_rep _ _ _ _ _ _ _ R0 EO) as R2.
      destruct (fail_at 1).
      * cbn [res_shell]. apply rep_nil_teq.
        assert (R3 : Rep (lookup (tab sh)) [] (tab (close_pair (cor, cow) (p_pipefail sh2)))).
        { apply (close_pair_rep _ (cor, cow) (eR PCapOut) (eW PCapOut) [] (p_pipefail sh2)). exact R2. }
        unfold cap_release. destruct (v_capfail v); exact R3.
      * destruct (p_pipe PCapErr sh2) as [sh3 [cer cew]] eqn:EE.
        pose proof (p_pipe_rep _ _ _ _ _ _ _ R2 EE) as R3.
        apply (BODY (Some (cor, cow)) (Some (cer, cew)) sh3).
        -- cbn. split; congruence.
        -- cbn [caplive fst snd].
           apply (rep_perm _ _ _ _ (Permutation.Permutation_app_comm [(cer, eR PCapErr); (cew, eW PCapErr)] [(cor, eR PCapOut); (cow, eW PCapOut)])).
           exact R3.
  - apply (BODY None None sh).
    + cbn. auto.
    + cbn. exact R0.
Qed.

Lemma single_builtin_shape : forall pl, is_single_builtin pl = true ->
  exists st, p_stages pl = [st] /\ s_kind st = KBuiltin.
Proof.
  intros pl H. unfold is_single_builtin in H. destruct (p_stages pl) as [|st [|s2 r]]; try discriminate.
  exists st. split; [reflexivity|]. destruct (s_kind st); try discriminate; reflexivity.
Qed.

Lemma builtin_no_kids : forall v fail_at openable pl sh,
  runs_in_shell pl = true -> res_kids (run_pipeline v fail_at openable pl sh) = [].
Proof.
  intros v fail_at openable pl sh SB.
  assert (SB0 : is_single_builtin pl = true) by (unfold runs_in_shell in SB; apply andb_true_iff in SB; tauto).
  destruct (single_builtin_shape pl SB0) as (st & ES & EK).
  unfold run_pipeline. rewrite ES. cbn [length mk_pipes]. cbv zeta. rewrite SB.
  destruct (mk_capture v fail_at (p_capture pl) 0 [] sh) as [[[q capo] cape] failed].
  destruct failed; [reflexivity|].
  destruct (if v_bunop v then builtin_preopen openable (s_redirs st) q else (q, true)) as [sh1 okb].
  destruct okb; cbn [negb]; [|reflexivity].
  destruct (p_capture pl); [reflexivity|].
  destruct (builtin_prints v openable (s_redirs st) (s_prints st) sh1). reflexivity.
Qed.

Lemma kids_ok_Forall : forall (Q : kid -> Prop) sts idx ks,
  kids_ok (fun _ _ k => Q k) idx sts ks -> Forall Q ks.
Proof.
  induction sts as [|st r IH]; intros idx ks K; destruct ks as [|k kr]; cbn in K; try tauto; [constructor|].
  destruct K as (K1 & K2). constructor; [exact K1 | eapply IH; eauto].
Qed.

(* with the proposed fold (and d4ac685's pre-opening) the text of every print of a builtin that is alone on
   its line goes where the POSIX left-to-right fold of the redirection list says *)
Theorem builtin_sinks_fold : forall v fail_at openable pl sh st o1 c1 o2 c2,
  v_bfold v = true -> v_bunop v = true ->
  p_stages pl = [st] -> s_kind st = KBuiltin -> p_capture pl = false ->
  lookup (tab sh) 1 = Some (o1, c1) -> lookup (tab sh) 2 = Some (o2, c2) ->
  let r := run_pipeline v fail_at openable pl sh in
  let sk := posix_sinks (s_redirs st) (o1, o2) in
  (res_error r = false ->
   res_sinks r = map (fun b : bool * bool => Some (if fst b then fst sk else snd sk)) (s_prints st)) /\
  (res_error r = true <-> allopen openable (s_redirs st) = false).
Proof.
  intros v fail_at openable pl sh st o1 c1 o2 c2 VF VU ES EK EC H1 H2. cbv zeta.
  unfold run_pipeline. rewrite ES. cbn [length mk_pipes]. cbv zeta.
  assert (SB : runs_in_shell pl = true) by (eapply runs_in_shell_true; eauto).
  rewrite SB. unfold mk_capture. rewrite EC, VU.
  pose proof (preopen_rep openable (lookup (tab sh)) (s_redirs st) sh [] (rep_init (tab sh))) as R1.
  destruct (builtin_preopen openable (s_redirs st) sh) as [sh1 okb] eqn:EPRE. cbn [fst] in R1.
  destruct okb; cbn [negb].
  - assert (AO : allopen openable (s_redirs st) = true).
    { apply (preopen_allopen openable (s_redirs st) sh). rewrite EPRE. reflexivity. }
    assert (OK : fds_ok v openable (s_redirs st)) by (left; auto).
    destruct (prints_rep v openable (lookup (tab sh)) o1 o2 c1 c2 H1 H2 (s_redirs st) (s_prints st) sh1 [] OK R1) as (_ & S2).
    destruct (builtin_prints v openable (s_redirs st) (s_prints st) sh1) as [sh2 sinks]. cbn [snd] in S2.
    cbn [res_error res_sinks]. split; [intros _; apply S2; exact VF|]. rewrite AO. split; discriminate.
  - cbn [res_error res_sinks]. split; [discriminate|]. split; [intros _|reflexivity].
    destruct (allopen openable (s_redirs st)) eqn:AO; [|reflexivity].
    exfalso. clear R1.
    assert (G : forall rs p, allopen openable rs = true -> snd (builtin_preopen openable rs p) = true).
    { induction rs as [|r rest IH]; intros p A; [reflexivity|]. cbn [builtin_preopen]. cbn [allopen forallb] in A.
      apply andb_true_iff in A. destruct A as (A1 & A2). fold (allopen openable rest) in A2.
      unfold is_file_redir in A1. destruct (r_fd r), (r_to r); cbn [negb orb] in A1; try (apply IH; exact A2);
        cbv zeta; rewrite A1;
        match goal with |- context [p_open ?a ?b ?c] => destruct (p_open a b c) as [p1 n] end; apply IH; exact A2. }
    specialize (G (s_redirs st) sh AO). rewrite EPRE in G. discriminate.
Qed.

(* a lone builtin with a file target that cannot be opened (d4ac685): the result is an error, captured or not
   (run_pipeline decides the capture-pipe cleanup by cl.is_single_and_builtin(), NOT by the value
   run_single_program returns on this path, and so does the model: the cleanup is `done` in every arm) *)
Lemma preopen_fails : forall openable rs p, allopen openable rs = false -> snd (builtin_preopen openable rs p) = false.
Proof.
  intros openable rs p H. destruct (snd (builtin_preopen openable rs p)) eqn:E; [|reflexivity].
  rewrite (preopen_allopen openable rs p E) in H. discriminate.
Qed.

Theorem builtin_unopenable_error : forall v fail_at openable pl sh st,
  v_bunop v = true -> p_stages pl = [st] -> s_kind st = KBuiltin -> p_capture pl = false ->
  allopen openable (s_redirs st) = false ->
  let r := run_pipeline v fail_at openable pl sh in
  res_error r = true /\ res_kids r = [] /\ res_sinks r = [].
Proof.
  intros v fail_at openable pl sh st VU ES EK EC AO. cbv zeta.
  unfold run_pipeline. rewrite ES. cbn [length mk_pipes]. cbv zeta.
  assert (SB : runs_in_shell pl = true) by (eapply runs_in_shell_true; eauto).
  rewrite SB. rewrite VU.
  destruct (mk_capture v fail_at (p_capture pl) 0 [] sh) as [[[q capo] cape] failed].
  destruct failed; [cbn; auto|].
  pose proof (preopen_fails openable (s_redirs st) q AO) as PF.
  destruct (builtin_preopen openable (s_redirs st) q) as [sh1 okb]. cbn [snd] in PF. subst okb. cbn. auto.
Qed.

(* the probe of the lone-builtin branch (d4ac685) opens exactly the files a POSIX shell opens for the list, in order, each with
   ITS OWN mode (`>` truncate, `>>` append), up to and including the first one that cannot be opened -- so every `>` target
   before a failing one, and every `>` target of a builtin that prints nothing, is created / truncated *)
Lemma preopen_opens : forall openable rs p,
  ev_opens (tr (fst (builtin_preopen openable rs p))) = ev_opens (tr p) ++ fst (posix_opens openable rs) /\
  snd (builtin_preopen openable rs p) = snd (posix_opens openable rs).
Proof.
  intros openable. induction rs as [|r rest IH]; intros p.
  - cbn. rewrite app_nil_r. auto.
  - cbn [builtin_preopen posix_opens].
    assert (FILE : is_file_redir r = true ->
      let res := (let path := target_path (r_to r) in
                  if openable path then let '(p1, n) := p_open path (wmode (r_app r)) p in builtin_preopen openable rest (p_close n p1)
                  else (p_openfail path (wmode (r_app r)) p, false)) in
      let pos := (let path := target_path (r_to r) in
                  if openable path then let '(l, ok) := posix_opens openable rest in ((path, wmode (r_app r)) :: l, ok)
                  else ([(path, wmode (r_app r))], false)) in
      ev_opens (tr (fst res)) = ev_opens (tr p) ++ fst pos /\ snd res = snd pos).
    { intros _. cbv zeta. destruct (openable (target_path (r_to r))).
      - destruct (p_open (target_path (r_to r)) (wmode (r_app r)) p) as [p1 n] eqn:EP.
        assert (T1 : tr p1 = EOpen (target_path (r_to r)) (wmode (r_app r)) (Some n) :: tr p).
        { unfold p_open, alloc in EP. injection EP as <- <-. reflexivity. }
        destruct (IH (p_close n p1)) as (A & B).
        destruct (posix_opens openable rest) as [l ok]. cbn [fst snd] in *. split; [|exact B].
        rewrite A. unfold p_close. cbn [tr ev_opens]. rewrite T1. cbn [ev_opens]. rewrite <- app_assoc. reflexivity.
      - unfold p_openfail. cbn [fst snd tr ev_opens]. auto. }
    unfold is_file_redir in *.
    destruct (r_fd r), (r_to r); try (apply FILE; reflexivity); apply IH.
Qed.

Lemma runs_in_shell_shape : forall pl, runs_in_shell pl = true ->
  exists st, p_stages pl = [st] /\ s_kind st = KBuiltin /\ (p_capture pl = false \/ s_redirs st = []).
Proof.
  intros pl H. unfold runs_in_shell in H. apply andb_true_iff in H. destruct H as (SB & N).
  destruct (single_builtin_shape pl SB) as (st & ES & EK). exists st. split; [exact ES|]. split; [exact EK|].
  rewrite ES in N. apply negb_true_iff in N. apply andb_false_iff in N. destruct N as [N|N]; [left; exact N|].
  right. destruct (s_redirs st); [reflexivity | discriminate].
Qed.
