(** do_expansion on a command line one of whose arguments is an UNQUOTED word with
    references: generalises [ExpandInert.do_expansion_inert] (arguments all tagged)
    to untagged arguments of the shape literal text / references.

    The untagged word goes through every pass: it is not alias-expanded (it is not
    in command position and is not the pipe word), not tilde-expanded (it does not
    start with a tilde), parameter-expanded in ONE pass to [den_pieces], and then --
    provided the RESULT holds no star, no open brace, no backquote and no
    dollar-paren -- left alone by brace / glob / command substitution / range
    expansion.  The token keeps the EMPTY tag: this is what lets the planner read
    the produced text as syntax (Properties/C13.v). *)
From Coq Require Import List NArith ZArith Bool Lia.
From Cicada Require Import Base.Chars Base.Tag Base.Regex Gen.ShellRegexes Model.Expand Model.ExpandRef
  Proofs.ExpandBasics Proofs.EnvProofs Proofs.ExpandOnceProofs Proofs.SubstProofs Proofs.ExpandInert.
From Cicada Require Model.Tokenizer.
Import ListNotations.
Local Open Scope N_scope.

Inductive tok_ok1 (W : World) : token -> token -> Prop :=
| ok1_tagged t t' : tok_ok W t t' -> tok_ok1 W t t'
| ok1_uref ps :
    wf_pieces ps = true -> gate_ok ps = true ->
    render_pieces ps <> [124] -> strip_prefix [126] (render_pieces ps) = None ->
    ~ In 96 (den_pieces W ps) -> has_dollar_paren (den_pieces W ps) = false ->
    ~ In 42 (den_pieces W ps) -> ~ In 123 (den_pieces W ps) ->
    tok_ok1 W (TNone, render_pieces ps) (TNone, den_pieces W ps).

(* ------------------------------------------------------------------ alias *)
Definition quiet_alias (t : token) : Prop := tag_is_empty (fst t) && str_eqb (snd t) [124] = false.

Lemma alias_collect_quiet W l : Forall quiet_alias l -> forall i, alias_collect W l i false = [].
Proof.
  induction 1 as [|[tg s] l Ht _ IH]; intros i; [reflexivity|].
  cbn [alias_collect]. unfold quiet_alias in Ht. cbn [fst snd] in Ht. rewrite Ht. cbn [andb]. apply IH.
Qed.

Lemma tok_ok1_quiet_alias W t t' : tok_ok1 W t t' -> quiet_alias t.
Proof.
  intros [t0 t0' H|ps _ _ Hp _ _ _ _ _]; unfold quiet_alias.
  - pose proof (tok_ok_tagged_l _ _ _ H) as T. unfold tagged in T. rewrite T. reflexivity.
  - cbn [fst snd tag_is_empty tag_eqb andb]. apply str_eqb_neq. exact Hp.
Qed.

Lemma expand_alias_quiet tokenize W cmd l :
  cmd_ok W cmd -> Forall quiet_alias l -> expand_alias tokenize W ((TNone, cmd) :: l) = (TNone, cmd) :: l.
Proof.
  intros [Ha (Hx & _ & Hp) _ _] Hl. unfold expand_alias.
  cbn [alias_collect tag_is_empty tag_eqb andb].
  rewrite (proj2 (str_eqb_neq _ _) Hp), (proj2 (str_eqb_neq _ _) Hx), Ha.
  rewrite alias_collect_quiet by exact Hl. reflexivity.
Qed.

(* ------------------------------------------------------------------ home *)
Lemma tok_ok1_home W t t' : tok_ok1 W t t' -> expand_home_tok W t = t.
Proof.
  intros [t0 t0' H|ps _ _ _ Hs _ _ _ _]; unfold expand_home_tok.
  - pose proof (tok_ok_tagged_l _ _ _ H) as T. unfold tagged in T. rewrite T. reflexivity.
  - cbn [fst snd tag_is_empty tag_eqb]. rewrite Hs. reflexivity.
Qed.

Lemma expand_home_ok1 W (cmd : str) l l' :
  ~ In 126 cmd -> Forall2 (tok_ok1 W) l l' -> expand_home W ((TNone, cmd) :: l) = (TNone, cmd) :: l.
Proof.
  intros Hc Hl. rewrite expand_home_map. cbn [map].
  assert (E : map (expand_home_tok W) l = l).
  { induction Hl as [|t t' l l' Ht _ IH]; [reflexivity|]. cbn [map]. rewrite IH, (tok_ok1_home _ _ _ Ht). reflexivity. }
  rewrite E. unfold expand_home_tok. cbn [fst snd tag_is_empty tag_eqb]. rewrite (strip_prefix_absent 126 cmd Hc).
  reflexivity.
Qed.

(* ------------------------------------------------------------------ env *)
Lemma expand_env_tok_ok1 W t t' : tok_ok1 W t t' -> expand_env_tok W t = t'.
Proof.
  intros [t0 t0' H|ps Hwf Hg _ _ _ _ _ _].
  - apply expand_env_tok_ok. exact H.
  - apply expand_env_tok_den; [exact Hwf | exact Hg | discriminate | discriminate].
Qed.

Lemma expand_env_ok1 W (cmd : str) l l' :
  ~ In 36 cmd -> Forall2 (tok_ok1 W) l l' -> expand_env W ((TNone, cmd) :: l) = (TNone, cmd) :: l'.
Proof.
  intros Hc Hl. rewrite expand_env_map. cbn [map].
  assert (E : map (expand_env_tok W) l = l').
  { induction Hl as [|t t' l l' Ht _ IH]; [reflexivity|]. cbn [map]. rewrite IH, (expand_env_tok_ok1 _ _ _ Ht). reflexivity. }
  rewrite E. unfold expand_env_tok. cbn [fst snd]. rewrite (tagged_gate_no_dollar cmd _ Hc). reflexivity.
Qed.

(* ------------------------------------------------------------------ what is left behind *)
Lemma tok_ok1_calm_r W t t' : tok_ok1 W t t' -> calm t'.
Proof.
  intros [t0 t0' H|ps _ _ _ _ H96 Hdp _ _].
  - eapply tok_ok_calm_r. exact H.
  - right. cbn [fst snd]. split; [right; reflexivity|]. split; assumption.
Qed.

Lemma tok_ok1_still_r W t t' : tok_ok1 W t t' -> still t'.
Proof.
  intros [t0 t0' H|ps _ _ _ _ _ _ H42 H123].
  - eapply tok_ok_still_r. exact H.
  - right. cbn [fst snd]. split; assumption.
Qed.

Lemma forall2_quiet W l l' : Forall2 (tok_ok1 W) l l' -> Forall quiet_alias l.
Proof. induction 1 as [|t t' l l' Ht _ IH]; constructor; [eapply tok_ok1_quiet_alias; eassumption | exact IH]. Qed.
Lemma forall2_calm1 W l l' : Forall2 (tok_ok1 W) l l' -> Forall calm l'.
Proof. induction 1 as [|t t' l l' Ht _ IH]; constructor; [eapply tok_ok1_calm_r; eassumption | exact IH]. Qed.
Lemma forall2_still1 W l l' : Forall2 (tok_ok1 W) l l' -> Forall still l'.
Proof. induction 1 as [|t t' l l' Ht _ IH]; constructor; [eapply tok_ok1_still_r; eassumption | exact IH]. Qed.

Theorem do_expansion_inert1 : forall W fuel cmd l l',
  cmd_ok W cmd -> Forall2 (tok_ok1 W) l l' ->
  do_expansion Tokenizer.parse_line W fuel ((TNone, cmd) :: l) = Ok ((TNone, cmd) :: l').
Proof.
  intros W fuel cmd l l' Hc Hl.
  pose proof (forall2_quiet _ _ _ Hl) as Hq.
  assert (Hcalm : Forall calm ((TNone, cmd) :: l')).
  { constructor; [eapply cmd_calm; eassumption | eapply forall2_calm1; eassumption]. }
  assert (Hstill : Forall still ((TNone, cmd) :: l')).
  { constructor; [eapply cmd_still; eassumption | eapply forall2_still1; eassumption]. }
  destruct Hc as [Ha Hn (H36 & H96 & H126 & H42 & H123) Hw] eqn:EHc. clear EHc.
  unfold do_expansion, do_expansion_log.
  rewrite (not_arithmetic W cmd l Hc), (not_export_prompt W cmd l Hc).
  cbn zeta.
  rewrite (expand_alias_quiet _ W cmd l Hc Hq).
  rewrite (expand_home_ok1 W cmd l l' H126 Hl).
  rewrite (expand_env_ok1 W cmd l l' H36 Hl).
  rewrite (expand_brace_still _ Hstill). cbn [bind].
  rewrite (expand_glob_still W _ Hstill). cbn [bind].
  rewrite (do_command_substitution_calm fuel W _ Hcalm). cbn [bind fst snd].
  rewrite (expand_brace_range_still _ Hstill). reflexivity.
Qed.

Lemma inert_tok_ok1 W l : Forall inert l -> Forall2 (tok_ok1 W) l l.
Proof.
  induction 1 as [|t l Ht Hl IH]; constructor; [|exact IH].
  apply ok1_tagged. assert (H2 : Forall2 (tok_ok W) [t] [t]) by (apply inert_tok_ok; constructor; [exact Ht|constructor]).
  inversion H2; assumption.
Qed.

(* ------------------------------------------------------------------ literal text, ONE reference, literal text *)
Lemma one_ref_not_pipe (pre post : str) br name : pre ++ render_piece (PRef br name) ++ post <> [124].
Proof.
  intros E. assert (H : In 36 (pre ++ render_piece (PRef br name) ++ post)).
  { apply in_or_app. right. apply in_or_app. left. destruct br; left; reflexivity. }
  rewrite E in H. destruct H as [H|[]]. discriminate.
Qed.

Lemma one_ref_no_tilde (pre post : str) br name : ~ In 126 pre ->
  strip_prefix [126] (pre ++ render_piece (PRef br name) ++ post) = None.
Proof.
  intros H. destruct pre as [|c pre].
  - destruct br; reflexivity.
  - cbn [app strip_prefix]. destruct (126 =? c) eqn:E; [|reflexivity].
    apply N.eqb_eq in E. exfalso. apply H. left. congruence.
Qed.

(** the UNQUOTED counterpart of [ExpandInert.do_expansion_dq_value] *)
Corollary do_expansion_unquoted_value : forall W fuel cmd l1 l2 noeq br (pre : str) (name : str) (post : str),
  cmd_ok W cmd -> Forall inert l1 -> Forall inert l2 ->
  ~ In 36 pre -> ~ In 36 post -> ~ In 126 pre -> forallb (okg noeq) (pre ++ post) = true -> is_name name = true ->
  (br = true \/ match post with c :: _ => is_alnum_us c = false | [] => True end) ->
  ~ In 96 (pre ++ key_value W name ++ post) -> has_dollar_paren (pre ++ key_value W name ++ post) = false ->
  ~ In 42 (pre ++ key_value W name ++ post) -> ~ In 123 (pre ++ key_value W name ++ post) ->
  do_expansion Tokenizer.parse_line W fuel
    ((TNone, cmd) :: l1 ++ (TNone, pre ++ render_piece (PRef br name) ++ post) :: l2)
  = Ok ((TNone, cmd) :: l1 ++ (TNone, pre ++ key_value W name ++ post) :: l2).
Proof.
  intros W fuel cmd l1 l2 noeq br pre name post Hc H1 H2 Hpre Hpost Htl Hg Hn Hbr H96 Hdp H42 H123.
  apply do_expansion_inert1; [exact Hc|].
  apply Forall2_app; [apply inert_tok_ok1; exact H1|].
  constructor; [|apply inert_tok_ok1; exact H2].
  rewrite <- (render_one_ref pre post br name), <- (den_one_ref W pre post br name).
  apply ok1_uref.
  - apply wf_one_ref; assumption.
  - eapply gate_one_ref; eassumption.
  - rewrite render_one_ref. apply one_ref_not_pipe.
  - rewrite render_one_ref. apply one_ref_no_tilde. exact Htl.
  - rewrite den_one_ref. exact H96.
  - rewrite den_one_ref. exact Hdp.
  - rewrite den_one_ref. exact H42.
  - rewrite den_one_ref. exact H123.
Qed.

(* ------------------------------------------------------------------ an unquoted LITERAL word (operator words, file names) *)
(** no dollar, open paren, equals sign, backquote, star, open brace, tilde, bar *)
Definition lit_char (c : char) : bool :=
  negb (c =? 36) && negb (c =? 40) && negb (c =? 61) && negb (c =? 96) && negb (c =? 42) && negb (c =? 123)
  && negb (c =? 126) && negb (c =? 124).
Definition lit_ok (w : str) : bool := forallb lit_char w.

Lemma lit_not_in (k : char) (w : str) : lit_ok w = true -> lit_char k = false -> ~ In k w.
Proof.
  intros H Hk Hin. unfold lit_ok in H. rewrite forallb_forall in H. apply H in Hin. congruence.
Qed.

Lemma lit_tok_ok1 W (w : str) : lit_ok w = true -> tok_ok1 W (TNone, w) (TNone, w).
Proof.
  intros H.
  assert (H36 : ~ In 36 w) by (apply lit_not_in; [exact H|reflexivity]).
  assert (E : tok_ok1 W (TNone, render_pieces (map PLit w)) (TNone, den_pieces W (map PLit w))).
  { apply ok1_uref; rewrite ?render_map_lit, ?den_map_lit.
    - rewrite <- (app_nil_r (map PLit w)), wf_map_lit, (no36_forallb w H36). reflexivity.
    - unfold gate_ok. rewrite (lits_okg_map_lit true). apply orb_true_iff. left.
      unfold lit_ok in H. rewrite forallb_forall in *. intros c Hc. specialize (H c Hc). unfold lit_char in H. unfold okg.
      repeat (apply andb_true_iff in H as [H ?]). now repeat (apply andb_true_iff; split).
    - intros ->. discriminate H.
    - destruct w as [|c w]; [reflexivity|]. cbn [strip_prefix]. destruct (126 =? c) eqn:E; [|reflexivity].
      apply N.eqb_eq in E. subst c. discriminate H.
    - apply lit_not_in; [exact H|reflexivity].
    - apply has_dollar_paren_no_dollar. exact H36.
    - apply lit_not_in; [exact H|reflexivity].
    - apply lit_not_in; [exact H|reflexivity]. }
  rewrite render_map_lit, den_map_lit in E. exact E.
Qed.

Lemma tok_ok_ok1_all W l l' : Forall2 (tok_ok W) l l' -> Forall2 (tok_ok1 W) l l'.
Proof. induction 1; constructor; [now constructor|assumption]. Qed.
