(** Proofs about Model/History.v (C18). *)
From Coq Require Import ZArith Lia.
From Cicada Require Import Base.Chars Model.History.
Local Open Scope N_scope.

Definition no_sq_head (rest : str) : Prop := match rest with c :: _ => c <> c_sq | [] => True end.

(** Round trip of the quote-doubling encoding, for every text without code
    point 0 and every continuation that does not start with a quote. *)
Lemma lex_quote_body : forall line rest,
  has_nul line = false -> no_sq_head rest ->
  lex_body (quote_body line ++ c_sq :: rest) = Some (line, rest).
Proof.
  induction line as [|c line IH]; intros rest Hn Hr.
  - cbn. destruct rest as [|d rest]; [reflexivity|].
    cbn in Hr. apply N.eqb_neq in Hr. unfold c_sq in *. rewrite Hr. reflexivity.
  - cbn in Hn. apply orb_false_iff in Hn as [Hc Hn].
    cbn [quote_body]. destruct (c =? c_sq) eqn:E.
    + apply N.eqb_eq in E. subst c. cbn. rewrite (IH rest Hn Hr). reflexivity.
    + cbn [app lex_body]. rewrite Hc, E. rewrite (IH rest Hn Hr). reflexivity.
Qed.

Lemma lex_literal_quote : forall line rest,
  has_nul line = false -> no_sq_head rest ->
  lex_literal (c_sq :: quote_body line ++ c_sq :: rest) = Some (line, rest).
Proof. intros. cbn. now apply lex_quote_body. Qed.

(* ------------------------------------------------------------------ literal: exact class *)
Lemma quote_body_id : forall x, has_sq x = false -> quote_body x = x.
Proof.
  induction x as [|c x IH]; intro H; [reflexivity|].
  cbn in H. apply orb_false_iff in H as [Hc Hx]. cbn. rewrite Hc. f_equal. now apply IH.
Qed.

Lemma lex_body_plain : forall x rest,
  has_sq x = false -> has_nul x = false -> no_sq_head rest ->
  lex_body (x ++ c_sq :: rest) = Some (x, rest).
Proof. intros x rest Hs Hn Hr. rewrite <- (quote_body_id x Hs) at 1. now apply lex_quote_body. Qed.

(** Length accounting of the lexer: every quote in the value costs two input
    characters, the closing quote one. *)
Lemma lex_body_len : forall n s v r, (length s <= n)%nat ->
  lex_body s = Some (v, r) -> length s = (length v + count_sq v + 1 + length r)%nat.
Proof.
  induction n as [|n IH]; intros s v r Hl H.
  - destruct s; [discriminate|cbn in Hl; lia].
  - destruct s as [|c s]; [discriminate|]. cbn [lex_body] in H.
    destruct (c =? 0) eqn:E0; [discriminate|].
    destruct (c =? c_sq) eqn:Eq.
    + destruct s as [|c2 s2].
      * injection H as <- <-. reflexivity.
      * destruct (c2 =? c_sq) eqn:E2.
        -- destruct (lex_body s2) as [[v' r']|] eqn:L; [|discriminate]. injection H as <- <-.
           apply IH in L; [|cbn in Hl; lia]. cbn [length count_sq]. rewrite N.eqb_refl. cbn [length]. lia.
        -- injection H as <- <-. cbn. lia.
    + destruct (lex_body s) as [[v' r']|] eqn:L; [|discriminate]. injection H as <- <-.
      apply IH in L; [|cbn in Hl; lia]. cbn [length count_sq]. rewrite Eq. lia.
Qed.

Lemma count_sq_0 : forall x, count_sq x = O -> has_sq x = false.
Proof.
  induction x as [|c x IH]; intro H; [reflexivity|]. cbn in *.
  destruct (c =? c_sq); [discriminate|]. now apply IH.
Qed.

Lemma literal_raw_iff : forall x rest,
  has_nul x = false -> no_sq_head rest ->
  (lex_literal (c_sq :: x ++ c_sq :: rest) = Some (x, rest) <-> has_sq x = false).
Proof.
  intros x rest Hn Hr. split.
  - intro H. cbn in H. apply (lex_body_len _ _ _ _ (le_n _)) in H.
    rewrite app_length in H. cbn [length] in H. apply count_sq_0. lia.
  - intro Hs. cbn. now apply lex_body_plain.
Qed.

(* ------------------------------------------------------------------ the INSERT recogniser *)
Lemma strip_prefix_app : forall p r, strip_prefix p (p ++ r) = Some r.
Proof. induction p as [|a p IH]; intro r; cbn; [reflexivity|]. rewrite N.eqb_refl. apply IH. Qed.

Definition num_head_ok (r : str) : Prop := match r with c :: _ => is_numch c = false | [] => True end.

Lemma take_num_app : forall n r, forallb is_numch n = true -> num_head_ok r -> take_num (n ++ r) = (n, r).
Proof.
  induction n as [|c n IH]; intros r Hn Hr.
  - cbn. destruct r as [|d r]; [reflexivity|]. cbn in Hr. cbn. rewrite Hr. reflexivity.
  - cbn in Hn. apply andb_true_iff in Hn as [Hc Hn]. cbn [app take_num]. rewrite Hc, (IH r Hn Hr). reflexivity.
Qed.

Lemma numch_not_sq : forall c, is_numch c = true -> c =? c_sq = false.
Proof. intros c H. destruct (c =? c_sq) eqn:E; [|reflexivity]. apply N.eqb_eq in E. subst c. discriminate H. Qed.

Lemma numch_not_space : forall c, is_numch c = true -> c =? c_space = false.
Proof. intros c H. destruct (c =? c_space) eqn:E; [|reflexivity]. apply N.eqb_eq in E. subst c. discriminate H. Qed.

Definition numeral (n : str) : Prop := n <> [] /\ forallb is_numch n = true.

Lemma parse_value_num : forall n r, numeral n -> num_head_ok r ->
  parse_value (skip_sp (c_space :: n ++ r)) = Some (VNum n, r).
Proof.
  intros n r [Hne Hn] Hr. destruct n as [|c n]; [contradiction|].
  pose proof Hn as Hn'. cbn in Hn'. apply andb_true_iff in Hn' as [Hc _].
  cbn [skip_sp app]. rewrite N.eqb_refl. cbn [skip_sp]. rewrite (numch_not_space c Hc).
  cbn [parse_value]. rewrite (numch_not_sq c Hc).
  change (c :: n ++ r) with ((c :: n) ++ r). rewrite (take_num_app (c :: n) r Hn Hr). reflexivity.
Qed.

Lemma parse_value_str : forall x r, has_sq x = false -> has_nul x = false -> no_sq_head r ->
  parse_value (c_sq :: x ++ c_sq :: r) = Some (VStr x, r).
Proof. intros. cbn [parse_value]. rewrite N.eqb_refl. rewrite lex_body_plain; auto. Qed.

Lemma parse_value_quoted : forall l r, has_nul l = false -> no_sq_head r ->
  parse_value (c_sq :: quote_body l ++ c_sq :: r) = Some (VStr l, r).
Proof. intros. cbn [parse_value]. rewrite N.eqb_refl. rewrite lex_quote_body; auto. Qed.

Lemma parse_values_mono : forall f s x, parse_values f s = Some x ->
  forall f', (f <= f')%nat -> parse_values f' s = Some x.
Proof.
  induction f as [|f IH]; intros s x H f' Hle; [discriminate|].
  destruct f' as [|f']; [lia|]. cbn [parse_values] in *.
  destruct (parse_value (skip_sp s)) as [[v r]|]; [|discriminate].
  destruct (skip_sp r) as [|c r']; [discriminate|].
  destruct (c =? c_comma).
  - destruct (parse_values f r') as [[vs r'']|] eqn:E; [|discriminate].
    rewrite (IH r' _ E f'); [exact H|lia].
  - exact H.
Qed.

(** Normal form of the INSERT text: fixed characters as conses. *)
Definition insert_tail (line status tsb tse session dir : str) : str :=
  c_sq :: quote_body (trim line) ++ c_sq :: c_comma :: c_space :: status ++ c_comma :: c_space :: tsb ++
  c_comma :: c_space :: tse ++ c_comma :: c_space :: c_sq :: session ++ c_sq :: c_comma :: c_space ::
  c_sq :: (s_dir ++ dir ++ s_bar) ++ c_sq :: c_rp :: c_semi :: [].

Lemma insert_sql_nf : forall table line status tsb tse session dir,
  insert_sql table line status tsb tse session dir =
  s_insert_into ++ table ++ s_cols_values ++ c_lp :: insert_tail line status tsb tse session dir.
Proof.
  intros. unfold insert_sql, insert_tail, s_comma_sp. cbn [app].
  repeat (rewrite <- ?app_assoc; cbn [app]). reflexivity.
Qed.

Lemma has_sq_app a b : has_sq (a ++ b) = has_sq a || has_sq b.
Proof. unfold has_sq. apply existsb_app. Qed.
Lemma has_nul_app a b : has_nul (a ++ b) = has_nul a || has_nul b.
Proof. unfold has_nul. apply existsb_app. Qed.

Lemma has_nul_trim_start : forall l, has_nul l = false -> has_nul (trim_start l) = false.
Proof.
  induction l as [|c l IH]; intro H; [reflexivity|]. cbn [trim_start].
  destruct (is_ws c); [|exact H]. apply IH. cbn in H. now apply orb_false_iff in H as [_ H].
Qed.
Lemma has_nul_rev : forall l, has_nul (rev l) = has_nul l.
Proof.
  induction l as [|c l IH]; [reflexivity|]. cbn [rev]. rewrite has_nul_app, IH.
  unfold has_nul at 2 3. cbn [existsb]. fold (has_nul l).
  destruct (c =? 0), (has_nul l); reflexivity.
Qed.
Lemma has_nul_trim : forall l, has_nul l = false -> has_nul (trim l) = false.
Proof.
  intros l H. unfold trim, trim_end. rewrite has_nul_rev. apply has_nul_trim_start.
  rewrite has_nul_rev. now apply has_nul_trim_start.
Qed.

Lemma values_of_insert_tail : forall line status tsb tse session dir,
  has_nul line = false -> numeral status -> numeral tsb -> numeral tse ->
  has_sq session = false -> has_nul session = false -> has_sq dir = false -> has_nul dir = false ->
  parse_values 6 (insert_tail line status tsb tse session dir) =
  Some (intended_row line status tsb tse session dir, [c_semi]).
Proof.
  intros line status tsb tse session dir Hl Hs Hb He Hss Hsn Hds Hdn.
  unfold insert_tail, intended_row.
  assert (Hinfo_s : has_sq (s_dir ++ dir ++ s_bar) = false)
    by (rewrite !has_sq_app, Hds; reflexivity).
  assert (Hinfo_n : has_nul (s_dir ++ dir ++ s_bar) = false)
    by (rewrite !has_nul_app, Hdn; reflexivity).
  (* value 1: the quoted line *)
  cbn [parse_values]. cbn [skip_sp]. change (c_sq =? c_space) with false. cbv iota.
  rewrite parse_value_quoted; [|now apply has_nul_trim| cbn; discriminate].
  cbn [skip_sp]. change (c_comma =? c_space) with false. cbv iota. rewrite N.eqb_refl.
  (* value 2..4: numerals *)
  rewrite parse_value_num; [|assumption|reflexivity].
  cbn [skip_sp]. change (c_comma =? c_space) with false. cbv iota. rewrite N.eqb_refl.
  rewrite parse_value_num; [|assumption|reflexivity].
  cbn [skip_sp]. change (c_comma =? c_space) with false. cbv iota. rewrite N.eqb_refl.
  rewrite parse_value_num; [|assumption|reflexivity].
  cbn [skip_sp]. change (c_comma =? c_space) with false. cbv iota. rewrite N.eqb_refl.
  (* value 5: session *)
  cbn [skip_sp]. rewrite N.eqb_refl. cbn [skip_sp]. change (c_sq =? c_space) with false. cbv iota.
  rewrite parse_value_str; [|assumption|assumption|cbn; discriminate].
  cbn [skip_sp]. change (c_comma =? c_space) with false. cbv iota. rewrite N.eqb_refl.
  (* value 6: info *)
  cbn [skip_sp]. rewrite N.eqb_refl. cbn [skip_sp]. change (c_sq =? c_space) with false. cbv iota.
  rewrite parse_value_str; [|assumption|assumption|cbn; discriminate].
  cbn [skip_sp]. change (c_rp =? c_space) with false. cbv iota.
  change (c_rp =? c_comma) with false. cbv iota. rewrite N.eqb_refl. reflexivity.
Qed.

Record wf_args (line status tsb tse session dir : str) : Prop := mkwf {
  wf_line : has_nul line = false; wf_status : numeral status; wf_tsb : numeral tsb; wf_tse : numeral tse;
  wf_session : has_nul session = false; wf_dir : has_nul dir = false }.

Definition insert_exact (table line status tsb tse session dir : str) : Prop :=
  parse_insert table (insert_sql table line status tsb tse session dir) =
  Some [intended_row line status tsb tse session dir].

Lemma insert_tail_len : forall line status tsb tse session dir,
  (6 <= length (insert_tail line status tsb tse session dir))%nat.
Proof. intros. unfold insert_tail. cbn [length]. repeat (rewrite app_length; cbn [length]). lia. Qed.

Theorem insert_ok : forall table line status tsb tse session dir,
  wf_args line status tsb tse session dir ->
  has_sq session = false -> has_sq dir = false ->
  insert_exact table line status tsb tse session dir.
Proof.
  intros table line status tsb tse session dir [Hl Hs Hb He Hsn Hdn] Hss Hds.
  unfold insert_exact, parse_insert. rewrite insert_sql_nf.
  rewrite strip_prefix_app. cbn [bind]. rewrite strip_prefix_app. cbn [bind].
  rewrite strip_prefix_app. cbn [bind].
  cbn [parse_tuples skip_sp]. change (c_lp =? c_space) with false. cbv iota. rewrite N.eqb_refl.
  rewrite (parse_values_mono 6 _ _ (values_of_insert_tail line status tsb tse session dir Hl Hs Hb He Hss Hsn Hds Hdn));
    [|apply insert_tail_len].
  cbn [skip_sp]. change (c_semi =? c_space) with false. cbv iota. rewrite N.eqb_refl.
  cbn [bind]. reflexivity.
Qed.

(* ------------------------------------------------------------------ refutations (witnesses) *)
Definition w_table : str := [99;105;99;97;100;97;95;104;105;115;116;111;114;121].      (* cicada_history *)
Definition w_line : str := [108;115].                                                  (* ls *)
Definition w_num0 : str := [48].
Definition w_num1 : str := [49].
Definition w_sess : str := [115;49].                                                   (* s1 *)
Definition w_dir_quote : str := [47;116;109;112;47;105;116;39;115].                    (* /tmp/it's *)
(* /w/x|'), ('pwn', 0, 0, 0, 's', 'dir:y *)
Definition w_dir_inject : str :=
  [47;119;47;120;124;39;41;44;32;40;39;112;119;110;39;44;32;48;44;32;48;44;32;48;44;32;39;115;39;44;32;39;100;105;114;58;121].
Definition w_pat_quote : str := [105;116;39].                                          (* it' *)

Lemma w_wf_quote : wf_args w_line w_num0 w_num0 w_num1 w_sess w_dir_quote.
Proof. split; try reflexivity; (split; [discriminate|reflexivity]). Qed.
Lemma w_wf_inject : wf_args w_line w_num0 w_num0 w_num1 w_sess w_dir_inject.
Proof. split; try reflexivity; (split; [discriminate|reflexivity]). Qed.

(** A directory name with a quote: the text is not an INSERT of the intended row. *)
Lemma dir_quote_not_exact : parse_insert w_table (insert_sql w_table w_line w_num0 w_num0 w_num1 w_sess w_dir_quote) = None.
Proof. vm_compute. reflexivity. Qed.

(** A crafted directory name: the text is a well-formed INSERT of TWO rows, the
    second of which (text pwn) was never submitted. *)
Lemma dir_injection :
  parse_insert w_table (insert_sql w_table w_line w_num0 w_num0 w_num1 w_sess w_dir_inject) =
  Some [ [VStr w_line; VNum w_num0; VNum w_num0; VNum w_num1; VStr w_sess; VStr [100;105;114;58;47;119;47;120;124]];
         [VStr [112;119;110]; VNum w_num0; VNum w_num0; VNum w_num0; VStr [115]; VStr [100;105;114;58;121;124]] ].
Proof. vm_compute. reflexivity. Qed.

(* ------------------------------------------------------------------ table *)
Lemma db_delete_exact : forall rows n r, In r (db_delete rows n) <-> In r rows /\ r_id r <> n.
Proof.
  intros rows n r. unfold db_delete. rewrite filter_In. split; intros [H1 H2]; split; auto.
  - apply negb_true_iff, N.eqb_neq in H2. exact H2.
  - apply negb_true_iff, N.eqb_neq. exact H2.
Qed.

Lemma digits_no_sq : forall n, forallb is_digit n = true -> has_sq n = false.
Proof.
  induction n as [|c n IH]; intro Hn; [reflexivity|]. cbn in Hn. apply andb_true_iff in Hn as [Hc Hn].
  unfold has_sq. cbn [existsb]. fold (has_sq n). rewrite (IH Hn), orb_false_r.
  destruct (c =? c_sq) eqn:E; [|reflexivity]. apply N.eqb_eq in E. subst c. discriminate Hc.
Qed.

Lemma delete_sql_no_quote : forall table n, has_sq table = false -> forallb is_digit n = true ->
  has_sq (delete_sql table n) = false.
Proof.
  intros table n Ht Hn. unfold delete_sql. rewrite !has_sq_app, Ht, (digits_no_sq n Hn). reflexivity.
Qed.

Lemma next_id_fresh : forall rows r, In r rows -> r_id r < next_id rows.
Proof.
  unfold next_id. induction rows as [|x rows IH]; intros r H; [contradiction|].
  cbn [fold_right]. destruct H as [->|H]; [lia|]. specialize (IH r H). lia.
Qed.

Lemma db_insert_spec : forall rows inp tsb s i,
  db_insert rows inp tsb s i = rows ++ [mkrow (next_id rows) inp tsb s i] /\
  (forall r, In r rows -> r_id r <> next_id rows).
Proof. intros. split; [reflexivity|]. intros r H. apply next_id_fresh in H. lia. Qed.

Lemma ins_asc_In : forall x l r, In r (ins_asc x l) <-> r = x \/ In r l.
Proof.
  induction l as [|y l IH]; intro r; cbn.
  - intuition.
  - destruct (r_tsb x <? r_tsb y)%Z; cbn; [intuition|]. rewrite IH. intuition.
Qed.

Lemma sort_asc_In : forall l r, In r (sort_asc l) <-> In r l.
Proof.
  intros l r. unfold sort_asc. rewrite (in_rev l r). generalize (rev l) as m.
  induction m as [|y m IH]; cbn; [tauto|]. rewrite ins_asc_In, IH. intuition.
Qed.

Lemma take_limit_In : forall lim l r, In r (take_limit lim l) -> In r l.
Proof.
  intros lim l r. unfold take_limit. destruct (lim <? 0)%Z; [auto|].
  revert l. induction (Z.to_nat lim) as [|k IH]; intros l H; [contradiction|].
  destruct l as [|y l]; [contradiction|]. cbn in H. destruct H as [->|H]; [now left|right; now apply IH].
Qed.

Lemma db_list_sound : forall rows p s d o r,
  In r (db_list rows p s d o) -> In r rows /\ row_matches p s d o r = true.
Proof.
  intros rows p s d o r H. unfold db_list in H.
  assert (In r (sort_asc (filter (row_matches p s d o) rows))) as H'.
  { destruct (o_asc o).
    - now apply take_limit_In in H.
    - apply in_rev in H. apply take_limit_In in H. now apply in_rev in H. }
  apply (proj1 (sort_asc_In _ _)) in H'. now apply (proj1 (filter_In _ _ _)) in H'.
Qed.

Lemma db_list_complete : forall rows p s d o r, (o_limit o < 0)%Z ->
  In r rows -> row_matches p s d o r = true -> In r (db_list rows p s d o).
Proof.
  intros rows p s d o r Hl Hin Hm. unfold db_list, take_limit.
  apply Z.ltb_lt in Hl. rewrite Hl.
  assert (In r (sort_asc (filter (row_matches p s d o) rows))) by (apply (proj2 (sort_asc_In _ _)), (proj2 (filter_In _ _ _)); auto).
  destruct (o_asc o); [assumption|]. rewrite rev_involutive. assumption.
Qed.

(* ------------------------------------------------------------------ LIKE: no false negatives *)
Lemma like_pct_unfold : forall p t,
  like (c_pct :: p) t = like p t || match t with [] => false | _ :: t' => like (c_pct :: p) t' end.
Proof. intros p t. destruct t; reflexivity. Qed.

Lemma like_pct_skip : forall p a t, like (c_pct :: p) t = true -> like (c_pct :: p) (a ++ t) = true.
Proof.
  induction a as [|c a IH]; intros t H; [exact H|].
  cbn [app]. rewrite like_pct_unfold. rewrite (IH t H). apply orb_true_r.
Qed.

Lemma like_pct_nil_any : forall t, like [c_pct] t = true.
Proof. induction t as [|c t IH]; [reflexivity|]. rewrite like_pct_unfold. cbn [like is_empty]. exact IH. Qed.

Lemma like_self_prefix : forall p q t, like q t = true -> like (p ++ q) (p ++ t) = true.
Proof.
  induction p as [|c p IH]; intros q t H; [exact H|].
  cbn [app]. destruct (c =? c_pct) eqn:E.
  - apply N.eqb_eq in E. subst c. rewrite like_pct_unfold. cbv beta iota.
    assert (X : like (c_pct :: p ++ q) (p ++ t) = true).
    { rewrite like_pct_unfold. rewrite (IH q t H). reflexivity. }
    rewrite X. apply orb_true_r.
  - cbn [like]. rewrite E. rewrite N.eqb_refl, orb_true_r. cbn [andb]. now apply IH.
Qed.

Lemma search_complete : forall p a b, like (wrap_pct p) (a ++ p ++ b) = true.
Proof.
  intros p a b. unfold wrap_pct. cbn [app]. apply like_pct_skip.
  rewrite like_pct_unfold. rewrite (like_self_prefix p [c_pct] b (like_pct_nil_any b)). reflexivity.
Qed.

(* ------------------------------------------------------------------ recording rule *)
Fixpoint adj_distinct (l : list str) : Prop :=
  match l with
  | a :: ((b :: _) as t) => a <> b /\ adj_distinct t
  | _ => True
  end.

Lemma session_no_repeat : forall bang typed prev, adj_distinct (prev :: session_run bang prev typed).
Proof.
  induction typed as [|t typed IH]; intro prev; [exact I|].
  cbn [session_run]. unfold session_step.
  destruct (is_empty (trim t)); [apply IH|].
  destruct (negb (starts_with_space t) && negb (str_eqb (bang prev t) prev)) eqn:E; [|apply IH].
  apply andb_true_iff in E as [_ E]. apply negb_true_iff, str_eqb_neq in E.
  cbn [adj_distinct]. split; [congruence|apply IH].
Qed.

Definition idbang (prev typed : str) : str := typed.

Lemma session_sound : forall typed prev l, In l (session_run idbang prev typed) ->
  In l typed /\ starts_with_space l = false /\ trim l <> [].
Proof.
  induction typed as [|t typed IH]; intros prev l H; [contradiction|].
  cbn [session_run] in H. unfold session_step, idbang in H.
  destruct (is_empty (trim t)) eqn:Et.
  - apply IH in H. intuition.
  - destruct (negb (starts_with_space t) && negb (str_eqb t prev)) eqn:E.
    + destruct H as [<-|H].
      * apply andb_true_iff in E as [E _]. apply negb_true_iff in E. repeat split; auto; [now left|].
        intro X. rewrite X in Et. discriminate.
      * apply IH in H. intuition.
    + apply IH in H. intuition.
Qed.

Lemma session_complete_gen : forall typed prev t, In t typed -> starts_with_space t = false -> trim t <> [] ->
  In t (session_run idbang prev typed) \/ t = prev.
Proof.
  induction typed as [|x typed IH]; intros prev t Hin Hs Hb; [contradiction|].
  cbn [session_run]. unfold session_step, idbang.
  destruct Hin as [->|Hin].
  - destruct (is_empty (trim t)) eqn:Et; [destruct (trim t); [contradiction|discriminate]|].
    rewrite Hs. cbn [negb andb]. destruct (str_eqb t prev) eqn:E.
    + right. now apply str_eqb_eq.
    + left. now left.
  - destruct (is_empty (trim x)); [now apply IH|].
    destruct (negb (starts_with_space x) && negb (str_eqb x prev)).
    + destruct (IH x t Hin Hs Hb) as [H| ->]; left; [now right|now left].
    + now apply IH.
Qed.

Lemma session_complete : forall typed t, In t typed -> starts_with_space t = false -> trim t <> [] ->
  In t (session_run idbang [] typed).
Proof.
  intros typed t Hin Hs Hb. destruct (session_complete_gen typed [] t Hin Hs Hb) as [H| ->]; [exact H|].
  exfalso. apply Hb. reflexivity.
Qed.

(* ------------------------------------------------------------------ the LIKE literal of the SELECT *)
Lemma like_lit_nf : forall p rest, like_lit p ++ rest = c_sq :: wrap_pct p ++ c_sq :: rest.
Proof. intros. unfold like_lit, wrap_pct. cbn [app]. repeat (rewrite <- ?app_assoc; cbn [app]). reflexivity. Qed.

Lemma has_sq_wrap p : has_sq (wrap_pct p) = has_sq p.
Proof. unfold wrap_pct. rewrite !has_sq_app. cbn. now rewrite orb_false_r. Qed.
Lemma has_nul_wrap p : has_nul (wrap_pct p) = has_nul p.
Proof. unfold wrap_pct. rewrite !has_nul_app. cbn. now rewrite orb_false_r. Qed.

Lemma like_lit_iff : forall p rest, has_nul p = false -> no_sq_head rest ->
  (lex_literal (like_lit p ++ rest) = Some (wrap_pct p, rest) <-> has_sq p = false).
Proof.
  intros p rest Hn Hr. rewrite like_lit_nf. rewrite <- (has_sq_wrap p).
  apply literal_raw_iff; [now rewrite has_nul_wrap|assumption].
Qed.

Lemma not_full : ~ (forall table line status tsb tse session dir,
  wf_args line status tsb tse session dir -> insert_exact table line status tsb tse session dir).
Proof.
  intro H. specialize (H w_table _ _ _ _ _ _ w_wf_quote). unfold insert_exact in H.
  rewrite dir_quote_not_exact in H. discriminate.
Qed.
